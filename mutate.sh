#!/bin/bash
# ./mutate.sh <patch.diff> <ID> [<ID>...]   apply a patch to a scratch worktree of /repo (never /repo itself),
# run the repository's own tests there, then the listed checks against it; remove the worktree.
set -u
export GOFLAGS=-mod=mod GOPROXY=off GOSUMDB=off GOTOOLCHAIN=local
PATCH="$(realpath "$1")"; shift
WT="$(mktemp -d /tmp/verif-mut-XXXXXX)"; rmdir "$WT"
git -C /repo worktree add -q --detach "$WT" HEAD || exit 2
trap 'git -C /repo worktree remove --force "$WT" >/dev/null 2>&1; rm -rf "$WT"' EXIT
if ! git -C "$WT" apply "$PATCH"; then echo "PATCH DOES NOT APPLY"; exit 2; fi
if (cd "$WT" && go test -vet=off -count=1 ./... >/tmp/mut-test.log 2>&1); then echo "repo tests: PASS"; else echo "repo tests: FAIL (mutant is caught by the repository's own tests)"; tail -5 /tmp/mut-test.log; fi
for ID in "$@"; do
  OUT="$(VERIF_REPO="$WT" VERIF_KEEP_EVIDENCE=1 "$(dirname "$0")/vcheck" "$ID" quick 2>&1)"; RC=$?
  echo "$ID exit=$RC $(echo "$OUT" | grep -c '^VIOLATION') violation line(s)"
  echo "$OUT" | grep -E "^\s+\[$ID\]" | cut -c1-220 | head -5
done
