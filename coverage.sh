#!/bin/bash
# ./coverage.sh  statement coverage of package astisub reached by the quick tiers of the plain-build checks
# (C01-C07, C09-C18; C08, C19 and C20 run on the overlay-instrumented build, which go's -cover cannot combine with).
# Prints the percentage and every uncovered block; used to look for reachability gaps of the generators.
set -u
export GOFLAGS=-mod=mod GOPROXY=off GOSUMDB=off GOTOOLCHAIN=local
HERE="$(cd "$(dirname "$0")" && pwd)"
W="$(mktemp -d /tmp/verif-cov-XXXXXX)"; trap 'rm -rf "$W"' EXIT
mkdir -p "$W/data" "$W/scr"
(cd "$HERE/engine" && go build -cover -coverpkg=all -o "$W/vdriver" ./cmd/vdriver) || exit 2
(cd /repo && go build -o "$W/cli" ./astisub) || exit 2
for p in C01 C02 C03 C04 C05 C06 C07 C09 C10 C11 C12 C13 C14 C15 C16 C17 C18; do
  GOCOVERDIR="$W/data" VERIF_KEEP_EVIDENCE=1 VERIF_CLI_BIN="$W/cli" VERIF_REPO=/repo "$W/vdriver" run -prop $p -tier quick -scratch "$W/scr" 2>&1 | grep -v KNOWN | tail -1 | cut -c1-70
done
(cd "$HERE/engine" && go tool covdata textfmt -i="$W/data" -pkg=github.com/asticode/go-astisub -o "$W/prof.txt") || exit 2
python3 - "$W/prof.txt" <<'PY'
import re,sys,collections
un=collections.defaultdict(list); tot=cov=0
for l in open(sys.argv[1]):
    m=re.match(r'(.*):(\d+)\.\d+,(\d+)\.\d+ (\d+) (\d+)',l)
    if not m: continue
    f,a,b,n,c=m.groups(); n=int(n); tot+=n
    if int(c)>0: cov+=n
    else: un[f.split('/')[-1]].append((int(a),int(b)))
print(f"statements {tot} covered {cov} = {100*cov/tot:.1f}%")
for f,v in sorted(un.items()): print(f, ' '.join(f"{a}-{b}" for a,b in sorted(v)))
PY
