#!/bin/bash
# ./matrix.sh : run every mutants/<prop>-*.diff against the quick check of its property (prefix cNN).
cd "$(dirname "$0")"
for f in mutants/*.diff; do
  n=$(basename "$f" .diff); id="C${n:1:2}"
  echo "### $n"
  ./mutate.sh "$f" "$id" 2>&1 | grep -vE "^\s+\[" 
done
