#!/usr/bin/env python3
"""Regenerates MANIFEST.json from the table below (kept in one place so it stays valid)."""
import json, sys

ALL = ["C%02d" % i for i in range(1, 21)]

CHECKS = {
 "C09": dict(level="model_checking", design="§3 C09, §0.1 E3",
   technique="explicit-state search (BFS over canonical cue lists, every small list as initial state) with the real Add as transition function, compared with a reference model on every transition",
   text="Every list in the small scope x every shift is executed on the real code and compared with an 11-line executable specification (survivors, order, pointer identity, content, times, inverse law); chains of shifts explored breadth-first with state deduplication. Exhaustive within the stated grid; nothing is sampled.",
   note="Trusted: Go toolchain/stdlib, the reference model refops.Add. Bound: <=3-4 cues on grids 0..5, units 1ns/1ms/1s/1h+1ms; values outside the grid only through scaling."),
}

def main():
    checks = []
    for pid in ALL:
        if pid not in CHECKS: continue
        c = CHECKS[pid]
        checks.append({
            "property_id": pid,
            "quick_cmd": "./vcheck %s quick" % pid,
            "thorough_cmd": "./vcheck %s thorough" % pid,
            "evidence_file": "/verif/evidence/%s.json" % pid,
            "replay_cmd_template": "./vcheck %s --replay {path}" % pid,
            "engine": c.get("engine", "engine"),
            "level_claimed": {"category": c["level"], "text": c["text"], "design_ref": c["design"]},
            "level_note": c["note"],
            "technique": c["technique"],
        })
    na = [{"property_id": p, "reason": "check not built yet (work in progress; will be claimed once its exhaustive check exists)"} for p in ALL if p not in CHECKS]
    m = {
        "version": 1,
        "setup_cmd": "./setup.sh",
        "hooks": {
            "guard": "verif",
            "enable": "go build -tags verif -overlay <scratch>/overlay.json (overlay generated from /repo's working tree by engine/instr on every run; /repo itself carries no hook code)",
            "baseline_off_cmd": "cd /repo && GOFLAGS=-mod=mod GOPROXY=off GOSUMDB=off go test -vet=off -count=1 ./...",
            "source_commits": [],
            "add_only": True,
        },
        "engines": [
            {"name": "engine", "path": "/verif/engine", "serves_properties": sorted(CHECKS.keys()),
             "kind_free_text": "hand-written Go explorers: E1 choice-sequence (deviation-bounded) explorer, E2 cooperative scheduler, E3 explicit-state BFS over real transition functions; sharded over 16 worker processes"},
        ],
        "checks": checks,
        "not_applicable": na,
        "notes": "All checks rebuild their harness against /repo's working tree on every run (./vcheck). Known findings: /verif/KNOWN_FINDINGS.txt.",
    }
    json.dump(m, open("/verif/MANIFEST.json", "w"), indent=1)
    print("wrote MANIFEST.json with", len(checks), "checks;", len(na), "not applicable")

main()
