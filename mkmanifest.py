#!/usr/bin/env python3
"""Regenerates MANIFEST.json from the table below (kept in one place so it stays valid)."""
import json, sys

ALL = ["C%02d" % i for i in range(1, 21)]

CHECKS = {
 "C03": dict(level="exploration", design="§3 C03, §0.1 E1",
   technique="stateless choice-sequence exploration (E1): a time sweep (every millisecond of [0,3s), every frame/tick count in [0,1000) under 10 frame/tick rate pairs in every exact time-expression syntax), full products for line shapes x br placements, all 21 style forests on <=3 nodes x regions x references, attribute subsets x namespace variants, plus the deviation ball; real TTML reader/writer judged against an independent encoding/xml token-walk decoder with exact rational instants",
   text="Every (model, rendering) in the sweep, products and ball is rendered and read by ReadFromTTML (instants as exact rationals, lines of styled characters, style/region tables and inheritance, title/copyright/language); every representable model is written by WriteToTTML with each indent option and decoded by the library and by the independent decoder.",
   note="Trusted: Go toolchain/stdlib (encoding/xml), engine/ref/ttml. Nested spans, raw newlines in character data, dur=, >3-digit fractions are outside the generator (DESIGN domain notes)."),
 "C02": dict(level="exploration", design="§3 C02, §0.1 E1",
   technique="stateless choice-sequence exploration (E1): eight full products of small grammars (runs, lines, tag leakage across cues, all 32 settings subsets, regions x 32 attribute subsets, STYLE/timestamp-map/header forms, arbitrary tag stacks) plus deviation balls (B=3 quick, B=4 thorough) over all model and rendering choice points, on the real WebVTT reader/writer, judged against an independent reference codec",
   text="Every (model, rendering) in the products and balls is rendered and read by ReadFromWebVTT (denotation: times, identifiers, comments, regions, settings, voices, tag stacks per styled character, inline timestamps, STYLE lines, timestamp map); every representable model is written by WriteToWebVTT and decoded by the library and by an independent block-level decoder that also checks consecutive numbering and region-defined-before-use.",
   note="Trusted: Go toolchain/stdlib, engine/ref/vtt. Voices modelled per line (the lenient reading); payload lines that look like block headers and the bare NOTE form are outside the generator."),
 "C04": dict(level="exploration", design="§3 C04, §0.1 E1",
   technique="stateless choice-sequence exploration (E1): full products of small grammars (style columns in every permutation, event columns in all 120 orders, text shapes, script-info subsets) plus the deviation ball over all model and rendering choice points, on the real SSA reader/writer, judged against an independent Format-driven reference codec",
   text="Every (model, rendering) in the products and the ball is rendered and read by ReadFromSSA (denotation comparison); every representable model is written by WriteToSSA (v4 and v4+), decoded by the library and by an independent decoder (true <=> -1), and write-read-write must be byte-identical.",
   note="Trusted: Go toolchain/stdlib, engine/ref/ssa. Write direction uses style tables with one shared attribute set (map order is C19's subject). Known finding: true booleans written as 1 (golden files pin it)."),
 "C05": dict(level="exploration", design="§3 C05",
   technique="exhaustive enumeration (E1 products + deviation ball + finite tables): every timecode of a product of h,m,s and all frames at 25/30 fps, every Latin code, every diacritic x base letter, style-code strings, block patterns with user-data blocks, GSI fields, DSC 0/1/2, TCP, reader option; real STL reader/writer judged against an independent Tech 3264 encoder/decoder",
   text="Every file in scope is encoded by the independent encoder and read by ReadFromSTL (metadata, timecodes minus TCP, rows, runs, justification, vertical position); every representable model is written by WriteToSTL, checked structurally and decoded by the library and by the independent decoder; read-write-read changes no timecode.",
   note="Trusted: Go toolchain/stdlib, engine/ref/stl (table written from ISO 6937 / Tech 3264). Known findings: no box codes under teletext display standards; '$' written as 0x24 (both pinned by golden files)."),
 "C06": dict(level="exploration", design="§3 C06",
   technique="exhaustive enumeration (product mode) of a packet-sequence language: all words up to a length over an alphabet of teletext packet kinds x reader options x multiplexing variants x row-text tables, assembled into valid transport streams by an independent encoder and judged against a reference page machine written from the property sentence",
   text="Every word of length <=3 over 26 packet kinds (4 over 16; thorough <=4 over 26 and 5 over 14), under serial and parallel mode, page/PID given or auto-detected, 8 multiplexing variants, every G0 position under 7 national subsets, all attribute-code strings of length <=3, parity failures at every cell and every truncation of six packet kinds is read by ReadFromTeletext under recover() and compared with the reference machine (cues, times, lines, runs, text).",
   note="Trusted: Go toolchain/stdlib, astits (muxer for the packet/PAT/PMT layer; demuxer delegated to by the library), engine/ref/teletext (encoder + reference machine). Shapes the sentence does not settle run under the crash oracle only (listed in the check's assumptions). Known finding: X/28-M/29 triplet misread."),
 "C07": dict(level="model_checking", design="§3 C07, §0.1 E3",
   technique="explicit-state search over operation histories (BFS with canonical-state deduplication, real operations as transition functions compared with the composed reference specifications) + exhaustive (source document x destination) conversion pairs through the file API + the CLI binary compared byte for byte with the library",
   text="Every readable corpus document is converted to every destination extension through OpenFile/Write on real files and read back (count, order, truncated times, text); every state reachable by operation sequences of length <=2 (thorough 3) over an 11-letter alphabet from 11 source documents is checked against the composed specifications and written to all writers; the CLI built from the tree is run for every sub-command and compared with the library.",
   note="Trusted: Go toolchain/stdlib; the source reader (C01-C06 judge it); conservative representability predicates; text compared with all white space removed. Known finding: text lost in .stl under teletext display standards (see KNOWN_FINDINGS.txt)."),
 "C20": dict(level="model_checking", design="§3 C20, §0.1 E2",
   technique="stateless model checking with a cooperative scheduler over statement-level points of the instrumented library (all schedules within a preemption bound for every pair/triple of independent operations), plus an exhaustive frozen-globals invariant probed at every statement, plus a separate free-running race-detector pass",
   text="Stage A: every operation alone with the canonical hash of all package-level state compared at every statement and after every ordered pair. Stage B: every unordered pair of the operation alphabet in both orders (and 5 triples) under every schedule with <=1 preemption at statement granularity (<=2 for same-format pairs, thorough); every call's result must equal its solo result. Stage C: the same bodies free-running under -race.",
   note="Trusted: Go toolchain/stdlib/race detector; dependencies run atomically between points; opaque leaves in the globals hash (regexp, Replacer, sync, funcs). Stage C is sampling by nature and is additional to A and B."),
 "C08": dict(level="exploration", design="§3 C08, §0.2 I-points",
   technique="exhaustive enumeration of three input families (all token words up to a length, full single-mutation balls around every corpus document, structured binary variations) and of a nil-lattice of the public types, executed on the real readers/writers in the instrumented build under recover() and a deterministic statement-level step budget (no wall-clock oracle)",
   text="Every member of each enumerated family is fed to the reader of its format (also across formats and through the opener); every lattice point within the deviation bound is written by all five writers. A panic or exceeding 50000+400*len steps in package astisub is a violation; the linear bound is additionally exercised on inputs of 2^k cues. Complete enumeration of the stated families; 'every byte sequence' beyond them is not claimed.",
   note="Trusted: Go toolchain/stdlib, dependencies' own loops (not step-counted), the instrumenter (validated in setup). A worker killed by a Go fatal error is reported as a violation."),
 "C19": dict(level="model_checking", design="§3 C19, §0.2 I-maprange",
   technique="stateless model checking with map iteration order as an explorer-owned environment choice (instrumented build: all permutations at every map-range site a writer executes), plus plain-build repetition in-process and across processes, deep purity snapshots, all 120 writer orders, two injectable clocks",
   text="For every cue list in scope (all multisets of <=4 styles over 6 heterogeneous profiles x region multisets) and every writer, every permutation at every map walk of package astisub is executed and the bytes compared with the sorted-order bytes; the input list is snapshotted deeply (aliasing, len/cap, spare capacity) before/after each write; all writer orders; STL dates vs two clocks.",
   note="Trusted: Go toolchain/stdlib; the instrumenter (meaning preservation validated by /repo's tests passing against the overlay); map walks inside dependencies not controlled. 5-6-entry maps: rotations and adjacent transpositions only."),
 "C18": dict(level="fault_enumeration", design="§3 C18",
   technique="exhaustive fault-point enumeration: every byte offset of every corpus document as the point where the stream (reads) or the destination (writes) fails, two fault shapes, several delivery granularities, on the real readers/writers; plus over-long lines and file-helper error paths",
   text="Every offset k in 0..len of every corpus document is a fault point for the real reader (TTML up to the end of the root element); every offset of every writer's output is a fault point for the real writer; a reader/writer that reached the fault must return a non-nil error. Over-long lines (65535..2^20) must give an error or a complete result. Fault-free writes must hand the complete document to the destination.",
   note="Trusted: Go toolchain/stdlib, astits. Quick restricts cross-format testdata conversions to block-structured write offsets (every offset in thorough). Running as root: 'unwritable directory' is replaced by 'path under a regular file' and 'missing parent'."),
 "C17": dict(level="model_checking", design="§3 C17, §0.1 E1 over environment answers",
   technique="stateless model checking of the reader against a nondeterministic io.Reader environment: every Read is a choice point, all schedules with <=B deviations (every single split point, zero-length reads, data-with-EOF) are enumerated on the real readers and compared with the all-at-once result",
   text="For every corpus document of every format the real reader is run under every delivery schedule within the deviation bound (quick: every single split point; thorough: 2 deviations for <=400-byte and 3 for <=60-byte documents), under 20 fixed schedules, and on generated large documents whose CR LF pairs straddle 4096/8192/65536 boundaries. The canonical dump (or the fact of failing) must equal the all-at-once result.",
   note="Trusted: Go toolchain/stdlib (bufio.Scanner, encoding/xml), astits. Bound: deviation bound as stated; 'random chunk sequences' are replaced by the exhaustive bounded enumeration plus fixed schedules."),
 "C16": dict(level="exploration", design="§3 C16",
   technique="exhaustive sweep of instants (every unit step of a range, every unit boundary +-1ns, every frame boundary) through the public writers and readers, batched; rendering parsed by the harness and compared with floor; read back; second write compared byte for byte",
   text="Quick: every ms of the first 20 min and around the listed hour marks, all boundary nudges; thorough: every millisecond of the day for SRT/WebVTT/TTML, every centisecond +-1ns for SSA, every frame boundary +-1ns of the day for STL at 25/30 fps. Each instant is checked for grammar, floor value, monotonicity, reader inverse and write idempotence. Nothing sampled.",
   note="Trusted: Go toolchain/stdlib, the regexps that locate timing fields. The 'randomly at nanosecond resolution elsewhere' clause is not claimed."),
 "C01": dict(level="exploration", design="§3 C01, §0.1 E1",
   technique="stateless choice-sequence exploration (E1): full product of a tiny grammar plus all documents within B deviations of the baseline over model and rendering choice points, each executed on the real reader/writer and judged against an independent reference codec",
   text="Every (cue model, rendering) in the product and in the deviation ball is rendered, read by ReadFromSRT and compared on denotations; every representable model is written by WriteToSRT and decoded both by the library and by an independent decoder, plus a grammar check. Exhaustive within the bound; no sampling.",
   note="Trusted: Go toolchain/stdlib, engine/ref/srt (renderer+decoder). Bound: B=2 quick / B=3 thorough deviations, <=2-3 cues/lines/runs, 18 text atoms, 13 instants."),
 "C09": dict(level="model_checking", design="§3 C09, §0.1 E3",
   technique="explicit-state search (BFS over canonical cue lists, every small list as initial state) with the real Add as transition function, compared with a reference model on every transition",
   text="Every list in the small scope x every shift is executed on the real code and compared with an 11-line executable specification (survivors, order, pointer identity, content, times, inverse law); chains of shifts explored breadth-first with state deduplication. Exhaustive within the stated grid; nothing is sampled.",
   note="Trusted: Go toolchain/stdlib, the reference model refops.Add. Bound: <=3-4 cues on grids 0..5, units 1ns/1ms/1s/1h+1ms; values outside the grid only through scaling."),
 "C10": dict(level="model_checking", design="§3 C10, §0.1 E3",
   technique="explicit-state search: every start-ordered small cue list as a state, the real Fragment as transition function, compared with per-cue cutting on every transition; second-level transitions from fragmented states",
   text="The property's own exhaustive scope (<=3 cues on 0..9, 4 cues on 0..6, two texts, f in 1..5; thorough) is enumerated completely and every Fragment call on the real code is compared with an executable per-cue cutting specification (multiset of pieces, order, no interior multiple left, style/region objects carried).",
   note="Trusted: Go toolchain/stdlib, refops.Fragment. Bound: the grids above with units 1ns/1ms/1s/1h+1ms; the 'randomly for larger lists' clause is not claimed."),
 "C11": dict(level="model_checking", design="§3 C11, §0.1 E3",
   technique="explicit-state search: every small cue list (any order) as a state, the real Unfragment as transition function vs. a connected-components model, plus invariants (no touching same-text cues, same on-screen texts at every grid instant) and the inverse law from every fragmented state",
   text="Every list in the small scope is unfragmented by the real code and compared with the closure specification and with the property's own invariants; the inverse law Unfragment(Fragment(L,f)) = L is checked for every admissible list and period in scope, with the fragment step taken both in the model and by the real code.",
   note="Trusted: Go toolchain/stdlib, refops.Unfragment/Fragment. Single-line texts. The 'randomly beyond' clause is not claimed."),
 "C12": dict(level="model_checking", design="§3 C12, §0.1 E3",
   technique="explicit-state search over cue lists and definition maps with the real Order/Merge as transition functions vs. an insertion-sort/union model; includes every 13- and 14-cue list over two start values (smallest size where an unstable sort can differ)",
   text="All small lists and pairs of lists, all 4096 overlap patterns of style/region identifiers and three ways of constructing the receiver are executed on the real code and compared with the model on cue identity/order, on definitions (receiver wins) and on a before/after snapshot of the argument.",
   note="Trusted: Go toolchain/stdlib, refops.Order/Merge. Bound: <=4-5 cues plus the 2^13/2^14 (thorough 3^13, 2^16) families; 3 style ids x 3 region ids."),
 "C13": dict(level="model_checking", design="§3 C13, §0.1 E3",
   technique="explicit-state enumeration of all reference graphs over 3 styles/2 regions/<=2 cues with the real Optimize/RemoveStyling as transition functions vs. a harness-side reachability closure and a reflective no-styling walk",
   text="Every reference graph in scope (all parent forests, all region->style refs, cue/run/region references, unused and shared definitions, depth-4/5 chains) is optimized by the real code; kept ids must equal the reachability closure, every remaining reference must resolve, cues untouched, idempotent, empty list untouched. RemoveStyling is checked on the same graphs.",
   note="Trusted: Go toolchain/stdlib, refops.Reach. Definitions stored under their own id. The write->read clause is covered through C07's history exploration (optimize op) once a destination codec is involved."),
 "C14": dict(level="model_checking", design="§3 C14, §0.1 E3",
   technique="explicit-state search: every well-formed small timeline x every d x filler flag with the real ForceDuration as transition function vs. the property sentence as a list comprehension",
   text="All timelines of <=3 (thorough 4) cues on 0..5 x all d in 1..7 (and d+-1ms) x filler on/off are executed on the real code and compared cue by cue with the specification, including pointer identity and content of kept cues.",
   note="Trusted: Go toolchain/stdlib, refops.ForceDuration. Preconditions as stated by the property."),
 "C15": dict(level="model_checking", design="§3 C15, §0.1 E3",
   technique="exhaustive enumeration of boundary set x reference quadruples on the real ApplyLinearCorrection, each result compared with exact big-rational arithmetic",
   text="Every cue over the boundary set in [0,24h] x 672 quadruples (all listed slopes incl. NTSC/PAL ratios, offsets, both orders of reference points) is run on the real code and compared with the exact rational affine map to within 1us; length scaling, order preservation, untouched content checked.",
   note="Trusted: Go toolchain/stdlib, math/big. Finite boundary set: values between the listed boundaries are not covered."),
}

def main():
    checks = []
    for pid in ALL:
        if pid not in CHECKS: continue
        c = CHECKS[pid]
        checks.append({
            "property_id": pid,
            "quick_cmd": "./vcheck %s quick" % pid,
            "thorough_cmd": "./vcheck %s thorough" % pid,
            "evidence_file": "/verif/evidence/%s.json" % pid,
            "replay_cmd_template": "./vcheck %s --replay {path}" % pid,
            "engine": c.get("engine", "engine"),
            "level_claimed": {"category": c["level"], "text": c["text"], "design_ref": c["design"]},
            "level_note": c["note"],
            "technique": c["technique"],
        })
    na = [{"property_id": p, "reason": "check not built yet (work in progress; will be claimed once its exhaustive check exists)"} for p in ALL if p not in CHECKS]
    m = {
        "version": 1,
        "setup_cmd": "./setup.sh",
        "hooks": {
            "guard": "verif",
            "enable": "go build -tags verif -overlay <scratch>/overlay.json (overlay generated from /repo's working tree by engine/instr on every run; /repo itself carries no hook code)",
            "baseline_off_cmd": "cd /repo && GOFLAGS=-mod=mod GOPROXY=off GOSUMDB=off go test -vet=off -count=1 ./...",
            "source_commits": [],
            "add_only": True,
        },
        "engines": [
            {"name": "engine", "path": "/verif/engine", "serves_properties": sorted(CHECKS.keys()),
             "kind_free_text": "hand-written Go explorers: E1 choice-sequence (deviation-bounded) explorer, E2 cooperative scheduler, E3 explicit-state BFS over real transition functions; sharded over 16 worker processes"},
        ],
        "checks": checks,
        "not_applicable": na,
        "notes": "All checks rebuild their harness against /repo's working tree on every run (./vcheck). Known findings: /verif/KNOWN_FINDINGS.txt.",
    }
    json.dump(m, open("/verif/MANIFEST.json", "w"), indent=1)
    print("wrote MANIFEST.json with", len(checks), "checks;", len(na), "not applicable")

main()
