#!/bin/bash
# ./thor-some.sh ID... : thorough tier of the listed checks, one after the other, with timing
cd "$(dirname "$0")"
for id in "$@"; do
  s=$(date +%s); out=$(VERIF_KEEP_EVIDENCE=1 ./vcheck $id thorough 2>&1); rc=$?
  echo "$id exit=$rc $(( $(date +%s)-s ))s $(echo "$out" | grep -c '^VIOLATION') violation line(s)"; echo "$out" | grep -E "^$id thorough:|INFRA|^\s+\[$id\]" | cut -c1-300 | head -5
done
