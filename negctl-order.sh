#!/bin/bash
# ./negctl-order.sh N...  : negctl for the listed benign numbers, in that order, all 20 checks each
cd "$(dirname "$0")"
ALL="C01 C02 C03 C04 C05 C06 C07 C08 C09 C10 C11 C12 C13 C14 C15 C16 C17 C18 C19 C20"
for n in "$@"; do
  f=benign/benign-$n.diff; echo "### benign-$n"
  [ -f "${f%.diff}.head.diff" ] && f="${f%.diff}.head.diff"
  ./mutate.sh "$f" ${CHECKS:-$ALL} 2>&1 | grep -E "repo tests|exit=[12]|PATCH"
done
