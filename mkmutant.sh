#!/bin/bash
# ./mkmutant.sh <name> <<'PY' ... PY   : the python on stdin edits files under the scratch worktree
# (helper edit(file, old, new) provided); the resulting `git diff` is written to mutants/<name>.diff
set -e
NAME="$1"
WT="$(mktemp -d /tmp/verif-mk-XXXXXX)"; rmdir "$WT"
git -C /repo worktree add -q --detach "$WT" HEAD
trap 'git -C /repo worktree remove --force "$WT" >/dev/null 2>&1' EXIT
{ cat <<PY
import sys
WT="$WT"
def edit(f, old, new, count=1):
    p=WT+"/"+f; s=open(p).read()
    assert s.count(old)==count, "%s: old text occurs %d times"%(f,s.count(old))
    open(p,'w').write(s.replace(old,new))
PY
cat; } | python3 -
git -C "$WT" diff > "$(dirname "$0")/mutants/$NAME.diff"
echo "wrote mutants/$NAME.diff ($(grep -c '^[-+][^-+]' "$(dirname "$0")/mutants/$NAME.diff") changed lines)"
