module verif

go 1.23

require (
	github.com/asticode/go-astikit v0.20.0
	github.com/asticode/go-astisub v0.0.0
	github.com/asticode/go-astits v1.8.0
	golang.org/x/net v0.0.0-20200904194848-62affa334b73
	golang.org/x/text v0.3.2
)

replace github.com/asticode/go-astisub => /repo
