// Command instr rewrites the CURRENT non-test sources of /repo (package astisub) into an
// instrumented copy and a Go build overlay, without touching /repo:
//
//   - verifPoint(site) before every statement of every function and function literal
//     (scheduling points, deterministic step counter, probe positions);
//   - every `for k, v := range m` over a map becomes a loop over verifMapKeys(site, m): the keys
//     sorted and then permuted by a hook, with a presence re-check per key (Go semantics);
//   - a registry of the addresses of all package-level variables (frozen-globals invariant).
//
// All added code lives in zz_verif_hooks.go / zz_verif_globals.go under `//go:build verif`.
// Usage: instr -repo /repo -out <dir>   (writes <dir>/overlay.json, <dir>/sites.json)
package main

import (
	"bytes"
	"encoding/json"
	"flag"
	"fmt"
	"go/ast"
	"go/format"
	"go/importer"
	"go/parser"
	"go/token"
	"go/types"
	"os"
	"path/filepath"
	"sort"
	"strings"
)

type site struct {
	ID   int    `json:"id"`
	Kind string `json:"kind"` // point | maprange
	File string `json:"file"`
	Line int    `json:"line"`
	Func string `json:"func"`
}

var (
	sites []site
	fset  = token.NewFileSet()
)

func newSite(kind string, pos token.Pos, fn string) int {
	p := fset.Position(pos)
	id := len(sites)
	sites = append(sites, site{id, kind, filepath.Base(p.Filename), p.Line, fn})
	return id
}

func main() {
	repo := flag.String("repo", "/repo", "")
	out := flag.String("out", "", "")
	flag.Parse()
	if *out == "" {
		fmt.Fprintln(os.Stderr, "instr: -out required")
		os.Exit(2)
	}
	if err := os.MkdirAll(*out, 0o755); err != nil {
		fatal(err)
	}
	if err := os.Chdir(*repo); err != nil {
		fatal(err)
	}
	names, _ := filepath.Glob(filepath.Join(*repo, "*.go"))
	sort.Strings(names)
	var files []*ast.File
	var paths []string
	for _, n := range names {
		if strings.HasSuffix(n, "_test.go") || strings.HasPrefix(filepath.Base(n), "zz_verif_") {
			continue
		}
		f, err := parser.ParseFile(fset, n, nil, parser.ParseComments)
		if err != nil {
			fatal(err)
		}
		files = append(files, f)
		paths = append(paths, n)
	}
	info := &types.Info{Types: map[ast.Expr]types.TypeAndValue{}, Defs: map[*ast.Ident]types.Object{}}
	conf := types.Config{Importer: importer.ForCompiler(fset, "source", nil), Error: func(err error) {}}
	pkg, err := conf.Check("github.com/asticode/go-astisub", fset, files, info)
	if err != nil {
		// type errors make map-range detection unreliable: fail loudly (the plain build would fail too)
		fatal(fmt.Errorf("type-checking /repo: %w", err))
	}
	overlay := map[string]string{}
	nMapRange := 0
	nPools := 0
	for i, f := range files {
		nMapRange += rewriteFile(f, info, pkg)
		f.Comments = nil
		var buf bytes.Buffer
		if err := format.Node(&buf, fset, f); err != nil {
			fatal(fmt.Errorf("printing %s: %w", paths[i], err))
		}
		src := buf.Bytes()
		if bytes.Contains(src, []byte("sync.Pool")) {
			// sync.Pool hands out items depending on the runtime's scheduling and collections: under the harness it
			// is replaced by a deterministic LIFO (the same schedule must give the same execution)
			src = bytes.ReplaceAll(src, []byte("sync.Pool"), []byte("verifPool"))
			src = append(src, []byte("\nvar _ sync.Mutex\n")...)
			nPools++
		}
		dst := filepath.Join(*out, filepath.Base(paths[i]))
		if err := os.WriteFile(dst, src, 0o644); err != nil {
			fatal(err)
		}
		overlay[paths[i]] = dst
	}
	// hooks
	hooks := filepath.Join(*out, "zz_verif_hooks.go")
	os.WriteFile(hooks, []byte(hooksSrc), 0o644)
	overlay[filepath.Join(*repo, "zz_verif_hooks.go")] = hooks
	// globals
	var gl bytes.Buffer
	gl.WriteString("//go:build verif\n\npackage astisub\n\n// VerifGlobals returns the address of every package-level variable.\nfunc VerifGlobals() []VerifGlobal {\n\treturn []VerifGlobal{\n")
	scope := pkg.Scope()
	ng := 0
	for _, name := range scope.Names() {
		if v, ok := scope.Lookup(name).(*types.Var); ok && name != "_" && !strings.HasPrefix(name, "Verif") && !strings.HasPrefix(name, "verif") {
			_ = v
			fmt.Fprintf(&gl, "\t\t{%q, &%s},\n", name, name)
			ng++
		}
	}
	gl.WriteString("\t}\n}\n")
	globals := filepath.Join(*out, "zz_verif_globals.go")
	os.WriteFile(globals, gl.Bytes(), 0o644)
	overlay[filepath.Join(*repo, "zz_verif_globals.go")] = globals

	ob, _ := json.MarshalIndent(map[string]interface{}{"Replace": overlay}, "", " ")
	os.WriteFile(filepath.Join(*out, "overlay.json"), ob, 0o644)
	sb, _ := json.Marshal(sites)
	os.WriteFile(filepath.Join(*out, "sites.json"), sb, 0o644)
	np := 0
	for _, s := range sites {
		if s.Kind == "point" {
			np++
		}
	}
	fmt.Printf("instr: %d files, %d points, %d map-range sites, %d globals, %d files with sync.Pool replaced\n", len(files), np, nMapRange, ng, nPools)
}

func fatal(err error) {
	fmt.Fprintln(os.Stderr, "instr:", err)
	os.Exit(2)
}

// rewriteFile instruments one file in place; returns the number of map-range sites rewritten.
func rewriteFile(f *ast.File, info *types.Info, pkg *types.Package) int {
	n := 0
	for _, d := range f.Decls {
		fd, ok := d.(*ast.FuncDecl)
		if !ok || fd.Body == nil {
			// function literals in package-level initialisers
			if gd, ok := d.(*ast.GenDecl); ok {
				ast.Inspect(gd, func(x ast.Node) bool {
					if fl, ok := x.(*ast.FuncLit); ok {
						n += instrumentBody(fl.Body, "init-literal", info, pkg)
						return false
					}
					return true
				})
			}
			continue
		}
		name := fd.Name.Name
		if fd.Recv != nil && len(fd.Recv.List) > 0 {
			name = types.ExprString(fd.Recv.List[0].Type) + "." + name
		}
		n += instrumentBody(fd.Body, name, info, pkg)
	}
	return n
}

// instrumentBody: first rewrite map ranges (collected up front), then insert points everywhere.
func instrumentBody(body *ast.BlockStmt, fn string, info *types.Info, pkg *types.Package) int {
	// 1. collect map-range statements with their parents
	type mr struct {
		rs      *ast.RangeStmt
		labeled bool
	}
	var mrs []mr
	var walk func(n ast.Node, labeled bool)
	walk = func(n ast.Node, labeled bool) {
		ast.Inspect(n, func(x ast.Node) bool {
			switch s := x.(type) {
			case *ast.LabeledStmt:
				if rs, ok := s.Stmt.(*ast.RangeStmt); ok {
					if isMap(info, rs.X) {
						mrs = append(mrs, mr{rs, true})
					}
					walk(rs.Body, false)
					return false
				}
			case *ast.RangeStmt:
				if isMap(info, s.X) {
					mrs = append(mrs, mr{s, false})
				}
			}
			return true
		})
	}
	walk(body, false)
	n := 0
	for _, m := range mrs {
		if rewriteMapRange(m.rs, info, pkg, fn) {
			n++
		}
	}
	// 2. points
	insertPoints(body, fn)
	return n
}

func isMap(info *types.Info, e ast.Expr) bool {
	tv, ok := info.Types[e]
	if !ok || tv.Type == nil {
		return false
	}
	_, ok = tv.Type.Underlying().(*types.Map)
	return ok
}

func simpleExpr(e ast.Expr) bool {
	switch x := e.(type) {
	case *ast.Ident:
		return true
	case *ast.SelectorExpr:
		return simpleExpr(x.X)
	case *ast.ParenExpr:
		return simpleExpr(x.X)
	case *ast.StarExpr:
		return simpleExpr(x.X)
	}
	return false
}

var uniq int

// rewriteMapRange turns `for K, V := range M { B }` into a loop over the controlled key order.
func rewriteMapRange(rs *ast.RangeStmt, info *types.Info, pkg *types.Package, fn string) bool {
	if !simpleExpr(rs.X) {
		// the map expression may have side effects; evaluating it more than once would change meaning.
		newSite("maprange-uncontrolled", rs.Pos(), fn)
		return false
	}
	mt := info.Types[rs.X].Type.Underlying().(*types.Map)
	qual := func(p *types.Package) string {
		if p == pkg {
			return ""
		}
		return p.Name()
	}
	keyType := types.TypeString(mt.Key(), qual)
	keyExpr, err := parser.ParseExpr(keyType)
	if err != nil {
		newSite("maprange-uncontrolled", rs.Pos(), fn)
		return false
	}
	id := newSite("maprange", rs.Pos(), fn)
	uniq++
	ki := ast.NewIdent(fmt.Sprintf("__verif_ki%d", uniq))
	k := ast.NewIdent(fmt.Sprintf("__verif_k%d", uniq))
	v := ast.NewIdent(fmt.Sprintf("__verif_v%d", uniq))
	okId := ast.NewIdent(fmt.Sprintf("__verif_ok%d", uniq))
	var pre []ast.Stmt
	// __k := __ki.(KT)
	pre = append(pre, &ast.AssignStmt{Lhs: []ast.Expr{k}, Tok: token.DEFINE, Rhs: []ast.Expr{&ast.TypeAssertExpr{X: ki, Type: keyExpr}}})
	needV := rs.Value != nil && !isBlank(rs.Value)
	idx := &ast.IndexExpr{X: rs.X, Index: k}
	lhsV := ast.Expr(ast.NewIdent("_"))
	if needV {
		lhsV = v
	}
	// __v, __ok := M[__k]; if !__ok { continue }
	pre = append(pre, &ast.AssignStmt{Lhs: []ast.Expr{lhsV, okId}, Tok: token.DEFINE, Rhs: []ast.Expr{idx}})
	pre = append(pre, &ast.IfStmt{Cond: &ast.UnaryExpr{Op: token.NOT, X: okId}, Body: &ast.BlockStmt{List: []ast.Stmt{&ast.BranchStmt{Tok: token.CONTINUE}}}})
	var lhs, rhs []ast.Expr
	if rs.Key != nil && !isBlank(rs.Key) {
		lhs = append(lhs, rs.Key)
		rhs = append(rhs, k)
	}
	if needV {
		lhs = append(lhs, rs.Value)
		rhs = append(rhs, v)
	}
	if len(lhs) > 0 {
		tok := rs.Tok
		if tok == token.ILLEGAL {
			tok = token.ASSIGN
		}
		pre = append(pre, &ast.AssignStmt{Lhs: lhs, Tok: tok, Rhs: rhs})
	}
	call := &ast.CallExpr{Fun: ast.NewIdent("verifMapKeys"), Args: []ast.Expr{&ast.BasicLit{Kind: token.INT, Value: fmt.Sprint(id)}, rs.X}}
	rs.Key = ast.NewIdent("_")
	rs.Value = ki
	rs.Tok = token.DEFINE
	rs.X = call
	rs.Body.List = append(pre, rs.Body.List...)
	// mark how many leading statements are ours so that no points are inserted between them
	ours[rs.Body] = len(pre)
	return true
}

var ours = map[*ast.BlockStmt]int{}
var clauseBlocks = map[*ast.BlockStmt]bool{}

func isBlank(e ast.Expr) bool {
	id, ok := e.(*ast.Ident)
	return ok && id.Name == "_"
}

func point(pos token.Pos, fn string) ast.Stmt {
	id := newSite("point", pos, fn)
	return &ast.ExprStmt{X: &ast.CallExpr{Fun: ast.NewIdent("verifPoint"), Args: []ast.Expr{&ast.BasicLit{Kind: token.INT, Value: fmt.Sprint(id)}}}}
}

func withPoints(list []ast.Stmt, skip int, fn string) []ast.Stmt {
	out := make([]ast.Stmt, 0, 2*len(list))
	for i, s := range list {
		if i >= skip {
			out = append(out, point(s.Pos(), fn))
		}
		out = append(out, s)
	}
	return out
}

func insertPoints(body *ast.BlockStmt, fn string) {
	ast.Inspect(body, func(x ast.Node) bool {
		switch s := x.(type) {
		case *ast.FuncLit:
			insertPoints(s.Body, fn+".func")
			return false
		case *ast.SwitchStmt:
			clauseBlocks[s.Body] = true
		case *ast.TypeSwitchStmt:
			clauseBlocks[s.Body] = true
		case *ast.SelectStmt:
			clauseBlocks[s.Body] = true
		case *ast.BlockStmt:
			if clauseBlocks[s] {
				return true // a switch/select body holds clauses, not statements: only clause bodies get points
			}
			// children first would double-visit inserted nodes; inserted nodes have no bodies, so order is irrelevant
			defer func() { s.List = withPoints(s.List, ours[s], fn) }()
		case *ast.CaseClause:
			defer func() { s.Body = withPoints(s.Body, 0, fn) }()
		case *ast.CommClause:
			defer func() { s.Body = withPoints(s.Body, 0, fn) }()
		}
		return true
	})
}

const hooksSrc = `//go:build verif

package astisub

import (
	"fmt"
	"reflect"
	"sort"
	"sync"
)

// verifPool stands in for sync.Pool: a LIFO, deterministic under a given schedule.
type verifPool struct {
	New   func() interface{}
	mu    sync.Mutex
	items []interface{}
}

func (p *verifPool) Get() interface{} {
	p.mu.Lock()
	defer p.mu.Unlock()
	if n := len(p.items); n > 0 {
		x := p.items[n-1]
		p.items = p.items[:n-1]
		return x
	}
	if p.New != nil {
		return p.New()
	}
	return nil
}

func (p *verifPool) Put(x interface{}) {
	p.mu.Lock()
	defer p.mu.Unlock()
	p.items = append(p.items, x)
}

// VerifHook, when set, is called before every statement of package astisub.
var VerifHook func(site int)

func verifPoint(site int) {
	if h := VerifHook; h != nil {
		h(site)
	}
}

// VerifMapOrder, when set, chooses the order in which a map range visits its (sorted) keys:
// it returns a permutation of 0..n-1 (nil = sorted order).
var VerifMapOrder func(site int, n int) []int

// VerifGlobal names the address of one package-level variable.
type VerifGlobal struct {
	Name string
	Ptr  interface{}
}

func verifMapKeys(site int, m interface{}) []interface{} {
	v := reflect.ValueOf(m)
	ks := v.MapKeys()
	sort.Slice(ks, func(i, j int) bool {
		if ks[i].Kind() == reflect.String {
			return ks[i].String() < ks[j].String()
		}
		return fmt.Sprint(ks[i].Interface()) < fmt.Sprint(ks[j].Interface())
	})
	out := make([]interface{}, len(ks))
	for i, k := range ks {
		out[i] = k.Interface()
	}
	if h := VerifMapOrder; h != nil && len(out) > 1 {
		if perm := h(site, len(out)); perm != nil {
			p := make([]interface{}, len(out))
			for i, j := range perm {
				p[i] = out[j]
			}
			out = p
		}
	}
	return out
}
`
