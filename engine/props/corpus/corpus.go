// Package corpus is the representative document set shared by C07, C08, C17, C18, C20: per
// format a handful of small hand-made documents (valid LF / CRLF / CR, styled, invalid, every
// optional block) plus every file under /repo/testdata.
package corpus

import (
	"bytes"
	"fmt"
	"io"
	"os"
	"path/filepath"
	"sort"
	"strings"
	"time"

	astisub "github.com/asticode/go-astisub"

	"verif/ref/teletext"
)

type Doc struct {
	Name   string
	Format string // srt vtt ttml ssa stl ts
	Data   []byte
	Valid  bool // expected to parse
}

const srtLF = "1\n00:00:01,000 --> 00:00:02,500\nHello <i>world</i>\nsecond line\n\n2\n00:00:03,000 --> 00:00:04,000\n<b>bold</b> &amp; plain\n\n3\n01:02:03,004 --> 01:02:05,006\nlast\n"

const vttFull = "WEBVTT - title\nX-TIMESTAMP-MAP=LOCAL:00:00:00.000,MPEGTS:900000\n\nSTYLE\n::cue(b) {\n  color: red;\n}\n\nRegion: id=fred width=40% lines=3 regionanchor=0%,100% viewportanchor=10%,90% scroll=up\n\nNOTE a comment\nover two lines\n\n1\n00:00:01.000 --> 00:00:02.500 region:fred align:left line:10% position:50% size:80%\n<v Bob>Hello <i>wor<b>ld</b></i>\nsecond <c.red>line</c>\n\n00:03.000 --> 00:04.000\nplain &amp; <00:03.500>timed\n"

const ssaSmall = "[Script Info]\n; comment\nTitle: t\nScriptType: v4.00\nPlayResX: 384\n\n[V4 Styles]\nFormat: Name, Fontname, Fontsize, PrimaryColour, Bold, Italic, Alignment\nStyle: Default,Arial,20,65535,-1,0,2\nStyle: Alt,Tahoma,16,&H00ff00,0,-1,6\n\n[Events]\nFormat: Marked, Start, End, Style, Name, MarginL, MarginR, MarginV, Effect, Text\nDialogue: Marked=0,0:00:01.00,0:00:02.50,Default,Bob,0,0,0,,Hello, world\\Nsecond {\\i1}line\nComment: Marked=0,0:00:02.00,0:00:03.00,Default,,0,0,0,,ignored\nDialogue: Marked=1,0:00:03.00,0:00:04.00,*Alt,,10,20,30,fx,last\n"

const ttmlSmall = `<?xml version="1.0" encoding="UTF-8"?>
<tt xmlns="http://www.w3.org/ns/ttml" xmlns:ttm="http://www.w3.org/ns/ttml#metadata" xmlns:tts="http://www.w3.org/ns/ttml#styling" xmlns:ttp="http://www.w3.org/ns/ttml#parameter" xml:lang="fr" ttp:frameRate="25">
 <head>
  <metadata><ttm:title>T</ttm:title><ttm:copyright>C</ttm:copyright></metadata>
  <styling>
   <style xml:id="p" tts:color="white"/>
   <style xml:id="c" style="p" tts:textAlign="center"/>
  </styling>
  <layout><region xml:id="r" style="p" tts:origin="10% 80%" tts:extent="80% 10%"/></layout>
 </head>
 <body><div>
  <p begin="00:00:01.000" end="00:00:02.500" region="r" style="c"><span style="p">Hello</span> <span tts:color="red">world</span><br/>second line</p>
  <p begin="3s" end="00:00:04:00">last &amp; least</p>
 </div></body>
</tt>
`

// ttmlChain: an inheritance chain that only a region's style reaches (base <- mid <- region r <- cue), next to a
// style nothing reaches.
const ttmlChain = `<tt xmlns="http://www.w3.org/ns/ttml" xmlns:tts="http://www.w3.org/ns/ttml#styling">
 <head>
  <styling>
   <style xml:id="base" tts:color="white"/>
   <style xml:id="mid" style="base" tts:textAlign="center"/>
   <style xml:id="unused" tts:color="red"/>
  </styling>
  <layout><region xml:id="r" style="mid" tts:origin="10% 80%"/></layout>
 </head>
 <body><div>
  <p begin="1s" end="2s" region="r">one</p>
  <p begin="3s" end="4s">two</p>
 </div></body>
</tt>
`

// ttmlRate: a TTML document whose root carries the given frame rate (metadata inherited by other writers) and
// that uses frame-based and tick-based time expressions.
func ttmlRate(fr int, tick int) string {
	attrs := fmt.Sprintf(` ttp:frameRate="%d"`, fr)
	end2 := fmt.Sprintf("00:00:04:%02d", fr/2)
	if tick > 0 {
		attrs += fmt.Sprintf(` ttp:tickRate="%d"`, tick)
		end2 = fmt.Sprintf("%dt", 5*tick)
	}
	return `<tt xmlns="http://www.w3.org/ns/ttml" xmlns:ttp="http://www.w3.org/ns/ttml#parameter" xml:lang="en"` + attrs + `>
 <body><div>
  <p begin="00:00:01.000" end="00:00:02.500">first</p>
  <p begin="3s" end="` + end2 + `">second<br/>line</p>
 </div></body>
</tt>
`
}

// srtMany: n short cues (outputs of every writer exceed one 4096-byte buffer)
func srtMany(n int) string {
	var b strings.Builder
	for i := 0; i < n; i++ {
		fmt.Fprintf(&b, "%d\n00:%02d:%02d,000 --> 00:%02d:%02d,800\ncue %d\n\n", i+1, i/60, i%60, i/60, i%60, i)
	}
	return b.String()
}

// writeSTL produces STL bytes through the library's writer (used only as INPUT bytes for schedule /
// fault / totality checks; the STL codec itself is judged by C05 with an independent encoder).
func writeSTL(dsc string, fps int, n int) []byte {
	s := astisub.NewSubtitles()
	d := time.Date(2020, 1, 2, 0, 0, 0, 0, time.UTC)
	s.Metadata = &astisub.Metadata{Framerate: fps, STLDisplayStandardCode: dsc, STLCreationDate: &d, STLRevisionDate: &d, Title: "t", Language: astisub.LanguageFrench}
	for i := 0; i < n; i++ {
		s.Items = append(s.Items, &astisub.Item{StartAt: time.Duration(i+1) * time.Second, EndAt: time.Duration(i+1)*time.Second + 480*time.Millisecond,
			Lines: []astisub.Line{{Items: []astisub.LineItem{{Text: fmt.Sprintf("cue %d é", i)}}}, {Items: []astisub.LineItem{{Text: "row2"}}}}})
	}
	var b bytes.Buffer
	if n == 0 {
		// GSI only: write one then cut
		s.Items = append(s.Items, &astisub.Item{StartAt: time.Second, EndAt: 2 * time.Second, Lines: []astisub.Line{{Items: []astisub.LineItem{{Text: "x"}}}}})
		s.WriteToSTL(&b)
		return b.Bytes()[:1024]
	}
	s.WriteToSTL(&b)
	return b.Bytes()
}

// tsDocs: small valid transport streams carrying teletext subtitles, assembled by the independent
// encoder (engine/ref/teletext); used as inputs for conversion, schedule, fault, totality and concurrency checks.
func tsDocs() []Doc {
	fr := teletext.BuildTS(teletext.Spec{Pages: []teletext.Page{
		{Number: 888, AtMs: 1000, Nat: teletext.French, Rows: []teletext.RowText{{Row: 20, Text: "été à Noël"}, {Row: 22, Text: "ligne deux", Colour: 3}}},
		{Number: 888, AtMs: 3000, Nat: teletext.French},
		{Number: 888, AtMs: 4000, Nat: teletext.French, Rows: []teletext.RowText{{Row: 22, Text: "ça va"}}},
	}})
	de := teletext.BuildTS(teletext.Spec{Serial: true, Pages: []teletext.Page{
		{Number: 150, AtMs: 500, Nat: teletext.German, Rows: []teletext.RowText{{Row: 21, Text: "Grüße ÄÖÜ ß", DoubleHeight: true}}},
		{Number: 150, AtMs: 2500, Nat: teletext.German, Rows: []teletext.RowText{{Row: 23, Text: "zwei"}}},
	}})
	en := teletext.BuildTS(teletext.Spec{Pages: []teletext.Page{
		{Number: 888, AtMs: 1000, Rows: []teletext.RowText{{Row: 22, Text: "one"}}},
	}})
	two := teletext.BuildTS(teletext.Spec{Pages: []teletext.Page{
		{Number: 888, AtMs: 1000, Rows: []teletext.RowText{{Row: 22, Text: "english one"}}},
		{Number: 889, AtMs: 1500, Nat: teletext.French, Rows: []teletext.RowText{{Row: 22, Text: "français un"}}},
		{Number: 888, AtMs: 3000, Rows: []teletext.RowText{{Row: 22, Text: "english two"}}},
		{Number: 889, AtMs: 3500, Nat: teletext.French, Rows: []teletext.RowText{{Row: 22, Text: "français deux"}}},
		{Number: 888, AtMs: 5000},
		{Number: 889, AtMs: 5500, Nat: teletext.French},
	}})
	// the same service with PAT/PMT repeated before every PES (a receiver that cannot rewind still finds them)
	var repPages []teletext.Page
	for i := 0; i < 5; i++ {
		repPages = append(repPages, teletext.Page{Number: 888, AtMs: int64(i+1) * 1000, Rows: []teletext.RowText{{Row: 22, Text: fmt.Sprintf("cue %d", i)}}})
	}
	rep := teletext.Spec{Pages: append(repPages, teletext.Page{Number: 888, AtMs: 6000})}.Stream()
	rep.TablesEvery = 1
	return []Doc{{"ts-tables-repeated", "ts", rep.Bytes(), true}, {"ts-two-pages-888-889", "ts", two, true}, {"ts-french-3", "ts", fr, true}, {"ts-german-serial-2", "ts", de, true}, {"ts-english-1", "ts", en, true}}
}

const ssaV4Plus = "[Script Info]\nTitle: t\nScriptType: v4.00+\nWrapStyle: 0\nPlayResX: 640\nPlayResY: 480\nTimer: 100.0000\n\n[V4+ Styles]\nFormat: Name, Fontname, Fontsize, PrimaryColour, SecondaryColour, OutlineColour, BackColour, Bold, Italic, Underline, StrikeOut, ScaleX, ScaleY, Spacing, Angle, BorderStyle, Outline, Shadow, Alignment, MarginL, MarginR, MarginV, Encoding\nStyle: Default,Arial,20,&H00FFFFFF,&H000000FF,&H80000000,&H00000000,-1,0,0,0,100,100,0,0,1,2,2,2,10,10,10,1\n\n[Events]\nFormat: Layer, Start, End, Style, Name, MarginL, MarginR, MarginV, Effect, Text\nDialogue: 1,0:00:01.00,0:00:02.50,Default,Bob,0,0,0,,{\\an8}{\\i1}top{\\i0} plain\\Nsecond, line\nDialogue: 0,1:00:03.00,1:00:04.00,Default,,1,2,3,fx,last\n"

// stlTCP: a 30 fps open-subtitling file with a programme start timecode of 10:00:00:00 (the reader subtracts it)
func stlTCP() []byte {
	s := astisub.NewSubtitles()
	d := time.Date(2020, 1, 2, 0, 0, 0, 0, time.UTC)
	s.Metadata = &astisub.Metadata{Framerate: 30, STLDisplayStandardCode: "0", STLCreationDate: &d, STLRevisionDate: &d, STLTimecodeStartOfProgramme: 10 * time.Hour, Title: "tcp"}
	for i := 0; i < 2; i++ {
		s.Items = append(s.Items, &astisub.Item{StartAt: time.Duration(i+1) * time.Second, EndAt: time.Duration(i+1)*time.Second + 500*time.Millisecond,
			Lines: []astisub.Line{{Items: []astisub.LineItem{{Text: fmt.Sprintf("tcp cue %d", i)}}}}})
	}
	var b bytes.Buffer
	s.WriteToSTL(&b)
	return b.Bytes()
}

// Large: text documents of about 9 KB whose cue text is made of two-byte characters all the way, in two alignments
// (ASCII prefix of even / odd length), so that every 4096-byte read boundary falls inside a character in one of
// them. Used where the size matters (file API conversions, delivery schedules), not for per-offset fault sweeps.
func Large() []Doc {
	var out []Doc
	for pad := 0; pad < 2; pad++ {
		p := strings.Repeat("p", pad)
		var srt, vtt, ssa strings.Builder
		vtt.WriteString("WEBVTT\n\n")
		ssa.WriteString("[Script Info]\nTitle: t\n\n[Events]\nFormat: Marked, Start, End, Style, Name, MarginL, MarginR, MarginV, Effect, Text\n")
		for i := 0; i < 90; i++ {
			text := p + strings.Repeat("\u00e9\u00e8", 22) + fmt.Sprint(i)
			fmt.Fprintf(&srt, "%d\n00:%02d:%02d,000 --> 00:%02d:%02d,800\n%s\n\n", i+1, i/60, i%60, i/60, i%60, text)
			fmt.Fprintf(&vtt, "00:%02d:%02d.000 --> 00:%02d:%02d.800\n%s\n\n", i/60, i%60, i/60, i%60, text)
			fmt.Fprintf(&ssa, "Dialogue: Marked=0,0:%02d:%02d.00,0:%02d:%02d.80,,,0,0,0,,%s\n", i/60, i%60, i/60, i%60, text)
		}
		out = append(out, Doc{fmt.Sprintf("srt-large-nonascii-%d", pad), "srt", []byte(srt.String()), true},
			Doc{fmt.Sprintf("vtt-large-nonascii-%d", pad), "vtt", []byte(vtt.String()), true},
			Doc{fmt.Sprintf("ssa-large-nonascii-%d", pad), "ssa", []byte(ssa.String()), true})
	}
	return out
}

var extra []Doc // registered by other packages (e.g. transport streams from the teletext encoder)

// Register adds documents (used for .ts samples built by ref/teletext).
func Register(d ...Doc) { extra = append(extra, d...) }

func crlf(s string) string { return strings.ReplaceAll(s, "\n", "\r\n") }
func cr(s string) string   { return strings.ReplaceAll(s, "\n", "\r") }

// Small returns the hand-made documents.
func Small() []Doc {
	ds := []Doc{
		{"srt-lf", "srt", []byte(srtLF), true},
		{"srt-crlf", "srt", []byte(crlf(srtLF)), true},
		{"srt-cr", "srt", []byte(cr(srtLF)), true},
		{"srt-bom-noindex-eofblank", "srt", []byte("\xef\xbb\xbf00:00:01,000 --> 00:00:02,000 X1:1 X2:2\r\na\r\n\r\n\r\n00:00:03.5 --> 00:00:04.25\r\n<font color=\"red\">b</font>\r\n\r\n\r\n"), true},
		{"srt-40-cues", "srt", []byte(srtMany(40)), true},
		// cue lists a conversion must carry over AS THEY ARE: not in start order, with equal times, with equal texts
		{"srt-unordered", "srt", []byte("1\n00:00:05,000 --> 00:00:06,000\nfive\n\n2\n00:00:01,000 --> 00:00:02,000\none\n\n3\n00:00:03,000 --> 00:00:04,500\nthree\n"), true},
		{"vtt-equal-times-equal-texts", "vtt", []byte("WEBVTT\n\n00:01.000 --> 00:02.000\nsame\n\n00:01.000 --> 00:02.000\nother\n\n00:02.000 --> 00:03.000\nother\n\n00:02.000 --> 00:03.000\nsame\n\n00:03.000 --> 00:04.000\nsame\n\n00:03.000 --> 00:04.000\nsame\n"), true},
		{"ssa-spaced-style-names", "ssa", []byte("[Script Info]\nTitle: t\nScriptType: v4.00\n\n[V4 Styles]\nFormat: Name, Fontname, Bold\nStyle: Main Dialogue,Arial,-1\nStyle: Top  Left,Tahoma,0\n\n[Events]\nFormat: Marked, Start, End, Style, Name, MarginL, MarginR, MarginV, Effect, Text\nDialogue: Marked=0,0:00:01.00,0:00:02.00,Main Dialogue,Ann Lee,0,0,0,,first\nDialogue: Marked=0,0:00:03.00,0:00:04.00,Top  Left,,0,0,0,,second {\\i1}styled\n"), true},
		{"srt-invalid-time", "srt", []byte("1\n00:00:01,000 --> 00:0x:02,000\na\n"), false},
		{"srt-no-end", "srt", []byte("1\n00:00:01,000 -->\na\n"), false},
		{"vtt-full", "vtt", []byte(vttFull), true},
		{"vtt-crlf", "vtt", []byte(crlf(vttFull)), true},
		{"vtt-cr", "vtt", []byte(cr(vttFull)), true},
		{"vtt-bom-crlf", "vtt", []byte("\xef\xbb\xbf" + crlf("WEBVTT\n\n1\n00:01.000 --> 00:02.000\nfirst\n\n2\n00:03.000 --> 00:04.000\nsecond\n")), true},
		{"ssa-bom", "ssa", []byte("\xef\xbb\xbf" + ssaSmall), true},
		{"vtt-min", "vtt", []byte("WEBVTT\n\n00:01.000 --> 00:02.000\nx"), true},
		{"vtt-unknown-region", "vtt", []byte("WEBVTT\n\n00:01.000 --> 00:02.000 region:nope\nx\n"), false},
		{"ssa-small", "ssa", []byte(ssaSmall), true},
		{"ssa-crlf", "ssa", []byte(crlf(ssaSmall)), true},
		{"ssa-cr", "ssa", []byte(cr(ssaSmall)), true},
		{"ssa-v4plus", "ssa", []byte(ssaV4Plus), true},
		{"ssa-bad-int", "ssa", []byte("[Script Info]\nPlayResX: abc\n"), false},
		{"ttml-small", "ttml", []byte(ttmlSmall), true},
		{"ttml-crlf", "ttml", []byte(crlf(ttmlSmall)), true},
		{"ttml-framerate-24", "ttml", []byte(ttmlRate(24, 0)), true},
		{"ttml-framerate-30", "ttml", []byte(ttmlRate(30, 0)), true},
		{"ttml-framerate-50-ticks", "ttml", []byte(ttmlRate(50, 90000)), true},
		{"ttml-region-style-chain", "ttml", []byte(ttmlChain), true},
		{"ttml-invalid", "ttml", []byte("<tt><body><div><p begin=\"1s\" end=\"2s\">x</p></div></body>"), false},
		{"stl-open-25-2", "stl", writeSTL("0", 25, 2), true},
		{"stl-open-30-1", "stl", writeSTL("0", 30, 1), true},
		{"stl-teletext-25-3", "stl", writeSTL("1", 25, 3), true},
		{"stl-open-30-tcp10h", "stl", stlTCP(), true},
		{"stl-gsi-only", "stl", writeSTL("0", 25, 0), true},
		{"stl-truncated-tti", "stl", writeSTL("0", 25, 2)[:1024+128+60], false},
	}
	ds = append(ds, tsDocs()...)
	return append(ds, extra...)
}

// Testdata returns every file under /repo/testdata (formats by extension).
func Testdata() []Doc {
	var ds []Doc
	repo := os.Getenv("VERIF_REPO")
	if repo == "" {
		repo = "/repo"
	}
	files, _ := filepath.Glob(repo + "/testdata/*")
	sort.Strings(files)
	for _, f := range files {
		b, err := os.ReadFile(f)
		if err != nil {
			continue
		}
		ext := strings.TrimPrefix(strings.ToLower(filepath.Ext(f)), ".")
		if ext == "ass" {
			ext = "ssa"
		}
		switch ext {
		case "srt", "vtt", "ttml", "ssa", "stl", "ts":
			ds = append(ds, Doc{"testdata/" + filepath.Base(f), ext, b, true})
		}
	}
	return ds
}

// All = Small + Testdata.
func All() []Doc { return append(Small(), Testdata()...) }

// Read dispatches to the format's reader, recovering panics (reported through pan).
func Read(format string, r io.Reader) (s *astisub.Subtitles, err error, pan string) {
	defer func() {
		if e := recover(); e != nil {
			pan = fmt.Sprint(e)
		}
	}()
	switch format {
	case "srt":
		s, err = astisub.ReadFromSRT(r)
	case "vtt":
		s, err = astisub.ReadFromWebVTT(r)
	case "ttml":
		s, err = astisub.ReadFromTTML(r)
	case "ssa":
		s, err = astisub.ReadFromSSA(r)
	case "stl":
		s, err = astisub.ReadFromSTL(r, astisub.STLOptions{})
	case "ts":
		rs, ok := r.(io.ReadSeeker)
		if !ok {
			return nil, fmt.Errorf("ts needs a ReadSeeker"), ""
		}
		s, err = astisub.ReadFromTeletext(rs, astisub.TeletextOptions{})
	default:
		err = fmt.Errorf("unknown format %s", format)
	}
	return
}

// Write dispatches to the format's writer, recovering panics.
func Write(format string, s *astisub.Subtitles, w io.Writer) (err error, pan string) {
	defer func() {
		if e := recover(); e != nil {
			pan = fmt.Sprint(e)
		}
	}()
	switch format {
	case "srt":
		err = s.WriteToSRT(w)
	case "vtt":
		err = s.WriteToWebVTT(w)
	case "ttml":
		err = s.WriteToTTML(w)
	case "ttml-tab": // the same writer with a per-call option
		err = s.WriteToTTML(w, astisub.WriteToTTMLWithIndentOption("\t"))
	case "ttml-noindent":
		err = s.WriteToTTML(w, astisub.WriteToTTMLWithIndentOption(""))
	case "ssa":
		err = s.WriteToSSA(w)
	case "stl":
		err = s.WriteToSTL(w)
	default:
		err = fmt.Errorf("unknown format %s", format)
	}
	return
}

var WriteFormats = []string{"srt", "vtt", "ttml", "ssa", "stl"}
