// Package c04: SSA/ASS codec fidelity (E1 exploration over a ground-truth model x renderings).
package c04

import (
	"bytes"
	"encoding/json"
	"fmt"
	"io"
	"log"
	"strings"
	"time"

	astisub "github.com/asticode/go-astisub"

	"verif/core"
	"verif/explore"
	"verif/ref/ssa"
)

func init() { log.SetOutput(io.Discard) }

// ---------- library value <-> model ----------

// FromSubs extracts the SSA denotation carrier from a library value. odd reports structural
// surprises (sub-centisecond times, a style pointer outside the style table, ...).
func FromSubs(s *astisub.Subtitles) (d ssa.Doc, odd string) {
	d.Info.Str = map[string]string{}
	d.Info.Int = map[string]int{}
	if m := s.Metadata; m != nil {
		for k, v := range map[string]string{"Title": m.Title, "Original Script": m.SSAOriginalScript, "Original Translation": m.SSAOriginalTranslation,
			"Original Editing": m.SSAOriginalEditing, "Original Timing": m.SSAOriginalTiming, "Synch Point": m.SSASynchPoint,
			"Script Updated By": m.SSAScriptUpdatedBy, "Update Details": m.SSAUpdateDetails, "ScriptType": m.SSAScriptType,
			"Collisions": m.SSACollisions, "WrapStyle": m.SSAWrapStyle} {
			if v != "" {
				d.Info.Str[k] = v
			}
		}
		if m.SSAPlayResX != nil {
			d.Info.Int["PlayResX"] = *m.SSAPlayResX
		}
		if m.SSAPlayResY != nil {
			d.Info.Int["PlayResY"] = *m.SSAPlayResY
		}
		if m.SSAPlayDepth != nil {
			d.Info.Int["PlayDepth"] = *m.SSAPlayDepth
		}
		if m.SSATimer != nil {
			t := *m.SSATimer
			d.Info.Timer = &t
		}
		d.Info.Comments = append(d.Info.Comments, m.Comments...)
	}
	for id, st := range s.Styles {
		if st == nil {
			odd = "nil style in table"
			continue
		}
		if st.ID != id {
			odd = fmt.Sprintf("style table key %q holds style %q", id, st.ID)
		}
		ms := ssa.Style{Name: st.ID, Attrs: map[string]ssa.Value{}}
		if a := st.InlineStyle; a != nil {
			setB := func(n string, p *bool) {
				if p != nil {
					ms.Attrs[n] = boo(*p)
				}
			}
			setC := func(n string, p *astisub.Color) {
				if p != nil {
					ms.Attrs[n] = col(p.Alpha, p.Blue, p.Green, p.Red)
				}
			}
			setF := func(n string, p *float64) {
				if p != nil {
					ms.Attrs[n] = flt(*p)
				}
			}
			setI := func(n string, p *int) {
				if p != nil {
					ms.Attrs[n] = num(*p)
				}
			}
			setI("Alignment", a.SSAAlignment)
			setF("AlphaLevel", a.SSAAlphaLevel)
			setF("Angle", a.SSAAngle)
			setC("BackColour", a.SSABackColour)
			setB("Bold", a.SSABold)
			setI("BorderStyle", a.SSABorderStyle)
			setI("Encoding", a.SSAEncoding)
			if a.SSAFontName != "" {
				ms.Attrs["Fontname"] = str(a.SSAFontName)
			}
			setF("Fontsize", a.SSAFontSize)
			setB("Italic", a.SSAItalic)
			setI("MarginL", a.SSAMarginLeft)
			setI("MarginR", a.SSAMarginRight)
			setI("MarginV", a.SSAMarginVertical)
			setF("Outline", a.SSAOutline)
			setC("OutlineColour", a.SSAOutlineColour)
			setC("PrimaryColour", a.SSAPrimaryColour)
			setF("ScaleX", a.SSAScaleX)
			setF("ScaleY", a.SSAScaleY)
			setC("SecondaryColour", a.SSASecondaryColour)
			setF("Shadow", a.SSAShadow)
			setF("Spacing", a.SSASpacing)
			setB("Strikeout", a.SSAStrikeout)
			setB("Underline", a.SSAUnderline)
		}
		d.Styles = append(d.Styles, ms)
	}
	const cs = 10 * time.Millisecond
	for k, it := range s.Items {
		if it.StartAt%cs != 0 || it.EndAt%cs != 0 {
			odd = fmt.Sprintf("event %d: time not on a centisecond: %v..%v", k, it.StartAt, it.EndAt)
		}
		e := ssa.Event{Start: int64(it.StartAt / cs), End: int64(it.EndAt / cs)}
		if a := it.InlineStyle; a != nil {
			e.Effect = a.SSAEffect
			if a.SSALayer != nil {
				e.Layer = *a.SSALayer
			}
			if a.SSAMarked != nil {
				e.Marked = *a.SSAMarked
			}
			if a.SSAMarginLeft != nil {
				e.MarginL = *a.SSAMarginLeft
			}
			if a.SSAMarginRight != nil {
				e.MarginR = *a.SSAMarginRight
			}
			if a.SSAMarginVertical != nil {
				e.MarginV = *a.SSAMarginVertical
			}
		}
		if it.Style != nil {
			e.Style = it.Style.ID
			if s.Styles[it.Style.ID] != it.Style {
				odd = fmt.Sprintf("event %d: style %q is not the style table's entry", k, it.Style.ID)
			}
		}
		for li, l := range it.Lines {
			if li == 0 {
				e.Name = l.VoiceName
			} else if l.VoiceName != e.Name {
				odd = fmt.Sprintf("event %d: lines disagree on the speaker name (%q vs %q)", k, e.Name, l.VoiceName)
			}
			var line []ssa.Run
			for _, x := range l.Items {
				r := ssa.Run{Text: x.Text}
				if x.InlineStyle != nil {
					r.Block = x.InlineStyle.SSAEffect
				}
				line = append(line, r)
			}
			e.Lines = append(e.Lines, line)
		}
		d.Events = append(d.Events, e)
	}
	return
}

type buildOpt struct {
	nilMetadata    bool // leave Subtitles.Metadata nil (only meaningful when the model's info is empty)
	nilStyleInline bool // leave Style.InlineStyle nil (only meaningful when styles carry no attribute)
}

// ToSubs builds a library value from a model document, public types only.
func ToSubs(d ssa.Doc, o buildOpt) *astisub.Subtitles {
	s := astisub.NewSubtitles()
	if !o.nilMetadata {
		m := &astisub.Metadata{Title: d.Info.Str["Title"], SSAOriginalScript: d.Info.Str["Original Script"],
			SSAOriginalTranslation: d.Info.Str["Original Translation"], SSAOriginalEditing: d.Info.Str["Original Editing"],
			SSAOriginalTiming: d.Info.Str["Original Timing"], SSASynchPoint: d.Info.Str["Synch Point"],
			SSAScriptUpdatedBy: d.Info.Str["Script Updated By"], SSAUpdateDetails: d.Info.Str["Update Details"],
			SSAScriptType: d.Info.Str["ScriptType"], SSACollisions: d.Info.Str["Collisions"], SSAWrapStyle: d.Info.Str["WrapStyle"]}
		ip := func(k string) *int {
			if v, ok := d.Info.Int[k]; ok {
				return &v
			}
			return nil
		}
		m.SSAPlayResX, m.SSAPlayResY, m.SSAPlayDepth = ip("PlayResX"), ip("PlayResY"), ip("PlayDepth")
		if d.Info.Timer != nil {
			t := *d.Info.Timer
			m.SSATimer = &t
		}
		m.Comments = append(m.Comments, d.Info.Comments...)
		s.Metadata = m
	}
	for _, ms := range d.Styles {
		st := &astisub.Style{ID: ms.Name}
		if !o.nilStyleInline {
			a := &astisub.StyleAttributes{}
			for n, v := range ms.Attrs {
				v := v
				c := &astisub.Color{Alpha: v.C.A, Blue: v.C.B, Green: v.C.G, Red: v.C.R}
				switch n {
				case "Alignment":
					a.SSAAlignment = &v.I
				case "AlphaLevel":
					a.SSAAlphaLevel = &v.F
				case "Angle":
					a.SSAAngle = &v.F
				case "BackColour":
					a.SSABackColour = c
				case "Bold":
					a.SSABold = &v.B
				case "BorderStyle":
					a.SSABorderStyle = &v.I
				case "Encoding":
					a.SSAEncoding = &v.I
				case "Fontname":
					a.SSAFontName = v.S
				case "Fontsize":
					a.SSAFontSize = &v.F
				case "Italic":
					a.SSAItalic = &v.B
				case "MarginL":
					a.SSAMarginLeft = &v.I
				case "MarginR":
					a.SSAMarginRight = &v.I
				case "MarginV":
					a.SSAMarginVertical = &v.I
				case "Outline":
					a.SSAOutline = &v.F
				case "OutlineColour":
					a.SSAOutlineColour = c
				case "PrimaryColour":
					a.SSAPrimaryColour = c
				case "ScaleX":
					a.SSAScaleX = &v.F
				case "ScaleY":
					a.SSAScaleY = &v.F
				case "SecondaryColour":
					a.SSASecondaryColour = c
				case "Shadow":
					a.SSAShadow = &v.F
				case "Spacing":
					a.SSASpacing = &v.F
				case "Strikeout":
					a.SSAStrikeout = &v.B
				case "Underline":
					a.SSAUnderline = &v.B
				}
			}
			st.InlineStyle = a
		}
		s.Styles[ms.Name] = st
	}
	has := map[string]bool{}
	for _, c := range d.EventCols {
		has[c] = true
	}
	const cs = 10 * time.Millisecond
	for _, e := range d.Events {
		e := e
		it := &astisub.Item{StartAt: time.Duration(e.Start) * cs, EndAt: time.Duration(e.End) * cs}
		a := &astisub.StyleAttributes{SSAEffect: e.Effect}
		if has["LM"] {
			if d.V4Plus {
				a.SSALayer = &e.Layer
			} else {
				a.SSAMarked = &e.Marked
			}
		}
		if has["MarginL"] {
			a.SSAMarginLeft = &e.MarginL
		}
		if has["MarginR"] {
			a.SSAMarginRight = &e.MarginR
		}
		if has["MarginV"] {
			a.SSAMarginVertical = &e.MarginV
		}
		if len(d.EventCols) > 0 {
			it.InlineStyle = a // events carrying no optional column get no attribute object at all
		}
		if id := ssa.ResolveStyle(e.Style, d.Styles); id != "" {
			it.Style = s.Styles[id]
		}
		for _, l := range e.Lines {
			ln := astisub.Line{VoiceName: e.Name}
			for _, r := range l {
				li := astisub.LineItem{Text: r.Text}
				if r.Block != "" {
					li.InlineStyle = &astisub.StyleAttributes{SSAEffect: r.Block}
				}
				ln.Items = append(ln.Items, li)
			}
			it.Lines = append(it.Lines, ln)
		}
		s.Items = append(s.Items, it)
	}
	return s
}

func safeRead(b []byte) (s *astisub.Subtitles, err error, pan string) {
	defer func() {
		if e := recover(); e != nil {
			pan = fmt.Sprint(e)
		}
	}()
	s, err = astisub.ReadFromSSA(bytes.NewReader(b))
	return
}

func safeWrite(s *astisub.Subtitles) (out []byte, err error, pan string) {
	defer func() {
		if e := recover(); e != nil {
			pan = fmt.Sprint(e)
		}
	}()
	var buf bytes.Buffer
	err = s.WriteToSSA(&buf)
	out = buf.Bytes()
	return
}

// Viol is one classified failure.
type Viol struct{ Key, Msg string }

// ---------- read direction ----------

func withoutAttr(d ssa.Doc, attr string) ssa.Doc {
	o := d
	o.Styles = nil
	for _, s := range d.Styles {
		n := ssa.Style{Name: s.Name, Attrs: map[string]ssa.Value{}}
		for k, v := range s.Attrs {
			if k != attr {
				n.Attrs[k] = v
			}
		}
		o.Styles = append(o.Styles, n)
	}
	return o
}

// CheckRead: ReadFromSSA(render(model)) must denote the model.
func CheckRead(cs Case) (vs []Viol, outcome uint64) {
	b := cs.Doc.Bytes(cs.Render)
	s, err, pan := safeRead(b)
	if pan != "" {
		return []Viol{{"ssa.read.panic", fmt.Sprintf("ReadFromSSA panicked (%s) on %q", pan, b)}}, 0
	}
	if err != nil {
		return []Viol{{"ssa.read.error", fmt.Sprintf("ReadFromSSA failed (%v) on well-formed %q", err, b)}}, 0
	}
	got, odd := FromSubs(s)
	if odd != "" {
		vs = append(vs, Viol{"ssa.read.structure", fmt.Sprintf("%s; document %q", odd, b)})
	}
	if w, g := cs.Doc.Info.Denote(), got.Info.Denote(); w != g {
		vs = append(vs, Viol{"ssa.read.info-mismatch", fmt.Sprintf("document %q\n script info denotes %s\n reader returned      %s", b, w, g)})
	}
	if w, g := cs.Doc.DenoteStyles(), got.DenoteStyles(); w != g {
		key := "ssa.read.style-mismatch"
		if cs.Render.StrikeOutCap && withoutAttr(cs.Doc, "Strikeout").DenoteStyles() == g {
			// the only difference: the column spelled "StrikeOut" (ASS spec / Aegisub / ffmpeg spelling) was not read
			key = "ssa.read.style-column-StrikeOut-ignored"
		}
		vs = append(vs, Viol{key, fmt.Sprintf("document %q\n styles denote\n%s\n reader returned\n%s", b, w, g)})
	}
	if w, g := cs.Doc.DenoteEvents(), got.DenoteEvents(); w != g {
		vs = append(vs, Viol{"ssa.read.event-mismatch", fmt.Sprintf("document %q\n events denote\n%s reader returned\n%s", b, w, g)})
	}
	return vs, core.Hash64(got.Denote())
}

// ---------- write direction ----------

// Known writer defects are expressed as model transformations ("what the output would denote if
// the defect is the only thing wrong"); a mismatch is classified under a defect's narrow key only
// if the transformed model explains the observation exactly, so every other dimension stays checked.

// boolsFalse: every true style boolean turned false (written "1", which is not "-1").
func boolsFalse(d ssa.Doc) (ssa.Doc, bool) {
	o := d
	o.Styles = nil
	changed := false
	for _, s := range d.Styles {
		n := ssa.Style{Name: s.Name, Attrs: map[string]ssa.Value{}}
		for k, v := range s.Attrs {
			if v.Kind == "b" && v.B {
				v.B = false
				changed = true
			}
			n.Attrs[k] = v
		}
		o.Styles = append(o.Styles, n)
	}
	return o, changed
}

// runsSpaced: a space appended after every run but the last of its line.
func runsSpaced(d ssa.Doc) (ssa.Doc, bool) {
	o := d
	o.Events = nil
	changed := false
	for _, e := range d.Events {
		ne := e
		ne.Lines = nil
		for _, l := range e.Lines {
			nl := append([]ssa.Run{}, l...)
			for i := 0; i+1 < len(nl); i++ {
				nl[i].Text += " "
				changed = true
			}
			ne.Lines = append(ne.Lines, nl)
		}
		o.Events = append(o.Events, ne)
	}
	return o, changed
}

const (
	hBool  = 1
	hSpace = 2
)

func applyH(d ssa.Doc, h int) (ssa.Doc, bool) {
	ok := true
	if h&hBool != 0 {
		var c bool
		d, c = boolsFalse(d)
		ok = ok && c
	}
	if h&hSpace != 0 {
		var c bool
		d, c = runsSpaced(d)
		ok = ok && c
	}
	return d, ok
}

// explain returns the smallest set of known defects under which got is exactly what the model
// denotes (0 = plain agreement, -1 = unexplained).
func explain(model ssa.Doc, got string) int {
	for _, h := range []int{0, hBool, hSpace, hBool | hSpace} {
		m, applicable := applyH(model, h)
		if applicable && m.Denote() == got {
			return h
		}
	}
	return -1
}

// mergeRuns re-segments every line the way any SSA reader must: runs start at override blocks only.
func mergeRuns(d ssa.Doc) ssa.Doc {
	o := d
	o.Events = nil
	for _, e := range d.Events {
		ne := e
		ne.Lines = nil
		for _, l := range e.Lines {
			var nl []ssa.Run
			for _, r := range l {
				if r.Block == "" && len(nl) > 0 {
					nl[len(nl)-1].Text += r.Text
				} else {
					nl = append(nl, r)
				}
			}
			ne.Lines = append(ne.Lines, nl)
		}
		o.Events = append(o.Events, ne)
	}
	return o
}

// writable: the models the write direction is stated for ("representable cue lists").
func writable(d ssa.Doc) bool {
	if len(d.Events) == 0 {
		return true // the error path
	}
	for _, e := range d.Events {
		for _, l := range e.Lines {
			s := ""
			for _, r := range l {
				s += r.Block + r.Text
			}
			if s != strings.TrimSpace(s) {
				return false // white space at the outer ends of a line is not carried by the format
			}
		}
	}
	st := d.Info.Str["ScriptType"]
	if d.V4Plus != (st == "v4.00+") {
		return false // the writer picks Layer vs Marked from ScriptType
	}
	return true
}

// CheckWrite: WriteToSSA(model) must denote the model to the library reader and to the independent
// Format-driven decoder, and write(read(write(model))) must equal write(model) byte for byte.
func CheckWrite(d ssa.Doc) (vs []Viol, outcome uint64) {
	out, err, pan := safeWrite(ToSubs(d, buildOpt{}))
	if pan != "" {
		return []Viol{{"ssa.write.panic", "WriteToSSA panicked: " + pan}}, 0
	}
	if len(d.Events) == 0 {
		if err == nil {
			return []Viol{{"ssa.write.empty-no-error", "WriteToSSA of an empty cue list returned nil"}}, 0
		}
		return nil, core.Hash64("empty")
	}
	if err != nil {
		return []Viol{{"ssa.write.error", fmt.Sprintf("WriteToSSA failed: %v", err)}}, 0
	}
	want := d.Denote()
	// (ii) independent decoder
	rd, e := ssa.Decode(out)
	if e != nil {
		vs = append(vs, Viol{"ssa.write.ref-decode", fmt.Sprintf("independent decoder rejects writer output %q: %v", out, e)})
	} else {
		g := rd.Denote()
		switch h := explain(d, g); {
		case h < 0:
			vs = append(vs, Viol{"ssa.write.ref-mismatch", fmt.Sprintf("model\n%s\n written as %q\n independent decoder reads\n%s", want, out, g)})
		default:
			if h&hBool != 0 {
				vs = append(vs, Viol{"ssa.write.bool-true-written-as-1", fmt.Sprintf("a true style boolean is written \"1\"; the format's true is \"-1\": %q\n independent decoder reads\n%s", out, rd.DenoteStyles())})
			}
			if h&hSpace != 0 {
				vs = append(vs, Viol{"ssa.write.space-between-runs", fmt.Sprintf("a space is inserted between the runs of a line: model\n%s written as %q\n independent decoder reads\n%s", d.DenoteEvents(), out, rd.DenoteEvents())})
			}
		}
	}
	// (i) the library's own reader
	s2, err2, pan2 := safeRead(out)
	if pan2 != "" || err2 != nil {
		vs = append(vs, Viol{"ssa.write.self-read-fails", fmt.Sprintf("library reader fails on writer output %q: %v %s", out, err2, pan2)})
		return vs, core.Hash64(string(out))
	}
	got, odd := FromSubs(s2)
	if odd != "" {
		vs = append(vs, Viol{"ssa.write.self-structure", odd})
	}
	hs := explain(d, got.Denote())
	switch {
	case hs < 0:
		vs = append(vs, Viol{"ssa.write.self-mismatch", fmt.Sprintf("model\n%s\n written as %q\n library reads back\n%s", want, out, got.Denote())})
	default:
		if hs&hBool != 0 {
			vs = append(vs, Viol{"ssa.write.bool-true-read-back-false", fmt.Sprintf("a true style boolean does not stay true: written as %q\n library reads back\n%s", out, got.DenoteStyles())})
		}
		if hs&hSpace != 0 {
			vs = append(vs, Viol{"ssa.write.space-between-runs", fmt.Sprintf("a space is inserted between the runs of a line: model\n%s written as %q\n library reads back\n%s", d.DenoteEvents(), out, got.DenoteEvents())})
		}
	}
	// write . read . write = write
	out2, err3, pan3 := safeWrite(s2)
	if pan3 != "" || err3 != nil {
		vs = append(vs, Viol{"ssa.write.rewrite-fails", fmt.Sprintf("writing what was read back from %q fails: %v %s", out, err3, pan3)})
		return vs, core.Hash64(string(out))
	}
	if hs >= 0 {
		expect := out
		if hs != 0 {
			// the drift caused by the defects already reported above: the second write must be what
			// the writer makes of the (defect-transformed) model, nothing else may move
			// (re-segmented at override blocks, as reading does)
			m, _ := applyH(d, hs)
			expect, _, _ = safeWrite(ToSubs(mergeRuns(m), buildOpt{}))
		}
		if !bytes.Equal(out2, expect) {
			vs = append(vs, Viol{"ssa.write.rewrite-differs", fmt.Sprintf("first write  %q\nsecond write %q\nexpected     %q", out, out2, expect)})
		}
	}
	// values built without optional objects
	if len(d.Info.Str) == 0 && len(d.Info.Int) == 0 && d.Info.Timer == nil && len(d.Info.Comments) == 0 && !d.V4Plus {
		o, e, p := safeWrite(ToSubs(d, buildOpt{nilMetadata: true}))
		switch {
		case p != "":
			vs = append(vs, Viol{"ssa.write.panic.nil-metadata", "WriteToSSA panics on Subtitles whose Metadata is nil (as returned by every non-SSA reader): " + p})
		case e != nil:
			vs = append(vs, Viol{"ssa.write.nil-metadata-error", fmt.Sprintf("WriteToSSA fails on Subtitles whose Metadata is nil: %v", e)})
		case !bytes.Equal(o, out):
			vs = append(vs, Viol{"ssa.write.nil-metadata-differs", fmt.Sprintf("nil Metadata and empty Metadata are written differently: %q vs %q", o, out)})
		}
	}
	if len(d.Styles) > 0 && len(d.StyleAttrs) == 0 {
		o, e, p := safeWrite(ToSubs(d, buildOpt{nilStyleInline: true}))
		switch {
		case p != "":
			vs = append(vs, Viol{"ssa.write.panic.nil-style-attributes", "WriteToSSA panics on a Style whose InlineStyle is nil: " + p})
		case e != nil:
			vs = append(vs, Viol{"ssa.write.nil-style-attributes-error", fmt.Sprintf("WriteToSSA fails on a Style whose InlineStyle is nil: %v", e)})
		case !bytes.Equal(o, out):
			vs = append(vs, Viol{"ssa.write.nil-style-attributes-differs", fmt.Sprintf("nil and empty style attributes are written differently: %q vs %q", o, out)})
		}
	}
	return vs, core.Hash64(string(out))
}

// ---------- driver ----------

func run(c *core.Ctx) {
	bound := 2
	thorough := c.Tier == core.Thorough
	if thorough {
		bound = 3
	}
	log.SetOutput(io.Discard)
	heteroRun(c)
	var cs Case
	seenW := map[uint64]struct{}{}
	// owned: the exploration itself hands every case to exactly one worker (ExploreSharded); otherwise every
	// worker enumerates all cases and keeps those c.Mine() assigns to it.
	visitWith := func(sub string, owned bool) func(x *explore.C) bool {
		return func(x *explore.C) bool {
			if !owned && !c.Mine() {
				return true
			}
			cs := cs
			dev := explore.Deviations(x.Trace)
			b := cs.Doc.Bytes(cs.Render)
			den := cs.Doc.Denote()
			vs, out := CheckRead(cs)
			nt := uint64(0)
			if dev > 0 {
				nt = core.Hash64("r", string(b))
			}
			c.Record(sub+".read", out, nt, func() interface{} {
				return map[string]interface{}{"choices": x.Trace, "bytes": string(b)}
			})
			for _, v := range vs {
				cs.Dir = "read"
				c.Violate("read", v.Key, v.Msg, cs, dev*100000+len(b))
			}
			if writable(cs.Doc) {
				// the write direction depends on the model only: run each distinct model once per worker
				h := core.Hash64("w", den, fmt.Sprint(cs.Doc.V4Plus, cs.Doc.EventCols, cs.Doc.StyleAttrs))
				if _, ok := seenW[h]; !ok {
					seenW[h] = struct{}{}
					vs, out = CheckWrite(cs.Doc)
					c.Record(sub+".write", out, h, nil)
					for _, v := range vs {
						cs.Dir = "write"
						c.Violate("write", v.Key, v.Msg, cs, dev*100000+len(den))
					}
				}
			}
			return c.Evals%4096 != 0 || !c.Expired()
		}
	}
	visit := func(sub string) func(x *explore.C) bool { return visitWith(sub, false) }
	explore.Explore(-1, func(x *explore.C) { cs = genCoreStyles(x) }, visit("core-styles"))
	explore.Explore(-1, func(x *explore.C) { cs = genCoreEvents(x) }, visit("core-events"))
	explore.Explore(-1, func(x *explore.C) { cs = genCoreText(x) }, visit("core-text"))
	explore.Explore(-1, func(x *explore.C) { cs = genCoreStars(x) }, visit("core-stars"))
	explore.Explore(-1, func(x *explore.C) { cs = genCoreInfo(x) }, visit("core-info"))
	explore.Explore(-1, func(x *explore.C) { cs = genCoreStyleValues(x) }, visit("values-style"))
	explore.Explore(-1, func(x *explore.C) { cs = genCoreColourPairs(x) }, visit("colour-pairs"))
	explore.Explore(-1, func(x *explore.C) { cs = genCoreCentis(x) }, visit("centiseconds"))
	explore.Explore(-1, func(x *explore.C) { cs = genCoreNames(x) }, visit("values-names"))
	explore.Explore(-1, func(x *explore.C) { cs = genCoreEventValues(x) }, visit("values-event"))
	explore.Explore(-1, func(x *explore.C) { cs = genCoreTextValues(x) }, visit("values-text"))
	explore.Explore(-1, func(x *explore.C) { cs = genCoreInfoValues(x) }, visit("values-info"))
	explore.Explore(-1, func(x *explore.C) { cs = genCoreSyntax(x) }, visit("core-syntax"))
	explore.Explore(-1, func(x *explore.C) { cs = genCoreMany(x) }, visit("core-many"))
	p := profile{thorough: thorough}
	explore.ExploreSharded(2, c.Mine, func(x *explore.C) { cs = genBall(x, p) }, visitWith("ball", true))
	if thorough {
		// B=3 with the reduced family of column orders (adjacent transpositions, rotations, reversal)
		p.reducedPerms = true
		// (each worker owns whole subtrees below the first deviation, so case generation is not repeated 16 times)
		explore.ExploreSharded(3, c.Mine, func(x *explore.C) { cs = genBall(x, p) }, visitWith("ball3", true))
	}
	c.ExtraMax["deviation_bound"] = float64(bound)
}

func replay(sub string, raw json.RawMessage) (string, bool) {
	if sub == "hetero" {
		return heteroReplay(raw)
	}
	var cs Case
	if err := json.Unmarshal(raw, &cs); err != nil {
		return err.Error(), false
	}
	var vs []Viol
	if cs.Dir == "write" {
		vs, _ = CheckWrite(cs.Doc)
	} else {
		vs, _ = CheckRead(cs)
	}
	var msgs []string
	for _, v := range vs {
		msgs = append(msgs, "["+v.Key+"] "+v.Msg)
	}
	return strings.Join(msgs, "\n"), len(vs) > 0
}

func init() {
	core.Register(&core.Prop{
		ID: "C04", Level: "exploration",
		Rule: "a case = (ground-truth SSA model, rendering choices) chosen by the E1 explorer. Model: script info (15 fields, comments), 0..s styles over all 23 typed attributes sharing one Format, Dialogue events with every column (start/end cs, layer or marked, margins, effect, name, style reference incl. '*' forms), text of lines x runs (override block + text, commas, colons, look-alike cells). Value tables (boundary-complete, every one inside a full product and in the deviation balls): style / speaker names plain, with a blank, digits only, with ':' ';' '[..]', non-ASCII, the keywords Default/Format/Style/Dialogue, '*'-prefixed; font names with a blank, '@' prefix, non-ASCII, empty; floats 0, negative, 1-3 decimals, 1000.125, the truncation-sensitive 2.675 / 1.005 / 0.07, integer-valued; Alignment 1..11, BorderStyle 1/3, Encoding 0/1/128/134/204/255, margins 0/9/10/99/100/1234/9999/negative; colours all-zero, all-ones, each single byte 0xFF, 0x7FFFFFFF, 0x80000000, 0x80000008 (= -2147483640); times at the .00/.01/.05/.10/.50/.99 fractions and the second/minute/hour/10 h/24 h/100 h boundaries; layer 0..1000000; effects with ';' fields, blanks, ':'; 11 override blocks (several tags, {=0}, blanks, commas, ':'); 30 text atoms (commas, ':', ';', brackets, tab, NBSP, \\h, non-ASCII, emoji, keywords, a Dialogue look-alike, empty, outer blanks); every script-info field with >= 2 values incl. URL / clock-time / comma / non-ASCII / keyword / section-name contents, PlayRes 0..100000, Timer 0 / 0.125 / 33.3333 / 1000.5, WrapStyle 0..3, ScriptType case variants, comments empty / with ':' / ';' / '[' / non-ASCII. Rendering: v4 / v4+, column order of both Format lines (every transposition, rotation and the reversal of the full column list; every permutation in the core products), column subsets, Text last, section-name case and [V4 Styles+], H: vs HH: times, 6 colour encodings (&H upper/lower/6-digit/no leading zeros, signed/unsigned decimal), booleans -1/0, 3 float forms (20 / 20.0 / 20.000), padded event and style margins, \\N / \\n, EOL kinds, BOM, unterminated last line, blank lines, Format separators, 0/1/2 blanks after 'Key:', trailing blank or tab on every line, field order, comment forms, Timer forms (100 / 100.0000 / 100,0000), a known field with empty content, junk (colon-less lines, unknown keys, Comment/Picture/Sound/Movie/Command events, unknown sections holding look-alike lines). Read: ReadFromSSA(render(model)) must denote the model (info, style table, events compared separately). Write: WriteToSSA(model) must denote the model to ReadFromSSA and to the independent Format-driven decoder (true <=> -1), and write(read(write(model))) must be byte-identical to write(model); known writer defects are matched as exact model transformations so everything else stays compared. non-trivial = non-baseline case, distinct by rendered bytes (read) or by model (write)",
		Scope: map[core.Tier]string{
			core.Quick:    "structure products (styles: <=2 styles x subsets of 4 attributes x all column permutations x 2 radices x v4/v4+; events: all permutations of 5 columns x layer/marked x style reference x time form x EOL; text shapes; star names; info: subsets of 6 fields x comments x junk x EOL) + value products (style: version x attribute x every value of its kind x every encoding of the kind x 3 column layouts x key separator; names: style name x font name x reference form x speaker; event: start x end offset x time form x column order, layer/marked/each margin x value x padding x order, effect x speaker x order x key separator; text: atom x block x 5 placements x break kind, atom x atom as two lines / around an empty line / around a block; info: field x value x key separator x trailing blanks x company x EOL, comment x comment x form x position; syntax: key separator x trailing blanks x EOL x section case x Format separator x BOM x final EOL x blank lines x empty field; many: 3..300 events / 3..257 styles / 3..257 comments / 4..50 lines / 4..50 runs, all distinct, x version x EOL) + deviation ball B=2 over all choice points (<=2 styles, <=2 events, <=2 lines, <=3 runs); colour pairs (2 cells x 8 values whose digits read alike in another radix x 4 notations each x same / other style x version); every hundredth of a second after 0 s, 1 s, 59 s, 59:59, 9:59:59",
			core.Thorough: "all products + deviation ball B=2 as in quick but <=3 styles, <=3 events, <=3 lines + deviation ball B=3 with the column orders reduced to adjacent transpositions, rotations and the reversal",
		},
		Assumptions: []string{"Go toolchain and standard library", "independent reference codec engine/ref/ssa",
			"white space at the outer ends of a text line is outside the denotation (the reader trims; the format description is silent)",
			"an event column absent from Format denotes the zero value (0 / false / empty) of its field",
			"all styles of a document share one attribute set (one Format line); write direction uses such style tables only, so the output does not depend on map iteration order (that is C19's subject)",
			"style references point to defined styles or are empty; stray '{' '}' outside override blocks and the empty block '{}' are not generated",
			"cells carry no blanks at their ends and no comma (except Text); style names are non-empty and unique; key and column names are spelled as in the format description (plus StrikeOut); hexadecimal colours are &H + digits without a trailing '&'; time fractions have two digits"},
		Plain: run, Replay: replay,
	})
}
