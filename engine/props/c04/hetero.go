package c04

import (
	"encoding/json"
	"fmt"

	"verif/core"
	"verif/ref/ssa"
)

// Styles that do not all carry the same attributes (what a list assembled by hand or converted from another
// format looks like; no SSA reader produces it).  The writer declares the union of the columns; in the row of a
// style that lacks an attribute the cell is empty or holds the zero value of its kind - never another value.
// Both decoders (the independent Format-driven one and the library's reader) must find every attribute a style
// HAS with its value, and nothing but "absent" or a zero value for one it has not.

type HeteroCase struct {
	V4Plus bool  `json:"v4plus"`
	Sets   []int `json:"attribute_sets"` // per style: bit k set = attribute heteroAttrs[k] present
}

var heteroAttrs = []string{"Alignment", "Bold", "Fontname", "Fontsize", "PrimaryColour"}
var heteroVals = map[string]ssa.Value{"Alignment": num(7), "Bold": boo(false), "Fontname": str("Arial"), "Fontsize": flt(20.5), "PrimaryColour": col(0, 10, 20, 30)}

func isZero(v ssa.Value) bool {
	switch v.Kind {
	case "b":
		return !v.B
	case "c":
		return v.C == ssa.Color{}
	case "f":
		return v.F == 0
	case "i":
		return v.I == 0
	}
	return v.S == ""
}

func checkHetero(hc HeteroCase) (key, msg string, out uint64) {
	var d ssa.Doc
	d.V4Plus = hc.V4Plus
	d.Info.Str = map[string]string{"ScriptType": "v4.00"}
	if d.V4Plus {
		d.Info.Str["ScriptType"] = "v4.00+"
	}
	d.Info.Int = map[string]int{}
	for i, set := range hc.Sets {
		st := ssa.Style{Name: fmt.Sprintf("S%d", i), Attrs: map[string]ssa.Value{}}
		for k, a := range heteroAttrs {
			if set>>k&1 == 1 {
				st.Attrs[a] = heteroVals[a]
			}
		}
		d.Styles = append(d.Styles, st)
	}
	d.EventCols = []string{"LM", "Style"}
	d.Events = []ssa.Event{{Start: 100, End: 200, Style: "S0", Lines: [][]ssa.Run{{{Text: "x"}}}}}
	b, err, pan := safeWrite(ToSubs(d, buildOpt{}))
	desc := fmt.Sprintf("styles with attribute sets %v (of %v)", hc.Sets, heteroAttrs)
	if pan != "" {
		return "ssa.write.panic", desc + ": WriteToSSA panicked: " + pan, 0
	}
	if err != nil {
		return "ssa.write.error", fmt.Sprintf("%s: WriteToSSA failed: %v", desc, err), 0
	}
	judge := func(who string, got ssa.Doc) (string, string) {
		for i, ms := range d.Styles {
			var gs *ssa.Style
			for k := range got.Styles {
				if got.Styles[k].Name == ms.Name {
					gs = &got.Styles[k]
				}
			}
			if gs == nil {
				return "ssa.write.hetero.style-lost", fmt.Sprintf("%s: %s finds no style %s in %q", desc, who, ms.Name, b)
			}
			for k, a := range heteroAttrs {
				g, ok := gs.Attrs[a]
				if hc.Sets[i]>>k&1 == 1 {
					if w := heteroVals[a]; !ok && !isZero(w) || ok && g.String() != w.String() {
						return "ssa.write.hetero.value", fmt.Sprintf("%s: style %s has %s=%s, %s reads %v (present=%v) from %q", desc, ms.Name, a, w, who, g, ok, b)
					}
				} else if ok && !isZero(g) {
					return "ssa.write.hetero.absent-attribute-gets-a-value", fmt.Sprintf("%s: style %s has no %s, yet %s reads %s from %q", desc, ms.Name, a, who, g, b)
				}
			}
		}
		return "", ""
	}
	if rd, e := ssa.Decode(b); e != nil {
		return "ssa.write.ref-decode", fmt.Sprintf("%s: independent decoder rejects %q: %v", desc, b, e), 0
	} else if k, m := judge("the independent decoder", rd); k != "" {
		return k, m, 0
	}
	s2, err2, pan2 := safeRead(b)
	if pan2 != "" || err2 != nil {
		return "ssa.write.self-read-fails", fmt.Sprintf("%s: library reader fails on %q: %v %s", desc, b, err2, pan2), 0
	}
	got, _ := FromSubs(s2)
	if k, m := judge("the library's reader", got); k != "" {
		return k, m, 0
	}
	return "", "", core.Hash64(string(b))
}

func heteroRun(c *core.Ctx) {
	n := 1 << len(heteroAttrs)
	for _, v4p := range []bool{false, true} {
		for a := 0; a < n; a++ {
			for b := 0; b < n; b++ {
				sets := [][]int{{a, b}}
				if c.Tier == core.Thorough || (a+b)%4 == 0 {
					sets = append(sets, []int{a, b, a & b}, []int{b, a | b, a})
				}
				for _, st := range sets {
					if !c.Mine() {
						continue
					}
					hc := HeteroCase{V4Plus: v4p, Sets: st}
					key, msg, out := checkHetero(hc)
					nt := uint64(0)
					if a != b {
						nt = core.Hash64("hetero", fmt.Sprint(v4p, st))
					}
					c.Record("hetero", out, nt, func() interface{} { return hc })
					if key != "" {
						c.Violate("hetero", key, msg, hc, len(st))
					}
				}
			}
		}
	}
}

func heteroReplay(raw json.RawMessage) (string, bool) {
	var hc HeteroCase
	json.Unmarshal(raw, &hc)
	k, m, _ := checkHetero(hc)
	return m, k != ""
}
