package c04

import (
	"strconv"

	"verif/explore"
	"verif/ref/ssa"
)

// Case is one explored execution: a ground-truth document and how it is rendered.
type Case struct {
	Doc    ssa.Doc    `json:"doc"`
	Render ssa.Render `json:"render"`
	Dir    string     `json:"dir"`
}

func col(a, b, g, r uint8) ssa.Value {
	return ssa.Value{Kind: "c", C: ssa.Color{A: a, B: b, G: g, R: r}}
}
func flt(f float64) ssa.Value { return ssa.Value{Kind: "f", F: f} }
func num(i int) ssa.Value     { return ssa.Value{Kind: "i", I: i} }
func boo(b bool) ssa.Value    { return ssa.Value{Kind: "b", B: b} }
func str(s string) ssa.Value  { return ssa.Value{Kind: "s", S: s} }

// attrValues: per attribute the baseline value first (pairwise distinct among same-typed columns,
// so that a cell taken from the wrong column shows), then the alternatives. Floats are exactly
// representable with three decimals (the writer's precision); 2.675, 1.005 and 0.07 are the classic
// values that a multiply-and-truncate formatter gets wrong, 1000.125 needs seven significant digits.
var attrValues = map[string][]ssa.Value{
	"Fontname": {str("Arial"), str("Times New Roman"), str("f1"), str("@MS Gothic"), str("\uff2d\uff33 \u30b4\u30b7\u30c3\u30af"), str(""), str("123"), str("Style")},
	"Fontsize": {flt(20), flt(4.5), flt(0), flt(4.125), flt(1000.125), flt(2.675), flt(100)},
	"PrimaryColour": {col(0, 0xff, 0xff, 0xff), col(0x80, 0, 0, 8), col(0, 0xb4, 0xfc, 0xfc), col(0xff, 0x01, 0x02, 0x03),
		col(0, 0, 0, 0xff), col(0, 0, 0xff, 0), col(0, 0xff, 0, 0), col(0xff, 0, 0, 0), col(0xff, 0xff, 0xff, 0xff), col(0, 0, 0, 0), col(0x7f, 0xff, 0xff, 0xff), col(0x80, 0, 0, 0)},
	"SecondaryColour": {col(0, 0, 0, 0xff), col(0x7f, 0xef, 0xef, 0xef), col(0xfe, 0, 0xff, 0), col(0, 0, 0xff, 0), col(0xff, 0xff, 0xff, 0xff)},
	"OutlineColour":   {col(0, 0, 0, 1), col(0, 0, 0xff, 0xff), col(0x80, 0x11, 0x22, 0x33), col(0, 0xff, 0, 0), col(0, 0, 0, 0)},
	"BackColour":      {col(0, 0x10, 0x20, 0x30), col(0x80, 0, 0, 8), col(0, 0, 0, 0), col(0xff, 0, 0, 0), col(0x80, 0, 0, 0)},
	"Bold":            {boo(false), boo(true)},
	"Italic":          {boo(false), boo(true)},
	"Underline":       {boo(false), boo(true)},
	"Strikeout":       {boo(false), boo(true)},
	"ScaleX":          {flt(100), flt(87.5), flt(0.125), flt(0), flt(1000.5), flt(1.005)},
	"ScaleY":          {flt(90), flt(112.25), flt(0), flt(0.07), flt(100)},
	"Spacing":         {flt(0.5), flt(0), flt(-1.5), flt(4.125), flt(-0.001), flt(10)},
	"Angle":           {flt(45), flt(0), flt(359.875), flt(-45), flt(90.5), flt(360)},
	"BorderStyle":     {num(1), num(3)},
	"Outline":         {flt(2), flt(0), flt(1.5), flt(4.125), flt(10)},
	"Shadow":          {flt(3), flt(0), flt(0.75), flt(2.675), flt(12)},
	"Alignment":       {num(2), num(7), num(11), num(1), num(3), num(4), num(5), num(6), num(8), num(9), num(10)},
	"MarginL":         {num(10), num(0), num(1234), num(9999), num(9), num(100), num(-5)},
	"MarginR":         {num(20), num(0), num(5), num(9999), num(99)},
	"MarginV":         {num(30), num(0), num(600), num(1000), num(-5)},
	"AlphaLevel":      {flt(0.25), flt(0), flt(0.1), flt(1), flt(255), flt(0.999)},
	"Encoding":        {num(204), num(0), num(1), num(128), num(255), num(134)},
}

// kindValues: for the value products every colour / float column ranges over the union of the tables of its kind.
var allColours, allFloats = unionOf("c"), unionOf("f")

func unionOf(kind string) (o []ssa.Value) {
	seen := map[string]bool{}
	for _, a := range ssa.V4PlusAttrs {
		for _, v := range attrValues[a] {
			if v.Kind == kind && !seen[v.String()] {
				seen[v.String()] = true
				o = append(o, v)
			}
		}
	}
	for _, v := range attrValues["AlphaLevel"] {
		if v.Kind == kind && !seen[v.String()] {
			seen[v.String()] = true
			o = append(o, v)
		}
	}
	return
}

// style names: plain, with a blank, digits only, with the line's own separator, non-ASCII, keywords of the format, brackets, a semicolon
var styleNames = [][]string{
	{"Default", "A", "My Style", "123", "a:b", "\u00c9l\u00e8ve", "Format", "Style", "Dialogue", "[x]", "x;y"},
	{"B", "Alt 2", "9", "Dialogue"},
	{"C"}}

var speakerNames = []string{"Cher", "", "autre b", "123", "a:b", "\u00c9 \u00fc", "Default", "Dialogue", "[x]", "*x", "a;b", "Dialogue: 0"}

var effects = []string{"", "test", "Scroll up;100;200", "Karaoke", "Scroll up;100;200;50", "Banner;20;1;10", "Scroll down; 10; 20", "a: b", "Marked=1"}

var layers = []int{0, 1, 5, 99, 100, 1000000}
var marginsL = []int{10, 0, 1234, 9999, 9, 100}
var marginsR = []int{20, 0, 2345, 9999}
var marginsV = []int{30, 0, 3456, 1}

// cs instants (centiseconds): second / minute / hour / 10-hour / 100-hour boundaries and the fractions .00 .01 .05 .10 .50 .99
var starts = []int64{100, 0, 1, 99, 150, 5999, 6000, 359999, 360000, 3599999, 3600000, 8639999, 5, 10, 50, 35999999, 36000000}

var blocks = []string{"", `{\pos(400,570)}`, `{\i1}`, `{\c&HFF00FF&\fnArial, Bold}`, `{\b1\i1}`, `{=0}`, `{\an8}`, `{\fnTimes New Roman}`, `{\t(0,100,\fs20)}`, `{note: x}`, `{\k50}`}
var texts = []string{"x", "a b", "a,b", ",", "a: b", "7", "\u00e9", "\U0001F600", " lead", "trail ", `a\hb`, "[x]", ";s", "", "0:00:01.00", "Marked=1",
	"Dialogue: 0,0:00:00.00,x", "a,b,c,,d,", "a\tb", "a\u00a0b", `\h`, "\u65e5\u672c\u8a9e", "-", "Format: Text", "a  b", "&H00FF", "100%", "<i>x</i>", ":", "Style"}

type profile struct {
	thorough     bool // <=3 styles / events / lines
	reducedPerms bool // column orders: adjacent transpositions, rotations, reversal (instead of all transpositions)
}

// nPermsR / permR: the reduced family — identity, adjacent transpositions, rotations, reversal.
func nPermsR(n int) int {
	if n < 2 {
		return 1
	}
	return 1 + (n - 1) + (n - 1) + 1
}

func permR(n, k int) []int {
	p := make([]int, n)
	for i := range p {
		p[i] = i
	}
	switch {
	case k == 0 || n < 2:
	case k <= n-1:
		p[k-1], p[k] = p[k], p[k-1]
	case k <= 2*(n-1):
		r := k - (n - 1)
		for i := range p {
			p[i] = (i + r) % n
		}
	default:
		for i := range p {
			p[i] = n - 1 - i
		}
	}
	return p
}

// perms returns the permutation number k of n columns: 0 identity, then every transposition, then
// every rotation, then the reversal.
func nPerms(n int) int {
	if n < 2 {
		return 1
	}
	return 1 + n*(n-1)/2 + (n - 1) + 1
}

func perm(n, k int) []int {
	p := make([]int, n)
	for i := range p {
		p[i] = i
	}
	if k == 0 || n < 2 {
		return p
	}
	k--
	for i := 0; i < n; i++ {
		for j := i + 1; j < n; j++ {
			if k == 0 {
				p[i], p[j] = p[j], p[i]
				return p
			}
			k--
		}
	}
	if k < n-1 {
		r := k + 1
		for i := range p {
			p[i] = (i + r) % n
		}
		return p
	}
	for i := range p {
		p[i] = n - 1 - i
	}
	return p
}

// allPerms returns the k-th permutation of n elements in lexicographic order (core product).
func lexPerm(n, k int) []int {
	el := make([]int, n)
	for i := range el {
		el[i] = i
	}
	f := 1
	for i := 2; i < n; i++ {
		f *= i
	}
	var p []int
	for i := n - 1; i >= 0; i-- {
		idx := 0
		if f > 0 {
			idx = k / f
			k %= f
		}
		p = append(p, el[idx])
		el = append(el[:idx], el[idx+1:]...)
		if i > 0 {
			f /= i
		}
	}
	return p
}

func fact(n int) int {
	f := 1
	for i := 2; i <= n; i++ {
		f *= i
	}
	return f
}

// infoStrValues: per text field "" (absent) first, then values: plain, with the line's own separator (a URL, a
// clock time), with a comma / semicolon, non-ASCII, keywords and section names of the format.
var infoStrValues = []struct {
	k    string
	opts []string
}{
	{"Original Script", []string{"", "asticode", "a: b"}},
	{"Original Translation", []string{"", "tr, 2nd", "\u65e5\u672c\u8a9e"}},
	{"Original Editing", []string{"", "ed", "Format: x"}},
	{"Original Timing", []string{"", "ti:me", "1:02"}},
	{"Synch Point", []string{"", "0:00:01.00", "0"}},
	{"Script Updated By", []string{"", "version 2.8.01", "\u00c9"}},
	{"Update Details", []string{"", "none; really", "http://x/y?a=b"}},
	{"Collisions", []string{"", "Normal", "Reverse"}},
	{"WrapStyle", []string{"", "0", "2", "1", "3"}},
}
var infoTitles = []string{"SSA test", "", "a: b, c", "http://x/y", "1:02", "\u00c9 \u65e5\u672c", "Title", "; x", "[Events]"}
var infoPlayResX = []int{-1, 640, 0, 1, 1920, 100000}
var infoPlayResY = []int{-1, 480, 0, 1080, 99999}
var infoPlayDepth = []int{-1, 0, 16, 8, 32}
var infoTimers = []float64{-1, 100, 99.5, 0, 0.125, 1000.5, 33.3333}
var infoComments = []string{"Comment 1", "a: b", "c;d [e]", "; disabled: x", ";; banner ;;", "[x]", "!: y", "", "http://x/y", "\u65e5\u672c", "Title: x"}

func scriptTypes(v4plus bool) []string {
	if v4plus {
		return []string{"v4.00+", "", "V4.00+", "v4.00"}
	}
	return []string{"v4.00", "", "V4.00", "v4.00+"}
}

func genInfo(c *explore.C, d *ssa.Doc) {
	d.Info.Str = map[string]string{}
	d.Info.Int = map[string]int{}
	if v := explore.Pick(c, "info.Title", infoTitles...); v != "" {
		d.Info.Str["Title"] = v
	}
	if v := explore.Pick(c, "info.ScriptType", scriptTypes(d.V4Plus)...); v != "" {
		d.Info.Str["ScriptType"] = v
	}
	for _, f := range infoStrValues {
		if v := explore.Pick(c, "info."+f.k, f.opts...); v != "" {
			d.Info.Str[f.k] = v
		}
	}
	if v := explore.Pick(c, "info.PlayResX", infoPlayResX...); v >= 0 {
		d.Info.Int["PlayResX"] = v
	}
	if v := explore.Pick(c, "info.PlayResY", infoPlayResY...); v >= 0 {
		d.Info.Int["PlayResY"] = v
	}
	if v := explore.Pick(c, "info.PlayDepth", infoPlayDepth...); v >= 0 {
		d.Info.Int["PlayDepth"] = v
	}
	if v := explore.Pick(c, "info.Timer", infoTimers...); v >= 0 {
		d.Info.Timer = &v
	}
	n := explore.Pick(c, "info.ncomments", 0, 1, 2)
	for i := 0; i < n; i++ {
		d.Info.Comments = append(d.Info.Comments, explore.Pick(c, "info.comment", infoComments...))
	}
}

func genStyles(c *explore.C, d *ssa.Doc, maxStyles int) {
	ver := ssa.V4PlusAttrs
	if !d.V4Plus {
		ver = ssa.V4Attrs
	}
	// attribute set: full, a 4-column core, none, then every attribute alone
	k := c.Choose("style.attrset", 3+len(ver))
	switch {
	case k == 0:
		d.StyleAttrs = append([]string{}, ver...)
	case k == 1:
		d.StyleAttrs = []string{"Fontname", "Fontsize", "PrimaryColour", "Bold"}
	case k == 2:
		d.StyleAttrs = []string{}
	default:
		d.StyleAttrs = []string{ver[k-3]}
	}
	nsOpts := []int{1, 0, 2}
	if maxStyles >= 3 {
		nsOpts = []int{1, 0, 2, 3}
	}
	ns := explore.Pick(c, "style.n", nsOpts...)
	for i := 0; i < ns; i++ {
		s := ssa.Style{Name: explore.Pick(c, "style.name", styleNames[i]...), Attrs: map[string]ssa.Value{}}
		if i > 0 && s.Name == d.Styles[0].Name {
			s.Name = "B" // style names are unique
		}
		for _, a := range d.StyleAttrs {
			s.Attrs[a] = explore.Pick(c, "style."+a, attrValues[a]...)
		}
		d.Styles = append(d.Styles, s)
	}
}

func genEvents(c *explore.C, d *ssa.Doc, p profile) {
	// optional columns: all, none, each one dropped, each one alone
	all := ssa.AllEventCols
	k := c.Choose("event.cols", 2+2*len(all))
	switch {
	case k == 0:
		d.EventCols = append([]string{}, all...)
	case k == 1:
		d.EventCols = []string{}
	case k < 2+len(all):
		for i, x := range all {
			if i != k-2 {
				d.EventCols = append(d.EventCols, x)
			}
		}
	default:
		d.EventCols = []string{all[k-2-len(all)]}
	}
	has := map[string]bool{}
	for _, x := range d.EventCols {
		has[x] = true
	}
	neOpts := []int{1, 0, 2}
	nlOpts := []int{1, 2}
	nrOpts := []int{1, 2, 3}
	if p.thorough {
		neOpts = []int{1, 0, 2, 3}
		nlOpts = []int{1, 2, 3}
	}
	ne := explore.Pick(c, "event.n", neOpts...)
	for i := 0; i < ne; i++ {
		var e ssa.Event
		e.Start = explore.Pick(c, "event.start", starts...)
		switch c.Choose("event.end", 6) {
		case 0:
			e.End = e.Start + 100
		case 1:
			e.End = e.Start + 1
		case 2:
			e.End = e.Start
		case 3:
			e.End = e.Start + 360000
		case 4:
			e.End = e.Start + 5
		case 5:
			e.End = e.Start + 99
		}
		if has["LM"] {
			if d.V4Plus {
				e.Layer = explore.Pick(c, "event.layer", layers...)
			} else {
				e.Marked = c.Bool("event.marked")
			}
		}
		if has["Style"] {
			var opts []string
			switch len(d.Styles) {
			case 0:
				opts = []string{""}
			case 1:
				opts = []string{d.Styles[0].Name, "", "*" + d.Styles[0].Name}
			default:
				opts = []string{d.Styles[0].Name, "", "*" + d.Styles[0].Name, d.Styles[1].Name, "*" + d.Styles[len(d.Styles)-1].Name}
			}
			e.Style = explore.Pick(c, "event.style", opts...)
		}
		if has["Name"] {
			e.Name = explore.Pick(c, "event.name", speakerNames...)
		}
		if has["MarginL"] {
			e.MarginL = explore.Pick(c, "event.ml", marginsL...)
		}
		if has["MarginR"] {
			e.MarginR = explore.Pick(c, "event.mr", marginsR...)
		}
		if has["MarginV"] {
			e.MarginV = explore.Pick(c, "event.mv", marginsV...)
		}
		if has["Effect"] {
			e.Effect = explore.Pick(c, "event.effect", effects...)
		}
		nl := explore.Pick(c, "event.nlines", nlOpts...)
		for l := 0; l < nl; l++ {
			var line []ssa.Run
			nr := explore.Pick(c, "event.nruns", nrOpts...)
			for r := 0; r < nr; r++ {
				line = append(line, ssa.Run{Block: explore.Pick(c, "event.block", blocks...), Text: explore.Pick(c, "event.text", texts...)})
			}
			e.Lines = append(e.Lines, line)
		}
		d.Events = append(d.Events, e)
	}
}

func genRender(c *explore.C, d ssa.Doc, p profile) ssa.Render {
	np, pm := nPerms, perm
	if p.reducedPerms {
		np, pm = nPermsR, permR
	}
	r := ssa.DefaultRender(d)
	r.EOL = explore.Pick(c, "r.eol", "\n", "\r\n", "\r")
	r.BOM = c.Bool("r.bom")
	r.NoFinalEOL = c.Bool("r.nofinaleol")
	r.SecCase = c.Choose("r.seccase", 3)
	if d.V4Plus && len(d.Styles) > 0 {
		r.PlusSuffix = c.Bool("r.plussuffix")
	}
	r.Blank = explore.Pick(c, "r.blank", 1, 0, 2)
	r.InfoReverse = c.Bool("r.inforeverse")
	if len(d.Info.Comments) > 0 {
		r.CommentTight = c.Bool("r.commenttight")
		r.CommentsLast = c.Bool("r.commentslast")
	}
	if d.Info.Timer != nil {
		r.TimerForm = c.Choose("r.timer", 3)
	}
	if len(d.Styles) > 0 {
		n := 1 + len(d.StyleAttrs)
		r.StyleOrder = pm(n, c.Choose("r.styleorder", np(n)))
		for _, a := range d.StyleAttrs {
			if a == "Strikeout" {
				r.StrikeOutCap = c.Bool("r.strikeoutcap")
			}
		}
		r.Radix = c.Choose("r.radix", 6)
		r.FloatForm = c.Choose("r.floatform", 3)
		r.StylePad = c.Bool("r.stylepad")
	}
	n := d.NEventCols()
	r.EventOrder = pm(n, c.Choose("r.eventorder", np(n)))
	r.FormatSep = explore.Pick(c, "r.formatsep", ", ", ",", " , ")
	r.Hours2 = c.Bool("r.hours2")
	r.MarginPad = c.Bool("r.marginpad")
	r.Breaks = c.Choose("r.breaks", 3)
	r.JunkInfo = c.Choose("r.junkinfo", 6)
	r.KVSep = c.Choose("r.kvsep", 3)
	r.TrailBlank = c.Choose("r.trailblank", 3)
	if len(d.Styles) > 0 {
		r.JunkStyles = c.Choose("r.junkstyles", 4)
	}
	r.JunkEvents = c.Choose("r.junkevents", 9)
	r.Unknown = c.Choose("r.unknown", 5)
	if len(d.Styles) > 0 {
		r.SecOrder = c.Choose("r.secorder", 3)
	}
	return r
}

// genBall: every model and rendering dimension is a choice point.
func genBall(c *explore.C, p profile) Case {
	var d ssa.Doc
	d.V4Plus = !c.Bool("v4")
	genInfo(c, &d)
	ms := 2
	if p.thorough {
		ms = 3
	}
	genStyles(c, &d, ms)
	genEvents(c, &d, p)
	return Case{Doc: d, Render: genRender(c, d, p)}
}

// genCoreStyles: full product — 1..2 styles over Name + every subset of {Bold, PrimaryColour, Fontsize,
// Alignment}, every permutation of the columns, both versions, hexadecimal and decimal colours.
func genCoreStyles(c *explore.C) Case {
	var d ssa.Doc
	d.V4Plus = !c.Bool("v4")
	d.Info.Str = map[string]string{"ScriptType": "v4.00"}
	if d.V4Plus {
		d.Info.Str["ScriptType"] = "v4.00+"
	}
	d.Info.Int = map[string]int{}
	for _, a := range []string{"Bold", "PrimaryColour", "Fontsize", "Alignment"} {
		if !c.Bool("has." + a) {
			d.StyleAttrs = append(d.StyleAttrs, a)
		}
	}
	s := ssa.Style{Name: "Default", Attrs: map[string]ssa.Value{}}
	for _, a := range d.StyleAttrs {
		s.Attrs[a] = explore.Pick(c, "style."+a, attrValues[a][:2]...)
	}
	d.Styles = append(d.Styles, s)
	if c.Bool("style.second") {
		s := ssa.Style{Name: "B", Attrs: map[string]ssa.Value{}}
		for _, a := range d.StyleAttrs {
			s.Attrs[a] = attrValues[a][len(attrValues[a])-1]
		}
		d.Styles = append(d.Styles, s)
	}
	d.EventCols = []string{"LM", "Style"}
	d.Events = []ssa.Event{{Start: 100, End: 200, Style: d.Styles[len(d.Styles)-1].Name, Lines: [][]ssa.Run{{{Text: "x"}}}}}
	r := ssa.DefaultRender(d)
	n := 1 + len(d.StyleAttrs)
	r.StyleOrder = lexPerm(n, c.Choose("r.styleorder", fact(n)))
	r.Radix = explore.Pick(c, "r.radix", 0, 3)
	r.SecOrder = c.Choose("r.secorder", 3) // the event references a style: defined before it, after it, or (2 styles) in a second styles section
	if r.SecOrder == 2 && len(d.Styles) >= 2 && len(d.StyleAttrs) >= 2 && c.Bool("r.secondformat") {
		// the second styles section has a Format of its own with fewer columns: its styles carry those attributes only
		r.SecondAttrs = 1
		for i := 1; i < len(d.Styles); i++ {
			for _, a := range d.StyleAttrs[1:] {
				delete(d.Styles[i].Attrs, a)
			}
		}
	}
	return Case{Doc: d, Render: r}
}

func coreDoc(c *explore.C) ssa.Doc {
	var d ssa.Doc
	d.V4Plus = !c.Bool("v4")
	d.Info.Str = map[string]string{"ScriptType": "v4.00"}
	if d.V4Plus {
		d.Info.Str["ScriptType"] = "v4.00+"
	}
	d.Info.Int = map[string]int{}
	d.StyleAttrs = []string{"Fontname", "Bold"}
	d.Styles = []ssa.Style{{Name: "Default", Attrs: map[string]ssa.Value{"Fontname": str("Arial"), "Bold": boo(false)}}}
	d.EventCols = []string{"LM", "Style", "Name"}
	return d
}

// genCoreEvents: full product — one event, columns {Layer/Marked, Start, End, Style, Name} in every
// order, layer/marked values, style reference forms, both versions, time form, EOL kind; text with a comma.
func genCoreEvents(c *explore.C) Case {
	d := coreDoc(c)
	e := ssa.Event{Start: 100, End: 250, Name: "Cher", Lines: [][]ssa.Run{{{Text: "a, b"}}}}
	if d.V4Plus {
		e.Layer = explore.Pick(c, "event.layer", 0, 5)
	} else {
		e.Marked = c.Bool("event.marked")
	}
	e.Style = explore.Pick(c, "event.style", "Default", "*Default", "")
	d.Events = append(d.Events, e)
	r := ssa.DefaultRender(d)
	n := d.NEventCols()
	r.EventOrder = lexPerm(n, c.Choose("r.eventorder", fact(n)))
	r.Hours2 = c.Bool("r.hours2")
	r.EOL = explore.Pick(c, "r.eol", "\n", "\r\n", "\r")
	return Case{Doc: d, Render: r}
}

// genCoreStars: full product - two styles whose names may themselves start with '*' x every way an event can
// refer to them (exact name, '*'-prefixed name, unknown, empty): a reference is resolved by exact name first and
// only then with the '*' stripped.
func genCoreStars(c *explore.C) Case {
	d := coreDoc(c)
	pair := explore.Pick(c, "style.names", [2]string{"A", "*A"}, [2]string{"A", "B"}, [2]string{"*A", "B"}, [2]string{"Default", "*Default"})
	d.Styles = nil
	for i, n := range pair {
		d.Styles = append(d.Styles, ssa.Style{Name: n, Attrs: map[string]ssa.Value{"Fontname": str("Arial"), "Bold": boo(i == 1)}})
	}
	for k := 0; k < 2; k++ {
		e := ssa.Event{Start: int64(100 * (k + 1)), End: int64(100*(k+1) + 50), Name: "Cher", Lines: [][]ssa.Run{{{Text: "x"}}}}
		e.Style = explore.Pick(c, "event.style", "A", "*A", "B", "*B", "", "**A", "Default", "*Default")
		d.Events = append(d.Events, e)
	}
	return Case{Doc: d, Render: ssa.DefaultRender(d)}
}

// genCoreText: full product — text shapes of <=2 lines x <=2 runs x {no block, block} x 4 texts (one ending in a space),
// break kind, customary and reversed column order.
func genCoreText(c *explore.C) Case {
	d := coreDoc(c)
	e := ssa.Event{Start: 100, End: 250, Name: "Cher", Style: "Default"}
	nl := explore.Pick(c, "event.nlines", 1, 2)
	for l := 0; l < nl; l++ {
		var line []ssa.Run
		nr := explore.Pick(c, "event.nruns", 1, 2)
		for r := 0; r < nr; r++ {
			line = append(line, ssa.Run{Block: explore.Pick(c, "event.block", "", `{\i1}`), Text: explore.Pick(c, "event.text", "x", "a, b", "7", "b ", "")})
		}
		e.Lines = append(e.Lines, line)
	}
	d.Events = append(d.Events, e)
	r := ssa.DefaultRender(d)
	if c.Bool("r.reversed") {
		n := d.NEventCols()
		for i := range r.EventOrder {
			r.EventOrder[i] = n - 1 - i
		}
	}
	if nl > 1 {
		r.Breaks = c.Choose("r.breaks", 2)
	}
	return Case{Doc: d, Render: r}
}

// genCoreInfo: full product — every subset of a 6-field representative set, 0..2 comments, field
// order, comment position, Timer forms, junk lines, EOL kind.
func genCoreInfo(c *explore.C) Case {
	var d ssa.Doc
	d.Info.Str = map[string]string{}
	d.Info.Int = map[string]int{}
	if c.Bool("info.Title") {
		d.Info.Str["Title"] = "SSA test"
	}
	if !c.Bool("info.ScriptType") {
		d.V4Plus = true
		d.Info.Str["ScriptType"] = "v4.00+"
	}
	if c.Bool("info.Collisions") {
		d.Info.Str["Collisions"] = "Normal"
	}
	if c.Bool("info.Original Script") {
		d.Info.Str["Original Script"] = "asticode"
	}
	if c.Bool("info.PlayResY") {
		d.Info.Int["PlayResY"] = 600
	}
	if v := explore.Pick(c, "info.Timer", -1.0, 100, 99.5); v >= 0 {
		d.Info.Timer = &v
	}
	n := explore.Pick(c, "info.ncomments", 0, 1, 2)
	for i := 0; i < n; i++ {
		d.Info.Comments = append(d.Info.Comments, explore.Pick(c, "info.comment", "Comment 1", "a: b", ";; banner ;;", "; Title: old"))
	}
	d.EventCols = []string{"LM"}
	d.Events = []ssa.Event{{Start: 100, End: 200, Lines: [][]ssa.Run{{{Text: "x"}}}}}
	r := ssa.DefaultRender(d)
	r.InfoReverse = c.Bool("r.inforeverse")
	if n > 0 {
		r.CommentsLast = c.Bool("r.commentslast")
	}
	if d.Info.Timer != nil {
		r.TimerForm = c.Choose("r.timer", 3)
	}
	r.JunkInfo = c.Choose("r.junkinfo", 3)
	r.EOL = explore.Pick(c, "r.eol", "\n", "\r\n")
	return Case{Doc: d, Render: r}
}

// ---------- value products ----------

func baseDoc(v4plus bool) ssa.Doc {
	var d ssa.Doc
	d.V4Plus = v4plus
	d.Info.Str = map[string]string{"ScriptType": "v4.00"}
	if v4plus {
		d.Info.Str["ScriptType"] = "v4.00+"
	}
	d.Info.Int = map[string]int{}
	return d
}

func valuesOf(a string) []ssa.Value {
	switch ssa.AttrKind[a] {
	case "c":
		return allColours
	case "f":
		return allFloats
	}
	return attrValues[a]
}

// genCoreStyleValues: full product - version x attribute x every value of the attribute's table (colour and
// float columns: the union of all tables of the kind) x every encoding of that kind (6 colour radices, 3 float
// forms, plain / padded margins) x column layout (Name,A / A,Name / Name,B,A with B a neighbour column of the same
// kind holding its baseline) x separator after "Style:".
func genCoreStyleValues(c *explore.C) Case {
	d := baseDoc(!c.Bool("v4"))
	ver := ssa.V4PlusAttrs
	if !d.V4Plus {
		ver = ssa.V4Attrs
	}
	a := ver[c.Choose("attr", len(ver))]
	vals := valuesOf(a)
	v := vals[c.Choose("value", len(vals))]
	layout := c.Choose("layout", 3)
	d.StyleAttrs = []string{a}
	st := ssa.Style{Name: "Default", Attrs: map[string]ssa.Value{a: v}}
	if layout == 2 {
		// a neighbour of the same kind in front
		for _, b := range ver {
			if b != a && ssa.AttrKind[b] == ssa.AttrKind[a] {
				d.StyleAttrs = []string{b, a}
				st.Attrs[b] = attrValues[b][0]
				break
			}
		}
	}
	d.Styles = []ssa.Style{st}
	d.EventCols = []string{"LM", "Style"}
	d.Events = []ssa.Event{{Start: 100, End: 200, Style: "Default", Lines: [][]ssa.Run{{{Text: "x"}}}}}
	r := ssa.DefaultRender(d)
	if layout == 1 {
		r.StyleOrder = []int{1, 0}
	}
	switch ssa.AttrKind[a] {
	case "c":
		r.Radix = c.Choose("r.radix", 6)
	case "f":
		r.FloatForm = c.Choose("r.floatform", 3)
	case "i":
		if a == "MarginL" || a == "MarginR" || a == "MarginV" {
			r.StylePad = c.Bool("r.stylepad")
		}
	}
	r.KVSep = c.Choose("r.kvsep", 3)
	return Case{Doc: d, Render: r}
}

// genCoreColourPairs: full product - two colour columns of one style (and the same column of a second style), each
// cell with a value and a notation of its own; the table holds values whose digits read the same in another radix
// (255 and 0x255, 10 and 0x10, 100 and 0x100): what one cell means never depends on another cell.
var pairColours = []ssa.Value{col(0, 0, 0, 255), col(0, 0, 0x02, 0x55), col(0, 0, 0, 10), col(0, 0, 0, 0x10), col(0, 0, 0, 100), col(0, 0, 0x01, 0x00), col(0, 0, 0, 0), col(0xff, 0xff, 0xff, 0xff)}

func genCoreColourPairs(c *explore.C) Case {
	d := baseDoc(!c.Bool("v4"))
	second := "SecondaryColour"
	d.StyleAttrs = []string{"PrimaryColour", second}
	v1 := pairColours[c.Choose("value1", len(pairColours))]
	v2 := pairColours[c.Choose("value2", len(pairColours))]
	radices := []int{4, 5, 0, 3}
	r1 := radices[c.Choose("radix1", len(radices))]
	r2 := radices[c.Choose("radix2", len(radices))]
	d.Styles = []ssa.Style{{Name: "Default", Attrs: map[string]ssa.Value{"PrimaryColour": v1, second: v2}}}
	if c.Bool("twostyles") {
		// the second cell in the same column of another style
		d.Styles = []ssa.Style{{Name: "Default", Attrs: map[string]ssa.Value{"PrimaryColour": v1, second: v1}},
			{Name: "Other", Attrs: map[string]ssa.Value{"PrimaryColour": v2, second: v2}}}
	}
	d.EventCols = []string{"LM", "Style"}
	d.Events = []ssa.Event{{Start: 100, End: 200, Style: "Default", Lines: [][]ssa.Run{{{Text: "x"}}}}}
	r := ssa.DefaultRender(d)
	r.Radix = r1
	r.RadixOf = map[string]int{second: r2}
	return Case{Doc: d, Render: r}
}

// genCoreCentis: full product - every hundredth of a second (0..99) after 0 s, 1 s, 59 s, 59:59 and 9:59:59, as start
// and (one hundredth later) as end: a writer that goes through floating-point seconds is off for a few of them.
func genCoreCentis(c *explore.C) Case {
	d := baseDoc(!c.Bool("v4"))
	d.StyleAttrs = []string{"Fontname"}
	d.Styles = []ssa.Style{{Name: "Default", Attrs: map[string]ssa.Value{"Fontname": str("Arial")}}}
	d.EventCols = []string{"LM", "Style"}
	base := explore.Pick(c, "seconds", int64(0), 1, 59, 3599, 35999)
	cs := int64(c.Choose("hundredths", 100))
	d.Events = []ssa.Event{{Start: base*100 + cs, End: base*100 + cs + 1, Style: "Default", Lines: [][]ssa.Run{{{Text: "x"}}}}}
	return Case{Doc: d, Render: ssa.DefaultRender(d)}
}

// genCoreNames: full product - style name x font name x speaker name class x the three ways an event refers to the
// style (exact, '*'-prefixed, not at all) x version.
func genCoreNames(c *explore.C) Case {
	d := baseDoc(!c.Bool("v4"))
	d.StyleAttrs = []string{"Fontname", "Bold"}
	name := explore.Pick(c, "style.name", styleNames[0]...)
	d.Styles = []ssa.Style{{Name: name, Attrs: map[string]ssa.Value{"Fontname": explore.Pick(c, "style.Fontname", attrValues["Fontname"]...), "Bold": boo(false)}},
		{Name: "Other", Attrs: map[string]ssa.Value{"Fontname": str("Courier"), "Bold": boo(true)}}}
	d.EventCols = []string{"LM", "Style", "Name"}
	e := ssa.Event{Start: 100, End: 250, Lines: [][]ssa.Run{{{Text: "x"}}}}
	e.Style = explore.Pick(c, "event.style", name, "*"+name, "")
	e.Name = explore.Pick(c, "event.name", "Cher", name, "")
	d.Events = []ssa.Event{e}
	return Case{Doc: d, Render: ssa.DefaultRender(d)}
}

// genCoreEventValues: one event; a sum of full products, one per column group:
//
//	times:   start x end offset x H: / HH: x column order (Start,End / End,Start) x version
//	numbers: layer (v4+) / marked (v4), each margin x value x padding x column position (customary / reversed)
//	strings: effect x speaker name x column order (customary / reversed) x separator after "Dialogue:"
func genCoreEventValues(c *explore.C) Case {
	d := baseDoc(!c.Bool("v4"))
	d.StyleAttrs = []string{"Fontname"}
	d.Styles = []ssa.Style{{Name: "Default", Attrs: map[string]ssa.Value{"Fontname": str("Arial")}}}
	e := ssa.Event{Start: 100, End: 250, Style: "Default", Lines: [][]ssa.Run{{{Text: "a, b"}}}}
	var r ssa.Render
	reverse := func() {
		n := d.NEventCols()
		for i := range r.EventOrder {
			r.EventOrder[i] = n - 1 - i
		}
	}
	switch c.Choose("group", 3) {
	case 0:
		d.EventCols = []string{"LM", "Style"}
		e.Start = explore.Pick(c, "event.start", starts...)
		e.End = e.Start + explore.Pick(c, "event.end", int64(100), 1, 0, 360000, 5, 99)
		r = ssa.DefaultRender(d)
		r.Hours2 = c.Bool("r.hours2")
		if c.Bool("r.endfirst") {
			r.EventOrder = []int{0, 2, 1, 3}
		}
	case 1:
		d.EventCols = []string{"LM", "Style", "MarginL", "MarginR", "MarginV"}
		e.MarginL, e.MarginR, e.MarginV = 10, 20, 30
		switch c.Choose("column", 4) {
		case 0:
			if d.V4Plus {
				e.Layer = explore.Pick(c, "event.layer", layers...)
			} else {
				e.Marked = c.Bool("event.marked")
			}
		case 1:
			e.MarginL = explore.Pick(c, "event.ml", append(append([]int{}, marginsL...), 2345, 3456, 1)...)
		case 2:
			e.MarginR = explore.Pick(c, "event.mr", append(append([]int{}, marginsR...), 1234, 3456, 9, 100, 1)...)
		case 3:
			e.MarginV = explore.Pick(c, "event.mv", append(append([]int{}, marginsV...), 1234, 2345, 9999, 9, 100)...)
		}
		r = ssa.DefaultRender(d)
		r.MarginPad = c.Bool("r.marginpad")
		if c.Bool("r.reversed") {
			reverse()
		}
	case 2:
		d.EventCols = []string{"LM", "Style", "Name", "Effect"}
		e.Effect = explore.Pick(c, "event.effect", effects...)
		e.Name = explore.Pick(c, "event.name", speakerNames...)
		r = ssa.DefaultRender(d)
		if c.Bool("r.reversed") {
			reverse()
		}
		r.KVSep = c.Choose("r.kvsep", 3)
	}
	d.Events = []ssa.Event{e}
	return Case{Doc: d, Render: r}
}

// genCoreTextValues: a sum of two full products over the text atoms:
//
//	placement: text atom x override block x where the run sits (alone / first of two runs / second of two runs /
//	           on the first / on the second of two lines) x break kind
//	pairs:     text atom x text atom as the two lines of one event x break kind, around an empty line (\N\N), and as
//	           two runs separated by a block
func genCoreTextValues(c *explore.C) Case {
	d := coreDoc(c)
	e := ssa.Event{Start: 100, End: 250, Name: "Cher", Style: "Default"}
	r := ssa.DefaultRender(d)
	if c.Choose("group", 2) == 0 {
		run := ssa.Run{Block: explore.Pick(c, "event.block", blocks...), Text: explore.Pick(c, "event.text", texts...)}
		other := ssa.Run{Block: `{\i1}`, Text: "y"}
		switch c.Choose("place", 5) {
		case 0:
			e.Lines = [][]ssa.Run{{run}}
		case 1:
			e.Lines = [][]ssa.Run{{run, other}}
		case 2:
			e.Lines = [][]ssa.Run{{{Text: "y"}, run}}
			if run.Block == "" {
				e.Lines = [][]ssa.Run{{other, run}}
			}
		case 3:
			e.Lines = [][]ssa.Run{{run}, {other}}
			r.Breaks = c.Choose("r.breaks", 2)
		case 4:
			e.Lines = [][]ssa.Run{{other}, {run}}
			r.Breaks = c.Choose("r.breaks", 2)
		}
	} else {
		t1, t2 := explore.Pick(c, "event.text", texts...), explore.Pick(c, "event.text", texts...)
		switch c.Choose("shape", 4) {
		case 3:
			e.Lines = [][]ssa.Run{{{Text: t1}}, {{Text: ""}}, {{Text: t2}}}
		case 0:
			e.Lines = [][]ssa.Run{{{Text: t1}}, {{Text: t2}}}
		case 1:
			e.Lines = [][]ssa.Run{{{Text: t1}}, {{Text: t2}}}
			r.Breaks = 1
		case 2:
			e.Lines = [][]ssa.Run{{{Text: t1}, {Block: `{\b1}`, Text: t2}}}
		}
	}
	d.Events = []ssa.Event{e}
	return Case{Doc: d, Render: r}
}

// genCoreInfoValues: a sum of full products, one per script-info field: field x every value of its table x
// separator after the key x trailing blanks x company (alone / among other fields / among them in reverse order) x
// EOL kind; and comment atom x comment atom x "; c" vs ";c" x position.
func genCoreInfoValues(c *explore.C) Case {
	var d ssa.Doc
	d.Info.Str = map[string]string{}
	d.Info.Int = map[string]int{}
	r := ssa.Render{}
	nf := 2 + len(infoStrValues) + 4
	f := c.Choose("field", nf+1)
	switch {
	case f == 0:
		if v := explore.Pick(c, "info.Title", infoTitles...); v != "" {
			d.Info.Str["Title"] = v
		}
	case f == 1:
		d.V4Plus = c.Bool("v4plus")
		if v := explore.Pick(c, "info.ScriptType", scriptTypes(d.V4Plus)...); v != "" {
			d.Info.Str["ScriptType"] = v
		}
	case f < 2+len(infoStrValues):
		x := infoStrValues[f-2]
		d.Info.Str[x.k] = explore.Pick(c, "info."+x.k, x.opts[1:]...)
	case f == nf-4:
		d.Info.Int["PlayResX"] = explore.Pick(c, "info.PlayResX", infoPlayResX[1:]...)
	case f == nf-3:
		d.Info.Int["PlayResY"] = explore.Pick(c, "info.PlayResY", infoPlayResY[1:]...)
	case f == nf-2:
		d.Info.Int["PlayDepth"] = explore.Pick(c, "info.PlayDepth", infoPlayDepth[1:]...)
	case f == nf-1:
		v := explore.Pick(c, "info.Timer", infoTimers[1:]...)
		d.Info.Timer = &v
	default:
		d.Info.Comments = []string{explore.Pick(c, "info.comment", infoComments...)}
		if k := c.Choose("info.comment2", 1+len(infoComments)); k > 0 {
			d.Info.Comments = append(d.Info.Comments, infoComments[k-1])
		}
	}
	company := c.Choose("company", 3)
	if company > 0 {
		for k, v := range map[string]string{"Title": "SSA test", "Original Script": "asticode", "Update Details": "none"} {
			if _, ok := d.Info.Str[k]; !ok && !(f == 0 && k == "Title") {
				d.Info.Str[k] = v
			}
		}
		if _, ok := d.Info.Int["PlayResY"]; !ok {
			d.Info.Int["PlayResY"] = 600
		}
	}
	d.EventCols = []string{"LM"}
	d.Events = []ssa.Event{{Start: 100, End: 200, Lines: [][]ssa.Run{{{Text: "x"}}}}}
	r = ssa.DefaultRender(d)
	r.InfoReverse = company == 2
	if d.Info.Timer != nil {
		r.TimerForm = c.Choose("r.timer", 3)
	}
	if len(d.Info.Comments) > 0 {
		r.CommentTight = c.Bool("r.commenttight")
		r.CommentsLast = c.Bool("r.commentslast")
	}
	r.KVSep = c.Choose("r.kvsep", 3)
	r.TrailBlank = c.Choose("r.trailblank", 3)
	r.EOL = explore.Pick(c, "r.eol", "\n", "\r\n")
	return Case{Doc: d, Render: r}
}

// genCoreSyntax: full product of the line-level freedoms on one fixed document that uses every section: separator
// after the key x trailing blanks x EOL kind x section-name case x Format separators x BOM x unterminated last line x
// blank lines between sections x an empty-valued field.
func genCoreSyntax(c *explore.C) Case {
	d := baseDoc(!c.Bool("v4"))
	d.Info.Str["Title"] = "a: b, c"
	d.Info.Int["PlayResX"] = 640
	t := 99.5
	d.Info.Timer = &t
	d.Info.Comments = []string{"Comment 1", ""}
	d.StyleAttrs = []string{"Fontname", "Fontsize", "PrimaryColour", "Bold", "MarginL"}
	d.Styles = []ssa.Style{{Name: "Default", Attrs: map[string]ssa.Value{"Fontname": str("Times New Roman"), "Fontsize": flt(4.5), "PrimaryColour": col(0xff, 1, 2, 3), "Bold": boo(true), "MarginL": num(10)}}}
	d.EventCols = append([]string{}, ssa.AllEventCols...)
	d.Events = []ssa.Event{{Start: 359999, End: 360000, Style: "*Default", Name: "a:b", MarginL: 10, MarginR: 20, MarginV: 30, Effect: "Banner;20;1;10",
		Lines: [][]ssa.Run{{{Text: "a, b"}, {Block: `{\i1}`, Text: ": c"}}, {{Text: ""}}}}}
	if d.V4Plus {
		d.Events[0].Layer = 5
	} else {
		d.Events[0].Marked = true
	}
	r := ssa.DefaultRender(d)
	r.KVSep = c.Choose("r.kvsep", 3)
	r.TrailBlank = c.Choose("r.trailblank", 3)
	r.EOL = explore.Pick(c, "r.eol", "\n", "\r\n", "\r")
	r.SecCase = c.Choose("r.seccase", 3)
	r.FormatSep = explore.Pick(c, "r.formatsep", ", ", ",", " , ")
	r.BOM = c.Bool("r.bom")
	r.NoFinalEOL = c.Bool("r.nofinaleol")
	r.Blank = explore.Pick(c, "r.blank", 1, 0, 2)
	if c.Bool("r.emptyfield") {
		r.JunkInfo = 5
	}
	return Case{Doc: d, Render: r}
}

// genCoreMany: counts beyond the small structure bounds - many events, styles, comments, lines and runs (around the
// 16 / 100 / 256 boundaries), every element distinct so that a lost, repeated or displaced one shows.
func genCoreMany(c *explore.C) Case {
	d := baseDoc(!c.Bool("v4"))
	ne, ns, nc, nl, nr := 1, 1, 0, 1, 1
	switch c.Choose("kind", 5) {
	case 0:
		ne = explore.Pick(c, "n", 3, 16, 17, 100, 255, 256, 257, 300)
	case 1:
		ns = explore.Pick(c, "n", 3, 16, 17, 100, 255, 256, 257)
		ne = ns
	case 2:
		nc = explore.Pick(c, "n", 3, 10, 100, 257)
	case 3:
		nl = explore.Pick(c, "n", 4, 10, 50)
	case 4:
		nr = explore.Pick(c, "n", 4, 10, 50)
	}
	for i := 0; i < nc; i++ {
		d.Info.Comments = append(d.Info.Comments, "comment "+itoa(i))
	}
	d.StyleAttrs = []string{"Fontname", "Fontsize", "PrimaryColour", "MarginL"}
	for i := 0; i < ns; i++ {
		d.Styles = append(d.Styles, ssa.Style{Name: "S" + itoa(i), Attrs: map[string]ssa.Value{"Fontname": str("F" + itoa(i)),
			"Fontsize": flt(float64(i) + 0.5), "PrimaryColour": col(uint8(i>>8), uint8(i), uint8(255-i), uint8(i*7)), "MarginL": num(i)}})
	}
	d.EventCols = []string{"LM", "Style", "Name", "MarginV"}
	for i := 0; i < ne; i++ {
		e := ssa.Event{Start: int64(i) * 150, End: int64(i)*150 + 100, Style: "S" + itoa(i%ns), Name: "n" + itoa(i), MarginV: i}
		if d.V4Plus {
			e.Layer = i
		} else {
			e.Marked = i%3 == 1
		}
		for l := 0; l < nl; l++ {
			var line []ssa.Run
			for r := 0; r < nr; r++ {
				run := ssa.Run{Text: "t" + itoa(i) + "." + itoa(l) + "." + itoa(r)}
				if r > 0 {
					run.Block = `{\k` + itoa(r) + `}`
				}
				line = append(line, run)
			}
			e.Lines = append(e.Lines, line)
		}
		d.Events = append(d.Events, e)
	}
	r := ssa.DefaultRender(d)
	r.EOL = explore.Pick(c, "r.eol", "\n", "\r\n")
	return Case{Doc: d, Render: r}
}

func itoa(i int) string { return strconv.Itoa(i) }
