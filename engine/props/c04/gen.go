package c04

import (
	"verif/explore"
	"verif/ref/ssa"
)

// Case is one explored execution: a ground-truth document and how it is rendered.
type Case struct {
	Doc    ssa.Doc    `json:"doc"`
	Render ssa.Render `json:"render"`
	Dir    string     `json:"dir"`
}

func col(a, b, g, r uint8) ssa.Value {
	return ssa.Value{Kind: "c", C: ssa.Color{A: a, B: b, G: g, R: r}}
}
func flt(f float64) ssa.Value { return ssa.Value{Kind: "f", F: f} }
func num(i int) ssa.Value     { return ssa.Value{Kind: "i", I: i} }
func boo(b bool) ssa.Value    { return ssa.Value{Kind: "b", B: b} }
func str(s string) ssa.Value  { return ssa.Value{Kind: "s", S: s} }

// attrValues: per attribute the baseline value first (pairwise distinct among same-typed columns,
// so that a cell taken from the wrong column shows), then the alternatives. Floats are exactly
// representable with three decimals (the writer's precision).
var attrValues = map[string][]ssa.Value{
	"Fontname":        {str("Arial"), str("Times New Roman"), str("f1")},
	"Fontsize":        {flt(20), flt(4.5), flt(0)},
	"PrimaryColour":   {col(0, 0xff, 0xff, 0xff), col(0x80, 0, 0, 8), col(0, 0xb4, 0xfc, 0xfc), col(0xff, 0x01, 0x02, 0x03)},
	"SecondaryColour": {col(0, 0, 0, 0xff), col(0x7f, 0xef, 0xef, 0xef), col(0xfe, 0, 0xff, 0)},
	"OutlineColour":   {col(0, 0, 0, 1), col(0, 0, 0xff, 0xff), col(0x80, 0x11, 0x22, 0x33)},
	"BackColour":      {col(0, 0x10, 0x20, 0x30), col(0x80, 0, 0, 8), col(0, 0, 0, 0)},
	"Bold":            {boo(false), boo(true)},
	"Italic":          {boo(false), boo(true)},
	"Underline":       {boo(false), boo(true)},
	"Strikeout":       {boo(false), boo(true)},
	"ScaleX":          {flt(100), flt(87.5), flt(0.125)},
	"ScaleY":          {flt(90), flt(112.25)},
	"Spacing":         {flt(0.5), flt(0), flt(-1.5)},
	"Angle":           {flt(45), flt(0), flt(359.875)},
	"BorderStyle":     {num(1), num(3)},
	"Outline":         {flt(2), flt(0), flt(1.5)},
	"Shadow":          {flt(3), flt(0), flt(0.75)},
	"Alignment":       {num(2), num(7), num(11)},
	"MarginL":         {num(10), num(0), num(1234)},
	"MarginR":         {num(20), num(0), num(5)},
	"MarginV":         {num(30), num(0), num(600)},
	"AlphaLevel":      {flt(0.25), flt(0), flt(0.1)},
	"Encoding":        {num(204), num(0), num(1)},
}

// cs instants (centiseconds)
var starts = []int64{100, 0, 1, 99, 150, 5999, 6000, 359999, 360000, 3599999, 3600000, 8639999}

var blocks = []string{"", `{\pos(400,570)}`, `{\i1}`, `{\c&HFF00FF&\fnArial, Bold}`}
var texts = []string{"x", "a b", "a,b", ",", "a: b", "7", "é", "\U0001F600", " lead", "trail ", `a\hb`, "[x]", ";s", "", "0:00:01.00", "Marked=1"}

type profile struct {
	thorough     bool // <=3 styles / events / lines
	reducedPerms bool // column orders: adjacent transpositions, rotations, reversal (instead of all transpositions)
}

// nPermsR / permR: the reduced family — identity, adjacent transpositions, rotations, reversal.
func nPermsR(n int) int {
	if n < 2 {
		return 1
	}
	return 1 + (n - 1) + (n - 1) + 1
}

func permR(n, k int) []int {
	p := make([]int, n)
	for i := range p {
		p[i] = i
	}
	switch {
	case k == 0 || n < 2:
	case k <= n-1:
		p[k-1], p[k] = p[k], p[k-1]
	case k <= 2*(n-1):
		r := k - (n - 1)
		for i := range p {
			p[i] = (i + r) % n
		}
	default:
		for i := range p {
			p[i] = n - 1 - i
		}
	}
	return p
}

// perms returns the permutation number k of n columns: 0 identity, then every transposition, then
// every rotation, then the reversal.
func nPerms(n int) int {
	if n < 2 {
		return 1
	}
	return 1 + n*(n-1)/2 + (n - 1) + 1
}

func perm(n, k int) []int {
	p := make([]int, n)
	for i := range p {
		p[i] = i
	}
	if k == 0 || n < 2 {
		return p
	}
	k--
	for i := 0; i < n; i++ {
		for j := i + 1; j < n; j++ {
			if k == 0 {
				p[i], p[j] = p[j], p[i]
				return p
			}
			k--
		}
	}
	if k < n-1 {
		r := k + 1
		for i := range p {
			p[i] = (i + r) % n
		}
		return p
	}
	for i := range p {
		p[i] = n - 1 - i
	}
	return p
}

// allPerms returns the k-th permutation of n elements in lexicographic order (core product).
func lexPerm(n, k int) []int {
	el := make([]int, n)
	for i := range el {
		el[i] = i
	}
	f := 1
	for i := 2; i < n; i++ {
		f *= i
	}
	var p []int
	for i := n - 1; i >= 0; i-- {
		idx := 0
		if f > 0 {
			idx = k / f
			k %= f
		}
		p = append(p, el[idx])
		el = append(el[:idx], el[idx+1:]...)
		if i > 0 {
			f /= i
		}
	}
	return p
}

func fact(n int) int {
	f := 1
	for i := 2; i <= n; i++ {
		f *= i
	}
	return f
}

func genInfo(c *explore.C, d *ssa.Doc) {
	d.Info.Str = map[string]string{}
	d.Info.Int = map[string]int{}
	st := "v4.00"
	if d.V4Plus {
		st = "v4.00+"
	}
	if v := explore.Pick(c, "info.Title", "SSA test", "", "a: b, c"); v != "" {
		d.Info.Str["Title"] = v
	}
	if v := explore.Pick(c, "info.ScriptType", st, ""); v != "" {
		d.Info.Str["ScriptType"] = v
	}
	for _, f := range []struct {
		k    string
		opts []string
	}{
		{"Original Script", []string{"", "asticode"}},
		{"Original Translation", []string{"", "tr, 2nd"}},
		{"Original Editing", []string{"", "ed"}},
		{"Original Timing", []string{"", "ti:me"}},
		{"Synch Point", []string{"", "0:00:01.00"}},
		{"Script Updated By", []string{"", "version 2.8.01"}},
		{"Update Details", []string{"", "none; really"}},
		{"Collisions", []string{"", "Normal", "Reverse"}},
		{"WrapStyle", []string{"", "0", "2"}},
	} {
		if v := explore.Pick(c, "info."+f.k, f.opts...); v != "" {
			d.Info.Str[f.k] = v
		}
	}
	if v := explore.Pick(c, "info.PlayResX", -1, 640, 0); v >= 0 {
		d.Info.Int["PlayResX"] = v
	}
	if v := explore.Pick(c, "info.PlayResY", -1, 480); v >= 0 {
		d.Info.Int["PlayResY"] = v
	}
	if v := explore.Pick(c, "info.PlayDepth", -1, 0, 16); v >= 0 {
		d.Info.Int["PlayDepth"] = v
	}
	if v := explore.Pick(c, "info.Timer", -1.0, 100, 99.5); v >= 0 {
		d.Info.Timer = &v
	}
	n := explore.Pick(c, "info.ncomments", 0, 1, 2)
	for i := 0; i < n; i++ {
		d.Info.Comments = append(d.Info.Comments, explore.Pick(c, "info.comment", "Comment 1", "a: b", "c;d [e]", "; disabled: x", ";; banner ;;", "[x]", "!: y"))
	}
}

func genStyles(c *explore.C, d *ssa.Doc, maxStyles int) {
	ver := ssa.V4PlusAttrs
	if !d.V4Plus {
		ver = ssa.V4Attrs
	}
	// attribute set: full, a 4-column core, none, then every attribute alone
	k := c.Choose("style.attrset", 3+len(ver))
	switch {
	case k == 0:
		d.StyleAttrs = append([]string{}, ver...)
	case k == 1:
		d.StyleAttrs = []string{"Fontname", "Fontsize", "PrimaryColour", "Bold"}
	case k == 2:
		d.StyleAttrs = []string{}
	default:
		d.StyleAttrs = []string{ver[k-3]}
	}
	nsOpts := []int{1, 0, 2}
	if maxStyles >= 3 {
		nsOpts = []int{1, 0, 2, 3}
	}
	ns := explore.Pick(c, "style.n", nsOpts...)
	names := [][]string{{"Default", "A", "My Style"}, {"B", "Alt 2"}, {"C"}}
	for i := 0; i < ns; i++ {
		s := ssa.Style{Name: explore.Pick(c, "style.name", names[i]...), Attrs: map[string]ssa.Value{}}
		for _, a := range d.StyleAttrs {
			s.Attrs[a] = explore.Pick(c, "style."+a, attrValues[a]...)
		}
		d.Styles = append(d.Styles, s)
	}
}

func genEvents(c *explore.C, d *ssa.Doc, p profile) {
	// optional columns: all, none, each one dropped, each one alone
	all := ssa.AllEventCols
	k := c.Choose("event.cols", 2+2*len(all))
	switch {
	case k == 0:
		d.EventCols = append([]string{}, all...)
	case k == 1:
		d.EventCols = []string{}
	case k < 2+len(all):
		for i, x := range all {
			if i != k-2 {
				d.EventCols = append(d.EventCols, x)
			}
		}
	default:
		d.EventCols = []string{all[k-2-len(all)]}
	}
	has := map[string]bool{}
	for _, x := range d.EventCols {
		has[x] = true
	}
	neOpts := []int{1, 0, 2}
	nlOpts := []int{1, 2}
	nrOpts := []int{1, 2, 3}
	if p.thorough {
		neOpts = []int{1, 0, 2, 3}
		nlOpts = []int{1, 2, 3}
	}
	ne := explore.Pick(c, "event.n", neOpts...)
	for i := 0; i < ne; i++ {
		var e ssa.Event
		e.Start = explore.Pick(c, "event.start", starts...)
		switch c.Choose("event.end", 4) {
		case 0:
			e.End = e.Start + 100
		case 1:
			e.End = e.Start + 1
		case 2:
			e.End = e.Start
		case 3:
			e.End = e.Start + 360000
		}
		if has["LM"] {
			if d.V4Plus {
				e.Layer = explore.Pick(c, "event.layer", 0, 1, 5)
			} else {
				e.Marked = c.Bool("event.marked")
			}
		}
		if has["Style"] {
			var opts []string
			switch len(d.Styles) {
			case 0:
				opts = []string{""}
			case 1:
				opts = []string{d.Styles[0].Name, "", "*" + d.Styles[0].Name}
			default:
				opts = []string{d.Styles[0].Name, "", "*" + d.Styles[0].Name, d.Styles[1].Name, "*" + d.Styles[len(d.Styles)-1].Name}
			}
			e.Style = explore.Pick(c, "event.style", opts...)
		}
		if has["Name"] {
			e.Name = explore.Pick(c, "event.name", "Cher", "", "autre b")
		}
		if has["MarginL"] {
			e.MarginL = explore.Pick(c, "event.ml", 10, 0, 1234)
		}
		if has["MarginR"] {
			e.MarginR = explore.Pick(c, "event.mr", 20, 0, 2345)
		}
		if has["MarginV"] {
			e.MarginV = explore.Pick(c, "event.mv", 30, 0, 3456)
		}
		if has["Effect"] {
			e.Effect = explore.Pick(c, "event.effect", "", "test", "Scroll up;100;200")
		}
		nl := explore.Pick(c, "event.nlines", nlOpts...)
		for l := 0; l < nl; l++ {
			var line []ssa.Run
			nr := explore.Pick(c, "event.nruns", nrOpts...)
			for r := 0; r < nr; r++ {
				line = append(line, ssa.Run{Block: explore.Pick(c, "event.block", blocks...), Text: explore.Pick(c, "event.text", texts...)})
			}
			e.Lines = append(e.Lines, line)
		}
		d.Events = append(d.Events, e)
	}
}

func genRender(c *explore.C, d ssa.Doc, p profile) ssa.Render {
	np, pm := nPerms, perm
	if p.reducedPerms {
		np, pm = nPermsR, permR
	}
	r := ssa.DefaultRender(d)
	r.EOL = explore.Pick(c, "r.eol", "\n", "\r\n", "\r")
	r.BOM = c.Bool("r.bom")
	r.NoFinalEOL = c.Bool("r.nofinaleol")
	r.SecCase = c.Choose("r.seccase", 3)
	if d.V4Plus && len(d.Styles) > 0 {
		r.PlusSuffix = c.Bool("r.plussuffix")
	}
	r.Blank = explore.Pick(c, "r.blank", 1, 0, 2)
	r.InfoReverse = c.Bool("r.inforeverse")
	if len(d.Info.Comments) > 0 {
		r.CommentTight = c.Bool("r.commenttight")
		r.CommentsLast = c.Bool("r.commentslast")
	}
	if d.Info.Timer != nil {
		r.TimerForm = c.Choose("r.timer", 3)
	}
	if len(d.Styles) > 0 {
		n := 1 + len(d.StyleAttrs)
		r.StyleOrder = pm(n, c.Choose("r.styleorder", np(n)))
		for _, a := range d.StyleAttrs {
			if a == "Strikeout" {
				r.StrikeOutCap = c.Bool("r.strikeoutcap")
			}
		}
		r.Radix = c.Choose("r.radix", 5)
		r.FloatForm = c.Choose("r.floatform", 2)
	}
	n := d.NEventCols()
	r.EventOrder = pm(n, c.Choose("r.eventorder", np(n)))
	r.FormatSep = explore.Pick(c, "r.formatsep", ", ", ",", " , ")
	r.Hours2 = c.Bool("r.hours2")
	r.MarginPad = c.Bool("r.marginpad")
	r.Breaks = c.Choose("r.breaks", 3)
	r.JunkInfo = c.Choose("r.junkinfo", 5)
	if len(d.Styles) > 0 {
		r.JunkStyles = c.Choose("r.junkstyles", 4)
	}
	r.JunkEvents = c.Choose("r.junkevents", 9)
	r.Unknown = c.Choose("r.unknown", 5)
	return r
}

// genBall: every model and rendering dimension is a choice point.
func genBall(c *explore.C, p profile) Case {
	var d ssa.Doc
	d.V4Plus = !c.Bool("v4")
	genInfo(c, &d)
	ms := 2
	if p.thorough {
		ms = 3
	}
	genStyles(c, &d, ms)
	genEvents(c, &d, p)
	return Case{Doc: d, Render: genRender(c, d, p)}
}

// genCoreStyles: full product — 1..2 styles over Name + every subset of {Bold, PrimaryColour, Fontsize,
// Alignment}, every permutation of the columns, both versions, hexadecimal and decimal colours.
func genCoreStyles(c *explore.C) Case {
	var d ssa.Doc
	d.V4Plus = !c.Bool("v4")
	d.Info.Str = map[string]string{"ScriptType": "v4.00"}
	if d.V4Plus {
		d.Info.Str["ScriptType"] = "v4.00+"
	}
	d.Info.Int = map[string]int{}
	for _, a := range []string{"Bold", "PrimaryColour", "Fontsize", "Alignment"} {
		if !c.Bool("has." + a) {
			d.StyleAttrs = append(d.StyleAttrs, a)
		}
	}
	s := ssa.Style{Name: "Default", Attrs: map[string]ssa.Value{}}
	for _, a := range d.StyleAttrs {
		s.Attrs[a] = explore.Pick(c, "style."+a, attrValues[a][:2]...)
	}
	d.Styles = append(d.Styles, s)
	if c.Bool("style.second") {
		s := ssa.Style{Name: "B", Attrs: map[string]ssa.Value{}}
		for _, a := range d.StyleAttrs {
			s.Attrs[a] = attrValues[a][len(attrValues[a])-1]
		}
		d.Styles = append(d.Styles, s)
	}
	d.EventCols = []string{"LM", "Style"}
	d.Events = []ssa.Event{{Start: 100, End: 200, Style: "Default", Lines: [][]ssa.Run{{{Text: "x"}}}}}
	r := ssa.DefaultRender(d)
	n := 1 + len(d.StyleAttrs)
	r.StyleOrder = lexPerm(n, c.Choose("r.styleorder", fact(n)))
	r.Radix = explore.Pick(c, "r.radix", 0, 3)
	return Case{Doc: d, Render: r}
}

func coreDoc(c *explore.C) ssa.Doc {
	var d ssa.Doc
	d.V4Plus = !c.Bool("v4")
	d.Info.Str = map[string]string{"ScriptType": "v4.00"}
	if d.V4Plus {
		d.Info.Str["ScriptType"] = "v4.00+"
	}
	d.Info.Int = map[string]int{}
	d.StyleAttrs = []string{"Fontname", "Bold"}
	d.Styles = []ssa.Style{{Name: "Default", Attrs: map[string]ssa.Value{"Fontname": str("Arial"), "Bold": boo(false)}}}
	d.EventCols = []string{"LM", "Style", "Name"}
	return d
}

// genCoreEvents: full product — one event, columns {Layer/Marked, Start, End, Style, Name} in every
// order, layer/marked values, style reference forms, both versions, time form, EOL kind; text with a comma.
func genCoreEvents(c *explore.C) Case {
	d := coreDoc(c)
	e := ssa.Event{Start: 100, End: 250, Name: "Cher", Lines: [][]ssa.Run{{{Text: "a, b"}}}}
	if d.V4Plus {
		e.Layer = explore.Pick(c, "event.layer", 0, 5)
	} else {
		e.Marked = c.Bool("event.marked")
	}
	e.Style = explore.Pick(c, "event.style", "Default", "*Default", "")
	d.Events = append(d.Events, e)
	r := ssa.DefaultRender(d)
	n := d.NEventCols()
	r.EventOrder = lexPerm(n, c.Choose("r.eventorder", fact(n)))
	r.Hours2 = c.Bool("r.hours2")
	r.EOL = explore.Pick(c, "r.eol", "\n", "\r\n", "\r")
	return Case{Doc: d, Render: r}
}

// genCoreStars: full product - two styles whose names may themselves start with '*' x every way an event can
// refer to them (exact name, '*'-prefixed name, unknown, empty): a reference is resolved by exact name first and
// only then with the '*' stripped.
func genCoreStars(c *explore.C) Case {
	d := coreDoc(c)
	pair := explore.Pick(c, "style.names", [2]string{"A", "*A"}, [2]string{"A", "B"}, [2]string{"*A", "B"}, [2]string{"Default", "*Default"})
	d.Styles = nil
	for i, n := range pair {
		d.Styles = append(d.Styles, ssa.Style{Name: n, Attrs: map[string]ssa.Value{"Fontname": str("Arial"), "Bold": boo(i == 1)}})
	}
	for k := 0; k < 2; k++ {
		e := ssa.Event{Start: int64(100 * (k + 1)), End: int64(100*(k+1) + 50), Name: "Cher", Lines: [][]ssa.Run{{{Text: "x"}}}}
		e.Style = explore.Pick(c, "event.style", "A", "*A", "B", "*B", "", "**A", "Default", "*Default")
		d.Events = append(d.Events, e)
	}
	return Case{Doc: d, Render: ssa.DefaultRender(d)}
}

// genCoreText: full product — text shapes of <=2 lines x <=2 runs x {no block, block} x 4 texts (one ending in a space),
// break kind, customary and reversed column order.
func genCoreText(c *explore.C) Case {
	d := coreDoc(c)
	e := ssa.Event{Start: 100, End: 250, Name: "Cher", Style: "Default"}
	nl := explore.Pick(c, "event.nlines", 1, 2)
	for l := 0; l < nl; l++ {
		var line []ssa.Run
		nr := explore.Pick(c, "event.nruns", 1, 2)
		for r := 0; r < nr; r++ {
			line = append(line, ssa.Run{Block: explore.Pick(c, "event.block", "", `{\i1}`), Text: explore.Pick(c, "event.text", "x", "a, b", "7", "b ", "")})
		}
		e.Lines = append(e.Lines, line)
	}
	d.Events = append(d.Events, e)
	r := ssa.DefaultRender(d)
	if c.Bool("r.reversed") {
		n := d.NEventCols()
		for i := range r.EventOrder {
			r.EventOrder[i] = n - 1 - i
		}
	}
	if nl > 1 {
		r.Breaks = c.Choose("r.breaks", 2)
	}
	return Case{Doc: d, Render: r}
}

// genCoreInfo: full product — every subset of a 6-field representative set, 0..2 comments, field
// order, comment position, Timer forms, junk lines, EOL kind.
func genCoreInfo(c *explore.C) Case {
	var d ssa.Doc
	d.Info.Str = map[string]string{}
	d.Info.Int = map[string]int{}
	if c.Bool("info.Title") {
		d.Info.Str["Title"] = "SSA test"
	}
	if !c.Bool("info.ScriptType") {
		d.V4Plus = true
		d.Info.Str["ScriptType"] = "v4.00+"
	}
	if c.Bool("info.Collisions") {
		d.Info.Str["Collisions"] = "Normal"
	}
	if c.Bool("info.Original Script") {
		d.Info.Str["Original Script"] = "asticode"
	}
	if c.Bool("info.PlayResY") {
		d.Info.Int["PlayResY"] = 600
	}
	if v := explore.Pick(c, "info.Timer", -1.0, 100, 99.5); v >= 0 {
		d.Info.Timer = &v
	}
	n := explore.Pick(c, "info.ncomments", 0, 1, 2)
	for i := 0; i < n; i++ {
		d.Info.Comments = append(d.Info.Comments, explore.Pick(c, "info.comment", "Comment 1", "a: b", ";; banner ;;", "; Title: old"))
	}
	d.EventCols = []string{"LM"}
	d.Events = []ssa.Event{{Start: 100, End: 200, Lines: [][]ssa.Run{{{Text: "x"}}}}}
	r := ssa.DefaultRender(d)
	r.InfoReverse = c.Bool("r.inforeverse")
	if n > 0 {
		r.CommentsLast = c.Bool("r.commentslast")
	}
	if d.Info.Timer != nil {
		r.TimerForm = c.Choose("r.timer", 3)
	}
	r.JunkInfo = c.Choose("r.junkinfo", 3)
	r.EOL = explore.Pick(c, "r.eol", "\n", "\r\n")
	return Case{Doc: d, Render: r}
}
