// Package c18: I/O faults are reported, never swallowed (fault enumeration over every offset).
package c18

import (
	"bytes"
	"encoding/json"
	"errors"
	"fmt"
	"io"
	"os"
	"path/filepath"
	"strings"

	astisub "github.com/asticode/go-astisub"

	"verif/core"
	"verif/props/corpus"
	"verif/props/dump"
)

var errFault = errors.New("verif: injected I/O fault")

// faultErrs: what the failing call returns. Every one of them is "an error other than end-of-file": the sentinel; a
// stream cut short as an HTTP client or io.ReadFull reports it; the same wrapped; an error whose TEXT is "EOF"; a
// closed pipe; a timeout (net.Error style: Timeout() and Temporary() true).
type timeoutErr struct{}

func (timeoutErr) Error() string   { return "i/o timeout" }
func (timeoutErr) Timeout() bool   { return true }
func (timeoutErr) Temporary() bool { return true }

var faultErrs = []error{errFault, io.ErrUnexpectedEOF, fmt.Errorf("read tcp: %w", io.ErrUnexpectedEOF), errors.New("EOF"), io.ErrClosedPipe, timeoutErr{}}

func faultErr(kind int) error { return faultErrs[kind%len(faultErrs)] }

// faultReader delivers Data[:K] then fails. Shape 0: the failing call returns (0, err); shape 1:
// the call that reaches offset K returns its bytes together with err. Chunk > 0 limits each read.
type faultReader struct {
	Data     []byte
	K        int
	Shape    int
	Chunk    int
	Split    int // > 0: the first read delivers at most Split bytes (one short read before the fault)
	pos      int64
	SeekFail bool
	failed   bool
	after    int
	ErrKind  int // index into faultErrs
}

const spinMark = "verif: the stream's Read was called 200000 more times after it had returned its error"

func (r *faultReader) Read(p []byte) (int, error) {
	if len(p) == 0 {
		return 0, nil
	}
	lim := int64(r.K)
	if r.pos >= int64(len(r.Data)) && lim > int64(len(r.Data)) {
		return 0, io.EOF // no read fault planned (K beyond the data): a plain end of stream
	}
	if r.pos >= lim {
		if r.failed {
			// a reader that keeps asking after the error never returns: make that a result instead of a hang
			if r.after++; r.after > 200000 {
				panic(spinMark)
			}
		}
		r.failed = true
		return 0, faultErr(r.ErrKind)
	}
	n := int64(len(p))
	if r.Chunk > 0 && n > int64(r.Chunk) {
		n = int64(r.Chunk)
	}
	if r.Split > 0 && r.pos == 0 && n > int64(r.Split) {
		n = int64(r.Split)
	}
	if r.pos+n > lim {
		n = lim - r.pos
	}
	if r.pos+n > int64(len(r.Data)) {
		n = int64(len(r.Data)) - r.pos
	}
	copy(p, r.Data[r.pos:r.pos+n])
	r.pos += n
	if r.Shape == 1 && r.pos == lim {
		r.failed = true
		return int(n), faultErr(r.ErrKind)
	}
	return int(n), nil
}

func (r *faultReader) Seek(off int64, whence int) (int64, error) {
	if r.SeekFail {
		r.failed = true
		return 0, errFault
	}
	switch whence {
	case io.SeekStart:
		r.pos = off
	case io.SeekCurrent:
		r.pos += off
	case io.SeekEnd:
		r.pos = int64(len(r.Data)) + off
	}
	return r.pos, nil
}

// faultWriter accepts K bytes in total then fails. Shape 0: the crossing Write accepts what fits and
// returns the error; shape 1: the crossing Write rejects everything.
type faultWriter struct {
	K       int
	Shape   int
	ErrKind int // index into writeErrs
	n       int
	tripped bool
	buf     bytes.Buffer
}

// writeErrs: what the failing Write returns: the sentinel, a short write, a closed pipe, a full device, a timeout.
var writeErrs = []error{errFault, io.ErrShortWrite, io.ErrClosedPipe, errors.New("no space left on device"), timeoutErr{}}

func (w *faultWriter) err() error { return writeErrs[w.ErrKind%len(writeErrs)] }

func (w *faultWriter) Write(p []byte) (int, error) {
	if w.n+len(p) <= w.K {
		w.n += len(p)
		w.buf.Write(p)
		return len(p), nil
	}
	if w.Shape == 1 {
		return 0, w.err()
	}
	if w.Shape == 2 {
		// transient fault: exactly one Write fails (nothing accepted), later ones succeed again
		if !w.tripped {
			w.tripped = true
			return 0, w.err()
		}
		w.n += len(p)
		w.buf.Write(p)
		return len(p), nil
	}
	fit := w.K - w.n
	w.n += fit
	w.buf.Write(p[:fit])
	return fit, w.err()
}

type ReadCase struct {
	Doc    string `json:"doc"`
	Format string `json:"format"`
	Data   []byte `json:"data"`
	K      int    `json:"fault_offset"`
	Shape  int    `json:"shape"`
	Chunk  int    `json:"chunk"`
	Split  int    `json:"first_read_at_most,omitempty"`
	Seek   bool   `json:"seek_fails,omitempty"`
	Err    int    `json:"error_kind,omitempty"`
	PID    int    `json:"pid_option,omitempty"`
	Page   int    `json:"page_option,omitempty"`
}

// ttmlRootEnd returns the offset just after the root element's end tag (the property's carve-out).
func ttmlRootEnd(b []byte) int {
	i := bytes.LastIndex(b, []byte("</tt>"))
	if i < 0 {
		return len(b)
	}
	return i + len("</tt>")
}

func checkRead(rc ReadCase) (key, msg string, out uint64) {
	r := &faultReader{Data: rc.Data, K: rc.K, Shape: rc.Shape, Chunk: rc.Chunk, Split: rc.Split, SeekFail: rc.Seek, ErrKind: rc.Err}
	var s *astisub.Subtitles
	var err error
	var pan string
	if rc.Format == "ts" && rc.PID != 0 {
		// page and PID given: the library itself never rewinds, only the demultiplexer's packet-size probe seeks
		func() {
			defer func() {
				if e := recover(); e != nil {
					pan = fmt.Sprint(e)
				}
			}()
			s, err = astisub.ReadFromTeletext(r, astisub.TeletextOptions{PID: rc.PID, Page: rc.Page})
		}()
	} else {
		s, err, pan = corpus.Read(rc.Format, r)
	}
	desc := fmt.Sprintf("%s (%d bytes), stream fails with %q at offset %d (shape %d, chunk %d, seek-fails %v)", rc.Doc, len(rc.Data), faultErr(rc.Err), rc.K, rc.Shape, rc.Chunk, rc.Seek)
	if strings.Contains(pan, spinMark) {
		return "fault.read." + rc.Format + ".keeps-reading-after-the-error", desc + ": the reader ignores the error and polls the stream for ever", 0
	}
	if pan != "" {
		return "fault.read." + rc.Format + ".panic", desc + ": reader panicked: " + pan, 0
	}
	if !r.failed {
		// the reader never reached the fault (it stopped reading earlier): nothing to report
		return "", "", core.Hash64("not-reached")
	}
	if err == nil {
		n := 0
		if s != nil {
			n = len(s.Items)
		}
		return "fault.read." + rc.Format + ".swallowed", fmt.Sprintf("%s: reader returned nil error and %d cues", desc, n), 0
	}
	w := "unwrapped"
	if errors.Is(err, errFault) {
		w = "wrapped"
	}
	return "", "", core.Hash64("error", w)
}

type LongCase struct {
	Format string `json:"format"`
	Len    int    `json:"line_len"`
	Pos    int    `json:"position"`
}

func longDoc(lc LongCase) []byte {
	var b strings.Builder
	text := func(i int) string {
		if i == lc.Pos {
			return strings.Repeat("y", lc.Len)
		}
		return fmt.Sprintf("t%d", i)
	}
	switch lc.Format {
	case "srt":
		for i := 0; i < 3; i++ {
			fmt.Fprintf(&b, "%d\n00:00:0%d,000 --> 00:00:0%d,500\n%s\n\n", i+1, i+1, i+1, text(i))
		}
	case "vtt":
		b.WriteString("WEBVTT\n\n")
		for i := 0; i < 3; i++ {
			fmt.Fprintf(&b, "00:00:0%d.000 --> 00:00:0%d.500\n%s\n\n", i+1, i+1, text(i))
		}
	case "ssa":
		b.WriteString("[Script Info]\nTitle: t\n\n[Events]\nFormat: Marked, Start, End, Style, Name, MarginL, MarginR, MarginV, Effect, Text\n")
		for i := 0; i < 3; i++ {
			fmt.Fprintf(&b, "Dialogue: Marked=0,0:00:0%d.00,0:00:0%d.50,,,0,0,0,,%s\n", i+1, i+1, text(i))
		}
	}
	return []byte(b.String())
}

func checkLong(lc LongCase) (key, msg string, out uint64) {
	data := longDoc(lc)
	s, err, pan := corpus.Read(lc.Format, bytes.NewReader(data))
	desc := fmt.Sprintf("%s document with a %d-byte line in cue %d of 3", lc.Format, lc.Len, lc.Pos+1)
	if pan != "" {
		return "fault.longline." + lc.Format + ".panic", desc + ": panic " + pan, 0
	}
	if err != nil {
		return "", "", core.Hash64("error")
	}
	// no error: then the result must be complete (3 cues, long text intact)
	ok := len(s.Items) == 3
	if ok {
		got := ""
		for _, l := range s.Items[lc.Pos].Lines {
			got += l.String()
		}
		ok = got == strings.Repeat("y", lc.Len)
	}
	if !ok {
		return "fault.longline." + lc.Format + ".silently-truncated", fmt.Sprintf("%s: reader returned nil error and %d cues", desc, len(s.Items)), 0
	}
	return "", "", core.Hash64("complete")
}

type WriteCase struct {
	Doc    string `json:"doc"`
	Format string `json:"source_format"`
	Data   []byte `json:"source_data"`
	Dest   string `json:"dest_format"`
	K      int    `json:"fault_offset"`
	Shape  int    `json:"shape"`
	Err    int    `json:"error_kind,omitempty"`
}

func parseDoc(format string, data []byte) *astisub.Subtitles {
	s, err, pan := corpus.Read(format, bytes.NewReader(data))
	if err != nil || pan != "" || s == nil || len(s.Items) == 0 {
		return nil
	}
	return s
}

func checkWrite(wc WriteCase) (key, msg string, out uint64) {
	s := parseDoc(wc.Format, wc.Data)
	if s == nil {
		return "", "", 0
	}
	w := &faultWriter{K: wc.K, Shape: wc.Shape, ErrKind: wc.Err}
	err, pan := corpus.Write(wc.Dest, s, w)
	desc := fmt.Sprintf("%s written as %s, destination fails after %d bytes (shape %d)", wc.Doc, wc.Dest, wc.K, wc.Shape)
	if pan != "" {
		return "fault.write." + wc.Dest + ".panic", desc + ": writer panicked: " + pan, 0
	}
	if err == nil {
		return "fault.write." + wc.Dest + ".swallowed", desc + ": writer returned nil", 0
	}
	wr := "unwrapped"
	if errors.Is(err, errFault) {
		wr = "wrapped"
	}
	return "", "", core.Hash64("error", wr)
}

type FileCase struct {
	Kind string `json:"kind"`
	Ext  string `json:"ext"`
}

func checkFile(fc FileCase, scratch string) (key, msg string, out uint64) {
	dir, err := os.MkdirTemp(scratch, "c18-")
	if err != nil {
		return "", "", 0
	}
	defer os.RemoveAll(dir)
	s := astisub.NewSubtitles()
	s.Metadata = &astisub.Metadata{Framerate: 25, STLDisplayStandardCode: "0"}
	s.Items = append(s.Items, &astisub.Item{StartAt: 1e9, EndAt: 2e9, Lines: []astisub.Line{{Items: []astisub.LineItem{{Text: "x"}}}}})
	var e error
	pan := ""
	func() {
		defer func() {
			if r := recover(); r != nil {
				pan = fmt.Sprint(r)
			}
		}()
		switch fc.Kind {
		case "open-missing":
			_, e = astisub.OpenFile(filepath.Join(dir, "missing"+fc.Ext))
		case "open-directory":
			p := filepath.Join(dir, "d"+fc.Ext)
			os.Mkdir(p, 0o755)
			_, e = astisub.OpenFile(p)
		case "write-missing-parent":
			e = s.Write(filepath.Join(dir, "nope", "out"+fc.Ext))
		case "write-under-a-file":
			f := filepath.Join(dir, "plain")
			os.WriteFile(f, []byte("x"), 0o644)
			e = s.Write(filepath.Join(f, "out"+fc.Ext))
		case "write-onto-directory":
			p := filepath.Join(dir, "d"+fc.Ext)
			os.Mkdir(p, 0o755)
			e = s.Write(p)
		case "write-device-full":
			// the file can be created, every write to it fails (ENOSPC)
			p := filepath.Join(dir, "full"+fc.Ext)
			if fi, serr := os.Stat("/dev/full"); serr != nil || fi.Mode()&os.ModeCharDevice == 0 || os.Symlink("/dev/full", p) != nil {
				e = errors.New("not available here")
				return
			}
			e = s.Write(p)
		case "open-read-fault":
			// the file can be opened, the first read fails with an error that is not end-of-file (EIO)
			p := filepath.Join(dir, "fault"+fc.Ext)
			const src = "/proc/self/mem"
			f, oerr := os.Open(src)
			if oerr != nil {
				e = errors.New("not available here")
				return
			}
			_, rerr := f.Read(make([]byte, 16))
			f.Close()
			if rerr == nil || rerr == io.EOF || os.Symlink(src, p) != nil {
				e = errors.New("not available here")
				return
			}
			_, e = astisub.OpenFile(p)
		case "write-ok", "write-over-longer-file":
			p := filepath.Join(dir, "out"+fc.Ext)
			if fc.Kind == "write-over-longer-file" {
				// the destination exists already and is longer than what will be written: nothing of it may survive
				os.WriteFile(p, bytes.Repeat([]byte("1\n00:00:09,000 --> 00:00:10,000\nstale\n\n"), 200), 0o644)
			}
			e = s.Write(p)
			if e != nil {
				e = nil
				return
			}
			var buf bytes.Buffer
			fmtName := strings.TrimPrefix(fc.Ext, ".")
			if fmtName == "ass" {
				fmtName = "ssa"
			}
			if werr, _ := corpus.Write(fmtName, s, &buf); werr == nil {
				got, _ := os.ReadFile(p)
				if !bytes.Equal(got, buf.Bytes()) {
					e = nil
					pan = "INCOMPLETE"
					return
				}
			}
			e = errors.New("ok")
		}
	}()
	desc := fmt.Sprintf("%s with extension %s", fc.Kind, fc.Ext)
	if pan == "INCOMPLETE" {
		return "fault.file.incomplete", desc + ": Write returned nil but the file does not hold the complete document", 0
	}
	if pan != "" {
		return "fault.file.panic", desc + ": panic " + pan, 0
	}
	if e == nil {
		return "fault.file.swallowed", desc + ": nil error", 0
	}
	return "", "", core.Hash64(fc.Kind)
}

func run(c *core.Ctx) {
	docs := corpus.All()
	// ---- reads ----
	for _, d := range docs {
		end := len(d.Data)
		if d.Format == "ttml" {
			end = ttmlRootEnd(d.Data) - 1 // offsets beyond the root element's end are not required
		}
		chunks := []int{0, 7}
		if c.Tier == core.Thorough {
			chunks = []int{0, 1, 7, 188, 1024}
		}
		for k := 0; k <= end; k++ {
			for shape := 0; shape < 2; shape++ {
				for ci, ch := range chunks {
					for ek := range faultErrs {
						// quick: the other error kinds under whole-buffer delivery only (every offset, both shapes)
						if ek > 0 && ci > 0 && c.Tier == core.Quick {
							continue
						}
						if !c.Mine() {
							continue
						}
						rc := ReadCase{Doc: d.Name, Format: d.Format, Data: d.Data, K: k, Shape: shape, Chunk: ch, Err: ek}
						key, msg, out := checkRead(rc)
						c.Record("read."+d.Format, out, core.Hash64(d.Name, fmt.Sprint(k, shape, ch, ek)), func() interface{} {
							return map[string]interface{}{"doc": d.Name, "len": len(d.Data), "fault_offset": k, "shape": shape, "chunk": ch, "error": faultErr(ek).Error()}
						})
						if key != "" {
							c.Violate("read", key, msg, rc, len(d.Data)*10+k+ek)
						}
					}
				}
			}
		}
		if c.Tier == core.Thorough && len(d.Data) <= 2000 {
			// every fault offset under every single-split delivery (the 1-deviation schedules of C17)
			for k := 1; k <= end; k++ {
				if !c.Mine() {
					continue
				}
				for j := 1; j < k; j++ {
					rc := ReadCase{Doc: d.Name, Format: d.Format, Data: d.Data, K: k, Shape: 0, Split: j}
					key, msg, out := checkRead(rc)
					c.Record("read.split."+d.Format, out, core.Hash64(d.Name, "split", fmt.Sprint(k, j)), nil)
					if key != "" {
						c.Violate("read", key, msg, rc, len(d.Data)*10+k)
					}
				}
				if c.Expired() {
					return
				}
			}
		}
		if d.Format == "ts" && c.Mine() {
			for _, opt := range [][2]int{{0, 0}, {256, 888}, {256, 0}} {
				rc := ReadCase{Doc: d.Name, Format: d.Format, Data: d.Data, K: len(d.Data) + 1, Seek: true, PID: opt[0], Page: opt[1]}
				key, msg, out := checkRead(rc)
				c.Record("read.ts.seek", out, core.Hash64(d.Name, "seek", fmt.Sprint(opt)), nil)
				if key != "" {
					c.Violate("read", key, msg, rc, len(d.Data))
				}
			}
		}
		if c.Expired() {
			return
		}
	}
	// ---- over-long lines ----
	for _, f := range []string{"srt", "vtt", "ssa"} {
		for _, n := range []int{65535, 65536, 65537, 1 << 17, 1 << 20} {
			for pos := 0; pos < 3; pos++ {
				if !c.Mine() {
					continue
				}
				lc := LongCase{f, n, pos}
				key, msg, out := checkLong(lc)
				c.Record("longline."+f, out, core.Hash64(f, fmt.Sprint(n, pos)), func() interface{} { return lc })
				if key != "" {
					c.Violate("longline", key, msg, lc, n)
				}
			}
		}
	}
	// ---- writes ----
	for _, d := range docs {
		if !d.Valid {
			continue
		}
		s := parseDoc(d.Format, d.Data)
		if s == nil {
			continue
		}
		dests := corpus.WriteFormats
		if !strings.HasPrefix(d.Name, "testdata/") || c.Tier == core.Thorough {
			// the same writers under each per-call option (another code path may sit behind an option)
			dests = append(append([]string{}, dests...), "ttml-noindent", "ttml-tab")
		}
		for _, dest := range dests {
			var ref bytes.Buffer
			if err, pan := corpus.Write(dest, s, &ref); err != nil || pan != "" {
				c.Extra["write_pairs_skipped_no_fault_write_fails"]++
				continue // the fault-free conversion itself fails: C07/C08 territory
			}
			// fault-free: a counting destination receives exactly the reference bytes
			L := ref.Len()
			stride := 1
			if c.Tier == core.Quick && strings.HasPrefix(d.Name, "testdata/") && d.Format != dest {
				stride = 0 // quick: cross-format conversions of testdata files only at block-structured offsets
			}
			for k := 0; k < L; k++ {
				if stride == 0 && !(k < 8 || k%128 < 2 || k > L-8) {
					continue
				}
				for shape := 0; shape < 3; shape++ {
					for ek := range writeErrs {
						// quick: the other error kinds for the partial-acceptance shape only (every offset)
						if ek > 0 && shape > 0 && c.Tier == core.Quick {
							continue
						}
						if !c.Mine() {
							continue
						}
						wc := WriteCase{Doc: d.Name, Format: d.Format, Data: d.Data, Dest: dest, K: k, Shape: shape, Err: ek}
						key, msg, out := checkWrite(wc)
						c.Record("write."+dest, out, core.Hash64(d.Name, dest, fmt.Sprint(k, shape, ek)), func() interface{} {
							return map[string]interface{}{"doc": d.Name, "dest": dest, "output_len": L, "fault_offset": k, "shape": shape, "error": writeErrs[ek].Error()}
						})
						if key != "" {
							c.Violate("write", key, msg, wc, L*10+k+ek)
						}
					}
				}
			}
			if c.Mine() {
				w := &faultWriter{K: L + 1}
				err, _ := corpus.Write(dest, parseDoc(d.Format, d.Data), w)
				c.Record("write.nofault."+dest, core.Hash64("nofault"), core.Hash64(d.Name, dest, "nofault"), nil)
				if err == nil && !bytes.Equal(w.buf.Bytes(), ref.Bytes()) {
					c.Violate("write", "fault.write."+dest+".incomplete", fmt.Sprintf("%s -> %s: writer returned nil but handed %d of %d bytes to the destination", d.Name, dest, w.buf.Len(), L), WriteCase{Doc: d.Name, Format: d.Format, Data: d.Data, Dest: dest, K: L + 1}, L)
				}
			}
		}
		if c.Expired() {
			return
		}
	}
	// ---- file helpers ----
	for _, kind := range []string{"open-missing", "open-directory", "open-read-fault", "write-missing-parent", "write-under-a-file", "write-onto-directory", "write-device-full", "write-ok", "write-over-longer-file"} {
		for _, ext := range []string{".srt", ".ssa", ".ass", ".stl", ".ttml", ".vtt", ".ts", ".SRT"} {
			if strings.HasPrefix(kind, "write") && ext == ".ts" {
				continue
			}
			if !c.Mine() {
				continue
			}
			fc := FileCase{kind, ext}
			key, msg, out := checkFile(fc, c.Scratch)
			c.Record("file", out, core.Hash64(kind, ext), func() interface{} { return fc })
			if key != "" {
				c.Violate("file", key, msg, fc, 1)
			}
		}
	}
	_ = dump.Subs
}

func replay(sub string, raw json.RawMessage) (string, bool) {
	switch sub {
	case "read":
		var rc ReadCase
		json.Unmarshal(raw, &rc)
		k, m, _ := checkRead(rc)
		return m, k != ""
	case "longline":
		var lc LongCase
		json.Unmarshal(raw, &lc)
		k, m, _ := checkLong(lc)
		return m, k != ""
	case "write":
		var wc WriteCase
		json.Unmarshal(raw, &wc)
		k, m, _ := checkWrite(wc)
		return m, k != ""
	case "file":
		var fc FileCase
		json.Unmarshal(raw, &fc)
		k, m, _ := checkFile(fc, os.TempDir())
		return m, k != ""
	}
	return "unknown sub", false
}

func init() {
	core.Register(&core.Prop{
		ID: "C18", Level: "fault_enumeration",
		Rule: "reads: for every corpus document and EVERY offset k in 0..len (TTML: up to the end of the root element) the stream delivers k bytes and then fails with each of six errors (a sentinel, io.ErrUnexpectedEOF bare and wrapped, an error whose text is EOF, a closed pipe, a timeout), in two shapes ((0,err) on the next call; the last bytes together with err) and under whole-buffer and 7-byte (thorough: 1,7,188,1024-byte) deliveries; oracle: a reader that reached the fault returns a non-nil error; over-long lines 65535..2^20 at three positions in srt/vtt/ssa: error or complete result; writes: for every parsed corpus document x every writer x every k in 0..len(output)-1 a destination that accepts k bytes then fails in three shapes (partial acceptance, rejection, a transient fault of exactly one Write call); oracle: non-nil error; fault-free run hands the complete output to the destination; file helpers: missing file, directory, a file whose first read fails (EIO), missing parent, path under a regular file, a destination that can be created but not written (/dev/full), a destination that exists and is longer than the new document x every extension; distinct = (document, offset, shape, delivery)",
		Scope: map[core.Tier]string{
			core.Quick:    "all corpus documents (hand-made + /repo/testdata) x every read offset x 2 shapes x 2 deliveries; 45 over-long-line documents; writes: every offset for hand-made documents and same-format testdata, block-structured offsets for cross-format testdata conversions; 42 file-helper cases; write faults also under the per-call options of the TTML writer (no indent, tab) for the hand-made documents",
			core.Thorough: "reads with 5 deliveries and, for documents <=2000 bytes, every fault offset under every single-split delivery (len^2/2 executions per document); writes at every offset for every document x writer pair",
		},
		Assumptions: []string{"Go toolchain and standard library", "astits for the transport-stream layer", "wrapping with %w is recorded but not required"},
		Plain:       run, Replay: replay,
	})
}
