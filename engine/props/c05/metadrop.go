package c05

import (
	"encoding/json"
	"fmt"

	astisub "github.com/asticode/go-astisub"

	"verif/core"
	"verif/ref/stl"
)

// Metadata with ONE field missing: every GSI field the writer takes from the metadata is independent of the
// others - leaving one out (what metadata completed by hand, or inherited from another format, looks like) must
// not change how any OTHER field is written.

type MetaDropCase struct {
	FPS   int    `json:"fps"`
	Field string `json:"dropped_field"`
}

var dropFields = []string{"dsc", "lc", "opt", "oet", "tpt", "tet", "tn", "tcd", "slr", "cd", "rd", "rn", "mnc", "mnr", "co", "pub", "en", "ecd", "tcp"}

func checkMetaDrop(mc MetaDropCase) (key, msg string, out uint64) {
	cs := baseCase(mc.FPS, "0")
	g := &cs.Doc.GSI
	g.CO, g.OPT, g.OET, g.TPT, g.TET, g.TN, g.TCD, g.SLR, g.PUB, g.EN, g.ECD = "GBR", "Title", "Episode", "Titre", "Episode un", "T. Translator", "t@example.org", "REF 1", "Publisher", "E. Editor", "+44 1"
	g.LC, g.CD, g.RD, g.RN, g.MNC, g.MNR = "09", "200102", "210304", 7, 38, 11
	g.TCP = stl.TC{M: 1}
	s := ToSubs(cs)
	m := s.Metadata
	switch mc.Field {
	case "dsc":
		m.STLDisplayStandardCode = ""
	case "lc":
		m.Language = ""
	case "opt":
		m.Title = ""
	case "oet":
		m.STLOriginalEpisodeTitle = ""
	case "tpt":
		m.STLTranslatedProgramTitle = ""
	case "tet":
		m.STLTranslatedEpisodeTitle = ""
	case "tn":
		m.STLTranslatorName = ""
	case "tcd":
		m.STLTranslatorContactDetails = ""
	case "slr":
		m.STLSubtitleListReferenceCode = ""
	case "cd":
		m.STLCreationDate = nil
	case "rd":
		m.STLRevisionDate = nil
	case "rn":
		m.STLRevisionNumber = 0
	case "mnc":
		m.STLMaximumNumberOfDisplayableCharactersInAnyTextRow = nil
	case "mnr":
		m.STLMaximumNumberOfDisplayableRows = nil
	case "co":
		m.STLCountryOfOrigin = ""
	case "pub":
		m.STLPublisher = ""
	case "en":
		m.STLEditorName = ""
	case "ecd":
		m.STLEditorContactDetails = ""
	case "tcp":
		m.STLTimecodeStartOfProgramme = 0
	}
	b, err, pan := safeWrite(s)
	desc := fmt.Sprintf("complete metadata (%d fps) with %q left out", mc.FPS, mc.Field)
	if pan != "" {
		return "stl.write.panic", desc + ": WriteToSTL panicked: " + pan, 0
	}
	if err != nil {
		return "stl.write.error", fmt.Sprintf("%s: WriteToSTL failed: %v", desc, err), 0
	}
	rd, _, derr := stl.Decode(b)
	if derr != nil {
		return "stl.write.ref-decode", fmt.Sprintf("%s: independent decoder rejects the output: %v", desc, derr), 0
	}
	want, got := gsiMeta(*g), gsiMeta(rd.GSI)
	for _, f := range metaFields {
		if f == mc.Field {
			continue
		}
		if want[f] != got[f] {
			return "stl.write.meta-drop." + f, fmt.Sprintf("%s: field %s = %q is written as %q (the fields are independent of each other)", desc, f, want[f], got[f]), 0
		}
	}
	if mc.Field != "tcp" && rd.GSI.TCP != g.TCP {
		return "stl.write.meta-drop.tcp", fmt.Sprintf("%s: programme start %v is written as %v", desc, g.TCP, rd.GSI.TCP), 0
	}
	return "", "", core.Hash64(fmt.Sprint(got))
}

func metaDropRun(c *core.Ctx) {
	for _, fps := range []int{25, 30} {
		for _, f := range dropFields {
			if !c.Mine() {
				continue
			}
			mc := MetaDropCase{fps, f}
			key, msg, out := checkMetaDrop(mc)
			c.Record("meta-drop", out, core.Hash64("meta-drop", fmt.Sprint(fps), f), func() interface{} { return mc })
			if key != "" {
				c.Violate("metadrop", key, msg, mc, 1)
			}
		}
	}
}

func metaDropReplay(raw json.RawMessage) (string, bool) {
	var mc MetaDropCase
	json.Unmarshal(raw, &mc)
	k, m, _ := checkMetaDrop(mc)
	return m, k != ""
}

var _ = astisub.LanguageFrench
