// Package c05: EBU STL codec fidelity (E1 exploration over a ground-truth model x renderings, plus plain
// exhaustive sweeps over timecodes, the Latin code table, diacritic x letter pairs and style-code strings).
package c05

import (
	"bytes"
	"encoding/json"
	"fmt"
	"io"
	"log"
	"sort"
	"strings"
	"time"

	astisub "github.com/asticode/go-astisub"
	"golang.org/x/text/unicode/norm"

	"verif/core"
	"verif/explore"
	"verif/ref/stl"
)

// ---------------------------------------------------------------------------------------------
// Case
// ---------------------------------------------------------------------------------------------

// WOpts are the choices of the write direction (how the model is handed to the library).
type WOpts struct {
	// Meta: 0 full STL metadata; 1 nil; 2 zero Metadata{}; 3 Metadata{Title, Language} (as left by the readers
	// of the other formats); 4 Metadata{Framerate} only.
	Meta int
	// TimeForm: how a frame instant is expressed in ns: 0 rounded up, 1 rounded down, 2 rounded up + 1 ms.
	TimeForm int
	// Plain: how "no attribute" is expressed on a run: 0 nil InlineStyle, 1 empty StyleAttributes, 2 explicit false.
	Plain int
	// NFD: text handed over decomposed (default: composed, NFC).
	NFD bool
	// NoItemStyle: the cue carries no InlineStyle (justification / position then are the writer's choice).
	NoItemStyle bool
	// Partial (when the cue has an InlineStyle): 0 justification and position; 1 justification only; 2 position only
	// (the attribute that is not given is the writer's choice).
	Partial int `json:",omitempty"`
	// ForceDSC0: write the same model with display standard "0" (branch around the teletext box finding).
	ForceDSC0 bool
	// Times, when set, are the cue instants in ns (2 per cue) relative to the programme start, verbatim.
	Times []int64 `json:",omitempty"`
}

type Case struct {
	Doc    stl.Doc    `json:"doc"`
	Render stl.Render `json:"render"`
	Ignore bool       `json:"ignore"`
	W      WOpts      `json:"w"`
	Dir    string     `json:"dir"`
}

type Finding struct{ Key, Msg string }

func nfc(s string) string { return norm.NFC.String(s) }

// ---------------------------------------------------------------------------------------------
// library value -> observation
// ---------------------------------------------------------------------------------------------

type gotCue struct {
	Start, End   int64
	VP, JC       int
	HasVP, HasJC bool
	Rows         []stl.Row
}

var langName = map[string]string{"09": astisub.LanguageEnglish, "0F": astisub.LanguageFrench, "1E": astisub.LanguageNorwegian,
	"69": astisub.LanguageJapanese, "75": astisub.LanguageChinese}

func langCode(name string) string {
	for c, n := range langName {
		if n == name {
			return c
		}
	}
	if name == "" {
		return ""
	}
	return "?" + name
}

func fromSubs(s *astisub.Subtitles) (map[string]string, int64, []gotCue) {
	meta := map[string]string{}
	var tcp int64
	if m := s.Metadata; m != nil {
		meta["fps"] = fmt.Sprint(m.Framerate)
		meta["dsc"] = m.STLDisplayStandardCode
		meta["lc"] = langCode(m.Language)
		meta["opt"] = m.Title
		meta["oet"] = m.STLOriginalEpisodeTitle
		meta["tpt"] = m.STLTranslatedProgramTitle
		meta["tet"] = m.STLTranslatedEpisodeTitle
		meta["tn"] = m.STLTranslatorName
		meta["tcd"] = m.STLTranslatorContactDetails
		meta["slr"] = m.STLSubtitleListReferenceCode
		if m.STLCreationDate != nil {
			meta["cd"] = m.STLCreationDate.Format("060102")
		}
		if m.STLRevisionDate != nil {
			meta["rd"] = m.STLRevisionDate.Format("060102")
		}
		meta["rn"] = fmt.Sprint(m.STLRevisionNumber)
		if m.STLMaximumNumberOfDisplayableCharactersInAnyTextRow != nil {
			meta["mnc"] = fmt.Sprint(*m.STLMaximumNumberOfDisplayableCharactersInAnyTextRow)
		}
		if m.STLMaximumNumberOfDisplayableRows != nil {
			meta["mnr"] = fmt.Sprint(*m.STLMaximumNumberOfDisplayableRows)
		}
		meta["co"] = m.STLCountryOfOrigin
		meta["pub"] = m.STLPublisher
		meta["en"] = m.STLEditorName
		meta["ecd"] = m.STLEditorContactDetails
		tcp = int64(m.STLTimecodeStartOfProgramme)
	}
	var cues []gotCue
	for _, it := range s.Items {
		g := gotCue{Start: int64(it.StartAt), End: int64(it.EndAt)}
		if a := it.InlineStyle; a != nil {
			if a.STLPosition != nil {
				g.VP, g.HasVP = a.STLPosition.VerticalPosition, true
			}
			if a.STLJustification != nil {
				g.HasJC = true
				switch *a.STLJustification {
				case astisub.JustificationUnchanged:
					g.JC = 0
				case astisub.JustificationLeft:
					g.JC = 1
				case astisub.JustificationCentered:
					g.JC = 2
				case astisub.JustificationRight:
					g.JC = 3
				default:
					g.JC = -1
				}
			}
		}
		for _, l := range it.Lines {
			var row stl.Row
			for _, li := range l.Items {
				r := stl.Run{Text: li.Text}
				if a := li.InlineStyle; a != nil {
					r.I = a.STLItalics != nil && *a.STLItalics
					r.U = a.STLUnderline != nil && *a.STLUnderline
					r.B = a.STLBoxing != nil && *a.STLBoxing
				}
				row = append(row, r)
			}
			g.Rows = append(g.Rows, row)
		}
		cues = append(cues, g)
	}
	return meta, tcp, cues
}

// gsiMeta: the metadata a GSI block denotes in the library's model. The model names a language (five of them);
// a code without a name there (or a blank field) denotes no language.
func gsiMeta(g stl.GSI) map[string]string {
	lc := g.LC
	if _, ok := langName[lc]; !ok {
		lc = ""
	}
	return map[string]string{
		"fps": fmt.Sprint(g.FPS), "dsc": strings.TrimSpace(g.DSC), "lc": lc, "opt": g.OPT, "oet": g.OET, "tpt": g.TPT, "tet": g.TET,
		"tn": g.TN, "tcd": g.TCD, "slr": g.SLR, "cd": g.CD, "rd": g.RD, "rn": fmt.Sprint(g.RN), "mnc": fmt.Sprint(g.MNC),
		"mnr": fmt.Sprint(g.MNR), "co": g.CO, "pub": g.PUB, "en": g.EN, "ecd": g.ECD,
	}
}

var metaFields = []string{"fps", "dsc", "lc", "opt", "oet", "tpt", "tet", "tn", "tcd", "slr", "cd", "rd", "rn", "mnc", "mnr", "co", "pub", "en", "ecd"}

func safeRead(b []byte, ignore bool) (s *astisub.Subtitles, err error, pan string) {
	defer func() {
		if e := recover(); e != nil {
			pan = fmt.Sprint(e)
		}
	}()
	s, err = astisub.ReadFromSTL(bytes.NewReader(b), astisub.STLOptions{IgnoreTimecodeStartOfProgramme: ignore})
	return
}

func safeWrite(s *astisub.Subtitles) (out []byte, err error, pan string) {
	defer func() {
		if e := recover(); e != nil {
			pan = fmt.Sprint(e)
		}
	}()
	var buf bytes.Buffer
	err = s.WriteToSTL(&buf)
	out = buf.Bytes()
	return
}

func abs64(v int64) int64 {
	if v < 0 {
		return -v
	}
	return v
}

func isTeletext(dsc string) bool { return dsc == "1" || dsc == "2" }

func hexs(b []byte) string {
	// text field without the filler
	e := len(b)
	for e > 0 && b[e-1] == 0x8F {
		e--
	}
	return fmt.Sprintf("% x", b[:e])
}

func describe(b []byte) string {
	var sb strings.Builder
	if len(b) >= 1024 {
		fmt.Fprintf(&sb, "GSI{DFC=%q DSC=%q TCP=%q}", b[3:11], b[11:12], b[256:264])
	}
	for k := 0; 1024+128*(k+1) <= len(b); k++ {
		t := b[1024+128*k:]
		fmt.Fprintf(&sb, " TTI{EBN=%02x TCI=%d:%d:%d:%d TCO=%d:%d:%d:%d VP=%d JC=%d TF=[%s]}", t[3], t[5], t[6], t[7], t[8], t[9], t[10], t[11], t[12], t[13], t[14], hexs(t[16:128]))
	}
	return sb.String()
}

// ---------------------------------------------------------------------------------------------
// read direction
// ---------------------------------------------------------------------------------------------

// rewriteCheck: reading then writing again changes no timecode. orig are the timecodes (in, out per cue) of
// the file that was read, s what the library read from it.
func rewriteCheck(s *astisub.Subtitles, orig []stl.TC, fps int, tcp stl.TC, ignore bool, what string) []Finding {
	if len(s.Items) == 0 {
		return nil
	}
	out, err, pan := safeWrite(s)
	if pan != "" {
		return []Finding{{"stl.rewrite.write-panic", fmt.Sprintf("%s: WriteToSTL of what ReadFromSTL returned panicked: %s", what, pan)}}
	}
	if err != nil {
		return []Finding{{"stl.rewrite.write-error", fmt.Sprintf("%s: WriteToSTL of what ReadFromSTL returned failed: %v", what, err)}}
	}
	if len(out) != 1024+128*len(s.Items) || len(orig) != 2*len(s.Items) {
		return []Finding{{"stl.rewrite.size", fmt.Sprintf("%s: re-written file has %d bytes for %d cues (%d timecodes read)", what, len(out), len(s.Items), len(orig))}}
	}
	keys := map[string]string{}
	for k := 0; k < len(s.Items); k++ {
		t := out[1024+128*k:]
		w := []stl.TC{{H: int(t[5]), M: int(t[6]), S: int(t[7]), F: int(t[8])}, {H: int(t[9]), M: int(t[10]), S: int(t[11]), F: int(t[12])}}
		for j := 0; j < 2; j++ {
			o := orig[2*k+j]
			if w[j] == o {
				continue
			}
			cand := o.Frames(fps)
			tcpDropped := false
			if !ignore && tcp != (stl.TC{}) {
				cand -= tcp.Frames(fps)
				tcpDropped = true
			}
			wf := w[j].Frames(fps)
			msg := fmt.Sprintf("%s: timecode %v (%d fps, TCP %v, ignore=%v) is written back as %v", what, o, fps, tcp, ignore, w[j])
			switch {
			case tcpDropped && wf == cand:
				keys["stl.write.tcp-not-added"] = msg + " — the programme start that the reader subtracted is not added back although TCP is written unchanged"
			case fps == 30 && wf == cand-1 && !tcpDropped:
				keys["stl.rewrite.30fps-frame-loss"] = msg + " — one frame earlier"
			case fps == 30 && wf == cand-1 && tcpDropped:
				// (tc rounded up) - (tcp rounded up) can fall just short of the frame boundary: part of the same defect
				keys["stl.write.tcp-not-added"] = msg + " — the programme start is not added back (and the difference of two rounded instants falls one frame short)"
			default:
				keys["stl.rewrite.timecode-changed"] = msg
			}
		}
	}
	// and the cue instants read from the re-written file are the ones read the first time
	if len(keys) == 0 {
		s2, err2, pan2 := safeRead(out, ignore)
		if pan2 != "" || err2 != nil {
			keys["stl.rewrite.reread-fails"] = fmt.Sprintf("%s: library reader fails on the re-written file: %v %s", what, err2, pan2)
		} else if len(s2.Items) != len(s.Items) {
			keys["stl.rewrite.reread-count"] = fmt.Sprintf("%s: %d cues re-read, %d read", what, len(s2.Items), len(s.Items))
		} else {
			for k := range s.Items {
				if s.Items[k].StartAt != s2.Items[k].StartAt || s.Items[k].EndAt != s2.Items[k].EndAt {
					keys["stl.rewrite.reread-time"] = fmt.Sprintf("%s: cue %d read as %v..%v, after read-write-read %v..%v", what, k, s.Items[k].StartAt, s.Items[k].EndAt, s2.Items[k].StartAt, s2.Items[k].EndAt)
				}
			}
		}
	}
	var fs []Finding
	for k, m := range keys {
		fs = append(fs, Finding{k, m})
	}
	sort.Slice(fs, func(i, j int) bool { return fs[i].Key < fs[j].Key })
	return fs
}

// CheckRead: ReadFromSTL(encode(model)) must denote the model; then read-write(-read) keeps every timecode.
func CheckRead(cs Case) (fs []Finding, outcome uint64) {
	b, err := stl.Encode(cs.Doc, cs.Render)
	if err != nil {
		panic("c05: generator produced a model the reference encoder rejects: " + err.Error())
	}
	g := cs.Doc.GSI
	s, rerr, pan := safeRead(b, cs.Ignore)
	if pan != "" {
		return []Finding{{"stl.read.panic", fmt.Sprintf("ReadFromSTL panicked (%s) on %s", pan, describe(b))}}, 0
	}
	if rerr != nil {
		return []Finding{{"stl.read.error", fmt.Sprintf("ReadFromSTL failed (%v) on well-formed %s", rerr, describe(b))}}, 0
	}
	add := func(key, format string, a ...interface{}) {
		fs = append(fs, Finding{key, fmt.Sprintf(format, a...) + "\n file: " + describe(b)})
	}
	meta, gotTCP, cues := fromSubs(s)
	want := gsiMeta(g)
	if s.Metadata == nil {
		add("stl.read.meta.absent", "reader returned no metadata")
	} else {
		for _, f := range metaFields {
			if meta[f] != want[f] {
				add("stl.read.meta."+f, "GSI field %s is %q, reader returned %q", f, want[f], meta[f])
			}
		}
		if !cs.Ignore {
			if abs64(gotTCP*int64(g.FPS)-g.TCP.Frames(g.FPS)*1e9) >= int64(g.FPS) {
				add("stl.read.meta.tcp", "TCP %v at %d fps, reader returned %v", g.TCP, g.FPS, time.Duration(gotTCP))
			}
		}
	}
	wc := cs.Doc.Cues()
	var den strings.Builder
	if len(cues) != len(wc) {
		key := "stl.read.cue-count"
		if len(cues) == len(cs.Doc.Blocks) {
			key = "stl.read.user-data-not-skipped"
		}
		add(key, "%d TTI blocks of which %d carry a subtitle; reader returned %d cues", len(cs.Doc.Blocks), len(wc), len(cues))
		return fs, 0
	}
	var tcs []stl.TC
	fps := int64(g.FPS)
	tcpN := g.TCP.Frames(g.FPS) * 1e9
	if cs.Ignore {
		tcpN = 0
	}
	for k, w := range wc {
		c := cues[k]
		tcs = append(tcs, w.In, w.Out)
		for j, pair := range [][2]int64{{c.Start, w.In.Frames(g.FPS)}, {c.End, w.Out.Frames(g.FPS)}} {
			gotN := pair[0] * fps
			exact := pair[1]*1e9 - tcpN
			if abs64(gotN-exact) < fps {
				continue
			}
			full := g.TCP.Frames(g.FPS) * 1e9
			key := "stl.read.time"
			switch {
			case full != 0 && cs.Ignore && abs64(gotN-(exact-full)) < fps:
				key = "stl.read.time.tcp-subtracted-despite-ignore"
			case full != 0 && !cs.Ignore && abs64(gotN-(exact+full)) < fps:
				key = "stl.read.time.tcp-not-subtracted"
			case full != 0 && !cs.Ignore && abs64(gotN-(exact-full)) < 2*fps:
				key = "stl.read.time.tcp-subtracted-twice"
			}
			add(key, "cue %d %s: timecode %v at %d fps, TCP %v, ignore=%v: expected %.9f s, reader returned %v",
				k, [2]string{"in", "out"}[j], [2]stl.TC{w.In, w.Out}[j], g.FPS, g.TCP, cs.Ignore, float64(exact)/float64(fps)/1e9, time.Duration(pair[0]))
		}
		if !c.HasVP || c.VP != w.VP {
			add("stl.read.vp", "cue %d: vertical position %d, reader returned %d (present=%v)", k, w.VP, c.VP, c.HasVP)
		}
		if !c.HasJC || c.JC != w.JC {
			add("stl.read.jc", "cue %d: justification code %d, reader returned %d (present=%v)", k, w.JC, c.JC, c.HasJC)
		}
		wt, gt := stl.RowsDenote(w.Rows, nfc), stl.RowsDenote(c.Rows, nfc)
		if g.DSC == " " {
			// undefined display standard: the property speaks of open subtitling and teletext only, so what the text
			// field denotes is not pinned; everything else of the file is
			gt = ""
		} else if wt != gt {
			key := "stl.read.text.open"
			if isTeletext(g.DSC) {
				key = "stl.read.text.teletext"
			}
			add(key, "cue %d: text field denotes %q, reader returned %q", k, wt, gt)
		}
		fmt.Fprintf(&den, "%d-%d|%d|%d|%s\n", c.Start, c.End, c.VP, c.JC, gt)
	}
	fs = append(fs, rewriteCheck(s, tcs, g.FPS, g.TCP, cs.Ignore, "file "+describe(b))...)
	if len(fs) > 0 {
		return fs, 0
	}
	ms := make([]string, 0, len(metaFields))
	for _, f := range metaFields {
		ms = append(ms, meta[f])
	}
	return nil, core.Hash64("r", strings.Join(ms, "\x01"), den.String())
}

// ---------------------------------------------------------------------------------------------
// write direction
// ---------------------------------------------------------------------------------------------

func ceilDiv(a, b int64) int64 {
	if a >= 0 {
		return (a + b - 1) / b
	}
	return -((-a) / b)
}

func floorDiv(a, b int64) int64 {
	if a >= 0 {
		return a / b
	}
	return -((-a + b - 1) / b)
}

func instant(frames int64, fps int, form int) int64 {
	switch form {
	case 1:
		return floorDiv(frames*1e9, int64(fps))
	case 2:
		return ceilDiv(frames*1e9, int64(fps)) + 1e6
	}
	return ceilDiv(frames*1e9, int64(fps))
}

func bp(v bool) *bool { return &v }
func ip(v int) *int   { return &v }

// cueTimes gives the model's cue instants in ns relative to the programme start.
func cueTimes(cs Case) []int64 {
	if cs.W.Times != nil {
		return cs.W.Times
	}
	g := cs.Doc.GSI
	var o []int64
	for _, c := range cs.Doc.Cues() {
		o = append(o, instant(c.In.Frames(g.FPS)-g.TCP.Frames(g.FPS), g.FPS, cs.W.TimeForm),
			instant(c.Out.Frames(g.FPS)-g.TCP.Frames(g.FPS), g.FPS, cs.W.TimeForm))
	}
	return o
}

func wdsc(cs Case) string {
	if cs.W.ForceDSC0 {
		return "0"
	}
	return cs.Doc.GSI.DSC
}

// ToSubs builds the library value of a model (public types only).
func ToSubs(cs Case) *astisub.Subtitles {
	s := astisub.NewSubtitles()
	g := cs.Doc.GSI
	switch cs.W.Meta {
	case 0:
		cd, _ := time.Parse("060102", g.CD)
		rd, _ := time.Parse("060102", g.RD)
		s.Metadata = &astisub.Metadata{
			Framerate: g.FPS, Language: langName[g.LC], Title: g.OPT,
			STLCountryOfOrigin: g.CO, STLCreationDate: &cd, STLDisplayStandardCode: wdsc(cs),
			STLEditorContactDetails: g.ECD, STLEditorName: g.EN,
			STLMaximumNumberOfDisplayableCharactersInAnyTextRow: ip(g.MNC), STLMaximumNumberOfDisplayableRows: ip(g.MNR),
			STLOriginalEpisodeTitle: g.OET, STLPublisher: g.PUB, STLRevisionDate: &rd, STLRevisionNumber: g.RN,
			STLSubtitleListReferenceCode: g.SLR, STLTimecodeStartOfProgramme: time.Duration(instant(g.TCP.Frames(g.FPS), g.FPS, 0)),
			STLTranslatedEpisodeTitle: g.TET, STLTranslatedProgramTitle: g.TPT, STLTranslatorContactDetails: g.TCD, STLTranslatorName: g.TN,
		}
	case 1:
	case 2:
		s.Metadata = &astisub.Metadata{}
	case 3:
		s.Metadata = &astisub.Metadata{Title: g.OPT, Language: langName[g.LC]}
	case 4:
		s.Metadata = &astisub.Metadata{Framerate: g.FPS}
	}
	ts := cueTimes(cs)
	for k, c := range cs.Doc.Cues() {
		it := &astisub.Item{StartAt: time.Duration(ts[2*k]), EndAt: time.Duration(ts[2*k+1])}
		if !cs.W.NoItemStyle {
			var j astisub.Justification
			switch c.JC {
			case 0:
				j = astisub.JustificationUnchanged
			case 1:
				j = astisub.JustificationLeft
			case 2:
				j = astisub.JustificationCentered
			case 3:
				j = astisub.JustificationRight
			}
			it.InlineStyle = &astisub.StyleAttributes{}
			if cs.W.Partial != 2 {
				it.InlineStyle.STLJustification = &j
			}
			if cs.W.Partial != 1 {
				it.InlineStyle.STLPosition = &astisub.STLPosition{VerticalPosition: c.VP, MaxRows: g.MNR, Rows: len(c.Rows)}
			}
		}
		for _, row := range c.Rows {
			var l astisub.Line
			for _, r := range row {
				t := norm.NFC.String(r.Text)
				if cs.W.NFD {
					t = norm.NFD.String(r.Text)
				}
				li := astisub.LineItem{Text: t}
				switch {
				case r.Style != (stl.Style{}):
					a := &astisub.StyleAttributes{}
					if r.I {
						a.STLItalics = bp(true)
					}
					if r.U {
						a.STLUnderline = bp(true)
					}
					if r.B {
						a.STLBoxing = bp(true)
					}
					if cs.W.Plain == 2 {
						if !r.I {
							a.STLItalics = bp(false)
						}
						if !r.U {
							a.STLUnderline = bp(false)
						}
						if !r.B {
							a.STLBoxing = bp(false)
						}
					}
					li.InlineStyle = a
				case cs.W.Plain == 1:
					li.InlineStyle = &astisub.StyleAttributes{}
				case cs.W.Plain == 2:
					li.InlineStyle = &astisub.StyleAttributes{STLItalics: bp(false), STLUnderline: bp(false), STLBoxing: bp(false)}
				}
				l.Items = append(l.Items, li)
			}
			it.Lines = append(it.Lines, l)
		}
		s.Items = append(s.Items, it)
	}
	return s
}

// the three characters on which the reader's and the writer's tables are known to disagree
var charSubs = []struct {
	key       string
	r         rune
	ref, self string // what the independent decoder / the library reader make of the writer's byte
}{
	{"stl.write.char.dollar", '$', "\u00a4", "\u00a4"},
	{"stl.write.char.currency", 0x00A4, "\u00a4", ""},
	{"stl.write.char.ohm", 0x2126, "\u2018", "\u2018"},
}

// explainText: if the difference between the model rows and the decoded rows is exactly the known mapping of
// some of the three characters, return their keys (smallest such set).
func explainText(want []stl.Row, got string, self bool) []string {
	best := -1
	for mask := 1; mask < 1<<len(charSubs); mask++ {
		rows := make([]stl.Row, len(want))
		used := 0
		for i, row := range want {
			for _, r := range row {
				// simultaneous substitution (the image of one character may be another of the three)
				var sb strings.Builder
				for _, ch := range r.Text {
					done := false
					for j, cs := range charSubs {
						if mask&(1<<j) != 0 && ch == cs.r {
							used |= 1 << j
							if self {
								sb.WriteString(cs.self)
							} else {
								sb.WriteString(cs.ref)
							}
							done = true
							break
						}
					}
					if !done {
						sb.WriteRune(ch)
					}
				}
				t := sb.String()
				rows[i] = append(rows[i], stl.Run{Text: t, Style: r.Style})
			}
		}
		if used != mask {
			continue
		}
		if stl.RowsDenote(rows, nfc) == got {
			if best < 0 || bitsOf(mask) < bitsOf(best) {
				best = mask
			}
		}
	}
	if best < 0 {
		return nil
	}
	var keys []string
	for j, cs := range charSubs {
		if best&(1<<j) != 0 {
			keys = append(keys, cs.key)
		}
	}
	return keys
}

func bitsOf(m int) int {
	n := 0
	for ; m != 0; m &= m - 1 {
		n++
	}
	return n
}

func modelHasText(cs Case) bool {
	for _, c := range cs.Doc.Cues() {
		if stl.RowsDenote(c.Rows, nil) != "" {
			return true
		}
	}
	return false
}

// CheckWrite: WriteToSTL(model) is 1024 + 128 n bytes and denotes the model's cues and metadata to the
// independent decoder and to the library's reader; reading it and writing again changes no timecode.
func CheckWrite(cs Case) (fs []Finding, outcome uint64) {
	s := ToSubs(cs)
	g := cs.Doc.GSI
	wc := cs.Doc.Cues()
	out, err, pan := safeWrite(s)
	if pan != "" {
		return []Finding{{"stl.write.panic", fmt.Sprintf("WriteToSTL panicked: %s", pan)}}, 0
	}
	if len(wc) == 0 {
		if err == nil {
			return []Finding{{"stl.write.empty-no-error", "WriteToSTL of an empty cue list returned nil"}}, 0
		}
		return nil, core.Hash64("w-empty")
	}
	if err != nil {
		return []Finding{{"stl.write.error", fmt.Sprintf("WriteToSTL failed: %v", err)}}, 0
	}
	add := func(key, format string, a ...interface{}) {
		fs = append(fs, Finding{key, fmt.Sprintf(format, a...) + fmt.Sprintf("\n model: meta-kind=%d dsc=%q fps=%d tcp=%v; written: %s", cs.W.Meta, wdsc(cs), g.FPS, g.TCP, describe(out))})
	}
	if len(out) != 1024+128*len(wc) {
		add("stl.write.size", "%d cues written as %d bytes (expected %d)", len(wc), len(out), 1024+128*len(wc))
		return fs, 0
	}
	hasFramerate := cs.W.Meta == 0 || cs.W.Meta == 1 || cs.W.Meta == 4
	rd, notes, derr := stl.Decode(out)
	if derr != nil {
		if !hasFramerate && strings.TrimSpace(string(out[3:11])) == "" {
			_, e2, p2 := safeRead(out, false)
			add("stl.write.no-framerate.blank-dfc", "metadata without a frame rate: the disk format code is written blank, so the file has no frame rate (independent decoder: %v; library reader: err=%v panic=%q)", derr, e2, p2)
			return fs, 0
		}
		add("stl.write.ref-decode", "independent decoder rejects the writer's output: %v", derr)
		return fs, 0
	}
	if notes.ControlInOpen > 0 {
		add("stl.write.control-code-in-open-text", "%d codes below 20h in an open-subtitling text field", notes.ControlInOpen)
	}
	for _, o := range notes.Other {
		if strings.Contains(o, "timecode") {
			add("stl.write.timecode-range", "%s", o)
		}
	}
	if len(rd.Cues()) != len(wc) || len(rd.Blocks) != len(wc) {
		add("stl.write.ref-cue-count", "%d cues written, independent decoder finds %d subtitle blocks among %d", len(wc), len(rd.Cues()), len(rd.Blocks))
		return fs, 0
	}
	// block numbering and totals: one TTI block per cue, every block its own subtitle (strictly ascending subtitle
	// numbers - blocks sharing a number are extension blocks of ONE subtitle to a decoder), GSI totals = what is there
	for i := 1; i < len(rd.Blocks); i++ {
		if rd.Blocks[i].SN <= rd.Blocks[i-1].SN {
			add("stl.write.subtitle-number", "TTI block %d carries subtitle number %d after %d (numbers must ascend; an independent decoder sees a repeated number as the same subtitle)", i, rd.Blocks[i].SN, rd.Blocks[i-1].SN)
			break
		}
	}
	if notes.TNB != len(wc) || notes.TNS != len(wc) {
		add("stl.write.totals", "%d cues written; GSI says TNB=%d TNS=%d", len(wc), notes.TNB, notes.TNS)
	}
	// "first in-cue": the first listed subtitle's, or - for a list that is not in start order - the earliest one's
	// (the sentence does not choose; a writer doing either is right)
	earliest := rd.Blocks[0].In
	for _, b := range rd.Blocks {
		if b.In.Frames(100) < earliest.Frames(100) {
			earliest = b.In
		}
	}
	if notes.TCF != rd.Blocks[0].In && notes.TCF != earliest {
		add("stl.write.tcf", "GSI timecode of the first in-cue is written %v, the first TTI block starts at %v (the earliest at %v)", notes.TCF, rd.Blocks[0].In, earliest)
	}
	fpsOut := rd.GSI.FPS
	// metadata
	if cs.W.Meta == 0 {
		want := gsiMeta(g)
		want["dsc"] = wdsc(cs)
		got := gsiMeta(rd.GSI)
		for _, f := range metaFields {
			if f == "lc" && langName[g.LC] == "" {
				continue // a language the library's model cannot name: the written code is the writer's choice
			}
			if want[f] != got[f] {
				add("stl.write.meta."+f, "metadata field %s = %q is written as %q", f, want[f], got[f])
			}
		}
		if rd.GSI.TCP != g.TCP {
			add("stl.write.meta.tcp", "programme start %v is written as %v", g.TCP, rd.GSI.TCP)
		}
	} else if cs.W.Meta == 4 && rd.GSI.FPS != g.FPS {
		add("stl.write.meta.fps", "metadata frame rate %d is written as %d", g.FPS, rd.GSI.FPS)
	}
	// library reader on the writer's output
	s2, err2, pan2 := safeRead(out, false)
	selfOK := pan2 == "" && err2 == nil
	if !selfOK {
		add("stl.write.self-read-fails", "library reader fails on the writer's output: err=%v panic=%q", err2, pan2)
	}
	var selfCues []gotCue
	if selfOK {
		_, _, selfCues = fromSubs(s2)
		if len(selfCues) != len(wc) {
			add("stl.write.self-cue-count", "%d cues written, library reads back %d", len(wc), len(selfCues))
			selfOK = false
		}
	}
	// text lost because no box codes are written under a teletext (or blank) display standard?
	noBox := false
	dscOut := rd.GSI.DSC
	if selfOK && dscOut != "0" && modelHasText(cs) {
		empty := true
		for _, c := range selfCues {
			if len(c.Rows) > 0 {
				empty = false
			}
		}
		if empty && (notes.UnboxedTeletextRows > 0 || dscOut == " ") {
			noBox = true
			if isTeletext(dscOut) {
				add("stl.write.teletext-dsc.nobox", "display standard %q (teletext): the writer emits no start-box code, the library's own reader returns no text for any of the %d cues (independent decoder, reading the unboxed rows leniently, still finds the text)", dscOut, len(wc))
			} else {
				add("stl.write.no-dsc.nobox", "metadata without a display standard code: DSC is written %q (undefined), the library's own reader then takes the teletext path and returns no text for any of the %d cues", dscOut, len(wc))
			}
		}
	}
	ts := cueTimes(cs)
	tcpOut := rd.GSI.TCP.Frames(fpsOut)
	tcpModel := int64(0)
	if cs.W.Meta == 0 {
		tcpModel = g.TCP.Frames(g.FPS)
	}
	frame := int64(1e9)
	tcpFlag := false
	var den strings.Builder
	var origTC []stl.TC
	for k, w := range wc {
		r := rd.Blocks[k]
		origTC = append(origTC, r.In, r.Out)
		for j, tc := range []stl.TC{r.In, r.Out} {
			t := ts[2*k+j]
			dn := (tc.Frames(fpsOut) - tcpOut) * 1e9 // decoded instant * fps
			if abs64(dn-t*int64(fpsOut)) < frame {
				continue
			}
			if tcpModel != 0 && abs64(dn+tcpOut*1e9-t*int64(fpsOut)) < frame {
				if !tcpFlag {
					add("stl.write.tcp-not-added", "cue %d %s at %v after programme start %v is written as timecode %v while TCP %v is written too: the file places the cue at %v", k, [2]string{"in", "out"}[j], time.Duration(t), g.TCP, tc, rd.GSI.TCP, time.Duration(dn/int64(fpsOut)))
				}
				tcpFlag = true
				continue
			}
			add("stl.write.ref-time", "cue %d %s at %v is written as timecode %v at %d fps (TCP %v)", k, [2]string{"in", "out"}[j], time.Duration(t), tc, fpsOut, rd.GSI.TCP)
		}
		// a position outside 1..23 has no meaning under a teletext display standard (which the writer may have
		// chosen itself when the metadata gives none): not compared then
		vpValid := !isTeletext(dscOut) || (w.VP >= 1 && w.VP <= 23)
		if !cs.W.NoItemStyle {
			if vpValid && cs.W.Partial != 1 && r.VP != w.VP {
				add("stl.write.vp", "cue %d: vertical position %d under display standard %q is written as %d", k, w.VP, dscOut, r.VP)
			}
			if cs.W.Partial != 2 && r.JC != w.JC {
				add("stl.write.jc", "cue %d: justification %d is written as %d", k, w.JC, r.JC)
			}
		}
		wt := stl.RowsDenote(w.Rows, nfc)
		rt := stl.RowsDenote(r.Rows, nfc)
		if wt != rt {
			if keys := explainText(w.Rows, rt, false); keys != nil {
				for _, key := range keys {
					add(key, "cue %d: text %q is written as [%s], which the independent decoder reads as %q", k, wt, hexs(out[1024+128*k+16:1024+128*(k+1)]), rt)
				}
			} else {
				add("stl.write.ref-text", "cue %d: text %q is written as [%s], which the independent decoder reads as %q", k, wt, hexs(out[1024+128*k+16:1024+128*(k+1)]), rt)
			}
		}
		fmt.Fprintf(&den, "%v-%v|%d|%d|%s\n", r.In, r.Out, r.VP, r.JC, rt)
		if !selfOK {
			continue
		}
		c := selfCues[k]
		for j, got := range []int64{c.Start, c.End} {
			t := ts[2*k+j]
			if abs64(got-t)*int64(fpsOut) <= frame+int64(fpsOut) {
				continue
			}
			if tcpFlag {
				continue // same defect, already reported
			}
			add("stl.write.self-time", "cue %d %s at %v is read back by the library as %v", k, [2]string{"in", "out"}[j], time.Duration(t), time.Duration(got))
		}
		if !cs.W.NoItemStyle {
			if !c.HasVP || c.VP != r.VP {
				add("stl.write.self-vp", "cue %d: vertical position written %d, library reads back %d", k, r.VP, c.VP)
			}
			if !c.HasJC || c.JC != r.JC {
				add("stl.write.self-jc", "cue %d: justification written %d, library reads back %d", k, r.JC, c.JC)
			}
		}
		if !noBox {
			st := stl.RowsDenote(c.Rows, nfc)
			if st != wt {
				if keys := explainText(w.Rows, st, true); keys != nil {
					for _, key := range keys {
						add(key, "cue %d: text %q is written as [%s], which the library reads back as %q", k, wt, hexs(out[1024+128*k+16:1024+128*(k+1)]), st)
					}
				} else {
					add("stl.write.self-text", "cue %d: text %q is written as [%s], which the library reads back as %q", k, wt, hexs(out[1024+128*k+16:1024+128*(k+1)]), st)
				}
			}
		}
	}
	if selfOK && !tcpFlag {
		fs = append(fs, rewriteCheck(s2, origTC, fpsOut, rd.GSI.TCP, false, "writer output "+describe(out))...)
	}
	// one finding per key
	seen := map[string]bool{}
	var uniq []Finding
	for _, f := range fs {
		if !seen[f.Key] {
			seen[f.Key] = true
			uniq = append(uniq, f)
		}
	}
	if len(uniq) > 0 {
		return uniq, 0
	}
	return nil, core.Hash64("w", string(out[0:16]), string(out[224:236]), string(out[251:373]), den.String())
}

// ---------------------------------------------------------------------------------------------
// generator
// ---------------------------------------------------------------------------------------------

type profile struct {
	fps    []int
	dsc    []string
	tcp    []int // 0 none; 1 10:00:00:00; 2 one frame; 3 09:59:59:last; 4 23:59:59:last; 5 00:01:00:00; 6 00:00:01:00; 7 01:00:00:00
	ignore bool
	gsi    int // bit set of GSI field groups whose values are explored (gsiAll in the ball)
	ncues  []int
	user   bool // explore user-data blocks
	ins    []int
	outs   []int
	layout bool // VP, JC
	hdr    bool // SN base, CS, SGN, EBN, comment flag (the other TTI header bytes)
	nrows  []int
	nruns  []int
	styles []stl.Style
	texts  []string
	render int // 0 none, 1 core subset, 2 all, 3 row-layout product (open), 4 row-layout product (teletext)
	wopts  int // 0 none, 1 all, 2 write-option product, 3 item-style product
}

// GSI field groups (fields that are neighbours in the block are in one group, so that one full product ranges over them)
const (
	gsiID     = 1 << iota // CPN, (DFC, DSC), LC: bytes 0..15
	gsiTitles             // OPT, OET, TPT: bytes 16..111
	gsiNames              // TPT, TET, TN: bytes 80..175
	gsiRefs               // TN, TCD, SLR: bytes 144..223
	gsiDates              // SLR, CD, RD, RN: bytes 208..237
	gsiNums               // TNG, MNC, MNR, TCS: bytes 248..255
	gsiTC                 // (TCP, TCF,) TND, DSN, CO: bytes 256..276
	gsiTail               // PUB, EN, ECD, spare bytes, UDA: bytes 277..1023
	gsiAll    = 1<<iota - 1
)

var allStyles = []stl.Style{{}, {I: true}, {U: true}, {B: true}, {I: true, U: true}, {I: true, B: true}, {U: true, B: true}, {I: true, U: true, B: true}}

// text atoms in the model's decomposed form; no blank or no-break space at an edge
var allTexts = []string{"x", "a b", "7", "$", "\u00a4", "\u2126", "e\u0301", "A\u030a", "\u00c6\u00f8", "\u00bf?", "c\u0327a va",
	"\"#%&'()*+,-./", "x\u00a0y", "ab\u00adc", "\u266a la \u266a", "\u00bd \u215e", "[\\]^_`{|}~", "\u0149\u014b\u0138", "o\u030b u\u0308 z\u030c"}

var typical = map[string]string{"opt": "Title test", "oet": "Episode one", "tpt": "Titre traduit", "tet": "Episode un", "tn": "T. Translator",
	"tcd": "t@example.org", "pub": "Copyright test", "en": "E. Editor", "ecd": "+33 1 23 45 67 89"}

// value tables of the GSI fields: the first entry is the baseline, the first entries are the ones of earlier rounds
var (
	cpnVals = []string{"850", "437", "860", "863", "865"} // every code page the format defines
	// the five codes the library names, then codes it has no name for (hex letter, zero, highest code) and a blank field
	lcVals  = []string{"0F", "09", "1E", "69", "75", "0A", "00", "7F", ""}
	slrVals = []string{"12345678", "", "SLR:ABCDEFGHIJKL", "1", "REF  15-chars/a"}
	coVals  = []string{"FRA", "NOR", "", "CHN", "US"}
	// dates: both sides of the century digits, 29 February, both sides of 1968/69/70 (two-digit-year pivots)
	cdVals  = []string{"170702", "991231", "000101", "000229", "691231", "700101", "681231", "381231"}
	rdVals  = []string{"010101", "200110", "690101", "991231", "000101", "680101", "700101", "240229"}
	rnVals  = []int{0, 1, 99, 9, 10}
	mncVals = []int{40, 38, 99, 0, 1, 9, 10}
	mnrVals = []int{23, 11, 99, 0, 1, 9, 10, 24}
	tngVals = []int{1, 2, 9, 10, 255}
	// a user-defined area that is full and holds every byte value (free-form content)
	udaFull = func() string {
		b := make([]byte, 576)
		for i := range b {
			b[i] = byte(255 - i%256)
		}
		return string(b)
	}()
	spareFull = strings.Repeat("S", 75)
)

// values of a free-text GSI field: typical, empty, exactly full width, one character, one short of full, inner
// double blank with punctuation and lower case
func fieldChoice(c *explore.C, on bool, name string, width int) string {
	typ := typical[name]
	if !on {
		return typ
	}
	full := strings.ToUpper(name) + ":" + strings.Repeat("ABCDEFGHIJKLMNOPQRSTUVWXYZ012345", 2)
	return explore.Pick(c, name, typ, "", full[:width], name[:1], full[:width-1], "Mr  "+name+": a/b (c) 100%")
}

func tcFromFrames(n int64, fps int) stl.TC {
	f := int64(fps)
	return stl.TC{H: int(n / (3600 * f)), M: int(n / (60 * f) % 60), S: int(n / f % 60), F: int(n % f)}
}

// spacing control codes of a teletext row that are neither box codes nor alpha colours (those are Render.Colour)
var ctlCodes = func() []int {
	o := []int{0}
	for c := 0x08; c <= 0x1F; c++ {
		if c != 0x0A && c != 0x0B {
			o = append(o, c)
		}
	}
	return o
}()

func gen(c *explore.C, p profile) Case {
	var cs Case
	g := &cs.Doc.GSI
	g.FPS = explore.Pick(c, "fps", p.fps...)
	g.DSC = explore.Pick(c, "dsc", p.dsc...)
	last := g.FPS - 1
	switch explore.Pick(c, "tcp", p.tcp...) {
	case 1:
		g.TCP = stl.TC{H: 10}
	case 2:
		g.TCP = stl.TC{F: 1}
	case 3:
		g.TCP = stl.TC{H: 9, M: 59, S: 59, F: last}
	case 4:
		g.TCP = stl.TC{H: 23, M: 59, S: 59, F: last}
	case 5:
		g.TCP = stl.TC{M: 1}
	case 6:
		g.TCP = stl.TC{S: 1}
	case 7:
		g.TCP = stl.TC{H: 1}
	}
	if p.ignore {
		cs.Ignore = c.Bool("ignore")
	}
	on := func(group int) bool { return p.gsi&group != 0 }
	g.CPN, g.LC, g.SLR, g.CO, g.CD, g.RD, g.RN, g.MNC, g.MNR, g.TCS, g.TND, g.DSN = "850", "0F", "12345678", "FRA", "170702", "010101", 0, 40, 23, "1", 1, 1
	if on(gsiID) {
		g.CPN = explore.Pick(c, "cpn", cpnVals...)
		g.LC = explore.Pick(c, "lc", lcVals...)
	}
	if on(gsiRefs | gsiDates) {
		g.SLR = explore.Pick(c, "slr", slrVals...)
	}
	if on(gsiTC) {
		g.CO = explore.Pick(c, "co", coVals...)
	}
	if on(gsiDates) {
		g.CD = explore.Pick(c, "cd", cdVals...)
		g.RD = explore.Pick(c, "rd", rdVals...)
		g.RN = explore.Pick(c, "rn", rnVals...)
	}
	if on(gsiNums) {
		g.MNC = explore.Pick(c, "mnc", mncVals...)
		g.MNR = explore.Pick(c, "mnr", mnrVals...)
		g.TCS = explore.Pick(c, "tcs", "1", "0")
	}
	if on(gsiTC) {
		g.TND = explore.Pick(c, "tnd", 1, 9)
		g.DSN = explore.Pick(c, "dsn", 1, 9)
	}
	if on(gsiTail) {
		g.UDA = explore.Pick(c, "uda", "", "user defined area", udaFull)
	}
	g.OPT = fieldChoice(c, on(gsiTitles), "opt", 32)
	g.OET = fieldChoice(c, on(gsiTitles), "oet", 32)
	g.TPT = fieldChoice(c, on(gsiTitles|gsiNames), "tpt", 32)
	g.TET = fieldChoice(c, on(gsiNames), "tet", 32)
	g.TN = fieldChoice(c, on(gsiNames|gsiRefs), "tn", 32)
	g.TCD = fieldChoice(c, on(gsiRefs), "tcd", 32)
	g.PUB = fieldChoice(c, on(gsiTail), "pub", 32)
	g.EN = fieldChoice(c, on(gsiTail), "en", 32)
	g.ECD = fieldChoice(c, on(gsiTail), "ecd", 32)
	if on(gsiNums) {
		g.TNG = explore.Pick(c, "tng", tngVals...)
		if g.TNG == 1 {
			g.TNG = 0 // the reference encoder's default
		}
	}
	if on(gsiTail) {
		g.Spare = explore.Pick(c, "spare", "", spareFull)
	}

	fps := g.FPS
	max := stl.TC{H: 23, M: 59, S: 59, F: last}.Frames(fps)
	base := g.TCP.Frames(fps)
	offs := []stl.TC{{S: 1}, {}, {F: 1}, {F: last}, {S: 59, F: last}, {M: 59, S: 59, F: last}, {H: 1}, {H: 13, M: 59, S: 58, F: last}, {S: 1, F: 2}, {S: 1, F: fps / 2}}
	n := explore.Pick(c, "ncues", p.ncues...)
	snBase := 1
	if p.hdr {
		snBase = explore.Pick(c, "snbase", 1, 0)
	}
	for k := 0; k < n; k++ {
		if p.user && c.Bool("userdata-before") {
			cs.Doc.Blocks = append(cs.Doc.Blocks, stl.Block{UserData: true, SN: snBase + k})
		}
		b := stl.Block{SN: snBase + k, VP: 20, JC: 2}
		in := base + offs[explore.Pick(c, "in", p.ins...)].Frames(fps)
		if in > max {
			in = max
		}
		out := in
		switch explore.Pick(c, "out", p.outs...) {
		case 0:
			out = in + int64(fps)
		case 1:
			out = in + 1
		case 2:
		case 3:
			out = in + 2*int64(fps) + 7
		}
		if out > max {
			out = max
		}
		b.In, b.Out = tcFromFrames(in, fps), tcFromFrames(out, fps)
		if p.layout {
			if isTeletext(g.DSC) {
				b.VP = explore.Pick(c, "vp", 20, 1, 12, 23)
			} else {
				b.VP = explore.Pick(c, "vp", 20, 0, 1, 12, 23, 99)
			}
			b.JC = explore.Pick(c, "jc", 2, 0, 1, 3)
		}
		if p.hdr {
			b.CS = explore.Pick(c, "cs", 0, 1, 2, 3)
			b.SGN = explore.Pick(c, "sgn", 0, 1, 255)
			// every non-user-data block is one cue: a block announcing an extension block (EBN 00h..EFh) and a
			// block flagged as comment are cues like any other
			if e := explore.Pick(c, "ebn", 0xFF, 0x00, 0x01, 0xEF); e != 0xFF {
				b.HasEBN, b.EBN = true, e
			}
			b.CF = explore.Pick(c, "cf", 0, 1)
		}
		nr := explore.Pick(c, "nrows", p.nrows...)
		for r := 0; r < nr; r++ {
			var row stl.Row
			nn := explore.Pick(c, "nruns", p.nruns...)
			for q := 0; q < nn; q++ {
				st := explore.Pick(c, "style", p.styles...)
				tx := explore.Pick(c, "text", p.texts...)
				row = append(row, stl.Run{Text: tx, Style: st})
			}
			b.Rows = append(b.Rows, row)
		}
		cs.Doc.Blocks = append(cs.Doc.Blocks, b)
	}
	if p.user && c.Bool("userdata-after") {
		cs.Doc.Blocks = append(cs.Doc.Blocks, stl.Block{UserData: true, SN: snBase + n})
	}
	switch p.render {
	case 1:
		if isTeletext(g.DSC) {
			cs.Render.Box = c.Choose("box", 3)
		}
		cs.Render.StyleForm = c.Choose("styleform", 2)
		cs.Render.RunBlank = c.Bool("runblank")
		cs.Render.RowFill = explore.Pick(c, "rowfill", 0, 2)
	case 2:
		if isTeletext(g.DSC) {
			cs.Render.Box = c.Choose("box", 7)
			cs.Render.Colour = c.Choose("colour", 9)
		}
		cs.Render.StyleForm = c.Choose("styleform", 3)
		cs.Render.RunBlank = c.Bool("runblank")
		cs.Render.TrailingBreak = c.Bool("trailingbreak")
		cs.Render.Indent = explore.Pick(c, "indent", 0, 1, 3)
		cs.Render.RowFill = explore.Pick(c, "rowfill", 0, 1, 3)
		cs.Render.LeadingBreak = c.Bool("leadingbreak")
		cs.Render.EmptyRow = c.Bool("emptyrow")
		cs.Render.Trail = explore.Pick(c, "trail", 0, 1, 2)
		cs.Render.NoFinalOff = c.Bool("nofinaloff")
		if isTeletext(g.DSC) {
			cs.Render.Ctl = explore.Pick(c, "ctl", ctlCodes...)
			cs.Render.CtlPos = c.Choose("ctlpos", 4)
		}
	case 3, 4:
		// row layout: where rows begin and end inside the text field
		if isTeletext(g.DSC) {
			cs.Render.Box = explore.Pick(c, "box", 0, 1, 6)
		}
		cs.Render.LeadingBreak = c.Bool("leadingbreak")
		cs.Render.EmptyRow = c.Bool("emptyrow")
		cs.Render.TrailingBreak = c.Bool("trailingbreak")
		cs.Render.Trail = explore.Pick(c, "trail", 0, 1)
		cs.Render.Indent = explore.Pick(c, "indent", 0, 1)
		cs.Render.NoFinalOff = c.Bool("nofinaloff")
		cs.Render.RowFill = explore.Pick(c, "rowfill", 0, 1)
	}
	switch p.wopts {
	case 1, 2:
		cs.W.Meta = c.Choose("w.meta", 5)
		cs.W.TimeForm = c.Choose("w.timeform", 3)
		cs.W.Plain = c.Choose("w.plain", 3)
		cs.W.NFD = c.Bool("w.nfd")
		if p.wopts == 2 {
			cs.W.NoItemStyle = c.Bool("w.noitemstyle")
		} else {
			// 0 justification + position, 1 no item style, 2 justification only, 3 position only
			switch c.Choose("w.noitemstyle", 4) {
			case 1:
				cs.W.NoItemStyle = true
			case 2:
				cs.W.Partial = 1
			case 3:
				cs.W.Partial = 2
			}
		}
	case 3:
		cs.W.Meta = c.Choose("w.meta", 2)
		switch c.Choose("w.noitemstyle", 4) {
		case 1:
			cs.W.NoItemStyle = true
		case 2:
			cs.W.Partial = 1
		case 3:
			cs.W.Partial = 2
		}
	}
	return cs
}

func coreProfile() profile {
	return profile{fps: []int{25, 30}, dsc: []string{"1", "0", "2"}, tcp: []int{0, 1}, ignore: true, ncues: []int{1}, user: true,
		ins: []int{0}, outs: []int{0}, nrows: []int{1, 2}, nruns: []int{1, 2}, styles: []stl.Style{{}, {I: true}, {I: true, U: true, B: true}},
		texts: []string{"x"}, render: 1}
}

func blocksProfile() profile {
	return profile{fps: []int{25, 30}, dsc: []string{"1", "0"}, tcp: []int{0, 1}, ignore: true, ncues: []int{1, 0, 2, 3}, user: true,
		ins: []int{0, 8}, outs: []int{0}, nrows: []int{1}, nruns: []int{1}, styles: []stl.Style{{}}, texts: []string{"x"}}
}

func writeProfile() profile {
	return profile{fps: []int{25, 30}, dsc: []string{"1", "0", "2"}, tcp: []int{0, 1}, ncues: []int{1}, ins: []int{0, 8}, outs: []int{0},
		nrows: []int{1}, nruns: []int{1, 2}, styles: []stl.Style{{}, {I: true}}, texts: []string{"x"}, wopts: 2}
}

func fullProfile(thorough bool) profile {
	p := profile{fps: []int{25, 30}, dsc: []string{"1", "0", "2"}, tcp: []int{0, 1, 2, 3, 4, 5, 6, 7}, ignore: true, gsi: gsiAll, ncues: []int{1, 0, 2, 3}, user: true,
		ins: []int{0, 1, 2, 3, 4, 5, 6, 7, 8, 9}, outs: []int{0, 1, 2, 3}, layout: true, hdr: true, nrows: []int{1, 2, 3}, nruns: []int{1, 2, 3},
		styles: allStyles, texts: allTexts, render: 2, wopts: 1}
	_ = thorough
	return p
}

// one plain cue; the small full products below vary one group of neighbouring fields each
func plainProfile() profile {
	return profile{fps: []int{25}, dsc: []string{"1"}, tcp: []int{0}, ncues: []int{1}, ins: []int{0}, outs: []int{0},
		nrows: []int{1}, nruns: []int{1}, styles: []stl.Style{{}}, texts: []string{"x"}}
}

type namedProfile struct {
	sub   string
	p     profile
	write bool
}

// valueProducts: full products over the value tables of fields that lie next to each other in the GSI / TTI block
// (a slip in an offset, a width, a radix or a trim shows on a field or on its neighbour).
func valueProducts() []namedProfile {
	var o []namedProfile
	add := func(sub string, write bool, f func(p *profile)) {
		p := plainProfile()
		f(&p)
		o = append(o, namedProfile{sub, p, write})
	}
	// CPN x DFC x DSC (incl. the undefined blank) x LC
	add("gsi-id", true, func(p *profile) { p.fps, p.dsc, p.gsi = []int{25, 30}, []string{"1", "0", "2", " "}, gsiID })
	for _, grp := range []struct {
		sub string
		g   int
	}{{"gsi-titles", gsiTitles}, {"gsi-names", gsiNames}, {"gsi-refs", gsiRefs}, {"gsi-dates", gsiDates}} {
		grp := grp
		add(grp.sub, true, func(p *profile) { p.gsi = grp.g })
	}
	// TNB/TNS (0, 1, 2 cues) x TNG x MNC x MNR x TCS x display standard
	add("gsi-nums", true, func(p *profile) { p.dsc, p.ncues, p.gsi = []string{"1", "0"}, []int{1, 0, 2}, gsiNums })
	// every TCP x ignore x frame rate x TCI at/after the programme start (TCF = first TCI) x TND x DSN x CO
	add("gsi-tc", true, func(p *profile) {
		p.fps, p.dsc, p.tcp, p.ignore, p.ins, p.gsi = []int{25, 30}, []string{"0", "1"}, []int{0, 1, 2, 3, 4, 5, 6, 7}, true, []int{0, 1, 3}, gsiTC
	})
	add("gsi-tail", true, func(p *profile) { p.gsi = gsiTail })
	// TTI header bytes: SGN x SN base x EBN x CS x CF x user-data block before/after
	add("tti-hdr", true, func(p *profile) { p.dsc, p.hdr, p.user = []string{"1", "0"}, true, true })
	// where rows begin and end in the text field (read direction only: the writer has no such freedom)
	add("rows-open", false, func(p *profile) {
		p.dsc, p.render, p.nrows, p.nruns, p.styles = []string{"0"}, 3, []int{1, 2, 3}, []int{1, 2}, []stl.Style{{}, {I: true}}
	})
	add("rows-teletext", false, func(p *profile) {
		p.dsc, p.render, p.nrows, p.nruns, p.styles = []string{"1"}, 4, []int{1, 2}, []int{1, 2}, []stl.Style{{}, {I: true}}
	})
	// cue attributes given / not given to the writer x position x justification x display standard
	add("w-item", true, func(p *profile) { p.dsc, p.layout, p.wopts = []string{"1", "0", "2"}, true, 3 })
	return o
}

// ---------------------------------------------------------------------------------------------
// runner
// ---------------------------------------------------------------------------------------------

func baseCase(fps int, dsc string) Case {
	var cs Case
	x := explore.Run(nil, func(c *explore.C) {
		cs = gen(c, profile{fps: []int{fps}, dsc: []string{dsc}, tcp: []int{0}, ncues: []int{1}, ins: []int{0}, outs: []int{0},
			nrows: []int{1}, nruns: []int{1}, styles: []stl.Style{{}}, texts: []string{"x"}})
	})
	_ = x
	return cs
}

type runner struct {
	c *core.Ctx
}

func (r *runner) exec(sub string, cs Case, dev int, read, write bool, sample func() interface{}) {
	c := r.c
	if !inDomain(cs) {
		c.Extra["skipped_adjacent_runs_with_equal_attributes"]++
		return
	}
	if read {
		if _, err := stl.Encode(cs.Doc, cs.Render); err != nil {
			c.Extra["skipped_text_field_over_112_bytes"]++
			read = false
		}
	}
	id := ""
	if read || write {
		b, _ := json.Marshal(cs)
		id = string(b)
	}
	if read {
		cs.Dir = "read"
		fs, out := CheckRead(cs)
		nt := uint64(0)
		if dev != 0 {
			nt = core.Hash64("r", id)
		}
		c.Extra["evals."+sub+".read"]++
		c.Record(sub+".read", out, nt, sample)
		for _, f := range fs {
			c.Violate("read", f.Key, f.Msg, cs, dev*1000+len(id))
		}
	}
	if write {
		variants := []bool{false}
		if cs.Doc.GSI.DSC != "0" || cs.W.Meta != 0 {
			variants = append(variants, true)
		}
		if cs.Doc.GSI.DSC == " " {
			// a model asking for the undefined display standard is outside the property: only as display standard "0"
			variants = []bool{true}
		}
		for _, force := range variants {
			w := cs
			w.Dir = "write"
			w.W.ForceDSC0 = force
			if force {
				w.W.Meta = 0
			}
			if !writable(w) {
				c.Extra["skipped_write_over_112_bytes"]++
				continue
			}
			fs, out := CheckWrite(w)
			c.Extra["evals."+sub+".write"]++
			c.Record(sub+".write", out, core.Hash64("w", id, fmt.Sprint(force)), nil)
			for _, f := range fs {
				c.Violate("write", f.Key, f.Msg, w, dev*1000+len(id))
			}
		}
	}
}

// inDomain: runs are the segments between attribute codes, so two neighbouring runs of a row differ in their
// attributes (two equal neighbours would be one run; the writer separates any two runs by a blank, the reader
// trims every run - neither is pinned by the property, see Assumptions).
func inDomain(cs Case) bool {
	for _, c := range cs.Doc.Cues() {
		for _, row := range c.Rows {
			for j := 1; j < len(row); j++ {
				if row[j].Style == row[j-1].Style {
					return false
				}
			}
		}
	}
	return true
}

// writable: the writer's layout of the model (on/off pair around every styled run, a blank between runs, one
// byte per character and per diacritic) fits the 112-byte text field.
func writable(cs Case) bool {
	for _, c := range cs.Doc.Cues() {
		if c.Raw != nil {
			return false
		}
		n := 0
		for i, row := range c.Rows {
			if i > 0 {
				n++
			}
			for j, r := range row {
				if j > 0 {
					n++
				}
				n += len([]rune(r.Text))
				for _, on := range []bool{r.I, r.U, r.B} {
					if on {
						n += 2
					}
				}
			}
		}
		if n > 112 {
			return false
		}
	}
	return true
}

func run(c *core.Ctx) {
	log.SetOutput(io.Discard)
	fixed := time.Date(2020, 1, 10, 0, 0, 0, 0, time.UTC)
	astisub.Now = func() time.Time { return fixed }
	metaDropRun(c)
	metaUTFRun(c)
	r := &runner{c: c}
	thorough := c.Tier == core.Thorough
	stop := false
	tick := func() bool {
		if c.Evals%2048 == 0 && c.Expired() {
			stop = true
		}
		return !stop
	}

	// (1) E1 explorations
	var cs Case
	readOnly := false
	visit := func(sub string) func(x *explore.C) bool {
		return func(x *explore.C) bool {
			if !c.Mine() {
				return true
			}
			cs := cs
			dev := explore.Deviations(x.Trace)
			r.exec(sub, cs, dev, true, !readOnly, func() interface{} {
				b, _ := stl.Encode(cs.Doc, cs.Render)
				return map[string]interface{}{"choices": x.Trace, "file": describe(b)}
			})
			return tick()
		}
	}
	cp, bp2, wp := coreProfile(), blocksProfile(), writeProfile()
	explore.Explore(-1, func(x *explore.C) { cs = gen(x, cp) }, visit("core"))
	explore.Explore(-1, func(x *explore.C) { cs = gen(x, bp2) }, visit("blocks"))
	explore.Explore(-1, func(x *explore.C) { cs = gen(x, wp) }, visit("wprod"))
	for _, np := range valueProducts() {
		np := np
		v := visit(np.sub)
		explore.Explore(-1, func(x *explore.C) { cs = gen(x, np.p) }, func(x *explore.C) bool {
			if !np.write {
				readOnly = true
				defer func() { readOnly = false }()
			}
			return v(x)
		})
	}
	bound := 2
	if thorough {
		bound = 3
	}
	full := fullProfile(thorough)
	explore.Explore(bound, func(x *explore.C) { cs = gen(x, full) }, visit("ball"))
	c.ExtraMax["deviation_bound"] = float64(bound)

	// (2) every timecode: TCI sweeps with TCO = TCI, packed three cues per file
	hs, ms, ss := []int{0, 1, 23}, []int{0, 59}, []int{0, 59}
	if thorough {
		hs, ms, ss = seq(24), seq(60), seq(60)
	} else {
		ms = []int{0, 1, 30, 59}
		ss = seq(60)
	}
	for _, fps := range []int{25, 30} {
		for _, variant := range []struct {
			dsc    string
			tcp    stl.TC
			ignore bool
		}{{"0", stl.TC{}, false}, {"1", stl.TC{H: 10}, true}} {
			var pend []stl.TC
			flush := func() {
				if len(pend) == 0 || stop {
					pend = nil
					return
				}
				if c.Mine() {
					cs := baseCase(fps, variant.dsc)
					cs.Doc.GSI.TCP, cs.Ignore = variant.tcp, variant.ignore
					proto := cs.Doc.Blocks[0]
					cs.Doc.Blocks = nil
					for i, tc := range pend {
						b := proto
						b.SN = i + 1
						b.In, b.Out = tc, tc
						cs.Doc.Blocks = append(cs.Doc.Blocks, b)
					}
					r.exec("timecodes", cs, 1, true, variant.tcp == stl.TC{}, nil)
					tick()
				}
				pend = nil
			}
			for _, h := range hs {
				for _, m := range ms {
					for _, s := range ss {
						for f := 0; f < fps; f++ {
							pend = append(pend, stl.TC{H: h, M: m, S: s, F: f})
							if len(pend) == 3 {
								flush()
							}
						}
					}
				}
			}
			flush()
		}
	}
	// many cues: block counts around every byte boundary of the 2-byte subtitle number and the 5-digit GSI totals
	manyN := []int{255, 256, 257, 300, 511, 513}
	if thorough {
		manyN = append(manyN, 1000, 9999, 10001, 65535) // 65536 cues cannot be numbered in a 2-byte field: outside the format
	}
	for _, fps := range []int{25, 30} {
		for _, dsc := range []string{"0", "1"} {
			for _, n := range manyN {
				if stop || !c.Mine() {
					continue
				}
				cs := baseCase(fps, dsc)
				proto := cs.Doc.Blocks[0]
				cs.Doc.Blocks = nil
				for i := 0; i < n; i++ {
					b := proto
					b.SN = i
					b.In, b.Out = tcFromFrames(int64(2*i), fps), tcFromFrames(int64(2*i+1), fps)
					cs.Doc.Blocks = append(cs.Doc.Blocks, b)
				}
				r.exec("many", cs, 1, true, true, nil)
				tick()
			}
		}
	}
	// TCP subtraction over every frame offset: TCP and TCI both sweep the frames of one second
	for _, fps := range []int{25, 30} {
		for pf := 0; pf < fps && !stop; pf++ {
			for f := 0; f < fps; f++ {
				for _, ignore := range []bool{false, true} {
					if !c.Mine() {
						continue
					}
					cs := baseCase(fps, "0")
					cs.Doc.GSI.TCP = stl.TC{H: 10, F: pf}
					cs.Ignore = ignore
					cs.Doc.Blocks[0].In = stl.TC{H: 10, S: 1, F: f}
					cs.Doc.Blocks[0].Out = stl.TC{H: 10, S: 2, F: f}
					r.exec("tcp-frames", cs, 2, true, !ignore, nil)
					tick()
				}
			}
		}
	}

	// (2b) digit boundaries of every timecode component, in the textual GSI timecodes (TCP, and TCF = first TCI) and
	// in the TTI block: TCP = TCI = h:m:s:f over {0,9,10,max}^4, both ignore settings, both directions
	for _, fps := range []int{25, 30} {
		maxF := stl.TC{H: 23, M: 59, S: 59, F: fps - 1}.Frames(fps)
		for _, h := range []int{0, 9, 10, 23} {
			for _, m := range []int{0, 9, 10, 59} {
				for _, sec := range []int{0, 9, 10, 59} {
					for _, f := range []int{0, 9, 10, fps - 1} {
						for _, ignore := range []bool{false, true} {
							if stop || !c.Mine() {
								continue
							}
							cs := baseCase(fps, "0")
							tc := stl.TC{H: h, M: m, S: sec, F: f}
							out := tc.Frames(fps) + int64(fps)
							if out > maxF {
								out = maxF
							}
							cs.Doc.GSI.TCP, cs.Ignore = tc, ignore
							cs.Doc.Blocks[0].In, cs.Doc.Blocks[0].Out = tc, tcFromFrames(out, fps)
							r.exec("tc-digits", cs, 2, true, !ignore, nil)
							tick()
						}
					}
				}
			}
		}
	}

	// (3) text: every code of the Latin table, every diacritic x base character
	bases := []rune{}
	for ch := 'A'; ch <= 'Z'; ch++ {
		bases = append(bases, ch)
	}
	for ch := 'a'; ch <= 'z'; ch++ {
		bases = append(bases, ch)
	}
	for ch := '0'; ch <= '9'; ch++ {
		bases = append(bases, ch)
	}
	bases = append(bases, ' ')
	var texts []string
	for _, code := range stl.Codes() {
		texts = append(texts, "x"+string(stl.RuneOf(code))+"y")
	}
	nSingle := len(texts)
	for _, d := range stl.DiacriticCodes() {
		for _, b := range bases {
			texts = append(texts, "x"+string(b)+string(stl.MarkOf(d))+"y")
		}
	}
	c.ExtraMax["latin_codes"] = float64(nSingle)
	c.ExtraMax["diacritic_pairs"] = float64(len(texts) - nSingle)
	for ti, tx := range texts {
		for _, dsc := range []string{"0", "1", "2"} {
			for _, nfd := range []bool{false, true} {
				if stop {
					break
				}
				if !c.Mine() {
					continue
				}
				cs := baseCase(25, dsc)
				cs.Doc.Blocks[0].Rows = []stl.Row{{{Text: tx}}}
				cs.W.NFD = nfd
				sub := "latin-code"
				if ti >= nSingle {
					sub = "diacritic-pair"
				}
				// the read direction does not depend on nfd: run it once
				r.exec(sub, cs, 1, !nfd, true, nil)
				tick()
			}
		}
	}
	// two accented letters in a row, in two rows, in two cues (pending diacritic never leaks)
	for _, d1 := range stl.DiacriticCodes() {
		for _, d2 := range stl.DiacriticCodes() {
			for _, dsc := range []string{"0", "1"} {
				if stop {
					break
				}
				if !c.Mine() {
					continue
				}
				cs := baseCase(25, dsc)
				a, b := "e"+string(stl.MarkOf(d1)), "o"+string(stl.MarkOf(d2))
				cs.Doc.Blocks[0].Rows = []stl.Row{{{Text: a + b}}, {{Text: b + "n"}, {Text: a, Style: stl.Style{I: true}}}}
				blk := cs.Doc.Blocks[0]
				blk.SN = 2
				blk.Rows = []stl.Row{{{Text: "n" + a + "n"}}}
				cs.Doc.Blocks = append(cs.Doc.Blocks, blk)
				r.exec("diacritic-sequence", cs, 2, true, true, nil)
				tick()
			}
		}
	}

	// (4) style-code strings: every string of length <= 3 over {80h..85h} before "ab", every string of
	// length <= mid between "ab" and "cd" (with and without a blank), raw text fields; the expected runs are
	// what the independent decoder reads
	mid := 2
	if thorough {
		mid = 3
	}
	seqs := codeStrings(3)
	mids := codeStrings(mid)
	for _, pre := range seqs {
		for _, m := range mids {
			for _, form := range []int{0, 1, 2} { // 0 open; 1 open with a blank before the middle codes; 2 teletext boxed
				if stop {
					break
				}
				if !c.Mine() {
					continue
				}
				dsc := "0"
				if form == 2 {
					dsc = "1"
				}
				cs := baseCase(25, dsc)
				end := endState(append(append([]byte{}, pre...), m...))
				var row1 []byte
				if form == 2 {
					row1 = append(row1, 0x0B, 0x0B)
				}
				row1 = append(row1, pre...)
				row1 = append(row1, 'a', 'b')
				if form == 1 {
					row1 = append(row1, ' ')
				}
				row1 = append(row1, m...)
				row1 = append(row1, 'c', 'd')
				// the row ends with every attribute off (whether attributes survive a line break is not pinned)
				if end.I {
					row1 = append(row1, 0x81)
				}
				if end.U {
					row1 = append(row1, 0x83)
				}
				if end.B {
					row1 = append(row1, 0x85)
				}
				if form == 2 {
					row1 = append(row1, 0x0A, 0x0A)
				}
				var n stl.Notes
				row := stl.DecodeRow(row1, form == 2, &n)
				raw := append(append([]byte{}, row1...), 0x8A)
				if form == 2 {
					raw = append(raw, 0x0B, 0x0B, 'e', 'f', 0x0A, 0x0A)
				} else {
					raw = append(raw, 'e', 'f')
				}
				cs.Doc.Blocks[0].Raw = raw
				cs.Doc.Blocks[0].Rows = []stl.Row{row, {{Text: "ef"}}}
				r.exec("style-codes", cs, 1+len(pre)+len(m), true, false, nil)
				tick()
			}
		}
	}

	// (4b) every vertical position valid for the display standard x every justification code, both directions
	for _, dsc := range []string{"0", "1", "2"} {
		lo, hi := 0, 99
		if isTeletext(dsc) {
			lo, hi = 1, 23
		}
		for vp := lo; vp <= hi; vp++ {
			for jc := 0; jc <= 3 && !stop; jc++ {
				for cf := 0; cf <= 1; cf++ { // the comment flag is the byte after the justification code
					if !c.Mine() {
						continue
					}
					cs := baseCase(25, dsc)
					cs.Doc.Blocks[0].VP, cs.Doc.Blocks[0].JC, cs.Doc.Blocks[0].CF = vp, jc, cf
					r.exec("vp-jc", cs, 2+cf, true, true, nil)
					tick()
				}
			}
		}
	}

	// (4c) text fields that are exactly full: rows of 96..112 text bytes in total (what does not fit is skipped and
	// counted), so that the field ends with 2, 1, 0 filler bytes; last byte a letter, an accented letter (diacritic
	// code at byte 111), an attribute-off code, an end-box code, a line break
	maxField := 0
	for _, dsc := range []string{"0", "1", "2"} {
		for _, fps := range []int{25, 30} {
			for n := 96; n <= 112; n++ {
				for shape := 0; shape < 5 && !stop; shape++ {
					for _, tb := range []bool{false, true} {
						if !c.Mine() {
							continue
						}
						cs := baseCase(fps, dsc)
						line := strings.Repeat("abcdefghijklmnopqrstuvwxyz ABCDEFGHIJKLMNOPQRSTUVWXYZ 0123456789 ", 2)
						var rows []stl.Row
						switch shape {
						case 0: // one row
							rows = []stl.Row{{{Text: line[:n-1] + "z"}}}
						case 1: // one row ending with an accented letter (n bytes: n-2 letters, diacritic, letter)
							rows = []stl.Row{{{Text: line[:n-3] + "ze\u0301"}}}
						case 2: // three rows (two line breaks)
							rows = []stl.Row{{{Text: line[:36] + "1"}}, {{Text: line[:36] + "2"}}, {{Text: line[:n-77] + "3"}}}
						case 3: // last run italic: the field ends with the off code (or with the text under NoFinalOff)
							rows = []stl.Row{{{Text: line[:40] + "1"}}, {{Text: line[:n-46] + "2", Style: stl.Style{I: true}}}}
						case 4:
							rows = []stl.Row{{{Text: line[:40] + "1"}}, {{Text: line[:n-46] + "2", Style: stl.Style{I: true}}}}
							cs.Render.NoFinalOff = true
						}
						cs.Render.TrailingBreak = tb
						cs.Doc.Blocks[0].Rows = rows
						if b, err := stl.EncodeTextField(rows, isTeletext(dsc), cs.Render); err == nil && len(b) > maxField {
							maxField = len(b)
						}
						r.exec("full-field", cs, 2, true, true, nil)
						tick()
					}
				}
			}
		}
	}
	if maxField > 0 {
		c.ExtraMax["longest_text_field_bytes"] = float64(maxField)
	}

	// (4d) teletext rows: every spacing control code 01h..1Fh that is not a box code x its place (after the start
	// box, before it, after the text, between two runs) x box form x alpha colour present x plain / italic text
	for _, dsc := range []string{"1", "2"} {
		for code := 0x01; code <= 0x1F; code++ {
			if code == 0x0A || code == 0x0B {
				continue
			}
			for pos := 0; pos < 4; pos++ {
				for _, box := range []int{0, 1, 6} {
					for _, colour := range []int{0, 3} {
						for _, st := range []stl.Style{{}, {I: true}} {
							if stop || !c.Mine() {
								continue
							}
							cs := baseCase(25, dsc)
							cs.Doc.Blocks[0].Rows = []stl.Row{{{Text: "ab", Style: st}, {Text: "ef", Style: stl.Style{U: true}}}, {{Text: "cd"}}}
							cs.Render.Ctl, cs.Render.CtlPos, cs.Render.Box, cs.Render.Colour = code, pos, box, colour
							r.exec("teletext-ctl", cs, 3, true, false, nil)
							tick()
						}
					}
				}
			}
		}
	}

	// (4e) two blocks of one subtitle number: every pair of extension block numbers {FF, 00, 01, EF} x comment
	// flags (one cue per non-user-data block, whatever its EBN and comment flag)
	for _, dsc := range []string{"0", "1"} {
		for _, e1 := range []int{0xFF, 0x00, 0x01, 0xEF, 0xFE} {
			for _, e2 := range []int{0xFF, 0x00, 0x01, 0xEF, 0xFE} {
				for cf := 0; cf < 8; cf++ {
					if stop || !c.Mine() {
						continue
					}
					cs := baseCase(25, dsc)
					b1 := cs.Doc.Blocks[0]
					b2 := b1
					b2.Rows = []stl.Row{{{Text: "y"}}}
					b2.In, b2.Out = b1.Out, stl.TC{S: 3}
					if cf >= 4 {
						// the second block on screen at the same time as the first, elsewhere on it: each block is a cue
						// with its own timecodes, position and justification
						b2.In, b2.Out = b1.In, b1.Out
						b2.VP, b2.JC = b1.VP-3, (b1.JC+1)%4
					}
					for i, e := range []int{e1, e2} {
						b := []*stl.Block{&b1, &b2}[i]
						switch e {
						case 0xFF:
						case 0xFE:
							*b = stl.Block{UserData: true, SN: b.SN}
						default:
							b.HasEBN, b.EBN = true, e
						}
					}
					if !b1.UserData {
						b1.CF = cf & 1
					}
					if !b2.UserData {
						b2.CF = cf >> 1 & 1
					}
					cs.Doc.Blocks = []stl.Block{b1, b2}
					r.exec("ebn-pairs", cs, 2, true, false, nil)
					tick()
				}
			}
		}
	}

	// (5) write direction: every millisecond of a second at both frame rates (cue instants as the other
	// formats deliver them)
	for _, fps := range []int{25, 30} {
		for ms := 0; ms < 1000 && !stop; ms++ {
			if !c.Mine() {
				continue
			}
			cs := baseCase(fps, "0")
			t := (int64(3723)*1000 + int64(ms)) * 1e6
			cs.W.Times = []int64{t, t + 1e9 + int64(ms)*1e6}
			r.exec("write-ms", cs, 1, false, true, nil)
			tick()
		}
	}
}

func seq(n int) []int {
	o := make([]int, n)
	for i := range o {
		o[i] = i
	}
	return o
}

func codeStrings(maxLen int) [][]byte {
	out := [][]byte{{}}
	prev := [][]byte{{}}
	for l := 1; l <= maxLen; l++ {
		var next [][]byte
		for _, p := range prev {
			for code := byte(0x80); code <= 0x85; code++ {
				next = append(next, append(append([]byte{}, p...), code))
			}
		}
		out = append(out, next...)
		prev = next
	}
	return out
}

func endState(codes []byte) stl.Style {
	var st stl.Style
	for _, c := range codes {
		switch c {
		case 0x80:
			st.I = true
		case 0x81:
			st.I = false
		case 0x82:
			st.U = true
		case 0x83:
			st.U = false
		case 0x84:
			st.B = true
		case 0x85:
			st.B = false
		}
	}
	return st
}

func replay(sub string, raw json.RawMessage) (string, bool) {
	log.SetOutput(io.Discard)
	if sub == "metautf" {
		return metaUTFReplay(raw)
	}
	if sub == "metadrop" {
		return metaDropReplay(raw)
	}
	var cs Case
	if err := json.Unmarshal(raw, &cs); err != nil {
		return err.Error(), false
	}
	var fs []Finding
	if cs.Dir == "write" {
		fs, _ = CheckWrite(cs)
	} else {
		fs, _ = CheckRead(cs)
	}
	var msgs []string
	for _, f := range fs {
		msgs = append(msgs, "["+f.Key+"] "+f.Msg)
	}
	return strings.Join(msgs, "\n"), len(fs) > 0
}

func init() {
	core.Register(&core.Prop{
		ID: "C05", Level: "exploration",
		Rule: "a case = (ground-truth EBU STL model: GSI field values, DFC 25/30, DSC 0/1/2, TCP, TTI blocks incl. user-data blocks, timecodes, VP, JC, rows of styled runs over the Latin table; rendering choices: box form (double/single/open box codes), colour and other spacing control codes and their place, style-code form, blanks at row edges, leading/empty/trailing rows, attributes left on at the end of the field; option ignore-TCP; write options: metadata kind, instant rounding, attribute form, NFC/NFD, cue attributes given/partly given/absent). Every field ranges over a boundary-complete value table: CPN {437,850,860,863,865}; DSC {0,1,2,blank}; LC {the 5 named codes, 0A, 00, 7F, blank}; the ten free-text fields {typical, empty, exactly full, one character, one short of full, inner double blank + punctuation}; CD/RD {8 dates: century digits, 29 Feb, 68/69/70}; RN {0,1,9,10,99}; TNG {1,2,9,10,255}; MNC {0,1,9,10,38,40,99}; MNR {0,1,9,10,11,23,24,99}; TCS {0,1}; TCP {0, 1 frame, 1 s, 1 min, 1 h, 09:59:59:last, 10 h, 23:59:59:last}; TND/DSN {1,9}; CO {FRA,NOR,CHN,US,blank}; spare bytes {blank, filled}; UDA {empty, short, all 576 bytes used with every byte value}; SGN {0,1,255}; SN base {0,1}; EBN {FF,00,01,EF,FE}; CS 0..3; comment flag {0,1}. Enumerated by the E1 explorer (three full products of small grammars + twelve full products over the value tables of neighbouring GSI / TTI fields, row layouts and cue-attribute forms + every case within B deviations of the baseline over all choice points and all value tables) and by plain nested loops: {0,9,10,max}^4 timecodes as TCP = TCI (digit boundaries of the textual GSI timecodes), text fields of 96..112 bytes (exactly full, last byte letter / accented letter / off code / end box / line break), every teletext control code 01h..1Fh x 4 places x box form, every pair of EBN x comment flag on two blocks of one subtitle number, every timecode of the stated h,m,s sets x ALL frame numbers, TCP x TCI over all frame pairs, every assigned code of the Latin table, every diacritic x base character, diacritic pairs across rows/cues, every string of style codes (<=3 before, <=2|3 inside the text), every millisecond of a second on the write side. Read: ReadFromSTL(ref.Encode(model)) must denote the model (metadata fields, one cue per non-user-data block, instants exact to <1 ns, VP, JC, rows of styled characters up to canonical equivalence), then WriteToSTL of the result must keep every TCI/TCO and re-read to the same instants. Write: WriteToSTL(model) must be 1024+128n bytes and denote the model's cues (instant within one frame) and metadata to ref.Decode and to ReadFromSTL, with GSI totals = number of blocks and TCF = first TCI; read-write again keeps every timecode. non-trivial = non-baseline case, distinct by its serialised form",
		Scope: map[core.Tier]string{
			core.Quick:    "core product (fps x DSC x TCP x ignore x user-data placement x <=2 rows x <=2 runs x 3 styles x box/style-code forms), block-pattern product (<=3 cues, user-data blocks before each and after), write-option product, value products gsi-id (CPN x DFC x DSC x LC), gsi-titles/-names/-refs (three neighbouring text fields x 6 values each), gsi-dates (SLR x CD x RD x RN), gsi-nums (0/1/2 cues x TNG x MNC x MNR x TCS x DSC), gsi-tc (8 TCP x ignore x fps x DSC x 3 TCI x TND x DSN x CO), gsi-tail (PUB x EN x ECD x spare x UDA), tti-hdr (SGN x SN base x EBN x CS x CF x user-data placement x DSC), rows-open / rows-teletext (<=3 rows x <=2 runs x leading/empty/trailing row x indent x trailing blanks x filler x attributes left on x box form), w-item (cue attributes x VP x JC x DSC x metadata kind); deviation ball B=2 over ~200 choice points (<=3 cues, <=3 rows, <=3 runs, 8 styles, 19 text atoms, all value tables); {0,9,10,max}^4 timecodes as TCP=TCI x ignore; text fields of 96..112 bytes; control codes 01h..1Fh x 4 places x 3 box forms; EBN pairs x comment flags; files of 255/256/257/300/511/513 cues (subtitle-number byte boundary, GSI totals); timecodes {0,1,23}h x {0,1,30,59}m x 0..59 s x all frames at 25 and 30 fps; 13 diacritics x 63 bases; style-code strings <=3 / <=2; every valid VP x JC; every ms of a second (write); 10 metadata text fields x 10 values outside ASCII (layout: 1024 + 128 per block, other fields and cues unchanged)",
			core.Thorough: "as quick with deviation ball B=3, files of 1000/9999/10001/65535 cues, every timecode of the day (24 x 60 x 60 x all frames, both rates), style-code strings <=3 / <=3",
		},
		Assumptions: []string{"Go toolchain and standard library; golang.org/x/text/unicode/norm for canonical equivalence of the compared text",
			"independent reference codec engine/ref/stl (Latin table as in EBU Tech 3264 Appendix 2 / ISO 6937-2: 24h = currency sign, A4h = dollar; A6h/A8h accepted by the decoder as number/currency sign, never generated)",
			"blanks next to a control code, and the segmentation into runs of equal attributes, are outside the denotation (teletext control codes are spacing; the reader trims each run, the writer separates runs with a blank)",
			"attributes are switched off before every line break by the encoder: whether they survive a line break is not pinned",
			"GSI text fields are ASCII without leading blanks (the library copies GSI bytes verbatim, it has no notion of the GSI code page: non-ASCII GSI text is left out); a language code the library has no name for denotes no language (read) and is the writer's choice (write); lower-case hex language codes, blank dates and TCI before TCP are left out as not well-formed",
			"one cue per non-user-data TTI block as the property states: blocks with EBN 00h..EFh and comment blocks are cues, each with a text field that is complete in itself",
			"display standard blank (undefined): everything but the text is compared on reading; such a model is only written as display standard 0",
			"two-digit years are compared as two digits (the century pivot is not pinned by the format)",
			"teletext control codes other than box codes sit at row edges or between two runs, never inside a word, and never between a diacritic and its letter; unassigned codes of the Latin table, a diacritic without a following letter and two diacritics in a row are left out as not well-formed"},
		Plain: run, Replay: replay, MinOutcomes: 10,
	})
}
