package c05

import (
	"encoding/json"
	"fmt"
	"strings"

	"verif/core"
	"verif/ref/stl"
)

// Metadata text outside ASCII: what bytes a GSI text field then holds is not decided by the sentence (the field is
// in the code page CPN names), but the layout is - the header stays 1024 bytes, every TTI block 128, and nothing
// but that one field changes: all other fields and every cue read as they do with an ASCII value in that field.

type MetaUTFCase struct {
	Field string `json:"field"`
	Value string `json:"value"`
}

var utfFields = []string{"opt", "oet", "tpt", "tet", "tn", "tcd", "slr", "pub", "en", "ecd"}

func utfValues() []string {
	return []string{"é", "Les Misérables", strings.Repeat("a", 31) + "é", strings.Repeat("a", 15) + "é", strings.Repeat("é", 16), strings.Repeat("é", 32),
		strings.Repeat("€", 11), "日本語", strings.Repeat("\U0001F600", 8), "á"}
}

func writeWithField(field, value string) (rd stl.Doc, size, cues int, key, msg string) {
	cs := baseCase(25, "0")
	g := &cs.Doc.GSI
	g.CO, g.OPT, g.OET, g.TPT, g.TET, g.TN, g.TCD, g.SLR, g.PUB, g.EN, g.ECD = "GBR", "Title", "Episode", "Titre", "Episode un", "T. Translator", "t@example.org", "REF 1", "Publisher", "E. Editor", "+44 1"
	s := ToSubs(cs)
	m := s.Metadata
	switch field {
	case "opt":
		m.Title = value
	case "oet":
		m.STLOriginalEpisodeTitle = value
	case "tpt":
		m.STLTranslatedProgramTitle = value
	case "tet":
		m.STLTranslatedEpisodeTitle = value
	case "tn":
		m.STLTranslatorName = value
	case "tcd":
		m.STLTranslatorContactDetails = value
	case "slr":
		m.STLSubtitleListReferenceCode = value
	case "pub":
		m.STLPublisher = value
	case "en":
		m.STLEditorName = value
	case "ecd":
		m.STLEditorContactDetails = value
	}
	b, err, pan := safeWrite(s)
	desc := fmt.Sprintf("metadata field %s = %q", field, value)
	if pan != "" {
		return rd, 0, 0, "stl.write.panic", desc + ": WriteToSTL panicked: " + pan
	}
	if err != nil {
		return rd, 0, 0, "stl.write.error", fmt.Sprintf("%s: WriteToSTL failed: %v", desc, err)
	}
	if len(b) != 1024+128*len(s.Items) {
		return rd, len(b), len(s.Items), "stl.write.size", fmt.Sprintf("%s: %d cues written as %d bytes, a file is 1024 + 128 per block = %d", desc, len(s.Items), len(b), 1024+128*len(s.Items))
	}
	d, _, derr := stl.Decode(b)
	if derr != nil {
		return rd, len(b), len(s.Items), "stl.write.ref-decode", fmt.Sprintf("%s: independent decoder rejects the output: %v", desc, derr)
	}
	return d, len(b), len(s.Items), "", ""
}

func checkMetaUTF(mc MetaUTFCase) (key, msg string, out uint64) {
	base, _, _, k, m := writeWithField(mc.Field, "x")
	if k != "" {
		return k, m, 0
	}
	rd, _, _, k, m := writeWithField(mc.Field, mc.Value)
	if k == "stl.write.error" {
		// a writer may refuse a value its code page cannot express: an error is a layout no reader will misread
		return "", "", core.Hash64("refused")
	}
	if k != "" {
		return k, m, 0
	}
	want, got := gsiMeta(base.GSI), gsiMeta(rd.GSI)
	for _, f := range metaFields {
		if f != mc.Field && want[f] != got[f] {
			return "stl.write.meta-utf." + f, fmt.Sprintf("metadata field %s = %q: field %s is written as %q instead of %q", mc.Field, mc.Value, f, got[f], want[f]), 0
		}
	}
	if fmt.Sprint(base.Cues()) != fmt.Sprint(rd.Cues()) {
		return "stl.write.meta-utf.cues", fmt.Sprintf("metadata field %s = %q: the cues are written differently: %v instead of %v", mc.Field, mc.Value, rd.Cues(), base.Cues()), 0
	}
	return "", "", core.Hash64(got[mc.Field])
}

func metaUTFRun(c *core.Ctx) {
	for _, f := range utfFields {
		for _, v := range utfValues() {
			if !c.Mine() {
				continue
			}
			mc := MetaUTFCase{f, v}
			key, msg, out := checkMetaUTF(mc)
			c.Record("meta-utf", out, core.Hash64("meta-utf", f, v), func() interface{} { return mc })
			if key != "" {
				c.Violate("metautf", key, msg, mc, 1)
			}
		}
	}
}

func metaUTFReplay(raw json.RawMessage) (string, bool) {
	var mc MetaUTFCase
	json.Unmarshal(raw, &mc)
	k, m, _ := checkMetaUTF(mc)
	return m, k != ""
}
