package c01

import (
	"testing"

	"verif/explore"
	"verif/ref/srt"
)

// TestHarnessSelfConsistency: the renderer and the independent decoder of engine/ref/srt agree on every case of
// the quick tier (neither involves the library): Decode(Bytes(model, rendering)) denotes the model.
func TestHarnessSelfConsistency(t *testing.T) {
	n, bad := 0, 0
	enumerate(false, 2, func(sub string, x *explore.C, cs Case) bool {
		n++
		b := cs.Doc.Bytes(cs.Render)
		d, err := srt.Decode(b)
		if err != nil {
			bad++
			if bad < 20 {
				t.Errorf("%s: decoder rejects %q: %v", sub, b, err)
			}
			return true
		}
		if g, w := d.Denote(), cs.Doc.Denote(); g != w {
			bad++
			if bad < 20 {
				t.Errorf("%s: %q\n denotes %q\n decoder says %q", sub, b, w, g)
			}
		}
		return true
	})
	t.Logf("%d cases, %d disagreements", n, bad)
}
