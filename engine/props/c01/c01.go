// Package c01: SubRip codec fidelity (E1 exploration over a ground-truth model x renderings).
package c01

import (
	"bytes"
	"encoding/json"
	"fmt"
	"reflect"
	"strings"
	"time"

	astisub "github.com/asticode/go-astisub"

	"verif/core"
	"verif/explore"
	"verif/ref/srt"
)

type profile struct {
	ncues  []int
	starts []int64
	ends   []int // end form: 0 +1s, 1 +1ms, 2 +500ms, 3 zero-length, 4 max; 5 +50ms, 6 +10ms, 7 +5ms, 8 +999ms, 9 +1h
	nlines []int
	nruns  []int
	styles []srt.Style
	texts  []string
	render bool // explore rendering choices
	wide   bool // rendering choices range over the widened value tables
}

// The first 8 styles / 23 texts / 13 starts are the tables of the earlier rounds (kept in place: option 0 is
// the baseline and the B=4 ball of the thorough tier stays on them); the rest are the widened value domains.
var allStyles = []srt.Style{{}, {B: true}, {I: true}, {U: true}, {Color: "#ff0000"}, {B: true, I: true}, {B: true, I: true, U: true, Color: "red"}, {U: true, Color: "blue"},
	// remaining emphasis combinations and colour spellings: upper-case hex, 3- and 8-digit hex, mixed-case name, functional notation, bare digits
	{B: true, U: true}, {I: true, U: true}, {B: true, I: true, U: true}, {B: true, Color: "#FF0000"}, {I: true, Color: "#F00"}, {Color: "Yellow"},
	{Color: "#ff000080"}, {I: true, U: true, Color: "rgb(255,0,0)"}, {B: true, U: true, Color: "ff0000"}, {B: true, I: true, Color: "#AbCdEf"}, {Color: "0"}}

const nOldStyles, nOldTexts, nOldStarts = 8, 23, 13

var allTexts = []string{"x", "a b", " lead", "trail ", "7", "&", "<", "a<b", "&amp;", "a\u00a0b", "\u00e9", "e\u0301", "\U0001F600", "a\tb", "a>b", "\"q\"", "1 > 0 -> ok", "\u00a0edge\u00a0", "\u00a0", "&lt;", "&nbsp;", "<3", "a -> b",
	// entity look-alikes as literal text, raw ampersands
	"a & b", "&#39;", "&gt;", "&quot;", "&amp;amp;", "&&", "&;", "&lt", "&AMP;", "&amp", "AT&T", "& ", "&lt;b&gt;",
	// markup look-alikes as literal text
	"<b>", "<i>x</i>", "</b>", "<font color=\"red\">", "<!--", "</", "{\\an8}x", "{\\an8}",
	// cue-number and timing look-alikes, leading digits
	"0", "1", "+5", "-5", "007", "1a", "7 up", "99999999999999999999", "00:00:01,000", "00:00:01,000 -> 00:00:02,000", "--", ">", "- ->", "x--", "->",
	// white space inside and at the edges
	"a  b", "\tlead", "trail\t", "  two  ", "a\u3000b", "\u00a0\u00a0", "a\u00a0\u00a0b", "a\u00a0", "\u00a0a",
	// Unicode: byte-order-mark character, right-to-left, zero-width joiner sequence, lone combining mark, zero-width space,
	// right-to-left override, full-width digits, 3-byte, last code point
	"\ufeffx", "a\ufeffb", "\ufeff", "\u05e9\u05dc\u05d5\u05dd", "\U0001F468\u200d\U0001F469", "\u0301x", "\u200b", "\u202eabc", "\uff11\uff12", "\u20ac", "\U0010FFFF",
	// punctuation of the format
	"'", "\"", "\\", "/", "=", ";", ":", ",", ".", "a=b", "x:1 y:2", "X1:1 X2:2"}

var allStarts = []int64{1000, 0, 1, 999, 1500, 59999, 60000, 3599999, 3600000, 35999999, 36000000, 86399999, 359998000,
	// fraction boundaries (005, 010, 050, 090, 099, 100, 900, 990), 9/10 and 59 boundaries of seconds, minutes, hours, 23/24 h, >= 100 h
	5, 10, 50, 90, 99, 100, 900, 990, 9000, 10000, 59000, 540000, 600000, 3540000, 32400000, 82800000, 86400000, 356400000, 360000000, 445506789, 3599999999}

const maxMs = 359999999

var arrowsOld = []string{" --> ", "-->", "  -->  ", "\t-->\t"}
var arrowsWide = []string{" --> ", "-->", "  -->  ", "\t-->\t", " -->", "--> ", "   -->   ", " \t --> \t ", " -->\t", "\t--> "}
var coordsOld = []string{"", " X1:1 X2:2 Y1:3 Y2:4"}
var coordsWide = []string{"", " X1:1 X2:2 Y1:3 Y2:4", " X1:100,5 Y1:2.5", "\tX1:1", " ", "\t", "  ", " X1:0 X2:0 Y1:0 Y2:0", " X1:-10 X2:1920 Y1:0042 Y2:1080", "  X1:1  X2:2", " X1:1 X2:2 Y1:3 Y2:4 ", " 00:00:09,000", " x"}
var blankForms = []string{"", " ", "\t", "  "}

func fullProfile(thorough bool) profile {
	p := profile{ncues: []int{1, 0, 2}, starts: allStarts, ends: []int{0, 1, 2, 3, 4, 5, 6, 7, 8, 9}, nlines: []int{1, 2, 0}, nruns: []int{1, 2}, styles: allStyles, texts: allTexts, render: true, wide: true}
	if thorough {
		p.ncues = []int{1, 0, 2, 3}
		p.nlines = []int{1, 2, 3}
		p.nruns = []int{1, 2, 3}
	}
	return p
}

// smallProfile: the value tables of the earlier rounds (B=4 ball of the thorough tier).
func smallProfile() profile {
	return profile{ncues: []int{1, 0, 2}, starts: allStarts[:nOldStarts], ends: []int{0, 1, 2, 3, 4}, nlines: []int{1, 2}, nruns: []int{1, 2}, styles: allStyles[:nOldStyles], texts: allTexts[:nOldTexts], render: true}
}

func coreProfile() profile {
	return profile{ncues: []int{1}, starts: []int64{1000}, ends: []int{0}, nlines: []int{1, 2}, nruns: []int{1, 2},
		styles: []srt.Style{{}, {B: true}, {B: true, I: true, U: true, Color: "red"}}, texts: []string{"x", "a b", "7"}}
}

type Case struct {
	Doc    srt.Doc    `json:"doc"`
	Render srt.Render `json:"render"`
	Dir    string     `json:"dir"`
	// WForm: how the library value handed to the writer spells "no styling": 0 nil InlineStyle, 1 an empty
	// StyleAttributes, 2 additionally SRTColor pointing to "" wherever a run has no colour
	WForm int `json:"wform,omitempty"`

	skipWrite bool // rendering products: the model was already handed to the writer under the default rendering
}

var endOffsets = []int64{1000, 1, 500, 0, -1, 50, 10, 5, 999, 3600000}

func gen(c *explore.C, p profile, coreRender bool) Case {
	n := explore.Pick(c, "ncues", p.ncues...)
	var d srt.Doc
	for k := 0; k < n; k++ {
		cue := srt.Cue{}
		cue.Start = explore.Pick(c, "start", p.starts...)
		switch e := explore.Pick(c, "end", p.ends...); e {
		case 4:
			cue.End = maxMs
		default:
			cue.End = cue.Start + endOffsets[e]
		}
		if cue.End > maxMs && cue.Start <= maxMs {
			cue.End = maxMs
		}
		if cue.End < cue.Start {
			cue.End = cue.Start
		}
		nl := explore.Pick(c, "nlines", p.nlines...)
		for l := 0; l < nl; l++ {
			var line srt.Line
			nr := explore.Pick(c, "nruns", p.nruns...)
			for r := 0; r < nr; r++ {
				st := explore.Pick(c, "style", p.styles...)
				tx := explore.Pick(c, "text", p.texts...)
				line = append(line, srt.Run{Text: tx, Style: st})
			}
			cue.Lines = append(cue.Lines, line)
		}
		d = append(d, cue)
	}
	r := srt.DefaultRender(n)
	wf := 0
	if p.render {
		nIndex, nQuote, nSpaces, arrows, coords := 4, 4, 4, arrowsOld, coordsOld
		if p.wide {
			nIndex, nQuote, nSpaces, arrows, coords = srt.NIndexForms, srt.NFontForms, srt.NLineSpaces, arrowsWide, coordsWide
		}
		r.EOL = explore.Pick(c, "eol", "\n", "\r\n", "\r")
		r.BOM = c.Bool("bom")
		for k := 0; k < n; k++ {
			r.Index[k] = c.Choose("index", nIndex)
		}
		if p.wide {
			r.BlankBetw = explore.Pick(c, "blank", 1, 2, 3, 4, 10)
			r.EOF = explore.Pick(c, "eof", 0, 1, 2, 3, 4, 5, 11)
		} else {
			r.BlankBetw = explore.Pick(c, "blank", 1, 2, 3)
			r.EOF = c.Choose("eof", 5)
		}
		r.Sep = explore.Pick(c, "sep", ",", ".")
		r.FracDigits = explore.Pick(c, "frac", 3, 2, 1)
		if p.wide {
			r.HourDigits = explore.Pick(c, "hours", 2, 1, 3, 4)
		} else {
			r.HourDigits = explore.Pick(c, "hours", 2, 1, 3)
		}
		r.Arrow = explore.Pick(c, "arrow", arrows...)
		r.Coords = explore.Pick(c, "coords", coords...)
		r.Lazy = c.Bool("lazy")
		r.LeaveOpen = c.Bool("leaveopen")
		r.UpperTags = c.Bool("upper")
		r.ColorQuote = c.Choose("quote", nQuote)
		r.LineSpaces = c.Choose("linespaces", nSpaces)
		r.NBSPEntity = c.Bool("nbspentity")
		if p.wide {
			r.BlankForm = explore.Pick(c, "blankform", blankForms...)
			r.HeadPad = c.Choose("headpad", 4)
			r.TagOrder = c.Choose("tagorder", srt.NTagOrders)
			r.CloseSame = c.Bool("closesame")
			r.PlainFont = c.Choose("plainfont", 4)
			r.StrayClose = c.Choose("strayclose", 5)
			r.RawAmp = c.Bool("rawamp")
			wf = c.Choose("wform", 3)
		}
	} else if coreRender {
		r.EOL = explore.Pick(c, "eol", "\n", "\r\n", "\r")
		r.Index[0] = c.Choose("index", 2)
		r.EOF = explore.Pick(c, "eof", 0, 1, 2)
		r.Lazy = c.Bool("lazy")
	}
	return Case{Doc: d, Render: r, WForm: wf}
}

// FromSubs extracts the SubRip denotation from a library value.
func FromSubs(s *astisub.Subtitles) (srt.Doc, string) {
	var d srt.Doc
	odd := ""
	for _, it := range s.Items {
		if it.StartAt%time.Millisecond != 0 || it.EndAt%time.Millisecond != 0 {
			odd = fmt.Sprintf("sub-millisecond time %d..%d", it.StartAt, it.EndAt)
		}
		c := srt.Cue{Start: int64(it.StartAt / time.Millisecond), End: int64(it.EndAt / time.Millisecond)}
		for _, l := range it.Lines {
			ln := srt.Line{}
			for _, li := range l.Items {
				r := srt.Run{Text: li.Text}
				if a := li.InlineStyle; a != nil {
					r.B, r.I, r.U = a.SRTBold, a.SRTItalics, a.SRTUnderline
					if a.SRTColor != nil {
						r.Color = *a.SRTColor
					}
				}
				ln = append(ln, r)
			}
			c.Lines = append(c.Lines, ln)
		}
		d = append(d, c)
	}
	return d, odd
}

// ToSubs builds a library value from a model document (wform: see Case.WForm).
func ToSubs(d srt.Doc, wform int) *astisub.Subtitles {
	s := astisub.NewSubtitles()
	for _, c := range d {
		it := &astisub.Item{StartAt: time.Duration(c.Start) * time.Millisecond, EndAt: time.Duration(c.End) * time.Millisecond}
		for _, l := range c.Lines {
			ln := astisub.Line{}
			for _, r := range l {
				li := astisub.LineItem{Text: r.Text}
				if r.Style != (srt.Style{}) || wform > 0 {
					a := &astisub.StyleAttributes{SRTBold: r.B, SRTItalics: r.I, SRTUnderline: r.U}
					if r.Color != "" || wform == 2 {
						col := r.Color
						a.SRTColor = &col
					}
					li.InlineStyle = a
				}
				ln.Items = append(ln.Items, li)
			}
			it.Lines = append(it.Lines, ln)
		}
		s.Items = append(s.Items, it)
	}
	return s
}

func safeRead(b []byte) (s *astisub.Subtitles, err error, pan string) {
	defer func() {
		if e := recover(); e != nil {
			pan = fmt.Sprint(e)
		}
	}()
	s, err = astisub.ReadFromSRT(bytes.NewReader(b))
	return
}

func stripTrailingEmptyLines(d srt.Doc) srt.Doc {
	o := append(srt.Doc{}, d...)
	for k := range o {
		ls := o[k].Lines
		for len(ls) > 0 {
			t := ""
			for _, r := range ls[len(ls)-1] {
				t += r.Text
			}
			if strings.TrimSpace(t) != "" {
				break
			}
			ls = ls[:len(ls)-1]
		}
		o[k].Lines = ls
	}
	return o
}

// CheckRead: reader(render(model)) must denote the model.
func CheckRead(cs Case) (key, msg string, outcome uint64) {
	b := cs.Doc.Bytes(cs.Render)
	s, err, pan := safeRead(b)
	want := cs.Doc.Denote()
	if pan != "" {
		return "srt.read.panic", fmt.Sprintf("ReadFromSRT panicked (%s) on %q", pan, b), 0
	}
	if err != nil {
		return "srt.read.error", fmt.Sprintf("ReadFromSRT failed (%v) on well-formed %q", err, b), 0
	}
	got, odd := FromSubs(s)
	if odd != "" {
		return "srt.read.mismatch", odd, 0
	}
	gd := got.Denote()
	if gd != want {
		key = "srt.read.mismatch"
		if cs.Render.EOF >= 2 && stripTrailingEmptyLines(got).Denote() == want {
			key = "srt.read.eof-blank-lines"
		}
		return key, fmt.Sprintf("document %q\n denotes %q\n reader returned %q", b, want, gd), 0
	}
	return "", "", core.Hash64(gd)
}

func representable(d srt.Doc) bool {
	for _, c := range d {
		if len(c.Lines) == 0 {
			return false
		}
		for _, l := range c.Lines {
			t := ""
			for _, r := range l {
				t += r.Text
				if r.Text != "" && srt.TrimLine(r.Text) == "" {
					return false // white-space-only runs are not "text runs" in SubRip (a no-break space is text)
				}
			}
			if t != srt.TrimLine(t) || strings.Contains(t, "-->") || strings.ContainsAny(t, "\r\n") {
				return false
			}
		}
	}
	return true
}

// CheckWrite: writer output must denote the model to the library reader and to the independent decoder.
func CheckWrite(d srt.Doc, wform int) (key, msg string, outcome uint64) {
	s := ToSubs(d, wform)
	var buf bytes.Buffer
	var err error
	pan := ""
	func() {
		defer func() {
			if e := recover(); e != nil {
				pan = fmt.Sprint(e)
			}
		}()
		err = s.WriteToSRT(&buf)
	}()
	if pan != "" {
		return "srt.write.panic", "WriteToSRT panicked: " + pan, 0
	}
	if len(d) == 0 {
		if err == nil {
			return "srt.write.empty-no-error", "WriteToSRT of an empty list returned nil", 0
		}
		return "", "", core.Hash64("empty")
	}
	if err != nil {
		return "srt.write.error", fmt.Sprintf("WriteToSRT failed: %v", err), 0
	}
	want := d.Denote()
	out := buf.Bytes()
	if e := srt.Grammar(out); e != nil {
		return "srt.write.grammar", fmt.Sprintf("writer output %q violates the SubRip grammar: %v", out, e), 0
	}
	rd, e := srt.Decode(out)
	if e != nil {
		return "srt.write.ref-decode", fmt.Sprintf("independent decoder rejects writer output %q: %v", out, e), 0
	}
	if g := rd.Denote(); g != want {
		return "srt.write.ref-mismatch", fmt.Sprintf("model %q\n written as %q\n independent decoder reads %q", want, out, g), 0
	}
	s2, err2, pan2 := safeRead(out)
	if pan2 != "" || err2 != nil {
		return "srt.write.self-read-fails", fmt.Sprintf("library reader fails on writer output %q: %v %s", out, err2, pan2), 0
	}
	got, _ := FromSubs(s2)
	if g := got.Denote(); g != want {
		return "srt.write.self-mismatch", fmt.Sprintf("model %q\n written as %q\n library reads back %q", want, out, g), 0
	}
	// '&', '<', NBSP survive unchanged (stated separately by the property)
	return "", "", core.Hash64(string(out))
}

// wellFormed: the model is inside the property's quantifier - no line whose text contains the timing arrow
// (adjacent runs such as "--" and ">" would otherwise spell one).
func wellFormed(d srt.Doc) bool {
	for _, c := range d {
		for _, l := range c.Lines {
			t := ""
			for _, r := range l {
				t += r.Text
			}
			if strings.Contains(t, "-->") {
				return false
			}
		}
	}
	return true
}

func oneCue(start, end int64, text string) srt.Doc {
	return srt.Doc{{Start: start, End: end, Lines: []srt.Line{{{Text: text}}}}}
}

// role places the instant T: 0 start (end = T+1s), 1 end (start = 0), 2 both (zero-length cue)
func byRole(role int, t int64) (int64, int64) {
	switch role {
	case 1:
		return 0, t
	case 2:
		return t, t
	}
	return t, t + 1000
}

var hourTable = []int64{0, 1, 9, 10, 23, 24, 99, 100, 123, 999}
var minSecTable = []int64{0, 1, 9, 10, 59}
var fracTable = []int64{0, 1, 5, 9, 10, 50, 90, 99, 100, 500, 900, 990, 999, 123, 120, 103}
var colourTable = []string{"#ff0000", "#FF0000", "#F00", "#f00", "red", "Yellow", "RED", "#ff000080", "rgb(255,0,0)", "rgba(0,0,0,0.5)", "transparent", "ff0000", "#", "0", "#AbCdEf", "r\u00f6d"}
var joinTable = []string{"x", "amp;", "lt;", "nbsp;", "#39;", ";", ">", "b>", "/b>", "&", "<", "\u00a0", " a", "a ", "7", "\ufeff", "\u0301", "->", "-", "&amp;", "--"}
var manyCounts = []int{9, 10, 11, 99, 100, 101, 255, 256, 257, 999, 1000, 1001}

func biuc(colours ...string) []srt.Style {
	var o []srt.Style
	for _, col := range colours {
		for m := 0; m < 8; m++ {
			o = append(o, srt.Style{B: m&1 != 0, I: m&2 != 0, U: m&4 != 0, Color: col})
		}
	}
	return o
}

// enumerate drives every sub-space of the check through emit (shared by the check and by the harness self-test).
func enumerate(thorough bool, bound int, emit func(sub string, x *explore.C, cs Case) bool) {
	full := fullProfile(thorough)
	// The body only GENERATES the case (cheap, deterministic); the visit callback executes it on the
	// real code if this worker owns it.
	var cs Case
	visit := func(sub string) func(x *explore.C) bool {
		return func(x *explore.C) bool {
			if !wellFormed(cs.Doc) {
				return true
			}
			return emit(sub, x, cs)
		}
	}
	// rendering products: the writer sees the model once (default rendering), not once per rendering
	rvisit := func(sub string) func(x *explore.C) bool {
		return func(x *explore.C) bool {
			if !wellFormed(cs.Doc) {
				return true
			}
			cs.skipWrite = !reflect.DeepEqual(cs.Render, srt.DefaultRender(len(cs.Doc)))
			return emit(sub, x, cs)
		}
	}
	// (1) core product: the full cartesian product of a tiny grammar
	cp := coreProfile()
	explore.Explore(-1, func(x *explore.C) { cs = gen(x, cp, true) }, visit("core"))
	// (1b) three-run lines: every arrangement of 3 styles x 5 texts (incl. a run that is only a no-break
	// space or only an escaped character between two styled runs) on one line
	r3 := profile{ncues: []int{1}, starts: []int64{1000}, ends: []int{0}, nlines: []int{1}, nruns: []int{3},
		styles: []srt.Style{{}, {I: true}, {B: true, Color: "red"}}, texts: []string{"x", "\u00a0", "&", "<", "a b"}}
	explore.Explore(-1, func(x *explore.C) { cs = gen(x, r3, true) }, visit("runs3"))
	// (1b') empty runs (what other formats' readers and hand-written code produce: an empty styled span, a run holding only
	// an override block): 2..3 runs per line of which some are empty, on the first or second line - a line is its
	// concatenated text, an empty run contributes nothing and removes nothing
	explore.Explore(-1, func(x *explore.C) {
		sts := []srt.Style{{}, {B: true}, {I: true, Color: "red"}}
		var cue srt.Cue
		cue.Start, cue.End = 1000, 2000
		nl := explore.Pick(x, "nlines", 1, 2)
		for l := 0; l < nl; l++ {
			var line srt.Line
			nr := explore.Pick(x, "nruns", 2, 3)
			some := false
			for r := 0; r < nr; r++ {
				tx := explore.Pick(x, "text", "", "x", "a b")
				some = some || tx != ""
				line = append(line, srt.Run{Text: tx, Style: explore.Pick(x, "style", sts...)})
			}
			if !some {
				line[0].Text = "x"
			}
			cue.Lines = append(cue.Lines, line)
		}
		cs = Case{Doc: srt.Doc{cue}, Render: srt.DefaultRender(1)}
	}, visit("emptyruns"))
	// (1c) index handling: two cues, every index form on each (numeric, absent, garbage, "0"), digit-only text
	// lines in first/last position ("7", "-5", "007" are all accepted by Atoi), 1..3 blank lines, every EOL
	explore.Explore(-1, func(x *explore.C) {
		var d srt.Doc
		for k := 0; k < 2; k++ {
			cue := srt.Cue{Start: int64(k+1) * 2000, End: int64(k+1)*2000 + 1000}
			nl := explore.Pick(x, "nlines", 1, 2)
			for l := 0; l < nl; l++ {
				cue.Lines = append(cue.Lines, srt.Line{{Text: explore.Pick(x, "text", "x", "7", "-5", "007")}})
			}
			d = append(d, cue)
		}
		r := srt.DefaultRender(2)
		r.Index[0] = x.Choose("index", 4)
		r.Index[1] = x.Choose("index", 4)
		r.BlankBetw = explore.Pick(x, "blank", 1, 2, 3)
		r.EOL = explore.Pick(x, "eol", "\n", "\r\n", "\r")
		r.EOF = explore.Pick(x, "eof", 0, 1, 2)
		cs = Case{Doc: d, Render: r}
	}, visit("index"))
	// (1d) markup state across lines and cues: two cues, each <=3 lines of one run, three styles, tags kept open
	// lazily / left unterminated at the end of a cue / upper-case / each colour quoting: a style must never leak
	// into the next cue and must carry over lines exactly as the tags say
	explore.Explore(-1, func(x *explore.C) {
		var d srt.Doc
		sts := []srt.Style{{}, {B: true}, {I: true, Color: "#00ff00"}}
		for k := 0; k < 2; k++ {
			cue := srt.Cue{Start: int64(k+1) * 2000, End: int64(k+1)*2000 + 1000}
			nl := explore.Pick(x, "nlines", 1, 2, 3) // three lines: a span open over a middle line that has no markup of its own
			for l := 0; l < nl; l++ {
				cue.Lines = append(cue.Lines, srt.Line{{Text: "x", Style: explore.Pick(x, "style", sts...)}})
			}
			d = append(d, cue)
		}
		r := srt.DefaultRender(2)
		r.Lazy = x.Bool("lazy")
		r.LeaveOpen = x.Bool("leaveopen")
		r.UpperTags = x.Bool("upper")
		r.ColorQuote = x.Choose("quote", 4)
		cs = Case{Doc: d, Render: r}
	}, visit("markup"))
	// (1e) timing lines: instants x fraction digits x separator x hour digits x arrow spacing x coordinates
	explore.Explore(-1, func(x *explore.C) {
		start := explore.Pick(x, "start", int64(1000), 1500, 1250, 36000000, 3600500, 59999, 359998000)
		cue := srt.Cue{Start: start, End: start + explore.Pick(x, "dur", int64(1000), 250, 1), Lines: []srt.Line{{{Text: "x"}}}}
		r := srt.DefaultRender(1)
		r.FracDigits = explore.Pick(x, "frac", 3, 2, 1)
		r.Sep = explore.Pick(x, "sep", ",", ".")
		r.HourDigits = explore.Pick(x, "hours", 2, 1, 3)
		r.Arrow = explore.Pick(x, "arrow", " --> ", "-->", "  -->  ", "\t-->\t", " -->", "--> ")
		r.Coords = explore.Pick(x, "coords", "", " X1:1 X2:2 Y1:3 Y2:4", " X1:100,5 Y1:2.5", "\tX1:1")
		cs = Case{Doc: srt.Doc{cue}, Render: r}
	}, visit("times"))

	// ---- value-domain products (round 9) ----
	// (1f) hours x minutes x seconds, each over its digit-count and range boundaries (0,1,9,10,59; hours also 23,24,99
	// and >= 100), as start, as end, as both; written with 2, 1 (h < 10) or 3 (h < 100) hour digits
	explore.Explore(-1, func(x *explore.C) {
		h := explore.Pick(x, "h", hourTable...)
		m := explore.Pick(x, "m", minSecTable...)
		s := explore.Pick(x, "s", minSecTable...)
		st, en := byRole(x.Choose("role", 3), ((h*60+m)*60+s)*1000)
		r := srt.DefaultRender(1)
		r.HourDigits = explore.Pick(x, "hours", 2, 1, 3, 4)
		cs = Case{Doc: oneCue(st, en, "x"), Render: r}
	}, rvisit("hms"))
	// (1g) fraction: every leading/trailing-zero pattern of the millisecond field (005, 050, 500, 010, 100, 990, ...) x
	// 3/2/1 digits (where the value allows) x ',' or '.' x role x seconds 0 or 59 x trailing coordinates
	explore.Explore(-1, func(x *explore.C) {
		f := explore.Pick(x, "f", fracTable...)
		s := explore.Pick(x, "s", int64(1), 59, 0)
		st, en := byRole(x.Choose("role", 3), s*1000+f)
		r := srt.DefaultRender(1)
		r.FracDigits = explore.Pick(x, "frac", 3, 2, 1)
		r.Sep = explore.Pick(x, "sep", ",", ".")
		r.Coords = explore.Pick(x, "coords", "", " X1:1 X2:2 Y1:3 Y2:4", " ")
		cs = Case{Doc: oneCue(st, en, "x"), Render: r}
	}, rvisit("frac"))
	// (1h) every instant h x m x s x f of the four tables, in each role, canonical rendering (reader and writer)
	explore.Explore(-1, func(x *explore.C) {
		h := explore.Pick(x, "h", hourTable...)
		m := explore.Pick(x, "m", minSecTable...)
		s := explore.Pick(x, "s", minSecTable...)
		f := explore.Pick(x, "f", fracTable...)
		st, en := byRole(x.Choose("role", 3), ((h*60+m)*60+s)*1000+f)
		cs = Case{Doc: oneCue(st, en, "x"), Render: srt.DefaultRender(1)}
	}, visit("instants"))
	// (1i) cue numbers: two cues, each with every index form (k, absent, letters, 0, leading zeros, negative, digit+letter,
	// '#'-prefixed, 20 digits, trailing dot, non-ASCII digit, signed, two numbers) x number-like text lines x form of the
	// blank line (empty, blank, tab) x EOL
	explore.Explore(-1, func(x *explore.C) {
		var d srt.Doc
		for k := 0; k < 2; k++ {
			d = append(d, srt.Cue{Start: int64(k+1) * 2000, End: int64(k+1)*2000 + 1000, Lines: []srt.Line{{{Text: explore.Pick(x, "text", "x", "7", "+5", "0")}}}})
		}
		r := srt.DefaultRender(2)
		r.Index[0] = x.Choose("index", srt.NIndexForms)
		r.Index[1] = x.Choose("index", srt.NIndexForms)
		r.BlankForm = explore.Pick(x, "blankform", "", " ", "\t")
		r.EOL = explore.Pick(x, "eol", "\n", "\r\n", "\r")
		cs = Case{Doc: d, Render: r}
	}, rvisit("index2"))
	// (1j) white space around the head lines: index form x padding of index/timing line x EOL x BOM x coordinates
	explore.Explore(-1, func(x *explore.C) {
		r := srt.DefaultRender(1)
		r.Index[0] = x.Choose("index", srt.NIndexForms)
		r.HeadPad = x.Choose("headpad", 4)
		r.EOL = explore.Pick(x, "eol", "\n", "\r\n", "\r")
		r.BOM = x.Bool("bom")
		r.Coords = explore.Pick(x, "coords", "", " X1:1 X2:2 Y1:3 Y2:4")
		cs = Case{Doc: oneCue(1000, 2000, "x"), Render: r}
	}, rvisit("headpad"))
	// (1k) arrow spacing x trailing matter x head padding x separator x fraction digits
	explore.Explore(-1, func(x *explore.C) {
		r := srt.DefaultRender(1)
		r.Arrow = explore.Pick(x, "arrow", arrowsWide...)
		r.Coords = explore.Pick(x, "coords", coordsWide...)
		r.HeadPad = x.Choose("headpad", 4)
		r.Sep = explore.Pick(x, "sep", ",", ".")
		r.FracDigits = explore.Pick(x, "frac", 3, 1)
		cs = Case{Doc: oneCue(1500, 2500, "x"), Render: r}
	}, rvisit("arrows"))
	// (1l) blank lines: 2 cues x 1..4 or 10 separating lines x their content x EOF form (up to 10 blank lines) x EOL x index present/absent
	explore.Explore(-1, func(x *explore.C) {
		d := append(oneCue(1000, 2000, "x"), oneCue(3000, 4000, "y")...)
		r := srt.DefaultRender(2)
		r.BlankBetw = explore.Pick(x, "blank", 1, 2, 3, 4, 10)
		r.BlankForm = explore.Pick(x, "blankform", blankForms...)
		r.EOF = explore.Pick(x, "eof", 0, 1, 2, 3, 4, 5, 11)
		r.EOL = explore.Pick(x, "eol", "\n", "\r\n", "\r")
		r.Index[1] = x.Choose("index", 2)
		cs = Case{Doc: d, Render: r}
	}, rvisit("blanks"))
	// (1m) tag nesting: one run with each of the 16 emphasis/colour combinations x each of the 24 opening orders x
	// mirrored or overlapping closing x tag case x unterminated
	explore.Explore(-1, func(x *explore.C) {
		st := explore.Pick(x, "style", biuc("", "red")...)
		r := srt.DefaultRender(1)
		r.TagOrder = x.Choose("tagorder", srt.NTagOrders)
		r.CloseSame = x.Bool("closesame")
		r.UpperTags = x.Bool("upper")
		r.LeaveOpen = x.Bool("leaveopen")
		cs = Case{Doc: srt.Doc{{Start: 1000, End: 2000, Lines: []srt.Line{{{Text: "x", Style: st}}}}}, Render: r}
	}, rvisit("tags"))
	// (1n) lazy tags between two runs on one line or on two lines: 16 x 16 combinations x 24 orders x closing discipline
	explore.Explore(-1, func(x *explore.C) {
		s1 := explore.Pick(x, "style", biuc("", "red")...)
		s2 := explore.Pick(x, "style", biuc("", "red")...)
		r := srt.DefaultRender(1)
		r.Lazy = true
		r.TagOrder = x.Choose("tagorder", srt.NTagOrders)
		r.CloseSame = x.Bool("closesame")
		lines := []srt.Line{{{Text: "x", Style: s1}, {Text: "y", Style: s2}}}
		if x.Bool("twolines") {
			lines = []srt.Line{{{Text: "x", Style: s1}}, {{Text: "y", Style: s2}}}
		}
		cs = Case{Doc: srt.Doc{{Start: 1000, End: 2000, Lines: lines}}, Render: r}
	}, rvisit("tags2"))
	// (1o) neighbouring runs: every pair of the 24 styles (8 emphasis combinations x no colour / hex / mixed-case name)
	// x lazy x unterminated; the writer gets each of the three spellings of "no styling"
	explore.Explore(-1, func(x *explore.C) {
		s1 := explore.Pick(x, "style", biuc("", "#ff0000", "Yellow")...)
		s2 := explore.Pick(x, "style", biuc("", "#ff0000", "Yellow")...)
		r := srt.DefaultRender(1)
		r.Lazy = x.Bool("lazy")
		r.LeaveOpen = x.Bool("leaveopen")
		wf := x.Choose("wform", 3)
		cs = Case{Doc: srt.Doc{{Start: 1000, End: 2000, Lines: []srt.Line{{{Text: "x", Style: s1}, {Text: "y", Style: s2}}}}}, Render: r, WForm: wf}
	}, visit("styles2"))
	// (1p) colour values x forms of the font tag x tag case, followed by a colourless run written plainly or inside
	// a colourless font tag
	explore.Explore(-1, func(x *explore.C) {
		col := explore.Pick(x, "colour", colourTable...)
		r := srt.DefaultRender(1)
		r.ColorQuote = x.Choose("quote", srt.NFontForms)
		r.UpperTags = x.Bool("upper")
		r.PlainFont = x.Choose("plainfont", 4)
		cs = Case{Doc: srt.Doc{{Start: 1000, End: 2000, Lines: []srt.Line{{{Text: "x", Style: srt.Style{Color: col}}, {Text: "y"}}}}}, Render: r}
	}, rvisit("colours"))
	// (1q) every text atom followed on the same line by every joining atom (entity tails, tag tails, white space,
	// combining mark, byte-order mark) in a plain or bold run x no-break space form x raw ampersand
	explore.Explore(-1, func(x *explore.C) {
		t1 := explore.Pick(x, "text", allTexts...)
		t2 := explore.Pick(x, "join", joinTable...)
		s2 := explore.Pick(x, "style", srt.Style{}, srt.Style{B: true})
		r := srt.DefaultRender(1)
		r.NBSPEntity = x.Bool("nbspentity")
		r.RawAmp = x.Bool("rawamp")
		cs = Case{Doc: srt.Doc{{Start: 1000, End: 2000, Lines: []srt.Line{{{Text: t1}, {Text: t2, Style: s2}}}}}, Render: r}
	}, rvisit("atoms2"))
	// (1r) every text atom as the only / first / last / middle line of a cue that is followed by another cue whose number is
	// present, absent or garbage x line padding
	explore.Explore(-1, func(x *explore.C) {
		t := explore.Pick(x, "text", allTexts...)
		var lines []srt.Line
		switch x.Choose("pos", 4) {
		case 0:
			lines = []srt.Line{{{Text: t}}}
		case 1:
			lines = []srt.Line{{{Text: t}}, {{Text: "x"}}}
		case 2:
			lines = []srt.Line{{{Text: "x"}}, {{Text: t}}}
		case 3:
			lines = []srt.Line{{{Text: "x"}}, {{Text: t}}, {{Text: "z"}}}
		}
		r := srt.DefaultRender(2)
		r.Index[1] = x.Choose("index", 3)
		r.LineSpaces = x.Choose("linespaces", srt.NLineSpaces)
		cs = Case{Doc: srt.Doc{{Start: 1000, End: 2000, Lines: lines}, {Start: 3000, End: 4000, Lines: []srt.Line{{{Text: "y"}}}}}, Render: r}
	}, rvisit("atomlines"))
	// (1s) many cues: n at the digit-count and power-of-two boundaries of the cue number x plain or number-like text x
	// EOL x index form (k, absent, leading zeros, letters)
	explore.Explore(-1, func(x *explore.C) {
		n := explore.Pick(x, "n", manyCounts...)
		numeric := x.Bool("numeric")
		var d srt.Doc
		for k := 0; k < n; k++ {
			t := "x"
			if numeric {
				t = fmt.Sprint(k + 1)
			}
			d = append(d, srt.Cue{Start: int64(k) * 2000, End: int64(k)*2000 + 1500, Lines: []srt.Line{{{Text: t}}}})
		}
		r := srt.DefaultRender(n)
		form := explore.Pick(x, "index", 0, 1, 4, 2)
		for k := range r.Index {
			r.Index[k] = form
		}
		r.EOL = explore.Pick(x, "eol", "\n", "\r\n", "\r")
		cs = Case{Doc: d, Render: r}
	}, rvisit("manycues"))
	// (1s') many lines and runs: one cue (followed by a second one) with n lines of r runs each, styles cycling so that
	// neighbouring runs differ x lazy x unterminated x EOL
	explore.Explore(-1, func(x *explore.C) {
		n := explore.Pick(x, "nlines", 4, 5, 9, 10, 16, 17, 100)
		nr := explore.Pick(x, "nruns", 1, 4, 5, 9)
		cyc := []srt.Style{{}, {B: true}, {I: true, Color: "red"}, {U: true}, {B: true, I: true, U: true, Color: "#FF0000"}}
		var lines []srt.Line
		for l := 0; l < n; l++ {
			var ln srt.Line
			for q := 0; q < nr; q++ {
				ln = append(ln, srt.Run{Text: fmt.Sprintf("t%d.%d", l, q), Style: cyc[(l*nr+q)%len(cyc)]})
			}
			lines = append(lines, ln)
		}
		r := srt.DefaultRender(2)
		r.Lazy = x.Bool("lazy")
		r.LeaveOpen = x.Bool("leaveopen")
		r.EOL = explore.Pick(x, "eol", "\n", "\r\n", "\r")
		r.Index[1] = x.Choose("index", 2)
		cs = Case{Doc: srt.Doc{{Start: 1000, End: 2000, Lines: lines}, {Start: 3000, End: 4000, Lines: []srt.Line{{{Text: "y"}}}}}, Render: r}
	}, rvisit("manylines"))
	// (1t) document length: a first text line of L characters, L sweeping so that each byte of the following
	// line end / text line / blank line / cue number / timing line falls on the 4096- and 8192-byte marks x EOL x
	// index present/absent x EOF form
	explore.Explore(-1, func(x *explore.C) {
		base := explore.Pick(x, "base", 3990, 8086)
		l := base + x.Choose("len", 112)
		d := srt.Doc{{Start: 1000, End: 2000, Lines: []srt.Line{{{Text: strings.Repeat("x", l)}}, {{Text: "y"}}}},
			{Start: 3000, End: 4000, Lines: []srt.Line{{{Text: "z"}}, {{Text: "w"}}}}}
		r := srt.DefaultRender(2)
		r.EOL = explore.Pick(x, "eol", "\n", "\r\n", "\r")
		r.Index[1] = x.Choose("index", 2)
		r.EOF = explore.Pick(x, "eof", 0, 1, 2)
		cs = Case{Doc: d, Render: r}
	}, rvisit("length"))

	if thorough {
		// (1u) every instant of the four tables x hour digits x fraction digits x separator x role
		explore.Explore(-1, func(x *explore.C) {
			h := explore.Pick(x, "h", hourTable...)
			m := explore.Pick(x, "m", minSecTable...)
			s := explore.Pick(x, "s", minSecTable...)
			f := explore.Pick(x, "f", fracTable...)
			st, en := byRole(x.Choose("role", 3), ((h*60+m)*60+s)*1000+f)
			r := srt.DefaultRender(1)
			r.HourDigits = explore.Pick(x, "hours", 2, 1, 3)
			r.FracDigits = explore.Pick(x, "frac", 3, 2, 1)
			r.Sep = explore.Pick(x, "sep", ",", ".")
			cs = Case{Doc: oneCue(st, en, "x"), Render: r}
		}, rvisit("instants-rendered"))
		// (1v) every ordered pair of text atoms as neighbouring runs of one line, second run plain or bold
		explore.Explore(-1, func(x *explore.C) {
			t1 := explore.Pick(x, "text", allTexts...)
			t2 := explore.Pick(x, "text", allTexts...)
			s2 := explore.Pick(x, "style", srt.Style{}, srt.Style{B: true})
			r := srt.DefaultRender(1)
			r.NBSPEntity = x.Bool("nbspentity")
			r.RawAmp = x.Bool("rawamp")
			cs = Case{Doc: srt.Doc{{Start: 1000, End: 2000, Lines: []srt.Line{{{Text: t1}, {Text: t2, Style: s2}}}}}, Render: r}
		}, rvisit("atompairs"))
	}

	// (2) deviation ball around the baseline document over all model and rendering choice points
	explore.Explore(bound, func(x *explore.C) { cs = gen(x, full, false) }, visit("ball"))
	if thorough {
		// four simultaneous departures on the small profile (<=2 cues, lines, runs; value tables of the earlier rounds)
		small := smallProfile()
		explore.Explore(4, func(x *explore.C) { cs = gen(x, small, false) }, visit("ball4"))
	}
}

func run(c *core.Ctx) {
	bound := 2
	if c.Tier == core.Thorough {
		bound = 3
	}
	enumerate(c.Tier == core.Thorough, bound, func(sub string, x *explore.C, cs Case) bool {
		if !c.Mine() {
			return true
		}
		den := cs.Doc.Denote()
		key, msg, out := CheckRead(cs)
		nt := uint64(0)
		if explore.Deviations(x.Trace) > 0 {
			nt = core.Hash64("r", den, fmt.Sprintf("%+v", cs.Render))
		}
		cs.Dir = "read"
		c.Record(sub+".read", out, nt, func() interface{} {
			return map[string]interface{}{"choices": x.Trace, "bytes": string(cs.Doc.Bytes(cs.Render))}
		})
		if key != "" {
			c.Violate("read", key, msg, cs, explore.Deviations(x.Trace)*1000+len(cs.Doc.Bytes(cs.Render)))
		}
		if !cs.skipWrite && representable(cs.Doc) {
			key, msg, out = CheckWrite(cs.Doc, cs.WForm)
			c.Record(sub+".write", out, core.Hash64("w", den, fmt.Sprint(cs.WForm)), nil)
			if key != "" {
				cs.Dir = "write"
				c.Violate("write", key, msg, cs, explore.Deviations(x.Trace)*1000+len(den))
			}
		}
		return c.Evals%4096 != 0 || !c.Expired()
	})
	c.ExtraMax["deviation_bound"] = float64(bound)
}

func replay(sub string, raw json.RawMessage) (string, bool) {
	var cs Case
	if err := json.Unmarshal(raw, &cs); err != nil {
		return err.Error(), false
	}
	if cs.Dir == "write" {
		key, msg, _ := CheckWrite(cs.Doc, cs.WForm)
		return msg, key != ""
	}
	key, msg, _ := CheckRead(cs)
	return msg, key != ""
}

func init() {
	core.Register(&core.Prop{
		ID: "C01", Level: "exploration",
		Rule: "a case = (ground-truth cue model, rendering choices) chosen by the E1 explorer: full cartesian products of small grammars and of boundary-complete value tables, plus every document within B deviations from the baseline over all model and rendering choice points. Value tables: cue count 0..3 (many-cue product: 9..1001); instants built from hours {0,1,9,10,23,24,99,100,123,999} x minutes/seconds {0,1,9,10,59} x milliseconds {0,1,5,9,10,50,90,99,100,500,900,990,999,103,120,123}; 10 end forms (zero-length, +1 ms .. +1 h, maximum); 19 styles (all 8 emphasis combinations; colours lower/upper/mixed-case hex, 3/6/8-digit hex, names, functional notation, bare digits, non-ASCII), 16 colour values in the colour product; 91 text atoms (escaped characters, entity and markup look-alikes as literal text, {\\an8}, cue-number and timing look-alikes, inner/outer blanks and tabs, no-break and ideographic space, byte-order-mark character, right-to-left, joiner sequences, lone combining mark, punctuation of the format). Rendering freedoms: EOL, BOM, 13 cue-number forms (k, absent, letters, 0, leading zeros, negative, signed, digit+letter, '#k', 'k.', 20 digits, non-ASCII digit, two numbers), 1..4 or 10 blank lines and their content (empty, blank, tab, two blanks), 7 EOF forms (unterminated, 0..4 or 10 blank lines), white space around the cue-number and timing lines, ',' or '.', 3/2/1 fraction digits, 2/1/3/4 hour digits, 10 arrow spacings, 13 kinds of trailing matter after the end time, lazy/unterminated/overlapping tags, the 24 opening orders of font/b/i/u, closing tags without opening ones, tag case, 11 forms of the font tag (quotes, blanks around '=', attribute case, neighbouring attributes), colourless font tags around plain runs, 7 line paddings, no-break space as entity or character, raw '&' before a blank; writer side additionally the three library spellings of 'no styling' (nil style, empty style, empty colour). Read direction: ReadFromSRT(render(model)) must denote the model; write direction: WriteToSRT(model) must satisfy the grammar and denote the model to the library reader and to an independent decoder; non-trivial = non-baseline case, distinct by (denotation, rendering)",
		Scope: map[core.Tier]string{
			core.Quick:    "core product (1 cue x <=2 lines x <=2 runs x 3 styles x 3 texts x EOL x index x EOF form x lazy tags) + 3-run product + index product (2 cues x 4 index forms each x digit-only lines x blank lines x EOL x EOF) + markup-state product + timing-line product + value-domain products: h x m x s x role x hour digits; fraction x digits x separator x role x coordinates; h x m x s x f x role; 13 x 13 cue-number forms x number-like text x blank-line content x EOL; head-line padding x index form x EOL x BOM; arrow x trailing matter x padding x separator; blank count x content x EOF form x EOL; 16 styles x 24 tag orders x closing discipline x case; 16 x 16 lazy style pairs x 24 orders; 24 x 24 neighbouring styles x lazy x unterminated x writer spelling; 16 colours x 11 font-tag forms x case x colourless font tag; 91 atoms x 21 joining atoms x plain/bold x nbsp form x raw '&'; 91 atoms x line position x next cue's number x 7 line paddings; 9..1001 cues x EOL x index form; 4..100 lines x 1..9 runs x lazy x unterminated x EOL; first-line length sweeping every byte of the following lines over the 4096- and 8192-byte marks x EOL x index x EOF + deviation ball B=2 over the widened tables (<=2 cues, <=2 lines, <=2 runs)",
			core.Thorough: "all quick products + every instant x hour digits x fraction digits x separator x role + every ordered pair of the 91 atoms + deviation ball B=3 over the widened tables (<=3 cues, <=3 lines, <=3 runs) + B=4 on the <=2 profile with the value tables of the earlier rounds",
		},
		Assumptions: []string{"Go toolchain and standard library", "independent reference codec engine/ref/srt", "white-space-only runs and outer line white space are outside the SubRip denotation (the format cannot carry them)",
			"a colourless or empty-colour font tag and a closing tag without an opening one denote no markup; colour values are compared verbatim (case-sensitive)",
			"left out on purpose: text containing '-->' or Unicode line terminators (U+2028, U+0085), nested font tags, unknown tags, raw '<' and '&gt;' in documents (the sentence does not pin their meaning), lines of 64 KiB and more, sub-millisecond instants (C16)"},
		Plain: run, Replay: replay,
	})
}
