// Package c01: SubRip codec fidelity (E1 exploration over a ground-truth model x renderings).
package c01

import (
	"bytes"
	"encoding/json"
	"fmt"
	"strings"
	"time"

	astisub "github.com/asticode/go-astisub"

	"verif/core"
	"verif/explore"
	"verif/ref/srt"
)

type profile struct {
	ncues   []int
	starts  []int64
	ends    []int // end form: 0 +1s, 1 +1ms, 2 +500ms, 3 zero-length, 4 max
	nlines  []int
	nruns   []int
	styles  []srt.Style
	texts   []string
	render  bool // explore rendering choices
}

var allStyles = []srt.Style{{}, {B: true}, {I: true}, {U: true}, {Color: "#ff0000"}, {B: true, I: true}, {B: true, I: true, U: true, Color: "red"}, {U: true, Color: "blue"}}
var allTexts = []string{"x", "a b", " lead", "trail ", "7", "&", "<", "a<b", "&amp;", "a\u00a0b", "\u00e9", "e\u0301", "\U0001F600", "a\tb", "a>b", "\"q\"", "1 > 0 -> ok", "\u00a0edge\u00a0", "\u00a0", "&lt;", "&nbsp;", "<3", "a -> b"}
var allStarts = []int64{1000, 0, 1, 999, 1500, 59999, 60000, 3599999, 3600000, 35999999, 36000000, 86399999, 359998000}

const maxMs = 359999999

func fullProfile(thorough bool) profile {
	p := profile{ncues: []int{1, 0, 2}, starts: allStarts, ends: []int{0, 1, 2, 3, 4}, nlines: []int{1, 2}, nruns: []int{1, 2}, styles: allStyles, texts: allTexts, render: true}
	if thorough {
		p.ncues = []int{1, 0, 2, 3}
		p.nlines = []int{1, 2, 3}
		p.nruns = []int{1, 2, 3}
	}
	return p
}

func coreProfile() profile {
	return profile{ncues: []int{1}, starts: []int64{1000}, ends: []int{0}, nlines: []int{1, 2}, nruns: []int{1, 2},
		styles: []srt.Style{{}, {B: true}, {B: true, I: true, U: true, Color: "red"}}, texts: []string{"x", "a b", "7"}}
}

type Case struct {
	Doc    srt.Doc    `json:"doc"`
	Render srt.Render `json:"render"`
	Dir    string     `json:"dir"`
}

func gen(c *explore.C, p profile, coreRender bool) Case {
	n := explore.Pick(c, "ncues", p.ncues...)
	var d srt.Doc
	for k := 0; k < n; k++ {
		cue := srt.Cue{}
		cue.Start = explore.Pick(c, "start", p.starts...)
		switch explore.Pick(c, "end", p.ends...) {
		case 0:
			cue.End = cue.Start + 1000
		case 1:
			cue.End = cue.Start + 1
		case 2:
			cue.End = cue.Start + 500
		case 3:
			cue.End = cue.Start
		case 4:
			cue.End = maxMs
		}
		if cue.End > maxMs {
			cue.End = maxMs
		}
		nl := explore.Pick(c, "nlines", p.nlines...)
		for l := 0; l < nl; l++ {
			var line srt.Line
			nr := explore.Pick(c, "nruns", p.nruns...)
			for r := 0; r < nr; r++ {
				st := explore.Pick(c, "style", p.styles...)
				tx := explore.Pick(c, "text", p.texts...)
				line = append(line, srt.Run{Text: tx, Style: st})
			}
			cue.Lines = append(cue.Lines, line)
		}
		d = append(d, cue)
	}
	r := srt.DefaultRender(n)
	if p.render {
		r.EOL = explore.Pick(c, "eol", "\n", "\r\n", "\r")
		r.BOM = c.Bool("bom")
		for k := 0; k < n; k++ {
			r.Index[k] = c.Choose("index", 4)
		}
		r.BlankBetw = explore.Pick(c, "blank", 1, 2, 3)
		r.EOF = c.Choose("eof", 5)
		r.Sep = explore.Pick(c, "sep", ",", ".")
		r.FracDigits = explore.Pick(c, "frac", 3, 2, 1)
		r.HourDigits = explore.Pick(c, "hours", 2, 1, 3)
		r.Arrow = explore.Pick(c, "arrow", " --> ", "-->", "  -->  ", "\t-->\t")
		r.Coords = explore.Pick(c, "coords", "", " X1:1 X2:2 Y1:3 Y2:4")
		r.Lazy = c.Bool("lazy")
		r.LeaveOpen = c.Bool("leaveopen")
		r.UpperTags = c.Bool("upper")
		r.ColorQuote = c.Choose("quote", 4)
		r.LineSpaces = c.Choose("linespaces", 4)
		r.NBSPEntity = c.Bool("nbspentity")
	} else if coreRender {
		r.EOL = explore.Pick(c, "eol", "\n", "\r\n", "\r")
		r.Index[0] = c.Choose("index", 2)
		r.EOF = explore.Pick(c, "eof", 0, 1, 2)
		r.Lazy = c.Bool("lazy")
	}
	return Case{Doc: d, Render: r}
}

// FromSubs extracts the SubRip denotation from a library value.
func FromSubs(s *astisub.Subtitles) (srt.Doc, string) {
	var d srt.Doc
	odd := ""
	for _, it := range s.Items {
		if it.StartAt%time.Millisecond != 0 || it.EndAt%time.Millisecond != 0 {
			odd = fmt.Sprintf("sub-millisecond time %d..%d", it.StartAt, it.EndAt)
		}
		c := srt.Cue{Start: int64(it.StartAt / time.Millisecond), End: int64(it.EndAt / time.Millisecond)}
		for _, l := range it.Lines {
			ln := srt.Line{}
			for _, li := range l.Items {
				r := srt.Run{Text: li.Text}
				if a := li.InlineStyle; a != nil {
					r.B, r.I, r.U = a.SRTBold, a.SRTItalics, a.SRTUnderline
					if a.SRTColor != nil {
						r.Color = *a.SRTColor
					}
				}
				ln = append(ln, r)
			}
			c.Lines = append(c.Lines, ln)
		}
		d = append(d, c)
	}
	return d, odd
}

// ToSubs builds a library value from a model document.
func ToSubs(d srt.Doc) *astisub.Subtitles {
	s := astisub.NewSubtitles()
	for _, c := range d {
		it := &astisub.Item{StartAt: time.Duration(c.Start) * time.Millisecond, EndAt: time.Duration(c.End) * time.Millisecond}
		for _, l := range c.Lines {
			ln := astisub.Line{}
			for _, r := range l {
				li := astisub.LineItem{Text: r.Text}
				if r.Style != (srt.Style{}) {
					a := &astisub.StyleAttributes{SRTBold: r.B, SRTItalics: r.I, SRTUnderline: r.U}
					if r.Color != "" {
						col := r.Color
						a.SRTColor = &col
					}
					li.InlineStyle = a
				}
				ln.Items = append(ln.Items, li)
			}
			it.Lines = append(it.Lines, ln)
		}
		s.Items = append(s.Items, it)
	}
	return s
}

func safeRead(b []byte) (s *astisub.Subtitles, err error, pan string) {
	defer func() {
		if e := recover(); e != nil {
			pan = fmt.Sprint(e)
		}
	}()
	s, err = astisub.ReadFromSRT(bytes.NewReader(b))
	return
}

func stripTrailingEmptyLines(d srt.Doc) srt.Doc {
	o := append(srt.Doc{}, d...)
	for k := range o {
		ls := o[k].Lines
		for len(ls) > 0 {
			t := ""
			for _, r := range ls[len(ls)-1] {
				t += r.Text
			}
			if strings.TrimSpace(t) != "" {
				break
			}
			ls = ls[:len(ls)-1]
		}
		o[k].Lines = ls
	}
	return o
}

// CheckRead: reader(render(model)) must denote the model.
func CheckRead(cs Case) (key, msg string, outcome uint64) {
	b := cs.Doc.Bytes(cs.Render)
	s, err, pan := safeRead(b)
	want := cs.Doc.Denote()
	if pan != "" {
		return "srt.read.panic", fmt.Sprintf("ReadFromSRT panicked (%s) on %q", pan, b), 0
	}
	if err != nil {
		return "srt.read.error", fmt.Sprintf("ReadFromSRT failed (%v) on well-formed %q", err, b), 0
	}
	got, odd := FromSubs(s)
	if odd != "" {
		return "srt.read.mismatch", odd, 0
	}
	gd := got.Denote()
	if gd != want {
		key = "srt.read.mismatch"
		if cs.Render.EOF >= 2 && stripTrailingEmptyLines(got).Denote() == want {
			key = "srt.read.eof-blank-lines"
		}
		return key, fmt.Sprintf("document %q\n denotes %q\n reader returned %q", b, want, gd), 0
	}
	return "", "", core.Hash64(gd)
}

func representable(d srt.Doc) bool {
	for _, c := range d {
		if len(c.Lines) == 0 {
			return false
		}
		for _, l := range c.Lines {
			t := ""
			for _, r := range l {
				t += r.Text
				if srt.TrimLine(r.Text) == "" {
					return false // white-space-only runs are not "text runs" in SubRip (a no-break space is text)
				}
			}
			if t != srt.TrimLine(t) || strings.Contains(t, "-->") || strings.ContainsAny(t, "\r\n") {
				return false
			}
		}
	}
	return true
}

// CheckWrite: writer output must denote the model to the library reader and to the independent decoder.
func CheckWrite(d srt.Doc) (key, msg string, outcome uint64) {
	s := ToSubs(d)
	var buf bytes.Buffer
	var err error
	pan := ""
	func() {
		defer func() {
			if e := recover(); e != nil {
				pan = fmt.Sprint(e)
			}
		}()
		err = s.WriteToSRT(&buf)
	}()
	if pan != "" {
		return "srt.write.panic", "WriteToSRT panicked: " + pan, 0
	}
	if len(d) == 0 {
		if err == nil {
			return "srt.write.empty-no-error", "WriteToSRT of an empty list returned nil", 0
		}
		return "", "", core.Hash64("empty")
	}
	if err != nil {
		return "srt.write.error", fmt.Sprintf("WriteToSRT failed: %v", err), 0
	}
	want := d.Denote()
	out := buf.Bytes()
	if e := srt.Grammar(out); e != nil {
		return "srt.write.grammar", fmt.Sprintf("writer output %q violates the SubRip grammar: %v", out, e), 0
	}
	rd, e := srt.Decode(out)
	if e != nil {
		return "srt.write.ref-decode", fmt.Sprintf("independent decoder rejects writer output %q: %v", out, e), 0
	}
	if g := rd.Denote(); g != want {
		return "srt.write.ref-mismatch", fmt.Sprintf("model %q\n written as %q\n independent decoder reads %q", want, out, g), 0
	}
	s2, err2, pan2 := safeRead(out)
	if pan2 != "" || err2 != nil {
		return "srt.write.self-read-fails", fmt.Sprintf("library reader fails on writer output %q: %v %s", out, err2, pan2), 0
	}
	got, _ := FromSubs(s2)
	if g := got.Denote(); g != want {
		return "srt.write.self-mismatch", fmt.Sprintf("model %q\n written as %q\n library reads back %q", want, out, g), 0
	}
	// '&', '<', NBSP survive unchanged (stated separately by the property)
	return "", "", core.Hash64(string(out))
}

func run(c *core.Ctx) {
	bound := 2
	if c.Tier == core.Thorough {
		bound = 3
	}
	full := fullProfile(c.Tier == core.Thorough)
	// The body only GENERATES the case (cheap, deterministic); the visit callback executes it on the
	// real code if this worker owns it.
	var cs Case
	visit := func(sub string) func(x *explore.C) bool {
		return func(x *explore.C) bool {
			if !c.Mine() {
				return true
			}
			cs := cs
			den := cs.Doc.Denote()
			key, msg, out := CheckRead(cs)
			nt := uint64(0)
			if explore.Deviations(x.Trace) > 0 {
				nt = core.Hash64("r", den, fmt.Sprintf("%+v", cs.Render))
			}
			cs.Dir = "read"
			c.Record(sub+".read", out, nt, func() interface{} {
				return map[string]interface{}{"choices": x.Trace, "bytes": string(cs.Doc.Bytes(cs.Render))}
			})
			if key != "" {
				c.Violate("read", key, msg, cs, explore.Deviations(x.Trace)*1000+len(cs.Doc.Bytes(cs.Render)))
			}
			if representable(cs.Doc) {
				key, msg, out = CheckWrite(cs.Doc)
				c.Record(sub+".write", out, core.Hash64("w", den), nil)
				if key != "" {
					cs.Dir = "write"
					c.Violate("write", key, msg, cs, explore.Deviations(x.Trace)*1000+len(den))
				}
			}
			return c.Evals%4096 != 0 || !c.Expired()
		}
	}
	// (1) core product: the full cartesian product of a tiny grammar
	cp := coreProfile()
	explore.Explore(-1, func(x *explore.C) { cs = gen(x, cp, true) }, visit("core"))
	// (1b) three-run lines: every arrangement of 3 styles x 5 texts (incl. a run that is only a no-break
	// space or only an escaped character between two styled runs) on one line
	r3 := profile{ncues: []int{1}, starts: []int64{1000}, ends: []int{0}, nlines: []int{1}, nruns: []int{3},
		styles: []srt.Style{{}, {I: true}, {B: true, Color: "red"}}, texts: []string{"x", "\u00a0", "&", "<", "a b"}}
	explore.Explore(-1, func(x *explore.C) { cs = gen(x, r3, true) }, visit("runs3"))
	// (1c) index handling: two cues, every index form on each (numeric, absent, garbage, "0"), digit-only text
	// lines in first/last position ("7", "-5", "007" are all accepted by Atoi), 1..3 blank lines, every EOL
	explore.Explore(-1, func(x *explore.C) {
		var d srt.Doc
		for k := 0; k < 2; k++ {
			cue := srt.Cue{Start: int64(k+1) * 2000, End: int64(k+1)*2000 + 1000}
			nl := explore.Pick(x, "nlines", 1, 2)
			for l := 0; l < nl; l++ {
				cue.Lines = append(cue.Lines, srt.Line{{Text: explore.Pick(x, "text", "x", "7", "-5", "007")}})
			}
			d = append(d, cue)
		}
		r := srt.DefaultRender(2)
		r.Index[0] = x.Choose("index", 4)
		r.Index[1] = x.Choose("index", 4)
		r.BlankBetw = explore.Pick(x, "blank", 1, 2, 3)
		r.EOL = explore.Pick(x, "eol", "\n", "\r\n", "\r")
		r.EOF = explore.Pick(x, "eof", 0, 1, 2)
		cs = Case{Doc: d, Render: r}
	}, visit("index"))
	// (1d) markup state across lines and cues: two cues, each <=2 lines of one run, three styles, tags kept open
	// lazily / left unterminated at the end of a cue / upper-case / each colour quoting: a style must never leak
	// into the next cue and must carry over lines exactly as the tags say
	explore.Explore(-1, func(x *explore.C) {
		var d srt.Doc
		sts := []srt.Style{{}, {B: true}, {I: true, Color: "#00ff00"}}
		for k := 0; k < 2; k++ {
			cue := srt.Cue{Start: int64(k+1) * 2000, End: int64(k+1)*2000 + 1000}
			nl := explore.Pick(x, "nlines", 1, 2)
			for l := 0; l < nl; l++ {
				cue.Lines = append(cue.Lines, srt.Line{{Text: "x", Style: explore.Pick(x, "style", sts...)}})
			}
			d = append(d, cue)
		}
		r := srt.DefaultRender(2)
		r.Lazy = x.Bool("lazy")
		r.LeaveOpen = x.Bool("leaveopen")
		r.UpperTags = x.Bool("upper")
		r.ColorQuote = x.Choose("quote", 4)
		cs = Case{Doc: d, Render: r}
	}, visit("markup"))
	// (1e) timing lines: instants x fraction digits x separator x hour digits x arrow spacing x coordinates
	explore.Explore(-1, func(x *explore.C) {
		start := explore.Pick(x, "start", int64(1000), 1500, 1250, 36000000, 3600500, 59999, 359998000)
		cue := srt.Cue{Start: start, End: start + explore.Pick(x, "dur", int64(1000), 250, 1), Lines: []srt.Line{{{Text: "x"}}}}
		r := srt.DefaultRender(1)
		r.FracDigits = explore.Pick(x, "frac", 3, 2, 1)
		r.Sep = explore.Pick(x, "sep", ",", ".")
		r.HourDigits = explore.Pick(x, "hours", 2, 1, 3)
		r.Arrow = explore.Pick(x, "arrow", " --> ", "-->", "  -->  ", "\t-->\t", " -->", "--> ")
		r.Coords = explore.Pick(x, "coords", "", " X1:1 X2:2 Y1:3 Y2:4", " X1:100,5 Y1:2.5", "\tX1:1")
		cs = Case{Doc: srt.Doc{cue}, Render: r}
	}, visit("times"))
	// (2) deviation ball around the baseline document over all model and rendering choice points
	explore.Explore(bound, func(x *explore.C) { cs = gen(x, full, false) }, visit("ball"))
	if c.Tier == core.Thorough {
		// four simultaneous departures on the small profile (<=2 cues, lines, runs)
		small := fullProfile(false)
		explore.Explore(4, func(x *explore.C) { cs = gen(x, small, false) }, visit("ball4"))
	}
	c.ExtraMax["deviation_bound"] = float64(bound)
}

func replay(sub string, raw json.RawMessage) (string, bool) {
	var cs Case
	if err := json.Unmarshal(raw, &cs); err != nil {
		return err.Error(), false
	}
	if cs.Dir == "write" {
		key, msg, _ := CheckWrite(cs.Doc)
		return msg, key != ""
	}
	key, msg, _ := CheckRead(cs)
	return msg, key != ""
}

func init() {
	core.Register(&core.Prop{
		ID: "C01", Level: "exploration",
		Rule: "a case = (ground-truth cue model, rendering choices) chosen by the E1 explorer: full cartesian product of a tiny grammar plus every document within B deviations from the baseline over all model and rendering choice points (cue count, instants, lines, runs, 7 styles, 18 text atoms; EOL, BOM, index form, blank lines, EOF form, separator, fraction digits, hour digits, arrow spacing, coordinates, lazy/unterminated tags, tag case, colour quoting, line padding, nbsp form); read direction: ReadFromSRT(render(model)) must denote the model; write direction: WriteToSRT(model) must satisfy the grammar and denote the model to the library reader and to an independent decoder; non-trivial = non-baseline case, distinct by (denotation, rendering)",
		Scope: map[core.Tier]string{
			core.Quick:    "core product (1 cue x <=2 lines x <=2 runs x 3 styles x 3 texts x EOL x index x EOF form x lazy tags) + 3-run product (3 styles x 5 texts incl. no-break-space-only) + index product (2 cues x 4 index forms each x digit-only lines x blank lines x EOL x EOF) + markup-state product (2 cues x <=2 lines x 3 styles x lazy/unterminated/upper-case tags x colour quoting) + deviation ball B=2 (<=2 cues, <=2 lines, <=2 runs)",
			core.Thorough: "core product + 3-run product + deviation ball B=3 (<=3 cues, <=3 lines, <=3 runs) + B=4 on the <=2 profile",
		},
		Assumptions: []string{"Go toolchain and standard library", "independent reference codec engine/ref/srt", "white-space-only runs and outer line white space are outside the SubRip denotation (the format cannot carry them)"},
		Plain:       run, Replay: replay,
	})
}
