package c01

import (
	"os"
	"strconv"
	"testing"

	"verif/explore"
)

// TestDump prints every Nth rendered case of one sub-space (C01_DUMP=sub, C01_EVERY=N) for eyeballing.
func TestDump(t *testing.T) {
	want := os.Getenv("C01_DUMP")
	if want == "" {
		t.Skip()
	}
	every, _ := strconv.Atoi(os.Getenv("C01_EVERY"))
	if every == 0 {
		every = 1
	}
	n := 0
	enumerate(false, 2, func(sub string, x *explore.C, cs Case) bool {
		if sub != want {
			return true
		}
		n++
		if n%every == 0 {
			b := cs.Doc.Bytes(cs.Render)
			if len(b) > 300 {
				b = append(b[:100:100], b[len(b)-150:]...)
			}
			t.Logf("%v %q", x.Trace, b)
		}
		return true
	})
	t.Logf("%s: %d cases", want, n)
}
