// Package c16: timestamp codec, exhaustive sweeps through the public writers and readers only.
package c16

import (
	"bytes"
	"encoding/json"
	"fmt"
	"regexp"
	"strconv"
	"time"

	astisub "github.com/asticode/go-astisub"

	"verif/core"
)

const (
	ms   = int64(time.Millisecond)
	sec  = int64(time.Second)
	hour = int64(time.Hour)
)

// src is an arithmetic progression of instants; nudge adds v-1ns and v+1ns around every v.
type src struct {
	Name           string
	From, To, Step int64 // To exclusive
	Nudge          bool
}

func (s src) count() int64 {
	n := (s.To - s.From + s.Step - 1) / s.Step
	if s.Nudge {
		n *= 3
	}
	return n
}

// batch materialises instants [i0, i0+n) of the source (index space counts nudged instants).
func (s src) batch(i0, n int64, limit int64) []int64 {
	var out []int64
	for i := i0; i < i0+n && i < s.count(); i++ {
		var v int64
		if s.Nudge {
			v = s.From + (i/3)*s.Step + (i%3 - 1)
		} else {
			v = s.From + i*s.Step
		}
		if v < 0 || v >= limit {
			continue
		}
		out = append(out, v)
	}
	return out
}

type format struct {
	name  string
	unit  int64 // resolution in ns
	limit int64
	re    *regexp.Regexp // extracts (h,m,s,frac) x2 per cue from writer output
	fracW int
	write func(*astisub.Subtitles, *bytes.Buffer) error
	read  func([]byte) (*astisub.Subtitles, error)
}

// collect, when set, receives the hash of every distinct rendering (quick tier: exact distinct count)
var collect func(uint64)

var formats = []format{
	{"srt", ms, 100 * hour, regexp.MustCompile(`(?m)^(\d{2,}):(\d\d):(\d\d),(\d+) --> (\d{2,}):(\d\d):(\d\d),(\d+)$`), 3,
		func(s *astisub.Subtitles, b *bytes.Buffer) error { return s.WriteToSRT(b) },
		func(b []byte) (*astisub.Subtitles, error) { return astisub.ReadFromSRT(bytes.NewReader(b)) }},
	{"vtt", ms, 100 * hour, regexp.MustCompile(`(?m)^(\d{2,}):(\d\d):(\d\d)\.(\d+) --> (\d{2,}):(\d\d):(\d\d)\.(\d+)$`), 3,
		func(s *astisub.Subtitles, b *bytes.Buffer) error { return s.WriteToWebVTT(b) },
		func(b []byte) (*astisub.Subtitles, error) { return astisub.ReadFromWebVTT(bytes.NewReader(b)) }},
	{"ttml", ms, 100 * hour, regexp.MustCompile(`<p begin="(\d{2,}):(\d\d):(\d\d)\.(\d+)" end="(\d{2,}):(\d\d):(\d\d)\.(\d+)">`), 3,
		func(s *astisub.Subtitles, b *bytes.Buffer) error { return s.WriteToTTML(b) },
		func(b []byte) (*astisub.Subtitles, error) { return astisub.ReadFromTTML(bytes.NewReader(b)) }},
	{"ssa", 10 * ms, 100 * hour, regexp.MustCompile(`(?m)^Dialogue: [^,]*,(\d+):(\d\d):(\d\d)\.(\d+),(\d+):(\d\d):(\d\d)\.(\d+),`), 2,
		func(s *astisub.Subtitles, b *bytes.Buffer) error {
			c := *s
			c.Metadata = &astisub.Metadata{}
			return c.WriteToSSA(b)
		},
		func(b []byte) (*astisub.Subtitles, error) { return astisub.ReadFromSSA(bytes.NewReader(b)) }},
}

type batchCase struct {
	Format   string  `json:"format"`
	Instants []int64 `json:"instants_ns"`
	FPS      int     `json:"fps,omitempty"`
}

func mkSubs(inst []int64) *astisub.Subtitles {
	s := astisub.NewSubtitles()
	for i := 0; i+1 < len(inst); i += 2 {
		s.Items = append(s.Items, &astisub.Item{StartAt: time.Duration(inst[i]), EndAt: time.Duration(inst[i+1]),
			Lines: []astisub.Line{{Items: []astisub.LineItem{{Text: "x"}}}}})
	}
	return s
}

func atoi(b []byte) int64 { v, _ := strconv.ParseInt(string(b), 10, 64); return v }

// checkText runs one batch through a text format. Returns key,msg and (hash of output, distinct renderings).
func checkText(f format, inst []int64) (key, msg string, out uint64, distinct int64) {
	if len(inst)%2 == 1 {
		inst = append(inst, inst[len(inst)-1])
	}
	defer func() {
		if e := recover(); e != nil {
			key, msg = "ts."+f.name+".panic", fmt.Sprintf("panic: %v", e)
		}
	}()
	s := mkSubs(inst)
	var b bytes.Buffer
	if err := f.write(s, &b); err != nil {
		return "ts." + f.name + ".write-error", err.Error(), 0, 0
	}
	first := append([]byte{}, b.Bytes()...)
	ms := f.re.FindAllSubmatch(first, -1)
	if len(ms) != len(inst)/2 {
		return "ts." + f.name + ".grammar", fmt.Sprintf("%d timing lines match the grammar, %d cues written; first instants %v", len(ms), len(inst)/2, inst[:2]), 0, 0
	}
	prevStr := ""
	var prevVal int64 = -1
	var prevInst int64 = -1
	for k, m := range ms {
		for side := 0; side < 2; side++ {
			t := inst[2*k+side]
			h, mi, se, fr := m[1+4*side], m[2+4*side], m[3+4*side], m[4+4*side]
			str := string(h) + ":" + string(mi) + ":" + string(se) + "." + string(fr)
			if len(fr) != f.fracW || atoi(mi) >= 60 || atoi(se) >= 60 {
				return "ts." + f.name + ".grammar", fmt.Sprintf("instant %dns rendered %q: fields outside the format grammar", t, str), 0, 0
			}
			val := atoi(h)*hour + atoi(mi)*60*sec + atoi(se)*sec + atoi(fr)*f.unit
			exp := t / f.unit * f.unit
			if val != exp {
				return "ts." + f.name + ".not-floor", fmt.Sprintf("instant %dns rendered %q = %dns, expected the latest representable instant not after it = %dns", t, str, val, exp), 0, 0
			}
			if str != prevStr {
				distinct++
				prevStr = str
				if collect != nil {
					collect(core.Hash64(f.name, str))
				}
			}
			if prevInst >= 0 && t >= prevInst && val < prevVal {
				return "ts." + f.name + ".not-monotone", fmt.Sprintf("instant %dns renders earlier than %dns", t, prevInst), 0, 0
			}
			prevInst, prevVal = t, val
		}
	}
	// reader maps the rendering back to that instant
	r, err := f.read(first)
	if err != nil {
		return "ts." + f.name + ".read-error", err.Error(), 0, 0
	}
	if len(r.Items) != len(inst)/2 {
		return "ts." + f.name + ".read-count", fmt.Sprintf("%d cues read back, %d written", len(r.Items), len(inst)/2), 0, 0
	}
	for k, it := range r.Items {
		es, ee := inst[2*k]/f.unit*f.unit, inst[2*k+1]/f.unit*f.unit
		if int64(it.StartAt) != es || int64(it.EndAt) != ee {
			return "ts." + f.name + ".read-back", fmt.Sprintf("cue %d written from %d..%dns, rendering means %d..%dns, reader returned %d..%dns", k, inst[2*k], inst[2*k+1], es, ee, it.StartAt, it.EndAt), 0, 0
		}
	}
	// second write identical
	var b2 bytes.Buffer
	if err := f.write(r, &b2); err != nil {
		return "ts." + f.name + ".write-error", "second write: " + err.Error(), 0, 0
	}
	if !bytes.Equal(first, b2.Bytes()) {
		return "ts." + f.name + ".second-write-differs", fmt.Sprintf("writing what was read back differs from the first write (first instants %v)", inst[:2]), 0, 0
	}
	return "", "", core.Hash64(string(first)), distinct
}

// STL: TTI bytes 5..8 = TCI (h,m,s,f), 9..12 = TCO; GSI 256..263 TCP, 264..271 TCF as HHMMSSFF text.
func checkSTL(fps int, inst []int64) (key, msg string, out uint64, distinct int64) {
	if len(inst)%2 == 1 {
		inst = append(inst, inst[len(inst)-1])
	}
	defer func() {
		if e := recover(); e != nil {
			key, msg = "ts.stl.panic", fmt.Sprintf("panic: %v", e)
		}
	}()
	s := mkSubs(inst)
	cd := time.Date(2020, 1, 2, 0, 0, 0, 0, time.UTC)
	s.Metadata = &astisub.Metadata{Framerate: fps, STLDisplayStandardCode: "0", STLCreationDate: &cd, STLRevisionDate: &cd}
	var b bytes.Buffer
	if err := s.WriteToSTL(&b); err != nil {
		return "ts.stl.write-error", err.Error(), 0, 0
	}
	first := append([]byte{}, b.Bytes()...)
	if len(first) != 1024+128*len(s.Items) {
		return "ts.stl.size", fmt.Sprintf("%d bytes for %d cues", len(first), len(s.Items)), 0, 0
	}
	tag := fmt.Sprintf("ts.stl%d", fps)
	frameNs := func(f int64) (lo, hi int64) { // exact instant of frame f is f/fps s: floor and ceil in ns
		lo = f * sec / int64(fps)
		hi = (f*sec + int64(fps) - 1) / int64(fps)
		return
	}
	var prev [4]byte
	prevInst, prevVal := int64(-1), int64(-1)
	expect := make([][2]int64, 0, len(inst))
	for k := range s.Items {
		tti := first[1024+128*k:]
		for side := 0; side < 2; side++ {
			t := inst[2*k+side]
			f := tti[5+4*side : 9+4*side]
			if int(f[3]) >= fps || f[1] >= 60 || f[2] >= 60 || f[0] >= 24 {
				return tag + ".grammar", fmt.Sprintf("instant %dns rendered %v: field out of range", t, f), 0, 0
			}
			whole := int64(f[0])*hour + int64(f[1])*60*sec + int64(f[2])*sec
			lo, hi := frameNs(int64(f[3]))
			// latest frame boundary not after t
			within := t - t/sec*sec
			expFrame := within * int64(fps) / sec
			if whole != t/sec*sec || int64(f[3]) != expFrame {
				return tag + ".not-floor", fmt.Sprintf("instant %dns rendered %v, expected %d whole ns and frame %d", t, f, t/sec*sec, expFrame), 0, 0
			}
			if [4]byte{f[0], f[1], f[2], f[3]} != prev {
				distinct++
				copy(prev[:], f)
				if collect != nil {
					collect(core.Hash64(tag, string(f)))
				}
			}
			if prevInst >= 0 && t >= prevInst && whole+lo < prevVal {
				return tag + ".not-monotone", fmt.Sprintf("instant %dns renders earlier than %dns", t, prevInst), 0, 0
			}
			prevInst, prevVal = t, whole+lo
			expect = append(expect, [2]int64{whole + lo, whole + hi})
		}
	}
	// GSI text fields
	if k := 0; len(s.Items) > 0 {
		tcf := string(first[264:272])
		f := first[1024+5 : 1024+9]
		want := fmt.Sprintf("%02d%02d%02d%02d", f[0], f[1], f[2], f[3])
		if tcf != want {
			return tag + ".gsi-tcf", fmt.Sprintf("GSI TCF %q but first TCI %q (cue %d)", tcf, want, k), 0, 0
		}
	}
	r, err := astisub.ReadFromSTL(bytes.NewReader(first), astisub.STLOptions{})
	if err != nil {
		return tag + ".read-error", err.Error(), 0, 0
	}
	if len(r.Items) != len(s.Items) {
		return tag + ".read-count", fmt.Sprintf("%d cues read back, %d written", len(r.Items), len(s.Items)), 0, 0
	}
	for k, it := range r.Items {
		for side, got := range []int64{int64(it.StartAt), int64(it.EndAt)} {
			e := expect[2*k+side]
			if got < e[0]-0 || got > e[1]+0 { // floor or ceil of the exact rational: within a nanosecond
				if got < e[0]-1 || got > e[1]+1 {
					return tag + ".read-back", fmt.Sprintf("cue %d side %d: rendering means %d..%dns, reader returned %dns", k, side, e[0], e[1], got), 0, 0
				}
			}
		}
	}
	var b2 bytes.Buffer
	if err := r.WriteToSTL(&b2); err != nil {
		return "ts.stl.write-error", "second write: " + err.Error(), 0, 0
	}
	if !bytes.Equal(first, b2.Bytes()) {
		// locate the first differing cue for the message
		k := 0
		for i := range first {
			if i < len(b2.Bytes()) && first[i] != b2.Bytes()[i] {
				k = (i - 1024) / 128
				break
			}
		}
		key := tag + ".second-write-differs"
		if k >= 0 && k < len(s.Items) {
			o := 1024 + 128*k
			return key, fmt.Sprintf("cue %d (from %d..%dns): first write TCI/TCO %v, after read+write %v", k, inst[2*k], inst[2*k+1], first[o+5:o+13], b2.Bytes()[o+5:o+13]), 0, 0
		}
		return key, "GSI differs after read+write", 0, 0
	}
	return "", "", core.Hash64(string(first[1024:])), distinct
}

func sources(tier core.Tier, unit int64, limit int64) []src {
	var ss []src
	hourMarks := []int64{1, 9, 10, 23, 24, 99}
	if tier == core.Quick {
		ss = append(ss, src{"first-20min-every-unit", 0, 20 * 60 * sec, unit, false})
	} else {
		ss = append(ss, src{"whole-day-every-unit", 0, 24 * hour, unit, false})
	}
	for _, h := range hourMarks {
		ss = append(ss, src{fmt.Sprintf("around-%dh", h), h*hour - 2*sec, h*hour + 2*sec, unit, false})
		ss = append(ss, src{fmt.Sprintf("around-%dh-nudged", h), h*hour - 20*ms, h*hour + 20*ms, ms, true})
	}
	ss = append(ss, src{"last-4s-below-100h", 100*hour - 4*sec, 100 * hour, unit, false})
	// unit boundaries +-1ns
	ss = append(ss, src{"ms-boundaries+-1ns", 0, 3 * sec, ms, true})
	ss = append(ss, src{"second-boundaries+-1ns", 0, 3 * 60 * sec, sec, true})
	ss = append(ss, src{"minute-boundaries+-1ns", 0, 3 * hour, 60 * sec, true})
	ss = append(ss, src{"hour-boundaries+-1ns", 0, 100 * hour, hour, true})
	if unit == 10*ms {
		if tier == core.Quick {
			ss = append(ss, src{"every-10ms+-1ns-first-10min", 0, 10 * 60 * sec, 10 * ms, true})
		} else {
			ss = append(ss, src{"every-10ms+-1ns-whole-day", 0, 24 * hour, 10 * ms, true})
		}
	}
	return ss
}

func stlSources(tier core.Tier, fps int) []src {
	// frame boundaries are not integral in ns at 30 fps: step through frames by index via Step=1 "frame units"
	return nil
}

func run(c *core.Ctx) {
	const batchN = 100000
	if c.Tier == core.Quick {
		collect = func(h uint64) { c.Nontrivial[h] = struct{}{} }
		defer func() { collect = nil }()
	}
	for _, f := range formats {
		for _, s := range sources(c.Tier, f.unit, f.limit) {
			for i0 := int64(0); i0 < s.count(); i0 += batchN {
				if !c.Mine() {
					continue
				}
				inst := s.batch(i0, batchN, f.limit)
				if len(inst) == 0 {
					continue
				}
				key, msg, out, distinct := checkText(f, inst)
				c.Evals += int64(len(inst)) - 1
				c.Extra["instants_"+f.name] += int64(len(inst))
				c.Extra["distinct_renderings_"+f.name] += distinct
				c.Record(f.name+"."+s.Name, out, core.Hash64(f.name, s.Name, fmt.Sprint(i0)), func() interface{} {
					return map[string]interface{}{"format": f.name, "source": s, "first_index": i0, "instants_in_batch": len(inst), "first": inst[0], "last": inst[len(inst)-1]}
				})
				if key != "" {
					c.Violate("text", key, msg, batchCase{Format: f.name, Instants: shrink(inst, func(x []int64) bool { k, _, _, _ := checkText(f, x); return k == key })}, 1)
				}
				if c.Expired() {
					return
				}
			}
		}
	}
	// STL: every frame boundary +-1ns
	for _, fps := range []int{25, 30} {
		type fr struct {
			name     string
			from, to int64 // frame index range over the day
		}
		day := int64(24*3600) * int64(fps)
		var frs []fr
		if c.Tier == core.Quick {
			frs = append(frs, fr{"first-10min", 0, 600 * int64(fps)})
		} else {
			frs = append(frs, fr{"whole-day", 0, day})
		}
		for _, h := range []int64{1, 9, 10, 23} {
			frs = append(frs, fr{fmt.Sprintf("around-%dh", h), (h*3600 - 2) * int64(fps), (h*3600 + 2) * int64(fps)})
		}
		frs = append(frs, fr{"last-2s-of-day", day - 2*int64(fps), day})
		const fb = 10000 // frames per batch -> 30000 instants -> 15000 cues
		for _, r := range frs {
			for f0 := r.from; f0 < r.to; f0 += fb {
				if !c.Mine() {
					continue
				}
				var inst []int64
				for f := f0; f < f0+fb && f < r.to; f++ {
					// exact boundary f/fps s: use ceil (first ns at or after the boundary), then +-1
					b := (f*sec + int64(fps) - 1) / int64(fps)
					for _, v := range []int64{b - 1, b, b + 1} {
						if v >= 0 && v < 24*hour {
							inst = append(inst, v)
						}
					}
				}
				key, msg, out, distinct := checkSTL(fps, inst)
				c.Evals += int64(len(inst)) - 1
				name := fmt.Sprintf("stl%d", fps)
				c.Extra["instants_"+name] += int64(len(inst))
				c.Extra["distinct_renderings_"+name] += distinct
				c.Record(name+"."+r.name, out, core.Hash64(name, r.name, fmt.Sprint(f0)), func() interface{} {
					return map[string]interface{}{"format": name, "frames_from": f0, "instants_in_batch": len(inst), "first": inst[0], "last": inst[len(inst)-1]}
				})
				if key != "" {
					c.Violate("stl", key, msg, batchCase{Format: "stl", FPS: fps, Instants: shrink(inst, func(x []int64) bool { k, _, _, _ := checkSTL(fps, x); return k == key })}, 1)
				}
				if c.Expired() {
					return
				}
			}
		}
	}
}

// shrink bisects a failing batch down to a small failing one (greedy halving, then pairs).
func shrink(inst []int64, fails func([]int64) bool) []int64 {
	cur := inst
	for len(cur) > 2 {
		h := len(cur) / 2
		h -= h % 2
		if h == 0 {
			break
		}
		if fails(cur[:h]) {
			cur = cur[:h]
		} else if fails(cur[h:]) {
			cur = cur[h:]
		} else {
			break
		}
	}
	if len(cur) > 64 {
		cur = cur[:64]
	}
	return append([]int64{}, cur...)
}

func replay(sub string, raw json.RawMessage) (string, bool) {
	var bc batchCase
	if err := json.Unmarshal(raw, &bc); err != nil {
		return err.Error(), false
	}
	if bc.Format == "stl" {
		k, m, _, _ := checkSTL(bc.FPS, bc.Instants)
		return m, k != ""
	}
	for _, f := range formats {
		if f.name == bc.Format {
			k, m, _, _ := checkText(f, bc.Instants)
			return m, k != ""
		}
	}
	return "unknown format", false
}

func init() {
	core.Register(&core.Prop{
		ID: "C16", Level: "exploration",
		Rule: "a case = one instant written as a cue boundary through the PUBLIC writer of a format (batches of 10^5 instants per document), its rendering extracted from the output by a grammar regexp / fixed TTI offsets, parsed by the harness, compared with floor(t/unit)*unit, read back through the public reader, written again and compared byte for byte; monotonicity along each sweep; evaluations = instants; distinct_nontrivial = distinct (format, rendered timestamp) pairs in the quick tier (exact set), distinct batches in the thorough tier where the set would not fit in memory - there the number of rendering changes along the monotone sweeps is reported per format in distinct_renderings_<fmt>",
		Scope: map[core.Tier]string{
			core.Quick:    "SRT/WebVTT/TTML (1ms) and SSA (10ms): every unit step of the first 20 min, +-2s around hours {1,9,10,23,24,99}, last 4s below 100h, ms/second/minute/hour boundaries +-1ns, SSA every 10ms+-1ns of the first 10 min; STL 25 and 30 fps: every frame boundary +-1ns of the first 10 min, +-2s around hours {1,9,10,23}, last 2s of the day; TTI fields and GSI TCF",
			core.Thorough: "every millisecond of [0,24h) for SRT/WebVTT/TTML, every centisecond (+-1ns) for SSA, every frame boundary +-1ns of the whole day for STL at 25 and 30 fps, plus the quick extras",
		},
		Assumptions: []string{"Go toolchain and standard library", "timing fields located by regexp in writer output (a writer that stops emitting recognisable timing lines is reported as a grammar violation)", "STL written with display standard 0 and explicit dates"},
		Plain:       run, Replay: replay,
	})
}
