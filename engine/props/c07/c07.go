// Package c07: any-to-any conversion through the file API and the CLI, with operation histories.
package c07

import (
	"bytes"
	"context"
	"encoding/json"
	"errors"
	"fmt"
	"os"
	"os/exec"
	"path/filepath"
	"sort"
	"strings"
	"time"
	"unicode"

	astisub "github.com/asticode/go-astisub"

	"verif/core"
	"verif/props/corpus"
	"verif/props/lm"
	"verif/props/refops"
)

var destExts = []string{".srt", ".ssa", ".ass", ".stl", ".ttml", ".vtt"}

func fmtOfExt(ext string) string {
	e := strings.TrimPrefix(strings.ToLower(ext), ".")
	if e == "ass" {
		return "ssa"
	}
	return e
}

func stripWS(s string) string {
	var b strings.Builder
	for _, r := range s {
		if !unicode.IsSpace(r) {
			b.WriteRune(r)
		}
	}
	return b.String()
}

// cueText: the cue's text with white space disregarded, lines joined by "\n", empty lines dropped.
func cueText(it *astisub.Item) string {
	var ls []string
	for _, l := range it.Lines {
		var b strings.Builder
		for _, li := range l.Items {
			b.WriteString(li.Text)
		}
		if t := stripWS(b.String()); t != "" {
			ls = append(ls, t)
		}
	}
	return strings.Join(ls, "\n")
}

// project: model of a library value.
func project(s *astisub.Subtitles) lm.List {
	var l lm.List
	for i, it := range s.Items {
		l = append(l, lm.Cue{S: int64(it.StartAt), E: int64(it.EndAt), T: cueText(it), U: i})
	}
	return l
}

// fps of an STL file written from s (library default 25 unless the metadata carries 25/30)
func stlFPS(s *astisub.Subtitles) int64 {
	if s.Metadata != nil && (s.Metadata.Framerate == 25 || s.Metadata.Framerate == 30) {
		return int64(s.Metadata.Framerate)
	}
	return 25
}

// trunc: the instant truncated to the destination's resolution: [lo,hi] accepted range in ns.
func trunc(t int64, dest string, fps int64) (lo, hi int64) {
	switch dest {
	case "ssa":
		v := t / 1e7 * 1e7
		return v, v
	case "stl":
		whole := t / 1e9 * 1e9
		f := (t - whole) * fps / 1e9
		lo = whole + f*1e9/fps
		hi = whole + (f*1e9+fps-1)/fps
		return lo, hi
	default:
		v := t / 1e6 * 1e6
		return v, v
	}
}

// representable: can the destination carry this text at all (property precondition)?
func representable(l lm.List, dest string) (bool, string) {
	for _, c := range l {
		if c.S < 0 || c.E < 0 {
			return false, "negative time"
		}
		if c.S >= 100*3600*1e9 || c.E >= 100*3600*1e9 {
			return false, "time >= 100h"
		}
		switch dest {
		case "srt", "vtt":
			if strings.Contains(c.T, "-->") {
				return false, "text contains -->"
			}
			if dest == "vtt" {
				for _, ln := range strings.Split(c.T, "\n") {
					if strings.HasPrefix(ln, "NOTE") || strings.HasPrefix(ln, "STYLE") || strings.HasPrefix(ln, "Region:") || strings.HasPrefix(ln, "X-TIMESTAMP-MAP") {
						return false, "text looks like a WebVTT block header"
					}
				}
			}
		case "ssa":
			if strings.ContainsAny(c.T, "{}") || strings.Contains(c.T, `\N`) || strings.Contains(c.T, `\n`) {
				return false, "text contains SSA override/line-break syntax"
			}
		case "stl":
			if c.S >= 24*3600*1e9 || c.E >= 24*3600*1e9 {
				return false, "time >= 24h"
			}
			for _, r := range c.T {
				if r == '\n' {
					continue
				}
				if r > 0x7e || r < 0x20 || r == '$' || r == '^' || r == '`' || r == '~' || r == '{' || r == '}' || r == '|' || r == '\\' || r == '[' || r == ']' || r == '_' || r == '#' {
					// outside the part of the Latin table that is plain ASCII on both sides; accented letters are covered by C05
					if !strings.ContainsRune("éèàùâêîôûçëïüÉÈÀ", r) {
						return false, "text outside the conservative Latin subset"
					}
				}
			}
			if len(c.T) > 100 {
				return false, "text longer than a TTI block"
			}
		}
	}
	return true, ""
}

// compare: destination read back vs expected model.
func compare(exp lm.List, got *astisub.Subtitles, dest string, fps int64, ignoreText ...bool) string {
	if len(got.Items) != len(exp) {
		return fmt.Sprintf("cue count: expected %d, read back %d", len(exp), len(got.Items))
	}
	for i, c := range exp {
		g := got.Items[i]
		slo, shi := trunc(c.S, dest, fps)
		elo, ehi := trunc(c.E, dest, fps)
		if int64(g.StartAt) < slo-1 || int64(g.StartAt) > shi+1 || int64(g.EndAt) < elo-1 || int64(g.EndAt) > ehi+1 {
			return fmt.Sprintf("cue %d times: source %d..%d ns, expected %d..%d (truncated to %s resolution), read back %d..%d", i, c.S, c.E, slo, elo, dest, g.StartAt, g.EndAt)
		}
		if len(ignoreText) > 0 && ignoreText[0] {
			continue
		}
		if t := cueText(g); t != c.T {
			return fmt.Sprintf("cue %d text: expected %q, read back %q", i, c.T, t)
		}
	}
	return ""
}

// ---------- (i) pairs through the file API ----------

type PairCase struct {
	Doc     string `json:"doc"`
	SrcExt  string `json:"src_ext"`
	Data    []byte `json:"data"`
	DestExt string `json:"dest_ext"`
	Shape   int    `json:"name_shape,omitempty"` // file-name shape, see nameShapes
}

// nameShapes: where the files live and what precedes the extension. The codec is chosen by the extension, i.e.
// what follows the LAST dot of the file name; dots elsewhere (earlier in the name, in a directory) play no part.
var nameShapes = []struct{ dir, in, out string }{
	{"", "in", "out"},
	{"", "movie.en", "movie.fr.v2"},        // further dots in the base name
	{"season.1", "in", "out"},              // a dot in a directory name
	{"", "in.ttml.bak", "out.srt.new"},     // another format's extension earlier in the name
	{"d.srt", ".hidden.x", "name with sp"}, // leading dot, blank
}

func checkPair(pc PairCase, scratch string) (key, msg string, out uint64) {
	dir, err := os.MkdirTemp(scratch, "c07-")
	if err != nil {
		return "", "", 0
	}
	defer os.RemoveAll(dir)
	sh := nameShapes[pc.Shape%len(nameShapes)]
	if sh.dir != "" {
		dir = filepath.Join(dir, sh.dir)
		os.Mkdir(dir, 0o755)
	}
	in := filepath.Join(dir, sh.in+pc.SrcExt)
	os.WriteFile(in, pc.Data, 0o644)
	dst := fmtOfExt(pc.DestExt)
	tag := fmt.Sprintf("conv.%s->%s", fmtOfExt(pc.SrcExt), dst)
	var s *astisub.Subtitles
	pan := ""
	func() {
		defer func() {
			if e := recover(); e != nil {
				pan = fmt.Sprint(e)
			}
		}()
		s, err = astisub.OpenFile(in)
	}()
	if pan != "" {
		return tag + ".open-panic", "OpenFile panicked: " + pan, 0
	}
	if err != nil {
		// not a readable source: outside the property - unless the format's reader does read these bytes
		if _, rerr, rpan := corpus.Read(fmtOfExt(pc.SrcExt), bytes.NewReader(pc.Data)); rerr == nil && rpan == "" {
			return tag + ".open-fails-on-readable-source", fmt.Sprintf("OpenFile(%q) failed (%v) although the %s reader reads the same bytes", filepath.Base(in), err, fmtOfExt(pc.SrcExt)), 0
		}
		return "", "", core.Hash64("source unreadable")
	}
	exp := project(s)
	fps := stlFPS(s)
	outp := filepath.Join(dir, sh.out+pc.DestExt)
	if pc.Shape == 1 {
		// the destination exists already (an older, longer export): the conversion replaces it
		os.WriteFile(outp, bytes.Repeat([]byte("1\n00:00:09,000 --> 00:00:10,000\nstale\n\n"), 400), 0o644)
	}
	func() {
		defer func() {
			if e := recover(); e != nil {
				pan = fmt.Sprint(e)
			}
		}()
		err = s.Write(outp)
	}()
	desc := fmt.Sprintf("%s (%s) -> %s", pc.Doc, pc.SrcExt, pc.DestExt)
	if pan != "" {
		return tag + ".write-panic", desc + ": Write panicked: " + pan, 0
	}
	if len(exp) == 0 {
		if !errors.Is(err, astisub.ErrNoSubtitlesToWrite) {
			return tag + ".empty-list-error", fmt.Sprintf("%s: empty cue list, Write returned %v, expected ErrNoSubtitlesToWrite", desc, err), 0
		}
		return "", "", core.Hash64("empty")
	}
	ok, why := representable(exp, dst)
	if !ok {
		return "", "", core.Hash64("not representable: " + why)
	}
	if err != nil {
		return tag + ".write-error", fmt.Sprintf("%s: Write failed: %v", desc, err), 0
	}
	var back *astisub.Subtitles
	func() {
		defer func() {
			if e := recover(); e != nil {
				pan = fmt.Sprint(e)
			}
		}()
		back, err = astisub.OpenFile(outp)
	}()
	if pan != "" {
		return tag + ".reread-panic", desc + ": reading the destination back panicked: " + pan, 0
	}
	if err != nil {
		return tag + ".reread-error", fmt.Sprintf("%s: destination cannot be read back: %v", desc, err), 0
	}
	if d := compare(exp, back, dst, fps); d != "" {
		key := tag + ".differs"
		if dst == "stl" && allTextEmpty(back) && !allTextEmptyL(exp) && teletextDSC(s) {
			// known defect shape: under the (default) teletext display standards the writer emits no box codes
			// and the reader returns no text. Branch around it: everything but the text is still compared, and
			// the text round trip is checked with the open-subtitling display standard below.
			key = "conv.->stl.text-lost-under-teletext-display-standard"
			if d2 := compare(exp, back, dst, fps, true); d2 != "" {
				return tag + ".differs", desc + ": " + d2, 0
			}
			if k2, m2 := stlOpenVariant(s, exp, fps, dir, desc, tag); k2 != "" {
				return k2, m2, 0
			}
		}
		return key, desc + ": " + d, 0
	}
	return "", "", core.Hash64(tag, "ok")
}

// teletextDSC: the STL file written from s will carry a teletext display standard (library default "1").
func teletextDSC(s *astisub.Subtitles) bool {
	return s.Metadata == nil || s.Metadata.STLDisplayStandardCode != "0"
}

// stlOpenVariant writes the same list with the open-subtitling display standard and compares everything.
func stlOpenVariant(s *astisub.Subtitles, exp lm.List, fps int64, dir, desc, tag string) (string, string) {
	c := *s
	m := astisub.Metadata{}
	if s.Metadata != nil {
		m = *s.Metadata
	}
	m.STLDisplayStandardCode = "0"
	c.Metadata = &m
	p := filepath.Join(dir, "open.stl")
	if err := c.Write(p); err != nil {
		return tag + ".write-error", desc + " (open-subtitling variant): " + err.Error()
	}
	back, err := astisub.OpenFile(p)
	if err != nil {
		return tag + ".reread-error", desc + " (open-subtitling variant): " + err.Error()
	}
	if d := compare(exp, back, "stl", fps); d != "" {
		return tag + ".differs", desc + " (open-subtitling variant): " + d
	}
	return "", ""
}

func allTextEmpty(s *astisub.Subtitles) bool {
	for _, it := range s.Items {
		if cueText(it) != "" {
			return false
		}
	}
	return true
}
func allTextEmptyL(l lm.List) bool {
	for _, c := range l {
		if c.T != "" {
			return false
		}
	}
	return true
}

// ---------- (ii) histories ----------

type opSpec struct {
	Name string
	P    []int64
}

var alphabet = []opSpec{
	{"add", []int64{1500e6}}, {"add", []int64{-1500e6}}, {"add", []int64{-1e15}},
	{"fragment", []int64{700e6}}, {"fragment", []int64{2e9}},
	{"unfragment", nil}, {"merge", nil}, {"optimize", nil},
	{"linear", []int64{1e9, 2e9, 2e9, 4e9}}, {"linear", []int64{0, 1e9, 10e9, 11e9}},
	{"order", nil},
}

func (o opSpec) String() string {
	if len(o.P) == 0 {
		return o.Name
	}
	return fmt.Sprintf("%s%v", o.Name, o.P)
}

// cliOps: further flag values for the CLI runs only (not part of the history alphabet): reference points given in
// descending order, a correction that only shifts, one that reverses, other duration spellings (never a zero: the
// CLI takes a zero flag value for "not given" and refuses it - its documented usage).
var cliOps = []opSpec{
	{"linear", []int64{2e9, 4e9, 1e9, 2e9}}, {"linear", []int64{10e9, 11e9, 1e9, 2e9}}, {"linear", []int64{3e9, 1e9, 1e9, 3e9}},
	{"add", []int64{250e6}}, {"fragment", []int64{1500e6}},
}

func opAt(i int) opSpec {
	if i < len(alphabet) {
		return alphabet[i]
	}
	return cliOps[i-len(alphabet)]
}

var otherSRT = []byte("1\n00:00:00,500 --> 00:00:01,250\nother one\n\n2\n00:00:02,750 --> 00:00:06,000\nother two\n")

func otherDoc() *astisub.Subtitles {
	s, _ := astisub.ReadFromSRT(bytes.NewReader(otherSRT))
	return s
}

func applyReal(s *astisub.Subtitles, o opSpec) {
	switch o.Name {
	case "add":
		s.Add(time.Duration(o.P[0]))
	case "fragment":
		s.Fragment(time.Duration(o.P[0]))
	case "unfragment":
		s.Unfragment()
	case "merge":
		s.Merge(otherDoc())
	case "optimize":
		s.Optimize()
	case "linear":
		s.ApplyLinearCorrection(time.Duration(o.P[0]), time.Duration(o.P[1]), time.Duration(o.P[2]), time.Duration(o.P[3]))
	case "order":
		s.Order()
	}
}

func ordered(l lm.List) bool {
	for i := 1; i < len(l); i++ {
		if l[i-1].S > l[i].S {
			return false
		}
	}
	return true
}

// applyModel returns the model successor, or ok=false when the operation's precondition (as stated by
// its own property) does not hold in this state.
func applyModel(l lm.List, o opSpec) (lm.List, bool) {
	switch o.Name {
	case "add":
		for _, c := range l {
			if c.S > c.E {
				return nil, false
			}
		}
		return refops.Add(l, o.P[0]), true
	case "fragment":
		if !ordered(l) {
			return nil, false
		}
		for _, c := range l {
			if c.E <= c.S || c.S < 0 {
				return nil, false
			}
		}
		return refops.Fragment(l, o.P[0]), true
	case "unfragment":
		for _, c := range l {
			if c.E < c.S || strings.Contains(c.T, "\n") {
				// the library compares cues by their lines joined with " - ": multi-line texts are outside C11's domain
			}
		}
		return refops.Unfragment(l), true
	case "merge":
		return refops.Merge(l, project(otherDoc())), true
	case "optimize", "order":
		if o.Name == "order" {
			return refops.Order(l), true
		}
		return l.Clone(), true
	case "linear":
		o2 := l.Clone()
		for i := range o2 {
			s := refops.Linear(o2[i].S, o.P[0], o.P[1], o.P[2], o.P[3])
			e := refops.Linear(o2[i].E, o.P[0], o.P[1], o.P[2], o.P[3])
			if !s.IsInt() || !e.IsInt() {
				return nil, false
			}
			o2[i].S, o2[i].E = s.Num().Int64(), e.Num().Int64()
		}
		return o2, true
	}
	return nil, false
}

// histDefs: digest of the definition tables and of the references into them after the last history replayed. Part of
// the search's state key: two lists with the same cues and other tables (after Optimize, Merge) have other futures.
var histDefs string

func defsDigest(s *astisub.Subtitles) string {
	var st, rg []string
	for id, v := range s.Styles {
		p := ""
		if v != nil && v.Style != nil {
			p = v.Style.ID
		}
		st = append(st, id+"<"+p)
	}
	for id, v := range s.Regions {
		p := ""
		if v != nil && v.Style != nil {
			p = v.Style.ID
		}
		rg = append(rg, id+"<"+p)
	}
	sort.Strings(st)
	sort.Strings(rg)
	var b strings.Builder
	fmt.Fprint(&b, st, rg)
	for _, it := range s.Items {
		if it.Style != nil {
			b.WriteString(" s:" + it.Style.ID)
		}
		if it.Region != nil {
			b.WriteString(" r:" + it.Region.ID)
		}
	}
	return b.String()
}

type HistCase struct {
	Doc     string   `json:"doc"`
	Format  string   `json:"format"`
	Data    []byte   `json:"data"`
	History []string `json:"history"`
	HistIdx []int    `json:"history_indices"`
	Dest    string   `json:"dest"`
}

func keyNoUID(l lm.List) string {
	var b strings.Builder
	for _, c := range l {
		fmt.Fprintf(&b, "%d-%d:%s|", c.S, c.E, c.T)
	}
	return b.String()
}

// checkHistory replays the history on a fresh parse and converts to dest (in memory: the same writers
// and readers the file API dispatches to); returns the model state for chaining.
func checkHistory(hc HistCase) (key, msg string, state lm.List, okModel bool) {
	s, err, pan := corpus.Read(hc.Format, bytes.NewReader(hc.Data))
	if err != nil || pan != "" {
		return "", "", nil, false
	}
	model := project(s)
	for _, oi := range hc.HistIdx {
		o := alphabet[oi]
		next, ok := applyModel(model, o)
		if !ok {
			return "", "", nil, false
		}
		pan := ""
		func() {
			defer func() {
				if e := recover(); e != nil {
					pan = fmt.Sprint(e)
				}
			}()
			applyReal(s, o)
		}()
		if pan != "" {
			return "hist.op-panic." + o.Name, fmt.Sprintf("%s after %v: %s panicked: %s", hc.Doc, hc.History, o, pan), nil, false
		}
		model = next
		// the real list must match the composed specifications at every step (times and text, order up to equal starts)
		got := project(s)
		if o.Name == "linear" {
			// float arithmetic: within 1us of the exact value (C15); snap to the model when close
			if len(got) == len(model) {
				for i := range got {
					if abs64(got[i].S-model[i].S) <= 1000 && abs64(got[i].E-model[i].E) <= 1000 {
						s.Items[i].StartAt, s.Items[i].EndAt = time.Duration(model[i].S), time.Duration(model[i].E)
						got[i].S, got[i].E = model[i].S, model[i].E
					}
				}
			}
		}
		if keyNoUID(got.NormEqualStarts()) != keyNoUID(model.NormEqualStarts()) {
			return "hist.op-differs." + o.Name, fmt.Sprintf("%s: after history %v + %s the list is %s, the composed specifications give %s", hc.Doc, hc.History, o, got, model), nil, false
		}
		// keep the model in the real list's order (equal starts may be permuted)
		model = got
	}
	histDefs = defsDigest(s)
	if hc.Dest == "" {
		return "", "", model, true
	}
	dst := hc.Dest
	var buf bytes.Buffer
	werr, wpan := corpus.Write(dst, s, &buf)
	desc := fmt.Sprintf("%s after history %v -> %s", hc.Doc, hc.History, dst)
	tag := fmt.Sprintf("hist.%s->%s", hc.Format, dst)
	if wpan != "" {
		return tag + ".write-panic", desc + ": writer panicked: " + wpan, model, true
	}
	if len(model) == 0 {
		if !errors.Is(werr, astisub.ErrNoSubtitlesToWrite) {
			return tag + ".empty-list-error", fmt.Sprintf("%s: empty list, writer returned %v", desc, werr), model, true
		}
		return "", "", model, true
	}
	if ok, _ := representable(model, dst); !ok {
		return "", "", model, true
	}
	if werr != nil {
		return tag + ".write-error", fmt.Sprintf("%s: writer failed: %v", desc, werr), model, true
	}
	back, rerr, rpan := corpus.Read(dst, bytes.NewReader(buf.Bytes()))
	if rpan != "" || rerr != nil {
		return tag + ".reread-fails", fmt.Sprintf("%s: destination cannot be read back: %v %s", desc, rerr, rpan), model, true
	}
	if d := compare(model, back, dst, stlFPS(s)); d != "" {
		key := tag + ".differs"
		if dst == "stl" && allTextEmpty(back) && !allTextEmptyL(model) && teletextDSC(s) {
			key = "conv.->stl.text-lost-under-teletext-display-standard"
			if d2 := compare(model, back, dst, stlFPS(s), true); d2 != "" {
				return tag + ".differs", desc + ": " + d2, model, true
			}
			c2 := *s
			m := astisub.Metadata{}
			if s.Metadata != nil {
				m = *s.Metadata
			}
			m.STLDisplayStandardCode = "0"
			c2.Metadata = &m
			var b2 bytes.Buffer
			if e, p := corpus.Write("stl", &c2, &b2); e != nil || p != "" {
				return tag + ".write-error", fmt.Sprintf("%s (open-subtitling variant): %v %s", desc, e, p), model, true
			}
			back2, e2, p2 := corpus.Read("stl", bytes.NewReader(b2.Bytes()))
			if e2 != nil || p2 != "" {
				return tag + ".reread-fails", fmt.Sprintf("%s (open-subtitling variant): %v %s", desc, e2, p2), model, true
			}
			if d3 := compare(model, back2, "stl", stlFPS(s)); d3 != "" {
				return tag + ".differs", desc + " (open-subtitling variant): " + d3, model, true
			}
		}
		return key, desc + ": " + d, model, true
	}
	return "", "", model, true
}

func abs64(x int64) int64 {
	if x < 0 {
		return -x
	}
	return x
}

// ---------- (iii) CLI ----------

type CLICase struct {
	Sub     string   `json:"subcommand"`
	Args    []string `json:"args"`
	Doc     string   `json:"doc"`
	SrcExt  string   `json:"src_ext"`
	Data    []byte   `json:"data"`
	Dest    string   `json:"dest_ext"`
	OpIdx   int      `json:"op"`
	InPlace bool     `json:"in_place,omitempty"` // -o names the (first) input file
}

func maskSTLDates(b []byte, ext string) []byte {
	if fmtOfExt(ext) == "stl" && len(b) >= 236 {
		c := append([]byte{}, b...)
		copy(c[224:236], "------------")
		return c
	}
	return b
}

func checkCLI(cc CLICase, bin, scratch string) (key, msg string, out uint64) {
	dir, err := os.MkdirTemp(scratch, "c07cli-")
	if err != nil {
		return "", "", 0
	}
	defer os.RemoveAll(dir)
	in := filepath.Join(dir, "in"+cc.SrcExt)
	os.WriteFile(in, cc.Data, 0o644)
	in2 := filepath.Join(dir, "other.srt")
	os.WriteFile(in2, otherSRT, 0o644)
	if cc.Sub == "merge" && cc.SrcExt == ".ts" {
		// both inputs are transport streams: the page option must reach the second one as well
		in2 = filepath.Join(dir, "other.TS")
		os.WriteFile(in2, cc.Data, 0o644)
	}
	outp := filepath.Join(dir, "cli"+cc.Dest)
	libIn := in
	if cc.InPlace {
		// the output path is the input path: the library side works on a copy made beforehand
		outp = in
		libIn = filepath.Join(dir, "copy"+cc.SrcExt)
		os.WriteFile(libIn, cc.Data, 0o644)
	}
	args := []string{cc.Sub, "-i", in}
	if cc.Sub == "merge" {
		args = append(args, "-i", in2)
	}
	page := 0
	if cc.SrcExt == ".ts" {
		// explicit teletext page on the command line (the library side passes the same option)
		page = 888
		if strings.Contains(cc.Doc, "german") {
			page = 150
		}
		if strings.Contains(cc.Doc, "two-pages") {
			page = 889 // not the first subtitle page of the stream
		}
		args = append(args, "-p", fmt.Sprint(page))
	}
	args = append(args, cc.Args...)
	args = append(args, "-o", outp)
	// generous horizon: a conversion of a small file takes milliseconds; a CLI that has not finished after two
	// minutes is reported as hanging (e.g. a sub-command wired to the wrong operation looping forever)
	ctx, cancel := context.WithTimeout(context.Background(), 2*time.Minute)
	defer cancel()
	cmd := exec.CommandContext(ctx, bin, args...)
	cout, cerr := cmd.CombinedOutput()
	if ctx.Err() != nil {
		return "cli." + cc.Sub + ".hangs", fmt.Sprintf("astisub %s %v on %s did not finish within 2 minutes", cc.Sub, cc.Args, cc.Doc), 0
	}
	// library side
	s, lerr := astisub.Open(astisub.Options{Filename: libIn, Teletext: astisub.TeletextOptions{Page: page}})
	if lerr != nil {
		return "", "", core.Hash64("source unreadable")
	}
	libp := filepath.Join(dir, "lib"+cc.Dest)
	var werr error
	pan := ""
	func() {
		defer func() {
			if e := recover(); e != nil {
				pan = fmt.Sprint(e)
			}
		}()
		if cc.Sub == "merge" && cc.SrcExt == ".ts" {
			s2, e2 := astisub.Open(astisub.Options{Filename: in2, Teletext: astisub.TeletextOptions{Page: page}})
			if e2 != nil {
				panic(e2)
			}
			s.Merge(s2)
		} else if cc.OpIdx >= 0 {
			applyReal(s, opAt(cc.OpIdx))
		}
		werr = s.Write(libp)
	}()
	desc := fmt.Sprintf("astisub %s (%s -> %s)", strings.Join(args[:1], " "), cc.Doc, cc.Dest)
	if pan != "" {
		return "", "", core.Hash64("library panics: other checks") // reported by pairs/histories
	}
	if werr != nil {
		if cerr == nil {
			return "cli." + cc.Sub + ".succeeds-where-library-fails", fmt.Sprintf("%s: library Write fails (%v) but the CLI exits 0", desc, werr), 0
		}
		return "", "", core.Hash64("both fail")
	}
	if cerr != nil {
		return "cli." + cc.Sub + ".fails", fmt.Sprintf("%s: CLI failed (%v): %s", desc, cerr, clip(string(cout))), 0
	}
	a, _ := os.ReadFile(outp)
	b, _ := os.ReadFile(libp)
	if !bytes.Equal(maskSTLDates(a, cc.Dest), maskSTLDates(b, cc.Dest)) {
		return "cli." + cc.Sub + ".differs-from-library", fmt.Sprintf("%s: the file written by the CLI differs from the library's for the same arguments (%d vs %d bytes)", desc, len(a), len(b)), 0
	}
	return "", "", core.Hash64("cli", cc.Sub, "ok")
}

func clip(s string) string {
	if len(s) > 300 {
		return s[:300] + "…"
	}
	return s
}

func extOf(format string) string { return "." + format }

func run(c *core.Ctx) {
	docs := corpus.All()
	// (i) pairs
	for _, d := range append(append([]corpus.Doc{}, docs...), corpus.Large()...) {
		if !d.Valid {
			continue
		}
		for _, de := range destExts {
			if !c.Mine() {
				continue
			}
			pc := PairCase{Doc: d.Name, SrcExt: extOf(d.Format), Data: d.Data, DestExt: de}
			key, msg, out := checkPair(pc, c.Scratch)
			c.Traces++
			c.Transitions++
			c.State(core.Hash64("pair", d.Name))
			c.Record("pair", out, core.Hash64(d.Name, de), func() interface{} { return map[string]string{"doc": d.Name, "dest": de} })
			if key != "" {
				c.Violate("pair", key, msg, pc, len(d.Data))
			}
		}
	}
	// extension handling: case-insensitive dispatch, invalid extension error
	for _, d := range corpus.Small() {
		if !d.Valid {
			continue
		}
		ses := []string{strings.ToUpper(extOf(d.Format)), mixed(extOf(d.Format))}
		if d.Format == "ssa" {
			ses = append(ses, ".ass", ".ASS", ".Ass")
		}
		for _, se := range ses {
			for _, de := range []string{".SRT", ".Vtt", ".TTML", ".Ass", ".sTl"} {
				if !c.Mine() {
					continue
				}
				for shape := range nameShapes {
					pc := PairCase{Doc: d.Name, SrcExt: se, Data: d.Data, DestExt: de, Shape: shape}
					key, msg, out := checkPair(pc, c.Scratch)
					c.Traces++
					c.Record("pair.case", out, core.Hash64(d.Name, se, de, fmt.Sprint(shape)), nil)
					if key != "" {
						c.Violate("pair", key, msg, pc, len(d.Data)+1+shape)
					}
				}
			}
		}
		if c.Mine() {
			key, msg := checkInvalidExt(d, c.Scratch)
			c.Traces++
			c.Record("pair.invalid-ext", core.Hash64(key), core.Hash64(d.Name, "invalid"), nil)
			if key != "" {
				c.Violate("ext", key, msg, PairCase{Doc: d.Name, SrcExt: extOf(d.Format), Data: d.Data, DestExt: ".xyz"}, 1)
			}
		}
	}
	// (ii) histories: BFS over operation sequences with canonical-state deduplication
	depth := 3
	if c.Tier == core.Thorough {
		depth = 4
	}
	srcs := []string{"vtt-equal-times-equal-texts", "ttml-region-style-chain", "ttml-framerate-24", "ssa-v4plus", "stl-open-30-tcp10h", "srt-lf", "srt-bom-noindex-eofblank", "vtt-full", "ssa-small", "ttml-small", "stl-open-25-2", "testdata/example-in.srt", "testdata/example-in.vtt", "testdata/example-in.ttml", "testdata/example-in.ssa", "testdata/example-opn-in.stl"}
	for _, d := range docs {
		use := false
		for _, n := range srcs {
			if d.Name == n {
				use = true
			}
		}
		if !use && d.Format != "ts" {
			continue
		}
		type node struct {
			idx  []int
			hist []string
		}
		seen := map[string]bool{}
		fr := []node{{}}
		for dep := 0; dep <= depth; dep++ {
			var next []node
			for _, n := range fr {
				// state reached: convert to every destination
				hc0 := HistCase{Doc: d.Name, Format: d.Format, Data: d.Data, History: n.hist, HistIdx: n.idx}
				k0, m0, st, ok := checkHistory(hc0)
				if k0 != "" && c.Shard == 0 {
					// an operation of the history departs from its specification (or panics): reported once
					c.Violate("history", k0, m0, hc0, len(n.idx)*1000+len(d.Data))
				}
				if !ok {
					continue
				}
				k := keyNoUID(st) + "#" + histDefs
				if seen[k] && dep > 0 {
					continue
				}
				seen[k] = true
				c.State(core.Hash64(d.Name, k))
				for _, dst := range corpus.WriteFormats {
					if !c.Mine() {
						continue
					}
					hc := HistCase{Doc: d.Name, Format: d.Format, Data: d.Data, History: n.hist, HistIdx: n.idx, Dest: dst}
					key, msg, _, _ := checkHistory(hc)
					c.Transitions += int64(len(n.idx)) + 1
					c.Traces++
					c.Record("history", core.Hash64(key, dst), core.Hash64(d.Name, fmt.Sprint(n.idx), dst), func() interface{} {
						return map[string]interface{}{"doc": d.Name, "history": n.hist, "dest": dst}
					})
					if key != "" {
						c.Violate("history", key, msg, hc, len(n.idx)*1000+len(d.Data))
					}
				}
				if dep < depth {
					for oi, o := range alphabet {
						next = append(next, node{append(append([]int{}, n.idx...), oi), append(append([]string{}, n.hist...), o.String())})
					}
				}
			}
			fr = next
			if c.Expired() {
				return
			}
		}
	}
	// (iii) CLI
	bin := os.Getenv("VERIF_CLI_BIN")
	if bin == "" {
		c.Note("CLI part skipped: VERIF_CLI_BIN unset")
		return
	}
	type sub struct {
		name string
		args []string
		op   int
	}
	subs := []sub{
		{"convert", nil, -1},
		{"sync", []string{"-s", "1.5s"}, 0}, {"sync", []string{"-s", "-1.5s"}, 1},
		{"fragment", []string{"-f", "700ms"}, 3}, {"fragment", []string{"-f", "2s"}, 4},
		{"unfragment", nil, 5}, {"merge", nil, 6}, {"optimize", nil, 7},
		{"apply-linear-correction", []string{"-a1", "1s", "-d1", "2s", "-a2", "2s", "-d2", "4s"}, 8},
		{"apply-linear-correction", []string{"-a1", "2s", "-d1", "4s", "-a2", "1s", "-d2", "2s"}, len(alphabet)},
		{"apply-linear-correction", []string{"-a1", "10s", "-d1", "11s", "-a2", "1s", "-d2", "2s"}, len(alphabet) + 1},
		{"apply-linear-correction", []string{"-a1", "3s", "-d1", "1s", "-a2", "1s", "-d2", "3s"}, len(alphabet) + 2},
		{"sync", []string{"-s", "250ms"}, len(alphabet) + 3}, {"fragment", []string{"-f", "1.5s"}, len(alphabet) + 4},
	}
	valid := []corpus.Doc{}
	for _, d := range corpus.Small() {
		if d.Valid && d.Name != "stl-gsi-only" {
			valid = append(valid, d)
		}
	}
	n := 0
	for si, sb := range subs {
		for di, d := range valid {
			des := destExts
			if sb.name == "convert" || sb.name == "optimize" {
				des = append(append([]string{}, destExts...), ".SRT", ".TtMl", ".Ass")
			}
			for ei, de := range des {
				_, _, _ = di, ei, si // every sub-command on every (source, destination) pair in both tiers
				n++
				if !c.Mine() {
					continue
				}
				cc := CLICase{Sub: sb.name, Args: sb.args, Doc: d.Name, SrcExt: extOf(d.Format), Data: d.Data, Dest: de, OpIdx: sb.op}
				if de == extOf(d.Format) && d.Format != "ts" && sb.name != "merge" {
					// the same sub-command once more with -o naming the input file (edit in place)
					ip := cc
					ip.InPlace = true
					if k2, m2, _ := checkCLI(ip, bin, c.Scratch); k2 != "" {
						c.Violate("cli", k2+".in-place", m2+" (with -o naming the input file)", ip, len(d.Data)+1)
					}
					c.Traces++
				}
				key, msg, out := checkCLI(cc, bin, c.Scratch)
				c.Traces++
				c.Transitions++
				c.Record("cli."+sb.name, out, core.Hash64("cli", sb.name, d.Name, de), func() interface{} {
					return map[string]interface{}{"subcommand": sb.name, "args": sb.args, "doc": d.Name, "dest": de}
				})
				if key != "" {
					c.Violate("cli", key, msg, cc, len(d.Data))
				}
			}
		}
	}
	// CLI error exits
	if c.Mine() {
		dir, _ := os.MkdirTemp(c.Scratch, "c07err-")
		defer os.RemoveAll(dir)
		in := filepath.Join(dir, "in.srt")
		os.WriteFile(in, valid[0].Data, 0o644)
		for _, tc := range []struct {
			name string
			args []string
		}{
			{"unknown-subcommand", []string{"frobnicate", "-i", in, "-o", filepath.Join(dir, "o.srt")}},
			{"bad-output-extension", []string{"convert", "-i", in, "-o", filepath.Join(dir, "o.xyz")}},
			{"missing-output", []string{"convert", "-i", in}},
			{"missing-input", []string{"convert", "-o", filepath.Join(dir, "o.srt")}},
			{"bad-input-extension", []string{"convert", "-i", filepath.Join(dir, "in.xyz"), "-o", filepath.Join(dir, "o.srt")}},
			{"sync-without-duration", []string{"sync", "-i", in, "-o", filepath.Join(dir, "o2.srt")}},
		} {
			err := exec.Command(bin, tc.args...).Run()
			c.Traces++
			c.Record("cli.errors", core.Hash64(tc.name, fmt.Sprint(err != nil)), core.Hash64("clierr", tc.name), nil)
			if err == nil {
				c.Violate("clierr", "cli.error-exit."+tc.name, "astisub "+strings.Join(tc.args[:1], " ")+" ("+tc.name+") exited 0", map[string]string{"case": tc.name}, 1)
			}
		}
	}
}

func mixed(ext string) string {
	b := []byte(ext)
	for i := range b {
		if i%2 == 1 {
			b[i] = byte(unicode.ToUpper(rune(b[i])))
		}
	}
	return string(b)
}

func checkInvalidExt(d corpus.Doc, scratch string) (string, string) {
	dir, err := os.MkdirTemp(scratch, "c07x-")
	if err != nil {
		return "", ""
	}
	defer os.RemoveAll(dir)
	s, rerr, pan := corpus.Read(d.Format, bytes.NewReader(d.Data))
	if rerr != nil || pan != "" || len(s.Items) == 0 {
		return "", ""
	}
	os.Mkdir(filepath.Join(dir, "d.srt"), 0o755)
	for _, ext := range []string{".xyz", "", ".srtx", ".ts", ".srt.xyz", ".srt.", "srt", ".s rt"} {
		err := s.Write(filepath.Join(dir, "out"+ext))
		if ext == "" && errors.Is(err, astisub.ErrInvalidExtension) {
			err = s.Write(filepath.Join(dir, "d.srt", "out")) // the directory's name is not the file's extension
		}
		if !errors.Is(err, astisub.ErrInvalidExtension) {
			return "ext.write-no-invalid-extension-error", fmt.Sprintf("Write to %q returned %v, expected ErrInvalidExtension", "out"+ext, err)
		}
	}
	for _, name := range []string{"in.xyz", "in." + d.Format + ".xyz", filepath.Join("d.srt", "in")} {
		in := filepath.Join(dir, name)
		os.WriteFile(in, d.Data, 0o644)
		if _, err := astisub.OpenFile(in); !errors.Is(err, astisub.ErrInvalidExtension) {
			return "ext.open-no-invalid-extension-error", fmt.Sprintf("OpenFile(%s) returned %v, expected ErrInvalidExtension", name, err)
		}
	}
	return "", ""
}

func replay(sub string, raw json.RawMessage) (string, bool) {
	switch sub {
	case "pair", "ext":
		var pc PairCase
		json.Unmarshal(raw, &pc)
		k, m, _ := checkPair(pc, os.TempDir())
		return m, k != ""
	case "history":
		var hc HistCase
		json.Unmarshal(raw, &hc)
		k, m, _, _ := checkHistory(hc)
		return m, k != ""
	case "cli":
		var cc CLICase
		json.Unmarshal(raw, &cc)
		bin := os.Getenv("VERIF_CLI_BIN")
		if bin == "" {
			return "needs VERIF_CLI_BIN", false
		}
		k, m, _ := checkCLI(cc, bin, os.TempDir())
		return m, k != ""
	}
	return "not replayable", false
}

func init() {
	core.Register(&core.Prop{
		ID: "C07", Level: "model_checking",
		Rule: "(i) every readable corpus document x every destination extension through OpenFile + Write on real files (plus upper/mixed-case extensions x 5 file-name shapes - further dots in the base name or in a directory, another format's extension earlier in the name, leading dot, blank - and invalid extensions incl. a known one that is not last); (ii) explicit-state search: states = canonical cue lists reached from a source document by operation sequences over an 11-letter alphabet (sync +-1.5s / -inf, fragment 700ms / 2s, unfragment, merge, optimize, 2 linear corrections, order), deduplicated; every transition executed by the real operation and compared with the composed reference specifications of C09-C15; every reached state written to all five writers and read back; (iii) the CLI binary built from the tree: every (source, destination) pair under every sub-command, output compared byte for byte with the library's for the same arguments, plus error exits. Oracle for a conversion: same number of cues in the same order, start/end truncated to the destination resolution (ms; cs for SSA; frame for STL), same text with white space disregarded; ErrNoSubtitlesToWrite for an empty list, ErrInvalidExtension for an unknown extension",
		Scope: map[core.Tier]string{
			core.Quick:    "all valid corpus documents x 6 destinations; source documents of every format x all operation sequences of length <=3 (1464 sequences, deduplicated by canonical state) x 5 writers; CLI: convert on all pairs, other sub-commands on a quarter of the pairs",
			core.Thorough: "operation sequences of length <=4 (the property's own bound); CLI all sub-commands on all pairs",
		},
		Assumptions: []string{"Go toolchain and standard library", "the source reader is trusted here (its fidelity is C01-C06)", "text compared with ALL white space removed (weaker than 'inter-run white space disregarded', never stronger)", "preconditions enforced by the generator: non-negative times < 100h (< 24h for STL), text representable in the destination (conservative per-destination predicate)"},
		Plain:       run, Replay: replay,
	})
}
