// Package purity takes a canonical deep snapshot of a value: contents, nil-ness, pointer aliasing
// structure (each distinct pointer gets its first-visit ordinal), map contents by sorted key, slice
// len AND cap AND the contents of the spare capacity (an in-place append or sort through a value
// receiver shows up there).
package purity

import (
	"fmt"
	"reflect"
	"sort"
	"strings"
)

type snap struct {
	b    strings.Builder
	ptrs map[uintptr]int
}

func Snapshot(v interface{}) string {
	s := &snap{ptrs: map[uintptr]int{}}
	s.walk(reflect.ValueOf(v), 0)
	return s.b.String()
}

func (s *snap) walk(v reflect.Value, depth int) {
	if depth > 40 {
		s.b.WriteString("<deep>")
		return
	}
	switch v.Kind() {
	case reflect.Invalid:
		s.b.WriteString("<invalid>")
	case reflect.Ptr:
		if v.IsNil() {
			s.b.WriteString("nil")
			return
		}
		p := v.Pointer()
		if n, ok := s.ptrs[p]; ok {
			fmt.Fprintf(&s.b, "^%d", n)
			return
		}
		n := len(s.ptrs)
		s.ptrs[p] = n
		fmt.Fprintf(&s.b, "&%d", n)
		s.walk(v.Elem(), depth+1)
	case reflect.Interface:
		if v.IsNil() {
			s.b.WriteString("nil")
			return
		}
		s.walk(v.Elem(), depth+1)
	case reflect.Struct:
		s.b.WriteString(v.Type().Name() + "{")
		for i := 0; i < v.NumField(); i++ {
			if !v.Type().Field(i).IsExported() {
				// time.Time etc.: print via fmt
				continue
			}
			s.b.WriteString(v.Type().Field(i).Name + ":")
			s.walk(v.Field(i), depth+1)
			s.b.WriteString(" ")
		}
		if v.Type().PkgPath() == "time" {
			fmt.Fprintf(&s.b, "%v", v.Interface())
		}
		s.b.WriteString("}")
	case reflect.Slice:
		if v.IsNil() {
			s.b.WriteString("nil[]")
			return
		}
		fmt.Fprintf(&s.b, "[len=%d cap=%d @", v.Len(), v.Cap())
		if v.Cap() > 0 {
			p := v.Pointer()
			if n, ok := s.ptrs[p]; ok {
				fmt.Fprintf(&s.b, "^%d", n)
			} else {
				s.ptrs[p] = len(s.ptrs)
				fmt.Fprintf(&s.b, "&%d", s.ptrs[p])
			}
		}
		s.b.WriteString(":")
		full := v.Slice(0, v.Cap())
		for i := 0; i < full.Len(); i++ {
			if i == v.Len() {
				s.b.WriteString(" |spare| ")
			}
			s.walk(full.Index(i), depth+1)
			s.b.WriteString(",")
		}
		s.b.WriteString("]")
	case reflect.Array:
		s.b.WriteString("[")
		for i := 0; i < v.Len(); i++ {
			s.walk(v.Index(i), depth+1)
			s.b.WriteString(",")
		}
		s.b.WriteString("]")
	case reflect.Map:
		if v.IsNil() {
			s.b.WriteString("nilmap")
			return
		}
		keys := v.MapKeys()
		sort.Slice(keys, func(i, j int) bool { return fmt.Sprint(keys[i]) < fmt.Sprint(keys[j]) })
		s.b.WriteString("map[")
		for _, k := range keys {
			fmt.Fprintf(&s.b, "%v=>", k)
			s.walk(v.MapIndex(k), depth+1)
			s.b.WriteString(",")
		}
		s.b.WriteString("]")
	case reflect.String:
		fmt.Fprintf(&s.b, "%q", v.String())
	case reflect.Func:
		if v.IsNil() {
			s.b.WriteString("nilfunc")
		} else {
			s.b.WriteString("func")
		}
	default:
		fmt.Fprintf(&s.b, "%v", v)
	}
}

// Roomy rebuilds, in place, every slice reachable from v (a pointer) with spare capacity behind its elements, filled
// with recognisable values: the caller's memory a callee's append would write into. Contents, nil-ness and aliasing
// between pointers are kept; a callee that appends to a slice it was given, or re-slices it beyond its length,
// changes the spare region, which Snapshot prints.
func Roomy(v interface{}) {
	roomy(reflect.ValueOf(v), map[uintptr]bool{}, 0)
}

func roomy(v reflect.Value, seen map[uintptr]bool, depth int) {
	if depth > 40 {
		return
	}
	switch v.Kind() {
	case reflect.Ptr:
		if v.IsNil() || seen[v.Pointer()] {
			return
		}
		seen[v.Pointer()] = true
		roomy(v.Elem(), seen, depth+1)
	case reflect.Interface:
		if !v.IsNil() && v.Elem().Kind() == reflect.Ptr {
			roomy(v.Elem(), seen, depth+1)
		}
	case reflect.Struct:
		if v.Type().PkgPath() == "time" {
			return
		}
		for i := 0; i < v.NumField(); i++ {
			if v.Type().Field(i).IsExported() {
				roomy(v.Field(i), seen, depth+1)
			}
		}
	case reflect.Slice:
		if v.IsNil() || !v.CanSet() {
			return
		}
		n := v.Len()
		w := reflect.MakeSlice(v.Type(), n+3, n+3)
		reflect.Copy(w, v)
		for i := n; i < n+3; i++ {
			switch w.Index(i).Kind() {
			case reflect.String:
				w.Index(i).SetString("~spare")
			case reflect.Uint8:
				w.Index(i).SetUint('~')
			}
		}
		v.Set(w.Slice(0, n))
		for i := 0; i < n; i++ {
			roomy(v.Index(i), seen, depth+1)
		}
	case reflect.Array:
		for i := 0; i < v.Len(); i++ {
			roomy(v.Index(i), seen, depth+1)
		}
	case reflect.Map:
		if v.IsNil() {
			return
		}
		for _, k := range v.MapKeys() {
			e := v.MapIndex(k)
			if e.Kind() == reflect.Ptr || e.Kind() == reflect.Interface {
				roomy(e, seen, depth+1)
			}
		}
	}
}
