// Package c08: totality. No reader or writer ever panics or loops forever. Runs in the
// instrumented build: every statement of package astisub is a counted step, and an execution that
// exceeds its (linear) step budget is aborted from inside the hook and reported as non-termination.
package c08

import (
	"bytes"
	"encoding/json"
	"fmt"
	"io"
	"math/big"
	"os"
	"path/filepath"
	"reflect"
	"runtime/debug"
	"strings"
	"time"

	"github.com/asticode/go-astikit"
	astisub "github.com/asticode/go-astisub"

	"verif/core"
	"verif/explore"
	"verif/hooks"
	"verif/props/corpus"
	"verif/ref/teletext"
)

type budgetExceeded struct{ steps int64 }

var steps, budget int64

func hook(site int) {
	steps++
	if steps > budget {
		panic(budgetExceeded{steps})
	}
}

const (
	budgetBase    = 50000
	budgetPerByte = 400
)

// guarded runs f with a step budget; returns "" | "panic: ..." | "budget".
func guarded(size int, f func()) (res string, used int64, stack string) {
	steps, budget = 0, budgetBase+budgetPerByte*int64(size)
	hooks.SetPoint(hook)
	defer func() {
		hooks.SetPoint(nil)
		used = steps
		if e := recover(); e != nil {
			if _, ok := e.(budgetExceeded); ok {
				res = "budget"
				return
			}
			res = fmt.Sprintf("panic: %v", e)
			stack = string(debug.Stack())
		}
	}()
	f()
	return
}

// inAstits: the innermost non-runtime frame of the panic is in the demuxer.
func inAstits(stack string) bool {
	lines := strings.Split(stack, "\n")
	seenPanic := false
	for _, l := range lines {
		if strings.HasPrefix(l, "panic(") {
			seenPanic = true
			continue
		}
		if !seenPanic || strings.HasPrefix(l, "\t") || strings.HasPrefix(l, "runtime.") || strings.HasPrefix(l, "runtime/") {
			continue
		}
		if strings.Contains(l, "go-astikit") {
			continue // helper library: attribute the crash to whoever called it
		}
		return strings.Contains(l, "go-astits")
	}
	return false
}

type ReadCase struct {
	Reader string `json:"reader"` // srt vtt ttml ssa ssa-noopts stl stl-ignoretcp ts ts-page ts-pid open:<ext>
	Data   []byte `json:"data"`
	Origin string `json:"origin"`
}

var readers = []string{"srt", "vtt", "ttml", "ssa", "ssa-noopts", "stl", "stl-ignoretcp", "ts", "ts-page", "ts-pid"}

func readersFor(format string) []string {
	switch format {
	case "ssa":
		return []string{"ssa", "ssa-noopts"}
	case "stl":
		return []string{"stl", "stl-ignoretcp"}
	case "ts":
		return []string{"ts", "ts-page", "ts-pid"}
	}
	return []string{format}
}

func callReader(name string, data []byte, scratch string) {
	r := bytes.NewReader(data)
	switch {
	case name == "srt":
		astisub.ReadFromSRT(r)
	case name == "vtt":
		astisub.ReadFromWebVTT(r)
	case name == "ttml":
		astisub.ReadFromTTML(r)
	case name == "ssa":
		astisub.ReadFromSSA(r)
	case name == "ssa-noopts":
		astisub.ReadFromSSAWithOptions(r, astisub.SSAOptions{})
	case name == "stl":
		astisub.ReadFromSTL(r, astisub.STLOptions{})
	case name == "stl-ignoretcp":
		astisub.ReadFromSTL(r, astisub.STLOptions{IgnoreTimecodeStartOfProgramme: true})
	case name == "ts":
		astisub.ReadFromTeletext(r, astisub.TeletextOptions{})
	case name == "ts-page":
		astisub.ReadFromTeletext(r, astisub.TeletextOptions{Page: 888})
	case name == "ts-pid":
		astisub.ReadFromTeletext(r, astisub.TeletextOptions{PID: 256, Page: 100})
	case strings.HasPrefix(name, "ts-opt:"):
		// "ts-opt:<page>:<pid>": every option value is an input too
		var page, pid int
		fmt.Sscanf(strings.TrimPrefix(name, "ts-opt:"), "%d:%d", &page, &pid)
		astisub.ReadFromTeletext(r, astisub.TeletextOptions{Page: page, PID: pid})
	case name == "ssa-callbacks":
		n := 0
		astisub.ReadFromSSAWithOptions(r, astisub.SSAOptions{OnUnknownSectionName: func(string) { n++ }, OnInvalidLine: func(string) { n++ }})
	case strings.HasPrefix(name, "open:"):
		p := filepath.Join(scratch, fmt.Sprintf("c08-%d%s", os.Getpid(), strings.TrimPrefix(name, "open:")))
		os.WriteFile(p, data, 0o644)
		defer os.Remove(p)
		astisub.OpenFile(p)
	}
}

func checkRead(rc ReadCase, scratch string) (key, msg string, used int64) {
	res, used, stack := guarded(len(rc.Data), func() { callReader(rc.Reader, rc.Data, scratch) })
	fam := strings.Split(rc.Reader, "-")[0]
	fam = strings.Split(fam, ":")[0]
	switch {
	case res == "":
		return "", "", used
	case res == "budget":
		return "total.read." + fam + ".step-budget", fmt.Sprintf("reader %s on %d bytes (%s) exceeded %d steps in package astisub: does not return in time proportional to the input\ninput: %q", rc.Reader, len(rc.Data), rc.Origin, budget, clip(rc.Data)), used
	default:
		if strings.HasPrefix(rc.Reader, "ts") && inAstits(stack) {
			return "", "", used // the demuxer's own crash: excluded by the property
		}
		return "total.read." + fam + ".panic:" + panicSite(stack), fmt.Sprintf("reader %s on %d bytes (%s): %s\ninput: %q\n%s", rc.Reader, len(rc.Data), rc.Origin, res, clip(rc.Data), firstFrames(stack)), used
	}
}

func clip(b []byte) string {
	if len(b) > 300 {
		return string(b[:300]) + "…"
	}
	return string(b)
}

// panicSite: the first go-astisub frame below the panic, as "file.go:func" (narrow key: one key per crashing function).
func panicSite(stack string) string {
	lines := strings.Split(stack, "\n")
	seenPanic := false
	for i, l := range lines {
		if strings.HasPrefix(l, "panic(") {
			seenPanic = true
			continue
		}
		if seenPanic && strings.Contains(l, "go-astisub.") && !strings.HasPrefix(l, "\t") {
			fn := l[strings.LastIndex(l, "go-astisub.")+len("go-astisub."):]
			if j := strings.Index(fn, "("); j > 0 && !strings.HasPrefix(fn, "(") {
				fn = fn[:j]
			} else if strings.HasPrefix(fn, "(") {
				// method: (*T).name(...)
				if j := strings.Index(fn, ")."); j > 0 {
					k := strings.Index(fn[j+2:], "(")
					if k > 0 {
						fn = fn[:j+2+k]
					}
				}
			}
			_ = i
			return fn
		}
	}
	return "unknown"
}

func firstFrames(stack string) string {
	lines := strings.Split(stack, "\n")
	for i, l := range lines {
		if strings.HasPrefix(l, "panic(") {
			end := i + 10
			if end > len(lines) {
				end = len(lines)
			}
			return strings.Join(lines[i:end], "\n")
		}
	}
	return ""
}

var tokens = map[string][]string{
	"srt":  {"\n", "1", "00:00:01,000", " --> ", "x", "-->", " ", "<i>", "</i>", "&", "\r", "00:00:02.5", "{\\an8}", "}"},
	"vtt":  {"\n", "WEBVTT", "00:01.000", " --> ", "x", "NOTE ", "STYLE", "Region: id=r", " region:r", "<v a>", "<00:01.500>", " align:left", "1", "::cue {", "}"},
	"ssa":  {"\n", "[Events]", "Format: Start, End, Text", "Dialogue: ", "0:00:01.00", ",", "x", ":", "[V4 Styles]", "Format: Name, Bold", "Style: ", "[Script Info]", "Title: t", "{\\i1}", "}"},
	"ttml": {"<tt>", "</tt>", "<body><div>", "</div></body>", "<p begin=\"1s\" end=\"2s\">", "</p>", "x", "<p>", "<span>", "</span>", "<br/>", "<p begin=\"00:00:01\" dur=\"1s\">", "<head><styling><style xml:id=\"a\" style=\"b\"/></styling></head>", "<![CDATA[", "<!--"},
}

var replBytes = []byte{0x00, '\n', '\r', ' ', '-', '>', '<', ':', ',', '"', 0x80, 0xFF}

func instrRun(c *core.Ctx) {
	if !hooks.Instrumented {
		return
	}
	astisub.Now = func() time.Time { return time.Date(2020, 1, 2, 3, 4, 5, 0, time.UTC) }
	do := func(sub string, rc ReadCase) {
		key, msg, used := checkRead(rc, c.Scratch)
		util := float64(used) / float64(budgetBase+budgetPerByte*int64(len(rc.Data)))
		if util > c.ExtraMax["step_budget_utilisation_max"] {
			c.ExtraMax["step_budget_utilisation_max"] = util
		}
		if len(rc.Data) >= 200 {
			if r := float64(used) / float64(len(rc.Data)); r > c.ExtraMax["steps_per_byte_max_inputs_ge_200B"] {
				c.ExtraMax["steps_per_byte_max_inputs_ge_200B"] = r
			}
		}
		out := "ok"
		if key != "" {
			out = key
		}
		c.Record(sub, core.Hash64(out, fmt.Sprint(used/16)), core.Hash64(rc.Reader, string(rc.Data)), func() interface{} {
			return map[string]interface{}{"reader": rc.Reader, "origin": rc.Origin, "len": len(rc.Data), "steps": used, "input": clip(rc.Data)}
		})
		if key != "" {
			c.Violate("read", key, msg, rc, len(rc.Data))
		}
	}
	// (1) token words
	maxL := 5
	crossL := 3
	if c.Tier == core.Thorough {
		maxL, crossL = 6, 4
	}
	for _, f := range []string{"srt", "vtt", "ssa", "ttml"} {
		toks := tokens[f]
		var word []int
		var rec func(l int)
		rec = func(l int) {
			if c.Mine() {
				var b strings.Builder
				for _, t := range word {
					b.WriteString(toks[t])
				}
				data := []byte(b.String())
				for _, rd := range readersFor(f) {
					do("words."+f, ReadCase{rd, data, "token word"})
				}
				if len(word) <= crossL {
					for _, rd := range readers {
						if strings.Split(rd, "-")[0] != f {
							do("words.cross", ReadCase{rd, data, "token word of " + f})
						}
					}
				}
			}
			if l == maxL {
				return
			}
			for t := range toks {
				word = append(word, t)
				rec(l + 1)
				word = word[:len(word)-1]
			}
		}
		rec(0)
		if c.Expired() {
			return
		}
	}
	// (2) mutation balls around every corpus document
	docs := corpus.All()
	for _, d := range docs {
		rds := readersFor(d.Format)
		mut := func(origin string, data []byte) {
			if !c.Mine() {
				return
			}
			for _, rd := range rds {
				do("mutation."+d.Format, ReadCase{rd, data, d.Name + ": " + origin})
			}
		}
		for k := 0; k <= len(d.Data); k++ {
			mut(fmt.Sprintf("prefix %d", k), d.Data[:k])
		}
		for k := 0; k < len(d.Data); k++ {
			mut(fmt.Sprintf("delete byte %d", k), append(append([]byte{}, d.Data[:k]...), d.Data[k+1:]...))
		}
		for k := 0; k < len(d.Data); k++ {
			for _, rb := range replBytes {
				if d.Data[k] == rb {
					continue
				}
				if !c.Mine() {
					continue
				}
				m := append([]byte{}, d.Data...)
				m[k] = rb
				for _, rd := range rds {
					do("mutation."+d.Format, ReadCase{rd, m, fmt.Sprintf("%s: byte %d := %#x", d.Name, k, rb)})
				}
			}
		}
		// every document to every other reader, and through Open under each extension
		if c.Mine() {
			for _, rd := range readers {
				do("cross", ReadCase{rd, d.Data, d.Name + " to reader " + rd})
			}
			for _, ext := range []string{".srt", ".ssa", ".ass", ".stl", ".ts", ".ttml", ".vtt", ".SRT", ".xyz"} {
				do("open", ReadCase{"open:" + ext, d.Data, d.Name + " opened as " + ext})
			}
		}
		if c.Expired() {
			return
		}
	}
	// splices prefix(A)+suffix(B) at line boundaries over same-format hand-made documents
	small := corpus.Small()
	for _, a := range small {
		for _, b := range small {
			if a.Format != b.Format || a.Format == "stl" || a.Format == "ts" {
				continue
			}
			la, lb := lineStarts(a.Data), lineStarts(b.Data)
			for _, i := range la {
				for _, j := range lb {
					if !c.Mine() {
						continue
					}
					data := append(append([]byte{}, a.Data[:i]...), b.Data[j:]...)
					for _, rd := range readersFor(a.Format) {
						do("splice."+a.Format, ReadCase{rd, data, fmt.Sprintf("%s[:%d]+%s[%d:]", a.Name, i, b.Name, j)})
					}
				}
			}
		}
		if c.Expired() {
			return
		}
	}
	// (3) structured binary: STL
	var stlBase []byte
	for _, d := range small {
		if d.Name == "stl-open-25-2" {
			stlBase = d.Data
		}
	}
	if stlBase != nil {
		stl := func(origin string, data []byte) {
			if !c.Mine() {
				return
			}
			for _, rd := range readersFor("stl") {
				do("stl.struct", ReadCase{rd, data, origin})
			}
		}
		fields := [][2]int{{0, 3}, {3, 11}, {11, 12}, {12, 14}, {14, 16}, {16, 48}, {208, 224}, {224, 230}, {230, 236}, {236, 238}, {238, 243}, {243, 248}, {248, 251}, {251, 253}, {253, 255}, {255, 256}, {256, 264}, {264, 272}, {272, 273}, {273, 274}, {274, 277}}
		for _, f := range fields {
			for _, fill := range []byte{' ', 'x', 0xFF, '0', '9', 0x00, '-', '+'} {
				m := append([]byte{}, stlBase...)
				for i := f[0]; i < f[1]; i++ {
					m[i] = fill
				}
				stl(fmt.Sprintf("GSI[%d:%d] filled with %#x", f[0], f[1], fill), m)
			}
		}
		for _, dfc := range []string{"STL25.01", "STL30.01", "STL24.01", "        ", "STL00.01", "STL25   ", "stl25.01", "STL50.01"} {
			for _, dsc := range []byte{'0', '1', '2', ' ', '3'} {
				for _, cct := range []string{"00", "01", "02", "03", "04", "  ", "xx"} {
					m := append([]byte{}, stlBase...)
					copy(m[3:11], dfc)
					m[11] = dsc
					copy(m[12:14], cct)
					stl(fmt.Sprintf("DFC %q DSC %q CCT %q", dfc, dsc, cct), m)
				}
			}
		}
		for _, dsc := range []byte{'0', '1', '2'} {
			for _, pos := range []int{0, 1, 2, 110, 111} {
				for v := 0; v < 256; v++ {
					m := append([]byte{}, stlBase...)
					m[11] = dsc
					m[1024+16+pos] = byte(v)
					stl(fmt.Sprintf("DSC %q TTI text[%d] := %#x", dsc, pos, v), m)
				}
			}
			// pairs of leading bytes: every diacritic/control code followed by every byte class representative
			for a := 0x80; a < 0x100; a++ {
				for _, b := range []byte{0x00, 0x0a, 0x0b, 0x20, 'e', 0x8a, 0x8f, 0xc1, 0xc8, 0xff} {
					m := append([]byte{}, stlBase...)
					m[11] = dsc
					m[1024+16] = byte(a)
					m[1024+17] = b
					stl(fmt.Sprintf("DSC %q TTI text starts %#x %#x", dsc, a, b), m)
				}
			}
		}
		// full text fields: 112 bytes without padding, each byte class in turn at the last positions
		for _, dsc := range []byte{'0', '1'} {
			for _, body := range []byte{'a', 0xc1, 0x8a, 0x0b, 0x80, 0x20} {
				for _, last := range []byte{'a', 0xc1, 0xc8, 0x8a, 0x8f, 0x0a, 0x0b, 0x85, 0xff} {
					m := append([]byte{}, stlBase...)
					m[11] = dsc
					for i := 0; i < 112; i++ {
						m[1024+16+i] = body
					}
					m[1024+16+111] = last
					stl(fmt.Sprintf("DSC %q full text field of %#x ending in %#x", dsc, body, last), m)
				}
			}
		}
		for h := 0; h < 16; h++ {
			for v := 0; v < 256; v++ {
				m := append([]byte{}, stlBase...)
				m[1024+h] = byte(v)
				stl(fmt.Sprintf("TTI header[%d] := %#x", h, v), m)
			}
		}
	}
	// (3b) reference-graph documents: TTML styles whose parent links range over EVERY assignment (none, any style
	// incl. itself - cycles -, a missing id) x region->style, p->style/region, span->style references incl. dangling ones
	{
		ids := []string{"a", "b", "c"}
		refs := []string{"", "a", "b", "c", "zz"}
		for p0 := range refs {
			for p1 := range refs {
				for p2 := range refs {
					for _, rs := range []string{"", "a", "zz"} {
						for _, ps := range []string{"", "c", "zz"} {
							for _, pr := range []string{"", "r", "zz"} {
								if !c.Mine() {
									continue
								}
								var b strings.Builder
								b.WriteString(`<tt xmlns="http://www.w3.org/ns/ttml" xmlns:tts="http://www.w3.org/ns/ttml#styling"><head><styling>`)
								for i, par := range []int{p0, p1, p2} {
									fmt.Fprintf(&b, `<style xml:id="%s" tts:color="red"`, ids[i])
									if refs[par] != "" {
										fmt.Fprintf(&b, ` style="%s"`, refs[par])
									}
									b.WriteString("/>")
								}
								b.WriteString(`</styling><layout><region xml:id="r"`)
								if rs != "" {
									fmt.Fprintf(&b, ` style="%s"`, rs)
								}
								b.WriteString(`/></layout></head><body><div><p begin="1s" end="2s"`)
								if ps != "" {
									fmt.Fprintf(&b, ` style="%s"`, ps)
								}
								if pr != "" {
									fmt.Fprintf(&b, ` region="%s"`, pr)
								}
								fmt.Fprintf(&b, `><span style="%s">x</span></p></div></body></tt>`, refs[(p0+1)%len(refs)])
								do("refgraph.ttml", ReadCase{"ttml", []byte(b.String()), "TTML reference graph"})
							}
						}
					}
				}
			}
		}
		// WebVTT: cue -> region references incl. unknown; SSA: event -> style references incl. unknown and '*' names
		for _, reg := range []string{"", "r", "zz", "r r", ":", "r:"} {
			if !c.Mine() {
				continue
			}
			do("refgraph.vtt", ReadCase{"vtt", []byte("WEBVTT\n\nRegion: id=r width=40%\n\n00:01.000 --> 00:02.000 region:" + reg + "\nx\n"), "WebVTT region reference"})
			for _, rd := range readersFor("ssa") {
				do("refgraph.ssa", ReadCase{rd, []byte("[V4 Styles]\nFormat: Name, Bold\nStyle: r,-1\n\n[Events]\nFormat: Start, End, Style, Text\nDialogue: 0:00:01.00,0:00:02.00," + reg + ",x\nDialogue: 0:00:01.00,0:00:02.00,*" + reg + ",x\n"), "SSA style reference"})
			}
		}
	}
	// (3c) numeric fields at the arithmetic boundaries: every number slot of a template document of each text format
	// takes every value of a boundary table - small values, powers of two and of ten, and for every word size B in
	// {2^31, 2^32, 2^53, 2^63, 2^64}, every unit scale S a reader multiplies by (1, 10^3, 10^6, 10^9, 60x10^9, 3600x10^9)
	// and every rate r of the document the thresholds B*r/S - 1, B*r/S, B*r/S + 1 - each whole and with fractions
	for _, nc := range numericCases(c.Tier == core.Thorough) {
		if !c.Mine() {
			continue
		}
		for _, rd := range readersFor(nc.format) {
			do("numeric."+nc.format, ReadCase{rd, []byte(nc.doc), nc.origin})
		}
	}
	for _, g := range binaryGenerators {
		g(c, do)
	}
	// linear bound on scaled inputs: the same cue repeated 2^k times
	for _, f := range []string{"srt", "vtt", "ssa", "ttml", "stl", "ts"} {
		maxK := 12
		if f == "stl" || f == "ts" {
			maxK = 9
		}
		for k := 0; k <= maxK; k++ {
			if !c.Mine() {
				continue
			}
			data := scaled(f, 1<<k)
			for _, rd := range readersFor(f) {
				do("scaled."+f, ReadCase{rd, data, fmt.Sprintf("%d cues", 1<<k)})
			}
			if f == "srt" || f == "vtt" || f == "ssa" {
				// the same documents with CR LF and with CR line ends (documents past one read of the scanner)
				for _, le := range []string{"\r\n", "\r"} {
					d2 := bytes.ReplaceAll(data, []byte("\n"), []byte(le))
					for _, rd := range readersFor(f) {
						do("scaled."+f, ReadCase{rd, d2, fmt.Sprintf("%d cues, line ends %q", 1<<k, le)})
					}
				}
			}
		}
	}
	// option values: every page / PID option on every sample stream; SSA callbacks given
	optPages := []int{-1 << 31, -100, -1, 0, 1, 99, 100, 101, 199, 800, 888, 899, 900, 999, 1000, 65535, 1<<31 - 1}
	optPIDs := []int{-256, -1, 0, 1, 31, 256, 257, 8191, 8192, 65535, 65536}
	for _, d := range corpus.Small() {
		switch d.Format {
		case "ts":
			for _, pg := range optPages {
				for _, pid := range optPIDs {
					if c.Mine() {
						do("options.ts", ReadCase{fmt.Sprintf("ts-opt:%d:%d", pg, pid), d.Data, d.Name})
					}
				}
			}
		case "ssa":
			if c.Mine() {
				do("options.ssa", ReadCase{"ssa-callbacks", d.Data, d.Name})
				do("options.ssa", ReadCase{"ssa-callbacks", append(append([]byte{}, d.Data...), []byte("\n[Fonts]\nx\n[Events]\nnot a line\n")...), d.Name + "+junk"})
			}
		}
	}
	// linear bound INSIDE one cue: 2^k lines in one cue, 2^k tagged runs on one line, 2^k comment / style / header lines
	for _, f := range []string{"srt", "vtt", "ssa", "ttml"} {
		for kind := 0; kind < 3; kind++ {
			for k := 0; k <= 12; k++ {
				if !c.Mine() {
					continue
				}
				data := scaledInside(f, kind, 1<<k)
				for _, rd := range readersFor(f) {
					do("scaled-inside."+f, ReadCase{rd, data, fmt.Sprintf("kind %d x %d", kind, 1<<k)})
				}
			}
		}
	}
	writersRun(c)
}

type numericCase struct{ format, doc, origin string }

// boundaryNumbers: decimal strings (no sign, no fraction) around the thresholds where count*rate/scale crosses a word size.
func boundaryNumbers(rates []int64) []string {
	seen := map[string]bool{}
	var out []string
	add := func(v *big.Int) {
		if v.Sign() < 0 {
			return
		}
		if t := v.String(); !seen[t] {
			seen[t] = true
			out = append(out, t)
		}
	}
	for _, v := range []int64{0, 1, 9, 10, 23, 24, 59, 60, 61, 99, 100, 255, 256, 999, 1000, 1001, 32767, 32768, 65535, 65536, 99999, 1000000, 999999999, 1000000000} {
		add(big.NewInt(v))
	}
	for _, bexp := range []uint{31, 32, 53, 63, 64} {
		b := new(big.Int).Lsh(big.NewInt(1), bexp)
		for _, sc := range []int64{1, 1000, 1000000, 1000000000, 60000000000, 3600000000000} {
			for _, r := range rates {
				t := new(big.Int).Mul(b, big.NewInt(r))
				t.Div(t, big.NewInt(sc))
				for d := int64(-1); d <= 1; d++ {
					add(new(big.Int).Add(t, big.NewInt(d)))
				}
			}
		}
	}
	add(new(big.Int).Exp(big.NewInt(10), big.NewInt(19), nil))
	add(new(big.Int).Exp(big.NewInt(10), big.NewInt(30), nil))
	return out
}

func numericCases(thorough bool) (out []numericCase) {
	fractions := []string{"", ".5", ".999999999", ".0000000001"}
	// TTML: offset times in every metric, under every frame / tick rate of the table, begin / end / dur
	type rate struct {
		attr string
		v    int64
	}
	ttmlDoc := func(rateAttr, timeAttr, val string) string {
		return `<tt xmlns="http://www.w3.org/ns/ttml" xmlns:ttp="http://www.w3.org/ns/ttml#parameter"` + rateAttr + `><body><div><p begin="1s" ` + timeAttr + `="` + val + `">x</p></div></body></tt>`
	}
	frameRates, tickRates := []int64{1, 25, 30, 1 << 31}, []int64{1, 1000, 90000, 10000000, 1<<63 - 1}
	if !thorough {
		frameRates, tickRates = []int64{1, 25}, []int64{1, 10000000}
	}
	attrs := []string{"end"}
	if thorough {
		attrs = []string{"end", "dur", "begin"}
	}
	for _, ta := range attrs {
		for _, m := range []string{"h", "m", "s", "ms"} {
			for _, n := range boundaryNumbers([]int64{1}) {
				for _, fr := range fractions {
					out = append(out, numericCase{"ttml", ttmlDoc("", ta, n+fr+m), "TTML " + ta + "=" + n + fr + m})
				}
			}
		}
		for _, r := range frameRates {
			for _, n := range boundaryNumbers([]int64{r}) {
				for _, fr := range fractions {
					out = append(out, numericCase{"ttml", ttmlDoc(fmt.Sprintf(` ttp:frameRate="%d"`, r), ta, n+fr+"f"), fmt.Sprintf("TTML frameRate %d %s=%s%sf", r, ta, n, fr)})
				}
				out = append(out, numericCase{"ttml", ttmlDoc(fmt.Sprintf(` ttp:frameRate="%d"`, r), ta, "00:00:01:"+n), fmt.Sprintf("TTML frameRate %d %s=00:00:01:%s", r, ta, n)})
			}
		}
		for _, r := range tickRates {
			for _, n := range boundaryNumbers([]int64{r}) {
				for _, fr := range fractions {
					out = append(out, numericCase{"ttml", ttmlDoc(fmt.Sprintf(` ttp:tickRate="%d"`, r), ta, n+fr+"t"), fmt.Sprintf("TTML tickRate %d %s=%s%st", r, ta, n, fr)})
				}
			}
		}
	}
	// the thresholds themselves, to the last fraction digit: count.fraction = B*r/10^9 exactly (nine fraction digits,
	// the last one also one down and one up) for frame and tick counts
	exact := func(r int64) (out []string) {
		for _, bexp := range []uint{31, 32, 53, 63, 64} {
			t := new(big.Int).Mul(new(big.Int).Lsh(big.NewInt(1), bexp), big.NewInt(r))
			q, rem := new(big.Int).QuoRem(t, big.NewInt(1000000000), new(big.Int))
			for d := int64(-1); d <= 1; d++ {
				f := rem.Int64() + d
				if f < 0 || f > 999999999 {
					continue
				}
				out = append(out, fmt.Sprintf("%s.%09d", q.String(), f))
			}
		}
		return
	}
	for _, r := range frameRates {
		for _, v := range exact(r) {
			out = append(out, numericCase{"ttml", ttmlDoc(fmt.Sprintf(` ttp:frameRate="%d"`, r), "end", v+"f"), fmt.Sprintf("TTML frameRate %d end=%sf", r, v)})
		}
	}
	for _, r := range append(append([]int64{}, tickRates...), 90000) {
		for _, v := range exact(r) {
			out = append(out, numericCase{"ttml", ttmlDoc(fmt.Sprintf(` ttp:tickRate="%d"`, r), "end", v+"t"), fmt.Sprintf("TTML tickRate %d end=%st", r, v)})
		}
	}
	nums := boundaryNumbers([]int64{1})
	for _, n := range nums {
		// the rates themselves, and clock-time fields
		out = append(out, numericCase{"ttml", ttmlDoc(` ttp:frameRate="`+n+`"`, "end", "10f"), "TTML frameRate=" + n},
			numericCase{"ttml", ttmlDoc(` ttp:tickRate="`+n+`"`, "end", "10t"), "TTML tickRate=" + n},
			numericCase{"ttml", ttmlDoc(` ttp:frameRate="`+n+`"`, "end", "00:00:01:10"), "TTML frameRate=" + n + " clock frames"})
		for slot := 0; slot < 4; slot++ {
			f := []string{"00", "00", "02", "000"}
			f[slot] = n
			out = append(out,
				numericCase{"ttml", ttmlDoc("", "end", f[0]+":"+f[1]+":"+f[2]+"."+f[3]), "TTML clock field " + fmt.Sprint(slot) + "=" + n},
				numericCase{"srt", "1\n00:00:01,000 --> " + f[0] + ":" + f[1] + ":" + f[2] + "," + f[3] + "\nx\n", "SRT end field " + fmt.Sprint(slot) + "=" + n},
				numericCase{"srt", "1\n" + f[0] + ":" + f[1] + ":" + f[2] + "," + f[3] + " --> 00:00:05,000\nx\n", "SRT start field " + fmt.Sprint(slot) + "=" + n},
				numericCase{"vtt", "WEBVTT\n\n00:00:01.000 --> " + f[0] + ":" + f[1] + ":" + f[2] + "." + f[3] + "\nx\n", "WebVTT end field " + fmt.Sprint(slot) + "=" + n},
				numericCase{"vtt", "WEBVTT\n\n00:00:01.000 --> 00:00:09.000\nx<" + f[0] + ":" + f[1] + ":" + f[2] + "." + f[3] + ">y\n", "WebVTT inline timestamp field " + fmt.Sprint(slot) + "=" + n},
				numericCase{"ssa", "[Events]\nFormat: Start, End, Text\nDialogue: 0:00:01.00," + f[0] + ":" + f[1] + ":" + f[2] + "." + f[3] + ",x\n", "SSA end field " + fmt.Sprint(slot) + "=" + n})
		}
		out = append(out,
			numericCase{"srt", n + "\n00:00:01,000 --> 00:00:02,000\nx\n", "SRT index=" + n},
			numericCase{"vtt", "WEBVTT\nX-TIMESTAMP-MAP=MPEGTS:" + n + ",LOCAL:00:00:00.000\n\n00:00:01.000 --> 00:00:02.000\nx\n", "WebVTT MPEGTS=" + n},
			numericCase{"vtt", "WEBVTT\n\nRegion: id=r width=" + n + "% lines=" + n + " regionanchor=" + n + "%," + n + "% viewportanchor=" + n + "%," + n + "%\n\n00:00:01.000 --> 00:00:02.000 region:r line:" + n + " position:" + n + "% size:" + n + "%\nx\n", "WebVTT settings=" + n},
			numericCase{"ssa", "[Script Info]\nPlayResX: " + n + "\nPlayDepth: " + n + "\nTimer: " + n + "\nWrapStyle: " + n + "\n\n[V4 Styles]\nFormat: Name, Fontsize, Bold, MarginL, Alignment, Encoding, Outline, AlphaLevel, PrimaryColour\nStyle: a," + n + "," + n + "," + n + "," + n + "," + n + "," + n + "," + n + "," + n + "\n\n[Events]\nFormat: Marked, Layer, Start, End, Style, MarginL, Text\nDialogue: Marked=" + n + "," + n + ",0:00:01.00,0:00:02.00,a," + n + ",x\n", "SSA numbers=" + n},
			numericCase{"ttml", `<tt xmlns="http://www.w3.org/ns/ttml" xmlns:tts="http://www.w3.org/ns/ttml#styling"><body><div><p begin="1s" end="2s" tts:zIndex="` + n + `" tts:fontSize="` + n + `px" tts:extent="` + n + `% ` + n + `%">x</p></div></body></tt>`, "TTML numbers=" + n})
	}
	return
}

// scaledInside: one cue that grows inside. kind 0: n text lines; 1: one line of n tagged runs; 2: n lines in front of
// the cue (comments / styles / script info / head metadata).
func scaledInside(f string, kind, n int) []byte {
	var b bytes.Buffer
	rep := func(s string) string { return strings.Repeat(s, n) }
	switch f {
	case "srt":
		b.WriteString("1\n00:00:01,000 --> 00:00:02,000\n")
		switch kind {
		case 0:
			b.WriteString(rep("a line\n"))
		case 1:
			b.WriteString(rep("<i>x</i> <b>y</b> ") + "\n")
		default:
			b.WriteString("x\n\n" + rep("\n") + "2\n00:00:03,000 --> 00:00:04,000\ny\n")
		}
	case "vtt":
		b.WriteString("WEBVTT\n\n")
		if kind == 2 {
			b.WriteString("NOTE\n" + rep("a comment line\n") + "\nSTYLE\n" + rep("::cue { color: red }\n") + "\n")
		}
		b.WriteString("00:00:01.000 --> 00:00:02.000\n")
		switch kind {
		case 0:
			b.WriteString(rep("<v Bob>a line\n"))
		case 1:
			b.WriteString(rep("<c.red>x</c> <00:00:01.500><b>y</b> ") + "\n")
		default:
			b.WriteString("x\n")
		}
	case "ssa":
		b.WriteString("[Script Info]\nTitle: t\n")
		if kind == 2 {
			b.WriteString(rep("; a comment\n") + rep("Unknown key: value\n"))
		}
		b.WriteString("\n[Events]\nFormat: Marked, Start, End, Style, Name, MarginL, MarginR, MarginV, Effect, Text\nDialogue: Marked=0,0:00:01.00,0:00:02.00,,,0,0,0,,")
		switch kind {
		case 0:
			b.WriteString(rep("a line\\N"))
		case 1:
			b.WriteString(rep("{\\i1}x{\\i0} y, "))
		default:
			b.WriteString("x")
		}
		b.WriteString("\n")
	case "ttml":
		b.WriteString("<tt xmlns=\"http://www.w3.org/ns/ttml\" xmlns:tts=\"http://www.w3.org/ns/ttml#styling\"><head><styling>")
		if kind == 2 {
			for i := 0; i < n; i++ {
				fmt.Fprintf(&b, "<style xml:id=\"s%d\" tts:color=\"red\"/>", i)
			}
		}
		b.WriteString("</styling></head><body><div><p begin=\"1s\" end=\"2s\">")
		switch kind {
		case 0:
			b.WriteString(rep("a line<br/>"))
		case 1:
			b.WriteString(rep("<span tts:color=\"red\">x</span> y "))
		default:
			b.WriteString("x")
		}
		b.WriteString("</p></div></body></tt>")
	}
	return b.Bytes()
}

// binaryGenerators lets other packages (the teletext encoder) contribute structured binary families.
var binaryGenerators []func(c *core.Ctx, do func(sub string, rc ReadCase))

func RegisterBinary(g func(c *core.Ctx, do func(sub string, rc ReadCase))) {
	binaryGenerators = append(binaryGenerators, g)
}

func lineStarts(b []byte) []int {
	o := []int{0}
	for i, ch := range b {
		if ch == '\n' && i+1 < len(b) {
			o = append(o, i+1)
		}
	}
	return o
}

func scaled(f string, n int) []byte {
	var b bytes.Buffer
	switch f {
	case "srt":
		for i := 0; i < n; i++ {
			fmt.Fprintf(&b, "%d\n00:%02d:%02d,000 --> 00:%02d:%02d,500\nline <i>%d</i>\nsecond\n\n", i+1, i/60%60, i%60, i/60%60, i%60, i)
		}
	case "vtt":
		b.WriteString("WEBVTT\n\n")
		for i := 0; i < n; i++ {
			fmt.Fprintf(&b, "NOTE c\n\n%d\n00:%02d:%02d.000 --> 00:%02d:%02d.500 align:left\n<v a>line <i>%d</i>\nsecond\n\n", i+1, i/60%60, i%60, i/60%60, i%60, i)
		}
	case "ssa":
		b.WriteString("[Script Info]\nTitle: t\n\n[V4 Styles]\nFormat: Name, Bold\nStyle: a,-1\n\n[Events]\nFormat: Marked, Start, End, Style, Name, MarginL, MarginR, MarginV, Effect, Text\n")
		for i := 0; i < n; i++ {
			fmt.Fprintf(&b, "Dialogue: Marked=0,0:%02d:%02d.00,0:%02d:%02d.50,a,,0,0,0,,line {\\i1}%d\\Nsecond\n", i/60%60, i%60, i/60%60, i%60, i)
		}
	case "ttml":
		b.WriteString("<tt xmlns=\"http://www.w3.org/ns/ttml\"><body><div>")
		for i := 0; i < n; i++ {
			fmt.Fprintf(&b, "<p begin=\"%ds\" end=\"%d.5s\"><span>line %d</span><br/>second</p>\n", i, i, i)
		}
		b.WriteString("</div></body></tt>")
	case "ts":
		sp := teletext.Spec{}
		for i := 0; i < n; i++ {
			sp.Pages = append(sp.Pages, teletext.Page{Number: 888, AtMs: int64(i+1) * 1000, Rows: []teletext.RowText{{Row: 20, Text: "line"}, {Row: 22, Text: "second"}}})
		}
		return teletext.BuildTS(sp)
	case "stl":
		s := astisub.NewSubtitles()
		d := time.Date(2020, 1, 2, 0, 0, 0, 0, time.UTC)
		s.Metadata = &astisub.Metadata{Framerate: 25, STLDisplayStandardCode: "0", STLCreationDate: &d, STLRevisionDate: &d}
		for i := 0; i < n; i++ {
			s.Items = append(s.Items, &astisub.Item{StartAt: time.Duration(i) * time.Second, EndAt: time.Duration(i)*time.Second + 480*time.Millisecond,
				Lines: []astisub.Line{{Items: []astisub.LineItem{{Text: "line"}}}, {Items: []astisub.LineItem{{Text: "second"}}}}})
		}
		s.WriteToSTL(&b)
	}
	return b.Bytes()
}

// ---------- writers: nil-lattice ----------

type WriteCase struct {
	Choices []int  `json:"choices"`
	Writer  string `json:"writer"`
}

var textAtoms = []string{"x", "́e", "a\x00b\x07", "\xed\xa0\x80", "\U0001F600", strings.Repeat("é", 200), "", "a\nb", "Ω$¤", "̈", "é́"}
var timeAtoms = []time.Duration{time.Second, -time.Second, 100 * time.Hour, 0, 1<<62 - 1}

// maybeAttrs: def is the default variant (0 full, 1 nil, 2 empty, 3 odd); the explorer may pick any other.
func maybeAttrs(x *explore.C, site string, def int) *astisub.StyleAttributes {
	v := (x.Choose(site, 5) + def) % 5
	switch v {
	case 4:
		// every string empty, every number zero, every list holding one empty element: present but blank
		e := func() *string { return astikit.StrPtr("") }
		j := astisub.Justification(0)
		return &astisub.StyleAttributes{SRTColor: e(), SSAFontName: "", SSAPrimaryColour: &astisub.Color{}, SSAFontSize: astikit.Float64Ptr(0), SSAAlignment: astikit.IntPtr(0),
			STLJustification: &j, STLPosition: &astisub.STLPosition{}, TeletextColor: &astisub.Color{},
			TTMLBackgroundColor: e(), TTMLColor: e(), TTMLDirection: e(), TTMLDisplay: e(), TTMLDisplayAlign: e(), TTMLExtent: e(), TTMLFontFamily: e(), TTMLFontSize: e(),
			TTMLFontStyle: e(), TTMLFontWeight: e(), TTMLLineHeight: e(), TTMLOpacity: e(), TTMLOrigin: e(), TTMLOverflow: e(), TTMLPadding: e(), TTMLShowBackground: e(),
			TTMLTextAlign: e(), TTMLTextDecoration: e(), TTMLTextOutline: e(), TTMLUnicodeBidi: e(), TTMLVisibility: e(), TTMLWrapOption: e(), TTMLWritingMode: e(), TTMLZIndex: astikit.IntPtr(0),
			WebVTTStyles: []string{""}, WebVTTTags: []astisub.WebVTTTag{{Name: "", Classes: []string{""}}}}
	case 2:
		return &astisub.StyleAttributes{}
	case 1:
		return nil
	case 0:
		j := astisub.JustificationCentered
		return &astisub.StyleAttributes{SRTBold: true, SRTColor: astikit.StrPtr("red"), SSABold: astikit.BoolPtr(true), SSAPrimaryColour: astisub.ColorRed, SSAFontName: "f",
			STLJustification: &j, STLPosition: &astisub.STLPosition{VerticalPosition: 20, MaxRows: 23, Rows: 1}, STLBoxing: astikit.BoolPtr(true), STLItalics: astikit.BoolPtr(true),
			TTMLColor: astikit.StrPtr("white"), TTMLExtent: astikit.StrPtr("80% 10%"), TTMLOrigin: astikit.StrPtr("10% 80%"), WebVTTAlign: "left", WebVTTLines: 2,
			WebVTTStyles: []string{"::cue { }"}, WebVTTTags: []astisub.WebVTTTag{{Name: "b"}, {Name: "c", Classes: []string{"x"}}}, TeletextColor: astisub.ColorBlue}
	default:
		return &astisub.StyleAttributes{TTMLExtent: astikit.StrPtr("x"), TTMLOrigin: astikit.StrPtr(""), WebVTTTags: []astisub.WebVTTTag{{}}, STLPosition: &astisub.STLPosition{}, SRTPosition: 9, TTMLZIndex: astikit.IntPtr(-1)}
	}
}

// buildLattice draws a cue list where every optional part is independently present, nil or odd.
func buildLattice(x *explore.C) *astisub.Subtitles {
	s := &astisub.Subtitles{}
	switch x.Choose("metadata", 4) {
	case 0:
		s.Metadata = &astisub.Metadata{Framerate: 25, STLDisplayStandardCode: "0", Language: astisub.LanguageFrench, Title: "t"}
	case 1:
		s.Metadata = nil
	case 2:
		s.Metadata = &astisub.Metadata{}
	case 3:
		s.Metadata = &astisub.Metadata{Framerate: 7, STLDisplayStandardCode: "9", Language: "klingon", SSAScriptType: "v4.00+", WebVTTTimestampMap: &astisub.WebVTTTimestampMap{}, STLMaximumNumberOfDisplayableRows: astikit.IntPtr(0)}
	}
	var style, parent *astisub.Style
	var region *astisub.Region
	// default: two styles with DIFFERENT attribute sets (one full, one empty), the first inheriting from the second
	switch x.Choose("styles", 4) {
	case 1:
		s.Styles = map[string]*astisub.Style{}
	case 2:
		s.Styles = nil
	case 0, 3:
		parent = &astisub.Style{ID: "p", InlineStyle: maybeAttrs(x, "parent.inline", 2)}
		style = &astisub.Style{ID: "s", InlineStyle: maybeAttrs(x, "style.inline", 0)}
		if !x.Bool("style.no-parent") {
			style.Style = parent
		}
		s.Styles = map[string]*astisub.Style{"s": style}
		if !x.Bool("parent.not-in-map") {
			s.Styles["p"] = parent
		}
	}
	switch x.Choose("regions", 3) {
	case 1:
		s.Regions = map[string]*astisub.Region{}
	case 2:
		s.Regions = nil
	case 0:
		region = &astisub.Region{ID: "r", InlineStyle: maybeAttrs(x, "region.inline", 0)}
		if !x.Bool("region.no-style") {
			region.Style = style
			if style == nil {
				region.Style = &astisub.Style{ID: "loose"}
			}
		}
		s.Regions = map[string]*astisub.Region{"r": region}
	}
	n := explore.Pick(x, "nitems", 1, 2, 0)
	for k := 0; k < n; k++ {
		it := &astisub.Item{StartAt: explore.Pick(x, "start", timeAtoms...), EndAt: time.Second + explore.Pick(x, "end", timeAtoms...)}
		it.InlineStyle = maybeAttrs(x, "item.inline", 0)
		if !x.Bool("item.no-style") {
			it.Style = style
			if style == nil {
				it.Style = &astisub.Style{ID: "loose"}
			}
		}
		if !x.Bool("item.no-region") {
			it.Region = region
			if region == nil {
				it.Region = &astisub.Region{ID: "loose"}
			}
		}
		if x.Bool("item.comments") {
			it.Comments = []string{"c", ""}
		}
		nl := explore.Pick(x, "nlines", 1, 0, 2)
		for l := 0; l < nl; l++ {
			ln := astisub.Line{}
			if x.Bool("voice") {
				ln.VoiceName = "v"
			}
			nr := explore.Pick(x, "nruns", 1, 0, 2)
			for r := 0; r < nr; r++ {
				li := astisub.LineItem{Text: explore.Pick(x, "text", textAtoms...)}
				li.InlineStyle = maybeAttrs(x, "run.inline", 1)
				if x.Bool("run.style") {
					li.Style = style
					if style == nil {
						li.Style = &astisub.Style{ID: "loose"}
					}
				}
				if x.Bool("run.timestamp") {
					li.StartAt = 1500 * time.Millisecond
				}
				ln.Items = append(ln.Items, li)
			}
			it.Lines = append(it.Lines, ln)
		}
		s.Items = append(s.Items, it)
	}
	return s
}

var writerNames = []string{"srt", "vtt", "ttml", "ttml-noindent", "ttml-tab", "ssa", "stl"}

func callWriter(name string, s *astisub.Subtitles) {
	w := io.Discard
	switch name {
	case "srt":
		s.WriteToSRT(w)
	case "vtt":
		s.WriteToWebVTT(w)
	case "ttml":
		s.WriteToTTML(w)
	case "ttml-noindent":
		s.WriteToTTML(w, astisub.WriteToTTMLWithIndentOption(""))
	case "ttml-tab":
		s.WriteToTTML(w, astisub.WriteToTTMLWithIndentOption("\t"))
	case "ssa":
		s.WriteToSSA(w)
	case "stl":
		s.WriteToSTL(w)
	}
}

func checkWrite(wc WriteCase) (key, msg string, used int64) {
	var s *astisub.Subtitles
	explore.Run(wc.Choices, func(x *explore.C) { s = buildLattice(x) })
	size := 2000
	res, used, stack := guarded(size, func() { callWriter(wc.Writer, s) })
	fam := strings.Split(wc.Writer, "-")[0]
	switch {
	case res == "":
		return "", "", used
	case res == "budget":
		return "total.write." + fam + ".step-budget", fmt.Sprintf("writer %s exceeded its step budget on lattice point %v", wc.Writer, wc.Choices), used
	}
	return "total.write." + fam + ".panic:" + panicSite(stack), fmt.Sprintf("writer %s on lattice point %v: %s\n%s", wc.Writer, wc.Choices, res, firstFrames(stack)), used
}

// single-attribute style profiles: each SSA/TTML/WebVTT/STL attribute alone (plus "none")
var attrProfiles = []func() *astisub.StyleAttributes{
	func() *astisub.StyleAttributes { return &astisub.StyleAttributes{} },
	func() *astisub.StyleAttributes { return nil },
	func() *astisub.StyleAttributes { return &astisub.StyleAttributes{SSAAlignment: astikit.IntPtr(2)} },
	func() *astisub.StyleAttributes {
		return &astisub.StyleAttributes{SSAAlphaLevel: astikit.Float64Ptr(0.5)}
	},
	func() *astisub.StyleAttributes { return &astisub.StyleAttributes{SSAAngle: astikit.Float64Ptr(1)} },
	func() *astisub.StyleAttributes { return &astisub.StyleAttributes{SSABackColour: astisub.ColorRed} },
	func() *astisub.StyleAttributes { return &astisub.StyleAttributes{SSABold: astikit.BoolPtr(true)} },
	func() *astisub.StyleAttributes { return &astisub.StyleAttributes{SSABorderStyle: astikit.IntPtr(1)} },
	func() *astisub.StyleAttributes { return &astisub.StyleAttributes{SSAEncoding: astikit.IntPtr(1)} },
	func() *astisub.StyleAttributes { return &astisub.StyleAttributes{SSAFontName: "f"} },
	func() *astisub.StyleAttributes { return &astisub.StyleAttributes{SSAFontSize: astikit.Float64Ptr(12)} },
	func() *astisub.StyleAttributes { return &astisub.StyleAttributes{SSAItalic: astikit.BoolPtr(true)} },
	func() *astisub.StyleAttributes { return &astisub.StyleAttributes{SSAMarginLeft: astikit.IntPtr(1)} },
	func() *astisub.StyleAttributes { return &astisub.StyleAttributes{SSAMarginRight: astikit.IntPtr(1)} },
	func() *astisub.StyleAttributes { return &astisub.StyleAttributes{SSAMarginVertical: astikit.IntPtr(1)} },
	func() *astisub.StyleAttributes { return &astisub.StyleAttributes{SSAOutline: astikit.Float64Ptr(1)} },
	func() *astisub.StyleAttributes { return &astisub.StyleAttributes{SSAOutlineColour: astisub.ColorBlue} },
	func() *astisub.StyleAttributes { return &astisub.StyleAttributes{SSAPrimaryColour: astisub.ColorGreen} },
	func() *astisub.StyleAttributes { return &astisub.StyleAttributes{SSAScaleX: astikit.Float64Ptr(1)} },
	func() *astisub.StyleAttributes { return &astisub.StyleAttributes{SSAScaleY: astikit.Float64Ptr(1)} },
	func() *astisub.StyleAttributes {
		return &astisub.StyleAttributes{SSASecondaryColour: astisub.ColorWhite}
	},
	func() *astisub.StyleAttributes { return &astisub.StyleAttributes{SSAShadow: astikit.Float64Ptr(1)} },
	func() *astisub.StyleAttributes { return &astisub.StyleAttributes{SSASpacing: astikit.Float64Ptr(1)} },
	func() *astisub.StyleAttributes { return &astisub.StyleAttributes{SSAStrikeout: astikit.BoolPtr(true)} },
	func() *astisub.StyleAttributes { return &astisub.StyleAttributes{SSAUnderline: astikit.BoolPtr(true)} },
	func() *astisub.StyleAttributes {
		return &astisub.StyleAttributes{SSAEffect: "fx", SSALayer: astikit.IntPtr(1), SSAMarked: astikit.BoolPtr(true)}
	},
	func() *astisub.StyleAttributes {
		return &astisub.StyleAttributes{TTMLColor: astikit.StrPtr("red"), TTMLTextAlign: astikit.StrPtr("center")}
	},
	func() *astisub.StyleAttributes {
		return &astisub.StyleAttributes{WebVTTStyles: []string{"::cue{}"}, WebVTTLines: 2, WebVTTWidth: "40%"}
	},
}

type HeteroCase struct {
	A      int    `json:"a"`
	B      int    `json:"b"`
	R      int    `json:"r"`
	Writer string `json:"writer"`
}

func buildHetero(h HeteroCase) *astisub.Subtitles {
	s := astisub.NewSubtitles()
	s.Metadata = &astisub.Metadata{Framerate: 25, STLDisplayStandardCode: "0"}
	s.Styles["a"] = &astisub.Style{ID: "a", InlineStyle: attrProfiles[h.A]()}
	s.Styles["b"] = &astisub.Style{ID: "b", InlineStyle: attrProfiles[h.B](), Style: s.Styles["a"]}
	s.Regions["r"] = &astisub.Region{ID: "r", InlineStyle: attrProfiles[h.R](), Style: s.Styles["b"]}
	s.Regions["q"] = &astisub.Region{ID: "q", InlineStyle: attrProfiles[h.A]()}
	for k := 0; k < 2; k++ {
		it := &astisub.Item{StartAt: time.Duration(k+1) * time.Second, EndAt: time.Duration(k+2) * time.Second, InlineStyle: attrProfiles[h.B](),
			Lines: []astisub.Line{{Items: []astisub.LineItem{{Text: "x", InlineStyle: attrProfiles[h.A](), Style: s.Styles["a"]}, {Text: "y"}}}}}
		if k == 0 {
			it.Style, it.Region = s.Styles["b"], s.Regions["r"]
		}
		s.Items = append(s.Items, it)
	}
	return s
}

func checkHetero(h HeteroCase) (key, msg string, used int64) {
	s := buildHetero(h)
	res, used, stack := guarded(2000, func() { callWriter(h.Writer, s) })
	fam := strings.Split(h.Writer, "-")[0]
	switch {
	case res == "":
		return "", "", used
	case res == "budget":
		return "total.write." + fam + ".step-budget", fmt.Sprintf("writer %s exceeded its step budget on style profiles %+v", h.Writer, h), used
	}
	return "total.write." + fam + ".panic:" + panicSite(stack), fmt.Sprintf("writer %s on two styles/regions with attribute profiles %+v: %s\n%s", h.Writer, h, res, firstFrames(stack)), used
}

// ManyCase: a plain list of N cues (counts around every digit-count and power-of-two boundary a writer could
// size a field or a buffer by) handed to one writer; step budget linear in N.
type ManyCase struct {
	N      int    `json:"cues"`
	Writer string `json:"writer"`
}

func checkMany(mc ManyCase) (key, msg string, used int64) {
	s := astisub.NewSubtitles()
	s.Metadata = &astisub.Metadata{Framerate: 25, STLDisplayStandardCode: "0"}
	line := []astisub.Line{{Items: []astisub.LineItem{{Text: "x"}}}}
	for i := 0; i < mc.N; i++ {
		s.Items = append(s.Items, &astisub.Item{StartAt: time.Duration(i) * 40 * time.Millisecond, EndAt: time.Duration(i)*40*time.Millisecond + 30*time.Millisecond, Lines: line})
	}
	res, used, stack := guarded(mc.N*100, func() { callWriter(mc.Writer, s) })
	fam := strings.Split(mc.Writer, "-")[0]
	switch {
	case res == "":
		return "", "", used
	case res == "budget":
		return "total.write." + fam + ".step-budget", fmt.Sprintf("writer %s exceeded its step budget on a list of %d cues", mc.Writer, mc.N), used
	}
	return "total.write." + fam + ".panic:" + panicSite(stack), fmt.Sprintf("writer %s on a list of %d plain cues: %s\n%s", mc.Writer, mc.N, res, firstFrames(stack)), used
}

// MetaCase: one string field of the metadata holds a text of N bytes (every width a fixed-size header field could
// have, and one off), ASCII or two-byte characters; every other part of the list is plain.
type MetaCase struct {
	Field  string `json:"metadata_field"`
	N      int    `json:"bytes"`
	Wide   bool   `json:"two_byte_characters"`
	Writer string `json:"writer"`
}

func metaStringFields() []string {
	var o []string
	t := reflect.TypeOf(astisub.Metadata{})
	for i := 0; i < t.NumField(); i++ {
		if t.Field(i).Type.Kind() == reflect.String {
			o = append(o, t.Field(i).Name)
		}
	}
	return o
}

func checkMeta(mc MetaCase) (key, msg string, used int64) {
	s := astisub.NewSubtitles()
	s.Metadata = &astisub.Metadata{Framerate: 25}
	v := strings.Repeat("x", mc.N)
	if mc.Wide {
		v = strings.Repeat("\u00e9", mc.N/2) + strings.Repeat("x", mc.N%2)
	}
	reflect.ValueOf(s.Metadata).Elem().FieldByName(mc.Field).SetString(v)
	s.Items = append(s.Items, &astisub.Item{StartAt: time.Second, EndAt: 2 * time.Second, Lines: []astisub.Line{{Items: []astisub.LineItem{{Text: "x"}}}}})
	res, used, stack := guarded(2000+mc.N, func() { callWriter(mc.Writer, s) })
	fam := strings.Split(mc.Writer, "-")[0]
	switch {
	case res == "":
		return "", "", used
	case res == "budget":
		return "total.write." + fam + ".step-budget", fmt.Sprintf("writer %s exceeded its step budget with Metadata.%s of %d bytes", mc.Writer, mc.Field, mc.N), used
	}
	return "total.write." + fam + ".panic:" + panicSite(stack), fmt.Sprintf("writer %s with Metadata.%s of %d bytes (two-byte characters: %v): %s\n%s", mc.Writer, mc.Field, mc.N, mc.Wide, res, firstFrames(stack)), used
}

func writersRun(c *core.Ctx) {
	for _, f := range metaStringFields() {
		for _, n := range []int{0, 1, 2, 3, 5, 6, 7, 8, 9, 15, 16, 17, 31, 32, 33, 63, 64, 65, 575, 576, 577, 1024} {
			for _, wide := range []bool{false, true} {
				for _, w := range writerNames {
					if !c.Mine() {
						continue
					}
					mc := MetaCase{f, n, wide, w}
					key, msg, _ := checkMeta(mc)
					out := "ok"
					if key != "" {
						out = key
					}
					c.Record("write.meta."+w, core.Hash64(out), core.Hash64("meta", w, f, fmt.Sprint(n, wide)), func() interface{} { return mc })
					if key != "" {
						c.Violate("meta", key, msg, mc, n)
					}
				}
			}
		}
	}
	manyN := []int{255, 256, 257, 999, 1000, 9999, 10000, 65535, 65536, 99999, 100000, 100001}
	if c.Tier == core.Thorough {
		manyN = append(manyN, 131072, 262144, 999999, 1000000)
	}
	for _, n := range manyN {
		for _, w := range writerNames {
			if !c.Mine() {
				continue
			}
			mc := ManyCase{n, w}
			key, msg, used := checkMany(mc)
			out := "ok"
			if key != "" {
				out = key
			}
			c.Record("write.many."+w, core.Hash64(out), core.Hash64("many", w, fmt.Sprint(n)), func() interface{} { return mc })
			_ = used
			if key != "" {
				c.Violate("many", key, msg, mc, n)
			}
		}
	}
	// heterogeneous definition tables: every ordered pair of single-attribute profiles for two styles x 3 region profiles
	for a := range attrProfiles {
		for b := range attrProfiles {
			for _, r := range []int{0, 1, len(attrProfiles) - 1} {
				if !c.Mine() {
					continue
				}
				for _, w := range writerNames {
					h := HeteroCase{a, b, r, w}
					key, msg, used := checkHetero(h)
					out := "ok"
					if key != "" {
						out = key
					}
					c.Record("write.hetero."+w, core.Hash64(out, fmt.Sprint(used/8)), core.Hash64("hetero", w, fmt.Sprint(a, b, r)), func() interface{} { return h })
					if key != "" {
						c.Violate("hetero", key, msg, h, a+b+r)
					}
				}
			}
		}
	}
	bound := 2
	if c.Tier == core.Thorough {
		bound = 3
	}
	explore.Explore(bound, func(x *explore.C) { buildLattice(x) }, func(x *explore.C) bool {
		if !c.Mine() {
			return true
		}
		for _, w := range writerNames {
			wc := WriteCase{append([]int{}, x.Trace...), w}
			key, msg, used := checkWrite(wc)
			out := "ok"
			if key != "" {
				out = key
			}
			c.Record("write."+w, core.Hash64(out, fmt.Sprint(used/8)), core.Hash64(w, fmt.Sprint(x.Trace)), func() interface{} {
				return map[string]interface{}{"writer": w, "choices": wc.Choices, "sites": x.Sites}
			})
			if key != "" {
				c.Violate("write", key, msg, wc, explore.Deviations(x.Trace))
			}
		}
		return c.Evals%2048 != 0 || !c.Expired()
	})
}

func replay(sub string, raw json.RawMessage) (string, bool) {
	if !hooks.Instrumented {
		// plain build: still meaningful for panics (no step budget)
	}
	if sub == "meta" {
		var mc MetaCase
		json.Unmarshal(raw, &mc)
		k, m, _ := checkMeta(mc)
		return m, k != ""
	}
	if sub == "many" {
		var mc ManyCase
		json.Unmarshal(raw, &mc)
		k, m, _ := checkMany(mc)
		return m, k != ""
	}
	if sub == "hetero" {
		var h HeteroCase
		json.Unmarshal(raw, &h)
		k, m, _ := checkHetero(h)
		return m, k != ""
	}
	if sub == "write" {
		var wc WriteCase
		json.Unmarshal(raw, &wc)
		k, m, _ := checkWrite(wc)
		return m, k != ""
	}
	var rc ReadCase
	json.Unmarshal(raw, &rc)
	k, m, _ := checkRead(rc, os.TempDir())
	return m, k != ""
}

func init() {
	core.Register(&core.Prop{
		ID: "C08", Level: "exploration",
		Rule: "readers: three exhaustively enumerated input families fed to the reader of their format (and across formats, and through the extension-dispatching opener): (1) all words of length <=L over a per-format alphabet of 12-13 lexemes, (2) the full single-mutation ball around every corpus document (every prefix, every single-byte deletion, every single-byte replacement by each of 12 bytes, every line-boundary splice of two same-format documents), (3) structured binary variations (STL GSI fields, DFC/DSC/CCT strings, every byte value at TTI text positions and header bytes, diacritic-led byte pairs; TS families contributed by the teletext encoder); writers: a nil-lattice of the public types explored within B deviations (every optional pointer/map independently present, nil or odd; 11 text atoms; 5 time atoms) to all five writers (TTML x 3 indents). Oracle: no panic (recover at the public entry point; a panic inside the third-party demuxer is excluded) and steps executed in package astisub <= 50000 + 400*len(input) (statement-level step counter of the instrumented build; no wall-clock oracle), also on scaled inputs of 2^k cues; distinct = (reader, input bytes) / (writer, lattice point)",
		Scope: map[core.Tier]string{
			core.Quick:    "token words L<=5 (cross-format L<=3); mutation ball around all corpus documents; STL structured families; scaled inputs up to 4096 cues and, inside one cue, up to 4096 lines / tagged runs / header lines; teletext page x PID option values (17 x 11) on every sample stream; writer lattice B=2; every string field of the metadata at 22 lengths (0..1024 bytes, around 8/16/32/64/576) in ASCII and two-byte characters; plain lists of 255..100001 cues (12 counts around digit-count and power-of-two boundaries) to every writer; numeric boundary product (every number slot of a template per text format x small values, powers of two and ten, thresholds B*r/S +-1 for B in {2^31,2^32,2^53,2^63,2^64}, S in {1,10^3,10^6,10^9,60x10^9,3600x10^9}, r the frame / tick rates, whole and with 3 fractions, and for frame / tick counts the exact thresholds B*r/10^9 to nine fraction digits +-1 in the last); scaled documents also with CR LF and CR line ends",
			core.Thorough: "token words L<=6 (cross-format L<=4); writer lattice B=3; plain lists up to 1000000 cues",
		},
		Assumptions: []string{"Go toolchain and standard library", "steps inside dependencies (bufio, encoding/xml, x/net/html, astits) are not counted: their loops are bounded by the input length", "instrumented build = plain build with inert hooks (validated in setup)"},
		Instr:       instrRun, Replay: replay,
		CrashIsViolation: true,
	})
}
