// Package refops holds the executable specifications of the list operations (C09-C15), written
// as plain list comprehensions over lm.Cue tuples. They share no code with /repo.
package refops

import (
	"math/big"
	"sort"

	"verif/props/lm"
)

// Add: C09. Survivors are the cues with end+d > 0, in original order; start' = max(0,start+d).
func Add(l lm.List, d int64) lm.List {
	var o lm.List
	for _, c := range l {
		if c.E+d <= 0 {
			continue
		}
		c.S += d
		c.E += d
		if c.S < 0 {
			c.S = 0
		}
		o = append(o, c)
	}
	return o
}

// Order: C12. Stable sort by start.
func Order(l lm.List) lm.List {
	o := l.Clone()
	// insertion sort: obviously stable, no dependence on package sort's behaviour
	for i := 1; i < len(o); i++ {
		for j := i; j > 0 && o[j-1].S > o[j].S; j-- {
			o[j-1], o[j] = o[j], o[j-1]
		}
	}
	return o
}

// Fragment: C10. Every cue is cut at the multiples of f strictly inside it; result ordered by
// start (stable with respect to the input order of the pieces).
func Fragment(l lm.List, f int64) lm.List {
	var o lm.List
	for _, c := range l {
		s := c.S
		// first multiple of f strictly greater than s
		k := (s/f + 1) * f
		if s < 0 {
			k = 0
			for k <= s {
				k += f
			}
		}
		for ; k < c.E; k += f {
			p := c
			p.S, p.E = s, k
			o = append(o, p)
			s = k
		}
		p := c
		p.S = s
		o = append(o, p)
	}
	return Order(o)
}

// Unfragment: C11. Stable order by start, then every same-text cue that touches or overlaps an
// earlier one is absorbed into it (closure).
func Unfragment(l lm.List) lm.List {
	o := Order(l)
	dead := make([]bool, len(o))
	for i := range o {
		if dead[i] {
			continue
		}
		changed := true
		for changed {
			changed = false
			for j := i + 1; j < len(o); j++ {
				if dead[j] || lm.Shown(o[j].T) != lm.Shown(o[i].T) {
					continue
				}
				if o[j].S <= o[i].E {
					if o[j].E > o[i].E {
						o[i].E = o[j].E
					}
					dead[j] = true
					changed = true
				}
			}
		}
	}
	var r lm.List
	for i, c := range o {
		if !dead[i] {
			r = append(r, c)
		}
	}
	return r
}

// Merge: C12. Items of a then b, stably ordered by start.
func Merge(a, b lm.List) lm.List {
	return Order(append(a.Clone(), b...))
}

// ForceDuration: C14. Precondition: ordered by start, non-decreasing ends, d >= 1ms.
func ForceDuration(l lm.List, d int64, filler bool, fillerUID int) lm.List {
	dur := int64(0)
	if len(l) > 0 {
		dur = l[len(l)-1].E
	}
	if dur == d {
		return l.Clone()
	}
	var o lm.List
	for _, c := range l {
		if c.S >= d {
			continue
		}
		if c.E > d {
			c.E = d
		}
		o = append(o, c)
	}
	last := int64(0)
	if len(o) > 0 {
		last = o[len(o)-1].E
	}
	if filler && last < d {
		o = append(o, lm.Cue{S: d - 1000000, E: d, T: "...", U: fillerUID})
	}
	return o
}

// Linear returns the exact rational image of t under the affine map through (a1,d1),(a2,d2).
func Linear(t, a1, d1, a2, d2 int64) *big.Rat {
	num := new(big.Rat).SetInt64(t - a1)
	num.Mul(num, new(big.Rat).SetInt64(d2-d1))
	num.Quo(num, new(big.Rat).SetInt64(a2-a1))
	return num.Add(num, new(big.Rat).SetInt64(d1))
}

// Reach computes the ids of the styles and regions reachable from the cues (C13).
// refs: cue->style, run->style, cue->region given directly; regionStyle: region id -> style id;
// parent: style id -> parent style id.
func Reach(cueStyles, cueRegions []string, regionStyle, parent map[string]string) (styles, regions map[string]bool) {
	styles, regions = map[string]bool{}, map[string]bool{}
	var work []string
	for _, r := range cueRegions {
		if r != "" && !regions[r] {
			regions[r] = true
			if s, ok := regionStyle[r]; ok && s != "" {
				work = append(work, s)
			}
		}
	}
	work = append(work, cueStyles...)
	for len(work) > 0 {
		s := work[len(work)-1]
		work = work[:len(work)-1]
		if s == "" || styles[s] {
			continue
		}
		styles[s] = true
		if p, ok := parent[s]; ok {
			work = append(work, p)
		}
	}
	return
}

func SortedKeys(m map[string]bool) []string {
	var o []string
	for k, v := range m {
		if v {
			o = append(o, k)
		}
	}
	sort.Strings(o)
	return o
}
