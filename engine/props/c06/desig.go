package c06

import (
	"bytes"
	"encoding/json"
	"fmt"
	"math/bits"

	astisub "github.com/asticode/go-astisub"

	"verif/core"
	tt "verif/ref/teletext"
)

// Precedence of the two character-set designations.  A page's default G0 set can be designated for the page
// itself (X/28/0 format 1, sent with the page) or for its whole magazine (M/29/0); ETS 300 706 gives the page's
// own packet precedence.  Which set a given triplet designates is not compared here (the reader's handling of the
// triplet coding is a recorded finding): the check is the metamorphic consequence that holds under every reading -
// when the selected page carries its own X/28/0, adding an M/29/0 for its magazine, anywhere before the page's
// rows, must not change what is read.  The triplets used are valid Hamming 24/18 code words (page function 0,
// page coding 0, any 7-bit designation) that ALSO have a zero low nibble when their three bytes are taken raw, so
// both packets are accepted whether or not the receiver decodes the triplet coding

type DesigCase struct {
	X28 uint32 `json:"x28_triplet"`
	M29 uint32 `json:"m29_triplet"`
	Pos int    `json:"m29_position"` // 0: own PES before the page; 1: in the page's PES before the header; 2: after the X/28 packet
}

// desigTriplets: for every 7-bit designation d the first 18-bit value d<<7 | f<<14 (f: the four remaining data
// bits) whose code word has P4 = 0 (D1..D4 are 0 by construction).
func desigTriplets() []uint32 {
	var o []uint32
	for d := uint32(0); d < 128; d++ {
		for f := uint32(0); f < 16; f++ {
			t := d<<7 | f<<14
			if h := tt.Ham2418(t); bits.Reverse8(h[0])&0xf == 0 {
				o = append(o, t)
				break
			}
		}
	}
	return o
}

func desigStream(dc DesigCase, withM29 bool) tt.Stream {
	// every position that differs between national option sub-sets, letters (other G0 sets map them), digits
	cells := []byte{0x0b, 0x0b, 0x23, 0x24, 0x40, 0x5b, 0x5c, 0x5d, 0x5e, 0x5f, 0x60, 0x7b, 0x7c, 0x7d, 0x7e, 'A', 'B', 'C', 'a', 'b', 'c', 'z', '1', 0x0a, 0x0a}
	hdr := func(erase bool) tt.Unit {
		return tt.Unit{Packet: &tt.Packet{Kind: tt.KHeader, Mag: 8, Tens: 8, Units: 8, Erase: erase, Subtitle: true}}
	}
	x28 := tt.Unit{Packet: &tt.Packet{Kind: tt.KX28, Mag: 8, Triplets: []uint32{dc.X28}}}
	m29 := tt.Unit{Packet: &tt.Packet{Kind: tt.KM29, Mag: 8, Triplets: []uint32{dc.M29}}}
	row := tt.Unit{Packet: &tt.Packet{Kind: tt.KRow, Mag: 8, Y: 22, Cells: cells}}
	es := tt.ES{PID: mainPID, Descriptor: "teletext"}
	es.PESs = append(es.PESs, tt.PES{PTS: 900000, Units: []tt.Unit{tt.Stuffing()}})
	if withM29 && dc.Pos == 0 {
		es.PESs = append(es.PESs, tt.PES{PTS: 945000, Units: []tt.Unit{m29}})
	}
	var us []tt.Unit
	if withM29 && dc.Pos == 1 {
		us = append(us, m29)
	}
	us = append(us, hdr(true), x28)
	if withM29 && dc.Pos == 2 {
		us = append(us, m29)
	}
	us = append(us, row)
	es.PESs = append(es.PESs, tt.PES{PTS: 990000, Units: us})
	es.PESs = append(es.PESs, tt.PES{PTS: 1170000, Units: []tt.Unit{hdr(true)}})
	es.PESs = append(es.PESs, tt.PES{PTS: 1260000, Units: []tt.Unit{tt.Stuffing()}})
	return tt.Stream{ES: []tt.ES{es}}
}

func desigRead(st tt.Stream) (string, string) {
	var s *astisub.Subtitles
	var err error
	pan := ""
	func() {
		defer func() {
			if e := recover(); e != nil {
				pan = fmt.Sprint(e)
			}
		}()
		s, err = astisub.ReadFromTeletext(bytes.NewReader(st.Bytes()), astisub.TeletextOptions{Page: 888, PID: mainPID})
	}()
	if pan != "" {
		return "", "panic " + pan
	}
	if err != nil {
		return "error " + err.Error(), ""
	}
	return tt.Denote(FromSubs(s, nil)), ""
}

func checkDesig(dc DesigCase, base string) (key, msg string, out uint64) {
	if base == "" {
		var pan string
		if base, pan = desigRead(desigStream(dc, false)); pan != "" {
			return "tt.read.panic", fmt.Sprintf("page 888 with X/28/0 triplet %05x: %s", dc.X28, pan), 0
		}
	}
	got, pan := desigRead(desigStream(dc, true))
	desc := fmt.Sprintf("page 888 carrying its own X/28/0 (triplet %05x) plus an M/29/0 of magazine 8 (triplet %05x, position %d)", dc.X28, dc.M29, dc.Pos)
	if pan != "" {
		return "tt.read.panic", desc + ": " + pan, 0
	}
	if got != base {
		return "tt.designation.m29-changes-a-page-with-its-own-x28", fmt.Sprintf("%s:\n without the M/29/0 %s\n with it           %s", desc, base, got), 0
	}
	return "", "", core.Hash64(got)
}

func desigRun(c *core.Ctx) {
	ts := desigTriplets()
	c.Extra["designation_triplets"] = int64(len(ts))
	for _, a := range ts {
		base, pan := "", ""
		mine := false
		for _, b := range ts {
			for pos := 0; pos < 3; pos++ {
				if !c.Mine() {
					continue
				}
				if !mine {
					mine = true
					if base, pan = desigRead(desigStream(DesigCase{X28: a}, false)); pan != "" {
						c.Violate("designation", "tt.read.panic", fmt.Sprintf("page 888 with X/28/0 triplet %05x: %s", a, pan), DesigCase{X28: a, M29: a}, 1)
						base = "?"
					}
				}
				dc := DesigCase{X28: a, M29: b, Pos: pos}
				key, msg, out := checkDesig(dc, base)
				nt := uint64(0)
				if a != b {
					nt = core.Hash64("desig", fmt.Sprint(a, b, pos))
				}
				c.Record("designation", out, nt, func() interface{} { return dc })
				if key != "" {
					c.Violate("designation", key, msg, dc, 1)
				}
			}
		}
		if c.Expired() {
			return
		}
	}
}

func desigReplay(raw json.RawMessage) (string, bool) {
	var dc DesigCase
	json.Unmarshal(raw, &dc)
	k, m, _ := checkDesig(dc, "")
	return m, k != ""
}
