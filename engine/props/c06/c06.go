// Package c06: teletext subtitles in MPEG transport streams (E1 exploration over a packet-sequence
// language x reader options x multiplexing variants, judged by the reference page machine of
// engine/ref/teletext).
package c06

import (
	"bytes"
	"encoding/json"
	"fmt"
	"io"
	"log"
	"runtime"
	"strings"

	astisub "github.com/asticode/go-astisub"

	"verif/core"
	"verif/explore"
	tt "verif/ref/teletext"
)

// ---------------------------------------------------------------------------------------------
// the packet-sequence alphabet
// ---------------------------------------------------------------------------------------------

// The selected page is 120 (magazine 1, tens 2, units 0): its number has a hexadecimal alias
// (tens 1, units 0xA: 1*10+10 = 20) so that page numbers compared as decimal sums show up.
const (
	selPage = 120
	selMag  = 1
	mainPID = 0x100
	pts0    = 10 * 90000 // presentation time of the first PES (10 s): "relative to the first" matters
	second  = 90000
)

func boxed(pre []byte, text ...byte) []byte {
	c := append([]byte{}, pre...)
	c = append(c, 0x0b, 0x0b)
	c = append(c, text...)
	return append(c, 0x0a, 0x0a)
}

var (
	cellsR1  = boxed(nil, 'o', 'n', 'e', 0x23, 0x7e)                    // national positions 2/3 and 7/E
	cellsR20 = boxed([]byte{0x03}, 't', 'w', 'e', 'n', 't', 'y', 0x40)  // yellow before the box, national position 4/0
	cellsR22 = boxed([]byte{0x0d}, 't', 'w', 'o', ' ', 't', 'w', 'o')   // double height, interior space
	cellsR24 = boxed(nil, 'l', 'a', 's', 't', 0x06, 'c', 'y', 'a', 'n') // colour code inside the box: two runs
	cellsOth = boxed(nil, 'o', 't', 'h', 'e', 'r')                      // never to be seen
	cellsNon = boxed(nil, 'n', 'o', 'n', 's', 'u', 'b')                 // never to be seen
	cells2nd = boxed(nil, 'z', 'w', 'e', 'i')                           // text of the other PID
)

func hdr(mag int, tens, units uint8, subtitle, erase bool, nat tt.Subset) *tt.Packet {
	return &tt.Packet{Kind: tt.KHeader, Mag: mag, Tens: tens, Units: units, Subtitle: subtitle, Erase: erase, Nat: nat}
}

func row(mag, y int, cells []byte) *tt.Packet {
	return &tt.Packet{Kind: tt.KRow, Mag: mag, Y: y, Cells: cells}
}

// Letters of the alphabet, in a fixed order (index 0 is the explorer's default).
var alphabetQuick = []string{
	"Hs0", "R20", "PES", "Hs1", "Hs4", "Hop", "Hsn", "Hom", "Hff", "Hhx", "R1", "R22", "R24", "Rom",
	"X26", "X28", "X28z", "M29", "X30", "U02", "Stf", "Sh1", "ShH", "PESx", "PES0", "Dng",
}

// core alphabet of the quick length-4 sweep: no letter on which the current tree is known to crash,
// one representative of look-alike letters
var alphabetCore = []string{
	"Hs0", "R20", "PES", "Hs1", "Hop", "Hsn", "Hom", "Hff", "Hhx", "R1", "R22", "Rom", "X26", "X28", "U02", "Stf",
}

// reduced alphabet of the thorough length-5 sweep
var alphabetReduced = []string{
	"Hs0", "R20", "PES", "Hs1", "Hop", "Hsn", "Hom", "Hff", "R22", "Rom", "X26", "U02", "Stf", "Hhx",
}

// builder turns a word into a Stream.
type builder struct {
	pess    []tt.PES
	cur     tt.PES
	t       int64
	serial  bool
	lastNat tt.Subset
}

func (b *builder) add(u tt.Unit) {
	if u.Packet != nil && u.Packet.Kind == tt.KHeader {
		u.Packet.Serial = b.serial
		if u.Packet.Mag == selMag && !u.Short {
			b.lastNat = u.Packet.Nat // an X/28 or M/29 that follows belongs to this page
		}
	}
	b.cur.Units = append(b.cur.Units, u)
}

func (b *builder) boundary() {
	b.pess = append(b.pess, b.cur)
	b.t += second
	b.cur = tt.PES{PTS: b.t}
}

func (b *builder) letter(l string) {
	switch l {
	case "Hs0":
		b.add(tt.Unit{Packet: hdr(selMag, 2, 0, true, true, tt.English)})
	case "Hs1":
		b.add(tt.Unit{Packet: hdr(selMag, 2, 0, true, false, tt.French)})
	case "Hs4":
		b.add(tt.Unit{Packet: hdr(selMag, 2, 0, true, false, tt.German)})
	case "Hop": // another subtitle page of the same magazine
		b.add(tt.Unit{Packet: hdr(selMag, 2, 1, true, true, tt.English)})
	case "Hsn": // the selected page number in another magazine
		b.add(tt.Unit{Packet: hdr(2, 2, 0, false, false, tt.English)})
	case "Hom": // another page of another magazine
		b.add(tt.Unit{Packet: hdr(2, 3, 3, false, false, tt.English)})
	case "Hff": // time-filling header
		b.add(tt.Unit{Packet: hdr(selMag, 0xf, 0xf, false, false, tt.English)})
	case "Hhx": // page 1A of the selected magazine: not page 20
		b.add(tt.Unit{Packet: hdr(selMag, 1, 0xa, false, false, tt.English)})
	case "R1":
		b.add(tt.Unit{Packet: row(selMag, 1, cellsR1)})
	case "R20":
		b.add(tt.Unit{Packet: row(selMag, 20, cellsR20)})
	case "R22":
		b.add(tt.Unit{Packet: row(selMag, 22, cellsR22)})
	case "R24":
		b.add(tt.Unit{Packet: row(selMag, 24, cellsR24)})
	case "Rom":
		b.add(tt.Unit{Packet: row(2, 20, cellsOth)})
	case "X26": // a G2 character at column 5 (would be text at presentation level 1.5), then termination markers
		tr := []uint32{5 | 0x0f<<6 | 0x41<<11}
		for len(tr) < 13 {
			tr = append(tr, 0x3f|0x1f<<6|0x7f<<11)
		}
		b.add(tt.Unit{Packet: &tt.Packet{Kind: tt.KX26, Mag: selMag, Triplets: tr}})
	case "X28": // X/28/0 format 1, correctly Hamming 24/18 coded, designating Latin G0 + the page's own national option
		b.add(tt.Unit{Packet: &tt.Packet{Kind: tt.KX28, Mag: selMag, Triplets: []uint32{uint32(b.lastNat) << 7}}})
	case "X28z": // X/28/0 whose triplets arrive as zero bytes (uncorrectable for a Hamming 24/18 decoder)
		b.add(tt.Unit{Packet: &tt.Packet{Kind: tt.KX28, Mag: selMag, RawTail: make([]byte, 39)}})
	case "M29": // M/29/0, correctly coded, same designation
		b.add(tt.Unit{Packet: &tt.Packet{Kind: tt.KM29, Mag: selMag, Triplets: []uint32{uint32(b.lastNat) << 7}}})
	case "X30": // 8/30 format 1: initial page 100 (six Hamming 8/4 bytes), rest spaces
		raw := []byte{tt.Ham84(0), tt.Ham84(0), tt.Ham84(0xf), tt.Ham84(0x7), tt.Ham84(0xf), tt.Ham84(0x3)}
		for len(raw) < 39 {
			raw = append(raw, tt.Parity(0x20))
		}
		b.add(tt.Unit{Packet: &tt.Packet{Kind: tt.KX30, Mag: 8, RawTail: raw}})
	case "U02": // a row of the selected magazine in a NON-subtitle data unit
		b.add(tt.Unit{ID: tt.IDNonSubtitle, Packet: row(selMag, 23, cellsNon)})
	case "Stf":
		b.add(tt.Stuffing())
	case "Sh1": // subtitle unit of length 1
		b.add(tt.Unit{Packet: row(selMag, 21, cellsNon), Short: true, Keep: 1})
	case "ShH": // selected header cut after 5 of its 8 Hamming bytes
		b.add(tt.Unit{Packet: hdr(selMag, 2, 0, true, true, tt.English), Short: true, Keep: 4 + 5})
	case "PES":
		b.boundary()
	case "PESx": // new PES whose data identifier is not EBU data
		b.boundary()
		b.cur.DataID = 0x20
	case "PES0": // a PES packet without payload, then a new ordinary PES
		b.boundary()
		b.cur.NoPayload = true
		b.boundary()
	case "Dng": // one stray byte after the last unit of the PES
		b.cur.Tail = []byte{0x03}
		b.boundary()
	default:
		panic("c06: unknown letter " + l)
	}
}

// Mux variants.
var muxVariants = []string{"plain", "aligned", "tables1", "pcr", "otherpid-first", "second-teletext", "vbi", "section-pid", "notrailer",
	// the first / last PES of the teletext PID carries no EBU teletext data (another data identifier, no payload at
	// all): it still is the stream's first / last presentation time
	"nonebu-first", "nonebu-last", "empty-first", "empty-last"}

func secondES(pid uint16, desc string, serial bool) tt.ES {
	h1 := hdr(selMag, 2, 0, true, true, tt.English)
	h1.Serial = serial
	h2 := hdr(selMag, 2, 0, true, true, tt.English)
	h2.Serial = serial
	return tt.ES{PID: pid, Descriptor: desc, PESs: []tt.PES{
		{PTS: pts0 + second/4, Units: []tt.Unit{{Packet: h1}, {Packet: row(selMag, 20, cells2nd)}}},
		{PTS: pts0 + 3*second/4, Units: []tt.Unit{{Packet: h2}}},
	}}
}

// BuildStream assembles the stream of a word under a transmission mode and a mux variant.
func BuildStream(word []string, serial bool, mux string) tt.Stream {
	b := &builder{serial: serial, t: pts0, cur: tt.PES{PTS: pts0}}
	for _, l := range word {
		b.letter(l)
	}
	b.pess = append(b.pess, b.cur)
	switch mux {
	case "notrailer":
	case "nonebu-last":
		b.pess = append(b.pess, tt.PES{PTS: b.t + second, DataID: 0x99, Units: []tt.Unit{tt.Stuffing()}})
	case "empty-last":
		b.pess = append(b.pess, tt.PES{PTS: b.t + second, NoPayload: true})
	default:
		// the service goes on after the last page: a final PES with a stuffing unit
		b.pess = append(b.pess, tt.PES{PTS: b.t + second, Units: []tt.Unit{tt.Stuffing()}})
	}
	switch mux {
	case "nonebu-first":
		b.pess = append([]tt.PES{{PTS: pts0 - second/2, DataID: 0x99, Units: []tt.Unit{tt.Stuffing()}}}, b.pess...)
	case "empty-first":
		b.pess = append([]tt.PES{{PTS: pts0 - second/2, NoPayload: true}}, b.pess...)
	}
	main := tt.ES{PID: mainPID, Descriptor: "teletext", PESs: b.pess}
	s := tt.Stream{ES: []tt.ES{main}}
	switch mux {
	case "aligned":
		s.Aligned = true
	case "tables1":
		s.TablesEvery = 1
	case "pcr":
		s.PCR = true
	case "otherpid-first": // a private-data PID without teletext descriptor, earlier in the PMT, carrying look-alike data
		s.ES = []tt.ES{secondES(0x0ff, "", serial), main}
	case "second-teletext": // a second teletext PID later in the PMT
		s.ES = []tt.ES{main, secondES(0x101, "teletext", serial)}
	case "vbi":
		s.ES[0].Descriptor = "vbi"
	case "section-pid":
		s.SectionPID = true
	}
	return s
}

// ---------------------------------------------------------------------------------------------
// running the real reader
// ---------------------------------------------------------------------------------------------

type panicInfo struct {
	Msg    string
	Func   string // innermost non-runtime function
	Astits bool
}

func safeRead(b []byte, o tt.ReadOpts) (s *astisub.Subtitles, err error, pan *panicInfo) {
	defer func() {
		if e := recover(); e != nil {
			pan = &panicInfo{Msg: fmt.Sprint(e)}
			pcs := make([]uintptr, 64)
			n := runtime.Callers(0, pcs)
			fr := runtime.CallersFrames(pcs[:n])
			seenPanic := false
			for {
				f, more := fr.Next()
				if seenPanic && !strings.HasPrefix(f.Function, "runtime.") {
					pan.Func = f.Function
					break
				}
				if f.Function == "runtime.gopanic" {
					seenPanic = true
				}
				if !more {
					break
				}
			}
			pan.Astits = strings.Contains(pan.Func, "asticode/go-astits")
		}
	}()
	s, err = astisub.ReadFromTeletext(bytes.NewReader(b), astisub.TeletextOptions{Page: o.Page, PID: o.PID})
	return
}

var libColours = map[*astisub.Color]string{
	astisub.ColorBlack: "black", astisub.ColorRed: "red", astisub.ColorGreen: "green", astisub.ColorYellow: "yellow",
	astisub.ColorBlue: "blue", astisub.ColorMagenta: "magenta", astisub.ColorCyan: "cyan", astisub.ColorWhite: "white",
}

// FromSubs extracts the teletext denotation from a library value. parity[i][j] tells that line j of
// cue i is to be reduced to its text (taken from the expectation).
func FromSubs(s *astisub.Subtitles, parity func(cue, line int) bool) []tt.Cue {
	var out []tt.Cue
	for ci, it := range s.Items {
		c := tt.Cue{Start: int64(it.StartAt), End: int64(it.EndAt)}
		for li, l := range it.Lines {
			ln := tt.Line{ParityErr: parity != nil && parity(ci, li)}
			for _, item := range l.Items {
				ch := tt.SChar{}
				if a := item.InlineStyle; a != nil {
					if a.TeletextColor != nil {
						if n, ok := libColours[a.TeletextColor]; ok {
							ch.Colour = n
						} else {
							ch.Colour = fmt.Sprintf("unknown(%+v)", *a.TeletextColor)
						}
					}
					var on []string
					if a.TeletextDoubleHeight != nil && *a.TeletextDoubleHeight {
						on = append(on, "dh")
					}
					if a.TeletextDoubleWidth != nil && *a.TeletextDoubleWidth {
						on = append(on, "dw")
					}
					if a.TeletextDoubleSize != nil && *a.TeletextDoubleSize {
						on = append(on, "ds")
					}
					ch.Size = strings.Join(on, "+")
				}
				for _, r := range item.Text {
					ch.R = r
					ln.Chars = append(ln.Chars, ch)
				}
			}
			c.Lines = append(c.Lines, ln)
		}
		out = append(out, c)
	}
	return out
}

func zeroTimes(cs []tt.Cue) []tt.Cue {
	o := append([]tt.Cue(nil), cs...)
	for i := range o {
		o[i].Start, o[i].End = 0, 0
	}
	return o
}

// ---------------------------------------------------------------------------------------------
// the check
// ---------------------------------------------------------------------------------------------

// Case is one execution: a stream model and reader options (self-contained for replay).
type Case struct {
	Sub    string      `json:"sub"`
	Word   []string    `json:"word,omitempty"`
	Serial bool        `json:"serial"`
	Mux    string      `json:"mux,omitempty"`
	Note   string      `json:"note,omitempty"`
	Opts   tt.ReadOpts `json:"opts"`
	Stream tt.Stream   `json:"stream"`
	// Prior (sub "history"): two other streams; Stream is read after each of them and both results must agree.
	Prior []tt.Stream `json:"prior,omitempty"`
}

type features struct {
	x28, m29, short, emptyPES, tail, section bool
}

func scan(s tt.Stream) (f features) {
	f.section = s.SectionPID
	for _, es := range s.ES {
		for _, p := range es.PESs {
			if p.NoPayload {
				f.emptyPES = true
			}
			if len(p.Tail) > 0 {
				f.tail = true
			}
			for _, u := range p.Units {
				if u.Short {
					f.short = true
				}
				if u.Packet != nil {
					switch u.Packet.Kind {
					case tt.KX28:
						f.x28 = true
					case tt.KM29:
						f.m29 = true
					}
				}
			}
		}
	}
	return
}

func shortFunc(full string) string {
	if i := strings.LastIndex(full, "."); i >= 0 {
		return full[i+1:]
	}
	return full
}

func panicKey(p *panicInfo, f features) string {
	fn := shortFunc(p.Func)
	inSub := strings.Contains(p.Func, "asticode/go-astisub")
	nilDeref := strings.Contains(p.Msg, "nil pointer dereference")
	oob := strings.Contains(p.Msg, "out of range")
	switch {
	case !inSub:
		return "tt.read.panic"
	case fn == "setTripletX28" && f.x28 && nilDeref:
		return "tt.read.panic.x28-nil-triplet"
	case fn == "setTripletM29" && f.m29 && nilDeref:
		return "tt.read.panic.m29-nil-triplet"
	case fn == "updateCharset" && (f.x28 || f.m29) && nilDeref:
		return "tt.read.panic.triplet-before-first-page-charset"
	case fn == "process" && f.emptyPES && strings.Contains(p.Msg, "[0] with length 0"):
		return "tt.read.panic.empty-pes-payload"
	case fn == "process" && f.tail && oob:
		return "tt.read.panic.dangling-unit-byte"
	case (fn == "parseDataUnit" || fn == "parsePacket" || fn == "parsePacketHeader" || fn == "parsePacketData" || fn == "parsePacket28And29") && f.short && oob:
		return "tt.read.panic.short-unit." + fn
	case (fn == "ReadFromTeletext" || fn == "teletextPID") && f.section && nilDeref:
		return "tt.read.panic.nextdata-nil"
	}
	return "tt.read.panic"
}

// Result of one execution.
type Result struct {
	Key, Msg string
	Outcome  uint64
	Excluded string // "astits-panic" / "unsettled": executed for the crash oracle only
}

// CheckRead runs ReadFromTeletext on the stream and compares with the reference page machine.
func CheckRead(cs Case) (r Result) {
	b := cs.Stream.Bytes()
	s, err, pan := safeRead(b, cs.Opts)
	if pan != nil {
		if pan.Astits {
			return Result{Excluded: "astits-panic", Outcome: core.Hash64("astits-panic", pan.Func)}
		}
		return Result{Key: panicKey(pan, scan(cs.Stream)), Msg: fmt.Sprintf("ReadFromTeletext panicked in %s: %s", pan.Func, pan.Msg)}
	}
	x := tt.Expect(cs.Stream, cs.Opts, tt.Variant{})
	if err != nil {
		if x.NoPID && err == astisub.ErrNoValidTeletextPID {
			return Result{Outcome: core.Hash64("nopid")}
		}
		return Result{Key: "tt.read.error", Msg: fmt.Sprintf("ReadFromTeletext failed on a valid stream: %v", err)}
	}
	if x.NoPID {
		return Result{Key: "tt.read.no-pid-accepted", Msg: "stream without teletext PID read without error"}
	}
	if x.Unsettled != "" {
		return Result{Excluded: "unsettled", Outcome: core.Hash64("unsettled", x.Unsettled)}
	}
	den := func(x tt.Expectation) string {
		cues := x.Cues
		if cs.Stream.PCR {
			cues = zeroTimes(cues) // the sentence speaks of presentation times only
		}
		return tt.Denote(cues)
	}
	// non-empty expected lines, for aligning the parity-failure flag
	par := func(ci, li int) bool {
		if ci >= len(x.Cues) {
			return false
		}
		k := 0
		for _, l := range x.Cues[ci].Lines {
			if len(l.Chars) == 0 {
				continue
			}
			if k == li {
				return l.ParityErr
			}
			k++
		}
		return false
	}
	gotCues := FromSubs(s, par)
	if cs.Stream.PCR {
		gotCues = zeroTimes(gotCues)
	}
	got, want := tt.Denote(gotCues), den(x)
	if got == want {
		return Result{Outcome: core.Hash64(got)}
	}
	// Freedoms the sentence leaves open (a blank or nothing for the other spacing attributes, mosaic colour
	// codes being colour codes or not): the reader may follow either reading, consistently.
	for mask := 1; mask < 4 && x.Free != 0; mask++ {
		if mask&^x.Free != 0 {
			continue
		}
		ax := tt.Expect(cs.Stream, cs.Opts, tt.Variant{Blank: mask&tt.FreeBlank != 0, MosaicColour: mask&tt.FreeMosaicColour != 0})
		if ax.Unsettled == "" && got == den(ax) {
			return Result{Outcome: core.Hash64(got)}
		}
	}
	// Known defect shapes are recognised by re-running the reference machine under the one deviant
	// reading that describes the defect; anything else is the generic mismatch.
	key := "tt.read.mismatch"
	type deviant struct {
		v   tt.Variant
		key string
	}
	deviants := []deviant{
		{tt.Variant{DupRows: true}, "tt.read.retransmitted-row-line-repeated"},
		{tt.Variant{DecimalAlias: true}, "tt.read.hex-page-number-aliases-decimal"},
		{tt.Variant{DecimalAlias: true, DupRows: true}, "tt.read.hex-page-number-aliases-decimal"},
		{tt.Variant{Restyle: true}, "tt.read.attribute-code-outside-box-restyles-previous-text"},
	}
	var settled []tt.Expectation
	settled = append(settled, x)
classify:
	for _, dv := range deviants {
		for _, lenient := range []bool{false, true} {
			dv.v.Lenient = lenient
			dx := tt.Expect(cs.Stream, cs.Opts, dv.v)
			if dx.Unsettled == tt.UnsettledDesignation {
				settled = append(settled, dx) // candidates for the character-only comparison below
			}
			if dx.Unsettled != "" {
				continue
			}
			if got == den(dx) {
				key = dv.key
				break classify
			}
			settled = append(settled, dx)
		}
	}
	if key == "tt.read.mismatch" {
		// Same cues, lines, attributes and lengths as the reference (or as one known deviant reading) and only
		// the decoding of characters differs, in a stream where a correctly coded X/28/0 or M/29/0 designates
		// exactly the set its own page header names.
		gb := tt.Denote(blankChars(gotCues))
		for _, dx := range settled {
			cues := dx.Cues
			if cs.Stream.PCR {
				cues = zeroTimes(cues)
			}
			if dx.Designated && gb == tt.Denote(blankChars(cues)) {
				key = "tt.read.x28-m29-designation-misread"
				break
			}
		}
	}
	return Result{Key: key, Msg: fmt.Sprintf("options %+v\n expected %q\n reader returned %q", cs.Opts, want, got)}
}

func blankChars(cs []tt.Cue) []tt.Cue {
	var o []tt.Cue
	for _, c := range cs {
		n := tt.Cue{Start: c.Start, End: c.End}
		for _, l := range c.Lines {
			nl := tt.Line{Row: l.Row, ParityErr: l.ParityErr}
			for _, ch := range l.Chars {
				ch.R = '?'
				nl.Chars = append(nl.Chars, ch)
			}
			n.Lines = append(n.Lines, nl)
		}
		o = append(o, n)
	}
	return o
}

// CheckHistory: what a read returns is a function of the stream alone, so reading cs.Stream after
// cs.Prior[0] and after cs.Prior[1] must give the same denotation (whatever it is: this also covers
// the reserved national option code 111, for which the expected characters are not decided).
func CheckHistory(cs Case) (r Result) {
	b := cs.Stream.Bytes()
	var dens []string
	for _, p := range cs.Prior {
		if _, _, pan := safeRead(p.Bytes(), cs.Opts); pan != nil && !pan.Astits {
			return Result{Key: panicKey(pan, scan(p)), Msg: fmt.Sprintf("ReadFromTeletext panicked in %s: %s", pan.Func, pan.Msg)}
		}
		s, err, pan := safeRead(b, cs.Opts)
		if pan != nil {
			if pan.Astits {
				return Result{Excluded: "astits-panic", Outcome: core.Hash64("astits-panic", pan.Func)}
			}
			return Result{Key: panicKey(pan, scan(cs.Stream)), Msg: fmt.Sprintf("ReadFromTeletext panicked in %s: %s", pan.Func, pan.Msg)}
		}
		if err != nil {
			return Result{Key: "tt.read.error", Msg: fmt.Sprintf("ReadFromTeletext failed on a valid stream: %v", err)}
		}
		dens = append(dens, tt.Denote(FromSubs(s, nil)))
	}
	for _, d := range dens[1:] {
		if d != dens[0] {
			return Result{Key: "tt.read.depends-on-previous-read", Msg: fmt.Sprintf("the same stream read twice in one process\n after stream A: %q\n after stream B: %q", dens[0], d)}
		}
	}
	return Result{Outcome: core.Hash64("history", dens[0])}
}

// CheckSwitch: the characters of a page are a function of that page's own header (and designation packets), so
// the last page of cs.Stream must read the same as the last page of cs.Prior[0], which differs only in the national
// option of the page BEFORE it (this also holds for the reserved code 111, whatever its characters are).
func CheckSwitch(cs Case) (r Result) {
	last := func(st tt.Stream) (string, *Result) {
		s, err, pan := safeRead(st.Bytes(), cs.Opts)
		if pan != nil {
			if pan.Astits {
				return "", &Result{Excluded: "astits-panic", Outcome: core.Hash64("astits-panic", pan.Func)}
			}
			return "", &Result{Key: panicKey(pan, scan(st)), Msg: fmt.Sprintf("ReadFromTeletext panicked in %s: %s", pan.Func, pan.Msg)}
		}
		if err != nil {
			return "", &Result{Key: "tt.read.error", Msg: fmt.Sprintf("ReadFromTeletext failed on a valid stream: %v", err)}
		}
		cues := FromSubs(s, nil)
		if len(cues) != 2 {
			return "", &Result{Key: "tt.switch.cue-count", Msg: fmt.Sprintf("two transmitted pages, %d cues read: %q", len(cues), tt.Denote(cues))}
		}
		return tt.Denote(cues[1:]), nil
	}
	a, bad := last(cs.Stream)
	if bad != nil {
		return *bad
	}
	b, bad := last(cs.Prior[0])
	if bad != nil {
		return *bad
	}
	if a != b {
		return Result{Key: "tt.read.page-characters-depend-on-the-page-before", Msg: fmt.Sprintf("%s: the second page reads\n %q\nbut after a page of its own national option it reads\n %q", cs.Note, a, b)}
	}
	return Result{Outcome: core.Hash64("switch", a)}
}

// twoPageStream: the selected page transmitted twice, first under national option a, then under b, same cells.
func twoPageStream(a, b tt.Subset, cells []byte) tt.Stream {
	page := func(nat tt.Subset, at int64) tt.PES {
		return tt.PES{PTS: at, Units: []tt.Unit{{Packet: hdr(selMag, 2, 0, true, true, nat)}, {Packet: row(selMag, 1, boxed(nil, 'k'))}, {Packet: row(selMag, 20, cells)}}}
	}
	return tt.Stream{ES: []tt.ES{{PID: mainPID, Descriptor: "teletext", PESs: []tt.PES{
		page(a, pts0), page(b, pts0+second), {PTS: pts0 + 2*second, Units: []tt.Unit{tt.Stuffing()}},
	}}}}
}

func switchCases() (out []Case) {
	for b := tt.Subset(0); b < 8; b++ {
		for a := tt.Subset(0); a < 8; a++ {
			if a == b {
				continue
			}
			for base := 0x20; base < 0x80; base += 0x20 {
				cells := []byte{0x0b, 0x0b, 'x'}
				for c := base; c < base+0x20; c++ {
					cells = append(cells, byte(c))
				}
				cells = append(cells, 'x', 0x0a, 0x0a)
				out = append(out, Case{Sub: "switch", Note: fmt.Sprintf("g0 %#x.. page of national option code %03b after a page of code %03b", base, b, a),
					Opts:   tt.ReadOpts{Page: selPage, PID: mainPID},
					Stream: twoPageStream(a, b, cells),
					Prior:  []tt.Stream{twoPageStream(b, b, cells)}})
			}
		}
	}
	return
}

func historyCases() (out []Case) {
	sweep := func(base int) []byte {
		cells := []byte{0x0b, 0x0b, 'x'}
		for c := base; c < base+0x20; c++ {
			cells = append(cells, byte(c))
		}
		return append(cells, 'x', 0x0a, 0x0a)
	}
	prior := []tt.Subset{tt.English, tt.French, tt.German}
	for nat := tt.Subset(0); nat < 8; nat++ {
		for base := 0x20; base < 0x80; base += 0x20 {
			for i := range prior {
				p1, p2 := prior[i], prior[(i+1)%len(prior)]
				out = append(out, Case{Sub: "history", Note: fmt.Sprintf("g0 %#x.. national option code %03b read after a page of sub-set %d and of sub-set %d", base, nat, p1, p2),
					Opts:   tt.ReadOpts{Page: selPage, PID: mainPID},
					Stream: rowStream(nat, sweep(base), nil),
					Prior:  []tt.Stream{rowStream(p1, sweep(base), nil), rowStream(p2, sweep(base), nil)}})
			}
		}
	}
	return
}

// option sets
func optsFor(mux string) []tt.ReadOpts {
	o := []tt.ReadOpts{{Page: selPage, PID: mainPID}, {Page: selPage}, {PID: mainPID}, {}}
	if mux == "second-teletext" {
		o = append(o, tt.ReadOpts{Page: selPage, PID: 0x101}, tt.ReadOpts{PID: 0x101})
	}
	if mux == "otherpid-first" {
		o = append(o, tt.ReadOpts{Page: selPage, PID: 0x0ff})
	}
	return o
}

func genWord(x *explore.C, alphabet []string, maxLen int) (word []string, serial bool) {
	n := x.Choose("len", maxLen+1)
	for i := 0; i < n; i++ {
		word = append(word, alphabet[x.Choose("letter", len(alphabet))])
	}
	serial = x.Bool("serial")
	return
}

func run(c *core.Ctx) {
	log.SetOutput(io.Discard)
	thorough := c.Tier == core.Thorough
	exec := func(cs Case, size int) {
		for _, o := range optsFor(cs.Mux) {
			cs.Opts = o
			r := CheckRead(cs)
			nt := uint64(0)
			if len(cs.Word) > 0 || cs.Note != "" {
				nt = core.Hash64(cs.Sub, strings.Join(cs.Word, " "), cs.Note, fmt.Sprint(cs.Serial, cs.Mux, o))
			}
			cs := cs
			c.Record(cs.Sub, r.Outcome, nt, func() interface{} {
				return map[string]interface{}{"word": cs.Word, "serial": cs.Serial, "mux": cs.Mux, "note": cs.Note, "opts": cs.Opts, "ts_bytes": len(cs.Stream.Bytes())}
			})
			if r.Excluded != "" {
				c.Extra["crash_oracle_only_"+r.Excluded]++
			}
			if r.Key != "" {
				c.Violate(cs.Sub, r.Key, r.Msg, cs, size)
			}
		}
	}

	// (0) page selection among several subtitle pages on air (page numbers 00, shared numbers across magazines, auto-detection)
	pageSelRun(c)
	desigRun(c)

	// (0b) value domains of every field: deviation ball around one realistic delivery, and the full products
	valueRun(c)

	// (1) every word up to the length bound x transmission mode, plain multiplexing
	var word []string
	var serial bool
	muxIndex := map[string]int{}
	for i, m := range muxVariants {
		muxIndex[m] = i
	}
	visitWords := func(sub, mux string) func(*explore.C) bool {
		return func(x *explore.C) bool {
			if !c.Mine() {
				return true
			}
			w := append([]string(nil), word...)
			size := len(w)*100 + muxIndex[mux]*2
			if serial {
				size++
			}
			exec(Case{Sub: sub, Word: w, Serial: serial, Mux: mux, Stream: BuildStream(w, serial, mux)}, size)
			return !c.Expired()
		}
	}
	fixedLen := func(alphabet []string, n int) func(x *explore.C) {
		return func(x *explore.C) {
			word = word[:0]
			for i := 0; i < n; i++ {
				word = append(word, alphabet[x.Choose("letter", len(alphabet))])
			}
			serial = x.Bool("serial")
		}
	}
	explore.Explore(-1, func(x *explore.C) { word, serial = genWord(x, alphabetQuick, 3) }, visitWords("words", "plain"))
	if !thorough {
		explore.Explore(-1, fixedLen(alphabetCore, 4), visitWords("words4", "plain"))
	} else {
		explore.Explore(-1, fixedLen(alphabetQuick, 4), visitWords("words4", "plain"))
		explore.Explore(-1, fixedLen(alphabetReduced, 5), visitWords("words5", "plain"))
	}

	// (2) multiplexing variants x every word up to length 2 (quick) / 3 (thorough)
	ml := 2
	if thorough {
		ml = 3
	}
	for _, mux := range muxVariants[1:] {
		explore.Explore(-1, func(x *explore.C) { word, serial = genWord(x, alphabetQuick, ml) }, visitWords("mux", mux))
	}
	// the delivery shape of real subtitle services under every variant: two instances, an erase page
	for _, mux := range muxVariants {
		for _, w := range [][]string{
			{"PES", "Hs0", "R20", "R22", "PES", "Hs0", "PES", "Hs1", "R1", "PES", "Hs0"},
			{"Hom", "Rom", "PES", "Hs4", "R1", "R24", "PES", "Stf", "PES", "Hop", "PES", "Hs4", "R20"},
		} {
			for _, ser := range []bool{false, true} {
				if c.Mine() {
					exec(Case{Sub: "mux", Word: w, Serial: ser, Mux: mux, Stream: BuildStream(w, ser, mux)}, len(w)*100+muxIndex[mux]*2)
				}
			}
		}
	}

	// (3) row text tables
	rcs := rowCases(thorough)
	if c.Shard == 0 {
		c.Extra["row_texts"] = int64(len(rcs))
	}
	for _, rc := range rcs {
		if !c.Mine() {
			continue
		}
		exec(rc, 2000+len(rc.Note))
		if c.Expired() {
			break
		}
	}

	// (5) independence from earlier reads in the same process
	for _, hc := range historyCases() {
		if !c.Mine() {
			continue
		}
		r := CheckHistory(hc)
		c.Record(hc.Sub, r.Outcome, core.Hash64("history", hc.Note), func() interface{} { return map[string]interface{}{"note": hc.Note} })
		if r.Key != "" {
			c.Violate(hc.Sub, r.Key, r.Msg, hc, 4000+len(hc.Note))
		}
	}

	// (5b) independence of a page's characters from the page transmitted before it
	for _, sc := range switchCases() {
		if !c.Mine() {
			continue
		}
		r := CheckSwitch(sc)
		c.Record(sc.Sub, r.Outcome, core.Hash64("switch", sc.Note), func() interface{} { return map[string]interface{}{"note": sc.Note} })
		if r.Key != "" {
			c.Violate(sc.Sub, r.Key, r.Msg, sc, 4000+len(sc.Note))
		}
	}

	// (4) every truncation of every packet kind
	for _, sc := range shortCases() {
		if !c.Mine() {
			continue
		}
		exec(sc, 3000+len(sc.Note))
	}
}

// rowStream: selected header with the sub-set, a constant row 1, the row under test at 20, trailer.
func rowStream(nat tt.Subset, cells []byte, bad []int) tt.Stream {
	h := hdr(selMag, 2, 0, true, true, nat)
	r := row(selMag, 20, cells)
	r.BadParity = bad
	return tt.Stream{ES: []tt.ES{{PID: mainPID, Descriptor: "teletext", PESs: []tt.PES{
		{PTS: pts0, Units: []tt.Unit{{Packet: h}, {Packet: row(selMag, 1, boxed(nil, 'k'))}, {Packet: r}}},
		{PTS: pts0 + second, Units: []tt.Unit{tt.Stuffing()}},
	}}}}
}

var subsets = []tt.Subset{tt.English, tt.French, tt.German, tt.SwedishFinnish, tt.Italian, tt.PortugueseSpan, tt.CzechSlovak}

func rowCases(thorough bool) (out []Case) {
	// (a) every G0 position under every sub-set, 32 positions per row between two sentinels
	for _, nat := range subsets {
		for base := 0x20; base < 0x80; base += 0x20 {
			cells := []byte{0x0b, 0x0b, 'x'}
			for c := base; c < base+0x20; c++ {
				cells = append(cells, byte(c))
			}
			cells = append(cells, 'x', 0x0a, 0x0a)
			out = append(out, Case{Sub: "rows", Note: fmt.Sprintf("g0 %#x.. subset %d", base, nat), Stream: rowStream(nat, cells, nil)})
		}
	}
	// (b) every string of <= 3 spacing attributes between the letters A B C D (layout "spread": A c1 B c2 C c3 D)
	// and next to each other (layout "adjacent": AB c1 c2 c3 CD), with and without an enclosing box; box codes
	// are sent twice as the standard requires. Quick: strings of <= 2 over all 32 codes 0x00..0x1F and of 3 over
	// the colour/size/box codes; thorough: strings of <= 3 over all 32 codes.
	codes := []byte{0, 1, 2, 3, 4, 5, 6, 7, 0x0a, 0x0b, 0x0c, 0x0d, 0x0e, 0x0f}
	var all32 []byte
	for c := byte(0); c < 0x20; c++ {
		all32 = append(all32, c)
	}
	exactly := func(codes []byte, n int) (seqs [][]byte) {
		if n == 0 {
			return [][]byte{nil}
		}
		idx := make([]int, n)
		for {
			s := make([]byte, n)
			for i, k := range idx {
				s[i] = codes[k]
			}
			seqs = append(seqs, s)
			i := n - 1
			for i >= 0 {
				idx[i]++
				if idx[i] < len(codes) {
					break
				}
				idx[i] = 0
				i--
			}
			if i < 0 {
				break
			}
		}
		return
	}
	var seqs [][]byte
	for n := 0; n <= 2; n++ {
		seqs = append(seqs, exactly(all32, n)...)
	}
	if thorough {
		seqs = append(seqs, exactly(all32, 3)...)
	} else {
		seqs = append(seqs, exactly(codes, 3)...)
	}
	for _, sq := range seqs {
		for _, layout := range []string{"spread", "adjacent"} {
			if layout == "adjacent" && len(sq) < 2 {
				continue // same cells as "spread" up to the letters
			}
			for _, enclosed := range []bool{true, false} {
				var cells []byte
				if enclosed {
					cells = append(cells, 0x0b, 0x0b)
				}
				code := func(c byte) {
					cells = append(cells, c)
					if c == 0x0a || c == 0x0b {
						cells = append(cells, c)
					}
				}
				if layout == "spread" {
					for i := 0; i < 4; i++ {
						cells = append(cells, byte('A'+i))
						if i < len(sq) {
							code(sq[i])
						}
					}
				} else {
					cells = append(cells, 'A', 'B')
					for _, c := range sq {
						code(c)
					}
					cells = append(cells, 'C', 'D')
				}
				if enclosed {
					cells = append(cells, 0x0a, 0x0a)
				}
				note := fmt.Sprintf("codes % x enclosed=%v", sq, enclosed)
				if layout != "spread" {
					note += " " + layout
				}
				out = append(out, Case{Sub: "rows", Note: note, Stream: rowStream(tt.English, cells, nil)})
			}
		}
	}
	// (c) one parity failure at every cell of a boxed, coloured row
	cells := boxed([]byte{0x02}, 'a', 'b', 'c', 'd', 0x05, 'e', 'f', 'g', 'h')
	for i := 0; i < len(cells); i++ {
		out = append(out, Case{Sub: "rows", Note: fmt.Sprintf("parity failure at cell %d", i), Stream: rowStream(tt.English, cells, []int{i})})
	}
	return
}

func shortCases() (out []Case) {
	kinds := map[string]*tt.Packet{
		"header": hdr(selMag, 2, 0, true, true, tt.English),
		"row":    row(selMag, 21, cellsNon),
		"x26":    {Kind: tt.KX26, Mag: selMag},
		"x28":    {Kind: tt.KX28, Mag: selMag, RawTail: make([]byte, 39)},
		"m29":    {Kind: tt.KM29, Mag: selMag},
		"x30":    {Kind: tt.KX30, Mag: 8},
	}
	for _, name := range []string{"header", "row", "x26", "x28", "m29", "x30"} {
		for keep := 0; keep < 44; keep++ {
			for _, receiving := range []bool{true, false} {
				var units []tt.Unit
				if receiving {
					units = append(units, tt.Unit{Packet: hdr(selMag, 2, 0, true, true, tt.English)})
				}
				units = append(units, tt.Unit{Packet: kinds[name], Short: true, Keep: keep})
				if receiving {
					units = append(units, tt.Unit{Packet: row(selMag, 22, cellsR22)})
				}
				s := tt.Stream{ES: []tt.ES{{PID: mainPID, Descriptor: "teletext", PESs: []tt.PES{
					{PTS: pts0, Units: units},
					{PTS: pts0 + second, Units: []tt.Unit{tt.Stuffing()}},
				}}}}
				out = append(out, Case{Sub: "short", Note: fmt.Sprintf("%s cut to %d bytes, receiving=%v", name, keep, receiving), Stream: s})
			}
		}
	}
	return
}

func replay(sub string, raw json.RawMessage) (string, bool) {
	log.SetOutput(io.Discard)
	if sub == "designation" {
		return desigReplay(raw)
	}
	if sub == "pagesel" {
		return pageSelReplay(raw)
	}
	var cs Case
	if err := json.Unmarshal(raw, &cs); err != nil {
		return err.Error(), false
	}
	r := Result{}
	if cs.Sub == "history" {
		r = CheckHistory(cs)
	} else if cs.Sub == "switch" {
		r = CheckSwitch(cs)
	} else {
		r = CheckRead(cs)
	}
	if r.Key == "" {
		return "reader output denotes the transmitted pages", false
	}
	return r.Key + ": " + r.Msg, true
}

func init() {
	core.Register(&core.Prop{
		ID: "C06", Level: "exploration",
		Rule: "a case = (packet-sequence word, transmission mode, multiplexing variant, reader options): every word over a 26-letter alphabet of data units (selected-page headers under three national sub-sets, headers of another page / the same number in another magazine / another magazine / time-filling / hexadecimal page, rows 1 20 22 24 of the selected magazine and a row of another magazine, X/26, X/28 (well coded and zero bytes), M/29, 8/30, non-subtitle unit, stuffing, two truncated units, PES boundary (+1 s), non-EBU PES, payload-less PES, stray byte) up to the length bound, in serial and parallel mode, each read with page given/auto x PID given/auto; plus twelve multiplexing variants over shorter words (incl. a first / last PES without EBU teletext data), the row-text tables (every G0 position under 7 national sub-sets, every string of spacing attributes 0x00..0x1F spread between / adjacent inside the letters ABCD with and without enclosing box, a parity failure at every cell), every truncation 0..43 of six packet kinds, and 72 read-after-read pairs (the same stream read after two different streams must denote the same), 168 two-page streams (a page of national option code b = 0..7 after a page of code a != b reads as after a page of its own code, three G0 ranges); plus VALUE DOMAINS (values.go): one realistic delivery (lead-in PES, instance 1 with two rows, distractor page, instance 2, erase page, trailer) whose every field is an E1 site with a boundary-complete table - magazine 1..8, page tens/units {0,1,2,5,8,9}, sub-code {0,1,S1..S4 maxima,3F7F}, C4 C5 C6 C7-C9 C10 C11 each on/off, national option 0..6, row numbers {1,2,3,9,10,11,19..24}, 23 cell patterns (box never closed / text before box / two boxes / blanks only / box filling all 40 columns / character in column 39 / every colour / every size / flash steady backgrounds mosaics conceal ESC hold release / 0x20 0x7E 0x7F), first presentation time {10 s, 0, 9 ticks, across 2^32, up to 2^33-1} and gaps {0, 0.1 ms, 1 ms, s, 1 h, 10 h, 13 h, 26 h}, erase page or end of stream, data_identifier / data_unit_id / field-parity+line-offset byte / framing code (tables in the ball, all 256 values in a product) on the header's or a row's unit, Hamming 8/4 errors (single bit: corrected, two bits in an address / page number byte: packet rejected), PID {0x20,0x21,0x100,0xFFF,0x1001,0x1FFE}, descriptor 0x56 / 0x46 / none, 5 descriptor item lists (types 1..5, languages, several items, none), other descriptors before/after (0x52 0x0A 0x59 0x45 0x80, second teletext descriptor), 7 PMT layouts (look-alike PIDs with no / DVB-subtitling / VBI-data descriptor first, second teletext PID higher / lower / first), 7 distractor placements incl. pages with hexadecimal digits, X/26 X/27 X/28 M/29 8/30 X/31 with designation codes 0..15, page option {the page, 0, other page, <100, >=900, other magazine}, PID option {given, 0, absent, second}, PES alignment, table repetition, a non-private_stream_1 PES: every case within 2 (quick) / 3 (thorough) deviations of the baseline, and full products pages (all 800 page numbers) / hexpages / rowpairs (all ordered pairs of rows 1..25, all 24 rows in 3 orders) / hdrbits (all 2^7 control bit combinations) / texts / times / unitbytes / pmt / opts / ham / enh; ReadFromTeletext under recover() must return what the reference page machine (engine/ref/teletext.Expect) derives from the model (for the two freedoms of the sentence - a blank or nothing for spacing attributes other than colour/size/box, mosaic colour codes counting as colour codes or not - either reading, consistently); non-trivial = non-empty word or table entry, distinct by (word, mode, variant, options) / by value assignment",
		Scope: map[core.Tier]string{
			core.Quick:    "all words of length <= 3 over 26 letters and all words of length 4 over 16 letters, x {serial, parallel} x 4 reader option sets; 12 mux variants x words of length <= 2 over 26 letters; 15 173 row texts (attribute strings of <= 2 over all 32 codes, of 3 over the 14 colour/size/box codes); 528 truncations; 72 read-after-read pairs; value domains: 20 417 cases within 2 deviations over 40 sites, products pages 14 400, hexpages 3 072, rowpairs 2 524, hdrbits 7 168, texts 1 587, times 4 272 (336 beyond the 33-bit counter skipped), unitbytes 2 048, pmt 8 232, opts 4 704, ham 864, enh 1 536; designation precedence: 64 x 64 pairs of valid X/28/0 and M/29/0 triplets x 3 positions of the M/29/0 (a page with its own X/28/0 reads the same with or without the magazine packet)",
			core.Thorough: "all words of length <= 4 over 26 letters and all words of length 5 over 14 letters, x {serial, parallel} x 4 reader option sets; 8 mux variants x words of length <= 3; 135 269 row texts (attribute strings of <= 3 over all 32 codes); truncations as quick; value domains: 1 280 002 cases within 3 deviations, products as quick",
		},
		Assumptions: []string{
			"Go toolchain and standard library", "astits muxer for the 188-byte packet / PAT / PMT layer; panics whose innermost frame is inside astits are the demuxer's own and excluded",
			"independent reference encoder and page machine engine/ref/teletext",
			"not decided by the property sentence, executed for the crash oracle only: rows of the selected magazine after (serial mode) a header of another magazine with the selected page number or after a time-filling header; packet X/25; lone (undoubled) box codes; two different enlarged sizes without normal size in between; instances whose rows carry no boxed text; timing when the PES carry no PTS (PCR variant: text compared, times not); C10 (inhibit display) set on the selected page; text after a conceal code, mosaic characters (columns 2 3 6 7 after a mosaic colour code); two wrong bits in a Hamming 8/4 byte other than address / page number",
			"not generated (outside the sentence or the library's documented model): presentation times that are not whole nanoseconds (ticks not divisible by 9), PTS wrap-around and a first PES that is not the earliest, PES without PTS among PES with PTS, national option 111 and G0 sets reachable only through X/28 / M/29 designation (known finding), subtitle-flagged pages with hexadecimal digits, page option < 0 or >= 1000, PID option outside 0..0x1FFF, stream_type other than 0x06, Hamming 24/18 errors",
			"look-alike glyphs are unified before comparison (arrows/guillemets/circumflex, long dash/hyphen, double/broken bar, block/U+007F); spaces next to a colour/size code are not generated",
			"all headers of a stream carry the same C11; presentation times are whole multiples of 0.1 ms (9 ticks) and non-decreasing; PES of other PIDs have times inside the teletext PID's range",
		},
		Plain: run, Replay: replay,
		MinOutcomes: 10,
	})
}
