package c06

import (
	"io"
	"log"
	"testing"

	tt "verif/ref/teletext"
)

// The helper API of ref/teletext (BuildTS / ExpectSpec) against the library, on a stream that has none
// of the shapes the library is known to mishandle.
func TestBuildTSReadByLibrary(t *testing.T) {
	log.SetOutput(io.Discard)
	spec := tt.Spec{Pages: []tt.Page{
		{Number: 888, AtMs: 1000, Rows: []tt.RowText{{Row: 20, Text: "hello"}, {Row: 22, Text: "world", Colour: tt.Yellow}}},
		{Number: 888, AtMs: 3000},
		{Number: 888, AtMs: 4000, Nat: tt.French, Rows: []tt.RowText{{Row: 22, Text: "été", DoubleHeight: true}}},
	}, EndMs: 6000}
	for _, o := range []tt.ReadOpts{{}, {Page: 888}, {PID: 0x100}, {Page: 888, PID: 0x100}} {
		s, err, pan := safeRead(tt.BuildTS(spec), o)
		if err != nil || pan != nil {
			t.Fatalf("options %+v: %v %+v", o, err, pan)
		}
		got, want := tt.Denote(FromSubs(s, nil)), tt.Denote(tt.ExpectSpec(spec))
		if got != want {
			t.Errorf("options %+v: library %q, reference %q", o, got, want)
		}
	}
}

func TestReplayRoundTrip(t *testing.T) {
	log.SetOutput(io.Discard)
	cs := Case{Sub: "words", Word: []string{"Hs0", "R20"}, Stream: BuildStream([]string{"Hs0", "R20"}, false, "plain"), Opts: tt.ReadOpts{Page: selPage, PID: mainPID}}
	if r := CheckRead(cs); r.Key != "" {
		t.Errorf("baseline word violates: %s %s", r.Key, r.Msg)
	}
}
