package c06

import (
	"fmt"

	"verif/core"
	"verif/explore"
	tt "verif/ref/teletext"
)

// Value domains. The word sweeps of c06.go vary the *order* of packets over fixed letters; here one fixed,
// realistic delivery (lead-in PES, instance 1 with two rows, a distractor page, instance 2 with one row, an
// erase page, a trailer) has every FIELD range over a boundary-complete value table. Every table is a site of
// the E1 explorer (option 0 = baseline), so that
//   - "values": every combination of up to 2 (quick) / 3 (thorough) non-baseline values is executed, and
//   - each table is also inside one full product with the dimensions it interacts with (valueProducts).

const (
	maxPTS = 8589934584 // the largest multiple of 9 ticks (a whole number of nanoseconds) below 2^33
	hour   = 3600 * second
)

// cells of the row under test: box shapes, attribute codes, character boundaries
var cellTable = []struct {
	name  string
	cells []byte
}{
	{"boxed text with national positions", boxed(nil, 'a', 'l', 'f', 'a', 0x23, 0x7e)},
	{"box never closed", []byte{0x0b, 0x0b, 'o', 'p', 'e', 'n'}},
	{"text before the start box", append([]byte{'p', 'r', 'e'}, boxed(nil, 'i', 'n')...)},
	{"two boxes on one row", append(append(boxed(nil, 'b', '1'), 'o', 'u', 't'), boxed(nil, 'b', '2')...)},
	{"box of blanks only", boxed(nil, ' ', ' ', ' ')},
	{"box from column 0 filling the row", fill(38, nil)},
	{"box closing in the last two columns", fill(36, []byte{0x0a, 0x0a})},
	{"start box in columns 37 38, one character in column 39", append(pad(37), 0x0b, 0x0b, 'z')},
	{"start box in columns 38 39", append(pad(38), 0x0b, 0x0b)},
	{"interior double space", boxed(nil, 'a', ' ', ' ', 'b')},
	{"outer spaces inside the box", boxed(nil, ' ', 'x', ' ')},
	{"every alpha colour", boxed(nil, 0x00, 'K', 0x01, 'R', 0x02, 'G', 0x03, 'Y', 0x04, 'B', 0x05, 'M', 0x06, 'C', 0x07, 'W')},
	{"every size", boxed(nil, 0x0d, 'H', 0x0c, 'n', 0x0e, 'W', 0x0c, 'n', 0x0f, 'S', 0x0c, 'n')},
	{"colour before the box", boxed([]byte{0x01}, 'r', 'e', 'd')},
	{"size before the box", boxed([]byte{0x0f}, 'b', 'i', 'g')},
	{"flash steady backgrounds", boxed(nil, 'A', 0x08, 'B', 0x09, 'C', 0x1c, 'D', 0x1d, 'E')},
	{"mosaic colour then alpha colour", boxed(nil, 'A', 0x11, 0x02, 'c')},
	{"mosaic colour then capitals", boxed(nil, 'A', 0x13, 'B', 'C')},
	{"mosaic shapes ESC hold release", boxed(nil, 'A', 0x19, 'B', 0x1a, 'C', 0x1b, 'D', 0x1e, 'E', 0x1f, 'F')},
	{"conceal at the end", boxed(nil, 'A', 0x18)},
	{"codes 0x20 0x7e 0x7f", boxed(nil, 'x', 0x20, 0x7e, 0x7f, 'x')},
	{"same colour twice", boxed(nil, 0x01, 'A', 0x01, 'B')},
	{"every mosaic colour then white", boxed(nil, 'A', 0x10, 0x11, 0x12, 0x13, 0x14, 0x15, 0x16, 0x17, 0x07, 'w')},
}

func pad(n int) []byte {
	o := make([]byte, n)
	for i := range o {
		o[i] = 0x20
	}
	return o
}

// fill: start box in columns 0 1, n characters, tail
func fill(n int, tail []byte) []byte {
	o := []byte{0x0b, 0x0b}
	for i := 0; i < n; i++ {
		o = append(o, byte('A'+i%26))
	}
	return append(o, tail...)
}

var itemTable = [][]tt.DescItem{
	nil, // default: eng, subtitle page, 0/88
	{},  // stands for NoItems
	{{Lang: "fra", Type: 0x01, Mag: 1, Page: 0}},
	{{Lang: "eng", Type: 0x05, Mag: 0, Page: 88}, {Lang: "deu", Type: 0x02, Mag: 1, Page: 50}},
	{{Lang: "   ", Type: 0x03, Mag: 7, Page: 99}, {Lang: "und", Type: 0x04, Mag: 2, Page: 9}},
}

var (
	beforeTable = [][]string{nil, {"streamid"}, {"lang"}, {"subtitling"}, {"vbidata"}, {"private"}, {"streamid", "lang", "private"}}
	afterTable  = [][]string{nil, {"streamid"}, {"vbi"}, {"subtitling"}}
)

// a Hamming 8/4 error pattern: which packet, which bits
type flipSpec struct {
	target int // 0 row A, 1 header of instance 1
	bits   []int
}

var flipTable = []flipSpec{
	{0, nil},
	{1, []int{0}}, {1, []int{7}}, {1, []int{11}}, {1, []int{17}}, {1, []int{30}}, {1, []int{45}}, {1, []int{58}}, {1, []int{74}}, // corrected
	{0, []int{2}}, {0, []int{13}}, // corrected
	{1, []int{0, 1}}, {1, []int{9, 14}}, {1, []int{16, 17}}, {1, []int{24, 31}}, // header rejected
	{0, []int{3, 4}}, {0, []int{8, 15}}, // row rejected
	{1, []int{1, 10, 19, 28, 37, 46, 55, 64, 73}}, // one wrong bit in every protected byte
}

// vcase: one value assignment.
type vcase struct {
	Mag               int
	Tens, Units       uint8
	Sub               uint16
	C4, C5, C6        bool
	C7to9             uint8
	C10               bool
	Serial            bool
	Nat               tt.Subset
	RowA, RowB        int
	TextA, TextB      int
	Base              int64 // -1: as late as the 33-bit counter allows
	Gap0, Gap1, Gap2  int64
	Erase             bool
	DataID            byte
	Target            int // unit the unit-level bytes apply to: 0 row A, 1 header of instance 1
	UnitID, Framing   byte
	FL                int // -1: default
	PID               uint16
	Desc              string
	Items             int
	Before, After     int
	Layout            int
	Distractor        int
	HexTens, HexUnits uint8 // page digits of distractor 3 (a page with a hexadecimal digit)
	OptPage, OptPID   int
	Flip              flipSpec
	Enh               string // "" or a packet kind
	EnhDC             uint8
	EnhCoded          bool // triplets Hamming 24/18 coded designating the page's own set (else zero bytes)
	EnhOther          bool // on another magazine
	EnhFirst          bool // before the header instead of between header and row A
	Aligned           bool
	Tables            int
	Extra             int // 0 none, 1: a PES with stream_id 0xC0 after the trailer, 2: with stream_id 0xBF
	AllRows           int // 0: rows A and B; 1..3: all 24 rows ascending / descending / interleaved (products only)
}

func baseline() vcase {
	return vcase{Mag: 1, Tens: 2, Units: 0, C4: true, C6: true, RowA: 20, RowB: 22, Base: pts0, Gap0: second, Gap1: 2 * second, Gap2: 3 * second,
		Erase: true, FL: -1, PID: mainPID, Desc: "teletext", HexTens: 2, HexUnits: 0xa}
}

// genValues: every field is a site.
func genValues(x *explore.C) vcase {
	v := baseline()
	v.Mag = explore.Pick(x, "mag", 1, 2, 3, 4, 5, 6, 7, 8)
	v.Tens = explore.Pick[uint8](x, "tens", 2, 0, 1, 9, 5, 8)
	v.Units = explore.Pick[uint8](x, "units", 0, 1, 9, 5, 8)
	v.Sub = explore.Pick[uint16](x, "subcode", 0, 1, 0xf, 0x70, 0x780, 0x1800, 0x3f7f)
	v.C4 = explore.Pick(x, "c4", true, false)
	v.C5 = explore.Pick(x, "c5", false, true)
	v.C6 = explore.Pick(x, "c6", true, false)
	v.C7to9 = explore.Pick[uint8](x, "c7-9", 0, 1, 2, 4, 7)
	v.C10 = explore.Pick(x, "c10", false, true)
	v.Serial = explore.Pick(x, "serial", false, true)
	v.Nat = explore.Pick(x, "nat", tt.English, tt.German, tt.SwedishFinnish, tt.Italian, tt.French, tt.PortugueseSpan, tt.CzechSlovak)
	v.RowA = explore.Pick(x, "rowA", 20, 1, 2, 9, 10, 11, 19, 21, 23, 24)
	v.RowB = explore.Pick(x, "rowB", 22, 1, 2, 3, 9, 10, 19, 20, 23, 24)
	v.TextA = x.Choose("textA", len(cellTable))
	v.TextB = x.Choose("textB", len(cellTable))
	v.Base = explore.Pick[int64](x, "base", pts0, 0, 9, 4294967292, -1)
	v.Gap0 = explore.Pick[int64](x, "gap0", second, 0, 9)
	v.Gap1 = explore.Pick[int64](x, "gap1", 2*second, 0, 9, 90, hour, 13*hour)
	v.Gap2 = explore.Pick[int64](x, "gap2", 3*second, 0, 9, 10*hour)
	v.Erase = explore.Pick(x, "erase", true, false)
	v.DataID = explore.Pick[byte](x, "data_identifier", 0, 0x11, 0x1f, 0x0f, 0x20, 0xff, 0x01)
	v.Target = x.Choose("target", 2)
	v.UnitID = explore.Pick[byte](x, "data_unit_id", 0, 0x02, 0xff, 0x01, 0x04, 0xc3)
	v.FL = explore.Pick(x, "field/line byte", -1, 0x00, 0xff, 0xe7, 0xd6, 0x36)
	v.Framing = explore.Pick[byte](x, "framing code", 0, 0x27, 0xe5, 0xff)
	v.PID = explore.Pick[uint16](x, "pid", mainPID, 0x20, 0x1ffe, 0x1001, 0x0fff, 0x21)
	v.Desc = explore.Pick(x, "descriptor", "teletext", "vbi", "")
	v.Items = x.Choose("items", len(itemTable))
	v.Before = x.Choose("before", len(beforeTable))
	v.After = x.Choose("after", len(afterTable))
	v.Layout = x.Choose("layout", nLayouts)
	v.Distractor = x.Choose("distractor", nDistractors)
	hx := explore.Pick(x, "hex page", 0x2a, 0x1a, 0x0f, 0xf0, 0xa2, 0xfe)
	v.HexTens, v.HexUnits = uint8(hx>>4), uint8(hx&0xf)
	v.OptPage = x.Choose("opt.page", nOptPage)
	v.OptPID = x.Choose("opt.pid", nOptPID)
	v.Flip = flipTable[x.Choose("flip", len(flipTable))]
	v.Enh = explore.Pick(x, "enhancement", "", tt.KX26, tt.KX27, tt.KX28, tt.KM29, tt.KX30, tt.KX31)
	v.Aligned = x.Bool("aligned")
	v.Tables = explore.Pick(x, "tables", 0, 1)
	v.Extra = x.Choose("extra", 3)
	return v
}

const (
	nLayouts     = 7
	nDistractors = 7
	nOptPage     = 6
	nOptPID      = 4
)

func pidNear(pid uint16, lower bool) uint16 {
	var p uint16
	if lower {
		p = pid - 1
		if p == 0x1000 {
			p--
		}
		if p < 0x20 {
			p = 0x1ffd // nothing lower exists
		}
	} else {
		p = pid + 1
		if p == 0x1000 {
			p++
		}
		if p > 0x1ffe {
			p = 0x1ffc
		}
	}
	return p
}

func (v vcase) number() int { return int(v.Tens)*10 + int(v.Units) }

func (v vcase) otherMag() int { return v.Mag%8 + 1 }

// header of the selected page with all the case's header fields
func (v vcase) header() *tt.Packet {
	c := v.C7to9 & 7
	if v.C10 {
		c |= 8
	}
	return &tt.Packet{Kind: tt.KHeader, Mag: v.Mag, Tens: v.Tens, Units: v.Units, Sub: v.Sub, Erase: v.C4, News: v.C5, Subtitle: v.C6,
		C7to10: c, Serial: v.Serial, Nat: v.Nat}
}

// build returns the stream and the reader options; ok=false when the value combination is not expressible
// (presentation times beyond the 33-bit counter).
func (v vcase) build() (s tt.Stream, o tt.ReadOpts, ok bool) {
	total := v.Gap0 + v.Gap1 + v.Gap2 + 2*second
	base := v.Base
	if base < 0 {
		base = maxPTS - total
	}
	if base < 0 || base+total > maxPTS {
		return s, o, false
	}
	t1 := base + v.Gap0
	t2 := t1 + v.Gap1
	t3 := t2 + v.Gap2
	tEnd := t3 + second

	plainHdr := func(mag int, tens, units uint8, c6 bool) *tt.Packet {
		return &tt.Packet{Kind: tt.KHeader, Mag: mag, Tens: tens, Units: units, Erase: true, Subtitle: c6, Serial: v.Serial, Nat: v.Nat}
	}
	otherUnits := (v.Units + 1) % 10

	// instance 1
	h1 := v.header()
	var rows []*tt.Packet
	switch v.AllRows {
	case 0:
		rows = []*tt.Packet{row(v.Mag, v.RowA, cellTable[v.TextA].cells), row(v.Mag, v.RowB, cellTable[v.TextB].cells)}
	default:
		var ys []int
		for y := 1; y <= 24; y++ {
			switch v.AllRows {
			case 1:
				ys = append(ys, y)
			case 2:
				ys = append(ys, 25-y)
			default:
				ys = append(ys, (y*7)%25) // 7 is a unit modulo 25: a permutation of 1..24
			}
		}
		for _, y := range ys {
			rows = append(rows, row(v.Mag, y, boxed(nil, 'r', byte('0'+y/10), byte('0'+y%10))))
		}
	}
	h1u := tt.Unit{Packet: h1}
	rAu := tt.Unit{Packet: rows[0]}
	tu := &rAu
	if v.Target == 1 {
		tu = &h1u
	}
	tu.ID, tu.Framing = v.UnitID, v.Framing
	if v.FL >= 0 {
		fl := uint8(v.FL)
		tu.FL = &fl
	}
	if len(v.Flip.bits) > 0 {
		if v.Flip.target == 1 {
			h1.FlipBits = v.Flip.bits
		} else {
			rows[0].FlipBits = v.Flip.bits
		}
	}
	var enh *tt.Unit
	if v.Enh != "" {
		p := &tt.Packet{Kind: v.Enh, Mag: v.Mag, Designation: v.EnhDC}
		if v.EnhOther {
			p.Mag = v.otherMag()
		}
		if v.Enh == tt.KX30 && !v.EnhOther {
			p.Mag = 8
		}
		if v.EnhCoded {
			p.Triplets = []uint32{uint32(v.Nat) << 7}
		} else {
			p.RawTail = make([]byte, 39)
		}
		enh = &tt.Unit{Packet: p}
	}
	var pes1 tt.PES
	pes1.PTS = t1
	switch v.Distractor {
	case 4: // another subtitle page of the same magazine comes first
		pes1.Units = append(pes1.Units, tt.Unit{Packet: plainHdr(v.Mag, v.Tens, otherUnits, true)}, tt.Unit{Packet: row(v.Mag, 19, cellsOth)})
	case 5: // a page of another magazine without subtitle flag comes first
		pes1.Units = append(pes1.Units, tt.Unit{Packet: plainHdr(v.otherMag(), v.Tens, v.Units, false)}, tt.Unit{Packet: row(v.otherMag(), 19, cellsOth)})
	}
	if enh != nil && v.EnhFirst {
		pes1.Units = append(pes1.Units, *enh)
	}
	pes1.Units = append(pes1.Units, h1u)
	if enh != nil && !v.EnhFirst {
		pes1.Units = append(pes1.Units, *enh)
	}
	pes1.Units = append(pes1.Units, rAu)
	for _, r := range rows[1:] {
		pes1.Units = append(pes1.Units, tt.Unit{Packet: r})
	}

	// distractor after instance 1 (same presentation time, sent after it)
	pesD := tt.PES{PTS: t1}
	switch v.Distractor {
	case 1:
		pesD.Units = []tt.Unit{{Packet: plainHdr(v.Mag, v.Tens, otherUnits, true)}, {Packet: row(v.Mag, 19, cellsOth)}}
	case 2:
		pesD.Units = []tt.Unit{{Packet: plainHdr(v.otherMag(), v.Tens, v.Units, false)}, {Packet: row(v.otherMag(), 19, cellsOth)}}
	case 3:
		pesD.Units = []tt.Unit{{Packet: plainHdr(v.Mag, v.HexTens, v.HexUnits, false)}, {Packet: row(v.Mag, 19, cellsOth)}}
	case 6:
		pesD.Units = []tt.Unit{{Packet: plainHdr(v.Mag, 0xf, 0xf, false)}}
	}

	// instance 2, erase page, trailer
	h2 := v.header()
	pes2 := tt.PES{PTS: t2, Units: []tt.Unit{{Packet: h2}, {Packet: row(v.Mag, 21, cells2nd)}}}
	pess := []tt.PES{{PTS: base, Units: []tt.Unit{tt.Stuffing()}}, pes1}
	if len(pesD.Units) > 0 {
		pess = append(pess, pesD)
	}
	pess = append(pess, pes2)
	if v.Erase {
		pess = append(pess, tt.PES{PTS: t3, Units: []tt.Unit{{Packet: v.header()}}})
	}
	pess = append(pess, tt.PES{PTS: tEnd, Units: []tt.Unit{tt.Stuffing()}})
	for i := range pess {
		pess[i].DataID = v.DataID
	}
	switch v.Extra {
	case 1, 2: // not a private_stream_1 PES: look-alike data, later than everything else
		sid := byte(0xc0)
		if v.Extra == 2 {
			sid = 0xbf
		}
		if tEnd+second <= maxPTS {
			pess = append(pess, tt.PES{PTS: tEnd + second, StreamID: sid, Units: []tt.Unit{{Packet: v.header()}, {Packet: row(v.Mag, 18, cellsOth)}}})
		}
	}

	main := tt.ES{PID: v.PID, Descriptor: v.Desc, PESs: pess, Before: beforeTable[v.Before], After: afterTable[v.After]}
	if it := itemTable[v.Items]; it != nil {
		if len(it) == 0 {
			main.NoItems = true
		} else {
			main.Items = it
		}
	}

	// other elementary streams
	second2 := func(pid uint16, desc string, before []string) tt.ES {
		return tt.ES{PID: pid, Descriptor: desc, Before: before, PESs: []tt.PES{
			{PTS: t1, Units: []tt.Unit{{Packet: v.header()}, {Packet: row(v.Mag, 20, cells2nd)}}},
			{PTS: t2, Units: []tt.Unit{{Packet: v.header()}}},
		}}
	}
	secondPID := uint16(0)
	switch v.Layout {
	case 0:
		s.ES = []tt.ES{main}
	case 1: // private data without any descriptor first
		s.ES = []tt.ES{second2(pidNear(v.PID, true), "", nil), main}
	case 2: // DVB subtitles first
		s.ES = []tt.ES{second2(pidNear(v.PID, true), "", []string{"subtitling"}), main}
	case 3: // VBI data (0x45, not VBI teletext 0x46) first
		s.ES = []tt.ES{second2(pidNear(v.PID, false), "", []string{"vbidata"}), main}
	case 4: // a second teletext PID later in the PMT, numerically higher
		secondPID = pidNear(v.PID, false)
		s.ES = []tt.ES{main, second2(secondPID, "teletext", nil)}
	case 5: // a second teletext PID later in the PMT, numerically lower
		secondPID = pidNear(v.PID, true)
		s.ES = []tt.ES{main, second2(secondPID, "teletext", nil)}
	case 6: // the other teletext PID comes first in the PMT (numerically higher)
		secondPID = pidNear(v.PID, false)
		s.ES = []tt.ES{second2(secondPID, "vbi", nil), main}
	}
	s.Aligned = v.Aligned
	s.TablesEvery = v.Tables

	n := v.number()
	switch v.OptPage {
	case 0:
		o.Page = v.Mag*100 + n
	case 1:
		o.Page = 0
	case 2: // the other page of the magazine (on air only with distractors 1 and 4)
		o.Page = v.Mag*100 + int(v.Tens)*10 + int(otherUnits)
	case 3: // no magazine digit
		o.Page = n
	case 4: // magazine digit 9
		o.Page = 900 + n
	case 5: // the same number in another magazine
		o.Page = v.otherMag()*100 + n
	}
	switch v.OptPID {
	case 0:
		o.PID = int(v.PID)
	case 1:
		o.PID = 0
	case 2: // a PID that is not in the stream
		o.PID = 0x1abc
	case 3:
		o.PID = int(secondPID)
		if secondPID == 0 {
			o.PID = 0x1abd
		}
	}
	return s, o, true
}

func (v vcase) note() string { return fmt.Sprintf("%+v", v) }

// valueRun executes the deviation ball and the products.
func valueRun(c *core.Ctx) {
	thorough := c.Tier == core.Thorough
	exec := func(sub string, v vcase, size int) {
		s, o, ok := v.build()
		if !ok {
			c.Extra["value_cases_not_expressible"]++
			return
		}
		cs := Case{Sub: sub, Note: v.note(), Opts: o, Stream: s}
		r := CheckRead(cs)
		c.Extra["cases_"+sub]++
		c.Record(sub, r.Outcome, core.Hash64(sub, cs.Note), func() interface{} {
			return map[string]interface{}{"note": cs.Note, "opts": cs.Opts, "ts_bytes": len(cs.Stream.Bytes())}
		})
		if r.Excluded != "" {
			c.Extra["crash_oracle_only_"+r.Excluded]++
		}
		if r.Key != "" {
			c.Violate(sub, r.Key, r.Msg, cs, size)
		}
	}

	// (a) the ball around the baseline
	bound := 2
	if thorough {
		bound = 3
	}
	var v vcase
	explore.Explore(bound, func(x *explore.C) { v = genValues(x) }, func(x *explore.C) bool {
		if c.Mine() {
			exec("values", v, explore.Deviations(x.Trace))
		}
		return !c.Expired()
	})

	// (b) full products
	product := func(sub string, body func(x *explore.C, v *vcase)) {
		explore.Explore(-1, func(x *explore.C) { v = baseline(); body(x, &v) }, func(x *explore.C) bool {
			if c.Mine() {
				exec(sub, v, 100+explore.Deviations(x.Trace))
			}
			return !c.Expired()
		})
	}
	// every page number of every magazine x transmission mode x page given / auto / other x distractor page placement
	product("pages", func(x *explore.C, v *vcase) {
		v.Mag = 1 + x.Choose("mag", 8)
		v.Tens = uint8(x.Choose("tens", 10))
		v.Units = uint8(x.Choose("units", 10))
		v.Serial = x.Bool("serial")
		v.OptPage = explore.Pick(x, "opt.page", 0, 1, 2)
		v.Distractor = explore.Pick(x, "distractor", 1, 2, 4)
	})
	// every page number with a hexadecimal digit (but FF) as the page that follows the selected one, for selected
	// pages whose number could be confused with one of them under a decimal / masked reading
	product("hexpages", func(x *explore.C, v *vcase) {
		sel := explore.Pick(x, "selected", 0x20, 0x15, 0x99, 0x00, 0x09, 0x90)
		v.Tens, v.Units = uint8(sel>>4), uint8(sel&0xf)
		v.HexTens = uint8(x.Choose("hex tens", 16))
		v.HexUnits = uint8(x.Choose("hex units", 16))
		if v.HexTens < 10 && v.HexUnits < 10 {
			v.HexUnits = 0xa + v.HexUnits%6 // (a duplicate of another choice)
		}
		if v.HexTens == 0xf && v.HexUnits == 0xf {
			v.HexUnits = 0xe
		}
		v.Distractor = 3
		v.Serial = x.Bool("serial")
	})
	// every ordered pair of row numbers 1..25 (25: crash oracle only) x mode, and all 24 rows in three orders
	product("rowpairs", func(x *explore.C, v *vcase) {
		v.RowA = 1 + x.Choose("rowA", 25)
		v.RowB = 1 + x.Choose("rowB", 25)
		v.Serial = x.Bool("serial")
		v.Mag = explore.Pick(x, "mag", 1, 8)
	})
	product("rowpairs", func(x *explore.C, v *vcase) {
		v.AllRows = 1 + x.Choose("order", 3)
		v.Serial = x.Bool("serial")
		v.Aligned = x.Bool("aligned")
		v.OptPage = explore.Pick(x, "opt.page", 0, 1)
	})
	// every combination of the control bits C4..C10 x C11 x sub-code x page given / auto (with a later subtitle page to fall back on)
	product("hdrbits", func(x *explore.C, v *vcase) {
		v.C4, v.C5, v.C6 = x.Bool("c4"), x.Bool("c5"), x.Bool("c6")
		v.C7to9 = uint8(x.Choose("c7-9", 8))
		v.C10 = x.Bool("c10")
		v.Serial = x.Bool("serial")
		v.Sub = explore.Pick[uint16](x, "subcode", 0, 1, 0xf, 0x70, 0x780, 0x1800, 0x3f7f)
		v.OptPage = explore.Pick(x, "opt.page", 0, 1)
		v.Distractor = explore.Pick(x, "distractor", 1, 0)
	})
	// national option x every cell table entry x both rows' positions
	product("texts", func(x *explore.C, v *vcase) {
		v.TextA = x.Choose("textA", len(cellTable))
		v.TextB = x.Choose("textB", len(cellTable))
		v.Nat = explore.Pick(x, "nat", tt.English, tt.French, tt.CzechSlovak)
	})
	// presentation times: origin x the three gaps x erase page or not x lead-in
	product("times", func(x *explore.C, v *vcase) {
		v.Base = explore.Pick[int64](x, "base", pts0, 0, 9, 4294967292, 4294967292-2*second, -1)
		v.Gap0 = explore.Pick[int64](x, "gap0", second, 0, 9, 90)
		v.Gap1 = explore.Pick[int64](x, "gap1", 2*second, 0, 9, 90, 99, hour, 13*hour, 26*hour)
		v.Gap2 = explore.Pick[int64](x, "gap2", 3*second, 0, 9, 10*hour)
		v.Erase = x.Bool("erase")
		v.Extra = x.Choose("extra", 3)
	})
	// every value of the four bytes in front of a packet, on the header's and on a row's unit
	product("unitbytes", func(x *explore.C, v *vcase) {
		which := x.Choose("field", 4)
		val := x.Choose("value", 256)
		v.Target = x.Choose("target", 2)
		switch which {
		case 0:
			v.DataID = byte(val)
		case 1:
			v.UnitID = byte(val)
		case 2:
			v.FL = val
		case 3:
			v.Framing = byte(val)
		}
	})
	// PMT: PID value x descriptor tag x item list x neighbouring descriptors x PID option
	product("pmt", func(x *explore.C, v *vcase) {
		v.PID = explore.Pick[uint16](x, "pid", mainPID, 0x20, 0x1ffe, 0x1001, 0x0fff, 0x21)
		v.Desc = explore.Pick(x, "descriptor", "teletext", "vbi", "")
		v.Items = x.Choose("items", len(itemTable))
		v.Before = x.Choose("before", len(beforeTable))
		v.After = x.Choose("after", len(afterTable))
		v.OptPID = x.Choose("opt.pid", 3)
	})
	product("pmt", func(x *explore.C, v *vcase) {
		v.PID = explore.Pick[uint16](x, "pid", mainPID, 0x20, 0x1ffe, 0x1001, 0x0fff, 0x21)
		v.Layout = x.Choose("layout", nLayouts)
		v.OptPID = x.Choose("opt.pid", nOptPID)
		v.OptPage = explore.Pick(x, "opt.page", 0, 1)
		v.Tables = explore.Pick(x, "tables", 0, 1)
	})
	// reader options x what is on air
	product("opts", func(x *explore.C, v *vcase) {
		v.OptPage = x.Choose("opt.page", nOptPage)
		v.OptPID = x.Choose("opt.pid", nOptPID)
		v.Layout = x.Choose("layout", nLayouts)
		v.Distractor = x.Choose("distractor", nDistractors)
		v.Units = explore.Pick[uint8](x, "units", 0, 9)
		v.Tens = explore.Pick[uint8](x, "tens", 2, 0)
	})
	// Hamming 8/4: every single wrong bit of every protected byte (corrected), every pair of wrong bits in an
	// address or page number byte (packet rejected)
	product("ham", func(x *explore.C, v *vcase) {
		v.Flip.target = x.Choose("target", 2)
		nbytes := 2
		if v.Flip.target == 1 {
			nbytes = 10
		}
		by := x.Choose("byte", nbytes)
		b1 := x.Choose("bit", 8)
		v.Flip.bits = []int{by*8 + b1}
		if by <= 3 {
			if b2 := x.Choose("second bit", 8); b2 > b1 {
				v.Flip.bits = append(v.Flip.bits, by*8+b2)
			}
		}
		v.OptPage = explore.Pick(x, "opt.page", 0, 1)
	})
	// enhancement packets: kind x designation code x coding x magazine x position
	product("enh", func(x *explore.C, v *vcase) {
		v.Enh = explore.Pick(x, "enhancement", tt.KX26, tt.KX27, tt.KX28, tt.KM29, tt.KX30, tt.KX31)
		v.EnhDC = uint8(x.Choose("designation", 16))
		v.EnhCoded = x.Bool("coded")
		v.EnhOther = x.Bool("other magazine")
		v.EnhFirst = x.Bool("before header")
		v.Nat = explore.Pick(x, "nat", tt.English, tt.French)
	})
}
