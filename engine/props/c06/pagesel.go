package c06

import (
	"bytes"
	"encoding/json"
	"fmt"

	astisub "github.com/asticode/go-astisub"

	"verif/core"
	tt "verif/ref/teletext"
)

// Page selection among several subtitle pages on air at the same time: the selected page may have the page
// number 00 (100, 800), share its number with a page of another magazine (150 / 850 ...), or be absent from
// the options (auto-detection: the first subtitle-flagged page).

type PageSelCase struct {
	Spec tt.Spec     `json:"spec"`
	Opts tt.ReadOpts `json:"opts"`
}

func checkPageSel(pc PageSelCase) (key, msg string, out uint64) {
	st := pc.Spec.Stream()
	exp := tt.Expect(st, pc.Opts, tt.Variant{})
	if exp.Unsettled != "" {
		return "", "", core.Hash64("unsettled")
	}
	b := st.Bytes()
	var s *astisub.Subtitles
	var err error
	pan := ""
	func() {
		defer func() {
			if e := recover(); e != nil {
				pan = fmt.Sprint(e)
			}
		}()
		s, err = astisub.ReadFromTeletext(bytes.NewReader(b), astisub.TeletextOptions{Page: pc.Opts.Page, PID: pc.Opts.PID})
	}()
	desc := fmt.Sprintf("stream with pages %v, options %+v", pageNumbers(pc.Spec), pc.Opts)
	if pan != "" {
		return "tt.pagesel.panic", desc + ": panic " + pan, 0
	}
	if err != nil {
		if len(exp.Cues) == 0 {
			return "", "", core.Hash64("error, nothing expected")
		}
		return "tt.pagesel.error", fmt.Sprintf("%s: reader failed (%v), expected %s", desc, err, tt.Denote(exp.Cues)), 0
	}
	got, want := tt.Denote(FromSubs(s, nil)), tt.Denote(exp.Cues)
	if got != want {
		return "tt.pagesel.mismatch", fmt.Sprintf("%s:\n expected %s\n got      %s", desc, want, got), 0
	}
	return "", "", core.Hash64(got)
}

func pageNumbers(sp tt.Spec) []int {
	var o []int
	for _, p := range sp.Pages {
		o = append(o, p.Number)
	}
	return o
}

func pageSelRun(c *core.Ctx) {
	pages := []int{100, 800, 888, 150, 850, 801, 180}
	for _, P := range pages {
		for _, Q := range pages {
			if P == Q {
				continue
			}
			for _, pFirst := range []bool{true, false} {
				for _, serial := range []bool{false, true} {
					if !c.Mine() {
						continue
					}
					a, b := P, Q
					if !pFirst {
						a, b = Q, P
					}
					sp := tt.Spec{Serial: serial, Pages: []tt.Page{
						{Number: a, AtMs: 1000, Rows: []tt.RowText{{Row: 20, Text: fmt.Sprintf("one %d", a)}}},
						{Number: b, AtMs: 2000, Rows: []tt.RowText{{Row: 21, Text: fmt.Sprintf("one %d", b)}}},
						{Number: a, AtMs: 3000, Rows: []tt.RowText{{Row: 22, Text: fmt.Sprintf("two %d", a)}}},
						{Number: b, AtMs: 4000, Rows: []tt.RowText{{Row: 23, Text: fmt.Sprintf("two %d", b)}}},
						{Number: a, AtMs: 5000},
						{Number: b, AtMs: 5500},
					}}
					for _, o := range []tt.ReadOpts{{Page: P, PID: mainPID}, {Page: P}, {}} {
						pc := PageSelCase{Spec: sp, Opts: o}
						key, msg, out := checkPageSel(pc)
						c.Record("pagesel", out, core.Hash64("pagesel", fmt.Sprint(P, Q, pFirst, serial, o)), func() interface{} { return pc })
						if key != "" {
							c.Violate("pagesel", key, msg, pc, 1)
						}
					}
				}
			}
		}
	}
}

func pageSelReplay(raw json.RawMessage) (string, bool) {
	var pc PageSelCase
	json.Unmarshal(raw, &pc)
	k, m, _ := checkPageSel(pc)
	return m, k != ""
}
