// Package dump renders a *astisub.Subtitles as a canonical, deterministic string (Appendix B of
// DESIGN.md): used when two executions OF THE LIBRARY are compared with each other (delivery
// schedule vs all-at-once, concurrent vs solo, instrumented vs plain).
package dump

import (
	"fmt"
	"reflect"
	"sort"
	"strings"
	"time"

	astisub "github.com/asticode/go-astisub"
)

// Subs dumps the whole value. References to styles/regions are printed as ids; definitions are
// printed once, under the maps.
func Subs(s *astisub.Subtitles) string {
	if s == nil {
		return "<nil>"
	}
	var b strings.Builder
	b.WriteString("metadata: ")
	val(&b, reflect.ValueOf(s.Metadata), 0)
	b.WriteString("\nstyles:\n")
	var ids []string
	for id := range s.Styles {
		ids = append(ids, id)
	}
	sort.Strings(ids)
	for _, id := range ids {
		fmt.Fprintf(&b, " [%q] ", id)
		st := s.Styles[id]
		if st == nil {
			b.WriteString("<nil>\n")
			continue
		}
		fmt.Fprintf(&b, "id=%q parent=%s inline=", st.ID, styleRef(st.Style))
		val(&b, reflect.ValueOf(st.InlineStyle), 0)
		b.WriteString("\n")
	}
	b.WriteString("regions:\n")
	ids = ids[:0]
	for id := range s.Regions {
		ids = append(ids, id)
	}
	sort.Strings(ids)
	for _, id := range ids {
		fmt.Fprintf(&b, " [%q] ", id)
		rg := s.Regions[id]
		if rg == nil {
			b.WriteString("<nil>\n")
			continue
		}
		fmt.Fprintf(&b, "id=%q style=%s inline=", rg.ID, styleRef(rg.Style))
		val(&b, reflect.ValueOf(rg.InlineStyle), 0)
		b.WriteString("\n")
	}
	b.WriteString("items:\n")
	for i, it := range s.Items {
		if it == nil {
			fmt.Fprintf(&b, " #%d <nil>\n", i)
			continue
		}
		fmt.Fprintf(&b, " #%d %d..%d index=%d comments=%q style=%s region=%s inline=", i, int64(it.StartAt), int64(it.EndAt), it.Index, it.Comments, styleRef(it.Style), regionRef(it.Region))
		val(&b, reflect.ValueOf(it.InlineStyle), 0)
		b.WriteString("\n")
		for _, l := range it.Lines {
			fmt.Fprintf(&b, "   line voice=%q\n", l.VoiceName)
			for _, li := range l.Items {
				fmt.Fprintf(&b, "     run %q at=%d style=%s inline=", li.Text, int64(li.StartAt), styleRef(li.Style))
				val(&b, reflect.ValueOf(li.InlineStyle), 0)
				b.WriteString("\n")
			}
		}
	}
	return b.String()
}

func styleRef(s *astisub.Style) string {
	if s == nil {
		return "-"
	}
	return fmt.Sprintf("%q", s.ID)
}
func regionRef(r *astisub.Region) string {
	if r == nil {
		return "-"
	}
	return fmt.Sprintf("%q", r.ID)
}

var timeType = reflect.TypeOf(time.Time{})

// val prints non-zero fields only, pointers dereferenced, maps by sorted key.
func val(b *strings.Builder, v reflect.Value, depth int) {
	if depth > 8 {
		b.WriteString("…")
		return
	}
	switch v.Kind() {
	case reflect.Invalid:
		b.WriteString("<nil>")
	case reflect.Ptr, reflect.Interface:
		if v.IsNil() {
			b.WriteString("<nil>")
			return
		}
		switch x := v.Interface().(type) {
		case *astisub.Style:
			b.WriteString("style:" + styleRef(x))
			return
		case *astisub.Region:
			b.WriteString("region:" + regionRef(x))
			return
		}
		b.WriteString("&")
		val(b, v.Elem(), depth+1)
	case reflect.Struct:
		if v.Type() == timeType {
			b.WriteString(v.Interface().(time.Time).UTC().Format(time.RFC3339Nano))
			return
		}
		b.WriteString("{")
		first := true
		for i := 0; i < v.NumField(); i++ {
			f := v.Field(i)
			if !v.Type().Field(i).IsExported() {
				continue
			}
			if f.IsZero() {
				continue
			}
			if !first {
				b.WriteString(" ")
			}
			first = false
			b.WriteString(v.Type().Field(i).Name + ":")
			val(b, f, depth+1)
		}
		b.WriteString("}")
	case reflect.Slice, reflect.Array:
		if v.Kind() == reflect.Slice && v.IsNil() {
			b.WriteString("[]")
			return
		}
		b.WriteString("[")
		for i := 0; i < v.Len(); i++ {
			if i > 0 {
				b.WriteString(" ")
			}
			val(b, v.Index(i), depth+1)
		}
		b.WriteString("]")
	case reflect.Map:
		keys := v.MapKeys()
		sort.Slice(keys, func(i, j int) bool { return fmt.Sprint(keys[i]) < fmt.Sprint(keys[j]) })
		b.WriteString("map[")
		for i, k := range keys {
			if i > 0 {
				b.WriteString(" ")
			}
			fmt.Fprintf(b, "%v:", k)
			val(b, v.MapIndex(k), depth+1)
		}
		b.WriteString("]")
	case reflect.String:
		fmt.Fprintf(b, "%q", v.String())
	default:
		fmt.Fprintf(b, "%v", v.Interface())
	}
}
