// Package c03: TTML codec fidelity (E1 exploration over a ground-truth model x renderings).
package c03

import (
	"bytes"
	"encoding/json"
	"fmt"
	"math/big"
	"sort"
	"strconv"
	"strings"
	"time"
	"unicode"

	astisub "github.com/asticode/go-astisub"

	"verif/core"
	"verif/explore"
	"verif/ref/ttml"
)

// ---------- case ----------

type Case struct {
	Doc     ttml.Doc    `json:"doc"`
	Render  ttml.Render `json:"render"`
	WIndent int         `json:"windent"` // write direction: 0 no option (library default), 1 "", 2 "\t", 3 two spaces
	Dir     string      `json:"dir"`
	Key     string      `json:"key,omitempty"` // the classification this case was recorded under (replay looks for it)

	renderDev int // number of non-default READ rendering choices (the write check runs only when 0)
}

var windents = []string{"<default>", "", "\t", "  "}

// ---------- option tables ----------

func a(nv ...string) []ttml.Attr {
	var o []ttml.Attr
	for i := 0; i+1 < len(nv); i += 2 {
		o = append(o, ttml.Attr{Name: nv[i], Value: nv[i+1]})
	}
	return o
}

var attrValues = map[string]string{"backgroundColor": "black", "color": "red", "direction": "rtl", "display": "none", "displayAlign": "after",
	"extent": "80% 10%", "fontFamily": "sansSerif", "fontSize": "150%", "fontStyle": "italic", "fontWeight": "bold", "lineHeight": "125%",
	"opacity": "0.5", "origin": "10% 80%", "overflow": "visible", "padding": "1px 2px", "showBackground": "whenActive", "textAlign": "center",
	"textDecoration": "underline", "textOutline": "black 1px", "unicodeBidi": "embed", "visibility": "hidden", "wrapOption": "noWrap",
	"writingMode": "tbrl", "zIndex": "5"}

// further well-formed values of each attribute (boundary-complete: empty, keyword alternatives, several components,
// '%' / px / c units, the colour notations, quotes and commas, sign / zero / leading zeros / 32-bit limits of the one
// integer-typed attribute). Offered at an "attr.value" choice point below every attribute that carries its
// attrValues entry, and all of them x carrier in the values core.
var attrAlt = map[string][]string{
	"backgroundColor": {"", "transparent", "#000000", "#00000080", "rgba(0,0,0,128)", "rgb(255, 255, 255)"},
	"color":           {"", "white", "#FFFFFF", "#ffffffff", "rgba(255,255,255,255)", "rgb(0,0,0)"},
	"direction":       {"", "ltr"},
	"display":         {"", "auto"},
	"displayAlign":    {"", "before", "center"},
	"extent":          {"", "auto", "640px 480px", "100% 100%", "80.5% 10.25%", "1c 1c"},
	"fontFamily":      {"", "default", "proportionalSansSerif", "Arial, Helvetica, sansSerif", `"Times New Roman", serif`, "'Courier New'", "\uff2d\uff33 \u30b4\u30b7\u30c3\u30af"},
	"fontSize":        {"", "16px", "1c", "1c 2c", "0.8em", "100%"},
	"fontStyle":       {"", "normal", "oblique"},
	"fontWeight":      {"", "normal"},
	"lineHeight":      {"", "normal", "20px", "1.5c"},
	"opacity":         {"", "0", "1", "1.0", "0.25"},
	"origin":          {"", "auto", "0px 0px", "0% 0%", "10.5% 79.25%"},
	"overflow":        {"", "hidden"},
	"padding":         {"", "0px", "5%", "1c 2c 1c", "1px 2px 3px 4px"},
	"showBackground":  {"", "always"},
	"textAlign":       {"", "left", "right", "start", "end"},
	"textDecoration":  {"", "none", "noUnderline lineThrough", "underline overline lineThrough"},
	"textOutline":     {"", "none", "1px", "red 2px 3px", "#00000080 5% 10%"},
	"unicodeBidi":     {"", "normal", "bidiOverride"},
	"visibility":      {"", "visible"},
	"wrapOption":      {"", "wrap"},
	"writingMode":     {"", "lrtb", "rltb", "tblr", "lr", "rl", "tb"},
	"zIndex":          {"0", "-1", "10", "+5", "007", "-0", "2147483647", "-2147483648"},
}

// attrVals[name] = the attrValues entry followed by the attrAlt entries
var attrVals = func() map[string][]string {
	m := map[string][]string{}
	for _, n := range ttml.AttrNames {
		m[n] = append([]string{attrValues[n]}, attrAlt[n]...)
	}
	return m
}()

// xml:id tables (styles, regions) per id scheme: 0 baseline; 1 hyphen / underscore / dot; 2 non-ASCII name characters;
// 3 ids that are prefixes of each other; 4 ids that differ in case only (also between a style and a region);
// 5 element and attribute names of the format as ids; 6 underscore-led numeric ids, a 300-character id
var idTables = [][2][]string{
	{{"s0", "s1", "s2"}, {"r0", "r1"}},
	{{"s-0", "s_1", "s.2"}, {"r-0", "r_1"}},
	{{"st\u00edl0", "\u6837\u5f0f1", "\u015f2"}, {"r\u00e9gion0", "\u5730\u57df1"}},
	{{"s1", "s10", "s100"}, {"r1", "r10"}},
	{{"x", "X", "z"}, {"Z", "r"}},
	{{"style", "region", "br"}, {"span", "p"}},
	{{"_1", "_2", strings.Repeat("L", 300)}, {"_", "__"}},
	// identifiers as the SSA reader returns them (blanks inside): not NCNames, so only the WRITE direction is judged
	// ("writing any cue list"): what is written must come back with the same references, whatever the spelling
	{{"Main Dialogue", "Main  Top", "alt 2"}, {"Top Left", "r 1"}},
}

func blankIDs(d ttml.Doc) bool {
	for _, st := range d.Styles {
		if strings.ContainsAny(st.ID, " \t") {
			return true
		}
	}
	for _, rg := range d.Regions {
		if strings.ContainsAny(rg.ID, " \t") {
			return true
		}
	}
	return false
}

// every attribute alone, then a value that needs escaping, then two combinations
func ballAttrs() [][]ttml.Attr {
	o := [][]ttml.Attr{nil}
	for _, n := range ttml.AttrNames {
		o = append(o, a(n, attrValues[n]))
	}
	o = append(o, a("fontFamily", `a&b <c> "d" 'e'`), a("color", "red", "textAlign", "center"), a("origin", "10% 80%", "extent", "80% 10%", "writingMode", "tbrl", "zIndex", "-1"),
		a("zIndex", "0")) // an explicit zero is a value, not an absence
	return o
}

// every subset of three representative attribute groups
func coreAttrs() [][]ttml.Attr {
	var o [][]ttml.Attr
	for m := 0; m < 8; m++ {
		var s []ttml.Attr
		if m&1 != 0 {
			s = append(s, a("color", "red")...)
		}
		if m&2 != 0 {
			s = append(s, a("textAlign", "center")...)
		}
		if m&4 != 0 {
			s = append(s, a("origin", "10% 80%", "extent", "80% 10%")...)
		}
		o = append(o, s)
	}
	return o
}

// every forest on <= 3 nodes in a fixed document order: parent index per node, -1 = root
func allForests() [][]int {
	o := [][]int{{}}
	for n := 1; n <= 3; n++ {
		var rec func(p []int)
		rec = func(p []int) {
			if len(p) == n {
				// acyclic?
				for i := range p {
					seen := 0
					for j := i; j >= 0; j = p[j] {
						seen++
						if seen > n {
							return
						}
					}
				}
				o = append(o, append([]int{}, p...))
				return
			}
			for v := -1; v < n; v++ {
				if v != len(p) {
					rec(append(p, v))
				}
			}
		}
		rec(nil)
	}
	return o
}

var allTexts = []string{"x", "a b", " lead", "trail ", "7", "&", "<", "a<b", "&amp;", "a\u00a0b", "\u00e9", "e\u0301", "\U0001F600", "a\tb", "]]>", "\ufffc", "a>b", `"q"`, "it's", " ", "  two  ", "\u00a0", "\u00a0x", "\u3000x",
	"a\u0085b", "a\u2028b", "\u2028", "\ufffd", "x\u00a0", "a]]>b]]>", "&#65;", "<br/>", "\U0010FFFD"}

var allShapes = [][]int{{1}, {1, 1}, {2}, {0, 1}, {1, 0}, {1, 0, 1}, {1, 1, 1}, {2, 2}, {1, 2}, {2, 1}, {0}}

var startsMs = []int64{1000, 0, 1, 999, 1001, 1500, 2000, 59999, 60000, 3599999, 3600000, 3661001, 35999999, 36000000, 86399999, 359999999, 360000000,
	9999, 10000, 599999, 600000, 900000, 5430000, 86400000, 3599999999, 3600000000}

// instants that are not whole milliseconds (offset times have no fraction-digit limit): 1500.5 ms, 100 ns, 1 ns
var startsNs = []int64{1500500000, 100, 1}

type profile struct {
	titles, copyrights, langs []string
	frameRates, tickRates     []int
	forests                   [][]int
	styleAttrs, regionAttrs   [][]ttml.Attr
	cueAttrs, runAttrs        [][]ttml.Attr
	nregions                  []int
	refs                      bool
	forceRefs                 bool // attrs core: everything references everything
	ncues                     []int
	starts                    []int64
	rateInst                  bool // add frame-/tick-based instants when the document has the rate
	ends                      []int
	shapes                    [][]int
	texts                     []string
	windents                  int
	idSchemes                 int  // number of xml:id schemes offered (idTables)
	attrVals                  bool // an "attr.value" choice below every baseline-valued attribute
	lex                       bool // lexical variants of each time expression
	misc2                     bool // declaration form, attribute order, comments, decoys, empty containers
	// rendering
	ns, indents, brForms []int
	inline, misc         bool
	syntaxes, bare       bool
	brPlace              bool
}

func ballProfile(thorough bool) *profile {
	p := &profile{
		titles: allTitles, copyrights: allCopyrights,
		langs:      allLangs,
		frameRates: []int{0, 24, 25, 30, 120, 50, 60}, tickRates: []int{0, 1, 90000, 10000000, 1000},
		forests: allForests(), styleAttrs: ballAttrs(), regionAttrs: ballAttrs(), cueAttrs: ballAttrs(), runAttrs: ballAttrs(),
		nregions: []int{0, 1, 2}, refs: true, ncues: []int{1, 0, 2}, starts: startsMs, rateInst: true, ends: []int{0, 1, 2, 3, 4, 5},
		shapes: allShapes, texts: allTexts, windents: 4,
		ns: []int{0, 1, 2, 3}, indents: []int{0, 1, 2, 3, 4}, brForms: []int{0, 1, 2, 3}, inline: true, misc: true, syntaxes: true, bare: true, brPlace: true,
		idSchemes: len(idTables), attrVals: true, lex: true, misc2: true,
	}
	if thorough {
		p.ncues = []int{1, 0, 2, 3}
	}
	return p
}

var allTitles = []string{"", "Title test", "a & b <c>", " lead and trail ", `"q" 'a'`, "\u65e5\u672c\u8a9e \u00e9", "]]>", " "}
var allCopyrights = []string{"", "Copyright test", "\u00a9 & co", "(c) 2024 <a@b.c>", " \u00a9\u00a0", "&copy;"}

// the five mapped languages bare, with region / script subtags and in upper / mixed case (language tags are
// case-insensitive), languages the library does not map (not compared), among them three-letter tags that start like a mapped one
var allLangs = []string{"", "en", "fr", "fr-FR", "ja", "no", "zh", "de", "zh-Hans",
	"en-GB", "en-us", "ja-JP", "no-NO", "zh-Hant-TW", "EN", "Fr", "JA", "NO", "Zh-CN", "EN-gb", "nb", "enm", "frr", "x-private"}

func one[T any](v T) []T { return []T{v} }

func baseProfile() *profile {
	return &profile{titles: one(""), copyrights: one(""), langs: one(""), frameRates: one(0), tickRates: one(0), forests: [][]int{{}},
		styleAttrs: [][]ttml.Attr{nil}, regionAttrs: [][]ttml.Attr{nil}, cueAttrs: [][]ttml.Attr{nil}, runAttrs: [][]ttml.Attr{nil},
		nregions: one(0), ncues: one(1), starts: one(int64(1000)), ends: one(0), shapes: [][]int{{1}}, texts: one("x"), windents: 1,
		ns: one(0), indents: one(0), brForms: one(0), idSchemes: 1}
}

// lines core: every shape x run form x <br/> placement x layout
func linesProfile(thorough bool) *profile {
	p := baseProfile()
	p.shapes = allShapes
	p.texts = []string{"x", " y "}
	p.runAttrs = [][]ttml.Attr{nil, a("color", "red")}
	p.bare, p.brPlace = true, true
	p.indents = []int{0, 1}
	p.inline = true
	p.brForms = []int{0, 1}
	p.ns = []int{0, 1}
	p.windents = 4
	if thorough {
		p.indents = []int{0, 1, 3, 4}
		p.brForms = []int{0, 1, 2}
	}
	return p
}

// linerefs core: every line shape and <br/> placement with every paragraph, span and region REFERENCING a style/region
// (a reference must survive on every piece a <br/> cuts a span into)
func lineRefsProfile() *profile {
	p := linesProfile(false)
	p.forests = [][]int{{-1}}
	p.nregions = one(1)
	p.forceRefs = true
	p.texts = []string{"x"}
	p.indents = []int{0, 1}
	p.brForms = []int{0}
	p.ns = []int{0}
	p.windents = 1
	return p
}

// refs core: every forest x regions with style references x cue/run references
func refsProfile(thorough bool) *profile {
	p := baseProfile()
	p.forests = allForests()
	p.nregions = []int{0, 1, 2}
	p.refs = true
	p.windents = 1
	if thorough {
		p.shapes = [][]int{{1}, {2}}
		p.windents = 4
	}
	return p
}

// attrs core: every subset of three representative attribute groups on style, region, p and span
func attrsProfile(thorough bool) *profile {
	p := baseProfile()
	p.forests = [][]int{{-1}}
	p.nregions = one(1)
	p.forceRefs = true
	p.styleAttrs, p.regionAttrs, p.cueAttrs, p.runAttrs = coreAttrs(), coreAttrs(), coreAttrs(), coreAttrs()
	p.ns = []int{0, 1, 2}
	if thorough {
		p.windents = 4
		p.indents = []int{0, 2}
	}
	return p
}

type instKey struct {
	i      ttml.Inst
	fr, tr int
}

var synCache = map[instKey][]ttml.Syntax{}

func syntaxes(i ttml.Inst, fr, tr int) []ttml.Syntax {
	k := instKey{i, fr, tr}
	if s, ok := synCache[k]; ok {
		return s
	}
	s := ttml.Syntaxes(i, fr, tr)
	synCache[k] = s
	return s
}

var startCache = map[[2]int][]ttml.Inst{}

func startInstants(p *profile, fr, tr int) []ttml.Inst {
	if !p.rateInst || len(p.starts) == 1 {
		o := make([]ttml.Inst, len(p.starts))
		for i, ms := range p.starts {
			o[i] = ttml.Ms(ms)
		}
		return o
	}
	k := [2]int{fr, tr}
	if o, ok := startCache[k]; ok {
		return o
	}
	var o []ttml.Inst
	for _, ms := range p.starts {
		o = append(o, ttml.Ms(ms))
	}
	if fr > 0 {
		o = append(o, ttml.Frames(1, fr), ttml.Frames(int64(fr)+1, fr), ttml.Frames(int64(fr)*3661+int64(fr)-1, fr))
	}
	if tr > 0 {
		o = append(o, ttml.Ticks(1, tr), ttml.Ticks(int64(tr)+1, tr), ttml.Ticks(int64(tr)*3661+3, tr))
	}
	for _, ns := range startsNs {
		o = append(o, ttml.Inst{Num: ns, Den: 1})
	}
	if fr > 0 { // a count of frames with a fraction (12.5f), 100 and 101 frames (a third digit)
		o = append(o, ttml.Frames(25, 2*fr), ttml.Frames(100, fr), ttml.Frames(101, fr))
	}
	if tr > 0 { // a count of ticks with a fraction (1.5t); one tick past 24 h (the product ticks x 10^9 no longer fits 2^53 at 10 MHz)
		o = append(o, ttml.Ticks(3, 2*tr), ttml.Ticks(86400*int64(tr)+1, tr))
	}
	startCache[k] = o
	return o
}

func gen(x *explore.C, p *profile) Case {
	var d ttml.Doc
	d.Title = explore.Pick(x, "title", p.titles...)
	d.Copyright = explore.Pick(x, "copyright", p.copyrights...)
	d.Lang = explore.Pick(x, "lang", p.langs...)
	d.FrameRate = explore.Pick(x, "frameRate", p.frameRates...)
	d.TickRate = explore.Pick(x, "tickRate", p.tickRates...)
	ids := idTables[x.Choose("ids", p.idSchemes)]
	pickAttrs := func(site string, opts [][]ttml.Attr) []ttml.Attr {
		at := explore.Pick(x, site, opts...)
		if !p.attrVals || len(at) == 0 {
			return at
		}
		out := make([]ttml.Attr, len(at))
		for i, a := range at {
			out[i] = a
			if a.Value == attrValues[a.Name] {
				out[i].Value = explore.Pick(x, "attr.value", attrVals[a.Name]...)
			}
		}
		return out
	}
	forest := explore.Pick(x, "forest", p.forests...)
	for i, par := range forest {
		s := ttml.Style{ID: ids[0][i]}
		if par >= 0 {
			s.Parent = ids[0][par]
		}
		s.Attrs = pickAttrs("style.attrs", p.styleAttrs)
		d.Styles = append(d.Styles, s)
	}
	styleRef := func(site string) string {
		if p.forceRefs {
			return d.Styles[0].ID
		}
		if !p.refs || len(d.Styles) == 0 {
			return ""
		}
		if v := x.Choose(site, 1+len(d.Styles)); v > 0 {
			return d.Styles[v-1].ID
		}
		return ""
	}
	nreg := explore.Pick(x, "nregions", p.nregions...)
	for i := 0; i < nreg; i++ {
		g := ttml.Region{ID: ids[1][i]}
		g.Style = styleRef("region.style")
		g.Attrs = pickAttrs("region.attrs", p.regionAttrs)
		d.Regions = append(d.Regions, g)
	}
	n := explore.Pick(x, "ncues", p.ncues...)
	starts := startInstants(p, d.FrameRate, d.TickRate)
	for k := 0; k < n; k++ {
		var c ttml.Cue
		c.Begin = explore.Pick(x, "begin", starts...)
		var ends []int
		for _, e := range p.ends {
			if (e == 4 && d.FrameRate == 0) || (e == 5 && d.TickRate == 0) {
				continue
			}
			ends = append(ends, e)
		}
		switch explore.Pick(x, "end", ends...) {
		case 0:
			c.End = c.Begin.AddMs(1000)
		case 1:
			c.End = c.Begin
		case 2:
			c.End = c.Begin.AddMs(1)
		case 3:
			c.End = c.Begin.AddMs(500)
		case 4:
			c.End = c.Begin.Add(ttml.Frames(1, d.FrameRate))
		case 5:
			c.End = c.Begin.Add(ttml.Ticks(1, d.TickRate))
		}
		if len(syntaxes(c.End, d.FrameRate, d.TickRate)) == 0 {
			c.End = c.Begin.AddMs(1000) // a frame-based begin plus a tick (or the reverse) may be inexpressible in every syntax
		}
		c.Style = styleRef("cue.style")
		if p.forceRefs {
			c.Region = d.Regions[0].ID
		} else if p.refs && nreg > 0 {
			if v := x.Choose("cue.region", 1+nreg); v > 0 {
				c.Region = d.Regions[v-1].ID
			}
		}
		c.Attrs = pickAttrs("cue.attrs", p.cueAttrs)
		shape := explore.Pick(x, "shape", p.shapes...)
		for _, nr := range shape {
			line := ttml.Line{}
			for r := 0; r < nr; r++ {
				run := ttml.Run{Text: explore.Pick(x, "text", p.texts...)}
				run.Style = styleRef("run.style")
				run.Attrs = pickAttrs("run.attrs", p.runAttrs)
				line = append(line, run)
			}
			c.Lines = append(c.Lines, line)
		}
		d.Cues = append(d.Cues, c)
	}
	cs := Case{Doc: d}
	cs.WIndent = x.Choose("write.indent", p.windents)
	mark := len(x.Trace)
	r := ttml.Render{}
	r.NS = explore.Pick(x, "ns", p.ns...)
	r.Indent = explore.Pick(x, "indent", p.indents...)
	if p.inline && r.Indent != 0 {
		r.Inline = x.Bool("inline")
	}
	if r.Indent != 0 {
		r.EOL = x.Choose("eol", 3)
	}
	r.BrForm = explore.Pick(x, "brForm", p.brForms...)
	if p.misc {
		r.XMLDecl = x.Bool("xmlDecl")
		r.OpenClose = x.Bool("openClose")
		r.Divs = x.Bool("divs")
		r.PID = x.Bool("pid")
		if p.misc2 {
			r.TextEsc = x.Choose("textEsc", 6)
		} else {
			r.TextEsc = x.Choose("textEsc", 3)
		}
		r.Apos = x.Bool("apos")
	}
	if p.misc2 {
		if r.XMLDecl {
			r.DeclForm = x.Choose("declForm", 4)
		} else {
			r.DeclForm = explore.Pick(x, "declForm", 0, 3)
		}
		r.AttrOrder = x.Choose("attrOrder", 2)
		r.Comments = x.Bool("comments")
		r.Decoy = x.Choose("decoy", 3)
		r.EmptyMeta = x.Choose("emptyMeta", 3)
	}
	for _, c := range d.Cues {
		bs := syntaxes(c.Begin, d.FrameRate, d.TickRate)
		es := syntaxes(c.End, d.FrameRate, d.TickRate)
		if p.syntaxes {
			r.Begin = append(r.Begin, explore.Pick(x, "begin.syntax", bs...))
			r.End = append(r.End, explore.Pick(x, "end.syntax", es...))
			if p.lex {
				r.BeginLex = append(r.BeginLex, explore.Pick(x, "begin.lex", ttml.LexesOf(r.Begin[len(r.Begin)-1])...))
				r.EndLex = append(r.EndLex, explore.Pick(x, "end.lex", ttml.LexesOf(r.End[len(r.End)-1])...))
			}
		} else {
			r.Begin = append(r.Begin, bs[0])
			r.End = append(r.End, es[0])
		}
		bare := make([][]bool, len(c.Lines))
		first := true
		for li, l := range c.Lines {
			bare[li] = make([]bool, len(l))
			for ri, run := range l {
				if p.bare && ttml.BareOK(run, r, first) {
					bare[li][ri] = x.Bool("bare")
				}
				first = false
			}
		}
		r.Bare = append(r.Bare, bare)
		nb := len(c.Lines) - 1
		if nb < 0 {
			nb = 0
		}
		bp := make([]int, nb)
		if p.brPlace {
			for b := 0; b < nb; b++ {
				// offer only the placements that exist here: a span before / after the break run, equal styles around a single break
				opts := []int{0}
				if prev := lastRun(c.Lines[:b+1], bare); prev != nil {
					opts = append(opts, 1)
				}
				if next := firstRun(c.Lines[b+1:], bare[b+1:]); next != nil {
					opts = append(opts, 2)
				}
				if len(c.Lines[b]) > 0 && len(c.Lines[b+1]) > 0 {
					pr, nx := c.Lines[b][len(c.Lines[b])-1], c.Lines[b+1][0]
					if !bare[b][len(c.Lines[b])-1] && !bare[b+1][0] && pr.Style == nx.Style && ttml.CanonAttrs(pr.Attrs) == ttml.CanonAttrs(nx.Attrs) {
						opts = append(opts, 3)
					}
				}
				bp[b] = explore.Pick(x, "brPlace", opts...)
			}
		}
		r.BrPlace = append(r.BrPlace, bp)
	}
	cs.Render = r
	cs.renderDev = explore.Deviations(x.Trace[mark:])
	return cs
}

// lastRun returns the last run of the lines when it is rendered as a span (nil if there is none or it is bare).
func lastRun(lines []ttml.Line, bare [][]bool) *ttml.Run {
	for li := len(lines) - 1; li >= 0; li-- {
		if n := len(lines[li]); n > 0 {
			if bare[li][n-1] {
				return nil
			}
			return &lines[li][n-1]
		}
	}
	return nil
}

func firstRun(lines []ttml.Line, bare [][]bool) *ttml.Run {
	for li := range lines {
		if len(lines[li]) > 0 {
			if bare[li][0] {
				return nil
			}
			return &lines[li][0]
		}
	}
	return nil
}

// ---------- time sweep ----------

var sweepRates = [][2]int{{0, 0}, {25, 0}, {24, 0}, {30, 0}, {120, 0}, {60, 0}, {1, 0}, {1000, 0}, {0, 1}, {0, 1000}, {0, 90000}, {0, 10000000}, {25, 90000}, {30, 1}, {50, 0}}
var sweepMsExtra = []int64{59999, 60000, 3599999, 3600000, 86399999, 359999999, 360000000, 1234567, 36000000, 4102,
	9999, 10000, 599999, 600000, 900000, 5430000, 86400000, 3599999999, 3600000000}

// wholeCounts drops the fractional-count syntaxes (they have their own product, the lex core, and sit in the ball).
func wholeCounts(s []ttml.Syntax) []ttml.Syntax {
	for len(s) > 0 && s[len(s)-1] >= ttml.OffFFrac {
		s = s[:len(s)-1]
	}
	return s
}

func genTimes(x *explore.C, nms, nfr int) Case {
	rp := explore.Pick(x, "rates", sweepRates...)
	fr, tr := rp[0], rp[1]
	kinds := []int{0}
	if fr > 0 {
		kinds = append(kinds, 1)
	}
	if tr > 0 {
		kinds = append(kinds, 2)
	}
	var inst ttml.Inst
	switch explore.Pick(x, "kind", kinds...) {
	case 0:
		k := x.Choose("ms", nms+len(sweepMsExtra))
		if k < nms {
			inst = ttml.Ms(int64(k))
		} else {
			inst = ttml.Ms(sweepMsExtra[k-nms])
		}
	case 1:
		extra := []int64{int64(3600 * fr), int64(3600*fr + fr - 1), int64(360000*fr - 1), int64(360000 * fr), int64(3600000*fr + fr - 1)}
		k := x.Choose("frames", nfr+len(extra))
		if k < nfr {
			inst = ttml.Frames(int64(k), fr)
		} else {
			inst = ttml.Frames(extra[k-nfr], fr)
		}
	case 2:
		t := int64(tr)
		extra := []int64{t - 1, t, t + 1, 3 * t / 2, 2*t + 1, 60 * t, 3600 * t, 3600*t + 1, 86399*t + t/2, 123456789, 86400*t + 1, 360000*t + 3}
		k := x.Choose("ticks", nfr+len(extra))
		if k < nfr {
			inst = ttml.Ticks(int64(k), tr)
		} else {
			inst = ttml.Ticks(extra[k-nfr], tr)
		}
	}
	syn := explore.Pick(x, "syntax", wholeCounts(syntaxes(inst, fr, tr))...)
	d := ttml.Doc{FrameRate: fr, TickRate: tr, Cues: []ttml.Cue{{Begin: inst, End: inst, Lines: []ttml.Line{{{Text: "x"}}}}}}
	r := ttml.DefaultRender(d)
	r.Begin[0], r.End[0] = syn, syn
	return Case{Doc: d, Render: r, renderDev: 1}
}

// ---------- value cores (full products over value tables) ----------

func oneCue(text string) ttml.Cue {
	return ttml.Cue{Begin: ttml.Ms(1000), End: ttml.Ms(2000), Lines: []ttml.Line{{{Text: text}}}}
}

// finish sets the write-indent choice and the rendering of a core case; render makes the rendering choices.
func finish(x *explore.C, d ttml.Doc, windents int, render func(r *ttml.Render)) Case {
	cs := Case{Doc: d}
	cs.WIndent = x.Choose("write.indent", windents)
	mark := len(x.Trace)
	r := ttml.DefaultRender(d)
	render(&r)
	cs.Render = r
	cs.renderDev = explore.Deviations(x.Trace[mark:])
	return cs
}

// values core: every value of every tts:* attribute x the element that carries it (style, region, p, span)
// x namespace prefixes x quote x attribute order; the cue, the run and the region reference the style
func genValues(x *explore.C, windents int) Case {
	carrier := x.Choose("carrier", 4)
	name := explore.Pick(x, "attr", ttml.AttrNames...)
	at := []ttml.Attr{{Name: name, Value: explore.Pick(x, "attr.value", attrVals[name]...)}}
	d := ttml.Doc{Styles: []ttml.Style{{ID: "s0"}}, Regions: []ttml.Region{{ID: "r0", Style: "s0"}}}
	c := oneCue("x")
	c.Style, c.Region = "s0", "r0"
	c.Lines[0][0].Style = "s0"
	switch carrier {
	case 0:
		d.Styles[0].Attrs = at
	case 1:
		d.Regions[0].Attrs = at
	case 2:
		c.Attrs = at
	case 3:
		c.Lines[0][0].Attrs = at
	}
	d.Cues = []ttml.Cue{c}
	return finish(x, d, windents, func(r *ttml.Render) {
		r.NS = explore.Pick(x, "ns", 0, 1, 3)
		r.Apos = x.Bool("apos")
		r.AttrOrder = x.Choose("attrOrder", 2)
	})
}

var lexRates = [][2]int{{0, 0}, {24, 0}, {25, 0}, {30, 0}, {50, 0}, {60, 0}, {120, 0}, {0, 1}, {0, 1000}, {0, 90000}, {0, 10000000}, {25, 90000}}
var lexMs = []int64{0, 1, 999, 1000, 1500, 9999, 10000, 59999, 60000, 599999, 600000, 900000, 3599999, 3600000, 5430000, 35999999, 36000000,
	86399999, 86400000, 359999999, 360000000, 3599999999, 3600000000}

var lexInstCache = map[[2]int][]ttml.Inst{}

func lexInstants(fr, tr int) []ttml.Inst {
	k := [2]int{fr, tr}
	if o, ok := lexInstCache[k]; ok {
		return o
	}
	var o []ttml.Inst
	for _, ms := range lexMs {
		o = append(o, ttml.Ms(ms))
	}
	for _, ns := range startsNs {
		o = append(o, ttml.Inst{Num: ns, Den: 1})
	}
	if fr > 0 {
		f := int64(fr)
		for _, k := range []int64{1, 9, 10, f - 1, f, f + 1, 99, 100, 101, 999, 1000, 3600*f + f - 1, 360000*f + f - 1} {
			o = append(o, ttml.Frames(k, fr))
		}
		for _, h := range []int64{1, 25, 2*f - 1, 2001} { // half frames: 0.5f, 12.5f, (rate-0.5)f, 1000.5f
			o = append(o, ttml.Frames(h, 2*fr))
		}
		o = append(o, ttml.Frames(1001, 4*fr), ttml.Frames(12125, 1000*fr)) // 250.25f, 12.125f
	}
	if tr > 0 {
		t := int64(tr)
		for _, k := range []int64{1, 9, 10, t - 1, t, t + 1, 999, 1000, 3600*t + 1, 86400*t + 1, 360000*t + 3} {
			o = append(o, ttml.Ticks(k, tr))
		}
		o = append(o, ttml.Ticks(1, 2*tr), ttml.Ticks(3, 2*tr), ttml.Ticks(2*t+1, 2*tr), ttml.Ticks(12125, 1000*tr)) // 0.5t, 1.5t, (rate+0.5)t, 12.125t
	}
	lexInstCache[k] = o
	return o
}

// lex core: boundary instants x frame/tick rates x every syntax that is exact (fractional frame and tick counts
// included) x every lexical variant (leading zeros, superfluous fraction digits, nine-digit fractions)
func genLex(x *explore.C) Case {
	rp := explore.Pick(x, "rates", lexRates...)
	fr, tr := rp[0], rp[1]
	inst := explore.Pick(x, "instant", lexInstants(fr, tr)...)
	syns := syntaxes(inst, fr, tr)
	if len(syns) == 0 {
		syns = []ttml.Syntax{ttml.Clock3}
		inst = ttml.Ms(1000)
	}
	syn := explore.Pick(x, "syntax", syns...)
	lex := explore.Pick(x, "lex", ttml.LexesOf(syn)...)
	// the other boundary keeps the baseline form (begin and end must not be confused)
	other := x.Choose("which", 2)
	c := oneCue("x")
	d := ttml.Doc{FrameRate: fr, TickRate: tr}
	r := ttml.Render{}
	if other == 0 {
		c.Begin, c.End = inst, inst
		d.Cues = []ttml.Cue{c}
		r = ttml.DefaultRender(d)
		r.Begin[0], r.End[0] = syn, syn
		r.BeginLex, r.EndLex = []int{lex}, []int{lex}
	} else {
		c.Begin, c.End = ttml.Ms(0), inst
		d.Cues = []ttml.Cue{c}
		r = ttml.DefaultRender(d)
		r.End[0] = syn
		r.BeginLex, r.EndLex = []int{0}, []int{lex}
	}
	return Case{Doc: d, Render: r, renderDev: 1}
}

// meta core: title x copyright x language tag x escaping form x how absent parts are written
func genMeta(x *explore.C, windents int) Case {
	d := ttml.Doc{Cues: []ttml.Cue{oneCue("x")}}
	d.Title = explore.Pick(x, "title", allTitles...)
	d.Copyright = explore.Pick(x, "copyright", "", "Copyright test", " \u00a9\u00a0", "&copy;")
	d.Lang = explore.Pick(x, "lang", allLangs...)
	return finish(x, d, windents, func(r *ttml.Render) {
		r.TextEsc = explore.Pick(x, "textEsc", 0, 3, 4, 5)
		r.EmptyMeta = explore.Pick(x, "emptyMeta", 0, 2)
	})
}

// text core: every text x every escaping form x xml:space decoys x span / bare character data x layout
func genText(x *explore.C, windents int) Case {
	d := ttml.Doc{Cues: []ttml.Cue{oneCue(explore.Pick(x, "text", allTexts...))}}
	return finish(x, d, windents, func(r *ttml.Render) {
		r.TextEsc = x.Choose("textEsc", 6)
		r.Decoy = x.Choose("decoy", 3) // xml:space="preserve" on tt / xml:space="default" on p and span: no effect on what is returned
		switch x.Choose("layout", 3) {
		case 1:
			r.Indent = 1
		case 2:
			r.Indent, r.Inline = 2, true
		}
		if r.Indent != 0 {
			r.EOL = x.Choose("eol", 3)
		}
		if ttml.BareOK(d.Cues[0].Lines[0][0], *r, true) {
			r.Bare[0][0][0] = x.Bool("bare")
		}
	})
}

// syntax core: document-level freedoms of a document that has a title, a style, a region, references and a line break
func genSyntax(x *explore.C) Case {
	d := ttml.Doc{Title: "T", Styles: []ttml.Style{{ID: "s0", Attrs: a("color", "red")}}, Regions: []ttml.Region{{ID: "r0", Style: "s0", Attrs: a("origin", "10% 80%")}}}
	c := oneCue("x")
	c.Style, c.Region, c.Attrs = "s0", "r0", a("textAlign", "center")
	c.Lines = []ttml.Line{{{Text: "x", Style: "s0"}, {Text: "y"}}, {{Text: "z", Attrs: a("zIndex", "1")}}}
	d.Cues = []ttml.Cue{c, oneCue("w")}
	return finish(x, d, 1, func(r *ttml.Render) {
		r.XMLDecl = x.Bool("xmlDecl")
		if r.XMLDecl {
			r.DeclForm = x.Choose("declForm", 4)
		} else {
			r.DeclForm = explore.Pick(x, "declForm", 0, 3)
		}
		r.NS = x.Choose("ns", 4)
		r.AttrOrder = x.Choose("attrOrder", 2)
		r.Comments = x.Bool("comments")
		r.Decoy = x.Choose("decoy", 3)
		r.BrForm = x.Choose("brForm", 4)
		r.EmptyMeta = x.Choose("emptyMeta", 3)
		r.Apos = x.Bool("apos")
		r.Indent = explore.Pick(x, "indent", 0, 2)
		r.Bare[0][0][1] = x.Bool("bare")
	})
}

// ids core: every xml:id scheme x four three-style forests x two regions x every reference from region, p and span
func genIDs(x *explore.C, windents int) Case {
	ids := idTables[x.Choose("ids", len(idTables))]
	forest := explore.Pick(x, "forest", []int{-1, 0, 1}, []int{-1, 0, 0}, []int{1, 2, -1}, []int{-1, -1, -1})
	var d ttml.Doc
	for i, par := range forest {
		s := ttml.Style{ID: ids[0][i]}
		if par >= 0 {
			s.Parent = ids[0][par]
		}
		d.Styles = append(d.Styles, s)
	}
	ref := func(site string) string {
		if v := x.Choose(site, 4); v > 0 {
			return ids[0][v-1]
		}
		return ""
	}
	d.Regions = []ttml.Region{{ID: ids[1][0], Style: ref("region.style")}, {ID: ids[1][1], Style: ids[0][2]}}
	c := oneCue("x")
	c.Style = ref("cue.style")
	if v := x.Choose("cue.region", 3); v > 0 {
		c.Region = ids[1][v-1]
	}
	c.Lines[0][0].Style = ref("run.style")
	d.Cues = []ttml.Cue{c}
	return finish(x, d, windents, func(r *ttml.Render) {})
}

// bulk core: documents with many cues, styles and regions (every cue, style and region distinct, every reference
// checked): n cues x 20 styles (chains and shared parents) x 12 regions, in two layouts
func genBulk(x *explore.C) Case {
	n := explore.Pick(x, "ncues", 13, 100, 257, 1000)
	var d ttml.Doc
	for i := 0; i < 20; i++ {
		s := ttml.Style{ID: fmt.Sprintf("s%d", i), Attrs: a("fontSize", fmt.Sprintf("%d%%", 100+i))}
		if i%5 != 0 {
			s.Parent = fmt.Sprintf("s%d", i-i%5) // four children share each fifth style
		}
		if i%5 == 4 {
			s.Parent = fmt.Sprintf("s%d", i-1) // and a chain link
		}
		d.Styles = append(d.Styles, s)
	}
	for i := 0; i < 12; i++ {
		d.Regions = append(d.Regions, ttml.Region{ID: fmt.Sprintf("r%d", i), Style: fmt.Sprintf("s%d", (i*7)%20), Attrs: a("origin", fmt.Sprintf("%d%% %d%%", i, 2*i))})
	}
	for k := 0; k < n; k++ {
		c := ttml.Cue{Begin: ttml.Ms(int64(k) * 3599), End: ttml.Ms(int64(k)*3599 + 3000), Style: fmt.Sprintf("s%d", k%20), Region: fmt.Sprintf("r%d", k%12)}
		c.Lines = []ttml.Line{{{Text: fmt.Sprintf("cue %d", k+1), Style: fmt.Sprintf("s%d", (k+3)%20)}}, {{Text: "second line", Attrs: a("zIndex", strconv.Itoa(k))}}}
		d.Cues = append(d.Cues, c)
	}
	return finish(x, d, 2, func(r *ttml.Render) {
		r.Indent = explore.Pick(x, "indent", 0, 2)
		r.Divs = x.Bool("divs")
	})
}

// ---------- library value <-> model ----------

func attrsOf(s *astisub.StyleAttributes) []ttml.Attr {
	if s == nil {
		return nil
	}
	var o []ttml.Attr
	add := func(n string, v *string) {
		if v != nil {
			o = append(o, ttml.Attr{Name: n, Value: *v})
		}
	}
	add("backgroundColor", s.TTMLBackgroundColor)
	add("color", s.TTMLColor)
	add("direction", s.TTMLDirection)
	add("display", s.TTMLDisplay)
	add("displayAlign", s.TTMLDisplayAlign)
	add("extent", s.TTMLExtent)
	add("fontFamily", s.TTMLFontFamily)
	add("fontSize", s.TTMLFontSize)
	add("fontStyle", s.TTMLFontStyle)
	add("fontWeight", s.TTMLFontWeight)
	add("lineHeight", s.TTMLLineHeight)
	add("opacity", s.TTMLOpacity)
	add("origin", s.TTMLOrigin)
	add("overflow", s.TTMLOverflow)
	add("padding", s.TTMLPadding)
	add("showBackground", s.TTMLShowBackground)
	add("textAlign", s.TTMLTextAlign)
	add("textDecoration", s.TTMLTextDecoration)
	add("textOutline", s.TTMLTextOutline)
	add("unicodeBidi", s.TTMLUnicodeBidi)
	add("visibility", s.TTMLVisibility)
	add("wrapOption", s.TTMLWrapOption)
	add("writingMode", s.TTMLWritingMode)
	if s.TTMLZIndex != nil {
		o = append(o, ttml.Attr{Name: "zIndex", Value: strconv.Itoa(*s.TTMLZIndex)})
	}
	return o
}

func toSA(at []ttml.Attr) *astisub.StyleAttributes {
	if len(at) == 0 {
		return nil
	}
	s := &astisub.StyleAttributes{}
	for _, x := range at {
		v := x.Value
		switch x.Name {
		case "backgroundColor":
			s.TTMLBackgroundColor = &v
		case "color":
			s.TTMLColor = &v
		case "direction":
			s.TTMLDirection = &v
		case "display":
			s.TTMLDisplay = &v
		case "displayAlign":
			s.TTMLDisplayAlign = &v
		case "extent":
			s.TTMLExtent = &v
		case "fontFamily":
			s.TTMLFontFamily = &v
		case "fontSize":
			s.TTMLFontSize = &v
		case "fontStyle":
			s.TTMLFontStyle = &v
		case "fontWeight":
			s.TTMLFontWeight = &v
		case "lineHeight":
			s.TTMLLineHeight = &v
		case "opacity":
			s.TTMLOpacity = &v
		case "origin":
			s.TTMLOrigin = &v
		case "overflow":
			s.TTMLOverflow = &v
		case "padding":
			s.TTMLPadding = &v
		case "showBackground":
			s.TTMLShowBackground = &v
		case "textAlign":
			s.TTMLTextAlign = &v
		case "textDecoration":
			s.TTMLTextDecoration = &v
		case "textOutline":
			s.TTMLTextOutline = &v
		case "unicodeBidi":
			s.TTMLUnicodeBidi = &v
		case "visibility":
			s.TTMLVisibility = &v
		case "wrapOption":
			s.TTMLWrapOption = &v
		case "writingMode":
			s.TTMLWritingMode = &v
		case "zIndex":
			n, _ := strconv.Atoi(v)
			s.TTMLZIndex = &n
		}
	}
	return s
}

var langNames = map[string]string{astisub.LanguageEnglish: "en", astisub.LanguageFrench: "fr", astisub.LanguageJapanese: "ja", astisub.LanguageNorwegian: "no", astisub.LanguageChinese: "zh"}

// FromSubs extracts the TTML denotation from a library value. odd reports structural damage
// (map key differs from the object's ID, reference to an object that is not the one in the table).
func FromSubs(s *astisub.Subtitles) (ttml.Den, string) {
	o := ttml.Den{Styles: map[string]ttml.HeadEl{}, Regions: map[string]ttml.HeadEl{}}
	odd := ""
	if s.Metadata != nil {
		o.Title, o.Copyright = s.Metadata.Title, s.Metadata.TTMLCopyright
		if s.Metadata.Language != "" {
			if t, ok := langNames[s.Metadata.Language]; ok {
				o.Lang = t
			} else {
				o.Lang = "?" + s.Metadata.Language
			}
		}
	}
	styleID := func(st *astisub.Style, from string) string {
		if st == nil {
			return ""
		}
		if s.Styles[st.ID] != st {
			odd = fmt.Sprintf("%s points to a style %q that is not the object in the style table", from, st.ID)
		}
		return st.ID
	}
	for id, st := range s.Styles {
		if st == nil || st.ID != id {
			odd = fmt.Sprintf("style table key %q holds a style with another id", id)
			continue
		}
		o.Styles[id] = ttml.HeadEl{Ref: styleID(st.Style, "style "+id), Attrs: ttml.CanonAttrs(attrsOf(st.InlineStyle))}
	}
	for id, g := range s.Regions {
		if g == nil || g.ID != id {
			odd = fmt.Sprintf("region table key %q holds a region with another id", id)
			continue
		}
		o.Regions[id] = ttml.HeadEl{Ref: styleID(g.Style, "region "+id), Attrs: ttml.CanonAttrs(attrsOf(g.InlineStyle))}
	}
	for _, it := range s.Items {
		c := ttml.DenCue{Begin: ttml.Inst{Num: int64(it.StartAt), Den: 1}, End: ttml.Inst{Num: int64(it.EndAt), Den: 1}, Attrs: ttml.CanonAttrs(attrsOf(it.InlineStyle))}
		c.Style = styleID(it.Style, "cue")
		if it.Region != nil {
			c.Region = it.Region.ID
			if s.Regions[it.Region.ID] != it.Region {
				odd = fmt.Sprintf("cue points to a region %q that is not the object in the region table", it.Region.ID)
			}
		}
		for _, l := range it.Lines {
			var line ttml.Line
			for _, li := range l.Items {
				line = append(line, ttml.Run{Text: li.Text, Style: styleID(li.Style, "run"), Attrs: attrsOf(li.InlineStyle)})
			}
			c.Lines = append(c.Lines, ttml.CanonLine(line))
		}
		if len(c.Lines) == 0 {
			c.Lines = []string{""}
		}
		o.Cues = append(o.Cues, c)
	}
	return o, odd
}

var langConst = map[string]string{"en": astisub.LanguageEnglish, "fr": astisub.LanguageFrench, "ja": astisub.LanguageJapanese, "no": astisub.LanguageNorwegian, "zh": astisub.LanguageChinese}

// ToSubs builds a library value from a model document using public types only.
func ToSubs(d ttml.Doc) *astisub.Subtitles {
	s := astisub.NewSubtitles()
	if d.Title != "" || d.Copyright != "" || d.Lang != "" {
		s.Metadata = &astisub.Metadata{Title: d.Title, TTMLCopyright: d.Copyright, Language: langConst[d.Lang]}
	}
	for _, st := range d.Styles {
		s.Styles[st.ID] = &astisub.Style{ID: st.ID, InlineStyle: toSA(st.Attrs)}
	}
	for _, st := range d.Styles {
		if st.Parent != "" {
			s.Styles[st.ID].Style = s.Styles[st.Parent]
		}
	}
	for _, g := range d.Regions {
		r := &astisub.Region{ID: g.ID, InlineStyle: toSA(g.Attrs)}
		if g.Style != "" {
			r.Style = s.Styles[g.Style]
		}
		s.Regions[g.ID] = r
	}
	for _, c := range d.Cues {
		it := &astisub.Item{StartAt: time.Duration(c.Begin.Num), EndAt: time.Duration(c.End.Num), InlineStyle: toSA(c.Attrs)}
		if c.Style != "" {
			it.Style = s.Styles[c.Style]
		}
		if c.Region != "" {
			it.Region = s.Regions[c.Region]
		}
		for _, l := range c.Lines {
			ln := astisub.Line{}
			for _, r := range l {
				li := astisub.LineItem{Text: r.Text, InlineStyle: toSA(r.Attrs)}
				if r.Style != "" {
					li.Style = s.Styles[r.Style]
				}
				ln.Items = append(ln.Items, li)
			}
			it.Lines = append(it.Lines, ln)
		}
		s.Items = append(s.Items, it)
	}
	return s
}

func safeRead(b []byte) (s *astisub.Subtitles, err error, pan string) {
	defer func() {
		if e := recover(); e != nil {
			pan = fmt.Sprint(e)
		}
	}()
	s, err = astisub.ReadFromTTML(bytes.NewReader(b))
	return
}

// ---------- classification ----------

// Finding is one classified violation of a case.
type Finding struct{ Key, Msg string }

func boundary(cs Case, df ttml.Diff) (inst ttml.Inst, syn ttml.Syntax, got int64, ok bool) {
	k, err := strconv.Atoi(df.ID)
	if err != nil || k >= len(cs.Doc.Cues) || k >= len(cs.Render.Begin) {
		return
	}
	g := strings.TrimSuffix(df.Got, "ns")
	got, err = strconv.ParseInt(g, 10, 64)
	if err != nil {
		return
	}
	if df.Where == "cue.begin" {
		return cs.Doc.Cues[k].Begin, cs.Render.Begin[k], got, true
	}
	return cs.Doc.Cues[k].End, cs.Render.End[k], got, true
}

// classifyTime names the narrow defect behind one wrong boundary, "" if none of the known shapes.
func classifyTime(cs Case, df ttml.Diff) string {
	inst, syn, got, ok := boundary(cs, df)
	if !ok {
		return ""
	}
	exactWhole := inst.Den == 1
	switch syn {
	case ttml.Clock0:
		// "hh:mm:ss" taken as "hh:mm" (as minutes:seconds) plus ss frames
		sec := inst.Num / 1000000000
		hh, mm, ss := sec/3600, sec/60%60, sec%60
		pred := ttml.Ms((hh*60 + mm) * 1000)
		if cs.Doc.FrameRate > 0 {
			pred = pred.Add(ttml.Frames(ss, cs.Doc.FrameRate))
		}
		if pred.Accepts(got) {
			return "clock-time-without-fraction-read-as-frames"
		}
	case ttml.OffH, ttml.OffM, ttml.OffS, ttml.OffMs:
		if exactWhole && got == inst.Num-1 {
			return "decimal-offset-float-truncation"
		}
	case ttml.OffF, ttml.ClockFrames:
		if exactWhole && got == inst.Num-1 {
			return "frames-float-truncation"
		}
	case ttml.OffT:
		if exactWhole && got == inst.Num-1 {
			return "ticks-float-truncation"
		}
	case ttml.OffFFrac, ttml.OffTFrac:
		// "12.5f" taken as 12 frames: the fraction of the count dropped
		rate, name := cs.Doc.FrameRate, "fractional-frame-count-truncated"
		if syn == ttml.OffTFrac {
			rate, name = cs.Doc.TickRate, "fractional-tick-count-truncated"
		}
		if rate > 0 {
			cnt := new(big.Int).Mul(big.NewInt(inst.Num), big.NewInt(int64(rate)))
			cnt.Quo(cnt, new(big.Int).Mul(big.NewInt(inst.Den), big.NewInt(1000000000))) // whole part of the count
			if cnt.IsInt64() {
				pred := ttml.Frames(cnt.Int64(), rate)
				if syn == ttml.OffTFrac {
					pred = ttml.Ticks(cnt.Int64(), rate)
				}
				if pred.Accepts(got) {
					return name
				}
			}
		}
	}
	return ""
}

// langCasePattern: a mapped language whose tag is not all lower case came back as no language.
func langCasePattern(cs Case, df ttml.Diff) bool {
	p := cs.Doc.Lang
	if i := strings.IndexByte(p, '-'); i >= 0 {
		p = p[:i]
	}
	return df.Got == `""` && p != strings.ToLower(p)
}

func onlyNonXMLSpace(t string) bool {
	return t != "" && strings.TrimSpace(t) == "" && strings.Trim(t, " \t\r\n") != ""
}

// spaceOnlyDroppedPattern: the observed lines are the expected ones without the bare runs that consist of
// Unicode-but-not-XML white space only (U+00A0, U+2028 ... are text, not white space between elements).
func spaceOnlyDroppedPattern(cs Case, df ttml.Diff) bool {
	k, err := strconv.Atoi(df.ID)
	if err != nil || k >= len(cs.Doc.Cues) || k >= len(cs.Render.Bare) {
		return false
	}
	c := cs.Doc.Cues[k]
	var lines []string
	first, hit := true, false
	for li, l := range c.Lines {
		var nl ttml.Line
		for ri, run := range l {
			bare := li < len(cs.Render.Bare[k]) && ri < len(cs.Render.Bare[k][li]) && cs.Render.Bare[k][li][ri] && ttml.BareOK(run, cs.Render, first)
			first = false
			if bare {
				// the character-data tokens of the run (a CDATA section boundary ends a token)
				kept := ""
				for _, tok := range ttml.TextTokens(run.Text, cs.Render.TextEsc) {
					if onlyNonXMLSpace(tok) {
						hit = true
						continue
					}
					kept += tok
				}
				run.Text = kept
			}
			nl = append(nl, run)
		}
		lines = append(lines, ttml.CanonLine(nl))
	}
	return hit && strings.Join(lines, " / ") == df.Got
}

// sharedParentPattern: the style.parent differences are exactly "every child of a shared parent
// except the last-listed one lost its link".
func sharedParentPattern(d ttml.Doc, diffs []ttml.Diff) bool {
	children := map[string][]string{}
	for _, s := range d.Styles {
		if s.Parent != "" {
			children[s.Parent] = append(children[s.Parent], s.ID)
		}
	}
	want := map[string]bool{}
	for _, ch := range children {
		for _, id := range ch[:len(ch)-1] {
			want[id] = true
		}
	}
	n := 0
	for _, df := range diffs {
		if df.Where != "style.parent" {
			continue
		}
		n++
		if !want[df.ID] || df.Got != `""` {
			return false
		}
	}
	return n > 0 && n == len(want)
}

// nonXMLSpacePattern: the observed lines are the expected ones with the leading Unicode-but-not-XML
// white space (U+00A0, U+3000 ...) removed from bare runs that start a raw line of the paragraph.
func nonXMLSpacePattern(cs Case, df ttml.Diff) bool {
	k, err := strconv.Atoi(df.ID)
	if err != nil || k >= len(cs.Doc.Cues) || k >= len(cs.Render.Bare) {
		return false
	}
	c := cs.Doc.Cues[k]
	var lines []string
	first, hit := true, false
	for li, l := range c.Lines {
		var nl ttml.Line
		for ri, run := range l {
			if li < len(cs.Render.Bare[k]) && ri < len(cs.Render.Bare[k][li]) && cs.Render.Bare[k][li][ri] && ttml.BareOK(run, cs.Render, first) && ttml.StartsRawLine(cs.Render, first) {
				if t := strings.TrimLeftFunc(run.Text, unicode.IsSpace); t != run.Text {
					run.Text = t
					hit = true
				}
			}
			first = false
			nl = append(nl, run)
		}
		lines = append(lines, ttml.CanonLine(nl))
	}
	return hit && strings.Join(lines, " / ") == df.Got
}

// classify groups the differences of one case by narrow key; prefix is "ttml.read" or "ttml.write.self".
func classify(cs Case, diffs []ttml.Diff, prefix string) map[string][]ttml.Diff {
	out := map[string][]ttml.Diff{}
	shared := sharedParentPattern(cs.Doc, diffs)
	for _, df := range diffs {
		key := ""
		switch df.Where {
		case "cue.begin", "cue.end":
			if t := classifyTime(cs, df); t != "" {
				key = prefix + ".time." + t
			}
		case "style.parent":
			if shared {
				key = prefix + ".shared-parent-link-lost"
			}
		case "cue.lines":
			if spaceOnlyDroppedPattern(cs, df) {
				key = prefix + ".non-xml-space-only-text-dropped"
			} else if nonXMLSpacePattern(cs, df) {
				key = prefix + ".non-xml-space-stripped-as-indentation"
			}
		case "lang":
			if langCasePattern(cs, df) {
				key = prefix + ".lang-tag-case-not-folded"
			}
		}
		if key == "" {
			key = prefix + ".mismatch:" + df.Where
		}
		out[key] = append(out[key], df)
	}
	return out
}

func diffText(d []ttml.Diff) string {
	var s []string
	for _, x := range d {
		s = append(s, x.String())
	}
	return strings.Join(s, "; ")
}

func sortedKeys(m map[string][]ttml.Diff) []string {
	var ks []string
	for k := range m {
		ks = append(ks, k)
	}
	sort.Strings(ks)
	return ks
}

// ---------- checks ----------

// CheckRead: ReadFromTTML(render(model)) must denote the model.
func CheckRead(cs Case) (fs []Finding, outcome uint64) {
	if blankIDs(cs.Doc) {
		return nil, core.Hash64("identifiers with blanks: write direction only")
	}
	b := cs.Doc.Bytes(cs.Render)
	want := cs.Doc.Denote()
	// harness self-check: the independent decoder must read the rendering back as the model
	if rd, err := ttml.Decode(b); err != nil {
		return []Finding{{"ttml.harness.refdecoder-rejects-rendering", fmt.Sprintf("HARNESS: independent decoder rejects %q: %v", b, err)}}, 0
	} else if df := ttml.Compare(want, rd.Denote()); len(df) > 0 {
		return []Finding{{"ttml.harness.refdecoder-vs-renderer", fmt.Sprintf("HARNESS: %q rendered from the model decodes differently: %s", b, diffText(df))}}, 0
	}
	s, err, pan := safeRead(b)
	if pan != "" {
		return []Finding{{"ttml.read.panic", fmt.Sprintf("ReadFromTTML panicked (%s) on %q", pan, b)}}, 0
	}
	if err != nil {
		return []Finding{{"ttml.read.error", fmt.Sprintf("ReadFromTTML failed (%v) on well-formed %q", err, b)}}, 0
	}
	got, odd := FromSubs(s)
	if odd != "" {
		return []Finding{{"ttml.read.structure", odd + fmt.Sprintf(" after reading %q", b)}}, 0
	}
	diffs := ttml.Compare(want, got)
	if len(diffs) > 0 {
		if cs.Render.EOL != 0 {
			// the same document with LF line ends reads correctly: the only trigger is the CR (XML line-end normalisation)
			lf := cs
			lf.Render.EOL = 0
			if s2, err2, pan2 := safeRead(lf.Doc.Bytes(lf.Render)); pan2 == "" && err2 == nil {
				if g2, odd2 := FromSubs(s2); odd2 == "" && len(ttml.Compare(want, g2)) == 0 {
					return []Finding{{"ttml.read.cr-line-ends-read-as-line-breaks", fmt.Sprintf("document %q\n denotes  %s\n reader returned %s\n (the same document with LF line ends reads correctly)", b, want, got)}}, 0
				}
			}
		}
		groups := classify(cs, diffs, "ttml.read")
		for _, k := range sortedKeys(groups) {
			fs = append(fs, Finding{k, fmt.Sprintf("document %q\n denotes  %s\n reader returned %s\n differences: %s", b, want, got, diffText(groups[k]))})
		}
		return fs, 0
	}
	return nil, core.Hash64(got.String())
}

// CheckMissing: a <p> lacking begin or end (outside the fidelity domain) must at least not panic.
func CheckMissing(cs Case) (fs []Finding, outcome uint64) {
	b := cs.Doc.Bytes(cs.Render)
	_, err, pan := safeRead(b)
	if pan != "" {
		return []Finding{{"ttml.read.panic.missing-begin-or-end", fmt.Sprintf("ReadFromTTML panicked (%s) on %q", pan, b)}}, 0
	}
	return nil, core.Hash64("missing", fmt.Sprint(err != nil))
}

// Representable: the write direction covers whole-millisecond instants (the writer's clock-time
// form has three fraction digits), the languages the library maps, and text without line terminators.
func Representable(d ttml.Doc) bool {
	if d.Lang != "" && langConst[d.Lang] == "" {
		return false
	}
	for _, c := range d.Cues {
		if !c.Begin.WholeMs() || !c.End.WholeMs() {
			return false
		}
		for _, l := range c.Lines {
			for _, r := range l {
				if strings.ContainsAny(r.Text, "\r\n") {
					return false
				}
			}
		}
	}
	return true
}

// CheckWrite: WriteToTTML(model) must denote the model to the library reader and to the independent decoder.
func CheckWrite(d ttml.Doc, windent int) (fs []Finding, outcome uint64) {
	s := ToSubs(d)
	var buf bytes.Buffer
	var err error
	pan := ""
	func() {
		defer func() {
			if e := recover(); e != nil {
				pan = fmt.Sprint(e)
			}
		}()
		if windent == 0 {
			err = s.WriteToTTML(&buf)
		} else {
			err = s.WriteToTTML(&buf, astisub.WriteToTTMLWithIndentOption(windents[windent]))
		}
	}()
	if pan != "" {
		return []Finding{{"ttml.write.panic", "WriteToTTML panicked: " + pan}}, 0
	}
	if len(d.Cues) == 0 {
		if err == nil {
			return []Finding{{"ttml.write.empty-no-error", "WriteToTTML of an empty list returned nil"}}, 0
		}
		return nil, core.Hash64("empty")
	}
	if err != nil {
		return []Finding{{"ttml.write.error", fmt.Sprintf("WriteToTTML failed: %v", err)}}, 0
	}
	want := d.Denote()
	out := buf.Bytes()
	wd := Case{Doc: d, Render: ttml.DefaultRender(d)}
	rd, e := ttml.Decode(out)
	if e != nil {
		fs = append(fs, Finding{"ttml.write.ref-decode", fmt.Sprintf("independent decoder rejects writer output (indent %q) %q: %v", windents[windent], out, e)})
	} else if df := ttml.Compare(want, rd.Denote()); len(df) > 0 {
		groups := classify(wd, df, "ttml.write.ref")
		for _, k := range sortedKeys(groups) {
			fs = append(fs, Finding{k, fmt.Sprintf("model %s\n written (indent %q) as %q\n independent decoder reads %s\n differences: %s", want, windents[windent], out, rd.Denote(), diffText(groups[k]))})
		}
	}
	s2, err2, pan2 := safeRead(out)
	if pan2 != "" || err2 != nil {
		fs = append(fs, Finding{"ttml.write.self-read-fails", fmt.Sprintf("library reader fails on writer output %q: %v %s", out, err2, pan2)})
		return fs, 0
	}
	got, odd := FromSubs(s2)
	if odd != "" {
		fs = append(fs, Finding{"ttml.write.self.structure", odd})
		return fs, 0
	}
	if df := ttml.Compare(want, got); len(df) > 0 {
		groups := classify(wd, df, "ttml.write.self")
		for _, k := range sortedKeys(groups) {
			fs = append(fs, Finding{k, fmt.Sprintf("model %s\n written (indent %q) as %q\n library reads back %s\n differences: %s", want, windents[windent], out, got, diffText(groups[k]))})
		}
	}
	if len(fs) > 0 {
		return fs, 0
	}
	return nil, core.Hash64(string(out))
}

// ---------- exploration ----------

func run(c *core.Ctx) {
	thorough := c.Tier == core.Thorough
	bound := 2
	nms, nfr := 3000, 1000
	if thorough {
		bound = 3
		nms, nfr = 20000, 10000
	}
	var cs Case
	visit := func(sub string) func(x *explore.C) bool {
		return func(x *explore.C) bool {
			cs := cs
			doRead := cs.WIndent == 0
			doWrite := cs.renderDev == 0 && Representable(cs.Doc)
			if !doRead && !doWrite {
				return true
			}
			if !c.Mine() {
				return true
			}
			dev := explore.Deviations(x.Trace)
			size := dev*100000 + len(cs.Doc.Bytes(cs.Render))
			c.Extra["cases_"+sub]++
			if doRead {
				fs, out := CheckRead(cs)
				nt := uint64(0)
				if dev > 0 {
					b, _ := json.Marshal(cs)
					nt = core.Hash64("r", string(b))
				}
				cs.Dir = "read"
				c.Record(sub+".read", out, nt, func() interface{} {
					return map[string]interface{}{"choices": x.Trace, "bytes": string(cs.Doc.Bytes(cs.Render))}
				})
				for _, f := range fs {
					cs.Key = f.Key
					c.Violate("read", f.Key, f.Msg, cs, size)
				}
			}
			if doWrite {
				fs, out := CheckWrite(cs.Doc, cs.WIndent)
				b, _ := json.Marshal(cs.Doc)
				cs.Dir = "write"
				c.Record(sub+".write", out, core.Hash64("w", string(b), windents[cs.WIndent]), nil)
				for _, f := range fs {
					cs.Key = f.Key
					c.Violate("write", f.Key, f.Msg, cs, size)
				}
			}
			return c.Evals%4096 != 0 || !c.Expired()
		}
	}
	// (1) time sweep: every millisecond of [0, nms), every frame and tick count of [0, nfr) plus tables, under ten
	// (frameRate, tickRate) pairs, in every syntax that expresses the instant exactly
	explore.Explore(-1, func(x *explore.C) { cs = genTimes(x, nms, nfr) }, visit("times"))
	// (2) core products of tiny grammars
	lp, rp, ap := linesProfile(thorough), refsProfile(thorough), attrsProfile(thorough)
	explore.Explore(-1, func(x *explore.C) { cs = gen(x, lp) }, visit("lines"))
	explore.Explore(-1, func(x *explore.C) { cs = gen(x, rp) }, visit("refs"))
	lrp := lineRefsProfile()
	explore.Explore(-1, func(x *explore.C) { cs = gen(x, lrp) }, visit("linerefs"))
	explore.Explore(-1, func(x *explore.C) { cs = gen(x, ap) }, visit("attrs"))
	// (2b) value cores: full products over the value tables of each field
	wi := 2
	if thorough {
		wi = 4
	}
	explore.Explore(-1, func(x *explore.C) { cs = genValues(x, wi) }, visit("values"))
	explore.Explore(-1, func(x *explore.C) { cs = genLex(x) }, visit("lex"))
	explore.Explore(-1, func(x *explore.C) { cs = genMeta(x, wi) }, visit("meta"))
	explore.Explore(-1, func(x *explore.C) { cs = genText(x, wi) }, visit("text"))
	explore.Explore(-1, func(x *explore.C) { cs = genSyntax(x) }, visit("syntax"))
	explore.Explore(-1, func(x *explore.C) { cs = genIDs(x, wi) }, visit("ids"))
	explore.Explore(-1, func(x *explore.C) { cs = genBulk(x) }, visit("bulk"))
	// (3) deviation ball around the baseline document over all model and rendering choice points
	bp := ballProfile(thorough)
	explore.Explore(bound, func(x *explore.C) { cs = gen(x, bp) }, visit("ball"))
	// (4) no-panic probe outside the fidelity domain: <p> lacking begin and/or end
	for ncues := 1; ncues <= 2; ncues++ {
		for which := 1; which <= 3; which++ {
			for k := 1; k <= ncues; k++ {
				if !c.Mine() {
					continue
				}
				d := ttml.Doc{}
				for i := 0; i < ncues; i++ {
					d.Cues = append(d.Cues, ttml.Cue{Begin: ttml.Ms(int64(1000 * (i + 1))), End: ttml.Ms(int64(1000 * (i + 2))), Lines: []ttml.Line{{{Text: "x"}}}})
				}
				m := Case{Doc: d, Render: ttml.DefaultRender(d), Dir: "missing"}
				if which&1 != 0 {
					m.Render.OmitBegin = k
				}
				if which&2 != 0 {
					m.Render.OmitEnd = k
				}
				fs, out := CheckMissing(m)
				c.Record("missing", out, core.Hash64("m", fmt.Sprint(ncues, which, k)), nil)
				for _, f := range fs {
					m.Key = f.Key
					c.Violate("missing", f.Key, f.Msg, m, len(m.Doc.Bytes(m.Render)))
				}
			}
		}
	}
	c.ExtraMax["deviation_bound"] = float64(bound)
	c.ExtraMax["time_sweep_ms"] = float64(nms)
	c.ExtraMax["time_sweep_frames_ticks"] = float64(nfr)
}

func replay(sub string, raw json.RawMessage) (string, bool) {
	var cs Case
	if err := json.Unmarshal(raw, &cs); err != nil {
		return err.Error(), false
	}
	var fs []Finding
	switch cs.Dir {
	case "write":
		fs, _ = CheckWrite(cs.Doc, cs.WIndent)
	case "missing":
		fs, _ = CheckMissing(cs)
	default:
		fs, _ = CheckRead(cs)
	}
	var s, other []string
	for _, f := range fs {
		if cs.Key == "" || f.Key == cs.Key {
			s = append(s, "["+f.Key+"] "+f.Msg)
		} else {
			other = append(other, f.Key)
		}
	}
	if len(s) == 0 {
		if len(other) > 0 {
			return "no " + cs.Key + " any more (the case still shows " + strings.Join(other, ", ") + ")", false
		}
		return "no difference", false
	}
	return strings.Join(s, "\n"), true
}

func init() {
	core.Register(&core.Prop{
		ID: "C03", Level: "exploration",
		Rule: "a case = (ground-truth TTML model, rendering choices) chosen by the E1 explorer. Model: title, copyright, xml:lang, frameRate, tickRate, styles with parent links over every forest on <=3 nodes, regions with optional style reference, xml:id values from 8 id schemes (the eighth, with blanks inside as the SSA reader returns them, in the write direction only), cues (<p begin end>) with style/region references and inline tts:* attributes (24 attributes, 3-9 well-formed values each), lines of runs with style references and inline attributes. Rendering: each boundary in every TTML time-expression syntax that expresses the instant exactly (hh:mm:ss, .f/.ff/.fff, hh:mm:ss:ff, h, m, s, ms with up to nine fraction digits, f, t, fractional f and t counts) and in every lexical variant of it (extra leading zero in hours / count / frames field, superfluous fraction digits, nine-digit fraction), <br/> between spans / inside the preceding or following span / shared span / first / last / doubled, bare character data vs <span>, indentation and layout, 4 namespace prefix variants, 4 <br/> forms, 6 escaping forms (entities, decimal / hexadecimal references, CDATA whole / first character / split at ]]>), XML declaration forms and byte order mark, attribute order, comments, attributes and elements without denotation (xml:space, ttm:role, ttp:timeBase, ttm:desc), empty metadata / styling / layout containers. Enumeration: exhaustive time sweep, core products (lines, references, attributes, attribute values x carrier, time lexical forms, metadata x language tags, texts x escaping, document syntax, id schemes x references, bulk documents up to 1000 cues) and every case within B deviations of the baseline over all choice points. Read: ReadFromTTML(render(model)) must denote the model (instants exact; frames/ticks floor or nearest ns; tts:zIndex as an integer; language tags case-insensitively). Write: WriteToTTML(model) with each indent option must denote the model to the library reader and to an independent encoding/xml token-walk decoder. Non-trivial = non-baseline case, distinct by (model, rendering)",
		Scope: map[core.Tier]string{
			core.Quick:    "time sweep (every ms of [0,3 s), every frame and tick count in [0,1000) + tables up to 1000 h, 15 (frameRate, tickRate) pairs incl. 50/60/120/1000 fps, all exact syntaxes) + lines core (11 line shapes x 2 texts x plain/attr x bare/span x br placement x 2 indents x layout x 2 br forms x 2 prefix variants) + refs core (21 forests x <=2 regions x all style/region references) + attrs core (8 attribute subsets on style, region, p, span x 3 namespace variants) + values core (24 attributes x all 126 values x 4 carriers x 3 prefix variants x quote x attribute order) + lex core (12 rate pairs x 26-60 boundary instants incl. sub-millisecond, 100/1000 frames, ticks past 2^53/10^9, fractional counts x every exact syntax x 2-4 lexical variants x begin/end) + meta core (8 titles x 4 copyrights x 24 language tags x 4 escaping forms x empty-element form) + text core (33 texts x 6 escaping forms x xml:space absent/preserve/default x 3 layouts x bare/span) + syntax core (declaration/BOM x 4 prefix variants x attribute order x comments x decoys x 4 br forms x empty containers x quote x indent x bare) + ids core (8 id schemes x 4 forests x all references) + bulk core (13/100/257/1000 cues x 20 styles x 12 regions) + deviation ball B=2 (<=2 cues; 24 attributes with a value choice below each, 33 texts, 24 language tags, 7 frame rates, 5 tick rates, 29-40 instants, all rendering freedoms)",
			core.Thorough: "time sweep over [0,20 s) and frame/tick counts [0,10000) + larger cores (4 indents, 3 br forms, 4 write indents) + deviation ball B=3 (<=3 cues)",
		},
		Assumptions: []string{"Go toolchain and standard library (encoding/xml is used generically by the independent decoder)", "independent reference codec engine/ref/ttml",
			"outside the denotation (the format or the property sentence does not carry them): nested spans, raw newlines in character data, white-space-only character data between spans, leading XML white space (space, tab, CR, LF) of bare text at the start of a paragraph or on an indented line, dur=, clock-time fractions of more than 3 digits, f/t metrics without a frame/tick rate, ttp:frameRateMultiplier / subFrameRate / dropMode (not supported by the library), tts:zIndex=auto (the library's model is an int), several ids in one style attribute (the library's model is one style), the same xml:id on a style and a region (xml:id values are unique), region on div/body/span, xml:lang values outside the five mapped languages (not compared), Metadata.Framerate, sub-millisecond instants and line terminators inside a run in the write direction"},
		Plain: run, Replay: replay,
	})
}
