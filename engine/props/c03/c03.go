// Package c03: TTML codec fidelity (E1 exploration over a ground-truth model x renderings).
package c03

import (
	"bytes"
	"encoding/json"
	"fmt"
	"sort"
	"strconv"
	"strings"
	"time"
	"unicode"

	astisub "github.com/asticode/go-astisub"

	"verif/core"
	"verif/explore"
	"verif/ref/ttml"
)

// ---------- case ----------

type Case struct {
	Doc     ttml.Doc    `json:"doc"`
	Render  ttml.Render `json:"render"`
	WIndent int         `json:"windent"` // write direction: 0 no option (library default), 1 "", 2 "\t", 3 two spaces
	Dir     string      `json:"dir"`
	Key     string      `json:"key,omitempty"` // the classification this case was recorded under (replay looks for it)

	renderDev int // number of non-default READ rendering choices (the write check runs only when 0)
}

var windents = []string{"<default>", "", "\t", "  "}

// ---------- option tables ----------

func a(nv ...string) []ttml.Attr {
	var o []ttml.Attr
	for i := 0; i+1 < len(nv); i += 2 {
		o = append(o, ttml.Attr{Name: nv[i], Value: nv[i+1]})
	}
	return o
}

var attrValues = map[string]string{"backgroundColor": "black", "color": "red", "direction": "rtl", "display": "none", "displayAlign": "after",
	"extent": "80% 10%", "fontFamily": "sansSerif", "fontSize": "150%", "fontStyle": "italic", "fontWeight": "bold", "lineHeight": "125%",
	"opacity": "0.5", "origin": "10% 80%", "overflow": "visible", "padding": "1px 2px", "showBackground": "whenActive", "textAlign": "center",
	"textDecoration": "underline", "textOutline": "black 1px", "unicodeBidi": "embed", "visibility": "hidden", "wrapOption": "noWrap",
	"writingMode": "tbrl", "zIndex": "5"}

// every attribute alone, then a value that needs escaping, then two combinations
func ballAttrs() [][]ttml.Attr {
	o := [][]ttml.Attr{nil}
	for _, n := range ttml.AttrNames {
		o = append(o, a(n, attrValues[n]))
	}
	o = append(o, a("fontFamily", `a&b <c> "d" 'e'`), a("color", "red", "textAlign", "center"), a("origin", "10% 80%", "extent", "80% 10%", "writingMode", "tbrl", "zIndex", "-1"),
		a("zIndex", "0")) // an explicit zero is a value, not an absence
	return o
}

// every subset of three representative attribute groups
func coreAttrs() [][]ttml.Attr {
	var o [][]ttml.Attr
	for m := 0; m < 8; m++ {
		var s []ttml.Attr
		if m&1 != 0 {
			s = append(s, a("color", "red")...)
		}
		if m&2 != 0 {
			s = append(s, a("textAlign", "center")...)
		}
		if m&4 != 0 {
			s = append(s, a("origin", "10% 80%", "extent", "80% 10%")...)
		}
		o = append(o, s)
	}
	return o
}

// every forest on <= 3 nodes in a fixed document order: parent index per node, -1 = root
func allForests() [][]int {
	o := [][]int{{}}
	for n := 1; n <= 3; n++ {
		var rec func(p []int)
		rec = func(p []int) {
			if len(p) == n {
				// acyclic?
				for i := range p {
					seen := 0
					for j := i; j >= 0; j = p[j] {
						seen++
						if seen > n {
							return
						}
					}
				}
				o = append(o, append([]int{}, p...))
				return
			}
			for v := -1; v < n; v++ {
				if v != len(p) {
					rec(append(p, v))
				}
			}
		}
		rec(nil)
	}
	return o
}

var allTexts = []string{"x", "a b", " lead", "trail ", "7", "&", "<", "a<b", "&amp;", "a\u00a0b", "\u00e9", "e\u0301", "\U0001F600", "a\tb", "]]>", "\ufffc", "a>b", `"q"`, "it's", " ", "  two  ", "\u00a0", "\u00a0x", "\u3000x"}

var allShapes = [][]int{{1}, {1, 1}, {2}, {0, 1}, {1, 0}, {1, 0, 1}, {1, 1, 1}, {2, 2}, {1, 2}, {2, 1}, {0}}

var startsMs = []int64{1000, 0, 1, 999, 1001, 1500, 2000, 59999, 60000, 3599999, 3600000, 3661001, 35999999, 36000000, 86399999, 359999999, 360000000}

type profile struct {
	titles, copyrights, langs []string
	frameRates, tickRates     []int
	forests                   [][]int
	styleAttrs, regionAttrs   [][]ttml.Attr
	cueAttrs, runAttrs        [][]ttml.Attr
	nregions                  []int
	refs                      bool
	forceRefs                 bool // attrs core: everything references everything
	ncues                     []int
	starts                    []int64
	rateInst                  bool // add frame-/tick-based instants when the document has the rate
	ends                      []int
	shapes                    [][]int
	texts                     []string
	windents                  int
	// rendering
	ns, indents, brForms []int
	inline, misc         bool
	syntaxes, bare       bool
	brPlace              bool
}

func ballProfile(thorough bool) *profile {
	p := &profile{
		titles: []string{"", "Title test", "a & b <c>"}, copyrights: []string{"", "Copyright test", "© & co"},
		langs:      []string{"", "en", "fr", "fr-FR", "ja", "no", "zh", "de", "zh-Hans"},
		frameRates: []int{0, 24, 25, 30, 120}, tickRates: []int{0, 1, 90000, 10000000},
		forests: allForests(), styleAttrs: ballAttrs(), regionAttrs: ballAttrs(), cueAttrs: ballAttrs(), runAttrs: ballAttrs(),
		nregions: []int{0, 1, 2}, refs: true, ncues: []int{1, 0, 2}, starts: startsMs, rateInst: true, ends: []int{0, 1, 2, 3, 4, 5},
		shapes: allShapes, texts: allTexts, windents: 4,
		ns: []int{0, 1, 2}, indents: []int{0, 1, 2, 3, 4}, brForms: []int{0, 1, 2}, inline: true, misc: true, syntaxes: true, bare: true, brPlace: true,
	}
	if thorough {
		p.ncues = []int{1, 0, 2, 3}
	}
	return p
}

func one[T any](v T) []T { return []T{v} }

func baseProfile() *profile {
	return &profile{titles: one(""), copyrights: one(""), langs: one(""), frameRates: one(0), tickRates: one(0), forests: [][]int{{}},
		styleAttrs: [][]ttml.Attr{nil}, regionAttrs: [][]ttml.Attr{nil}, cueAttrs: [][]ttml.Attr{nil}, runAttrs: [][]ttml.Attr{nil},
		nregions: one(0), ncues: one(1), starts: one(int64(1000)), ends: one(0), shapes: [][]int{{1}}, texts: one("x"), windents: 1,
		ns: one(0), indents: one(0), brForms: one(0)}
}

// lines core: every shape x run form x <br/> placement x layout
func linesProfile(thorough bool) *profile {
	p := baseProfile()
	p.shapes = allShapes
	p.texts = []string{"x", " y "}
	p.runAttrs = [][]ttml.Attr{nil, a("color", "red")}
	p.bare, p.brPlace = true, true
	p.indents = []int{0, 1}
	p.inline = true
	p.brForms = []int{0, 1}
	p.ns = []int{0, 1}
	p.windents = 4
	if thorough {
		p.indents = []int{0, 1, 3, 4}
		p.brForms = []int{0, 1, 2}
	}
	return p
}

// linerefs core: every line shape and <br/> placement with every paragraph, span and region REFERENCING a style/region
// (a reference must survive on every piece a <br/> cuts a span into)
func lineRefsProfile() *profile {
	p := linesProfile(false)
	p.forests = [][]int{{-1}}
	p.nregions = one(1)
	p.forceRefs = true
	p.texts = []string{"x"}
	p.indents = []int{0, 1}
	p.brForms = []int{0}
	p.ns = []int{0}
	p.windents = 1
	return p
}

// refs core: every forest x regions with style references x cue/run references
func refsProfile(thorough bool) *profile {
	p := baseProfile()
	p.forests = allForests()
	p.nregions = []int{0, 1, 2}
	p.refs = true
	p.windents = 1
	if thorough {
		p.shapes = [][]int{{1}, {2}}
		p.windents = 4
	}
	return p
}

// attrs core: every subset of three representative attribute groups on style, region, p and span
func attrsProfile(thorough bool) *profile {
	p := baseProfile()
	p.forests = [][]int{{-1}}
	p.nregions = one(1)
	p.forceRefs = true
	p.styleAttrs, p.regionAttrs, p.cueAttrs, p.runAttrs = coreAttrs(), coreAttrs(), coreAttrs(), coreAttrs()
	p.ns = []int{0, 1, 2}
	if thorough {
		p.windents = 4
		p.indents = []int{0, 2}
	}
	return p
}

type instKey struct {
	i      ttml.Inst
	fr, tr int
}

var synCache = map[instKey][]ttml.Syntax{}

func syntaxes(i ttml.Inst, fr, tr int) []ttml.Syntax {
	k := instKey{i, fr, tr}
	if s, ok := synCache[k]; ok {
		return s
	}
	s := ttml.Syntaxes(i, fr, tr)
	synCache[k] = s
	return s
}

var startCache = map[[2]int][]ttml.Inst{}

func startInstants(p *profile, fr, tr int) []ttml.Inst {
	if !p.rateInst || len(p.starts) == 1 {
		o := make([]ttml.Inst, len(p.starts))
		for i, ms := range p.starts {
			o[i] = ttml.Ms(ms)
		}
		return o
	}
	k := [2]int{fr, tr}
	if o, ok := startCache[k]; ok {
		return o
	}
	var o []ttml.Inst
	for _, ms := range p.starts {
		o = append(o, ttml.Ms(ms))
	}
	if fr > 0 {
		o = append(o, ttml.Frames(1, fr), ttml.Frames(int64(fr)+1, fr), ttml.Frames(int64(fr)*3661+int64(fr)-1, fr))
	}
	if tr > 0 {
		o = append(o, ttml.Ticks(1, tr), ttml.Ticks(int64(tr)+1, tr), ttml.Ticks(int64(tr)*3661+3, tr))
	}
	startCache[k] = o
	return o
}

func gen(x *explore.C, p *profile) Case {
	var d ttml.Doc
	d.Title = explore.Pick(x, "title", p.titles...)
	d.Copyright = explore.Pick(x, "copyright", p.copyrights...)
	d.Lang = explore.Pick(x, "lang", p.langs...)
	d.FrameRate = explore.Pick(x, "frameRate", p.frameRates...)
	d.TickRate = explore.Pick(x, "tickRate", p.tickRates...)
	forest := explore.Pick(x, "forest", p.forests...)
	for i, par := range forest {
		s := ttml.Style{ID: "s" + strconv.Itoa(i)}
		if par >= 0 {
			s.Parent = "s" + strconv.Itoa(par)
		}
		s.Attrs = explore.Pick(x, "style.attrs", p.styleAttrs...)
		d.Styles = append(d.Styles, s)
	}
	styleRef := func(site string) string {
		if p.forceRefs {
			return d.Styles[0].ID
		}
		if !p.refs || len(d.Styles) == 0 {
			return ""
		}
		if v := x.Choose(site, 1+len(d.Styles)); v > 0 {
			return d.Styles[v-1].ID
		}
		return ""
	}
	nreg := explore.Pick(x, "nregions", p.nregions...)
	for i := 0; i < nreg; i++ {
		g := ttml.Region{ID: "r" + strconv.Itoa(i)}
		g.Style = styleRef("region.style")
		g.Attrs = explore.Pick(x, "region.attrs", p.regionAttrs...)
		d.Regions = append(d.Regions, g)
	}
	n := explore.Pick(x, "ncues", p.ncues...)
	starts := startInstants(p, d.FrameRate, d.TickRate)
	for k := 0; k < n; k++ {
		var c ttml.Cue
		c.Begin = explore.Pick(x, "begin", starts...)
		var ends []int
		for _, e := range p.ends {
			if (e == 4 && d.FrameRate == 0) || (e == 5 && d.TickRate == 0) {
				continue
			}
			ends = append(ends, e)
		}
		switch explore.Pick(x, "end", ends...) {
		case 0:
			c.End = c.Begin.AddMs(1000)
		case 1:
			c.End = c.Begin
		case 2:
			c.End = c.Begin.AddMs(1)
		case 3:
			c.End = c.Begin.AddMs(500)
		case 4:
			c.End = c.Begin.Add(ttml.Frames(1, d.FrameRate))
		case 5:
			c.End = c.Begin.Add(ttml.Ticks(1, d.TickRate))
		}
		if len(syntaxes(c.End, d.FrameRate, d.TickRate)) == 0 {
			c.End = c.Begin.AddMs(1000) // a frame-based begin plus a tick (or the reverse) may be inexpressible in every syntax
		}
		c.Style = styleRef("cue.style")
		if p.forceRefs {
			c.Region = d.Regions[0].ID
		} else if p.refs && nreg > 0 {
			if v := x.Choose("cue.region", 1+nreg); v > 0 {
				c.Region = d.Regions[v-1].ID
			}
		}
		c.Attrs = explore.Pick(x, "cue.attrs", p.cueAttrs...)
		shape := explore.Pick(x, "shape", p.shapes...)
		for _, nr := range shape {
			line := ttml.Line{}
			for r := 0; r < nr; r++ {
				run := ttml.Run{Text: explore.Pick(x, "text", p.texts...)}
				run.Style = styleRef("run.style")
				run.Attrs = explore.Pick(x, "run.attrs", p.runAttrs...)
				line = append(line, run)
			}
			c.Lines = append(c.Lines, line)
		}
		d.Cues = append(d.Cues, c)
	}
	cs := Case{Doc: d}
	cs.WIndent = x.Choose("write.indent", p.windents)
	mark := len(x.Trace)
	r := ttml.Render{}
	r.NS = explore.Pick(x, "ns", p.ns...)
	r.Indent = explore.Pick(x, "indent", p.indents...)
	if p.inline && r.Indent != 0 {
		r.Inline = x.Bool("inline")
	}
	r.BrForm = explore.Pick(x, "brForm", p.brForms...)
	if p.misc {
		r.XMLDecl = x.Bool("xmlDecl")
		r.OpenClose = x.Bool("openClose")
		r.Divs = x.Bool("divs")
		r.PID = x.Bool("pid")
		r.TextEsc = x.Choose("textEsc", 3)
		r.Apos = x.Bool("apos")
	}
	for _, c := range d.Cues {
		bs := syntaxes(c.Begin, d.FrameRate, d.TickRate)
		es := syntaxes(c.End, d.FrameRate, d.TickRate)
		if p.syntaxes {
			r.Begin = append(r.Begin, explore.Pick(x, "begin.syntax", bs...))
			r.End = append(r.End, explore.Pick(x, "end.syntax", es...))
		} else {
			r.Begin = append(r.Begin, bs[0])
			r.End = append(r.End, es[0])
		}
		bare := make([][]bool, len(c.Lines))
		first := true
		for li, l := range c.Lines {
			bare[li] = make([]bool, len(l))
			for ri, run := range l {
				if p.bare && ttml.BareOK(run, r, first) {
					bare[li][ri] = x.Bool("bare")
				}
				first = false
			}
		}
		r.Bare = append(r.Bare, bare)
		nb := len(c.Lines) - 1
		if nb < 0 {
			nb = 0
		}
		bp := make([]int, nb)
		if p.brPlace {
			for b := 0; b < nb; b++ {
				// offer only the placements that exist here: a span before / after the break run, equal styles around a single break
				opts := []int{0}
				if prev := lastRun(c.Lines[:b+1], bare); prev != nil {
					opts = append(opts, 1)
				}
				if next := firstRun(c.Lines[b+1:], bare[b+1:]); next != nil {
					opts = append(opts, 2)
				}
				if len(c.Lines[b]) > 0 && len(c.Lines[b+1]) > 0 {
					pr, nx := c.Lines[b][len(c.Lines[b])-1], c.Lines[b+1][0]
					if !bare[b][len(c.Lines[b])-1] && !bare[b+1][0] && pr.Style == nx.Style && ttml.CanonAttrs(pr.Attrs) == ttml.CanonAttrs(nx.Attrs) {
						opts = append(opts, 3)
					}
				}
				bp[b] = explore.Pick(x, "brPlace", opts...)
			}
		}
		r.BrPlace = append(r.BrPlace, bp)
	}
	cs.Render = r
	cs.renderDev = explore.Deviations(x.Trace[mark:])
	return cs
}

// lastRun returns the last run of the lines when it is rendered as a span (nil if there is none or it is bare).
func lastRun(lines []ttml.Line, bare [][]bool) *ttml.Run {
	for li := len(lines) - 1; li >= 0; li-- {
		if n := len(lines[li]); n > 0 {
			if bare[li][n-1] {
				return nil
			}
			return &lines[li][n-1]
		}
	}
	return nil
}

func firstRun(lines []ttml.Line, bare [][]bool) *ttml.Run {
	for li := range lines {
		if len(lines[li]) > 0 {
			if bare[li][0] {
				return nil
			}
			return &lines[li][0]
		}
	}
	return nil
}

// ---------- time sweep ----------

var sweepRates = [][2]int{{0, 0}, {25, 0}, {24, 0}, {30, 0}, {120, 0}, {60, 0}, {1, 0}, {1000, 0}, {0, 1}, {0, 1000}, {0, 90000}, {0, 10000000}, {25, 90000}, {30, 1}}
var sweepMsExtra = []int64{59999, 60000, 3599999, 3600000, 86399999, 359999999, 360000000, 1234567, 36000000, 4102}

func genTimes(x *explore.C, nms, nfr int) Case {
	rp := explore.Pick(x, "rates", sweepRates...)
	fr, tr := rp[0], rp[1]
	kinds := []int{0}
	if fr > 0 {
		kinds = append(kinds, 1)
	}
	if tr > 0 {
		kinds = append(kinds, 2)
	}
	var inst ttml.Inst
	switch explore.Pick(x, "kind", kinds...) {
	case 0:
		k := x.Choose("ms", nms+len(sweepMsExtra))
		if k < nms {
			inst = ttml.Ms(int64(k))
		} else {
			inst = ttml.Ms(sweepMsExtra[k-nms])
		}
	case 1:
		extra := []int64{int64(3600 * fr), int64(3600*fr + fr - 1), int64(360000*fr - 1)}
		k := x.Choose("frames", nfr+len(extra))
		if k < nfr {
			inst = ttml.Frames(int64(k), fr)
		} else {
			inst = ttml.Frames(extra[k-nfr], fr)
		}
	case 2:
		t := int64(tr)
		extra := []int64{t - 1, t, t + 1, 3 * t / 2, 2*t + 1, 60 * t, 3600 * t, 3600*t + 1, 86399*t + t/2, 123456789}
		k := x.Choose("ticks", nfr+len(extra))
		if k < nfr {
			inst = ttml.Ticks(int64(k), tr)
		} else {
			inst = ttml.Ticks(extra[k-nfr], tr)
		}
	}
	syn := explore.Pick(x, "syntax", syntaxes(inst, fr, tr)...)
	d := ttml.Doc{FrameRate: fr, TickRate: tr, Cues: []ttml.Cue{{Begin: inst, End: inst, Lines: []ttml.Line{{{Text: "x"}}}}}}
	r := ttml.DefaultRender(d)
	r.Begin[0], r.End[0] = syn, syn
	return Case{Doc: d, Render: r, renderDev: 1}
}

// ---------- library value <-> model ----------

func attrsOf(s *astisub.StyleAttributes) []ttml.Attr {
	if s == nil {
		return nil
	}
	var o []ttml.Attr
	add := func(n string, v *string) {
		if v != nil {
			o = append(o, ttml.Attr{Name: n, Value: *v})
		}
	}
	add("backgroundColor", s.TTMLBackgroundColor)
	add("color", s.TTMLColor)
	add("direction", s.TTMLDirection)
	add("display", s.TTMLDisplay)
	add("displayAlign", s.TTMLDisplayAlign)
	add("extent", s.TTMLExtent)
	add("fontFamily", s.TTMLFontFamily)
	add("fontSize", s.TTMLFontSize)
	add("fontStyle", s.TTMLFontStyle)
	add("fontWeight", s.TTMLFontWeight)
	add("lineHeight", s.TTMLLineHeight)
	add("opacity", s.TTMLOpacity)
	add("origin", s.TTMLOrigin)
	add("overflow", s.TTMLOverflow)
	add("padding", s.TTMLPadding)
	add("showBackground", s.TTMLShowBackground)
	add("textAlign", s.TTMLTextAlign)
	add("textDecoration", s.TTMLTextDecoration)
	add("textOutline", s.TTMLTextOutline)
	add("unicodeBidi", s.TTMLUnicodeBidi)
	add("visibility", s.TTMLVisibility)
	add("wrapOption", s.TTMLWrapOption)
	add("writingMode", s.TTMLWritingMode)
	if s.TTMLZIndex != nil {
		o = append(o, ttml.Attr{Name: "zIndex", Value: strconv.Itoa(*s.TTMLZIndex)})
	}
	return o
}

func toSA(at []ttml.Attr) *astisub.StyleAttributes {
	if len(at) == 0 {
		return nil
	}
	s := &astisub.StyleAttributes{}
	for _, x := range at {
		v := x.Value
		switch x.Name {
		case "backgroundColor":
			s.TTMLBackgroundColor = &v
		case "color":
			s.TTMLColor = &v
		case "direction":
			s.TTMLDirection = &v
		case "display":
			s.TTMLDisplay = &v
		case "displayAlign":
			s.TTMLDisplayAlign = &v
		case "extent":
			s.TTMLExtent = &v
		case "fontFamily":
			s.TTMLFontFamily = &v
		case "fontSize":
			s.TTMLFontSize = &v
		case "fontStyle":
			s.TTMLFontStyle = &v
		case "fontWeight":
			s.TTMLFontWeight = &v
		case "lineHeight":
			s.TTMLLineHeight = &v
		case "opacity":
			s.TTMLOpacity = &v
		case "origin":
			s.TTMLOrigin = &v
		case "overflow":
			s.TTMLOverflow = &v
		case "padding":
			s.TTMLPadding = &v
		case "showBackground":
			s.TTMLShowBackground = &v
		case "textAlign":
			s.TTMLTextAlign = &v
		case "textDecoration":
			s.TTMLTextDecoration = &v
		case "textOutline":
			s.TTMLTextOutline = &v
		case "unicodeBidi":
			s.TTMLUnicodeBidi = &v
		case "visibility":
			s.TTMLVisibility = &v
		case "wrapOption":
			s.TTMLWrapOption = &v
		case "writingMode":
			s.TTMLWritingMode = &v
		case "zIndex":
			n, _ := strconv.Atoi(v)
			s.TTMLZIndex = &n
		}
	}
	return s
}

var langNames = map[string]string{astisub.LanguageEnglish: "en", astisub.LanguageFrench: "fr", astisub.LanguageJapanese: "ja", astisub.LanguageNorwegian: "no", astisub.LanguageChinese: "zh"}

// FromSubs extracts the TTML denotation from a library value. odd reports structural damage
// (map key differs from the object's ID, reference to an object that is not the one in the table).
func FromSubs(s *astisub.Subtitles) (ttml.Den, string) {
	o := ttml.Den{Styles: map[string]ttml.HeadEl{}, Regions: map[string]ttml.HeadEl{}}
	odd := ""
	if s.Metadata != nil {
		o.Title, o.Copyright = s.Metadata.Title, s.Metadata.TTMLCopyright
		if s.Metadata.Language != "" {
			if t, ok := langNames[s.Metadata.Language]; ok {
				o.Lang = t
			} else {
				o.Lang = "?" + s.Metadata.Language
			}
		}
	}
	styleID := func(st *astisub.Style, from string) string {
		if st == nil {
			return ""
		}
		if s.Styles[st.ID] != st {
			odd = fmt.Sprintf("%s points to a style %q that is not the object in the style table", from, st.ID)
		}
		return st.ID
	}
	for id, st := range s.Styles {
		if st == nil || st.ID != id {
			odd = fmt.Sprintf("style table key %q holds a style with another id", id)
			continue
		}
		o.Styles[id] = ttml.HeadEl{Ref: styleID(st.Style, "style "+id), Attrs: ttml.CanonAttrs(attrsOf(st.InlineStyle))}
	}
	for id, g := range s.Regions {
		if g == nil || g.ID != id {
			odd = fmt.Sprintf("region table key %q holds a region with another id", id)
			continue
		}
		o.Regions[id] = ttml.HeadEl{Ref: styleID(g.Style, "region "+id), Attrs: ttml.CanonAttrs(attrsOf(g.InlineStyle))}
	}
	for _, it := range s.Items {
		c := ttml.DenCue{Begin: ttml.Inst{Num: int64(it.StartAt), Den: 1}, End: ttml.Inst{Num: int64(it.EndAt), Den: 1}, Attrs: ttml.CanonAttrs(attrsOf(it.InlineStyle))}
		c.Style = styleID(it.Style, "cue")
		if it.Region != nil {
			c.Region = it.Region.ID
			if s.Regions[it.Region.ID] != it.Region {
				odd = fmt.Sprintf("cue points to a region %q that is not the object in the region table", it.Region.ID)
			}
		}
		for _, l := range it.Lines {
			var line ttml.Line
			for _, li := range l.Items {
				line = append(line, ttml.Run{Text: li.Text, Style: styleID(li.Style, "run"), Attrs: attrsOf(li.InlineStyle)})
			}
			c.Lines = append(c.Lines, ttml.CanonLine(line))
		}
		if len(c.Lines) == 0 {
			c.Lines = []string{""}
		}
		o.Cues = append(o.Cues, c)
	}
	return o, odd
}

var langConst = map[string]string{"en": astisub.LanguageEnglish, "fr": astisub.LanguageFrench, "ja": astisub.LanguageJapanese, "no": astisub.LanguageNorwegian, "zh": astisub.LanguageChinese}

// ToSubs builds a library value from a model document using public types only.
func ToSubs(d ttml.Doc) *astisub.Subtitles {
	s := astisub.NewSubtitles()
	if d.Title != "" || d.Copyright != "" || d.Lang != "" {
		s.Metadata = &astisub.Metadata{Title: d.Title, TTMLCopyright: d.Copyright, Language: langConst[d.Lang]}
	}
	for _, st := range d.Styles {
		s.Styles[st.ID] = &astisub.Style{ID: st.ID, InlineStyle: toSA(st.Attrs)}
	}
	for _, st := range d.Styles {
		if st.Parent != "" {
			s.Styles[st.ID].Style = s.Styles[st.Parent]
		}
	}
	for _, g := range d.Regions {
		r := &astisub.Region{ID: g.ID, InlineStyle: toSA(g.Attrs)}
		if g.Style != "" {
			r.Style = s.Styles[g.Style]
		}
		s.Regions[g.ID] = r
	}
	for _, c := range d.Cues {
		it := &astisub.Item{StartAt: time.Duration(c.Begin.Num), EndAt: time.Duration(c.End.Num), InlineStyle: toSA(c.Attrs)}
		if c.Style != "" {
			it.Style = s.Styles[c.Style]
		}
		if c.Region != "" {
			it.Region = s.Regions[c.Region]
		}
		for _, l := range c.Lines {
			ln := astisub.Line{}
			for _, r := range l {
				li := astisub.LineItem{Text: r.Text, InlineStyle: toSA(r.Attrs)}
				if r.Style != "" {
					li.Style = s.Styles[r.Style]
				}
				ln.Items = append(ln.Items, li)
			}
			it.Lines = append(it.Lines, ln)
		}
		s.Items = append(s.Items, it)
	}
	return s
}

func safeRead(b []byte) (s *astisub.Subtitles, err error, pan string) {
	defer func() {
		if e := recover(); e != nil {
			pan = fmt.Sprint(e)
		}
	}()
	s, err = astisub.ReadFromTTML(bytes.NewReader(b))
	return
}

// ---------- classification ----------

// Finding is one classified violation of a case.
type Finding struct{ Key, Msg string }

func boundary(cs Case, df ttml.Diff) (inst ttml.Inst, syn ttml.Syntax, got int64, ok bool) {
	k, err := strconv.Atoi(df.ID)
	if err != nil || k >= len(cs.Doc.Cues) || k >= len(cs.Render.Begin) {
		return
	}
	g := strings.TrimSuffix(df.Got, "ns")
	got, err = strconv.ParseInt(g, 10, 64)
	if err != nil {
		return
	}
	if df.Where == "cue.begin" {
		return cs.Doc.Cues[k].Begin, cs.Render.Begin[k], got, true
	}
	return cs.Doc.Cues[k].End, cs.Render.End[k], got, true
}

// classifyTime names the narrow defect behind one wrong boundary, "" if none of the known shapes.
func classifyTime(cs Case, df ttml.Diff) string {
	inst, syn, got, ok := boundary(cs, df)
	if !ok {
		return ""
	}
	exactWhole := inst.Den == 1
	switch syn {
	case ttml.Clock0:
		// "hh:mm:ss" taken as "hh:mm" (as minutes:seconds) plus ss frames
		sec := inst.Num / 1000000000
		hh, mm, ss := sec/3600, sec/60%60, sec%60
		pred := ttml.Ms((hh*60 + mm) * 1000)
		if cs.Doc.FrameRate > 0 {
			pred = pred.Add(ttml.Frames(ss, cs.Doc.FrameRate))
		}
		if pred.Accepts(got) {
			return "clock-time-without-fraction-read-as-frames"
		}
	case ttml.OffH, ttml.OffM, ttml.OffS, ttml.OffMs:
		if exactWhole && got == inst.Num-1 {
			return "decimal-offset-float-truncation"
		}
	case ttml.OffF, ttml.ClockFrames:
		if exactWhole && got == inst.Num-1 {
			return "frames-float-truncation"
		}
	case ttml.OffT:
		if exactWhole && got == inst.Num-1 {
			return "ticks-float-truncation"
		}
	}
	return ""
}

// sharedParentPattern: the style.parent differences are exactly "every child of a shared parent
// except the last-listed one lost its link".
func sharedParentPattern(d ttml.Doc, diffs []ttml.Diff) bool {
	children := map[string][]string{}
	for _, s := range d.Styles {
		if s.Parent != "" {
			children[s.Parent] = append(children[s.Parent], s.ID)
		}
	}
	want := map[string]bool{}
	for _, ch := range children {
		for _, id := range ch[:len(ch)-1] {
			want[id] = true
		}
	}
	n := 0
	for _, df := range diffs {
		if df.Where != "style.parent" {
			continue
		}
		n++
		if !want[df.ID] || df.Got != `""` {
			return false
		}
	}
	return n > 0 && n == len(want)
}

// nonXMLSpacePattern: the observed lines are the expected ones with the leading Unicode-but-not-XML
// white space (U+00A0, U+3000 ...) removed from bare runs that start a raw line of the paragraph.
func nonXMLSpacePattern(cs Case, df ttml.Diff) bool {
	k, err := strconv.Atoi(df.ID)
	if err != nil || k >= len(cs.Doc.Cues) || k >= len(cs.Render.Bare) {
		return false
	}
	c := cs.Doc.Cues[k]
	var lines []string
	first, hit := true, false
	for li, l := range c.Lines {
		var nl ttml.Line
		for ri, run := range l {
			if li < len(cs.Render.Bare[k]) && ri < len(cs.Render.Bare[k][li]) && cs.Render.Bare[k][li][ri] && ttml.BareOK(run, cs.Render, first) && ttml.StartsRawLine(cs.Render, first) {
				if t := strings.TrimLeftFunc(run.Text, unicode.IsSpace); t != run.Text {
					run.Text = t
					hit = true
				}
			}
			first = false
			nl = append(nl, run)
		}
		lines = append(lines, ttml.CanonLine(nl))
	}
	return hit && strings.Join(lines, " / ") == df.Got
}

// classify groups the differences of one case by narrow key; prefix is "ttml.read" or "ttml.write.self".
func classify(cs Case, diffs []ttml.Diff, prefix string) map[string][]ttml.Diff {
	out := map[string][]ttml.Diff{}
	shared := sharedParentPattern(cs.Doc, diffs)
	for _, df := range diffs {
		key := ""
		switch df.Where {
		case "cue.begin", "cue.end":
			if t := classifyTime(cs, df); t != "" {
				key = prefix + ".time." + t
			}
		case "style.parent":
			if shared {
				key = prefix + ".shared-parent-link-lost"
			}
		case "cue.lines":
			if nonXMLSpacePattern(cs, df) {
				key = prefix + ".non-xml-space-stripped-as-indentation"
			}
		}
		if key == "" {
			key = prefix + ".mismatch:" + df.Where
		}
		out[key] = append(out[key], df)
	}
	return out
}

func diffText(d []ttml.Diff) string {
	var s []string
	for _, x := range d {
		s = append(s, x.String())
	}
	return strings.Join(s, "; ")
}

func sortedKeys(m map[string][]ttml.Diff) []string {
	var ks []string
	for k := range m {
		ks = append(ks, k)
	}
	sort.Strings(ks)
	return ks
}

// ---------- checks ----------

// CheckRead: ReadFromTTML(render(model)) must denote the model.
func CheckRead(cs Case) (fs []Finding, outcome uint64) {
	b := cs.Doc.Bytes(cs.Render)
	want := cs.Doc.Denote()
	// harness self-check: the independent decoder must read the rendering back as the model
	if rd, err := ttml.Decode(b); err != nil {
		return []Finding{{"ttml.harness.refdecoder-rejects-rendering", fmt.Sprintf("HARNESS: independent decoder rejects %q: %v", b, err)}}, 0
	} else if df := ttml.Compare(want, rd.Denote()); len(df) > 0 {
		return []Finding{{"ttml.harness.refdecoder-vs-renderer", fmt.Sprintf("HARNESS: %q rendered from the model decodes differently: %s", b, diffText(df))}}, 0
	}
	s, err, pan := safeRead(b)
	if pan != "" {
		return []Finding{{"ttml.read.panic", fmt.Sprintf("ReadFromTTML panicked (%s) on %q", pan, b)}}, 0
	}
	if err != nil {
		return []Finding{{"ttml.read.error", fmt.Sprintf("ReadFromTTML failed (%v) on well-formed %q", err, b)}}, 0
	}
	got, odd := FromSubs(s)
	if odd != "" {
		return []Finding{{"ttml.read.structure", odd + fmt.Sprintf(" after reading %q", b)}}, 0
	}
	diffs := ttml.Compare(want, got)
	if len(diffs) > 0 {
		groups := classify(cs, diffs, "ttml.read")
		for _, k := range sortedKeys(groups) {
			fs = append(fs, Finding{k, fmt.Sprintf("document %q\n denotes  %s\n reader returned %s\n differences: %s", b, want, got, diffText(groups[k]))})
		}
		return fs, 0
	}
	return nil, core.Hash64(got.String())
}

// CheckMissing: a <p> lacking begin or end (outside the fidelity domain) must at least not panic.
func CheckMissing(cs Case) (fs []Finding, outcome uint64) {
	b := cs.Doc.Bytes(cs.Render)
	_, err, pan := safeRead(b)
	if pan != "" {
		return []Finding{{"ttml.read.panic.missing-begin-or-end", fmt.Sprintf("ReadFromTTML panicked (%s) on %q", pan, b)}}, 0
	}
	return nil, core.Hash64("missing", fmt.Sprint(err != nil))
}

// Representable: the write direction covers whole-millisecond instants (the writer's clock-time
// form has three fraction digits), the languages the library maps, and text without line terminators.
func Representable(d ttml.Doc) bool {
	if d.Lang != "" && langConst[d.Lang] == "" {
		return false
	}
	for _, c := range d.Cues {
		if !c.Begin.WholeMs() || !c.End.WholeMs() {
			return false
		}
		for _, l := range c.Lines {
			for _, r := range l {
				if strings.ContainsAny(r.Text, "\r\n") {
					return false
				}
			}
		}
	}
	return true
}

// CheckWrite: WriteToTTML(model) must denote the model to the library reader and to the independent decoder.
func CheckWrite(d ttml.Doc, windent int) (fs []Finding, outcome uint64) {
	s := ToSubs(d)
	var buf bytes.Buffer
	var err error
	pan := ""
	func() {
		defer func() {
			if e := recover(); e != nil {
				pan = fmt.Sprint(e)
			}
		}()
		if windent == 0 {
			err = s.WriteToTTML(&buf)
		} else {
			err = s.WriteToTTML(&buf, astisub.WriteToTTMLWithIndentOption(windents[windent]))
		}
	}()
	if pan != "" {
		return []Finding{{"ttml.write.panic", "WriteToTTML panicked: " + pan}}, 0
	}
	if len(d.Cues) == 0 {
		if err == nil {
			return []Finding{{"ttml.write.empty-no-error", "WriteToTTML of an empty list returned nil"}}, 0
		}
		return nil, core.Hash64("empty")
	}
	if err != nil {
		return []Finding{{"ttml.write.error", fmt.Sprintf("WriteToTTML failed: %v", err)}}, 0
	}
	want := d.Denote()
	out := buf.Bytes()
	wd := Case{Doc: d, Render: ttml.DefaultRender(d)}
	rd, e := ttml.Decode(out)
	if e != nil {
		fs = append(fs, Finding{"ttml.write.ref-decode", fmt.Sprintf("independent decoder rejects writer output (indent %q) %q: %v", windents[windent], out, e)})
	} else if df := ttml.Compare(want, rd.Denote()); len(df) > 0 {
		groups := classify(wd, df, "ttml.write.ref")
		for _, k := range sortedKeys(groups) {
			fs = append(fs, Finding{k, fmt.Sprintf("model %s\n written (indent %q) as %q\n independent decoder reads %s\n differences: %s", want, windents[windent], out, rd.Denote(), diffText(groups[k]))})
		}
	}
	s2, err2, pan2 := safeRead(out)
	if pan2 != "" || err2 != nil {
		fs = append(fs, Finding{"ttml.write.self-read-fails", fmt.Sprintf("library reader fails on writer output %q: %v %s", out, err2, pan2)})
		return fs, 0
	}
	got, odd := FromSubs(s2)
	if odd != "" {
		fs = append(fs, Finding{"ttml.write.self.structure", odd})
		return fs, 0
	}
	if df := ttml.Compare(want, got); len(df) > 0 {
		groups := classify(wd, df, "ttml.write.self")
		for _, k := range sortedKeys(groups) {
			fs = append(fs, Finding{k, fmt.Sprintf("model %s\n written (indent %q) as %q\n library reads back %s\n differences: %s", want, windents[windent], out, got, diffText(groups[k]))})
		}
	}
	if len(fs) > 0 {
		return fs, 0
	}
	return nil, core.Hash64(string(out))
}

// ---------- exploration ----------

func run(c *core.Ctx) {
	thorough := c.Tier == core.Thorough
	bound := 2
	nms, nfr := 3000, 1000
	if thorough {
		bound = 3
		nms, nfr = 20000, 10000
	}
	var cs Case
	visit := func(sub string) func(x *explore.C) bool {
		return func(x *explore.C) bool {
			cs := cs
			doRead := cs.WIndent == 0
			doWrite := cs.renderDev == 0 && Representable(cs.Doc)
			if !doRead && !doWrite {
				return true
			}
			if !c.Mine() {
				return true
			}
			dev := explore.Deviations(x.Trace)
			size := dev*100000 + len(cs.Doc.Bytes(cs.Render))
			if doRead {
				fs, out := CheckRead(cs)
				nt := uint64(0)
				if dev > 0 {
					b, _ := json.Marshal(cs)
					nt = core.Hash64("r", string(b))
				}
				cs.Dir = "read"
				c.Record(sub+".read", out, nt, func() interface{} {
					return map[string]interface{}{"choices": x.Trace, "bytes": string(cs.Doc.Bytes(cs.Render))}
				})
				for _, f := range fs {
					cs.Key = f.Key
					c.Violate("read", f.Key, f.Msg, cs, size)
				}
			}
			if doWrite {
				fs, out := CheckWrite(cs.Doc, cs.WIndent)
				b, _ := json.Marshal(cs.Doc)
				cs.Dir = "write"
				c.Record(sub+".write", out, core.Hash64("w", string(b), windents[cs.WIndent]), nil)
				for _, f := range fs {
					cs.Key = f.Key
					c.Violate("write", f.Key, f.Msg, cs, size)
				}
			}
			return c.Evals%4096 != 0 || !c.Expired()
		}
	}
	// (1) time sweep: every millisecond of [0, nms), every frame and tick count of [0, nfr) plus tables, under ten
	// (frameRate, tickRate) pairs, in every syntax that expresses the instant exactly
	explore.Explore(-1, func(x *explore.C) { cs = genTimes(x, nms, nfr) }, visit("times"))
	// (2) core products of tiny grammars
	lp, rp, ap := linesProfile(thorough), refsProfile(thorough), attrsProfile(thorough)
	explore.Explore(-1, func(x *explore.C) { cs = gen(x, lp) }, visit("lines"))
	explore.Explore(-1, func(x *explore.C) { cs = gen(x, rp) }, visit("refs"))
	lrp := lineRefsProfile()
	explore.Explore(-1, func(x *explore.C) { cs = gen(x, lrp) }, visit("linerefs"))
	explore.Explore(-1, func(x *explore.C) { cs = gen(x, ap) }, visit("attrs"))
	// (3) deviation ball around the baseline document over all model and rendering choice points
	bp := ballProfile(thorough)
	explore.Explore(bound, func(x *explore.C) { cs = gen(x, bp) }, visit("ball"))
	// (4) no-panic probe outside the fidelity domain: <p> lacking begin and/or end
	for ncues := 1; ncues <= 2; ncues++ {
		for which := 1; which <= 3; which++ {
			for k := 1; k <= ncues; k++ {
				if !c.Mine() {
					continue
				}
				d := ttml.Doc{}
				for i := 0; i < ncues; i++ {
					d.Cues = append(d.Cues, ttml.Cue{Begin: ttml.Ms(int64(1000 * (i + 1))), End: ttml.Ms(int64(1000 * (i + 2))), Lines: []ttml.Line{{{Text: "x"}}}})
				}
				m := Case{Doc: d, Render: ttml.DefaultRender(d), Dir: "missing"}
				if which&1 != 0 {
					m.Render.OmitBegin = k
				}
				if which&2 != 0 {
					m.Render.OmitEnd = k
				}
				fs, out := CheckMissing(m)
				c.Record("missing", out, core.Hash64("m", fmt.Sprint(ncues, which, k)), nil)
				for _, f := range fs {
					m.Key = f.Key
					c.Violate("missing", f.Key, f.Msg, m, len(m.Doc.Bytes(m.Render)))
				}
			}
		}
	}
	c.ExtraMax["deviation_bound"] = float64(bound)
	c.ExtraMax["time_sweep_ms"] = float64(nms)
	c.ExtraMax["time_sweep_frames_ticks"] = float64(nfr)
}

func replay(sub string, raw json.RawMessage) (string, bool) {
	var cs Case
	if err := json.Unmarshal(raw, &cs); err != nil {
		return err.Error(), false
	}
	var fs []Finding
	switch cs.Dir {
	case "write":
		fs, _ = CheckWrite(cs.Doc, cs.WIndent)
	case "missing":
		fs, _ = CheckMissing(cs)
	default:
		fs, _ = CheckRead(cs)
	}
	var s, other []string
	for _, f := range fs {
		if cs.Key == "" || f.Key == cs.Key {
			s = append(s, "["+f.Key+"] "+f.Msg)
		} else {
			other = append(other, f.Key)
		}
	}
	if len(s) == 0 {
		if len(other) > 0 {
			return "no " + cs.Key + " any more (the case still shows " + strings.Join(other, ", ") + ")", false
		}
		return "no difference", false
	}
	return strings.Join(s, "\n"), true
}

func init() {
	core.Register(&core.Prop{
		ID: "C03", Level: "exploration",
		Rule: "a case = (ground-truth TTML model, rendering choices) chosen by the E1 explorer. Model: title, copyright, xml:lang, frameRate, tickRate, styles with parent links over every forest on <=3 nodes, regions with optional style reference, cues (<p begin end>) with style/region references and inline tts:* attributes, lines of runs with style references and inline attributes. Rendering: each boundary in every TTML time-expression syntax that expresses the instant exactly (hh:mm:ss, .f/.ff/.fff, hh:mm:ss:ff, h, m, s, ms, f, t), <br/> between spans / inside the preceding or following span / shared span / first / last / doubled, bare character data vs <span>, indentation and layout, namespace prefix variants, <br/> form, escaping form. Enumeration: exhaustive time sweep, three core products (lines, references, attributes) and every case within B deviations of the baseline over all choice points. Read: ReadFromTTML(render(model)) must denote the model (instants exact; frames/ticks floor or nearest ns). Write: WriteToTTML(model) with each indent option must denote the model to the library reader and to an independent encoding/xml token-walk decoder. Non-trivial = non-baseline case, distinct by (model, rendering)",
		Scope: map[core.Tier]string{
			core.Quick:    "time sweep (every ms of [0,3 s), every frame and tick count in [0,1000) + tables, 14 (frameRate, tickRate) pairs incl. 60/120/1000 fps, all exact syntaxes) + lines core (11 line shapes x 2 texts x plain/attr x bare/span x br placement x 2 indents x layout x 2 br forms x 2 prefix variants) + refs core (21 forests x <=2 regions x all style/region references) + attrs core (8 attribute subsets on style, region, p, span x 3 namespace variants) + deviation ball B=2 (<=2 cues; 24 attributes, 22 texts, 9 languages, 5 frame rates, 4 tick rates, 17+ instants)",
			core.Thorough: "time sweep over [0,20 s) and frame/tick counts [0,10000) + larger cores (4 indents, 3 br forms, 4 write indents) + deviation ball B=3 (<=3 cues)",
		},
		Assumptions: []string{"Go toolchain and standard library (encoding/xml is used generically by the independent decoder)", "independent reference codec engine/ref/ttml",
			"outside the denotation (the format or the property sentence does not carry them): nested spans, raw newlines in character data, white-space-only character data between spans, leading XML white space (space, tab, CR, LF) of bare text at the start of a paragraph or on an indented line, dur=, fractions of more than 3 digits, f/t metrics without a frame/tick rate, xml:lang values outside the five mapped languages (not compared), Metadata.Framerate, sub-millisecond instants and line terminators inside a run in the write direction"},
		Plain: run, Replay: replay,
	})
}
