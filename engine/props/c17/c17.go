// Package c17: the parse result is a function of the byte sequence alone (delivery-schedule
// independence). The environment (io.Reader) is the explorer's: every Read is a choice point.
package c17

import (
	"bufio"
	"bytes"
	"encoding/json"
	"fmt"
	"io"
	"regexp"
	"strings"

	"verif/core"
	"verif/explore"
	"verif/props/corpus"
	"verif/props/dump"
)

// SchedReader delivers data according to explorer choices. Option 0 = deliver everything asked
// for; 1..full-1 = deliver exactly j bytes; full = (0,nil); full+1 = the last bytes together with io.EOF.
type SchedReader struct {
	Data  []byte
	Pos   int64
	X     *explore.C
	Reads int
	Pts   map[string]struct{}
}

func (r *SchedReader) Read(p []byte) (int, error) {
	if len(p) == 0 {
		return 0, nil
	}
	rem := int64(len(r.Data)) - r.Pos
	if rem <= 0 {
		return 0, io.EOF
	}
	full := int64(len(p))
	if rem < full {
		full = rem
	}
	n := int(full) + 1
	if full == rem {
		n++
	}
	r.Reads++
	if r.Pts != nil {
		r.Pts[fmt.Sprintf("%d/%d", r.Pos, len(p))] = struct{}{}
	}
	ch := r.X.Choose("read", n)
	switch {
	case ch == 0:
		copy(p, r.Data[r.Pos:r.Pos+full])
		r.Pos += full
		return int(full), nil
	case int64(ch) < full:
		copy(p, r.Data[r.Pos:r.Pos+int64(ch)])
		r.Pos += int64(ch)
		return ch, nil
	case int64(ch) == full:
		return 0, nil
	default:
		copy(p, r.Data[r.Pos:r.Pos+full])
		r.Pos += full
		return int(full), io.EOF
	}
}

func (r *SchedReader) Seek(off int64, whence int) (int64, error) {
	switch whence {
	case io.SeekStart:
		r.Pos = off
	case io.SeekCurrent:
		r.Pos += off
	case io.SeekEnd:
		r.Pos = int64(len(r.Data)) + off
	}
	if r.Pos < 0 {
		r.Pos = 0
		return 0, fmt.Errorf("negative seek")
	}
	return r.Pos, nil
}

// policyReader: fixed schedules.
type policyReader struct {
	data []byte
	pos  int64
	mode string
	k    int
	call int
}

func (r *policyReader) Read(p []byte) (int, error) {
	if len(p) == 0 {
		return 0, nil
	}
	rem := int64(len(r.data)) - r.pos
	if rem <= 0 {
		return 0, io.EOF
	}
	r.call++
	want := int64(len(p))
	switch r.mode {
	case "chunk":
		want = int64(r.k)
	case "halves":
		want = (rem + 1) / 2
	case "increasing":
		want = int64(r.call)
	case "zero-every-other":
		if r.call%2 == 1 {
			return 0, nil
		}
	}
	if want > int64(len(p)) {
		want = int64(len(p))
	}
	if want > rem {
		want = rem
	}
	if want < 1 {
		want = 1
	}
	copy(p, r.data[r.pos:r.pos+want])
	r.pos += want
	if r.mode == "data-with-eof" && r.pos == int64(len(r.data)) {
		return int(want), io.EOF
	}
	return int(want), nil
}

func (r *policyReader) Seek(off int64, whence int) (int64, error) {
	switch whence {
	case io.SeekStart:
		r.pos = off
	case io.SeekCurrent:
		r.pos += off
	case io.SeekEnd:
		r.pos = int64(len(r.data)) + off
	}
	return r.pos, nil
}

var padRe = regexp.MustCompile(`x{16,}`)

func outcome(format string, rd io.Reader) string {
	s, err, pan := corpus.Read(format, rd)
	if pan != "" {
		return "panic"
	}
	if err != nil {
		return "failed"
	}
	return padRe.ReplaceAllString(dump.Subs(s), "X")
}

type Case struct {
	Doc     string `json:"doc"`
	Format  string `json:"format"`
	Data    []byte `json:"data"`
	Choices []int  `json:"choices,omitempty"`
	Policy  string `json:"policy,omitempty"`
	K       int    `json:"k,omitempty"`
	Expect  string `json:"-"`
}

func classify(format string, data []byte, choices []int, want, got string) string {
	key := "sched." + format + ".differs"
	if got == "panic" {
		return "sched." + format + ".panic"
	}
	switch format {
	case "srt", "vtt", "ssa":
		// is a CR the last byte delivered by some read, with LF next?
		pos := 0
		r := &SchedReader{Data: data, X: nil}
		_ = r
		if crlfSplit(data, choices) {
			return "sched." + format + ".crlf-split"
		}
		_ = pos
	case "stl":
		if want != "failed" && got == "failed" {
			return "sched.stl.short-read-rejected"
		}
	case "ts":
		if want != "failed" && got == "failed" {
			return "sched.ts.short-first-read"
		}
	}
	return key
}

// crlfSplit: replays the choices over a 4096-byte-buffer reader model to see whether some delivery
// ended exactly between a CR and its LF. Conservative: looks at the first deviation only.
func crlfSplit(data []byte, choices []int) bool {
	pos := 0
	for _, ch := range choices {
		want := 4096
		if len(data)-pos < want {
			want = len(data) - pos
		}
		if ch == 0 {
			pos += want
			continue
		}
		if ch < want {
			pos += ch
			return pos > 0 && pos < len(data) && data[pos-1] == '\r' && data[pos] == '\n'
		}
		return false
	}
	return false
}

func largeDocs() []corpus.Doc {
	var out []corpus.Doc
	mk := func(format string, head, padLinePrefix, padLineSuffix, tail string, cue func(i int) string) {
		// the CR of the pad line's CRLF lands on offset B-1+delta
		for _, B := range []int{4096, 8192, 65536} {
			for delta := -2; delta <= 2; delta++ {
				var b strings.Builder
				b.WriteString(head)
				// filler cues up to ~B-600
				i := 0
				for b.Len() < B-700 {
					b.WriteString(cue(i))
					i++
				}
				b.WriteString(padLinePrefix)
				need := B - 1 + delta - b.Len() - len(padLineSuffix)
				if need < 16 {
					continue
				}
				b.WriteString(strings.Repeat("x", need))
				b.WriteString(padLineSuffix) // ends with text; CRLF follows
				b.WriteString("\r\n")
				b.WriteString(tail)
				for j := 0; j < 3; j++ {
					b.WriteString(cue(i + 1 + j))
				}
				out = append(out, corpus.Doc{Name: fmt.Sprintf("large-%s-B%d%+d", format, B, delta), Format: format, Data: []byte(b.String()), Valid: true})
			}
		}
	}
	ts := func(i int) string { return fmt.Sprintf("00:%02d:%02d", i/60, i%60) }
	mk("srt", "", "9999\r\n01:00:00,000 --> 01:00:01,000\r\n", "", "\r\n",
		func(i int) string {
			return fmt.Sprintf("%d\r\n%s,000 --> %s,500\r\nline %d\r\n\r\n", i+1, ts(i), ts(i), i)
		})
	mk("vtt", "WEBVTT\r\n\r\n", "01:00:00.000 --> 01:00:01.000\r\n", "", "\r\n",
		func(i int) string { return fmt.Sprintf("%s.000 --> %s.500\r\nline %d\r\n\r\n", ts(i), ts(i), i) })
	mk("ssa", "[Script Info]\r\nTitle: t\r\n\r\n[Events]\r\nFormat: Marked, Start, End, Style, Name, MarginL, MarginR, MarginV, Effect, Text\r\n", "Dialogue: Marked=0,1:00:00.00,1:00:01.00,,,0,0,0,,", "", "",
		func(i int) string {
			return fmt.Sprintf("Dialogue: Marked=0,0:%02d:%02d.00,0:%02d:%02d.50,,,0,0,0,,line %d\r\n", i/60, i%60, i/60, i%60, i)
		})
	return out
}

// lineEndDocs: the small text documents with unusual line-end sequences (what a second text-mode conversion or a
// careless editor leaves): CR CR LF, LF CR, a mix of all three kinds, a CR as the very last byte. Whatever such a
// document denotes, it must denote the same under every delivery schedule.
func lineEndDocs(thorough bool) []corpus.Doc {
	var out []corpus.Doc
	for _, d := range corpus.Small() {
		if !d.Valid || !strings.HasSuffix(d.Name, "-lf") && d.Name != "vtt-full" && d.Name != "ssa-small" {
			continue
		}
		src := string(d.Data)
		mixedAt := func(k int) string {
			var b strings.Builder
			for _, ch := range src {
				if ch == '\n' {
					b.WriteString([]string{"\r\n", "\n", "\r", "\r\r\n", "\n\r"}[k%5])
					k++
				} else {
					b.WriteRune(ch)
				}
			}
			return b.String()
		}
		mixed := mixedAt(0)
		type variant struct{ name, data string }
		var extra []variant
		// the other four phases of the rotation (which terminator kind a given line gets), and the document with ONE of
		// its line ends turned into a bare CR, for every line end in turn: a terminator state carried from one line to
		// a later one shows only when the right kinds meet (seed c17aj: a bare CR at a read boundary, then a blank LF line)
		for ph := 1; ph < 5; ph++ {
			extra = append(extra, variant{fmt.Sprintf("mixed-ph%d", ph), mixedAt(ph)})
		}
		nl := 0
		for j := 0; j < len(src); j++ {
			if src[j] == '\n' {
				if nl < 40 {
					extra = append(extra, variant{fmt.Sprintf("one-cr-%d", nl), src[:j] + "\r" + src[j+1:]})
				}
				nl++
			}
		}
		for _, v := range append([]variant{
			{"crcrlf", strings.ReplaceAll(src, "\n", "\r\r\n")},
			{"lfcr", strings.ReplaceAll(src, "\n", "\n\r")},
			{"mixed", mixed},
			{"cr-last-byte", strings.TrimRight(src, "\n") + "\r"},
		}, extra...) {
			out = append(out, corpus.Doc{Name: d.Format + "-" + v.name, Format: d.Format, Data: []byte(v.data), Valid: true})
		}
	}
	// the small text documents in another encoding (UTF-16 little / big endian with byte order mark, Latin-1): whatever a
	// reader makes of them - garbage today, text if an encoding is ever sniffed - it must not depend on the delivery
	for _, d := range corpus.Small() {
		if d.Name != "srt-lf" && d.Name != "vtt-full" && d.Name != "ssa-small" {
			continue
		}
		var le, be, l1 []byte
		le, be = append(le, 0xff, 0xfe), append(be, 0xfe, 0xff)
		for _, r := range string(d.Data) {
			if r > 0xffff {
				r = '?'
			}
			le = append(le, byte(r), byte(r>>8))
			be = append(be, byte(r>>8), byte(r))
			if r > 0xff {
				r = '?'
			}
			l1 = append(l1, byte(r))
		}
		out = append(out, corpus.Doc{Name: d.Format + "-utf16le", Format: d.Format, Data: le, Valid: true}, corpus.Doc{Name: d.Format + "-utf16be", Format: d.Format, Data: be, Valid: true},
			corpus.Doc{Name: d.Format + "-latin1", Format: d.Format, Data: append(l1, 0xe9, '\n'), Valid: true})
	}
	// a document that is ONE line longer than the scanner's initial buffer, without terminator or ending in a lone
	// CR (garbage to every format - the fact of failing, and how, must not depend on the delivery either)
	for _, f := range []string{"srt", "vtt", "ssa"} {
		sizes := []int{4097, 5000}
		if thorough {
			sizes = append(sizes, 65535)
		}
		for _, n := range sizes {
			out = append(out, corpus.Doc{Name: fmt.Sprintf("%s-one-line-%d", f, n), Format: f, Data: []byte(strings.Repeat("x", n)), Valid: true},
				corpus.Doc{Name: fmt.Sprintf("%s-one-line-%d-cr", f, n), Format: f, Data: []byte(strings.Repeat("x", n-1) + "\r"), Valid: true})
		}
	}
	return out
}

func run(c *core.Ctx) {
	docs := append(append(corpus.All(), lineEndDocs(c.Tier == core.Thorough)...), corpus.Large()...)
	pts := map[string]struct{}{}
	check := func(d corpus.Doc, want string, sub string, cs Case, got string, size int) {
		c.Traces++
		nt := core.Hash64(d.Name, fmt.Sprint(cs.Choices), cs.Policy, fmt.Sprint(cs.K))
		c.Record(sub, core.Hash64(got), nt, func() interface{} {
			return map[string]interface{}{"doc": d.Name, "len": len(d.Data), "choices": cs.Choices, "policy": cs.Policy, "k": cs.K}
		})
		if got != want {
			key := classify(d.Format, d.Data, cs.Choices, want, got)
			msg := fmt.Sprintf("document %s (%d bytes): all-at-once result and result under schedule %v%s differ\n--- all at once:\n%s\n--- under the schedule:\n%s", d.Name, len(d.Data), cs.Choices, cs.Policy, trunc(want), trunc(got))
			c.Violate(sub, key, msg, cs, size)
		}
	}
	for _, d := range docs {
		d := d
		want := outcome(d.Format, bytes.NewReader(d.Data))
		bound := 1
		if c.Tier == core.Thorough {
			if len(d.Data) <= 130 {
				bound = 3
			} else if len(d.Data) <= 2000 {
				bound = 2
			}
		}
		// The choice points are discovered by running the real reader, so the execution IS the body:
		explore.ExploreSharded(bound, c.Mine, func(x *explore.C) {
			r := &SchedReader{Data: d.Data, X: x, Pts: pts}
			got := outcome(d.Format, r)
			x.Sites = append(x.Sites[:0], got) // stash the outcome for the visitor
			c.Transitions += int64(r.Reads)
		}, func(x *explore.C) bool {
			got := x.Sites[0]
			cs := Case{Doc: d.Name, Format: d.Format, Data: d.Data, Choices: append([]int{}, x.Trace...)}
			check(d, want, "explore."+d.Format, cs, got, explore.Deviations(x.Trace)*100000+len(d.Data))
			return c.Evals%512 != 0 || !c.Expired()
		})
		// the same bytes behind readers with other method sets (Len, Seek, WriteTo, ReadByte ... or Read alone)
		if c.Mine() {
			for _, k := range readerKinds(d.Data) {
				if _, seeks := k.rd.(io.Seeker); d.Format == "ts" && !seeks {
					continue // the transport stream reader rewinds the stream (documented): seekable readers only
				}
				got := outcome(d.Format, k.rd)
				cs := Case{Doc: d.Name, Format: d.Format, Data: d.Data, Policy: "reader-kind:" + k.name}
				c.Transitions++
				check(d, want, "kinds."+d.Format, cs, got, 40000+len(d.Data))
			}
		}
		// fixed schedules
		type pol struct {
			mode string
			k    int
		}
		pols := []pol{{"chunk", 1}, {"chunk", 2}, {"chunk", 3}, {"chunk", 5}, {"chunk", 7}, {"chunk", 13}, {"chunk", 64}, {"chunk", 127}, {"chunk", 128}, {"chunk", 129}, {"chunk", 187}, {"chunk", 188}, {"chunk", 189}, {"chunk", 512}, {"chunk", 1023}, {"chunk", 1024}, {"halves", 0}, {"increasing", 0}, {"data-with-eof", 0}, {"zero-every-other", 0}}
		for _, p := range pols {
			if !c.Mine() {
				continue
			}
			got := outcome(d.Format, &policyReader{data: d.Data, mode: p.mode, k: p.k})
			cs := Case{Doc: d.Name, Format: d.Format, Data: d.Data, Policy: p.mode, K: p.k}
			check(d, want, "policy."+d.Format, cs, got, 50000+len(d.Data))
		}
	}
	// large documents: CR LF pairs aligned to buffer boundaries; oracle = the same document with the pad
	// shortened (metamorphic: the pad run is normalised away in the dump)
	for _, d := range largeDocs() {
		d := d
		if !c.Mine() {
			continue
		}
		// reference: parse the document delivered line by line (no read ever ends inside a terminator)
		want := outcome(d.Format, &lineReader{data: d.Data})
		got := outcome(d.Format, bytes.NewReader(d.Data))
		cs := Case{Doc: d.Name, Format: d.Format, Data: d.Data, Policy: "all-at-once-vs-line-by-line"}
		c.Traces++
		c.Record("large."+d.Format, core.Hash64(got), core.Hash64(d.Name), func() interface{} { return map[string]interface{}{"doc": d.Name, "len": len(d.Data)} })
		if got != want {
			c.Violate("large", "sched."+d.Format+".crlf-split", fmt.Sprintf("document %s (%d bytes, a CR LF pair straddles a buffer boundary): delivered all at once it parses differently from delivered line by line", d.Name, len(d.Data)), cs, 200000+len(d.Data))
		}
		// single splits within +-2 of every multiple of 4096
		for m := 4096; m < len(d.Data)+3; m += 4096 {
			for dl := -2; dl <= 2; dl++ {
				sp := m + dl
				if sp <= 0 || sp >= len(d.Data) {
					continue
				}
				got := outcome(d.Format, io.MultiReader(bytes.NewReader(d.Data[:sp]), bytes.NewReader(d.Data[sp:])))
				c.Traces++
				c.Transitions += 2
				cs := Case{Doc: d.Name, Format: d.Format, Data: d.Data, Policy: "split-at", K: sp}
				c.Record("large.split."+d.Format, core.Hash64(got), core.Hash64(d.Name, fmt.Sprint(sp)), nil)
				if got != want {
					c.Violate("large", "sched."+d.Format+".crlf-split", fmt.Sprintf("document %s split at %d parses differently from line-by-line delivery", d.Name, sp), cs, 300000+len(d.Data))
				}
			}
		}
	}
	// a line at the scanner's token limit (64 KiB): whether it parses or fails, it does so for every kind of reader
	// holding the same bytes - readers that also offer Len / Seek / WriteTo / ReadByte, and ones that offer Read only
	sizes := []int{65535, 65536, 65537, 70000}
	if c.Tier == core.Thorough {
		sizes = append(sizes, 131071, 131073, 1<<20+1)
	}
	for _, f := range []string{"srt", "vtt", "ssa"} {
		for _, n := range sizes {
			for shape := 0; shape < 2; shape++ {
				if !c.Mine() {
					continue
				}
				long := strings.Repeat("x", n)
				var data []byte
				switch {
				case shape == 0:
					data = []byte(long) // the whole document is the line
				case f == "srt":
					data = []byte("1\n00:00:01,000 --> 00:00:02,000\n" + long[:n-1] + "\n\n2\n00:00:03,000 --> 00:00:04,000\ny\n")
				case f == "vtt":
					data = []byte("WEBVTT\n\n00:00:01.000 --> 00:00:02.000\n" + long[:n-1] + "\n\n00:00:03.000 --> 00:00:04.000\ny\n")
				default:
					data = []byte("[Events]\nFormat: Start, End, Text\nDialogue: 0:00:01.00,0:00:02.00," + long[:n-35] + "\nDialogue: 0:00:03.00,0:00:04.00,y\n")
				}
				name := fmt.Sprintf("%s-line-of-%d-shape-%d", f, n, shape)
				want := outcome(f, bytes.NewReader(data))
				kinds := readerKinds(data)
				for _, k := range kinds {
					got := outcome(f, k.rd)
					c.Traces++
					c.Transitions++
					cs := Case{Doc: name, Format: f, Data: data, Policy: "reader-kind:" + k.name, K: n}
					c.Record("longline."+f, core.Hash64(got), core.Hash64(name, k.name), func() interface{} { return map[string]interface{}{"doc": name, "reader": k.name} })
					if got != want {
						c.Violate("longline", "sched."+f+".depends-on-reader-kind", fmt.Sprintf("document %s (%d bytes): read from a bytes.Reader and from a %s holding the same bytes the results differ\n--- bytes.Reader:\n%s\n--- %s:\n%s", name, len(data), k.name, trunc(want), k.name, trunc(got)), cs, 400000+n)
					}
				}
			}
		}
	}
	// a long line that makes the scanner grow its buffer to B, then short CR LF / CR terminated lines: full reads
	// now end wherever the shifted buffer ends, so over the residues of the long line's length a CR sits on the last
	// byte of a full buffer of every size the scanner passes through
	bsizes := []int{4096, 8192, 65536}
	if c.Tier == core.Thorough {
		bsizes = []int{4096, 8192, 16384, 32768, 65536}
	}
	for _, f := range []string{"srt", "vtt", "ssa"} {
		for _, B := range bsizes {
			for res := 0; res < 4; res++ {
				for _, le := range []string{"\r\n", "\r"} {
					if !c.Mine() {
						continue
					}
					long := strings.Repeat("x", B/2+1+res)
					var doc string
					switch f {
					case "srt":
						doc = "1\n00:00:01,000 --> 00:00:02,000\n" + long + "\n" + strings.Repeat("y\n", B) + "\n2\n00:00:03,000 --> 00:00:04,000\nz\n"
					case "vtt":
						doc = "WEBVTT\n\n00:00:01.000 --> 00:00:02.000\n" + long + "\n" + strings.Repeat("y\n", B) + "\n00:00:03.000 --> 00:00:04.000\nz\n"
					default:
						doc = "[Script Info]\n; " + long + "\n" + strings.Repeat(";y\n", B) + "\n[Events]\nFormat: Start, End, Text\nDialogue: 0:00:01.00,0:00:02.00,z\n"
					}
					data := []byte(strings.ReplaceAll(doc, "\n", le))
					name := fmt.Sprintf("%s-long-line-to-buffer-%d-residue-%d-%q", f, B, res, le)
					want := outcome(f, bytes.NewReader(data))
					for _, k := range readerKinds(data) {
						got := outcome(f, k.rd)
						c.Traces++
						c.Transitions++
						cs := Case{Doc: name, Format: f, Data: data, Policy: "reader-kind:" + k.name, K: B}
						c.Record("shifted."+f, core.Hash64(got), core.Hash64(name, k.name), func() interface{} { return map[string]interface{}{"doc": name, "reader": k.name} })
						if got != want {
							key := "sched." + f + ".depends-on-reader-kind"
							if got == "panic" || want == "panic" {
								key = "sched." + f + ".panic"
							}
							c.Violate("shifted", key, fmt.Sprintf("document %s (%d bytes): read from a bytes.Reader and from a %s holding the same bytes the results differ\n--- bytes.Reader:\n%s\n--- %s:\n%s", name, len(data), k.name, trunc(want), k.name, trunc(got)), cs, 500000+B+res)
						}
					}
				}
			}
		}
	}
	for k := range pts {
		c.State(core.Hash64(k))
	}
}

// lineReader delivers at most one complete line (terminator included) per Read.
type lineReader struct {
	data []byte
	pos  int
}

func (r *lineReader) Read(p []byte) (int, error) {
	if r.pos >= len(r.data) {
		return 0, io.EOF
	}
	end := r.pos
	for end < len(r.data) && r.data[end] != '\n' {
		end++
	}
	if end < len(r.data) {
		end++
	}
	n := end - r.pos
	if n > len(p) {
		n = len(p)
		// never cut between CR and LF
		if n > 1 && r.data[r.pos+n-1] == '\r' {
			n--
		}
	}
	copy(p, r.data[r.pos:r.pos+n])
	r.pos += n
	return n, nil
}

func trunc(s string) string {
	if len(s) > 1500 {
		return s[:1500] + "…"
	}
	return s
}

type readerKind struct {
	name string
	rd   io.Reader
}

// readerKinds: the same bytes behind readers of different method sets and delivery habits.
func readerKinds(data []byte) []readerKind {
	return []readerKind{
		{"read-only", struct{ io.Reader }{bytes.NewReader(data)}},
		{"read-seek-only", struct{ io.ReadSeeker }{bytes.NewReader(data)}},
		{"strings.Reader", strings.NewReader(string(data))},
		{"bytes.Buffer", bytes.NewBuffer(append([]byte{}, data...))},
		{"bufio.Reader", bufio.NewReaderSize(struct{ io.Reader }{bytes.NewReader(data)}, 16)},
		{"multi-reader", io.MultiReader(bytes.NewReader(data[:len(data)/2]), bytes.NewReader(data[len(data)/2:]))},
		{"chunks-of-1024", &policyReader{data: data, mode: "chunk", k: 1024}},
		{"data-with-eof", &policyReader{data: data, mode: "data-with-eof"}},
	}
}

func replay(sub string, raw json.RawMessage) (string, bool) {
	var cs Case
	if err := json.Unmarshal(raw, &cs); err != nil {
		return err.Error(), false
	}
	want := outcome(cs.Format, bytes.NewReader(cs.Data))
	var got string
	switch {
	case cs.Policy == "all-at-once-vs-line-by-line":
		want = outcome(cs.Format, &lineReader{data: cs.Data})
		got = outcome(cs.Format, bytes.NewReader(cs.Data))
	case cs.Policy == "split-at":
		want = outcome(cs.Format, &lineReader{data: cs.Data})
		got = outcome(cs.Format, io.MultiReader(bytes.NewReader(cs.Data[:cs.K]), bytes.NewReader(cs.Data[cs.K:])))
	case strings.HasPrefix(cs.Policy, "reader-kind:"):
		for _, k := range readerKinds(cs.Data) {
			if "reader-kind:"+k.name == cs.Policy {
				got = outcome(cs.Format, k.rd)
			}
		}
	case cs.Policy != "":
		got = outcome(cs.Format, &policyReader{data: cs.Data, mode: cs.Policy, k: cs.K})
	default:
		x := explore.Run(cs.Choices, func(x *explore.C) {
			got = outcome(cs.Format, &SchedReader{Data: cs.Data, X: x})
		})
		_ = x
	}
	return fmt.Sprintf("all-at-once: %s\nunder schedule: %s", trunc(want), trunc(got)), got != want
}

func init() {
	core.Register(&core.Prop{
		ID: "C17", Level: "model_checking",
		Rule: "the io.Reader is modelled as an environment whose every Read(p) is a choice point (states = distinct (offset, len(p)) choice points reached; transitions = answers given: full delivery, every shorter delivery 1..n-1, (0,nil), data together with io.EOF); every schedule with <= B deviations from 'deliver everything asked for' is executed on the real reader of every corpus document and its canonical result (or the fact of failing) compared with the all-at-once result; plus fixed schedules (1..1024-byte chunks, halves, increasing, data-with-EOF, alternating zero-length reads) and CRLF pairs aligned to 4096/8192/65536 buffer boundaries in generated large documents",
		Scope: map[core.Tier]string{
			core.Quick:    "all 54 corpus documents (hand-made + /repo/testdata, valid and invalid, LF/CRLF/CR, STL with 0..3 TTI, TTML, TS when available): every schedule with <=1 deviation (= every single split point, exhaustive) + 20 fixed schedules; 45 large documents x all-at-once and +-2 around every 4096 multiple; every document behind 8 kinds of reader holding the same bytes (Read only, Read+Seek only, strings.Reader, bytes.Buffer, bufio.Reader, multi-reader, 1 KiB chunks, data with end-of-file; transport streams: the seekable ones); lines of 65535 / 65536 / 65537 / 70000 bytes (alone and as a cue's text) behind the same kinds; documents whose long first line grows the scanner buffer to 4 / 8 / 64 KiB followed by more than that many short CR LF / CR lines, 4 residues; the small text documents with unusual line ends: CR CR LF, LF CR, five phases of a rotation through the terminator kinds, CR as last byte, each single line end (first 40) as a bare CR",
			core.Thorough: "additionally <=2 deviations for documents <=2000 bytes and <=3 for <=130 bytes; long lines up to 1 MiB + 1; buffer sizes 4 .. 64 KiB all five",
		},
		Assumptions: []string{"Go toolchain and standard library (bufio, encoding/xml)", "astits for the transport-stream layer", "results compared through the canonical dump (engine/props/dump)"},
		Plain:       run, Replay: replay,
	})
}
