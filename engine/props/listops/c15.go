package listops

import (
	"encoding/json"
	"fmt"
	"math/big"
	"time"

	"verif/core"
	"verif/props/lm"
	"verif/props/refops"
)

type linCase struct {
	List           lm.List `json:"list"`
	A1, D1, A2, D2 int64
}

var micro = new(big.Rat).SetInt64(1000)

func within(got int64, exact *big.Rat, tolNs int64) bool {
	d := new(big.Rat).Sub(new(big.Rat).SetInt64(got), exact)
	d.Abs(d)
	return d.Cmp(new(big.Rat).SetInt64(tolNs)) <= 0
}

func checkLinear(lc linCase) (string, string, uint64) {
	r := lm.Build(lc.List, []string{"a"}, []string{"r"})
	ptrs := append([]interface{}{}, nil)
	_ = ptrs
	r.Subs.ApplyLinearCorrection(time.Duration(lc.A1), time.Duration(lc.D1), time.Duration(lc.A2), time.Duration(lc.D2))
	got := r.Extract()
	desc := fmt.Sprintf("ApplyLinearCorrection(a1=%s d1=%s a2=%s d2=%s) on %s", lm.D(lc.A1), lm.D(lc.D1), lm.D(lc.A2), lm.D(lc.D2), lc.List)
	if len(got) != len(lc.List) {
		return "linear.count", desc + ": number of cues changed", 0
	}
	slope := new(big.Rat).SetFrac64(lc.D2-lc.D1, lc.A2-lc.A1)
	for i, c := range lc.List {
		g := got[i]
		if g.U != c.U || g.T != c.T || !r.IsOriginal(r.Subs.Items[i]) {
			return "linear.order-or-content", desc + ": order or text changed", 0
		}
		if s, _ := r.OrigSnap(r.Subs.Items[i]); s != lm.ContentSnap(r.Subs.Items[i]) {
			return "linear.order-or-content", desc + ": cue content changed", 0
		}
		es, ee := refops.Linear(c.S, lc.A1, lc.D1, lc.A2, lc.D2), refops.Linear(c.E, lc.A1, lc.D1, lc.A2, lc.D2)
		if !within(g.S, es, 1000) || !within(g.E, ee, 1000) {
			return "linear.value", fmt.Sprintf("%s: cue %d expected %s..%s ns, got %d..%d", desc, i, es.FloatString(3), ee.FloatString(3), g.S, g.E), 0
		}
		// length scales by the slope (+-2us)
		el := new(big.Rat).Mul(slope, new(big.Rat).SetInt64(c.E-c.S))
		if !within(g.E-g.S, el, 2000) {
			return "linear.length", fmt.Sprintf("%s: cue %d length expected %s, got %d", desc, i, el.FloatString(3), g.E-g.S), 0
		}
		if slope.Sign() > 0 && c.S <= c.E && g.S > g.E+1000 {
			return "linear.order-of-boundaries", desc + ": start after end", 0
		}
	}
	// order of boundaries across cues preserved for positive slope (ties within 1us)
	if slope.Sign() > 0 {
		for i := range lc.List {
			for j := range lc.List {
				if lc.List[i].S <= lc.List[j].S && got[i].S > got[j].S+1000 {
					return "linear.order-of-boundaries", desc + ": order of starts not preserved", 0
				}
			}
		}
	}
	return "", "", core.Hash64(got.Key())
}

func c15Run(c *core.Ctx) {
	bounds := []int64{0, ms, sec, 59999 * ms, hour, 12 * hour, 24 * hour, 2 * sec, 3 * sec, 4 * sec, 5 * sec}
	if c.Tier == core.Thorough {
		bounds = append(bounds, 1, 999*ms, 1500*ms, 23*hour+59*60*sec+59999*ms, 10*hour-1)
		for k := int64(1); k <= 24; k++ {
			bounds = append(bounds, k*hour-ms, k*3599*sec+k*7*ms+k) // around every hour mark and at irregular instants
		}
	}
	var cues []cueShape
	for _, s := range bounds {
		for _, e := range bounds {
			if e >= s {
				cues = append(cues, cueShape{s, e, "x"})
			}
		}
	}
	// slopes as (num, den) in ms
	type frac struct{ n, d int64 }
	slopes := []frac{{1, 2}, {1, 1}, {3, 2}, {2, 1}, {25000, 23976}, {23976, 25000}, {30000, 29970}, {-1, 1}, {-3, 2}, {0, 1}} // also reversing and constant maps: every boundary still goes to its affine image
	a1s := []int64{0, sec, 600 * sec, hour}
	scales := []int64{ms, sec, 150 * sec} // (a2-a1) = den*scale
	offsets := []int64{0, sec, -sec, hour}
	var quads [][4]int64
	for _, sl := range slopes {
		for _, a1 := range a1s {
			for _, sc := range scales {
				for _, off := range offsets {
					a2 := a1 + sl.d*sc
					d1 := a1 + off
					d2 := d1 + sl.n*sc
					quads = append(quads, [4]int64{a1, d1, a2, d2})
					quads = append(quads, [4]int64{a2, d2, a1, d1}) // a1 > a2, same map
				}
			}
		}
	}
	// reference instants finer than a millisecond and far apart: the slope is a fraction of two large coprime numbers of
	// nanoseconds (no cancellation helps an implementation that works in integers)
	for _, a1 := range []int64{0, 1, 999999937} {
		for _, span := range []int64{3*sec + 1, 3000000007001, hour + 1, 12*hour + 999983} {
			for _, off := range []int64{0, 1, -999} {
				for _, delta := range []int64{1, 1001, -1, 999999937, -span / 3} {
					a2, d1 := a1+span, a1+off
					d2 := d1 + span + delta
					quads = append(quads, [4]int64{a1, d1, a2, d2}, [4]int64{a2, d2, a1, d1})
				}
			}
		}
	}
	lists := []lm.List{}
	for i, cs := range cues {
		l := lm.List{{S: cs.S, E: cs.E, T: "x", U: 0}}
		// add a second and third cue to exercise order preservation
		if i%3 == 1 {
			o := cues[(i*7+3)%len(cues)]
			l = append(l, lm.Cue{S: o.S, E: o.E, T: "y", U: 1})
		}
		if i%3 == 2 {
			o := cues[(i*5+1)%len(cues)]
			p := cues[(i*11+2)%len(cues)]
			l = append(l, lm.Cue{S: o.S, E: o.E, T: "y", U: 1}, lm.Cue{S: p.S, E: p.E, T: "z", U: 2})
		}
		lists = append(lists, l)
	}
	for _, l := range lists {
		for _, q := range quads {
			if !c.Mine() {
				continue
			}
			lc := linCase{List: decorate(l), A1: q[0], D1: q[1], A2: q[2], D2: q[3]}
			key, msg, out := checkLinear(lc)
			c.Transitions++
			c.Traces++
			c.State(core.Hash64(l.Key()))
			nt := uint64(0)
			if !(q[0] == q[1] && q[2] == q[3]) {
				nt = core.Hash64("lin", l.Key(), fmt.Sprint(q))
			}
			c.Record("linear", out, nt, func() interface{} { return lc })
			if key != "" {
				c.Violate("linear", key, msg, lc, len(l))
			}
		}
		if c.Expired() {
			return
		}
	}
	// reference points land on their targets
	for _, q := range quads {
		if !c.Mine() {
			continue
		}
		if q[0] < 0 || q[2] < 0 {
			continue
		}
		lc := linCase{List: lm.List{{S: min64(q[0], q[2]), E: max64(q[0], q[2]), T: "x"}}, A1: q[0], D1: q[1], A2: q[2], D2: q[3]}
		key, msg, out := checkLinear(lc)
		c.Transitions++
		c.Traces++
		c.Record("linear.refpoints", out, core.Hash64("ref", fmt.Sprint(q)), func() interface{} { return lc })
		if key != "" {
			c.Violate("linear", key, msg, lc, 1)
		}
	}
}

func min64(a, b int64) int64 {
	if a < b {
		return a
	}
	return b
}
func max64(a, b int64) int64 {
	if a > b {
		return a
	}
	return b
}

func c15Replay(sub string, raw json.RawMessage) (string, bool) {
	var lc linCase
	if err := json.Unmarshal(raw, &lc); err != nil {
		return err.Error(), false
	}
	key, msg, _ := checkLinear(lc)
	return msg, key != ""
}

func init() {
	core.Register(&core.Prop{
		ID: "C15", Level: "model_checking",
		Rule: "states = cue lists with boundaries from a fixed set in [0,24h]; transitions = the real ApplyLinearCorrection for every reference quadruple of the scope, each boundary compared with the exact big-rational value of d1+(t-a1)(d2-d1)/(a2-a1) to within 1us, plus length scaling (+-2us), order preservation and untouched content; non-trivial = the map is not the identity",
		Scope: map[core.Tier]string{
			core.Quick:    "66 cues over boundaries {0,1ms,1s,2s..5s,59.999s,1h,12h,24h} (1-3 cues per list) x 672 quadruples: slopes {1/2,1,3/2,2,25/23.976,23.976/25,30/29.97} x a1 in {0,1s,10min,1h} x span scales {1ms,1s,150s} x offsets {0,+-1s,+1h} x both orders of the reference points; plus 360 quadruples whose reference instants are finer than a millisecond and up to 12 h apart (coprime numbers of nanoseconds)",
			core.Thorough: "plus boundaries 1ns, 999ms, 1.5s, 23:59:59.999, 10h-1ns, k*1h-1ms and an irregular instant per hour (k=1..24): all cues over 64 boundaries",
		},
		Assumptions: []string{"Go toolchain and standard library, math/big"},
		Plain:       c15Run, Replay: c15Replay,
	})
}
