package listops

import (
	"encoding/json"
	"fmt"
	"sort"

	"verif/core"
	"verif/props/lm"
	"verif/props/refops"
)

func onScreen(l lm.List, t2 int64) string { // t2 in half grid steps of unit u: instant = t2*u/2
	return ""
}

func textsAt(l lm.List, num, den int64) string {
	// instant = num/den (ns); on screen when S <= t < E
	set := map[string]bool{}
	for _, c := range l {
		if c.S*den <= num && num < c.E*den {
			set[lm.Shown(c.T)] = true
		}
	}
	var o []string
	for t := range set {
		o = append(o, t)
	}
	sort.Strings(o)
	return fmt.Sprint(o)
}

// checkUnfragmentShared: the same list with every group of equal cues (times, text) held as ONE object listed
// several times - a list is a slice of pointers, and nothing says they are distinct. The specification does not
// see the difference (equal cues that touch are merged into one), so the result must be the one for distinct objects.
func checkUnfragmentShared(l lm.List) (string, string, bool) {
	r := lm.Build(l, nil, nil)
	shared := false
	for i := range l {
		for j := i + 1; j < len(l); j++ {
			if l[i].S == l[j].S && l[i].E == l[j].E && l[i].T == l[j].T && l[i].St == l[j].St && l[i].Rg == l[j].Rg && r.Subs.Items[j] != r.Subs.Items[i] {
				r.Subs.Items[j] = r.Subs.Items[i]
				shared = true
			}
		}
	}
	if !shared {
		return "", "", false
	}
	exp := refops.Unfragment(l)
	pan := ""
	func() {
		defer func() {
			if e := recover(); e != nil {
				pan = fmt.Sprint(e)
			}
		}()
		r.Subs.Unfragment()
	}()
	if pan != "" {
		return "unfragment.panic", fmt.Sprintf("Unfragment on %s (equal cues being one object listed several times) panicked: %s", l, pan), true
	}
	got := r.Extract()
	if !lm.EqualNoUID(got.NormEqualStarts(), exp.NormEqualStarts()) {
		return "unfragment.result", fmt.Sprintf("Unfragment on %s (equal cues being one object listed several times): expected %s, got %s", l, exp, got), true
	}
	return "", "", true
}

func checkUnfragment(l lm.List, unit int64) (lm.List, string, string) {
	exp := refops.Unfragment(l)
	r := lm.Build(l, []string{"a"}, []string{"r"})
	pan := ""
	func() {
		defer func() {
			if e := recover(); e != nil {
				pan = fmt.Sprint(e)
			}
		}()
		r.Subs.Unfragment()
	}()
	if pan != "" {
		return exp, "unfragment.panic", fmt.Sprintf("Unfragment on %s panicked: %s", l, pan)
	}
	got := r.Extract()
	if !lm.EqualNoUID(got.NormEqualStarts(), exp.NormEqualStarts()) {
		return exp, "unfragment.result", fmt.Sprintf("Unfragment on %s: expected %s, got %s", l, exp, got)
	}
	// invariants stated by the property, evaluated on the real result directly
	for i := 1; i < len(got); i++ {
		if got[i-1].S > got[i].S {
			return exp, "unfragment.order", fmt.Sprintf("Unfragment on %s: not ordered by start: %s", l, got)
		}
	}
	for i := range got {
		for j := range got {
			if i != j && lm.Shown(got[i].T) == lm.Shown(got[j].T) && got[i].S <= got[j].S && got[j].S <= got[i].E {
				return exp, "unfragment.touching-left", fmt.Sprintf("Unfragment on %s: same-text cues still touch: %s", l, got)
			}
		}
	}
	me := maxEnd(l)
	for t2 := int64(0); t2 <= 2*me/unit+1; t2++ {
		if textsAt(l, t2*unit, 2) != textsAt(got, t2*unit, 2) {
			return exp, "unfragment.display", fmt.Sprintf("Unfragment on %s: texts on screen at %s*%d/2 changed: %s", l, lm.D(unit), t2, got)
		}
	}
	// untouched cues keep their content
	for _, it := range r.Subs.Items {
		if s, ok := r.OrigSnap(it); ok && s != lm.ContentSnap(it) {
			return exp, "unfragment.content", fmt.Sprintf("Unfragment on %s: content of a cue changed", l)
		}
	}
	return exp, "", ""
}

func noTouchingSameText(l lm.List) bool {
	for i := range l {
		for j := range l {
			if i < j && lm.Shown(l[i].T) == lm.Shown(l[j].T) {
				a, b := l[i], l[j]
				if a.S <= b.E && b.S <= a.E {
					return false
				}
			}
		}
	}
	return true
}

func c11Run(c *core.Ctx) {
	longRun(c, "unfragment")
	againRun(c, "unfragment")
	type scope struct {
		grid  int64
		max   int
		texts []string
		units []int64
	}
	var scopes []scope
	var invMax int
	var invGrid int64
	if c.Tier == core.Quick {
		scopes = []scope{{5, 2, []string{"x", "y", "z"}, []int64{ms, hour + ms}}, {4, 3, []string{"x", "y"}, []int64{ms}}, {3, 4, []string{"x", "y"}, []int64{ms}},
			{4, 3, []string{"xy", "x|y", "x\ny"}, []int64{ms}}, // the same text in one run and in two; the same letters on two lines (another text)
			{5, 3, []string{"x", "y"}, []int64{ns, 300000}},    // gaps and overlaps shorter than a millisecond
			{4, 3, []string{"", "x"}, []int64{ms}}}             // cues without text are cues: equal (empty) texts that touch are merged
		invMax, invGrid = 3, 6
	} else {
		scopes = []scope{{5, 3, []string{"x", "y", "z"}, []int64{ms, hour + ms}}, {4, 4, []string{"x", "y"}, []int64{ms, ns}}, {5, 4, []string{"x", "y"}, []int64{ms}}, {3, 5, []string{"x", "y"}, []int64{ms}},
			{4, 4, []string{"xy", "x|y", "x\ny"}, []int64{ms}}, {5, 3, []string{"x", "y"}, []int64{300000}}, {4, 4, []string{"", "x"}, []int64{ms}}}
		invMax, invGrid = 3, 9
	}
	for _, sc := range scopes {
		a := cueAlphabet(sc.grid, sc.texts, false)
		for _, unit := range sc.units {
			enumLists(a, sc.max, false, false, func(l0 lm.List) bool {
				if !c.Mine() {
					return true
				}
				if k2, m2, ran := checkUnfragmentShared(l0.Scale(unit)); ran {
					c.Transitions++
					c.Record("unfragment.shared", core.Hash64(k2), core.Hash64("shared", l0.Scale(unit).Key()), nil)
					if k2 != "" {
						c.Violate("unfragment", k2, m2, opCase{Op: "unfragment-shared", Unit: unit, List: l0.Scale(unit)}, len(l0)*1000+5)
					}
				}
				l := decorate(l0.Scale(unit))
				exp, key, msg := checkUnfragment(l, unit)
				c.Transitions++
				c.Traces++
				c.State(core.Hash64(l.Key()))
				c.State(core.Hash64(exp.Key()))
				nt := uint64(0)
				if len(exp) != len(l) {
					nt = core.Hash64("unfrag", l.Key())
				}
				cas := func() interface{} { return opCase{Op: "unfragment", Unit: unit, List: l.Clone()} }
				c.Record("unfragment", core.Hash64(exp.Key()), nt, cas)
				if key != "" {
					c.Violate("unfragment", key, msg, cas(), len(l)*100+int(maxEnd(l0)))
				}
				return !c.Expired()
			})
		}
	}
	// inverse law: Unfragment(Fragment(L,f)) = L for start-ordered L without touching same-text cues.
	// The fragmenting step is taken in the model (so that this check isolates Unfragment) and, when the
	// real Fragment agrees with the model on that list, also by the real code (end-to-end).
	a := cueAlphabet(invGrid, []string{"x", "y"}, true)
	enumLists(a, invMax, true, false, func(l0 lm.List) bool {
		if !noTouchingSameText(l0) {
			return true
		}
		if !c.Mine() {
			return true
		}
		l := decorate(l0.Scale(ms))
		for f := int64(1); f <= 5; f++ {
			mid := refops.Fragment(l, f*ms)
			r := lm.Build(mid, []string{"a"}, []string{"r"})
			r.Subs.Unfragment()
			got := r.Extract()
			c.Transitions += 2
			c.Traces++
			cas := func() interface{} {
				return opCase{Op: "unfragment-after-fragment", Unit: ms, List: l.Clone(), P: []int64{f * ms}}
			}
			c.Record("unfragment.inverse", core.Hash64(got.Key()), core.Hash64("inv", l.Key(), fmt.Sprint(f)), cas)
			if !lm.EqualNoUID(got.NormEqualStarts(), l.NormEqualStarts()) {
				c.Violate("unfragment.inverse", "unfragment.inverse", fmt.Sprintf("Unfragment(Fragment(%s, %s)) = %s", l, lm.D(f*ms), got), cas(), len(l)*100+int(f))
			}
			// end-to-end with the real Fragment
			rr, got1, pan := realFragment(l, f*ms)
			if pan == "" && lm.Equal(sortedMulti(got1), sortedMulti(mid)) {
				rr.Subs.Unfragment()
				got2 := rr.Extract()
				c.Traces++
				if !lm.EqualNoUID(got2.NormEqualStarts(), l.NormEqualStarts()) {
					c.Violate("unfragment.inverse", "unfragment.inverse-real", fmt.Sprintf("real Unfragment(real Fragment(%s, %s)) = %s", l, lm.D(f*ms), got2), cas(), len(l)*100+int(f))
				}
			}
		}
		return !c.Expired()
	})
}

func c11Replay(sub string, raw json.RawMessage) (string, bool) {
	var oc opCase
	if err := json.Unmarshal(raw, &oc); err != nil {
		return err.Error(), false
	}
	if oc.Op == "unfragment" {
		_, key, msg := checkUnfragment(oc.List, oc.Unit)
		return msg, key != ""
	}
	if oc.Op == "unfragment-shared" {
		key, msg, _ := checkUnfragmentShared(oc.List)
		return msg, key != ""
	}
	mid := refops.Fragment(oc.List, oc.P[0])
	r := lm.Build(mid, []string{"a"}, []string{"r"})
	r.Subs.Unfragment()
	got := r.Extract()
	return fmt.Sprintf("Unfragment(Fragment(%s,%s)) = %s", oc.List, lm.D(oc.P[0]), got), !lm.EqualNoUID(got.NormEqualStarts(), oc.List.NormEqualStarts())
}

func init() {
	core.Register(&core.Prop{
		ID: "C11", Level: "model_checking",
		Rule: "states = canonical cue lists; transitions = Unfragment by the real code on a fresh real list compared with the connected-components specification, plus the property's invariants evaluated on the real result (ordered, no same-text cues touching, same texts on screen at every grid instant and half-instant); inverse-law transitions start from fragmented states; non-trivial = at least one merge happened / an inverse-law case",
		Scope: map[core.Tier]string{
			core.Quick:    "all lists (any order, overlaps, zero-length, duplicates) of <=2 cues on 0..5 with 3 texts (1ms, 1h+1ms), <=3 on 0..4 and <=4 on 0..3 with 2 texts, <=3 on 0..4 with one text in two segmentations (one run / two runs) and another; inverse law: all start-ordered lists of <=3 cues on 0..6 free of touching same-text cues x f in 1..5; every list with equal cues also with those cues being one object listed several times; <=3 cues on 0..5 in units of 1 ns and 300 us (gaps shorter than a millisecond)",
			core.Thorough: "<=3 cues on 0..5 with 3 texts (1ms, 1h+1ms), <=4 on 0..4 (1ms,1ns) and on 0..5, <=5 on 0..3 with 2 texts; inverse law: <=3 cues on 0..9 x f in 1..5",
		},
		Assumptions: []string{"Go toolchain and standard library", "single-line texts (the library compares cues by their joined text)", "reference models refops.Unfragment, refops.Fragment"},
		Plain:       c11Run, Replay: c11Replay,
	})
}
