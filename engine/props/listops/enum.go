// Package listops holds the E3 checks of the list operations: C09 Add, C10 Fragment,
// C11 Unfragment, C12 Order/Merge, C13 Optimize/RemoveStyling, C14 ForceDuration,
// C15 ApplyLinearCorrection.
package listops

import (
	"verif/props/lm"
)

type cueShape struct {
	S, E int64
	T    string
}

// alphabet of single cues on grid 0..g. strict: E > S, else E >= S.
func cueAlphabet(g int64, texts []string, strict bool) []cueShape {
	var a []cueShape
	for s := int64(0); s <= g; s++ {
		for e := s; e <= g; e++ {
			if strict && e == s {
				continue
			}
			for _, t := range texts {
				a = append(a, cueShape{s, e, t})
			}
		}
	}
	return a
}

// enumLists yields every list of 0..max cues over the alphabet; ordered: non-decreasing starts
// only; nonDecEnds: additionally non-decreasing ends. The yielded list is reused: clone to keep.
func enumLists(a []cueShape, max int, ordered, nonDecEnds bool, yield func(lm.List) bool) {
	cur := make(lm.List, 0, max)
	var rec func() bool
	rec = func() bool {
		if !yield(cur) {
			return false
		}
		if len(cur) == max {
			return true
		}
		for _, c := range a {
			if len(cur) > 0 {
				p := cur[len(cur)-1]
				if ordered && c.S < p.S {
					continue
				}
				if nonDecEnds && c.E < p.E {
					continue
				}
			}
			cur = append(cur, lm.Cue{S: c.S, E: c.E, T: c.T, U: len(cur)})
			ok := rec()
			cur = cur[:len(cur)-1]
			if !ok {
				return false
			}
		}
		return true
	}
	rec()
}

const (
	ns   = int64(1)
	ms   = int64(1000000)
	sec  = 1000 * ms
	hour = 3600 * sec
)

func maxEnd(l lm.List) int64 {
	m := int64(0)
	for _, c := range l {
		if c.E > m {
			m = c.E
		}
	}
	return m
}

type opCase struct {
	Op    string   `json:"op"`
	Unit  int64    `json:"unit_ns"`
	List  lm.List  `json:"list"`
	List2 lm.List  `json:"list2,omitempty"`
	P     []int64  `json:"params,omitempty"`
	Flag  bool     `json:"flag,omitempty"`
	Hist  []string `json:"history,omitempty"`
}
