package listops

import (
	"encoding/json"
	"fmt"
	"sort"
	"strings"
	"time"

	astisub "github.com/asticode/go-astisub"

	"verif/core"
	"verif/props/lm"
	"verif/props/refops"
)

func checkOrder(l lm.List) (lm.List, string, string) {
	exp := refops.Order(l)
	r := lm.Build(l, []string{"a"}, []string{"r"})
	r.Subs.Order()
	got := r.Extract()
	if !lm.Equal(got, exp) {
		key := "order.unsorted"
		sorted := true
		for i := 1; i < len(got); i++ {
			if got[i-1].S > got[i].S {
				sorted = false
			}
		}
		if sorted {
			key = "order.unstable"
		}
		if len(got) != len(exp) {
			key = "order.lost"
		}
		return exp, key, fmt.Sprintf("Order on %s: expected %s, got %s", l, exp, got)
	}
	for _, it := range r.Subs.Items {
		if !r.IsOriginal(it) {
			return exp, "order.identity", "Order replaced a cue object"
		}
		if s, _ := r.OrigSnap(it); s != lm.ContentSnap(it) {
			return exp, "order.content", "Order changed a cue's content"
		}
	}
	return exp, "", ""
}

// mergeCase: model of one Merge call.
type mergeCase struct {
	A, B     lm.List
	ASt, BSt []string // style ids defined in A / B
	ARg, BRg []string
	Receiver int // 0 NewSubtitles, 1 &Subtitles{} (nil maps), 2 Subtitles{Items:...} value with nil maps
	Unit     int64
}

func defs(tag string, ids []string) (map[string]*astisub.Style, map[string]*astisub.Region) {
	st := map[string]*astisub.Style{}
	rg := map[string]*astisub.Region{}
	for _, id := range ids {
		if strings.HasPrefix(id, "s") {
			st[id] = &astisub.Style{ID: id, InlineStyle: &astisub.StyleAttributes{SSAFontName: tag + id}}
		} else {
			rg[id] = &astisub.Region{ID: id, InlineStyle: &astisub.StyleAttributes{SSAFontName: tag + id}}
		}
	}
	return st, rg
}

func buildSide(l lm.List, tag string, st, rg []string, receiver int, uidBase int) (*astisub.Subtitles, map[*astisub.Item]int) {
	var s *astisub.Subtitles
	switch receiver {
	case 0:
		s = astisub.NewSubtitles()
	case 1:
		s = &astisub.Subtitles{}
	default:
		v := astisub.Subtitles{Items: []*astisub.Item{}}
		s = &v
	}
	ids := map[*astisub.Item]int{}
	for i, c := range l {
		it := &astisub.Item{StartAt: time.Duration(c.S), EndAt: time.Duration(c.E), Lines: []astisub.Line{{Items: []astisub.LineItem{{Text: c.T}}}}}
		s.Items = append(s.Items, it)
		ids[it] = uidBase + i
	}
	sm, rm := defs(tag, append(append([]string{}, st...), rg...))
	if receiver == 0 || len(sm) > 0 {
		if s.Styles == nil {
			s.Styles = map[string]*astisub.Style{}
		}
		for k, v := range sm {
			s.Styles[k] = v
		}
	}
	if receiver == 0 || len(rm) > 0 {
		if s.Regions == nil {
			s.Regions = map[string]*astisub.Region{}
		}
		for k, v := range rm {
			s.Regions[k] = v
		}
	}
	// every cue references definitions of its own side (item, run and region references), so a merge that
	// re-points, copies or edits cues on an identifier clash shows in the snapshots
	for i, it := range s.Items {
		if len(st) > 0 {
			it.Style = s.Styles[st[i%len(st)]]
			it.Lines[0].Items[0].Style = s.Styles[st[(i+1)%len(st)]]
		}
		if len(rg) > 0 {
			it.Region = s.Regions[rg[i%len(rg)]]
		}
	}
	return s, ids
}

func checkMerge(mc mergeCase) (string, string, uint64) {
	a, aid := buildSide(mc.A, "A", mc.ASt, mc.ARg, mc.Receiver, 0)
	b, bid := buildSide(mc.B, "B", mc.BSt, mc.BRg, 0, 100)
	// snapshot of B
	bItems := append([]*astisub.Item{}, b.Items...)
	bSnap := []string{}
	for _, it := range b.Items {
		bSnap = append(bSnap, fmt.Sprintf("%d-%d %s", it.StartAt, it.EndAt, lm.ContentSnap(it)))
	}
	bSt := map[string]*astisub.Style{}
	for k, v := range b.Styles {
		bSt[k] = v
	}
	bRg := map[string]*astisub.Region{}
	for k, v := range b.Regions {
		bRg[k] = v
	}
	aSt := map[string]*astisub.Style{}
	for k, v := range a.Styles {
		aSt[k] = v
	}
	aRg := map[string]*astisub.Region{}
	for k, v := range a.Regions {
		aRg[k] = v
	}
	pan := ""
	func() {
		defer func() {
			if e := recover(); e != nil {
				pan = fmt.Sprint(e)
			}
		}()
		a.Merge(b)
	}()
	desc := fmt.Sprintf("Merge(A=%s styles%v regions%v receiver-kind=%d, B=%s styles%v regions%v)", mc.A, mc.ASt, mc.ARg, mc.Receiver, mc.B, mc.BSt, mc.BRg)
	if pan != "" {
		key := "merge.panic"
		if mc.Receiver != 0 && strings.Contains(pan, "nil map") {
			key = "merge.panic.nil-maps-receiver"
		}
		return key, desc + " panicked: " + pan, 0
	}
	// items
	var uids []int
	for _, it := range a.Items {
		if u, ok := aid[it]; ok {
			uids = append(uids, u)
		} else if u, ok := bid[it]; ok {
			uids = append(uids, u)
		} else {
			return "merge.identity", desc + ": receiver holds a cue that is neither A's nor B's object", 0
		}
	}
	bm := mc.B.Clone()
	for i := range bm {
		bm[i].U = 100 + i
	}
	exp := refops.Merge(mc.A, bm)
	var expU []int
	for _, c := range exp {
		expU = append(expU, c.U)
	}
	if fmt.Sprint(uids) != fmt.Sprint(expU) {
		key := "merge.order"
		if len(uids) != len(expU) {
			key = "merge.lost-or-duplicated"
		}
		return key, fmt.Sprintf("%s: expected cue order %v, got %v", desc, expU, uids), 0
	}
	// definitions: union, A wins
	for id, v := range aSt {
		if a.Styles[id] != v {
			return "merge.style-clash", fmt.Sprintf("%s: A's style %s was replaced", desc, id), 0
		}
	}
	for id, v := range aRg {
		if a.Regions[id] != v {
			return "merge.region-clash", fmt.Sprintf("%s: A's region %s was replaced", desc, id), 0
		}
	}
	for id, v := range bSt {
		got, ok := a.Styles[id]
		if !ok {
			return "merge.style-missing", fmt.Sprintf("%s: B's style %s missing from the receiver", desc, id), 0
		}
		if _, inA := aSt[id]; !inA && (got.InlineStyle == nil || got.InlineStyle.SSAFontName != v.InlineStyle.SSAFontName) {
			return "merge.style-payload", fmt.Sprintf("%s: style %s does not carry B's definition", desc, id), 0
		}
	}
	for id, v := range bRg {
		got, ok := a.Regions[id]
		if !ok {
			return "merge.region-missing", fmt.Sprintf("%s: B's region %s missing from the receiver", desc, id), 0
		}
		if _, inA := aRg[id]; !inA && (got.InlineStyle == nil || got.InlineStyle.SSAFontName != v.InlineStyle.SSAFontName) {
			return "merge.region-payload", fmt.Sprintf("%s: region %s does not carry B's definition", desc, id), 0
		}
	}
	if len(a.Styles) != len(union(aSt, bSt)) || len(a.Regions) != len(unionR(aRg, bRg)) {
		return "merge.extra-definitions", fmt.Sprintf("%s: receiver has %d styles, %d regions", desc, len(a.Styles), len(a.Regions)), 0
	}
	// B unchanged
	if len(b.Items) != len(bItems) {
		return "merge.argument-changed", desc + ": B's item count changed", 0
	}
	for i := range bItems {
		if b.Items[i] != bItems[i] || bSnap[i] != fmt.Sprintf("%d-%d %s", b.Items[i].StartAt, b.Items[i].EndAt, lm.ContentSnap(b.Items[i])) {
			return "merge.argument-changed", desc + ": B's items changed", 0
		}
	}
	if len(b.Styles) != len(bSt) || len(b.Regions) != len(bRg) {
		return "merge.argument-changed", desc + ": B's definitions changed", 0
	}
	for k, v := range bSt {
		if b.Styles[k] != v {
			return "merge.argument-changed", desc + ": B's styles changed", 0
		}
	}
	for k, v := range bRg {
		if b.Regions[k] != v {
			return "merge.argument-changed", desc + ": B's regions changed", 0
		}
	}
	// later mutation of A's maps must not show in B (shared map)
	if a.Styles != nil {
		a.Styles["zz"] = &astisub.Style{ID: "zz"}
		if _, ok := b.Styles["zz"]; ok {
			return "merge.shared-map", desc + ": receiver shares B's style map", 0
		}
	}
	if a.Regions != nil {
		a.Regions["zz"] = &astisub.Region{ID: "zz"}
		if _, ok := b.Regions["zz"]; ok {
			return "merge.shared-map", desc + ": receiver shares B's region map", 0
		}
	}
	ks := []string{}
	for k := range a.Styles {
		ks = append(ks, k)
	}
	for k := range a.Regions {
		ks = append(ks, k)
	}
	sort.Strings(ks)
	return "", "", core.Hash64(fmt.Sprint(uids), fmt.Sprint(ks))
}

func union(a, b map[string]*astisub.Style) map[string]bool {
	o := map[string]bool{}
	for k := range a {
		o[k] = true
	}
	for k := range b {
		o[k] = true
	}
	return o
}
func unionR(a, b map[string]*astisub.Region) map[string]bool {
	o := map[string]bool{}
	for k := range a {
		o[k] = true
	}
	for k := range b {
		o[k] = true
	}
	return o
}

func subsets(ids []string) [][]string {
	var o [][]string
	for m := 0; m < 1<<len(ids); m++ {
		var s []string
		for i, id := range ids {
			if m&(1<<i) != 0 {
				s = append(s, id)
			}
		}
		o = append(o, s)
	}
	return o
}

// checkOrderAgain: a list is ordered, then edited by its owner through the public fields (cues retimed, the slice
// reversed, a cue appended), then ordered again: the second call must order the list as it is NOW.
func checkOrderAgain(l lm.List, edit int) (string, string) {
	r := lm.Build(l, []string{"a"}, []string{"r"})
	r.Subs.Order()
	its := r.Subs.Items
	switch edit {
	case 0: // reverse the slice
		for i, j := 0, len(its)-1; i < j; i, j = i+1, j-1 {
			its[i], its[j] = its[j], its[i]
		}
	case 1: // retime: the first cue now starts after all others
		if len(its) > 0 {
			late := its[len(its)-1].StartAt + time.Second
			its[0].EndAt += late - its[0].StartAt
			its[0].StartAt = late
		}
	case 2: // append a cue that starts before everything
		first := &astisub.Item{StartAt: 0, EndAt: time.Nanosecond, Lines: []astisub.Line{{Items: []astisub.LineItem{{Text: "new"}}}}}
		r.Subs.Items = append(r.Subs.Items, first)
	}
	before := r.Extract()
	for i := range before {
		before[i].U = i
	}
	want := refops.Order(before)
	r.Subs.Order()
	got := r.Extract()
	for i := range got {
		got[i].U = 0
	}
	for i := range want {
		want[i].U = 0
	}
	if !lm.Equal(got, want) {
		return "order.second-call-ignores-edits", fmt.Sprintf("Order, then the owner edited the list (edit %d) into %s, then Order again: expected %s, got %s", edit, before, want, got)
	}
	return "", ""
}

func c12Run(c *core.Ctx) {
	longRun(c, "order")
	// Order: all lists, any order, equal starts
	maxN, grid := 4, int64(3)
	bigStarts := 2
	if c.Tier == core.Thorough {
		maxN, grid = 5, 3
		bigStarts = 3
	}
	var a []cueShape
	for s := int64(0); s <= grid; s++ {
		a = append(a, cueShape{s, s + 1, "x"}, cueShape{s, s + 3, "x"}) // equal starts with different ends: the end is no tie-breaker
	}
	// units: 1 ms, and two that put several distinct starts inside one millisecond (an order decided on truncated
	// times would see ties where there are none)
	for _, ounit := range []int64{ms, 300000, 1} {
		ounit := ounit
		enumLists(a, maxN, false, false, func(l0 lm.List) bool {
			if !c.Mine() {
				return true
			}
			l := decorate(l0.Scale(ounit))
			exp, key, msg := checkOrder(l)
			c.Transitions++
			c.Traces++
			c.State(core.Hash64(l.Key()))
			nt := uint64(0)
			if !lm.Equal(exp, l) {
				nt = core.Hash64("order", l.Key())
			}
			cas := func() interface{} { return opCase{Op: "order", Unit: ounit, List: l.Clone()} }
			c.Record("order", core.Hash64(fmt.Sprint(exp)), nt, cas)
			if key != "" {
				c.Violate("order", key, msg, cas(), len(l))
			}
			if len(l) >= 2 && len(l) <= 3 {
				for edit := 0; edit < 3; edit++ {
					k2, m2 := checkOrderAgain(l, edit)
					c.Transitions++
					c.Record("order.again", core.Hash64(k2), core.Hash64("again", l.Key(), fmt.Sprint(edit)), nil)
					if k2 != "" {
						c.Violate("order", k2, m2, opCase{Op: "order-again", Unit: ms, List: l.Clone(), P: []int64{int64(edit)}}, len(l)+10)
					}
				}
			}
			return true
		})
	}
	// Order: every list of 13 cues with starts in {0,1} (quick) / 12 cues with {0,1,2} and 13 with {0,1} (thorough):
	// pdqsort falls back to insertion sort below 13 elements, so only n >= 13 can tell a stable sort from an unstable one.
	type big struct{ n, k int }
	bigs := []big{{13, 2}, {14, 2}}
	if bigStarts == 3 {
		bigs = append(bigs, big{13, 3}, big{16, 2})
	}
	for _, bg := range bigs {
		total := 1
		for i := 0; i < bg.n; i++ {
			total *= bg.k
		}
		for m := 0; m < total; m++ {
			if !c.Mine() {
				continue
			}
			l := make(lm.List, bg.n)
			x := m
			for i := 0; i < bg.n; i++ {
				s := int64(x % bg.k)
				x /= bg.k
				l[i] = lm.Cue{S: s * ms, E: (s + int64(bg.n-i)) * ms, T: "x", U: i} // ends decrease along the list
			}
			exp, key, msg := checkOrder(l)
			c.Transitions++
			c.Traces++
			c.State(core.Hash64(l.Key()))
			nt := uint64(0)
			if !lm.Equal(exp, l) {
				nt = core.Hash64("order", l.Key())
			}
			cas := func() interface{} { return opCase{Op: "order", Unit: ms, List: l.Clone()} }
			c.Record("order.13", core.Hash64(fmt.Sprint(exp)), nt, cas)
			if key != "" {
				c.Violate("order.13", key, msg, cas(), len(l))
			}
		}
		if c.Expired() {
			return
		}
	}
	// Merge (i): all pairs of lists, fixed definitions, three receiver kinds
	mN := 3
	var lists []lm.List
	enumLists([]cueShape{a[0], a[2], a[4]}, mN, false, false, func(l lm.List) bool { lists = append(lists, l.Scale(ms)); return true })
	// and the two-cue lists again with several distinct starts inside one millisecond
	enumLists([]cueShape{a[0], a[2], a[4]}, 2, false, false, func(l lm.List) bool {
		if len(l) > 0 {
			lists = append(lists, l.Scale(300000))
		}
		return true
	})
	for _, A := range lists {
		for _, B := range lists {
			for recv := 0; recv < 3; recv++ {
				if !c.Mine() {
					continue
				}
				mc := mergeCase{A: A, B: B, ASt: []string{"s1"}, BSt: []string{"s1", "s2"}, ARg: []string{"r1"}, BRg: nil, Receiver: recv, Unit: ms}
				if recv != 0 {
					mc.ASt, mc.ARg = nil, nil
				}
				key, msg, out := checkMerge(mc)
				c.Transitions++
				c.Traces++
				c.State(core.Hash64(A.Key(), B.Key()))
				c.Record("merge.items", out, core.Hash64("m", A.Key(), B.Key(), fmt.Sprint(recv)), func() interface{} { return mc })
				if key != "" {
					c.Violate("merge", key, msg, mc, len(A)+len(B)+recv*10)
				}
			}
		}
	}
	// Merge (ii): every overlap pattern of style ids {s1,s2,s3} and region ids {r1,r2,r3}, few item pairs
	itemPairs := [][2]lm.List{{nil, nil}, {lists[1], lists[2]}, {lists[len(lists)-1], lists[len(lists)-2]}}
	for _, ast := range subsets([]string{"s1", "s2", "s3"}) {
		for _, bst := range subsets([]string{"s1", "s2", "s3"}) {
			for _, arg := range subsets([]string{"r1", "r2", "r3"}) {
				for _, brg := range subsets([]string{"r1", "r2", "r3"}) {
					for pi, ip := range itemPairs {
						for recv := 0; recv < 3; recv++ {
							if recv != 0 && (len(ast) > 0 || len(arg) > 0) {
								continue // a receiver that has definitions has maps
							}
							if !c.Mine() {
								continue
							}
							mc := mergeCase{A: ip[0], B: ip[1], ASt: ast, BSt: bst, ARg: arg, BRg: brg, Receiver: recv, Unit: ms}
							key, msg, out := checkMerge(mc)
							c.Transitions++
							c.Traces++
							c.Record("merge.defs", out, core.Hash64("d", fmt.Sprint(ast, bst, arg, brg, pi, recv)), func() interface{} { return mc })
							if key != "" {
								c.Violate("merge", key, msg, mc, len(ast)+len(bst)+len(arg)+len(brg)+len(ip[0])+len(ip[1])+recv*10)
							}
						}
					}
				}
			}
		}
	}
}

func c12Replay(sub string, raw json.RawMessage) (string, bool) {
	if sub == "merge" {
		var mc mergeCase
		if err := json.Unmarshal(raw, &mc); err != nil {
			return err.Error(), false
		}
		key, msg, _ := checkMerge(mc)
		return msg, key != ""
	}
	var oc opCase
	if err := json.Unmarshal(raw, &oc); err != nil {
		return err.Error(), false
	}
	if oc.Op == "order-again" && len(oc.P) == 1 {
		k, m := checkOrderAgain(oc.List, int(oc.P[0]))
		return m, k != ""
	}
	_, key, msg := checkOrder(oc.List)
	return msg, key != ""
}

func init() {
	core.Register(&core.Prop{
		ID: "C12", Level: "model_checking",
		Rule: "states = canonical cue lists (Order) / pairs of lists with definition maps (Merge); transitions = the real Order/Merge on fresh real objects compared with insertion-sort stable order on uids, union-with-receiver-wins on definitions, and a before/after snapshot of the argument; includes EVERY list of 13 and 14 cues over two start values because the standard library's unstable sort only departs from a stable one at n >= 13; non-trivial = order changed / any Merge case",
		Scope: map[core.Tier]string{
			core.Quick:    "Order: all lists of <=4 cues with starts 0..3; all 2^13 and 2^14 lists with starts {0,1}. Merge: all pairs of lists of <=3 cues over 3 starts x 3 receiver kinds (NewSubtitles, &Subtitles{}, Subtitles{Items:..}); all 4096 overlap patterns of style ids {s1,s2,s3} x region ids {r1,r2,r3} x 3 item pairs x receiver kinds; Order also in units of 300 us and 1 ns, Merge also on two-cue lists in 300 us (several starts inside one millisecond)",
			core.Thorough: "Order: <=5 cues, 2^13, 2^14, 2^16 and 3^13 lists; Merge as quick",
		},
		Assumptions: []string{"Go toolchain and standard library", "reference model refops.Order (insertion sort), refops.Merge"},
		Plain:       c12Run, Replay: c12Replay,
	})
}
