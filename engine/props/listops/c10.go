package listops

import (
	"encoding/json"
	"fmt"
	"sort"
	"time"

	"verif/core"
	"verif/props/lm"
	"verif/props/refops"
)

// style/region assignment by uid: shared definitions on purpose.
func decorate(l lm.List) lm.List {
	o := l.Clone()
	for i := range o {
		switch o[i].U % 4 {
		case 0:
			o[i].St, o[i].Rg = "a", "r"
		case 1:
			o[i].St = "a"
		case 3:
			o[i].Rg = "r"
		}
	}
	return o
}

func sortedMulti(l lm.List) lm.List {
	o := l.Clone()
	for i := range o {
		o[i].U = 0
	}
	sort.Slice(o, func(i, j int) bool {
		a, b := o[i], o[j]
		if a.S != b.S {
			return a.S < b.S
		}
		if a.E != b.E {
			return a.E < b.E
		}
		if a.T != b.T {
			return a.T < b.T
		}
		if a.St != b.St {
			return a.St < b.St
		}
		return a.Rg < b.Rg
	})
	return o
}

// realFragment runs the real Fragment on a fresh list; panics are reported as violations.
func realFragment(l lm.List, f int64) (r *lm.Real, got lm.List, pan string) {
	r = lm.Build(l, []string{"a"}, []string{"r"})
	func() {
		defer func() {
			if e := recover(); e != nil {
				pan = fmt.Sprint(e)
			}
		}()
		r.Subs.Fragment(time.Duration(f))
	}()
	got = r.Extract()
	return
}

func checkFragment(l lm.List, f int64) (lm.List, string, string) {
	exp := refops.Fragment(l, f)
	r, got, pan := realFragment(l, f)
	if pan != "" {
		return exp, "fragment.panic", fmt.Sprintf("Fragment(%s) on %s panicked: %s", lm.D(f), l, pan)
	}
	if !lm.Equal(sortedMulti(got), sortedMulti(exp)) {
		return exp, "fragment.pieces", fmt.Sprintf("Fragment(%s) on %s: expected pieces %s, got %s", lm.D(f), l, exp, got)
	}
	for i := 1; i < len(got); i++ {
		if got[i-1].S > got[i].S {
			return exp, "fragment.order", fmt.Sprintf("Fragment(%s) on %s: result not ordered by start: %s", lm.D(f), l, got)
		}
	}
	for _, c := range got {
		// no cue strictly contains a multiple of f
		k := (c.S/f + 1) * f
		if k < c.E {
			return exp, "fragment.uncut", fmt.Sprintf("Fragment(%s) on %s: %s..%s still contains %s", lm.D(f), l, lm.D(c.S), lm.D(c.E), lm.D(k))
		}
	}
	// every piece carries the whole content of its original (by value: a piece may be a copy): text of every run,
	// voice names, inline timestamps and attributes, comments, style and region
	for i, it := range r.Subs.Items {
		if u := got[i].U; u >= 0 {
			if want, ok := r.ValueByUID[u]; ok && lm.ValueSnap(it) != want {
				return exp, "fragment.piece-content", fmt.Sprintf("Fragment(%s) on %s: the piece %s..%s of cue #%d does not carry the original's content:\n original %s\n piece    %s", lm.D(f), l, lm.D(got[i].S), lm.D(got[i].E), u, want, lm.ValueSnap(it))
			}
		}
	}
	for _, it := range r.Subs.Items {
		if it.Style != nil && it.Style != r.Subs.Styles[it.Style.ID] || it.Region != nil && it.Region != r.Subs.Regions[it.Region.ID] {
			return exp, "fragment.style-region", fmt.Sprintf("Fragment(%s) on %s: a piece does not carry the original's style/region object", lm.D(f), l)
		}
	}
	return exp, "", ""
}

func c10Run(c *core.Ctx) {
	longRun(c, "fragment")
	againRun(c, "fragment")
	type scope struct {
		grid  int64
		max   int
		units []int64
	}
	var scopes []scope
	if c.Tier == core.Quick {
		scopes = []scope{{9, 3, []int64{ms}}, {6, 4, []int64{ms}}, {9, 2, []int64{hour + ms}}, {4, 3, []int64{ns, sec}}}
	} else {
		scopes = []scope{{9, 3, []int64{ms, hour + ms}}, {6, 4, []int64{ms}}, {6, 3, []int64{ns, sec}}, {7, 4, []int64{ms}}, {4, 5, []int64{ms}}}
	}
	texts := []string{"x|1\n\n2", "y"} // first text: two runs on the first line, an empty line, a third line
	for _, sc := range scopes {
		a := cueAlphabet(sc.grid, texts, true)
		for _, unit := range sc.units {
			enumLists(a, sc.max, true, false, func(l0 lm.List) bool {
				if !c.Mine() {
					return true
				}
				l := decorate(l0.Scale(unit))
				for f := int64(1); f <= 5; f++ {
					exp, key, msg := checkFragment(l, f*unit)
					c.Transitions++
					c.Traces++
					c.State(core.Hash64(l.Key()))
					c.State(core.Hash64(exp.Key()))
					nt := uint64(0)
					if len(exp) != len(l) {
						nt = core.Hash64("frag", l.Key(), fmt.Sprint(f*unit))
					}
					cas := func() interface{} { return opCase{Op: "fragment", Unit: unit, List: l.Clone(), P: []int64{f * unit}} }
					c.Record("fragment", core.Hash64(exp.Key()), nt, cas)
					if key != "" {
						c.Violate("fragment", key, msg, cas(), len(l)*1000+int(maxEnd(l0))*10+int(f))
					}
				}
				return !c.Expired()
			})
		}
	}
	// E3 chaining: Fragment(f1) then Fragment(f2) == cutting at multiples of either (start from non-initial states)
	a := cueAlphabet(6, texts, true)
	enumLists(a, 2, true, false, func(l0 lm.List) bool {
		if !c.Mine() {
			return true
		}
		l := decorate(l0.Scale(ms))
		for f1 := int64(1); f1 <= 4; f1++ {
			mid := refops.Fragment(l, f1*ms)
			for i := range mid { // fresh uids for the intermediate state
				mid[i].U = i
			}
			for f2 := int64(1); f2 <= 4; f2++ {
				exp, key, msg := checkFragment(mid, f2*ms)
				c.Transitions++
				c.Traces++
				c.State(core.Hash64(mid.Key()))
				cas := func() interface{} {
					return opCase{Op: "fragment", Unit: ms, List: mid.Clone(), P: []int64{f2 * ms}, Hist: []string{fmt.Sprintf("fragment(%dms) of %s", f1, l)}}
				}
				c.Record("fragment.chain", core.Hash64(exp.Key()), core.Hash64("fragchain", l.Key(), fmt.Sprint(f1, f2)), cas)
				if key != "" {
					c.Violate("fragment.chain", key, msg, cas(), len(mid)*1000+int(f2))
				}
			}
		}
		return !c.Expired()
	})
}

func c10Replay(sub string, raw json.RawMessage) (string, bool) {
	var oc opCase
	if err := json.Unmarshal(raw, &oc); err != nil {
		return err.Error(), false
	}
	_, key, msg := checkFragment(oc.List, oc.P[0])
	return msg, key != ""
}

func init() {
	core.Register(&core.Prop{
		ID: "C10", Level: "model_checking",
		Rule: "states = canonical start-ordered cue lists; transitions = Fragment(f) by the real code on a fresh real list, compared with per-cue cutting (multiset of pieces with text/style/region, order by start, no interior multiple left, style/region objects shared); every list in scope is an initial state; second-level transitions start from fragmented (non-initial) states; non-trivial = at least one cue was cut",
		Scope: map[core.Tier]string{
			core.Quick:    "the property's own exhaustive scope: all start-ordered lists (overlap, nesting, duplicates, last-listed != last-ending) of <=3 cues on 0..9 and <=4 cues on 0..6 (1ms), plus <=2 cues on 0..9 (1h+1ms) and <=3 on 0..4 (1ns,1s), two texts, f in 1..5 grid steps; Fragment after Fragment for <=2 cues on 0..6",
			core.Thorough: "the property's own scope and beyond: <=3 cues on 0..9 (1ms, 1h+1ms), <=4 cues on 0..6 and on 0..7 (1ms), <=5 cues on 0..4, <=3 on 0..6 (1ns,1s), two texts, f in 1..5",
		},
		Assumptions: []string{"Go toolchain and standard library", "input ordered by start, end > start, f > 0 (property preconditions)", "reference model refops.Fragment"},
		Plain:       c10Run, Replay: c10Replay,
	})
}
