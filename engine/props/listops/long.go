package listops

import (
	"fmt"
	"sort"
	"time"

	astisub "github.com/asticode/go-astisub"

	"verif/core"
	"verif/props/lm"
	"verif/props/refops"
)

// Long lists: the exhaustive scopes stop at 4-5 cues; code that changes behaviour with size (a sort switching
// algorithm at 12 elements, a pre-sized slice, a batch) needs more.  A fixed family of deterministic lists of
// 5..100 cues in four shapes (overlapping staircase, scattered, many equal starts, nested), on a millisecond
// grid, on a prime unit that no period divides, and shifted off the grid by a few nanoseconds, is run through
// every operation with a handful of parameters and compared with the same reference specifications.

var longSizes = []int{5, 8, 12, 13, 16, 17, 32, 33, 64, 100}

func longShapes(n int) []lm.List {
	texts := []string{"x|1\n\n2", "y", "z"}
	mk := func(f func(i int) (int64, int64, string)) lm.List {
		var l lm.List
		for i := 0; i < n; i++ {
			s, e, t := f(i)
			l = append(l, lm.Cue{S: s, E: e, T: t, U: i})
		}
		return l
	}
	return []lm.List{
		mk(func(i int) (int64, int64, string) { return int64(i * 3), int64(i*3 + 4), texts[i%2] }), // staircase, neighbours overlap
		mk(func(i int) (int64, int64, string) {
			s := int64(i*7) % 23
			return s, s + 1 + int64(i*5)%4, texts[(i*3+i/5)%3]
		}), // scattered, unordered
		mk(func(i int) (int64, int64, string) { s := int64(i / 4); return s, s + 1 + int64(i%3), texts[i%3] }), // many equal starts
		mk(func(i int) (int64, int64, string) { return int64(i), int64(2*n - i), texts[i%2] }),                 // nested
		mk(func(i int) (int64, int64, string) { return int64(i * 2), int64(i*2 + 2), "x" }),                    // one text, all touching
	}
}

// wellFormed: ordered by start (stable), optionally with non-decreasing ends.
func wellFormed(l lm.List, nonDecEnds bool) lm.List {
	o := l.Clone()
	sort.SliceStable(o, func(i, j int) bool { return o[i].S < o[j].S })
	if nonDecEnds {
		for i := 1; i < len(o); i++ {
			if o[i].E < o[i-1].E {
				o[i].E = o[i-1].E
			}
		}
	}
	for i := range o {
		o[i].U = i
	}
	return o
}

const primeUnit = 1000003 // ns: a prime a little above one millisecond

// longVariants: the shape on the ms grid, on the prime unit, and on the ms grid shifted by 7 ns.
func longVariants(l lm.List) []lm.List {
	sh := l.Scale(ms)
	for i := range sh {
		sh[i].S += 7
		sh[i].E += 7
	}
	return []lm.List{l.Scale(ms), l.Scale(primeUnit), sh}
}

func longRun(c *core.Ctx, op string) {
	report := func(sub, key, msg string, cas opCase, exp lm.List) {
		c.Transitions++
		c.Traces++
		c.Record(sub+".long", core.Hash64(exp.Key()), core.Hash64(sub, fmt.Sprintf("%+v", cas)), func() interface{} { return cas })
		if key != "" {
			c.Violate(sub, key, msg, cas, 1000000+len(cas.List))
		}
	}
	for _, n := range longSizes {
		for si, shape := range longShapes(n) {
			for vi, l0 := range longVariants(shape) {
				if !c.Mine() {
					continue
				}
				_ = si
				unit := []int64{ms, primeUnit, ms}[vi]
				me := maxEnd(l0)
				switch op {
				case "add":
					l := decorate(l0)
					for _, d := range []int64{-me / 2, -1, unit, -me - 1, -me + 1, -3 * ms} {
						exp, key, msg := checkAdd(l, d)
						report("add", key, msg, opCase{Op: "add", Unit: unit, List: l.Clone(), P: []int64{d}}, exp)
					}
				case "fragment":
					l := decorate(wellFormed(l0, false))
					for _, f := range []int64{3 * unit, 7 * unit, 5 * ms, 2500 * 1000, me + 1, me / 2} {
						if f <= 0 {
							continue
						}
						exp, key, msg := checkFragment(l, f)
						report("fragment", key, msg, opCase{Op: "fragment", Unit: unit, List: l.Clone(), P: []int64{f}}, exp)
					}
				case "unfragment":
					l := decorate(l0)
					exp, key, msg := checkUnfragment(l, unit)
					report("unfragment", key, msg, opCase{Op: "unfragment", Unit: unit, List: l.Clone()}, exp)
					// inverse law on a list free of touching same-text cues: distinct texts per cue
					w := wellFormed(l0, false)
					for i := range w {
						w[i].T = fmt.Sprintf("t%d", i)
					}
					for _, f := range []int64{3 * unit, 5 * ms} {
						fr := refops.Fragment(w, f)
						exp2, key2, msg2 := checkUnfragment(fr, unit)
						report("unfragment", key2, msg2, opCase{Op: "unfragment-after-fragment", Unit: unit, List: fr.Clone(), P: []int64{f}}, exp2)
					}
				case "order":
					exp, key, msg := checkOrder(decorate(l0))
					report("order", key, msg, opCase{Op: "order", Unit: unit, List: l0.Clone()}, exp)
				case "force":
					l := decorate(wellFormed(l0, true))
					for _, d := range []int64{me / 2, me, me + unit, ms, me/2 + 1, me - 1} {
						if d < ms {
							continue
						}
						for _, filler := range []bool{false, true} {
							exp, key, msg := checkForce(l, d, filler)
							report("force", key, msg, opCase{Op: "forceduration", Unit: unit, List: l.Clone(), P: []int64{d}, Flag: filler}, exp)
						}
					}
				}
			}
		}
	}
}

// againRun: the same Subtitles value used twice. An operation runs, the owner edits the list through its public
// fields (a cue appended at the front of the timeline, the first cue moved behind the others), then an operation
// runs again: its result must be what the specification says for the list as it is NOW - whatever the first call
// may have remembered in the value.
func againRun(c *core.Ctx, op string) {
	a := cueAlphabet(3, []string{"x", "y"}, op == "fragment")
	enumLists(a, 2, op != "add" && op != "unfragment", op == "force", func(l0 lm.List) bool {
		if !c.Mine() || len(l0) == 0 {
			return true
		}
		l := decorate(l0.Scale(ms))
		for edit := 0; edit < 2; edit++ {
			r := lm.Build(l, []string{"a"}, []string{"r"})
			apply := func() {
				switch op {
				case "add":
					r.Subs.Add(time.Duration(ms))
				case "fragment":
					r.Subs.Fragment(time.Duration(2 * ms))
				case "unfragment":
					r.Subs.Unfragment()
				case "force":
					r.Subs.ForceDuration(time.Duration(2*ms), false)
				}
			}
			apply()
			its := r.Subs.Items
			switch {
			case op == "force" && len(its) == 0:
				r.Subs.Items = append(its, &astisub.Item{StartAt: 0, EndAt: time.Duration(5 * ms), Lines: []astisub.Line{{Items: []astisub.LineItem{{Text: "new"}}}}})
			case op == "force" && edit == 0: // keep the precondition: ordered by start, non-decreasing ends
				last := its[len(its)-1]
				r.Subs.Items = append(its, &astisub.Item{StartAt: last.StartAt, EndAt: last.EndAt + time.Duration(5*ms), Lines: []astisub.Line{{Items: []astisub.LineItem{{Text: "new"}}}}})
			case op == "force":
				its[len(its)-1].EndAt += time.Duration(3 * ms)
			case edit == 0:
				r.Subs.Items = append([]*astisub.Item{{StartAt: 0, EndAt: time.Duration(5 * ms), Lines: []astisub.Line{{Items: []astisub.LineItem{{Text: "new"}}}}}}, its...)
			default:
				if len(its) > 0 {
					last := its[len(its)-1]
					its[0].StartAt, its[0].EndAt = last.StartAt, last.EndAt+time.Duration(3*ms)
					r.Subs.Items = append(its[1:], its[0])
				}
			}
			now := r.Extract()
			for i := range now {
				now[i].U = i
			}
			var exp lm.List
			switch op {
			case "add":
				exp = refops.Add(now, ms)
			case "fragment":
				exp = refops.Fragment(now, 2*ms)
			case "unfragment":
				exp = refops.Unfragment(now)
			case "force":
				exp = refops.ForceDuration(now, 2*ms, false, -1)
			}
			apply()
			got := r.Extract()
			c.Transitions++
			c.Record(op+".again", core.Hash64(got.Key()), core.Hash64(op, "again", l.Key(), fmt.Sprint(edit)), nil)
			if !lm.EqualNoUID(got, exp) {
				c.Violate(op, op+".second-call-ignores-edits", fmt.Sprintf("%s on %s, then the owner edited the list (edit %d) into %s, then %s again: expected %s, got %s", op, l, edit, now, op, exp, got),
					opCase{Op: op + "-again", Unit: ms, List: l.Clone(), P: []int64{int64(edit)}}, len(l)+20)
			}
		}
		return !c.Expired()
	})
}
