package listops

import (
	"encoding/json"
	"fmt"
	"reflect"
	"regexp"
	"sort"
	"strings"
	"time"

	astisub "github.com/asticode/go-astisub"

	"verif/core"
	"verif/props/refops"
)

// Graph is a model reference graph (C13).
type Graph struct {
	Styles      []string          `json:"styles"`       // defined style ids
	Regions     []string          `json:"regions"`      // defined region ids
	Parent      map[string]string `json:"parent"`       // style -> parent style
	RegionStyle map[string]string `json:"region_style"` // region -> style
	Cues        []GCue            `json:"cues"`
}
type GCue struct {
	Style  string   `json:"style"`
	Region string   `json:"region"`
	Runs   []string `json:"runs"`  // style id per run ("" none)
	Split  bool     `json:"split"` // every run on a line of its own (else all runs on one line)
}

// A name that begins with "~" is a loose reference: an object of that identifier which is not the one in the
// list's table (the identifier may or may not be defined there) - a shape of the public model no reader returns.
func bare(n string) string { return strings.TrimPrefix(n, "~") }

func (g Graph) Build() *astisub.Subtitles {
	s := astisub.NewSubtitles()
	style := func(n string) *astisub.Style {
		if strings.HasPrefix(n, "~") {
			return &astisub.Style{ID: bare(n), InlineStyle: &astisub.StyleAttributes{}}
		}
		return s.Styles[n]
	}
	for _, id := range g.Styles {
		s.Styles[id] = &astisub.Style{ID: id, InlineStyle: &astisub.StyleAttributes{}}
	}
	for c, p := range g.Parent {
		s.Styles[c].Style = s.Styles[p]
	}
	for _, id := range g.Regions {
		s.Regions[id] = &astisub.Region{ID: id, InlineStyle: &astisub.StyleAttributes{}}
		if st := g.RegionStyle[id]; st != "" {
			s.Regions[id].Style = style(st)
		}
	}
	for i, c := range g.Cues {
		it := &astisub.Item{StartAt: time.Duration(i+1) * time.Second, EndAt: time.Duration(i+2) * time.Second}
		if c.Style != "" {
			it.Style = style(c.Style)
		}
		if c.Region != "" {
			if strings.HasPrefix(c.Region, "~") {
				it.Region = &astisub.Region{ID: bare(c.Region), InlineStyle: &astisub.StyleAttributes{}}
			} else {
				it.Region = s.Regions[c.Region]
			}
		}
		ln := astisub.Line{VoiceName: fmt.Sprintf("v%d", i)}
		for j, r := range c.Runs {
			li := astisub.LineItem{Text: fmt.Sprintf("t%d%d", i, j), StartAt: time.Duration((1000+j)*((j+1)%2)) * time.Millisecond, InlineStyle: &astisub.StyleAttributes{SRTBold: true}} // every other run carries an inline timestamp
			if r != "" {
				li.Style = style(r)
			}
			if c.Split && j > 0 {
				it.Lines = append(it.Lines, ln)
				ln = astisub.Line{VoiceName: fmt.Sprintf("v%d-%d", i, j)}
			}
			ln.Items = append(ln.Items, li)
		}
		it.Lines = append(it.Lines, ln)
		s.Items = append(s.Items, it)
	}
	return s
}

func (g Graph) reach() (map[string]bool, map[string]bool) {
	var cs, cr []string
	for _, c := range g.Cues {
		cs = append(cs, bare(c.Style))
		for _, r := range c.Runs {
			cs = append(cs, bare(r))
		}
		cr = append(cr, bare(c.Region))
	}
	// by identifier: a loose reference keeps the table's definition of that identifier, one to an identifier the
	// table does not have keeps nothing
	rs := map[string]string{}
	for k, v := range g.RegionStyle {
		rs[k] = bare(v)
	}
	es, er := refops.Reach(cs, cr, rs, g.Parent)
	for k := range er {
		if !contains(g.Regions, k) {
			delete(er, k)
		}
	}
	for k := range es {
		if !contains(g.Styles, k) {
			delete(es, k)
		}
	}
	return es, er
}

func contains(l []string, x string) bool {
	for _, y := range l {
		if y == x {
			return true
		}
	}
	return false
}

func itemsSnap(s *astisub.Subtitles) string {
	var b strings.Builder
	for _, it := range s.Items {
		fmt.Fprintf(&b, "%p %d-%d idx=%d c=%q st=%p rg=%p in=%p|", it, it.StartAt, it.EndAt, it.Index, it.Comments, it.Style, it.Region, it.InlineStyle)
		for _, l := range it.Lines {
			fmt.Fprintf(&b, "{%q", l.VoiceName)
			for _, li := range l.Items {
				fmt.Fprintf(&b, "[%q %p %p %d]", li.Text, li.Style, li.InlineStyle, li.StartAt)
			}
			b.WriteString("}")
		}
	}
	return b.String()
}

func mapKeys(v interface{}) []string {
	var o []string
	for _, k := range reflect.ValueOf(v).MapKeys() {
		o = append(o, k.String())
	}
	sort.Strings(o)
	return o
}

func checkOptimize(g Graph) (string, string, uint64) {
	s := g.Build()
	before := itemsSnap(s)
	stPtr := map[string]*astisub.Style{}
	defSnap := map[string]string{} // content of every definition: Optimize deletes definitions, it never edits them
	for k, v := range s.Styles {
		stPtr[k] = v
		defSnap["s:"+k] = fmt.Sprintf("%s %p %p", v.ID, v.Style, v.InlineStyle)
	}
	for k, v := range s.Regions {
		defSnap["r:"+k] = fmt.Sprintf("%s %p %p", v.ID, v.Style, v.InlineStyle)
	}
	rgPtr := map[string]*astisub.Region{}
	for k, v := range s.Regions {
		rgPtr[k] = v
	}
	// references that resolve before the call (loose ones do not, and are not asked to afterwards)
	resolved := map[interface{}]bool{}
	for _, it := range s.Items {
		if it.Style != nil && s.Styles[it.Style.ID] == it.Style {
			resolved[it.Style] = true
		}
		if it.Region != nil && s.Regions[it.Region.ID] == it.Region {
			resolved[it.Region] = true
		}
		for _, l := range it.Lines {
			for _, li := range l.Items {
				if li.Style != nil && s.Styles[li.Style.ID] == li.Style {
					resolved[li.Style] = true
				}
			}
		}
	}
	for _, rg := range s.Regions {
		if rg.Style != nil && s.Styles[rg.Style.ID] == rg.Style {
			resolved[rg.Style] = true
		}
	}
	pan := ""
	func() {
		defer func() {
			if e := recover(); e != nil {
				pan = fmt.Sprint(e)
			}
		}()
		s.Optimize()
	}()
	desc := fmt.Sprintf("Optimize on %+v", g)
	if pan != "" {
		return "optimize.panic", desc + " panicked: " + pan, 0
	}
	gotSt, gotRg := mapKeys(s.Styles), mapKeys(s.Regions)
	if len(g.Cues) == 0 {
		if fmt.Sprint(gotSt) != fmt.Sprint(sortedCopy(g.Styles)) || fmt.Sprint(gotRg) != fmt.Sprint(sortedCopy(g.Regions)) {
			return "optimize.empty-list-touched", desc + ": an empty list must be left alone", 0
		}
		return "", "", core.Hash64("empty", fmt.Sprint(gotSt, gotRg))
	}
	es, er := g.reach()
	expSt, expRg := refops.SortedKeys(es), refops.SortedKeys(er)
	if fmt.Sprint(gotSt) != fmt.Sprint(expSt) {
		key := "optimize.styles-kept-unreachable"
		missing := []string{}
		for _, id := range expSt {
			if _, ok := s.Styles[id]; !ok {
				missing = append(missing, id)
			}
		}
		if len(missing) > 0 {
			key = "optimize.styles-deleted-reachable"
			// narrower classification: every missing style is reachable only through inheritance
			direct := map[string]bool{}
			for _, c := range g.Cues {
				direct[bare(c.Style)] = true
				for _, r := range c.Runs {
					direct[bare(r)] = true
				}
				if c.Region != "" {
					direct[bare(g.RegionStyle[bare(c.Region)])] = true
				}
			}
			onlyParents := true
			for _, id := range missing {
				if direct[id] {
					onlyParents = false
				}
			}
			if onlyParents {
				key = "optimize.parent-style-deleted"
			}
		}
		return key, fmt.Sprintf("%s: expected styles %v, got %v", desc, expSt, gotSt), 0
	}
	if fmt.Sprint(gotRg) != fmt.Sprint(expRg) {
		return "optimize.regions", fmt.Sprintf("%s: expected regions %v, got %v", desc, expRg, gotRg), 0
	}
	for k, v := range s.Styles {
		if stPtr[k] != v || v.ID != k {
			return "optimize.definition-replaced", desc + ": style object replaced", 0
		}
		if defSnap["s:"+k] != fmt.Sprintf("%s %p %p", v.ID, v.Style, v.InlineStyle) {
			return "optimize.definition-edited", desc + ": kept style " + k + " was modified", 0
		}
		if v.Style != nil && s.Styles[v.Style.ID] != v.Style {
			return "optimize.dangling", desc + ": parent of style " + k + " no longer resolves", 0
		}
	}
	for k, v := range s.Regions {
		if rgPtr[k] != v {
			return "optimize.definition-replaced", desc + ": region object replaced", 0
		}
		if defSnap["r:"+k] != fmt.Sprintf("%s %p %p", v.ID, v.Style, v.InlineStyle) {
			return "optimize.definition-edited", desc + ": kept region " + k + " was modified", 0
		}
		if v.Style != nil && resolved[v.Style] && s.Styles[v.Style.ID] != v.Style {
			return "optimize.dangling", desc + ": style of region " + k + " no longer resolves", 0
		}
	}
	for _, it := range s.Items {
		if it.Style != nil && resolved[it.Style] && s.Styles[it.Style.ID] != it.Style || it.Region != nil && resolved[it.Region] && s.Regions[it.Region.ID] != it.Region {
			return "optimize.dangling", desc + ": a cue reference no longer resolves", 0
		}
		for _, l := range it.Lines {
			for _, li := range l.Items {
				if li.Style != nil && resolved[li.Style] && s.Styles[li.Style.ID] != li.Style {
					return "optimize.dangling", desc + ": a run reference no longer resolves", 0
				}
			}
		}
	}
	if itemsSnap(s) != before {
		return "optimize.cues-touched", desc + ": cues changed", 0
	}
	s.Optimize()
	if fmt.Sprint(mapKeys(s.Styles)) != fmt.Sprint(gotSt) || fmt.Sprint(mapKeys(s.Regions)) != fmt.Sprint(gotRg) || itemsSnap(s) != before {
		return "optimize.not-idempotent", desc + ": second Optimize changed something", 0
	}
	return "", "", core.Hash64(fmt.Sprint(gotSt, gotRg))
}

func sortedCopy(a []string) []string {
	o := append([]string{}, a...)
	sort.Strings(o)
	return o
}

// noStyling walks the value reflectively and reports the path of the first non-nil *Style,
// *Region or *StyleAttributes.
func noStyling(v reflect.Value, path string, seen map[uintptr]bool) string {
	switch v.Kind() {
	case reflect.Ptr:
		if v.IsNil() {
			return ""
		}
		switch v.Type().Elem().Name() {
		case "Style", "Region", "StyleAttributes":
			return path
		}
		if seen[v.Pointer()] {
			return ""
		}
		seen[v.Pointer()] = true
		return noStyling(v.Elem(), path, seen)
	case reflect.Struct:
		for i := 0; i < v.NumField(); i++ {
			if p := noStyling(v.Field(i), path+"."+v.Type().Field(i).Name, seen); p != "" {
				return p
			}
		}
	case reflect.Slice:
		for i := 0; i < v.Len(); i++ {
			if p := noStyling(v.Index(i), fmt.Sprintf("%s[%d]", path, i), seen); p != "" {
				return p
			}
		}
	case reflect.Map:
		for _, k := range v.MapKeys() {
			if p := noStyling(v.MapIndex(k), fmt.Sprintf("%s[%v]", path, k), seen); p != "" {
				return p
			}
		}
	}
	return ""
}

func plainSnap(s *astisub.Subtitles) string {
	var b strings.Builder
	for _, it := range s.Items {
		fmt.Fprintf(&b, "%p %d-%d|", it, it.StartAt, it.EndAt)
		for _, l := range it.Lines {
			fmt.Fprintf(&b, "{%q", l.VoiceName)
			for _, li := range l.Items {
				fmt.Fprintf(&b, "[%q at=%d]", li.Text, li.StartAt) // the inline timestamp of a run is timing, not styling
			}
			b.WriteString("}")
		}
	}
	return b.String()
}

func checkRemoveStyling(g Graph) (string, string, uint64) {
	s := g.Build()
	for _, it := range s.Items {
		it.InlineStyle = &astisub.StyleAttributes{SRTItalics: true}
	}
	before := plainSnap(s)
	s.RemoveStyling()
	desc := fmt.Sprintf("RemoveStyling on %+v", g)
	if plainSnap(s) != before {
		return "removestyling.cues-touched", desc + ": timing, text, voice or order changed", 0
	}
	if p := noStyling(reflect.ValueOf(s), "s", map[uintptr]bool{}); p != "" {
		return "removestyling.left", desc + ": styling left at " + p, 0
	}
	return "", "", core.Hash64(ptrRe.ReplaceAllString(before, "")) // outcome = content without the addresses
}

var ptrRe = regexp.MustCompile(`0x[0-9a-f]+ `)

// forests enumerates every parent map over ids that is a forest (no cycles).
func forests(ids []string) []map[string]string {
	var out []map[string]string
	choice := make([]int, len(ids)) // 0 = root, k = parent ids[k-1]
	var rec func(i int)
	rec = func(i int) {
		if i == len(ids) {
			// cycle check
			for s := range ids {
				seen := map[int]bool{}
				x := s
				for choice[x] != 0 {
					if seen[x] {
						return
					}
					seen[x] = true
					x = choice[x] - 1
				}
			}
			m := map[string]string{}
			for k, c := range choice {
				if c != 0 {
					m[ids[k]] = ids[c-1]
				}
			}
			out = append(out, m)
			return
		}
		for c := 0; c <= len(ids); c++ {
			if c-1 == i {
				continue
			}
			choice[i] = c
			rec(i + 1)
		}
	}
	rec(0)
	return out
}

func c13Run(c *core.Ctx) {
	run := func(g Graph, sub string) {
		key, msg, out := checkOptimize(g)
		c.Transitions++
		c.Traces++
		es, er := g.reach()
		c.State(core.Hash64(fmt.Sprintf("%+v", g)))
		nt := uint64(0)
		if len(g.Cues) > 0 && (len(es) < len(g.Styles) || len(er) < len(g.Regions)) {
			nt = core.Hash64("opt", fmt.Sprintf("%+v", g))
		}
		c.Record(sub, out, nt, func() interface{} { return g })
		if key != "" {
			c.Violate("optimize", key, msg, g, len(g.Cues)*10+len(g.Parent)+len(g.RegionStyle))
		}
		key, msg, out = checkRemoveStyling(g)
		c.Transitions++
		c.Traces++
		c.Record("removestyling", out, core.Hash64("rs", fmt.Sprintf("%+v", g)), nil)
		if key != "" {
			c.Violate("removestyling", key, msg, g, len(g.Cues))
		}
	}
	expired := false
	enum := func(styles, regions []string, withPairs bool) {
		sopt := append([]string{""}, styles...)
		ropt := append([]string{""}, regions...)
		fs := forests(styles)
		var cueShapes []GCue
		// quick: cues with one run; thorough: also two runs
		for _, st := range sopt {
			for _, rg := range ropt {
				for _, r1 := range sopt {
					cueShapes = append(cueShapes, GCue{st, rg, []string{r1}, false})
					if c.Tier == core.Thorough {
						for _, r2 := range sopt {
							cueShapes = append(cueShapes, GCue{st, rg, []string{r1, r2}, false}, GCue{st, rg, []string{r1, r2}, true})
						}
					}
				}
			}
		}
		var cueLists [][]GCue
		cueLists = append(cueLists, nil)
		for _, a := range cueShapes {
			cueLists = append(cueLists, []GCue{a})
		}
		twoRun := []GCue{}
		for _, r1 := range sopt {
			for _, r2 := range sopt {
				twoRun = append(twoRun, GCue{"", "", []string{r1, r2}, false}, GCue{"", "", []string{r1, r2}, true})
			}
		}
		for _, a := range twoRun {
			cueLists = append(cueLists, []GCue{a})
		}
		for i, a := range cueShapes {
			if !withPairs {
				break
			}
			for j, b := range cueShapes {
				if c.Tier == core.Quick && len(cueShapes) > 60 && (i+j)%2 == 1 {
					continue
				}
				cueLists = append(cueLists, []GCue{a, b})
			}
		}
		for _, f := range fs {
			for _, rs1 := range sopt {
				if rs1 != "" && len(regions) < 1 {
					continue
				}
				for _, rs2 := range sopt {
					if rs2 != "" && len(regions) < 2 {
						continue
					}
					for _, cl := range cueLists {
						if !c.Mine() {
							continue
						}
						g := Graph{Styles: styles, Regions: regions, Parent: f, RegionStyle: map[string]string{}, Cues: cl}
						if rs1 != "" {
							g.RegionStyle[regions[0]] = rs1
						}
						if rs2 != "" {
							g.RegionStyle[regions[1]] = rs2
						}
						run(g, "optimize")
					}
				}
			}
			if c.Expired() {
				expired = true
				return
			}
		}
	}
	// the full definition set with cue pairs, then every smaller set of definitions (0..3 styles x 0..2 regions: a
	// list without any style, without any region, with a single definition ...) with the empty list and single cues
	allS, allR := []string{"a", "b", "c"}, []string{"r", "q"}
	enum(allS, allR, true)
	for sm := 0; sm < 8 && !expired; sm++ {
		for rm := 0; rm < 4 && !expired; rm++ {
			if sm == 7 && rm == 3 {
				continue
			}
			var ss, rr []string
			for i, id := range allS {
				if sm>>i&1 == 1 {
					ss = append(ss, id)
				}
			}
			for i, id := range allR {
				if rm>>i&1 == 1 {
					rr = append(rr, id)
				}
			}
			enum(ss, rr, false)
		}
	}
	// the same graphs under identifiers that mean something to a format ("Default" is the style SSA players fall back
	// on, "default" / "*Default" its look-alikes): what Optimize keeps depends on reachability, never on a name
	for _, names := range [][]string{{"Default", "b", "c"}, {"a", "Default", "*Default"}, {"default", "Default", "c"}} {
		if !expired {
			enum(names, allR, false)
		}
		for i := range names {
			if !expired {
				enum([]string{names[i]}, allR[:1], false)
			}
		}
	}
	if expired {
		return
	}
	// loose references: cue, run and region references to objects that are not the table's (same identifier as a
	// definition, or an identifier the table does not have), alone and next to an ordinary cue
	for _, f := range forests(allS) {
		for _, rs1 := range []string{"", "b", "c", "~b", "~c", "~zz"} {
			for _, st := range []string{"", "a", "~a", "~zz"} {
				for _, rg := range []string{"", "r", "~r", "~zz"} {
					for _, r1 := range []string{"", "b", "~b", "~zz"} {
						if !strings.Contains(st+rg+r1+rs1, "~") || !c.Mine() {
							continue
						}
						for _, second := range [][]GCue{nil, {{Style: "c", Region: "q", Runs: []string{""}}}} {
							g := Graph{Styles: allS, Regions: allR, Parent: f, RegionStyle: map[string]string{}, Cues: append([]GCue{{st, rg, []string{r1}, false}}, second...)}
							if rs1 != "" {
								g.RegionStyle["r"] = rs1
							}
							run(g, "optimize.loose")
						}
					}
				}
			}
		}
	}
	regions := allR
	// inheritance chains of depth 4 and 5, referenced at each level through each kind of edge
	chain := []string{"a", "b", "c", "d", "e"}
	par := map[string]string{"a": "b", "b": "c", "c": "d", "d": "e"}
	for i, id := range chain {
		for kind := 0; kind < 3; kind++ {
			if !c.Mine() {
				continue
			}
			g := Graph{Styles: chain, Regions: regions, Parent: par, RegionStyle: map[string]string{}}
			switch kind {
			case 0:
				g.Cues = []GCue{{Style: id, Runs: []string{""}}}
			case 1:
				g.Cues = []GCue{{Runs: []string{id}}}
			case 2:
				g.RegionStyle["r"] = id
				g.Cues = []GCue{{Region: "r", Runs: []string{""}}}
			}
			_ = i
			run(g, "optimize.chain")
		}
	}
}

func c13Replay(sub string, raw json.RawMessage) (string, bool) {
	var g Graph
	if err := json.Unmarshal(raw, &g); err != nil {
		return err.Error(), false
	}
	if sub == "removestyling" {
		key, msg, _ := checkRemoveStyling(g)
		return msg, key != ""
	}
	key, msg, _ := checkOptimize(g)
	return msg, key != ""
}

func init() {
	core.Register(&core.Prop{
		ID: "C13", Level: "model_checking",
		Rule: "states = reference graphs (cue->style, run->style, cue->region, region->style, style->parent forest, unused and shared definitions); transitions = the real Optimize / RemoveStyling on a fresh real list built from the graph, compared with a reachability closure computed by the harness (kept ids, every remaining reference resolves, cues untouched, idempotent, empty list untouched) and with a reflective no-styling-left walk; conversion sub-check: the optimized list is written by every writer and read back (see C13 conv); non-trivial = at least one definition is unreachable",
		Scope: map[core.Tier]string{
			core.Quick:    "ALL graphs over 3 styles (all 16 parent forests) x 2 regions (all 16 style refs) and over every smaller definition set (0..3 styles x 0..2 regions, incl. none of either kind) x cue lists: empty, every single cue (style x region x 1 run), every 2-run cue, half of all cue pairs; inheritance chains of depth 4-5 reached through each edge kind; the same single-cue graphs under the identifiers Default / default / *Default; loose references (an object of the identifier that is not the table's, identifier defined or not) as cue style, run style, cue region and a region definition's style x 16 forests, alone and next to an ordinary cue",
			core.Thorough: "same with every cue having 1 or 2 runs and all cue pairs",
		},
		Assumptions: []string{"Go toolchain and standard library", "definitions are stored under their own identifier and every reference points into the maps (property wording: keyed by their identifier)", "reference reachability refops.Reach"},
		Plain:       c13Run, Replay: c13Replay,
	})
}
