package listops

import (
	"encoding/json"
	"fmt"
	"time"

	"verif/core"
	"verif/props/lm"
	"verif/props/refops"
)

// checkAdd applies the real Add(d) (and then Add(-d)) to a fresh real list built from l and
// compares with the specification. Returns the model successor and "" or a violation key+message.
func checkAdd(l lm.List, d int64) (lm.List, string, string) {
	r := lm.Build(l, []string{"a"}, []string{"r"})
	r.Subs.Add(time.Duration(d))
	got := r.Extract()
	exp := refops.Add(l, d)
	if !lm.Equal(got, exp) {
		key := "add.times"
		if len(got) != len(exp) {
			key = "add.survivors"
		} else {
			for i := range got {
				if got[i].U != exp[i].U {
					key = "add.order-or-survivors"
				}
			}
		}
		return exp, key, fmt.Sprintf("Add(%s) on %s: expected %s, got %s", lm.D(d), l, exp, got)
	}
	for _, it := range r.Subs.Items {
		if !r.IsOriginal(it) {
			return exp, "add.identity", fmt.Sprintf("Add(%s) on %s: a surviving cue is not the original *Item", lm.D(d), l)
		}
		if s, _ := r.OrigSnap(it); s != lm.ContentSnap(it) {
			return exp, "add.content", fmt.Sprintf("Add(%s) on %s: content of a survivor changed: %s -> %s", lm.D(d), l, s, lm.ContentSnap(it))
		}
	}
	// inverse law on the same object
	r.Subs.Add(time.Duration(-d))
	back := r.Extract()
	expBack := refops.Add(exp, -d)
	if !lm.Equal(back, expBack) {
		return exp, "add.inverse", fmt.Sprintf("Add(%s) then Add(%s) on %s: expected %s, got %s", lm.D(d), lm.D(-d), l, expBack, back)
	}
	// the law itself, from the property sentence: cues neither clamped nor removed come back
	byU := map[int]lm.Cue{}
	for _, c := range back {
		byU[c.U] = c
	}
	for _, c := range l {
		removed1 := c.E+d <= 0
		clamped := c.S+d < 0
		removed2 := !removed1 && c.E <= 0
		if removed1 || clamped || removed2 {
			continue
		}
		b, ok := byU[c.U]
		if !ok || b.S != c.S || b.E != c.E {
			return exp, "add.inverse-law", fmt.Sprintf("Add(%s) then Add(%s) on %s: cue #%d not restored, got %s", lm.D(d), lm.D(-d), l, c.U, back)
		}
	}
	return exp, "", ""
}

func addDeltas(l lm.List, unit int64) []int64 {
	// d over -(max end + 1) .. +3 grid steps
	me := maxEnd(l) / unit
	var ds []int64
	for d := -(me + 1); d <= 3; d++ {
		if d != 0 {
			ds = append(ds, d*unit)
		}
	}
	return ds
}

func c09Run(c *core.Ctx) {
	longRun(c, "add")
	againRun(c, "add")
	type scope struct {
		grid  int64
		max   int
		units []int64
	}
	var scopes []scope
	var chainMax int
	var chainGrid int64
	var chainDepth int
	if c.Tier == core.Quick {
		scopes = []scope{{5, 3, []int64{ms}}, {4, 2, []int64{ns, sec, hour + ms}}, {3, 3, []int64{ns, hour + ms}}, {5, 2, []int64{25*hour + ms}}} // the last: cues up to 125 h
		chainMax, chainGrid, chainDepth = 2, 3, 3
	} else {
		scopes = []scope{{5, 3, []int64{ns, ms, sec, hour + ms, 25*hour + ms}}, {4, 4, []int64{ms, hour + ms}}}
		chainMax, chainGrid, chainDepth = 3, 3, 3
	}
	texts := []string{"x|1\n\n2", "y"} // first text: two runs on the first line, an empty line, a third line
	// (a) every list in scope x every d, also d = +24h and d = 0
	for _, sc := range scopes {
		a := cueAlphabet(sc.grid, texts, false)
		for _, unit := range sc.units {
			enumLists(a, sc.max, false, false, func(l0 lm.List) bool {
				if !c.Mine() {
					return true
				}
				l := decorate(l0.Scale(unit))
				ds := append(addDeltas(l, unit), 24*hour, 0)
				if unit != ns {
					ds = append(ds, -1, 1) // nanosecond nudges around the grid: clamping at ns granularity
				}
				for _, d := range ds {
					exp, key, msg := checkAdd(l, d)
					c.Transitions++
					c.Traces++
					nt := uint64(0)
					if len(exp) != len(l) || (len(exp) > 0 && exp[0].S == 0 && d < 0) {
						nt = core.Hash64("add", l.Key(), fmt.Sprint(d)) // removal or clamping happened
					}
					c.State(core.Hash64(l.Key()))
					c.State(core.Hash64(exp.Key()))
					c.Record("add.single", core.Hash64(exp.Key()), nt, func() interface{} {
						return opCase{Op: "add", Unit: unit, List: l.Clone(), P: []int64{d}}
					})
					if key != "" {
						c.Violate("add.single", key, msg, opCase{Op: "add", Unit: unit, List: l.Clone(), P: []int64{d}}, len(l)*100+int(sc.grid))
					}
				}
				return !c.Expired()
			})
		}
	}
	// (b) E3: breadth-first chaining of Adds from every small list, states deduplicated
	a := cueAlphabet(chainGrid, texts, false)
	for _, unit := range []int64{ms} {
		enumLists(a, chainMax, false, false, func(l0 lm.List) bool {
			if !c.Mine() {
				return true
			}
			type node struct {
				l    lm.List
				hist []int64
			}
			seen := map[string]bool{}
			fr := []node{{decorate(l0.Scale(unit)), nil}}
			seen[fr[0].l.Key()] = true
			for depth := 0; depth < chainDepth; depth++ {
				var next []node
				for _, n := range fr {
					for _, d := range addDeltas(n.l, unit) {
						exp, key, msg := checkAdd(n.l, d)
						c.Transitions++
						c.Traces++
						h := append(append([]int64{}, n.hist...), d)
						c.Record("add.chain", core.Hash64(exp.Key()), core.Hash64("chain", l0.Key(), fmt.Sprint(h)), func() interface{} {
							return opCase{Op: "add-chain", Unit: unit, List: decorate(l0.Scale(unit)), P: h}
						})
						if key != "" {
							c.Violate("add.chain", key, msg, opCase{Op: "add", Unit: unit, List: n.l.Clone(), P: []int64{d}}, len(n.l)*100+len(h))
						}
						k := exp.Key()
						c.State(core.Hash64(k))
						if !seen[k] && len(exp) > 0 {
							seen[k] = true
							next = append(next, node{exp, h})
						}
					}
				}
				fr = next
			}
			return !c.Expired()
		})
	}
}

func c09Replay(sub string, raw json.RawMessage) (string, bool) {
	var oc opCase
	if err := json.Unmarshal(raw, &oc); err != nil {
		return err.Error(), false
	}
	_, key, msg := checkAdd(oc.List, oc.P[0])
	return msg, key != ""
}

func init() {
	core.Register(&core.Prop{
		ID: "C09", Level: "model_checking",
		Rule: "states = canonical cue lists (start,end,text per cue, in order); transitions = Add(d) applied by the real code to a fresh real list rebuilt from the state and compared with the executable specification (survivors, order, identity, content, times) and with the inverse law; initial frontier = EVERY list in the small scope (any order, overlaps, zero-length, duplicates), chained breadth-first with state deduplication; a case is non-trivial when a cue was removed or clamped or it is a chain of >=1 shifts",
		Scope: map[core.Tier]string{
			core.Quick:    "all lists of <=3 cues on grid 0..5 (1ms unit), <=2 cues on 0..4 and <=3 on 0..3 with units 1ns,1s,1h+1ms; every d in -(max end+1)..+3 grid steps, d=+24h, d=0, d=+-1ns; BFS chains of Adds to depth 3 from all lists of <=2 cues on 0..3",
			core.Thorough: "all lists of <=3 cues on 0..5 x units {1ns,1ms,1s,1h+1ms}, <=4 cues on 0..4 x {1ms,1h+1ms}; same d ranges; BFS chains to depth 3 from all lists of <=3 cues on 0..3",
		},
		Assumptions: []string{"Go toolchain and standard library", "each cue has start <= end (property precondition)", "reference model refops.Add (11 lines)"},
		Plain:       c09Run, Replay: c09Replay,
	})
}
