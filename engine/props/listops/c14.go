package listops

import (
	"encoding/json"
	"fmt"
	"strings"
	"time"

	astisub "github.com/asticode/go-astisub"

	"verif/core"
	"verif/props/lm"
	"verif/props/refops"
)

func checkForce(l lm.List, d int64, filler bool) (lm.List, string, string) {
	exp := refops.ForceDuration(l, d, filler, -1)
	r := lm.Build(l, []string{"a"}, []string{"r"})
	pan := ""
	func() {
		defer func() {
			if e := recover(); e != nil {
				pan = fmt.Sprint(e)
			}
		}()
		r.Subs.ForceDuration(time.Duration(d), filler)
	}()
	desc := fmt.Sprintf("ForceDuration(%s, filler=%v) on %s", lm.D(d), filler, l)
	if pan != "" {
		return exp, "force.panic", desc + " panicked: " + pan
	}
	got := r.Extract()
	if !lm.Equal(got, exp) {
		key := "force.result"
		if len(got) == len(exp)+1 && got[len(got)-1].T == "..." {
			key = "force.unrequested-filler"
		} else if len(got)+1 == len(exp) {
			key = "force.missing-filler-or-cue"
		}
		return exp, key, fmt.Sprintf("%s: expected %s, got %s", desc, exp, got)
	}
	for _, it := range r.Subs.Items {
		if r.IsOriginal(it) {
			if s, _ := r.OrigSnap(it); s != lm.ContentSnap(it) {
				return exp, "force.content", desc + ": content of a kept cue changed"
			}
		}
	}
	if filler && len(got) > 0 && got[len(got)-1].E != d {
		return exp, "force.duration", fmt.Sprintf("%s: list does not last exactly d: %s", desc, got)
	}
	return exp, "", ""
}

func c14Run(c *core.Ctx) {
	longRun(c, "force")
	againRun(c, "force")
	if c.Shard == 0 {
		key, msg := fillerFresh()
		c.Record("filler-fresh", core.Hash64(key), core.Hash64("filler-fresh"), nil)
		if key != "" {
			c.Violate("force", key, msg, opCase{Op: "forceduration-filler-fresh"}, 1)
		}
	}
	maxN := 3
	units := []int64{ms, sec, 300000}
	if c.Tier == core.Thorough {
		maxN = 4
		units = []int64{ms, sec, hour + ms, 300000}
	}
	a := cueAlphabet(5, []string{"x|1\n\n2", "..."}, false) // the second text is the placeholder's own: a cue of the list, not a filler
	for _, unit := range units {
		enumLists(a, maxN, true, true, func(l0 lm.List) bool {
			if !c.Mine() {
				return true
			}
			l := decorate(l0.Scale(unit))
			for d := int64(1); d <= 7; d++ {
				for _, filler := range []bool{false, true} {
					ds := []int64{d * unit}
					if unit != ms {
						ds = append(ds, d*unit-ms, d*unit+ms) // just before / after a boundary
					}
					ds = append(ds, d*unit+1, d*unit+ms/2) // targets that are not a whole number of milliseconds
					if d*unit-1 >= ms {
						ds = append(ds, d*unit-1)
					}
					for _, dd := range ds {
						if dd < ms {
							continue // the property's precondition: a target of at least one millisecond
						}
						exp, key, msg := checkForce(l, dd, filler)
						c.Transitions++
						c.Traces++
						c.State(core.Hash64(l.Key()))
						c.State(core.Hash64(exp.Key()))
						nt := uint64(0)
						if !lm.Equal(exp, l) {
							nt = core.Hash64("force", l.Key(), fmt.Sprint(dd, filler))
						}
						cas := func() interface{} {
							return opCase{Op: "forceduration", Unit: unit, List: l.Clone(), P: []int64{dd}, Flag: filler}
						}
						c.Record("force", core.Hash64(exp.Key()), nt, cas)
						if key != "" {
							c.Violate("force", key, msg, cas(), len(l)*100+int(d))
						}
					}
				}
			}
			return !c.Expired()
		})
	}
}

// fillerFresh: every filler is a cue of its own - editing the one appended to a list (text, lines, style) must
// not show in the filler a later call appends to another list.
func fillerFresh() (string, string) {
	mk := func() *astisub.Subtitles {
		s := astisub.NewSubtitles()
		s.Items = append(s.Items, &astisub.Item{StartAt: time.Second, EndAt: 2 * time.Second, Lines: []astisub.Line{{Items: []astisub.LineItem{{Text: "x"}}}}})
		return s
	}
	a := mk()
	a.ForceDuration(5*time.Second, true)
	if len(a.Items) != 2 {
		return "", ""
	}
	fa := a.Items[1]
	before := lm.ItemText(fa)
	for li := range fa.Lines {
		fa.Lines[li].VoiceName = "edited"
		for ri := range fa.Lines[li].Items {
			fa.Lines[li].Items[ri].Text = "edited by the caller"
			fa.Lines[li].Items[ri].InlineStyle = &astisub.StyleAttributes{SRTBold: true}
		}
	}
	fa.Lines = append(fa.Lines, astisub.Line{Items: []astisub.LineItem{{Text: "added"}}})
	b := mk()
	b.ForceDuration(7*time.Second, true)
	if len(b.Items) != 2 {
		return "", ""
	}
	if got := lm.ContentSnap(b.Items[1]); lm.ItemText(b.Items[1]) != before || strings.Contains(got, "edited") {
		return "force.filler-shares-memory", fmt.Sprintf("a caller edited the filler cue appended to one list; the filler appended to another list afterwards reads %q instead of %q", lm.ItemText(b.Items[1]), before)
	}
	return "", ""
}

func c14Replay(sub string, raw json.RawMessage) (string, bool) {
	var oc opCase
	if err := json.Unmarshal(raw, &oc); err != nil {
		return err.Error(), false
	}
	if oc.Op == "forceduration-filler-fresh" {
		key, msg := fillerFresh()
		return msg, key != ""
	}
	_, key, msg := checkForce(oc.List, oc.P[0], oc.Flag)
	return msg, key != ""
}

func init() {
	core.Register(&core.Prop{
		ID: "C14", Level: "model_checking",
		Rule: "states = canonical well-formed timelines (ordered by start, non-decreasing ends); transitions = the real ForceDuration(d, filler) on a fresh real list compared with the property sentence written as a list comprehension (removed / shortened / untouched cues, filler [d-1ms,d) only when requested and needed, identical list when it already lasts d); plus: a filler edited by the caller does not show in the filler of a later call; non-trivial = the list changed",
		Scope: map[core.Tier]string{
			core.Quick:    "all timelines of <=3 cues on 0..5 (gaps, abutting, overlapping, zero-length; two texts) x d in 1..7 grid steps (before the first cue, inside, in a gap, on a boundary, beyond) and d+-1ms, d+-1ns, d+0.5ms x filler in {false,true} x units {1ms,1s}; unit 300 us",
			core.Thorough: "<=4 cues, units {1ms,1s,1h+1ms}",
		},
		Assumptions: []string{"Go toolchain and standard library", "list ordered by start with non-decreasing ends, d >= 1ms (property preconditions)", "reference model refops.ForceDuration"},
		Plain:       c14Run, Replay: c14Replay,
	})
}
