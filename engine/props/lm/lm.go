// Package lm is the boring reference model of a cue list used by the E3 searches (C07, C09-C15):
// plain tuples, plus builders that turn a model list into a fresh real *astisub.Subtitles and
// read it back.
package lm

import (
	"fmt"
	"sort"
	"strings"
	"time"

	astisub "github.com/asticode/go-astisub"
)

// Cue is one model cue. Times are in nanoseconds.
type Cue struct {
	S, E int64
	T    string // text: lines separated by "\n"
	U    int    // uid: which original cue this is / comes from; -1 for cues made by an operation
	St   string // style id ("" none)
	Rg   string // region id ("" none)
}

type List []Cue

func (l List) Clone() List { return append(List(nil), l...) }

// Key is the canonical E3 state key: uids are not part of it (operations are equivariant under
// renaming of uids).
func (l List) Key() string {
	var b strings.Builder
	for _, c := range l {
		fmt.Fprintf(&b, "%d-%d:%s:%s:%s|", c.S, c.E, c.T, c.St, c.Rg)
	}
	return b.String()
}

func (l List) String() string {
	var b strings.Builder
	b.WriteString("[")
	for i, c := range l {
		if i > 0 {
			b.WriteString(" ")
		}
		fmt.Fprintf(&b, "%s..%s %q#%d", D(c.S), D(c.E), c.T, c.U)
		if c.St != "" {
			b.WriteString(" st=" + c.St)
		}
		if c.Rg != "" {
			b.WriteString(" rg=" + c.Rg)
		}
	}
	b.WriteString("]")
	return b.String()
}

// D renders a ns count compactly.
func D(n int64) string { return time.Duration(n).String() }

// TimesText projects to (S,E,T) with equal-start groups canonically ordered.
func (l List) NormEqualStarts() List {
	o := l.Clone()
	sort.SliceStable(o, func(i, j int) bool {
		if o[i].S != o[j].S {
			return false // keep relative order of different starts as is (caller ensures sorted)
		}
		if o[i].E != o[j].E {
			return o[i].E < o[j].E
		}
		return o[i].T < o[j].T
	})
	return o
}

// Real is a real cue list built from a model, with the bookkeeping needed for identity oracles.
type Real struct {
	Subs  *astisub.Subtitles
	UID   map[*astisub.Item]int
	Items []*astisub.Item // original items by position
	snap  map[*astisub.Item]string
	// ValueByUID: the by-value content of every original cue (see ValueSnap), by its uid
	ValueByUID map[int]string
}

func lines(t string) []astisub.Line {
	var ls []astisub.Line
	for _, s := range strings.Split(t, "\n") {
		// every run carries a non-zero inline timestamp and its own inline style object: content that list
		// operations must leave alone (ContentSnap sees both)
		// "|" separates the runs of a line
		ln := astisub.Line{VoiceName: "v"}
		for _, run := range strings.Split(s, "|") {
			ln.Items = append(ln.Items, astisub.LineItem{Text: run, StartAt: 1234567 * time.Nanosecond, InlineStyle: &astisub.StyleAttributes{SRTItalics: true}})
		}
		ls = append(ls, ln)
	}
	return ls
}

// Shown is the text of a cue as displayed: the runs of a line follow each other directly (runs carry their own
// blanks), so "xy" in one run and "x|y" in two are the same text in different segmentations.
func Shown(t string) string { return strings.ReplaceAll(t, "|", "") }

// Build makes a fresh real list. styles/regions: ids to define (every St/Rg used must be listed).
func Build(l List, styles, regions []string) *Real {
	s := astisub.NewSubtitles()
	for _, id := range styles {
		s.Styles[id] = &astisub.Style{ID: id, InlineStyle: &astisub.StyleAttributes{}}
	}
	for _, id := range regions {
		s.Regions[id] = &astisub.Region{ID: id, InlineStyle: &astisub.StyleAttributes{}}
	}
	r := &Real{Subs: s, UID: map[*astisub.Item]int{}, snap: map[*astisub.Item]string{}, ValueByUID: map[int]string{}}
	for _, c := range l {
		it := &astisub.Item{StartAt: time.Duration(c.S), EndAt: time.Duration(c.E), Lines: lines(c.T),
			Comments: []string{fmt.Sprintf("c%d", c.U)}, Index: c.U + 1, InlineStyle: &astisub.StyleAttributes{SRTBold: true}}
		if c.St != "" {
			it.Style = s.Styles[c.St]
		}
		if c.Rg != "" {
			it.Region = s.Regions[c.Rg]
		}
		s.Items = append(s.Items, it)
		r.Items = append(r.Items, it)
		r.UID[it] = c.U
		r.snap[it] = ContentSnap(it)
		r.ValueByUID[c.U] = ValueSnap(it)
	}
	return r
}

// ContentSnap captures everything of an item except its times: text, comments, index and the
// identities of the style/region/inline-style objects it points to.
func ContentSnap(it *astisub.Item) string {
	var b strings.Builder
	fmt.Fprintf(&b, "idx=%d comments=%q style=%p region=%p inline=%p lines=", it.Index, it.Comments, it.Style, it.Region, it.InlineStyle)
	for _, l := range it.Lines {
		fmt.Fprintf(&b, "{voice=%q", l.VoiceName)
		for _, li := range l.Items {
			fmt.Fprintf(&b, " [%q style=%p inline=%p at=%d]", li.Text, li.Style, li.InlineStyle, li.StartAt)
		}
		b.WriteString("}")
	}
	return b.String()
}

// ValueSnap captures the content of an item by VALUE (no addresses): number, comments, ids of the style / region
// it references, inline attributes, and per line the voice name and the runs with text, inline timestamp, style id
// and inline attributes. Two items made from one another by copying have equal ValueSnaps.
func ValueSnap(it *astisub.Item) string {
	var b strings.Builder
	sid := func(s *astisub.Style) string {
		if s == nil {
			return "-"
		}
		return s.ID
	}
	attrs := func(a *astisub.StyleAttributes) string {
		if a == nil {
			return "-"
		}
		// the fields the list model sets, plus a few a copying slip could touch (a full %+v of the 80-field struct
		// costs more than the operation under test)
		return fmt.Sprintf("b%t i%t u%t c%t al%q tags%d st%d", a.SRTBold, a.SRTItalics, a.SRTUnderline, a.SRTColor != nil, a.WebVTTAlign, len(a.WebVTTTags), len(a.WebVTTStyles))
	}
	rid := "-"
	if it.Region != nil {
		rid = it.Region.ID
	}
	fmt.Fprintf(&b, "comments=%q style=%s region=%s inline=%s lines=", it.Comments, sid(it.Style), rid, attrs(it.InlineStyle))
	for _, l := range it.Lines {
		fmt.Fprintf(&b, "{voice=%q", l.VoiceName)
		for _, li := range l.Items {
			fmt.Fprintf(&b, " [%q style=%s inline=%s at=%d]", li.Text, sid(li.Style), attrs(li.InlineStyle), li.StartAt)
		}
		b.WriteString("}")
	}
	return b.String()
}

// OrigSnap is the content snapshot taken when the list was built.
func (r *Real) OrigSnap(it *astisub.Item) (string, bool) { s, ok := r.snap[it]; return s, ok }

func ItemText(it *astisub.Item) string {
	var ls []string
	for _, l := range it.Lines {
		var runs []string
		for _, li := range l.Items {
			runs = append(runs, li.Text)
		}
		ls = append(ls, strings.Join(runs, "|"))
	}
	return strings.Join(ls, "\n")
}

// Extract reads the real list back into model form. Items that are not original pointers get
// uid -1 unless origin (by content: comment tag) can be told, in which case -2-uid... kept simple:
// the uid of a non-original item is recovered from its "c<uid>" comment when present (pieces made
// by copying an original carry it), else -1.
func (r *Real) Extract() List {
	var o List
	for _, it := range r.Subs.Items {
		c := Cue{S: int64(it.StartAt), E: int64(it.EndAt), T: ItemText(it), U: -1}
		if u, ok := r.UID[it]; ok {
			c.U = u
		} else if len(it.Comments) == 1 {
			var u int
			if _, err := fmt.Sscanf(it.Comments[0], "c%d", &u); err == nil {
				c.U = u
			}
		}
		if it.Style != nil {
			c.St = it.Style.ID
		}
		if it.Region != nil {
			c.Rg = it.Region.ID
		}
		o = append(o, c)
	}
	return o
}

// IsOriginal tells whether the item is one of the pointers the list was built with.
func (r *Real) IsOriginal(it *astisub.Item) bool { _, ok := r.UID[it]; return ok }

// Equal compares two lists on every field.
func Equal(a, b List) bool {
	if len(a) != len(b) {
		return false
	}
	for i := range a {
		if a[i] != b[i] {
			return false
		}
	}
	return true
}

// EqualNoUID compares on (S,E,T,St,Rg).
func EqualNoUID(a, b List) bool {
	if len(a) != len(b) {
		return false
	}
	for i := range a {
		x, y := a[i], b[i]
		x.U, y.U = 0, 0
		if x != y {
			return false
		}
	}
	return true
}

// Scale multiplies all times by unit.
func (l List) Scale(unit int64) List {
	o := l.Clone()
	for i := range o {
		o[i].S *= unit
		o[i].E *= unit
	}
	return o
}
