// Package c19: writers are pure and deterministic. The explorer owns every map walk of package
// astisub (instrumented build) and enumerates all permutations at every map-range site a writer
// executes; the plain build adds repetition within and across processes, purity snapshots, writer
// orders and the injectable clock.
package c19

import (
	"bytes"
	"crypto/sha1"
	"encoding/json"
	"fmt"
	"os"
	"os/exec"
	"sort"
	"strings"
	"time"

	"github.com/asticode/go-astikit"
	astisub "github.com/asticode/go-astisub"

	"verif/core"
	"verif/explore"
	"verif/hooks"
	"verif/props/corpus"
	"verif/props/purity"
)

// ListSpec is a cue list described by style/region profiles.
type ListSpec struct {
	Styles  []int `json:"style_profiles"`  // profile index per style s0,s1,...
	Regions []int `json:"region_profiles"` // profile per region r0,...
	Dates   bool  `json:"stl_dates_in_metadata"`
	IDs     int   `json:"id_scheme,omitempty"` // 0: s0,s1,.. / r0,r1,..; 1: identifiers equal up to case; 2: equal as numbers; 3: keys s0.. with blank ID fields; 4: keys s0.. with the same ID field; 5: the first style is called Default
}

// identifier schemes: distinct identifiers that tie under a weaker comparison a writer might sort by
// (case-insensitive, numeric, by length) - the output then depends on the map walk unless the order is total
var styleIDs = [][]string{nil, {"Title", "title", "TITLE", "tITLE", "TiTle", "titlE"}, {"1", "01", "001", "0001", "00001", "000001"}}
var regionIDs = [][]string{nil, {"Top", "top", "TOP", "tOP", "ToP", "toP"}, {"2", "02", "002", "0002", "00002", "000002"}}

func (ls ListSpec) styleID(i int) string {
	if ls.IDs == 5 && i == 0 {
		return "Default" // an identifier that means something to a format (the style SSA players fall back on)
	}
	if ls.IDs == 0 || ls.IDs >= 3 {
		return fmt.Sprintf("s%d", i)
	}
	return styleIDs[ls.IDs][i]
}

// idField: what the definition's own ID field holds - the key it is registered under, or (schemes 3 and 4) nothing /
// the same word for every definition: a list nobody read from a file, whose definitions tie under their ID field
func (ls ListSpec) idField(key string) string {
	switch ls.IDs {
	case 3:
		return ""
	case 4:
		return "same"
	}
	return key
}

func (ls ListSpec) regionID(i int) string {
	if ls.IDs == 0 || ls.IDs >= 3 {
		return fmt.Sprintf("r%d", i)
	}
	return regionIDs[ls.IDs][i]
}

var nStyleProfiles = 6
var nRegionProfiles = 3

func styleAttrs(p int) *astisub.StyleAttributes {
	switch p {
	case 0:
		return &astisub.StyleAttributes{SSABold: astikit.BoolPtr(true)}
	case 1:
		return &astisub.StyleAttributes{SSAFontSize: astikit.Float64Ptr(20)}
	case 2:
		return &astisub.StyleAttributes{SSAFontName: "Arial", SSAPrimaryColour: astisub.ColorRed}
	case 3:
		return &astisub.StyleAttributes{WebVTTStyles: []string{"::cue(a) {", "color: red;", "}"}}
	case 4:
		return &astisub.StyleAttributes{WebVTTStyles: []string{"::cue(b) { color: blue; }"}}
	default:
		return &astisub.StyleAttributes{TTMLColor: astikit.StrPtr("white"), SSAItalic: astikit.BoolPtr(false), SSAAlignment: astikit.IntPtr(2)}
	}
}

func regionAttrs(p int) *astisub.StyleAttributes {
	switch p {
	case 0:
		return &astisub.StyleAttributes{WebVTTLines: 3, WebVTTWidth: "40%"}
	case 1:
		return &astisub.StyleAttributes{TTMLOrigin: astikit.StrPtr("10% 80%"), TTMLExtent: astikit.StrPtr("80% 10%")}
	default:
		return &astisub.StyleAttributes{WebVTTRegionAnchor: "0%,100%", WebVTTScroll: "up"}
	}
}

func (ls ListSpec) Build() *astisub.Subtitles {
	s := astisub.NewSubtitles()
	s.Metadata = &astisub.Metadata{Framerate: 25, STLDisplayStandardCode: "0", Title: "t", Language: astisub.LanguageFrench, SSAScriptType: "v4.00",
		Comments: []string{"first\nsecond", " third "}} // comments a writer may want to split or trim: not in place
	if ls.Dates {
		d := time.Date(2021, 3, 4, 0, 0, 0, 0, time.UTC)
		e := time.Date(2022, 5, 6, 0, 0, 0, 0, time.UTC)
		s.Metadata.STLCreationDate, s.Metadata.STLRevisionDate = &d, &e
	}
	for i, p := range ls.Styles {
		id := ls.styleID(i)
		s.Styles[id] = &astisub.Style{ID: ls.idField(id), InlineStyle: styleAttrs(p)}
	}
	for i, p := range ls.Regions {
		id := ls.regionID(i)
		s.Regions[id] = &astisub.Region{ID: ls.idField(id), InlineStyle: regionAttrs(p)}
	}
	for k := 0; k < 2; k++ {
		// content a normalising writer would be tempted to rewrite in place: outer blanks, characters every format
		// escapes, a composed letter, several runs; every slice has spare capacity (an in-place append shows there)
		runs := make([]astisub.LineItem, 0, 4)
		runs = append(runs, astisub.LineItem{Text: fmt.Sprintf(" cue %d a&b<c ", k), InlineStyle: &astisub.StyleAttributes{SRTBold: true, WebVTTTags: []astisub.WebVTTTag{{Name: "b"}}}},
			astisub.LineItem{Text: "\u00e9 x ", StartAt: time.Duration(k+1)*time.Second + 500*time.Millisecond,
				// values behind pointers in a spelling a normalising writer would fold (upper-case hex, outer blanks): a
				// writer may fold what it writes, not the caller's string (seed c19aj)
				InlineStyle: &astisub.StyleAttributes{TTMLColor: astikit.StrPtr("#FFFF00"), SRTColor: astikit.StrPtr("#FF00FF"), TTMLFontStyle: astikit.StrPtr("Italic")}})
		lines := make([]astisub.Line, 0, 3)
		lines = append(lines, astisub.Line{VoiceName: "v", Items: runs}, astisub.Line{Items: []astisub.LineItem{{Text: "second"}}})
		comments := make([]string, 0, 2)
		comments = append(comments, " note ")
		it := &astisub.Item{StartAt: time.Duration(k+1) * time.Second, EndAt: time.Duration(k+2) * time.Second, InlineStyle: &astisub.StyleAttributes{}, Comments: comments,
			Lines: lines}
		if k == 1 {
			it.InlineStyle = nil // a writer must not fill in what is absent
		}
		if len(ls.Styles) > k {
			it.Style = s.Styles[ls.styleID(k)]
		}
		if len(ls.Regions) > 0 && k == 0 {
			it.Region = s.Regions[ls.regionID(0)]
		}
		s.Items = append(s.Items, it)
	}
	// a third cue with what a tidying writer would want to drop or renumber: an empty line between two others, a
	// line without runs, a line of blanks, a number out of sequence, an end before the previous cue's start
	lines := make([]astisub.Line, 0, 8)
	lines = append(lines, astisub.Line{Items: []astisub.LineItem{{Text: "top"}}}, astisub.Line{Items: []astisub.LineItem{{Text: ""}}},
		astisub.Line{Items: []astisub.LineItem{{Text: "bottom"}}}, astisub.Line{}, astisub.Line{Items: []astisub.LineItem{{Text: "  "}}}, astisub.Line{Items: []astisub.LineItem{{Text: "last"}}})
	// ... and a position near the bottom of the screen that its six lines do not fit under: a writer may move what it
	// writes, not the position it was given
	s.Items = append(s.Items, &astisub.Item{Index: 7, StartAt: 500 * time.Millisecond, EndAt: 900 * time.Millisecond, Lines: lines,
		InlineStyle: &astisub.StyleAttributes{STLPosition: &astisub.STLPosition{VerticalPosition: 22, MaxRows: 23, Rows: 6}}})
	return s
}

// multisets of size 0..max over n profiles (non-decreasing sequences)
func multisets(n, max int) [][]int {
	out := [][]int{{}}
	var rec func(cur []int, from int)
	rec = func(cur []int, from int) {
		if len(cur) == max {
			return
		}
		for p := from; p < n; p++ {
			nx := append(append([]int{}, cur...), p)
			out = append(out, nx)
			rec(nx, p)
		}
	}
	rec(nil, 0)
	return out
}

func specs(tier core.Tier) []ListSpec {
	maxS, maxR := 4, 3
	if tier == core.Thorough {
		maxS = 5
	}
	var out []ListSpec
	for _, st := range multisets(nStyleProfiles, maxS) {
		for _, rg := range multisets(nRegionProfiles, maxR) {
			if tier == core.Quick && len(rg) > 2 {
				continue
			}
			out = append(out, ListSpec{Styles: st, Regions: rg, Dates: true})
			if len(st) >= 1 && len(st) <= 2 {
				out = append(out, ListSpec{Styles: st, Regions: rg, Dates: true, IDs: 5})
			}
			if len(st) >= 2 || len(rg) >= 2 {
				for ids := 1; ids <= 4; ids++ {
					if len(st) <= 3 || tier == core.Thorough {
						out = append(out, ListSpec{Styles: st, Regions: rg, Dates: true, IDs: ids})
					}
				}
			}
		}
	}
	// larger maps (5-6 entries): rotations and adjacent transpositions only
	out = append(out, ListSpec{Styles: []int{0, 1, 2, 3, 4, 5}, Regions: []int{0, 1, 2}, Dates: true},
		ListSpec{Styles: []int{0, 0, 1, 2, 5}, Regions: []int{0, 1, 2, 0, 1, 2}, Dates: true},
		// "independent of the number of styles and regions": counts past the usual small-size thresholds (8, 16)
		ListSpec{Styles: []int{0, 1, 2, 3, 4, 5, 0, 1, 2}, Regions: []int{0, 1, 2, 0, 1, 2, 0, 1, 2}, Dates: true},
		ListSpec{Styles: []int{0, 1, 2, 3, 4, 5, 0, 1, 2, 3, 4, 5, 0, 1, 2, 3, 4}, Regions: []int{0, 1, 2, 0, 1, 2, 0, 1, 2, 0, 1, 2, 0, 1, 2, 0, 1}, Dates: true})
	return out
}

// permutation number k of n elements (Lehmer code); for n > 4: identity, rotations, adjacent transpositions.
func nPerms(n int) int {
	if n <= 4 {
		f := 1
		for i := 2; i <= n; i++ {
			f *= i
		}
		return f
	}
	return 1 + (n - 1) + (n - 1)
}

func perm(n, k int) []int {
	p := make([]int, n)
	for i := range p {
		p[i] = i
	}
	if n <= 4 {
		avail := append([]int{}, p...)
		f := nPerms(n)
		out := make([]int, 0, n)
		for i := n; i >= 1; i-- {
			f /= i
			j := k / f
			k %= f
			out = append(out, avail[j])
			avail = append(avail[:j], avail[j+1:]...)
		}
		return out
	}
	if k == 0 {
		return p
	}
	if k < n { // rotation by k
		for i := range p {
			p[i] = (i + k) % n
		}
		return p
	}
	t := k - n // adjacent transposition t,t+1
	p[t], p[t+1] = p[t+1], p[t]
	return p
}

type OrderCase struct {
	Spec    ListSpec `json:"list"`
	Writer  string   `json:"writer"`
	Choices []int    `json:"map_order_choices"`
}

func writeUnder(spec ListSpec, writer string, x *explore.C) (string, string) {
	s := spec.Build()
	hooks.SetMapOrder(func(site int, n int) []int {
		k := x.Choose(fmt.Sprintf("maporder@%d/%d", site, n), nPerms(n))
		return perm(n, k)
	})
	defer hooks.SetMapOrder(nil)
	var b bytes.Buffer
	err, pan := corpus.Write(writer, s, &b)
	if pan != "" {
		return "", "panic: " + pan
	}
	if err != nil {
		return "", "error: " + err.Error()
	}
	return b.String(), ""
}

func instrRun(c *core.Ctx) {
	if !hooks.Instrumented {
		return
	}
	// byte-comparing checks that presuppose a fixed map order run here, where every map walk is in
	// sorted order (hooks inert), so that they are independent of the map-order question above
	for _, sp := range plainSpecs() {
		orders := permsOf(corpus.WriteFormats)
		// the same writer called with and without a per-call option, in every order of the three
		for _, o := range permsOf([]string{"ttml", "ttml-tab", "ttml-noindent"}) {
			orders = append(orders, o, append(append([]string{}, o...), o[0], "vtt", o[1]))
		}
		for _, o := range orders {
			if !c.Mine() {
				continue
			}
			pc := PlainCase{Kind: "writer-order", Spec: sp, Order: o}
			key, msg, out := checkPlain(pc)
			c.Traces++
			c.Transitions += 5
			c.Record("writer-order", out, core.Hash64(fmt.Sprintf("%+v", pc)), func() interface{} { return pc })
			if key != "" {
				c.Violate("plain", key, msg, pc, len(sp.Styles))
			}
		}
		if c.Mine() {
			pc := PlainCase{Kind: "clock", Spec: sp}
			key, msg, out := checkPlain(pc)
			c.Traces++
			c.Record("clock", out, core.Hash64(fmt.Sprintf("%+v", pc)), func() interface{} { return pc })
			if key != "" {
				c.Violate("plain", key, msg, pc, len(sp.Styles))
			}
		}
	}
	astisub.Now = func() time.Time { return time.Date(2020, 1, 2, 3, 4, 5, 0, time.UTC) }
	for _, spec := range specs(c.Tier) {
		for _, w := range corpus.WriteFormats {
			if !c.Mine() {
				continue
			}
			base, berr := writeUnder(spec, w, explore.Run(nil, func(*explore.C) {}))
			if berr != "" {
				c.Record("maporder.skip", core.Hash64(berr), 0, nil)
				c.Extra["writes_failing_fault_free"]++
				continue
			}
			var got, gerr string
			n := explore.Explore(-1, func(x *explore.C) { got, gerr = writeUnder(spec, w, x) }, func(x *explore.C) bool {
				c.Transitions += int64(len(x.Trace))
				c.Traces++
				for i := range x.Sites {
					c.State(core.Hash64(fmt.Sprint(spec), w, x.Sites[i]))
				}
				nt := uint64(0)
				if len(x.Trace) > 0 {
					nt = core.Hash64(fmt.Sprint(spec), w, fmt.Sprint(x.Trace))
				}
				c.Record("maporder."+w, core.Hash64(got, gerr), nt, func() interface{} {
					return OrderCase{spec, w, append([]int{}, x.Trace...)}
				})
				if got != base || gerr != "" {
					c.Violate("maporder", "order."+w+".depends-on-map-order", fmt.Sprintf("%s writer, list %+v: output under map order choices %v (sites %v) differs from the output under sorted order:\n--- sorted order:\n%s\n--- this order:\n%s%s", w, spec, x.Trace, x.Sites, trunc(base), trunc(got), gerr),
						OrderCase{spec, w, append([]int{}, x.Trace...)}, len(spec.Styles)*10+len(spec.Regions))
				}
				return true
			})
			_ = n
		}
		if c.Expired() {
			return
		}
	}
}

func trunc(s string) string {
	if len(s) > 900 {
		return s[:900] + "…"
	}
	return s
}

func sha(s string) string { h := sha1.Sum([]byte(s)); return fmt.Sprintf("%x", h[:8]) }

// plainSpecs: the lists used for repetition / cross-process / purity checks.
func plainSpecs() []ListSpec {
	return []ListSpec{
		{Styles: []int{0, 1, 2}, Regions: []int{0, 1}, Dates: true},
		{Styles: []int{3, 4}, Regions: []int{0}, Dates: true},
		{Styles: []int{0, 1, 2, 3, 4, 5}, Regions: []int{0, 1, 2}, Dates: true},
		{Styles: []int{5, 5, 0}, Regions: nil, Dates: true},
		{Styles: nil, Regions: nil, Dates: true},
	}
}

// childHashes: what a fresh process prints (one line per (spec, writer)).
func childHashes() []string {
	astisub.Now = func() time.Time { return time.Date(2020, 1, 2, 3, 4, 5, 0, time.UTC) }
	var out []string
	for i, sp := range plainSpecs() {
		for _, w := range corpus.WriteFormats {
			var b bytes.Buffer
			err, pan := corpus.Write(w, sp.Build(), &b)
			out = append(out, fmt.Sprintf("%d %s %s err=%v pan=%q", i, w, sha(b.String()), err, pan))
		}
	}
	return out
}

type PlainCase struct {
	Kind   string   `json:"kind"`
	Spec   ListSpec `json:"list"`
	Writer string   `json:"writer,omitempty"`
	Order  []string `json:"writer_order,omitempty"`
}

func checkPlain(pc PlainCase) (key, msg string, out uint64) {
	astisub.Now = func() time.Time { return time.Date(2020, 1, 2, 3, 4, 5, 0, time.UTC) }
	switch pc.Kind {
	case "repeat":
		var first string
		for i := 0; i < 50; i++ {
			var b bytes.Buffer
			err, pan := corpus.Write(pc.Writer, pc.Spec.Build(), &b)
			if err != nil || pan != "" {
				return "", "", core.Hash64("fails")
			}
			if i == 0 {
				first = b.String()
			} else if b.String() != first {
				return "order." + pc.Writer + ".depends-on-map-order", fmt.Sprintf("%s writer, list %+v: repetition %d in the same process differs from the first write:\n%s\n---\n%s", pc.Writer, pc.Spec, i, trunc(first), trunc(b.String())), 0
			}
		}
		return "", "", core.Hash64(first)
	case "purity", "purity-nodates", "purity-emptymeta", "purity-nometa", "purity-roomy":
		sp := pc.Spec
		if pc.Kind != "purity" && pc.Kind != "purity-roomy" {
			sp.Dates = false
		}
		s := sp.Build()
		switch pc.Kind {
		case "purity-emptymeta":
			s.Metadata = &astisub.Metadata{}
		case "purity-nometa":
			s.Metadata = nil
		}
		// definitions and a cue whose optional parts are absent: a writer must not fill them in
		s.Styles["zz-bare"] = &astisub.Style{ID: "zz-bare"}
		s.Regions["zz-bare"] = &astisub.Region{ID: "zz-bare"}
		s.Items = append(s.Items, &astisub.Item{StartAt: 7 * time.Second, EndAt: 8 * time.Second, Style: s.Styles["zz-bare"], Region: s.Regions["zz-bare"],
			Lines: []astisub.Line{{Items: []astisub.LineItem{{Text: "bare", Style: s.Styles["zz-bare"]}}}}})
		// a cue referring to a style and a region that are NOT in the list's tables (a writer may not register them)
		s.Items = append(s.Items, &astisub.Item{StartAt: 11 * time.Second, EndAt: 12 * time.Second, Style: &astisub.Style{ID: "loose", InlineStyle: &astisub.StyleAttributes{SSABold: astikit.BoolPtr(true)}},
			Region: &astisub.Region{ID: "loose", InlineStyle: &astisub.StyleAttributes{WebVTTLines: 2}}, Lines: []astisub.Line{{Items: []astisub.LineItem{{Text: "loose"}}}}})
		// a cue that exceeds what some formats can carry (30 lines, a 300-character line): a writer may cut what it
		// writes, not what it was given
		many := make([]astisub.Line, 0, 40)
		for i := 0; i < 30; i++ {
			many = append(many, astisub.Line{Items: []astisub.LineItem{{Text: fmt.Sprintf("l%d", i)}}})
		}
		many = append(many, astisub.Line{Items: []astisub.LineItem{{Text: strings.Repeat("w", 300)}}})
		s.Items = append(s.Items, &astisub.Item{StartAt: 9 * time.Second, EndAt: 10 * time.Second, Lines: many})
		if pc.Kind == "purity-roomy" {
			// every slice of the list has spare capacity: memory of the caller that an append would write into
			purity.Roomy(s)
		}
		before := purity.Snapshot(s)
		var b bytes.Buffer
		corpus.Write(pc.Writer, s, &b)
		after := purity.Snapshot(s)
		if before != after {
			return "pure." + pc.Writer + ".modifies-input", fmt.Sprintf("%s writer modified the cue list it was given (list %+v): snapshot before/after differ at byte %d", pc.Writer, pc.Spec, firstDiff(before, after)), 0
		}
		return "", "", core.Hash64(before)
	case "purity-unordered":
		// a list whose items are NOT in start order and whose slices have spare capacity
		s := pc.Spec.Build()
		s.Items[0], s.Items[1] = s.Items[1], s.Items[0]
		items := make([]*astisub.Item, 2, 8)
		copy(items, s.Items)
		s.Items = items
		before := purity.Snapshot(s)
		var b bytes.Buffer
		corpus.Write(pc.Writer, s, &b)
		after := purity.Snapshot(s)
		if before != after {
			return "pure." + pc.Writer + ".modifies-input", fmt.Sprintf("%s writer modified the (unordered) cue list it was given (list %+v): snapshot before/after differ at byte %d", pc.Writer, pc.Spec, firstDiff(before, after)), 0
		}
		return "", "", core.Hash64(before)
	case "writer-order":
		alone := map[string]string{}
		for _, w := range append(append([]string{}, corpus.WriteFormats...), "ttml-tab", "ttml-noindent") {
			var b bytes.Buffer
			corpus.Write(w, pc.Spec.Build(), &b)
			alone[w] = b.String()
		}
		s := pc.Spec.Build()
		for _, w := range pc.Order {
			var b bytes.Buffer
			corpus.Write(w, s, &b)
			if b.String() != alone[w] {
				return "pure.writer-order", fmt.Sprintf("list %+v written in the order %v: the %s file differs from the one obtained by writing %s alone", pc.Spec, pc.Order, w, w), 0
			}
		}
		return "", "", core.Hash64(fmt.Sprint(pc.Order))
	case "clock":
		clockA := func() time.Time { return time.Date(2019, 7, 8, 1, 2, 3, 0, time.UTC) }
		clockB := func() time.Time { return time.Date(2023, 11, 12, 4, 5, 6, 0, time.UTC) }
		write := func(clk func() time.Time, dates bool) []byte {
			astisub.Now = clk
			sp := pc.Spec
			sp.Dates = dates
			var b bytes.Buffer
			corpus.Write("stl", sp.Build(), &b)
			return b.Bytes()
		}
		a, b := write(clockA, true), write(clockB, true)
		if !bytes.Equal(a, b) {
			return "clock.stl.used-despite-metadata-dates", fmt.Sprintf("STL output differs under two clocks although the metadata supplies both dates (list %+v)", pc.Spec), 0
		}
		if len(a) >= 236 && (string(a[224:230]) != "210304" || string(a[230:236]) != "220506") {
			return "clock.stl.metadata-dates-not-written", fmt.Sprintf("STL creation/revision date fields are %q/%q, metadata says 210304/220506", a[224:230], a[230:236]), 0
		}
		a2, b2 := write(clockA, false), write(clockB, false)
		if len(a2) >= 236 && (string(a2[224:230]) != "190708" || string(a2[230:236]) != "190708") {
			return "clock.stl.not-from-injectable-clock", fmt.Sprintf("metadata without dates, clock says 2019-07-08: STL date fields are %q/%q", a2[224:230], a2[230:236]), 0
		}
		if len(b2) >= 236 && (string(b2[224:230]) != "231112" || string(b2[230:236]) != "231112") {
			return "clock.stl.not-from-injectable-clock", fmt.Sprintf("metadata without dates, clock says 2023-11-12: STL date fields are %q/%q", b2[224:230], b2[230:236]), 0
		}
		// apart from the date fields the two are equal
		if len(a2) == len(b2) {
			x, y := append([]byte{}, a2...), append([]byte{}, b2...)
			copy(x[224:236], "000000000000")
			copy(y[224:236], "000000000000")
			if !bytes.Equal(x, y) {
				return "clock.stl.leaks-outside-date-fields", "STL outputs under two clocks differ outside the creation/revision date fields", 0
			}
		}
		// mixed: only one of the two dates in the metadata - that one is written, the other comes from the clock
		for _, which := range []int{0, 1} {
			astisub.Now = clockA
			sp := pc.Spec
			sp.Dates = true
			l := sp.Build()
			if which == 0 {
				l.Metadata.STLRevisionDate = nil
			} else {
				l.Metadata.STLCreationDate = nil
			}
			var mb bytes.Buffer
			corpus.Write("stl", l, &mb)
			m := mb.Bytes()
			if len(m) >= 236 {
				wantC, wantR := "210304", "190708"
				if which == 1 {
					wantC, wantR = "190708", "220506"
				}
				if string(m[224:230]) != wantC || string(m[230:236]) != wantR {
					return "clock.stl.mixed-dates", fmt.Sprintf("metadata supplies only one date (case %d), clock says 2019-07-08: STL date fields are %q/%q, expected %s/%s", which, m[224:230], m[230:236], wantC, wantR), 0
				}
			}
		}
		// other writers never look at the clock
		for _, w := range []string{"srt", "vtt", "ttml", "ssa"} {
			astisub.Now = clockA
			var p, q bytes.Buffer
			corpus.Write(w, pc.Spec.Build(), &p)
			astisub.Now = clockB
			corpus.Write(w, pc.Spec.Build(), &q)
			if p.String() != q.String() {
				return "clock." + w + ".depends-on-clock", w + " output differs under two clocks", 0
			}
		}
		return "", "", core.Hash64(string(a), string(a2))
	}
	return "", "", 0
}

func firstDiff(a, b string) int {
	for i := 0; i < len(a) && i < len(b); i++ {
		if a[i] != b[i] {
			return i
		}
	}
	return len(a)
}

func permsOf(ws []string) [][]string {
	if len(ws) <= 1 {
		return [][]string{append([]string{}, ws...)}
	}
	var out [][]string
	for i := range ws {
		rest := append(append([]string{}, ws[:i]...), ws[i+1:]...)
		for _, p := range permsOf(rest) {
			out = append(out, append([]string{ws[i]}, p...))
		}
	}
	return out
}

func plainRun(c *core.Ctx) {
	do := func(pc PlainCase) {
		if !c.Mine() {
			return
		}
		key, msg, out := checkPlain(pc)
		c.Traces++
		c.Transitions++
		c.State(core.Hash64(fmt.Sprint(pc.Spec), pc.Kind))
		c.Record("plain."+pc.Kind, out, core.Hash64(fmt.Sprintf("%+v", pc)), func() interface{} { return pc })
		if key != "" {
			c.Violate("plain", key, msg, pc, len(pc.Spec.Styles))
		}
	}
	for _, sp := range specs(c.Tier) {
		for _, w := range corpus.WriteFormats {
			do(PlainCase{Kind: "purity", Spec: sp, Writer: w})
			do(PlainCase{Kind: "purity-roomy", Spec: sp, Writer: w})
		}
	}
	// metadata shapes: no dates (the STL writer takes them from the clock - it must not store them), no metadata
	// fields at all, no metadata
	for _, sp := range plainSpecs() {
		for _, w := range corpus.WriteFormats {
			for _, kind := range []string{"purity-nodates", "purity-emptymeta", "purity-nometa"} {
				do(PlainCase{Kind: kind, Spec: sp, Writer: w})
			}
		}
	}
	for _, sp := range plainSpecs() {
		for _, w := range corpus.WriteFormats {
			do(PlainCase{Kind: "repeat", Spec: sp, Writer: w})
			do(PlainCase{Kind: "purity-unordered", Spec: sp, Writer: w})
		}
	}
	// other processes (fresh hash seeds): shard 0 starts 4 children and compares
	if c.Shard == 0 {
		mine := childHashes()
		self, _ := os.Executable()
		for i := 0; i < 4; i++ {
			outb, err := exec.Command(self, "c19child").Output()
			c.Traces++
			if err != nil {
				c.Note("child process failed: " + err.Error())
				continue
			}
			got := strings.Split(strings.TrimSpace(string(outb)), "\n")
			c.Record("plain.other-process", core.Hash64(string(outb)), core.Hash64("child", fmt.Sprint(i)), nil)
			for j := range mine {
				if j < len(got) && got[j] != mine[j] {
					f := strings.Fields(mine[j])
					c.Violate("plain", "order."+f[1]+".depends-on-map-order", fmt.Sprintf("writing list %s as %s in another process gives different bytes (%s vs %s)", f[0], f[1], got[j], mine[j]),
						PlainCase{Kind: "repeat", Spec: plainSpecs()[atoi(f[0])], Writer: f[1]}, 1)
				}
			}
		}
	}
}

func atoi(s string) int { n := 0; fmt.Sscan(s, &n); return n }

func replay(sub string, raw json.RawMessage) (string, bool) {
	if sub == "maporder" {
		if !hooks.Instrumented {
			return "map-order replays need the instrumented build", false
		}
		var oc OrderCase
		json.Unmarshal(raw, &oc)
		base, _ := writeUnder(oc.Spec, oc.Writer, explore.Run(nil, func(*explore.C) {}))
		var got string
		explore.Run(oc.Choices, func(x *explore.C) { got, _ = writeUnder(oc.Spec, oc.Writer, x) })
		return fmt.Sprintf("sorted order:\n%s\nthis order:\n%s", trunc(base), trunc(got)), got != base
	}
	var pc PlainCase
	json.Unmarshal(raw, &pc)
	k, m, _ := checkPlain(pc)
	return m, k != ""
}

func init() {
	core.RegisterCommand("c19child", func([]string) int {
		for _, l := range childHashes() {
			fmt.Println(l)
		}
		return 0
	})
	_ = sort.Strings
	core.Register(&core.Prop{
		ID: "C19", Level: "model_checking",
		Rule: "map iteration order is an environment choice owned by the explorer (instrumented build: every `range` over a map in package astisub walks its sorted keys permuted by a hook): states = (cue list, writer, map-range site) choice points, transitions = permutations chosen, every execution's bytes compared with the sorted-order bytes; all permutations for maps of <=4 entries, identity+rotations+adjacent transpositions for 5-6 entries; cue lists = all multisets of <=4 styles over 6 heterogeneous attribute profiles x multisets of <=3 regions over 3 profiles; plain build: 50 repetitions in-process, 4 fresh processes, deep purity snapshot (values, aliasing, len/cap, spare capacity) before/after every write, all 120 writer orders, two injectable clocks",
		Scope: map[core.Tier]string{
			core.Quick:    "210 style multisets x 6 region multisets (<=2 regions) + two 5-6-entry lists, 5 writers, all map orders; plain: purity on all of those (every list also holds a cue with an empty line, a line without runs, a number out of sequence and times out of order), repetition/other-process/writer-order (all 120 orders of the five writers + the TTML writer with and without a per-call option in every order)/clock on 5 lists; purity also on lists whose every slice has spare capacity filled with recognisable values; identifier schemes where the ID field is blank / the same for all definitions while the keys differ; metadata comments with a line break and outer blanks",
			core.Thorough: "462 style multisets (<=5 styles; 5-entry maps: rotations and adjacent transpositions) x 10 region multisets (<=3 regions)",
		},
		Assumptions: []string{"Go toolchain and standard library", "instrumented build = plain build with inert hooks (validated by running /repo's own tests against the overlay in setup and by the plain-build repetition checks)", "map walks inside dependencies are not controlled (encoding/xml marshals struct fields in declaration order; astikit.BiMap is only indexed)"},
		Plain:       plainRun, Instr: instrRun, Replay: replay,
	})
}
