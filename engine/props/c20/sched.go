package c20

import (
	"fmt"

	"verif/explore"
	"verif/hooks"
)

// E2: cooperative scheduler. Threads are goroutines of which exactly one runs; hand-off happens
// at the verifPoint inserted before every statement of package astisub. The enabled set is in
// canonical order (running thread first, then ascending ids); choosing anything but the first
// costs one deviation (a preemption when the running thread is still enabled).

type thread struct {
	id     int
	resume chan struct{}
	done   bool
	result string
	steps  int
}

type scheduler struct {
	x       *explore.C
	threads []*thread
	cur     int
	finish  chan struct{}
	horizon int
	total   int
	Dead    string
}

func (s *scheduler) enabled() []int {
	var e []int
	if !s.threads[s.cur].done {
		e = append(e, s.cur)
	}
	for i, t := range s.threads {
		if i != s.cur && !t.done {
			e = append(e, i)
		}
	}
	return e
}

// point is the hook: called by the running thread before each statement.
func (s *scheduler) point(site int) {
	me := s.cur
	s.threads[me].steps++
	s.total++
	if s.total > s.horizon {
		panic(fmt.Sprintf("c20: step horizon %d exceeded (livelock / non-termination)", s.horizon))
	}
	alive := 0
	for _, t := range s.threads {
		if !t.done {
			alive++
		}
	}
	if alive <= 1 {
		return
	}
	ch := s.x.Choose("", alive)
	if ch == 0 {
		return // keep running (canonical order puts the running thread first)
	}
	next := s.enabled()[ch]
	s.cur = next
	s.threads[next].resume <- struct{}{}
	<-s.threads[me].resume
}

// threadExit: the running thread finished; pass control on.
func (s *scheduler) threadExit(me int) {
	s.threads[me].done = true
	en := s.enabled()
	if len(en) == 0 {
		close(s.finish)
		return
	}
	next := en[0]
	if len(en) > 1 {
		next = en[s.x.Choose("sched-exit", len(en))]
	}
	s.cur = next
	s.threads[next].resume <- struct{}{}
}

// runInterleaved runs the ops as threads under the schedule drawn from x; returns their results.
func runInterleaved(x *explore.C, ops []Op, scratch string) []string {
	resetFileSeq()
	s := &scheduler{x: x, finish: make(chan struct{}), horizon: 5000000}
	for i := range ops {
		s.threads = append(s.threads, &thread{id: i, resume: make(chan struct{}, 1)})
	}
	hooks.SetPoint(s.point)
	defer hooks.SetPoint(nil)
	for i, op := range ops {
		i, op := i, op
		go func() {
			<-s.threads[i].resume
			func() {
				defer func() {
					if e := recover(); e != nil {
						s.threads[i].result = fmt.Sprintf("panic in thread: %v", e)
					}
				}()
				s.threads[i].result = op.Run(scratch)
			}()
			s.threadExit(i)
		}()
	}
	s.cur = 0
	s.threads[0].resume <- struct{}{}
	<-s.finish
	out := make([]string, len(ops))
	for i, t := range s.threads {
		out[i] = t.result
	}
	return out
}
