package c20

import (
	"reflect"
	"sort"
	"sync"

	"verif/hooks"
)

// Canonical hash of all package-level state of package astisub (frozen-globals invariant).
// Maps are hashed order-insensitively, pointers by reachability; regexp.Regexp, strings.Replacer,
// sync.* (except sync.Map, hashed through Range) and func values are opaque leaves (documented thread-safe stdlib objects with lazily built
// internals; func values cannot be compared).  A sync.Pool (a deterministic LIFO in the instrumented build, see
// engine/instr) is opaque as well: what is parked in a pool may vanish at any time by the type's contract, so a
// correct caller resets what it takes out and the parked content is no state a later call may depend on; a caller
// that does depend on it returns something else than when run alone, which the sequential and concurrent stages see.

var opaque = map[string]bool{
	"regexp.Regexp": true, "strings.Replacer": true, "sync.Mutex": true, "sync.RWMutex": true, "sync.Once": true,
	"sync.WaitGroup": true, "sync.Map": true, "sync.Pool": true, "astisub.verifPool": true, "sync.Cond": true, "time.Location": true,
}

const prime = 1099511628211

func mix(h, x uint64) uint64 { return (h ^ x) * prime }

func hstr(s string) uint64 {
	h := uint64(14695981039346656037)
	for i := 0; i < len(s); i++ {
		h = mix(h, uint64(s[i]))
	}
	return h
}

func hashValue(v reflect.Value, seen map[uintptr]bool, depth int) uint64 {
	if depth > 64 {
		return 7
	}
	switch v.Kind() {
	case reflect.Invalid:
		return 1
	case reflect.Bool:
		if v.Bool() {
			return 3
		}
		return 2
	case reflect.Int, reflect.Int8, reflect.Int16, reflect.Int32, reflect.Int64:
		return mix(11, uint64(v.Int()))
	case reflect.Uint, reflect.Uint8, reflect.Uint16, reflect.Uint32, reflect.Uint64, reflect.Uintptr:
		return mix(13, v.Uint())
	case reflect.Float32, reflect.Float64:
		return mix(17, uint64(int64(v.Float()*1e6)))
	case reflect.String:
		return mix(19, hstr(v.String()))
	case reflect.Ptr:
		if v.IsNil() {
			return 23
		}
		p := v.Pointer()
		if seen[p] {
			return 29
		}
		seen[p] = true
		h := mix(31, hashValue(v.Elem(), seen, depth+1))
		delete(seen, p) // tree-shaped revisits are fine; only cycles are cut
		return h
	case reflect.Interface:
		if v.IsNil() {
			return 37
		}
		e := v.Elem()
		return mix(mix(41, hstr(e.Type().String())), hashValue(e, seen, depth+1))
	case reflect.Struct:
		t := v.Type()
		if t.String() == "sync.Map" && v.CanAddr() && v.Addr().CanInterface() {
			// a package-level sync.Map is state like any other map: hashed through its own Range, order-insensitively
			var sum uint64
			n := 0
			v.Addr().Interface().(*sync.Map).Range(func(k, val interface{}) bool {
				sum += mix(hashValue(reflect.ValueOf(k), seen, depth+1), hashValue(reflect.ValueOf(val), seen, depth+1))
				n++
				return true
			})
			return mix(mix(89, uint64(n)), sum)
		}
		if opaque[t.String()] {
			return 43
		}
		h := mix(47, hstr(t.String()))
		for i := 0; i < v.NumField(); i++ {
			h = mix(h, hashValue(v.Field(i), seen, depth+1))
		}
		return h
	case reflect.Slice:
		if v.IsNil() {
			return 53
		}
		h := mix(59, uint64(v.Len()))
		if v.Type().Elem().Kind() == reflect.Uint8 {
			for i := 0; i < v.Len(); i++ {
				h = mix(h, v.Index(i).Uint())
			}
			return h
		}
		for i := 0; i < v.Len(); i++ {
			h = mix(h, hashValue(v.Index(i), seen, depth+1))
		}
		return h
	case reflect.Array:
		h := uint64(61)
		for i := 0; i < v.Len(); i++ {
			h = mix(h, hashValue(v.Index(i), seen, depth+1))
		}
		return h
	case reflect.Map:
		if v.IsNil() {
			return 67
		}
		var sum uint64
		it := v.MapRange()
		for it.Next() {
			sum += mix(hashValue(it.Key(), seen, depth+1), hashValue(it.Value(), seen, depth+1))
		}
		return mix(mix(71, uint64(v.Len())), sum)
	case reflect.Func:
		if v.IsNil() {
			return 73
		}
		return 79
	default: // chan, unsafe pointer
		return 83
	}
}

type globalsState struct {
	names  []string
	hashes []uint64
}

var globalsCache []hooks.Global

func hashGlobals() globalsState {
	if globalsCache == nil {
		globalsCache = hooks.Globals()
		sort.Slice(globalsCache, func(i, j int) bool { return globalsCache[i].Name < globalsCache[j].Name })
	}
	gs := globalsState{}
	for _, g := range globalsCache {
		gs.names = append(gs.names, g.Name)
		gs.hashes = append(gs.hashes, hashValue(reflect.ValueOf(g.Ptr).Elem(), map[uintptr]bool{}, 0))
	}
	return gs
}

// diff returns the names of the globals whose hash differs.
func (a globalsState) diff(b globalsState) []string {
	var o []string
	for i := range a.hashes {
		if i < len(b.hashes) && a.hashes[i] != b.hashes[i] && a.names[i] != "Now" {
			o = append(o, a.names[i])
		}
	}
	return o
}
