// Package c20: independent calls are safe to run concurrently.
//
//	Stage A (instrumented): frozen-globals invariant - every operation alone, the canonical hash of
//	  all package-level state probed at EVERY statement and after every sequence of <=2 operations.
//	Stage B (instrumented): E2 cooperative scheduler - all pairs (both orders) with preemption bound 1
//	  at statement granularity, 3-thread runs, bound 2 for same-format pairs (thorough); each call's
//	  result must equal its solo result.
//	Stage C (plain, -race, free-running): the same operation bodies on 2..32 goroutines under the race
//	  detector (a cooperative scheduler's hand-offs are happens-before edges and blind the detector).
package c20

import (
	"encoding/json"
	"fmt"
	"os"
	"os/exec"
	"reflect"
	"strings"
	"sync"
	"time"

	astisub "github.com/asticode/go-astisub"

	"verif/core"
	"verif/explore"
	"verif/hooks"
)

func fixClock() {
	astisub.Now = func() time.Time { return time.Date(2020, 1, 2, 3, 4, 5, 0, time.UTC) }
}

type FrozenCase struct {
	Ops   []string `json:"ops"`
	Every int      `json:"probe_every"`
}

// checkFrozen runs the ops in sequence with the globals hash probed at every `every`-th point of
// each and at the end. Returns key/msg and number of probes.
func checkFrozen(fc FrozenCase, all map[string]Op, scratch string) (key, msg string, probes int64) {
	fixClock()
	base := hashGlobals()
	var bad []string
	badSite := -1
	n := 0
	for _, name := range fc.Ops {
		op := all[name]
		if fc.Every > 0 {
			hooks.SetPoint(func(site int) {
				n++
				if badSite >= 0 || n%fc.Every != 0 {
					return
				}
				probes++
				if d := base.diff(hashGlobals()); len(d) > 0 {
					bad, badSite = d, site
				}
			})
		}
		captureOn, captured = true, nil
		op.Run(scratch)
		captureOn = false
		hooks.SetPoint(nil)
		probes++
		if d := base.diff(hashGlobals()); len(d) > 0 && badSite < 0 {
			bad, badSite = d, 1<<30
		}
		if badSite < 0 && captured != nil {
			// overwrite every field of what the call handed back: package-level state must not move with it
			scribble(reflect.ValueOf(captured), map[uintptr]bool{})
			captured = nil
			probes++
			if d := base.diff(hashGlobals()); len(d) > 0 {
				return "frozen.result-aliases." + strings.Join(d, ","), fmt.Sprintf("operation %s (sequence %v): overwriting the fields of the list it returned changed package-level state %v: results share memory with the package, so one caller's edit reaches every later call", name, fc.Ops, d), probes
			}
		}
		if badSite >= 0 {
			where := fmt.Sprintf("at instrumentation site %d", badSite)
			if badSite == 1<<30 {
				where = "after the call returned"
			}
			return "frozen." + strings.Join(bad, ","), fmt.Sprintf("operation %s (sequence %v) changed package-level state %v (%s): the package keeps mutable state between calls", name, fc.Ops, bad, where), probes
		}
	}
	return "", "", probes
}

// scribble overwrites, in place, every string, number and boolean reachable from v.
func scribble(v reflect.Value, seen map[uintptr]bool) {
	switch v.Kind() {
	case reflect.Ptr:
		if v.IsNil() || seen[v.Pointer()] {
			return
		}
		seen[v.Pointer()] = true
		scribble(v.Elem(), seen)
	case reflect.Interface:
		if !v.IsNil() {
			scribble(v.Elem(), seen)
		}
	case reflect.Struct:
		// colours are value objects: results point at the package's exported Color variables (ColorRed ...) by
		// design of the public API, which is not state the package keeps between calls
		if v.Type().PkgPath() == "time" || v.Type().Name() == "Color" {
			return
		}
		for i := 0; i < v.NumField(); i++ {
			if f := v.Field(i); f.CanSet() || f.Kind() == reflect.Ptr || f.Kind() == reflect.Slice || f.Kind() == reflect.Map {
				scribble(f, seen)
			}
		}
	case reflect.Slice, reflect.Array:
		for i := 0; i < v.Len(); i++ {
			scribble(v.Index(i), seen)
		}
	case reflect.Map:
		for _, k := range v.MapKeys() {
			if e := v.MapIndex(k); e.Kind() == reflect.Ptr || e.Kind() == reflect.Slice || e.Kind() == reflect.Map {
				scribble(e, seen)
			}
		}
		// and an entry of the caller's own: a map handed back must be the caller's, not one the package keeps
		if !v.IsNil() && v.Type().Key().Kind() == reflect.String {
			v.SetMapIndex(reflect.ValueOf("~scribbled").Convert(v.Type().Key()), reflect.Zero(v.Type().Elem()))
		}
	case reflect.String:
		if v.CanSet() {
			v.SetString(v.String() + "~scribbled")
		}
	case reflect.Int, reflect.Int8, reflect.Int16, reflect.Int32, reflect.Int64:
		if v.CanSet() {
			v.SetInt(v.Int() + 1)
		}
	case reflect.Uint, reflect.Uint8, reflect.Uint16, reflect.Uint32, reflect.Uint64:
		if v.CanSet() {
			v.SetUint(v.Uint() + 1)
		}
	case reflect.Float32, reflect.Float64:
		if v.CanSet() {
			v.SetFloat(v.Float() + 1)
		}
	case reflect.Bool:
		if v.CanSet() {
			v.SetBool(!v.Bool())
		}
	}
}

type SchedCase struct {
	Ops     []string `json:"ops"`
	Choices []int    `json:"schedule"`
}

func soloResults(ops []Op, scratch string) map[string]string {
	fixClock()
	m := map[string]string{}
	for _, o := range ops {
		m[o.Name] = o.Run(scratch)
	}
	return m
}

func firstDiff(a, b string) string {
	i := 0
	for i < len(a) && i < len(b) && a[i] == b[i] {
		i++
	}
	lo := i - 60
	if lo < 0 {
		lo = 0
	}
	end := func(s string) string {
		hi := i + 80
		if hi > len(s) {
			hi = len(s)
		}
		return s[lo:hi]
	}
	return fmt.Sprintf("first difference at byte %d:\n   alone:      %q\n   interleaved: %q", i, end(a), end(b))
}

func instrRun(c *core.Ctx) {
	if !hooks.Instrumented {
		return
	}
	ops := Ops()
	byName := map[string]Op{}
	for _, o := range ops {
		byName[o.Name] = o
	}
	fixClock()
	pristine := hashGlobals() // before any operation has run in this process
	solo := soloResults(ops, c.Scratch)
	if d := pristine.diff(hashGlobals()); len(d) > 0 && c.Shard == 0 {
		c.Violate("frozen", "frozen."+strings.Join(d, ","), fmt.Sprintf("after running every operation once, package-level state %v differs from its value at process start: the package keeps mutable state between calls", d), FrozenCase{Ops: []string{"<all operations once>"}}, 0)
	}
	// solo results are deterministic? (run twice)
	solo2 := soloResults(ops, c.Scratch)
	for k := range solo {
		if solo[k] != solo2[k] {
			c.Violate("solo", "solo.nondeterministic."+k, "operation "+k+" run alone twice returned different results: "+firstDiff(solo[k], solo2[k]), SchedCase{Ops: []string{k}}, 1)
		}
	}
	// ---- Stage A ----
	every := 1
	for _, o := range ops {
		if !c.Mine() {
			continue
		}
		fc := FrozenCase{Ops: []string{o.Name}, Every: every}
		if battery(o.Name) {
			fc.Every = 257 // long executions: the globals are hashed every 257th statement and at the end
		}
		key, msg, probes := checkFrozen(fc, byName, c.Scratch)
		c.Transitions += probes
		c.Extra["frozen_globals_probes"] += probes
		c.State(core.Hash64("frozen", o.Name))
		c.Record("frozen.single", core.Hash64("frozen", key), core.Hash64("frozen", o.Name), func() interface{} { return fc })
		if key != "" {
			c.Violate("frozen", key, msg, fc, 1)
		}
	}
	for _, a := range ops {
		for _, b := range ops {
			if !c.Mine() {
				continue
			}
			fc := FrozenCase{Ops: []string{a.Name, b.Name}, Every: 0}
			key, msg, probes := checkFrozen(fc, byName, c.Scratch)
			c.Extra["frozen_globals_probes"] += probes
			c.Record("frozen.seq2", core.Hash64("frozen2", key), core.Hash64("frozen2", a.Name, b.Name), nil)
			if key != "" {
				c.Violate("frozen", key, msg, fc, 2)
			}
			// non-initial state: b after a returns what b returns alone
			if r := b.Run(c.Scratch); r != solo[b.Name] {
				c.Violate("solo", "sequential.differs."+b.Name, fmt.Sprintf("operation %s returns something else after %s ran: %s", b.Name, a.Name, firstDiff(solo[b.Name], r)), SchedCase{Ops: []string{a.Name, b.Name}}, 2)
			}
		}
		if c.Expired() {
			return
		}
	}
	// ---- Stage B ----
	runSched := func(sub string, names []string, bound int) {
		var tops []Op
		for _, n := range names {
			tops = append(tops, byName[n])
		}
		var res []string
		explore.ExploreSharded(bound, c.Mine, func(x *explore.C) { res = runInterleaved(x, tops, c.Scratch) }, func(x *explore.C) bool {
			c.Transitions += int64(len(x.Trace))
			c.Traces++
			c.Extra["schedules"]++
			okAll := "same"
			for i, n := range names {
				if res[i] != solo[n] {
					okAll = "differs:" + n
					c.Violate("sched", "concurrent.differs."+n, fmt.Sprintf("threads %v under schedule %v: %s returned something else than when run alone; %s", names, compress(x.Trace), n, firstDiff(solo[n], res[i])),
						SchedCase{Ops: names, Choices: append([]int{}, x.Trace...)}, len(x.Trace))
				}
			}
			c.Record(sub, core.Hash64(okAll), core.Hash64(strings.Join(names, "+"), fmt.Sprint(compress(x.Trace))), func() interface{} {
				return map[string]interface{}{"threads": names, "schedule_points": len(x.Trace), "schedule": compress(x.Trace)}
			})
			return c.Evals%256 != 0 || !c.Expired()
		})
		c.State(core.Hash64("pair", strings.Join(names, "+")))
	}
	probes := map[string]bool{"write-srt": true, "read-stl-open": true, "optimize": true, "read-ts-french": true}
	for i, a := range ops {
		for j, b := range ops {
			if j < i {
				continue
			}
			// quick: pairs inside one family (same format / list operations) and every operation against four
			// probe operations; thorough: all pairs
			if c.Tier == core.Quick && family(a.Name) != family(b.Name) && !probes[a.Name] && !probes[b.Name] {
				continue
			}
			if battery(a.Name) || battery(b.Name) {
				// batteries (one operation = many reads) are for the sequential stages: what they leave behind shows
				// in the globals hash and in what the other operations return afterwards; their executions are too
				// long for the schedule enumeration and add nothing there that the single reads do not
				continue
			}
			for order := 0; order < 2; order++ {
				if i == j && order == 1 {
					continue
				}
				names := []string{a.Name, b.Name}
				if order == 1 {
					names = []string{b.Name, a.Name}
				}
				runSched("sched.pair", names, 1)
				if c.Expired() {
					return
				}
			}
		}
	}
	// three threads: two readers and a writer of one format
	triples := [][]string{{"read-srt", "read-srt-2", "write-srt"}, {"read-stl-open", "read-stl-teletext", "write-stl"}, {"read-vtt", "write-vtt", "read-srt"}, {"read-ttml", "write-ttml", "optimize"}, {"read-ssa", "write-ssa", "merge"}}
	for _, t := range triples {
		runSched("sched.triple", t, 1)
	}
	if c.Tier == core.Thorough {
		same := [][]string{{"read-srt", "read-srt-2"}, {"write-srt", "write-srt#2"}, {"read-stl-open", "read-stl-teletext"}, {"write-stl", "write-stl#2"}, {"read-srt", "write-srt"}, {"read-stl-open", "write-stl"}, {"read-vtt", "write-vtt"}, {"read-ttml", "write-ttml"}, {"read-ssa", "write-ssa"}}
		for _, p := range same {
			runSched("sched.pair.bound2", p, 2)
		}
	}
	c.ExtraMax["preemption_bound"] = 1
	if c.Tier == core.Thorough {
		c.ExtraMax["preemption_bound"] = 2
	}
}

// family groups operations by the tables they can collide on: the format for readers and writers, "list" for
// the transformations, "files" for the file helpers.
func battery(name string) bool {
	return name == "read-ttml-language-tags" || name == "read-ttml-colours-and-times" || name == "read-stl-language-and-code-page-codes" || name == "read-ssa-style-names-and-colours"
}

func family(name string) string {
	for _, pre := range []string{"read-", "write-"} {
		if strings.HasPrefix(name, pre) {
			f := strings.TrimPrefix(name, pre)
			if i := strings.IndexAny(f, "-#"); i >= 0 {
				f = f[:i]
			}
			return f
		}
	}
	if name == "open-write-files" || strings.HasPrefix(name, "files-") {
		return "files"
	}
	return "list"
}

// compress renders a schedule as the positions and values of its non-default choices.
func compress(tr []int) string {
	var b strings.Builder
	fmt.Fprintf(&b, "len=%d", len(tr))
	for i, v := range tr {
		if v != 0 {
			fmt.Fprintf(&b, " @%d:%d", i, v)
		}
	}
	return b.String()
}

// ---- Stage C: free-running under the race detector (separate binary built with -race) ----

func raceChild(args []string) int {
	fixClock()
	ops := Ops()
	scratch := os.TempDir()
	if len(args) > 0 {
		scratch = args[0]
	}
	solo := soloResults(ops, scratch)
	bad := 0
	for _, g := range []int{2, 8, 32} {
		for round := 0; round < 3; round++ {
			var wg sync.WaitGroup
			var mu sync.Mutex
			for w := 0; w < g; w++ {
				wg.Add(1)
				go func(w int) {
					defer wg.Done()
					for k := 0; k < len(ops); k++ {
						o := ops[(k*7+w*3+round)%len(ops)]
						if r := o.Run(scratch); r != solo[o.Name] {
							mu.Lock()
							bad++
							fmt.Printf("MISMATCH op=%s goroutines=%d\n", o.Name, g)
							mu.Unlock()
						}
					}
				}(w)
			}
			wg.Wait()
		}
	}
	fmt.Printf("RACECHILD done mismatches=%d\n", bad)
	return 0
}

func plainRun(c *core.Ctx) {
	// Stage C runs once per GOMAXPROCS value, from shards 0..2
	gmp := map[int]string{0: "2", 1: "4", 2: "16"}
	g, ok := gmp[c.Shard]
	if !ok {
		return
	}
	bin := os.Getenv("VERIF_RACE_BIN")
	if bin == "" {
		c.Note("stage C skipped: no -race binary (VERIF_RACE_BIN unset)")
		return
	}
	cmd := exec.Command(bin, "c20race", c.Scratch)
	cmd.Env = append(os.Environ(), "GOMAXPROCS="+g, "GORACE=halt_on_error=0")
	out, err := cmd.CombinedOutput()
	s := string(out)
	c.Traces++
	c.Extra["race_runs"]++
	res := "clean"
	if strings.Contains(s, "DATA RACE") {
		res = "race"
		i := strings.Index(s, "WARNING: DATA RACE")
		rep := s[i:]
		if len(rep) > 3000 {
			rep = rep[:3000]
		}
		c.Violate("race", "race.detector", "the race detector reports a data race between independent calls (GOMAXPROCS="+g+"):\n"+rep, map[string]string{"gomaxprocs": g}, 1)
	} else if strings.Contains(s, "MISMATCH") {
		res = "mismatch"
		c.Violate("race", "race.result-differs", "free-running concurrent calls returned something else than alone:\n"+s[:min(len(s), 1500)], map[string]string{"gomaxprocs": g}, 1)
	} else if err != nil || !strings.Contains(s, "RACECHILD done") {
		c.Note("stage C child failed: " + fmt.Sprint(err) + " " + s[:min(len(s), 300)])
		c.Capped = true
	}
	c.Record("race", core.Hash64(res, g), core.Hash64("race", g), func() interface{} { return map[string]string{"stage": "C", "gomaxprocs": g, "result": res} })
}

func replay(sub string, raw json.RawMessage) (string, bool) {
	if !hooks.Instrumented {
		return "C20 replays need the instrumented build", false
	}
	ops := Ops()
	byName := map[string]Op{}
	for _, o := range ops {
		byName[o.Name] = o
	}
	switch sub {
	case "frozen":
		var fc FrozenCase
		json.Unmarshal(raw, &fc)
		k, m, _ := checkFrozen(fc, byName, os.TempDir())
		return m, k != ""
	case "sched":
		var sc SchedCase
		json.Unmarshal(raw, &sc)
		solo := soloResults(ops, os.TempDir())
		var tops []Op
		for _, n := range sc.Ops {
			tops = append(tops, byName[n])
		}
		var res []string
		explore.Run(sc.Choices, func(x *explore.C) { res = runInterleaved(x, tops, os.TempDir()) })
		for i, n := range sc.Ops {
			if res[i] != solo[n] {
				return n + ": " + firstDiff(solo[n], res[i]), true
			}
		}
		return "all results equal the solo results", false
	}
	return "not replayable (stage C)", false
}

func init() {
	core.RegisterCommand("c20race", raceChild)
	core.Register(&core.Prop{
		ID: "C20", Level: "model_checking",
		Rule: "alphabet = independent operations each on its own fresh input (readers of every format, 5 writers, 9 transformations, file open/write), inputs chosen to collide on shared tables. Stage A: every operation alone with the canonical hash of ALL package-level state of astisub probed at every statement, and after every ordered pair of operations (if no operation changes shared state every interleaving is Mazurkiewicz-equivalent to a sequential run); after each operation every field of the list it returned or transformed is overwritten and the hash probed again (a result must not share memory with package-level state; colour values point at the exported Color variables by design and are left alone). Stage B: cooperative scheduler over the statement-level points of the instrumented build; states = (thread set, scheduling point), transitions = scheduling decisions; every schedule with <= 1 preemption (2 for same-format pairs in thorough) of every unordered pair in both orders and of 5 three-thread sets; each call's canonical result must equal its solo result; solo results re-checked after every other operation. Stage C: free-running goroutines (2,8,32) under the race detector with GOMAXPROCS 2,4,16",
		Scope: map[core.Tier]string{
			core.Quick:    "39 operations (every reader, writer, transformation, option variant, both branches of per-document options); stage A all ops (globals probed at every point) + all ordered pairs run sequentially; stage B preemption bound 1 at every point for all pairs inside a family (same format / list operations) and every operation against four probe operations, both orders, + 5 triples; stage C 3 GOMAXPROCS values",
			core.Thorough: "stage B for ALL pairs in both orders; additionally preemption bound 2 for 9 same-format pairs",
		},
		Assumptions: []string{"Go toolchain, standard library and race detector", "code inside dependencies runs atomically between two scheduling points (sound for value-level interference because those libraries keep per-call state; their data races are stage C's job)", "regexp/strings.Replacer/sync objects and func values are opaque to the globals hash", "stage C is free-running and therefore sampling by nature; it decides nothing that stages A and B decide"},
		Plain:       plainRun, Instr: instrRun, Replay: replay, MinOutcomes: 2,
	})
}
