package c20

import (
	"bytes"
	"fmt"
	"os"
	"path/filepath"
	"strings"
	"sync"
	"time"

	"github.com/asticode/go-astikit"
	astisub "github.com/asticode/go-astisub"

	"verif/props/corpus"
	"verif/props/dump"
)

// Op is one independent call: builds its own fresh input every time it runs and returns the
// canonical rendering of what the call returned.
var (
	fileSeqMu sync.Mutex
	fileSeq   = map[string]int{}
)

func nextFileSeq(k string) int {
	fileSeqMu.Lock()
	defer fileSeqMu.Unlock()
	n := fileSeq[k]
	fileSeq[k] = n + 1
	return n
}

// resetFileSeq: called at the start of every explored execution.
func resetFileSeq() {
	fileSeqMu.Lock()
	fileSeq = map[string]int{}
	fileSeqMu.Unlock()
}

type Op struct {
	Name string
	Run  func(scratch string) string
}

// capture: in the sequential frozen-globals stage (and only there: the flag is never written while operations run
// concurrently) an operation leaves the list it returned or transformed here, so that the stage can overwrite
// every field of it and see whether package-level state moved with it (a result must not alias package state).
var (
	captureOn bool
	captured  *astisub.Subtitles
)

func keep(s *astisub.Subtitles) {
	if captureOn {
		captured = s
	}
}

func readOp(name, format string, data []byte) Op {
	return Op{name, func(string) string {
		s, err, pan := corpus.Read(format, bytes.NewReader(append([]byte{}, data...)))
		if pan != "" {
			return "panic: " + pan
		}
		if err != nil {
			return "error: " + err.Error()
		}
		keep(s)
		return dump.Subs(s)
	}}
}

func richList(tag string) *astisub.Subtitles {
	s := astisub.NewSubtitles()
	d := time.Date(2020, 1, 2, 0, 0, 0, 0, time.UTC)
	s.Metadata = &astisub.Metadata{Framerate: 25, STLDisplayStandardCode: "0", STLCreationDate: &d, STLRevisionDate: &d, Title: "t" + tag, Language: astisub.LanguageFrench, SSAScriptType: "v4.00"}
	s.Styles["a"] = &astisub.Style{ID: "a", InlineStyle: &astisub.StyleAttributes{SSABold: astikit.BoolPtr(true), TTMLColor: astikit.StrPtr("white"), WebVTTStyles: []string{"::cue { color: red; }"}}}
	s.Styles["b"] = &astisub.Style{ID: "b", Style: s.Styles["a"], InlineStyle: &astisub.StyleAttributes{SSAFontSize: astikit.Float64Ptr(12)}}
	s.Styles["unused"] = &astisub.Style{ID: "unused", InlineStyle: &astisub.StyleAttributes{}}
	s.Regions["r"] = &astisub.Region{ID: "r", Style: s.Styles["a"], InlineStyle: &astisub.StyleAttributes{WebVTTLines: 3, TTMLOrigin: astikit.StrPtr("10% 80%")}}
	for i := 0; i < 3; i++ {
		it := &astisub.Item{StartAt: time.Duration(3-i) * 1500 * time.Millisecond, EndAt: time.Duration(3-i)*1500*time.Millisecond + 1200*time.Millisecond, InlineStyle: &astisub.StyleAttributes{WebVTTAlign: "left"},
			Lines: []astisub.Line{{VoiceName: "v", Items: []astisub.LineItem{{Text: "é&<" + tag, InlineStyle: &astisub.StyleAttributes{SRTBold: true, SRTColor: astikit.StrPtr("red"), WebVTTTags: []astisub.WebVTTTag{{Name: "b"}}}}, {Text: " plain", Style: s.Styles["b"]}}}, {Items: []astisub.LineItem{{Text: "second " + fmt.Sprint(i)}}}}}
		if i == 0 {
			it.Style, it.Region = s.Styles["b"], s.Regions["r"]
		}
		s.Items = append(s.Items, it)
	}
	return s
}

func writeOp(format, tag string) Op {
	return Op{"write-" + format + tag, func(string) string {
		var b bytes.Buffer
		l := richList(tag)
		if tag == "#alt" {
			// the other branch of every per-document option: v4.00+ script, 30 fps teletext STL, timestamp map, other language
			l.Metadata.SSAScriptType = "v4.00+"
			l.Metadata.Framerate = 30
			l.Metadata.STLDisplayStandardCode = "1"
			l.Metadata.Language = astisub.LanguageNorwegian
			l.Metadata.WebVTTTimestampMap = &astisub.WebVTTTimestampMap{Local: time.Second, MpegTS: 900000}
			l.Metadata.STLTimecodeStartOfProgramme = time.Hour
		}
		err, pan := corpus.Write(format, l, &b)
		if pan != "" {
			return "panic: " + pan
		}
		if err != nil {
			return "error: " + err.Error()
		}
		return b.String()
	}}
}

func transformOp(name string, f func(s *astisub.Subtitles)) Op {
	return Op{name, func(string) string {
		s := richList(name)
		pan := ""
		func() {
			defer func() {
				if e := recover(); e != nil {
					pan = fmt.Sprint(e)
				}
			}()
			f(s)
		}()
		if pan != "" {
			return "panic: " + pan
		}
		keep(s)
		return dump.Subs(s)
	}}
}

// failing destinations and sources: calls that end in an error must not leave anything behind either
type failAfter struct{ n int }

func (w *failAfter) Write(p []byte) (int, error) {
	if w.n -= len(p); w.n < 0 {
		return 0, fmt.Errorf("c20: destination full")
	}
	return len(p), nil
}

type failingReader struct {
	data []byte
	pos  int
}

func (r *failingReader) Read(p []byte) (int, error) {
	if r.pos >= len(r.data) {
		return 0, fmt.Errorf("c20: source lost")
	}
	n := copy(p, r.data[r.pos:])
	r.pos += n
	return n, nil
}

func failingWriteOp(format string) Op {
	return Op{"write-" + format + "-failing", func(string) string {
		err, pan := corpus.Write(format, richList("fw"), &failAfter{n: 40})
		return fmt.Sprint(err != nil, pan)
	}}
}

func failingReadOp(name, format string, data []byte) Op {
	return Op{name, func(string) string {
		_, err, pan := corpus.Read(format, &failingReader{data: append([]byte{}, data[:len(data)*2/3]...)})
		return fmt.Sprint(err != nil, pan)
	}}
}

var extraOps []Op

// RegisterOp lets other packages add operations (transport-stream reads built by the teletext encoder).
func RegisterOp(o Op) { extraOps = append(extraOps, o) }

func docData(name string) []byte {
	for _, d := range corpus.Small() {
		if d.Name == name {
			return d.Data
		}
	}
	return nil
}

// STL documents with diacritics in open and teletext display standards (collide on the character tables)
func stlDoc(dsc string, text string) []byte {
	s := astisub.NewSubtitles()
	d := time.Date(2020, 1, 2, 0, 0, 0, 0, time.UTC)
	s.Metadata = &astisub.Metadata{Framerate: 25, STLDisplayStandardCode: dsc, STLCreationDate: &d, STLRevisionDate: &d, Language: astisub.LanguageFrench}
	s.Items = append(s.Items, &astisub.Item{StartAt: time.Second, EndAt: 2 * time.Second, Lines: []astisub.Line{{Items: []astisub.LineItem{{Text: text}}}}})
	var b bytes.Buffer
	s.WriteToSTL(&b)
	out := b.Bytes()
	if dsc != "0" && len(out) > 1024+16+3 {
		// teletext display standard: box the text so that the reader returns it
		tti := out[1024:]
		txt := append([]byte{0x0b, 0x0b}, tti[16:16+100]...)
		copy(tti[16:], txt)
	}
	return out
}

func Ops() []Op {
	ops := []Op{
		readOp("read-srt", "srt", docData("srt-crlf")),
		readOp("read-srt-2", "srt", []byte("1\n00:00:01,000 --> 00:00:02,000\n<font color=\"blue\"><b>x &amp; y&nbsp;z</b></font>\n\n2\n00:00:03,000 --> 00:00:04,000\n<i>t</i>\n")),
		readOp("read-vtt", "vtt", docData("vtt-full")),
		readOp("read-ttml", "ttml", docData("ttml-small")),
		readOp("read-ssa", "ssa", docData("ssa-small")),
		readOp("read-stl-open", "stl", stlDoc("0", "éàü Ω")),
		readOp("read-stl-teletext", "stl", stlDoc("1", "ñöç x")),
		readOp("read-ts-french", "ts", docData("ts-french-3")),
		readOp("read-ts-german", "ts", docData("ts-german-serial-2")),
		writeOp("srt", ""), writeOp("vtt", ""), writeOp("ttml", ""), writeOp("ssa", ""), writeOp("stl", ""),
		writeOp("srt", "#2"), writeOp("stl", "#2"),
		writeOp("ssa", "#alt"), writeOp("stl", "#alt"), writeOp("vtt", "#alt"), writeOp("ttml", "#alt"),
		readOp("read-ssa-v4plus", "ssa", []byte("[Script Info]\nScriptType: v4.00+\n\n[V4+ Styles]\nFormat: Name, Fontname, Bold, PrimaryColour\nStyle: Default,Arial,-1,&H00FFFFFF\n\n[Events]\nFormat: Layer, Start, End, Style, Name, MarginL, MarginR, MarginV, Effect, Text\nDialogue: 1,0:00:01.00,0:00:02.00,Default,,0,0,0,,{\\i1}x{\\i0} y\n")),
		{"write-ttml-noindent", func(string) string {
			var b bytes.Buffer
			if err := richList("ni").WriteToTTML(&b, astisub.WriteToTTMLWithIndentOption("")); err != nil {
				return "error: " + err.Error()
			}
			return b.String()
		}},
		{"write-ttml-tab", func(string) string {
			var b bytes.Buffer
			if err := richList("tab").WriteToTTML(&b, astisub.WriteToTTMLWithIndentOption("\t")); err != nil {
				return "error: " + err.Error()
			}
			return b.String()
		}},
		{"read-stl-ignore-tcp", func(string) string {
			s, err := astisub.ReadFromSTL(bytes.NewReader(docData("stl-open-30-tcp10h")), astisub.STLOptions{IgnoreTimecodeStartOfProgramme: true})
			if err != nil {
				return "error: " + err.Error()
			}
			return dump.Subs(s)
		}},
		{"read-ssa-with-callbacks", func(string) string {
			var seen []string
			s, err := astisub.ReadFromSSAWithOptions(bytes.NewReader([]byte("[Script Info]\njunk line\nTitle: t\n\n[Fonts]\nx\n\n[Events]\nFormat: Start, End, Text\nDialogue: 0:00:01.00,0:00:02.00,hello\n")), astisub.SSAOptions{
				OnUnknownSectionName: func(n string) { seen = append(seen, "section:"+n) },
				OnInvalidLine:        func(l string) { seen = append(seen, "line:"+l) },
			})
			if err != nil {
				return "error: " + err.Error()
			}
			return fmt.Sprint(seen) + dump.Subs(s)
		}},
		{"read-ts-page-889", func(string) string {
			s, err := astisub.ReadFromTeletext(bytes.NewReader(docData("ts-two-pages-888-889")), astisub.TeletextOptions{Page: 889, PID: 256})
			if err != nil {
				return "error: " + err.Error()
			}
			return dump.Subs(s)
		}},
		readOp("read-ttml-anonymous", "ttml", []byte(`<tt xmlns="http://www.w3.org/ns/ttml" xmlns:tts="http://www.w3.org/ns/ttml#styling"><head><styling><style tts:color="red"/></styling><layout><region tts:origin="10% 10%"/></layout></head><body><div><p begin="1s" end="2s">x</p><p xml:id="p2" begin="3s" end="4s"><span>y</span></p></div></body></tt>`)),
		readOp("read-vtt-no-ids", "vtt", []byte("WEBVTT\n\nRegion: id=a width=40%\n\n00:01.000 --> 00:02.000 region:a\nx\n\n00:03.000 --> 00:04.000\ny\n")),
		readOp("read-ttml-unmapped-lang", "ttml", []byte(`<tt xmlns="http://www.w3.org/ns/ttml" xml:lang="de"><body><div><p begin="1s" end="2s">x</p></div></body></tt>`)),
		// batteries: one operation that reads many small documents differing in ONE header value - whatever a reader
		// may be tempted to register, memoise or learn from what it sees (language tags, colour words, time forms)
		{"read-ttml-language-tags", func(string) string {
			var out strings.Builder
			for _, tag := range []string{"fr", "FR", "fr-CA", "fra", "fre", "en-US", "eng", "de", "deu", "nb", "nb-NO", "nn", "no", "nor", "ja", "jpn", "zh", "zh-Hans", "chi", "cmn-Hans", "x-klingon", "", " "} {
				s, err, pan := corpus.Read("ttml", strings.NewReader(`<tt xmlns="http://www.w3.org/ns/ttml" xml:lang="`+tag+`"><body><div><p begin="1s" end="2s">x</p></div></body></tt>`))
				fmt.Fprintf(&out, "%q: %v %v %s\n", tag, err, pan, dump.Subs(s))
			}
			return out.String()
		}},
		{"read-ttml-colours-and-times", func(string) string {
			var out strings.Builder
			for _, col := range []string{"red", "RED", "#ff0000", "#f00", "#ff000080", "rgb(255,0,0)", "rgba(255,0,0,128)", "transparent", "aqua", "no-such-colour", ""} {
				for _, tm := range []string{"2s", "2.5s", "00:00:02.500", "00:00:02:12", "50f", "2500ms", "0.000694444h"} {
					s, err, pan := corpus.Read("ttml", strings.NewReader(`<tt xmlns="http://www.w3.org/ns/ttml" xmlns:tts="http://www.w3.org/ns/ttml#styling" xmlns:ttp="http://www.w3.org/ns/ttml#parameter" ttp:frameRate="25"><body><div><p begin="1s" end="`+tm+`" tts:color="`+col+`">x</p></div></body></tt>`))
					fmt.Fprintf(&out, "%q %q: %v %v %s\n", col, tm, err, pan, dump.Subs(s))
				}
			}
			return out.String()
		}},
		{"read-stl-language-and-code-page-codes", func(string) string {
			var out strings.Builder
			base := docData("stl-open-25-2")
			for lc := 0; lc < 0x100; lc++ {
				for _, form := range []string{"%02X", "%02x"} { // hexadecimal digits in either case
					code := fmt.Sprintf(form, lc)
					if form == "%02x" && code == strings.ToUpper(code) {
						continue
					}
					d := append([]byte{}, base...)
					copy(d[14:16], code)
					s, err, pan := corpus.Read("stl", bytes.NewReader(d))
					lang := ""
					if s != nil && s.Metadata != nil {
						lang = s.Metadata.Language
					}
					fmt.Fprintf(&out, "LC %s: %v %v %q\n", code, err, pan, lang)
				}
			}
			for _, cpn := range []string{"437", "850", "860", "863", "865", "000", "   "} {
				d := append([]byte{}, base...)
				copy(d[0:3], cpn)
				s, err, pan := corpus.Read("stl", bytes.NewReader(d))
				fmt.Fprintf(&out, "CPN %q: %v %v %s\n", cpn, err, pan, dump.Subs(s))
			}
			return out.String()
		}},
		{"read-ssa-style-names-and-colours", func(string) string {
			var out strings.Builder
			for _, name := range []string{"Default", "*Default", "default", "DEFAULT", "Alt", " spaced name ", ""} {
				for _, col := range []string{"255", "&H255", "&H000000FF", "&HFF", "-1", "4294967295", "65535"} {
					s, err, pan := corpus.Read("ssa", strings.NewReader("[V4 Styles]\nFormat: Name, PrimaryColour, Bold\nStyle: "+name+","+col+",-1\n\n[Events]\nFormat: Start, End, Style, Text\nDialogue: 0:00:01.00,0:00:02.00,"+name+",x\n"))
					fmt.Fprintf(&out, "%q %q: %v %v %s\n", name, col, err, pan, dump.Subs(s))
				}
			}
			return out.String()
		}},
		{"write-ttml-stl-unknown-lang", func(string) string {
			l := richList("u")
			l.Metadata.Language = "klingon"
			l.Metadata.Framerate = 24
			var b, b2 bytes.Buffer
			e1, p1 := corpus.Write("ttml", l, &b)
			e2, p2 := corpus.Write("stl", l, &b2)
			return fmt.Sprint(e1, p1, e2, p2) + b.String() + b2.String()
		}},
		transformOp("add", func(s *astisub.Subtitles) { s.Add(-2 * time.Second) }),
		transformOp("fragment", func(s *astisub.Subtitles) { s.Order(); s.Fragment(700 * time.Millisecond) }),
		transformOp("unfragment", func(s *astisub.Subtitles) { s.Unfragment() }),
		transformOp("merge", func(s *astisub.Subtitles) { s.Merge(richList("other")) }),
		transformOp("optimize", func(s *astisub.Subtitles) { s.Optimize() }),
		transformOp("order", func(s *astisub.Subtitles) { s.Order() }),
		transformOp("removestyling", func(s *astisub.Subtitles) { s.RemoveStyling() }),
		transformOp("forceduration", func(s *astisub.Subtitles) { s.Order(); s.ForceDuration(4*time.Second, true) }),
		transformOp("forceduration-filler", func(s *astisub.Subtitles) { s.Order(); s.ForceDuration(10*time.Second, true) }),
		transformOp("linear", func(s *astisub.Subtitles) {
			s.ApplyLinearCorrection(time.Second, 2*time.Second, 5*time.Second, 7*time.Second)
		}),
		{"open-write-files", func(scratch string) string {
			dir, err := os.MkdirTemp(scratch, "c20-")
			if err != nil {
				return "mkdir: " + err.Error()
			}
			defer os.RemoveAll(dir)
			p := filepath.Join(dir, "a.srt")
			if err := richList("f").Write(p); err != nil {
				return "write: " + err.Error()
			}
			s, err := astisub.OpenFile(p)
			if err != nil {
				return "open: " + err.Error()
			}
			q := filepath.Join(dir, "b.VTT")
			if err := s.Write(q); err != nil {
				return "write2: " + err.Error()
			}
			b, _ := os.ReadFile(q)
			return string(b)
		}},
	}
	// two callers writing their own lists to files of one directory whose names differ in the extension only
	// (movie.srt, movie.vtt): independent calls as far as the property goes - anything they share is the package's
	for _, ext := range []string{"srt", "vtt"} {
		ext := ext
		ops = append(ops, Op{"files-write-movie-" + ext, func(scratch string) string {
			// the n-th call of this operation and the n-th call of its twin (since the last reset: once per explored
			// execution) meet in one directory; two calls of the SAME operation never do - they would share a file
			dir := filepath.Join(scratch, fmt.Sprintf("c20-shared-%d-%d", os.Getpid(), nextFileSeq(ext)))
			if err := os.MkdirAll(dir, 0o755); err != nil { // left behind (the twin may be about to use it); the run's scratch directory goes as a whole
				return "mkdir: " + err.Error()
			}
			p := filepath.Join(dir, "movie."+ext)
			defer os.Remove(p)
			if err := richList("m" + ext).Write(p); err != nil {
				return "write: " + err.Error()
			}
			b, err := os.ReadFile(p)
			if err != nil {
				return "read back: " + err.Error()
			}
			return string(b)
		}})
	}
	for _, f := range corpus.WriteFormats {
		ops = append(ops, failingWriteOp(f))
	}
	ops = append(ops, failingReadOp("read-srt-failing", "srt", docData("srt-crlf")), failingReadOp("read-vtt-failing", "vtt", docData("vtt-full")),
		failingReadOp("read-ssa-failing", "ssa", docData("ssa-small")), failingReadOp("read-ttml-failing", "ttml", docData("ttml-small")),
		failingReadOp("read-stl-failing", "stl", stlDoc("0", "éàü Ω")))
	return append(ops, extraOps...)
}
