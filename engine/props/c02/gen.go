package c02

import (
	"fmt"
	"strings"

	"verif/core"
	"verif/explore"
	"verif/ref/vtt"
)

var (
	tagB    = vtt.Tag{Name: "b"}
	tagI    = vtt.Tag{Name: "i"}
	tagU    = vtt.Tag{Name: "u"}
	tagRed  = vtt.Tag{Name: "c", Classes: []string{"red"}}
	tagAB   = vtt.Tag{Name: "c", Classes: []string{"a", "b"}}
	tagLang = vtt.Tag{Name: "lang", Annotation: "en"}
	tagHy   = vtt.Tag{Name: "c", Classes: []string{"bg-blue", "loud2", "\u00e9t\u00e9"}} // class names are not \w+ only
	tagLang2 = vtt.Tag{Name: "lang", Annotation: "en-GB x"}

	allTags   = []vtt.Tag{tagB, tagI, tagU, tagRed, tagAB, tagLang, tagHy, tagLang2}
	allTexts  = []string{"x", "a b", " lead", "trail ", "7", "&", "<", "a<b", "&amp;", "a\u00a0b", "\u00e9", "e\u0301", "\U0001F600", "a>b", "a\tb", "\"q\"", "1 > 0 -> ok"}
	allStarts = []int64{1000, 0, 1, 999, 1500, 59999, 60000, 3599999, 3600000, 35999999, 36000000, 86399999, 359998000, 360000000, 3599998000}
	tsmaps    = []*vtt.TSMap{nil, {Local: 0, MpegTS: 900000}, {Local: 1000, MpegTS: 180000}, {Local: 3600000, MpegTS: 8589934591}, {Local: 2000, MpegTS: 0}, {Local: 0, MpegTS: 0}, {Local: 10000, MpegTS: 900000}} // the last two: a map that is set but shifts nothing
	styleBlks = [][]string{{"::cue { color: red }"}, {"::cue(b) {", "  color: peachpuff;", "}"}}
)

const maxMs = 3599999999 // 999:59:59.999

type profile struct {
	ncues     []int
	starts    []int64
	ends      []int // 0 +1s, 1 +1ms, 2 +500ms, 3 max
	ids       []int // 0 k+1, 1 absent, 2 42
	comments  []int // number of comment lines
	settings  int   // 0 none, 1 present/absent per setting, 2 two values per setting
	nregions  []int
	regAttrs  bool // every subset of region attributes
	regionRef bool
	nstyles   []int
	styleKind []int
	tsmaps    []int
	nlines    []int
	voices    []string
	nruns     []int
	tags      []vtt.Tag
	depth     int
	walk      bool  // stacks form a properly nested walk (else arbitrary per run)
	ts        []int // 0 none, 1 start+400ms, 2 start+1ms
	texts     []string
	rend      string // space separated rendering choice points that are explored ("*" = all)
}

func fullProfile(thorough bool) profile {
	p := profile{
		ncues: []int{1, 0, 2}, starts: allStarts, ends: []int{0, 1, 2, 3}, ids: []int{0, 1, 2}, comments: []int{0, 1, 2},
		settings: 2, nregions: []int{0, 1, 2}, regAttrs: true, regionRef: true, nstyles: []int{0, 1, 2}, styleKind: []int{0, 1},
		tsmaps: []int{0, 1, 2, 3, 4, 5, 6}, nlines: []int{1, 2, 0}, voices: []string{"", "Bob", "Bob Smith"}, nruns: []int{1, 2},
		tags: allTags, depth: 3, walk: true, ts: []int{0, 1, 2}, texts: allTexts, rend: "*",
	}
	if thorough {
		p.ncues = []int{1, 0, 2, 3}
		p.nlines = []int{1, 2, 0, 3}
		p.nruns = []int{1, 2, 3}
	}
	return p
}

func base() profile {
	return profile{ncues: []int{1}, starts: []int64{1000}, ends: []int{0}, ids: []int{0}, comments: []int{0}, nregions: []int{0},
		nstyles: []int{0}, styleKind: []int{0}, tsmaps: []int{0}, nlines: []int{1}, voices: []string{""}, nruns: []int{1}, walk: true,
		ts: []int{0}, texts: []string{"x"}}
}

// core products A1/A2: text structure (runs resp. lines x nested tag walks x inline timestamps x voice x tag rendering)
func coreA(lines bool, thorough bool) profile {
	p := base()
	if lines {
		p.nlines = []int{2}
	} else {
		p.nruns = []int{1, 2}
	}
	p.tags = []vtt.Tag{tagB, tagRed, tagLang}
	p.depth = 2
	p.ts = []int{0, 1}
	p.voices = []string{"", "Bob"}
	p.rend = "lazy leaveopen tsbeforetags closevoice"
	if thorough {
		p.tags = []vtt.Tag{tagB, tagI, tagRed, tagLang}
		if !lines {
			p.nruns = []int{1, 2, 3}
			p.rend = "lazy tsbeforetags"
		}
	}
	return p
}

// core product A3: two cues (tags must not leak from one cue into the next, however they are terminated)
func coreA3() profile {
	p := base()
	p.ncues = []int{2}
	p.tags = []vtt.Tag{tagB, tagRed}
	p.depth = 2
	p.voices = []string{"", "Bob"}
	p.rend = "lazy leaveopen closevoice blank eof"
	return p
}

// core product B1: one cue header (identifier, comments, every subset of settings, region reference, timing forms)
func coreB1() profile {
	p := base()
	p.starts = []int64{1000, 3600000}
	p.ids = []int{0, 1, 2}
	p.comments = []int{0, 1, 2}
	p.settings = 1
	p.nregions = []int{1}
	p.regionRef = true
	p.rend = "eol shorttime settingssep noteblocks idpad"
	return p
}

// core product B2: two cues (identifier / comment / region attachment to the right cue)
func coreB2() profile {
	p := base()
	p.ncues = []int{2}
	p.ids = []int{0, 1, 2}
	p.comments = []int{0, 1, 2}
	p.nregions = []int{1}
	p.regionRef = true
	p.rend = "eol blank noteblocks eof idpad"
	return p
}

// core product T: every instant (up to 3-digit hours) x end form x inline timestamp x mm:ss.ttt
func coreT() profile {
	p := base()
	p.starts = allStarts
	p.ends = []int{0, 1, 2, 3}
	p.ts = []int{0, 1, 2}
	p.nruns = []int{1, 2}
	p.rend = "shorttime tsbeforetags"
	return p
}

// core product C1: 0..2 regions with every subset of attributes, region reference
func coreC1() profile {
	p := base()
	p.nregions = []int{0, 1, 2}
	p.regAttrs = true
	p.regionRef = true
	p.rend = "eol regionblocks"
	return p
}

// core product C2: STYLE blocks, timestamp map, header forms
func coreC2() profile {
	p := base()
	p.nregions = []int{0, 1}
	p.regionRef = true
	p.nstyles = []int{0, 1, 2}
	p.styleKind = []int{0, 1}
	p.tsmaps = []int{0, 1, 3, 5, 6}
	p.rend = "eol bom headertext blank maprev"
	return p
}

// write core product: arbitrary (not only nested) tag stacks on neighbouring runs
func coreW(thorough bool) profile {
	p := base()
	p.nruns = []int{2}
	p.tags = allTags
	p.depth = 2
	p.walk = false
	p.ts = []int{0, 1}
	if thorough {
		p.depth = 3
	}
	return p
}

func writeBall(thorough bool) profile {
	p := fullProfile(thorough)
	p.walk = false
	p.rend = ""
	return p
}

func gen(c *explore.C, p profile) Case {
	var d vtt.Doc
	if i := explore.Pick(c, "tsmap", p.tsmaps...); tsmaps[i] != nil {
		m := *tsmaps[i]
		d.TSMap = &m
	}
	ns := explore.Pick(c, "nstyles", p.nstyles...)
	for k := 0; k < ns; k++ {
		d.Styles = append(d.Styles, append([]string(nil), styleBlks[explore.Pick(c, "stylekind", p.styleKind...)]...))
	}
	nr := explore.Pick(c, "nregions", p.nregions...)
	for k := 0; k < nr; k++ {
		r := vtt.Region{ID: []string{"fred", "bill"}[k]}
		if p.regAttrs {
			if c.Bool("r.width") {
				r.Width = "40%"
			}
			if c.Bool("r.lines") {
				r.Lines = 3
			}
			if c.Bool("r.regionanchor") {
				r.RegionAnchor = "0%,100%"
			}
			if c.Bool("r.viewportanchor") {
				r.ViewportAnchor = "10%,90%"
			}
			if c.Bool("r.scroll") {
				r.Scroll = "up"
			}
		} else {
			r.Width, r.Lines, r.RegionAnchor, r.ViewportAnchor, r.Scroll = "40%", 3, "0%,100%", "10%,90%", "up"
		}
		d.Regions = append(d.Regions, r)
	}
	n := explore.Pick(c, "ncues", p.ncues...)
	for k := 0; k < n; k++ {
		cue := vtt.Cue{}
		cue.Start = explore.Pick(c, "start", p.starts...)
		switch explore.Pick(c, "end", p.ends...) {
		case 0:
			cue.End = cue.Start + 1000
		case 1:
			cue.End = cue.Start + 1
		case 2:
			cue.End = cue.Start + 500
		case 3:
			cue.End = maxMs
		}
		if cue.End > maxMs {
			cue.End = maxMs
		}
		switch explore.Pick(c, "id", p.ids...) {
		case 0:
			cue.ID = k + 1
		case 2:
			cue.ID = 42
		}
		switch explore.Pick(c, "comments", p.comments...) {
		case 1:
			cue.Comments = []string{"this is a comment"}
		case 2:
			cue.Comments = []string{"first line", "second line"}
		}
		pick := func(site string, vals ...string) string {
			switch p.settings {
			case 1:
				if c.Bool(site) {
					return vals[0]
				}
			case 2:
				return explore.Pick(c, site, append([]string{""}, vals...)...)
			}
			return ""
		}
		cue.Settings.Align = pick("s.align", "left", "center")
		cue.Settings.Line = pick("s.line", "10%", "-1")
		cue.Settings.Position = pick("s.position", "10%,line-left", "50%")
		cue.Settings.Size = pick("s.size", "35%", "100%")
		cue.Settings.Vertical = pick("s.vertical", "rl", "lr")
		if p.regionRef && nr > 0 {
			if i := c.Choose("regionref", nr+1); i > 0 {
				cue.Region = d.Regions[i-1].ID
			}
		}
		nl := explore.Pick(c, "nlines", p.nlines...)
		var open []vtt.Tag
		for l := 0; l < nl; l++ {
			line := vtt.Line{Voice: explore.Pick(c, "voice", p.voices...)}
			nruns := explore.Pick(c, "nruns", p.nruns...)
			for r := 0; r < nruns; r++ {
				run := vtt.Run{}
				if len(p.tags) > 0 && p.depth > 0 {
					keep := 0
					if p.walk && len(open) > 0 {
						keep = len(open) - c.Choose("pops", len(open)+1)
					}
					st := append([]vtt.Tag{}, open[:keep]...)
					for len(st) < p.depth {
						t := c.Choose("push", len(p.tags)+1)
						if t == 0 {
							break
						}
						st = append(st, p.tags[t-1])
					}
					open = st
					run.Tags = append([]vtt.Tag(nil), st...)
				}
				switch explore.Pick(c, "ts", p.ts...) {
				case 1:
					run.TS = cue.Start + 400
				case 2:
					run.TS = cue.Start + 1
				}
				run.Text = explore.Pick(c, "text", p.texts...)
				line.Runs = append(line.Runs, run)
			}
			cue.Lines = append(cue.Lines, line)
		}
		d.Cues = append(d.Cues, cue)
	}
	r := vtt.DefaultRender()
	on := func(site string) bool {
		return p.rend == "*" || strings.Contains(" "+p.rend+" ", " "+site+" ")
	}
	if on("eol") {
		r.EOL = explore.Pick(c, "eol", "\n", "\r\n", "\r")
	}
	if on("bom") {
		r.BOM = c.Bool("bom")
	}
	if on("shorttime") {
		r.ShortTime = c.Bool("shorttime")
	}
	if on("headertext") {
		r.HeaderText = explore.Pick(c, "headertext", "", " - title", "\tsome text")
	}
	if on("blank") {
		r.Blank = explore.Pick(c, "blank", 1, 2)
	}
	if on("settingssep") {
		r.SettingsSep = explore.Pick(c, "settingssep", " ", "\t", "  ")
	}
	if on("settingsrev") {
		r.SettingsRev = c.Bool("settingsrev")
	}
	if on("eof") {
		r.EOF = c.Choose("eof", 4)
	}
	if on("lazy") {
		r.Lazy = c.Bool("lazy")
	}
	if on("leaveopen") {
		r.LeaveOpen = c.Bool("leaveopen")
	}
	if on("tsbeforetags") {
		r.TSBeforeTags = c.Bool("tsbeforetags")
	}
	if on("closevoice") {
		r.CloseVoice = c.Bool("closevoice")
	}
	if on("voiceclass") {
		r.VoiceClass = c.Bool("voiceclass")
	}
	if on("noteblocks") {
		r.NoteBlocks = c.Bool("noteblocks")
	}
	if on("regionblocks") {
		r.RegionBlocks = c.Bool("regionblocks")
	}
	if on("maprev") {
		r.MapRev = c.Bool("maprev")
	}
	if on("idpad") {
		r.IDPad = explore.Pick(c, "idpad", 0, 1, 2)
	}
	return Case{Doc: d, Render: r}
}

type stage struct {
	sub  string
	p    profile
	b    int
	read bool
}

func stages(thorough bool) []stage {
	bound := 3
	st := []stage{
		{"coreA1", coreA(false, thorough), -1, true},
		{"coreA2", coreA(true, thorough), -1, true},
		{"coreA3", coreA3(), -1, true},
		{"coreB1", coreB1(), -1, true},
		{"coreB2", coreB2(), -1, true},
		{"coreT", coreT(), -1, true},
		{"coreC1", coreC1(), -1, true},
		{"coreC2", coreC2(), -1, true},
		{"coreW", coreW(thorough), -1, false},
		{"ball", fullProfile(thorough), bound, true},
		{"wball", writeBall(thorough), bound, false},
	}
	if thorough {
		st = append(st, stage{"ball4", fullProfile(false), 4, true})
	}
	return st
}

func run(c *core.Ctx) {
	thorough := c.Tier == core.Thorough
	bound := 3
	if thorough {
		bound = 4
	}
	var cs Case
	visit := func(sub string, read bool) func(x *explore.C) bool {
		return func(x *explore.C) bool {
			if !c.Mine() {
				return true
			}
			cs := cs
			dev := explore.Deviations(x.Trace)
			den := cs.Doc.Denote().String()
			if read {
				key, msg, out := CheckRead(cs)
				nt := uint64(0)
				if dev > 0 {
					nt = core.Hash64("r", den, fmt.Sprintf("%+v", cs.Render))
				}
				cs.Dir = "read"
				c.Record(sub+".read", out, nt, func() interface{} {
					return map[string]interface{}{"choices": x.Trace, "bytes": string(cs.Doc.Bytes(cs.Render))}
				})
				if key != "" {
					c.Violate("read", key, msg, cs, dev*1000+len(cs.Doc.Bytes(cs.Render)))
				}
			}
			for variant := 0; variant < 2; variant++ {
				key, msg, out := CheckWrite(cs.Doc, variant)
				nt := uint64(0)
				if dev > 0 {
					nt = core.Hash64("w", den, fmt.Sprint(variant))
				}
				var sample func() interface{}
				if !read {
					sample = func() interface{} { return map[string]interface{}{"choices": x.Trace, "model": cs.Doc} }
				}
				c.Record(sub+".write", out, nt, sample)
				if key != "" {
					w := cs
					w.Dir, w.Variant, w.Render = "write", variant, vtt.DefaultRender()
					c.Violate("write", key, msg, w, dev*1000+len(den))
				}
			}
			return c.Evals%4096 != 0 || !c.Expired()
		}
	}
	for _, st := range stages(thorough) {
		p := st.p
		n := explore.Explore(st.b, func(x *explore.C) { cs = gen(x, p) }, visit(st.sub, st.read))
		if c.Shard == 0 {
			c.Extra["cases_"+st.sub] = n
		}
	}
	c.ExtraMax["deviation_bound"] = float64(bound)
}

func init() {
	core.Register(&core.Prop{
		ID: "C02", Level: "exploration",
		Rule: "a case = (ground-truth WebVTT model, rendering choices) chosen by the E1 explorer: four full cartesian products of small grammars (A text structure: lines x runs x nested tag walks x inline timestamps x voice x lazy/unterminated/voice-closing tags and timestamp placement; B cue header: cue count x identifier x comments x every subset of the five settings x region reference x EOL x mm:ss.ttt x tab/space x comment block form; C blocks: 0..2 regions with every subset of attributes x region reference x STYLE blocks x timestamp map x EOL x BOM x header text x blank lines x EOF form; W writer: arbitrary tag stacks on neighbouring runs x inline timestamps) plus every document within B deviations from the baseline over ALL model and rendering choice points; read direction: ReadFromWebVTT(render(model)) must denote the model; write direction (two ways of building the library value: attribute holders allocated / nil when empty): WriteToWebVTT(model) must start with WEBVTT, number the cues 1..n, define every referenced region earlier in the file, and denote the model to the library reader and to an independent decoder; non-trivial = non-baseline case, distinct by (denotation, rendering) resp. (denotation, build variant)",
		Scope: map[core.Tier]string{
			core.Quick:    "core products A1 (1 line, <=2 runs), A2 (2 lines), both 3 tags x depth<=2 x timestamp x voice x 16 tag renderings; A3 (2 cues, tag leakage); B1 (1 cue: 32 settings subsets x id (zero-padded or not) x comments x region ref x EOL x short time x separator x comment form); B2 (2 cues: id/comment/region attachment); T (15 instants up to 999 h x 4 end forms x inline timestamp x short time); C1 (<=2 regions x 32 attribute subsets x region ref); C2 (STYLE blocks x timestamp map x header forms); W (2 runs, 6 tags, depth<=2, arbitrary stacks) + deviation balls B=3 for the read and the write generator (<=2 cues, <=2 lines, <=2 runs, 6 tags, depth<=3, 17 text atoms, 15 instants, 17 rendering choice points)",
			core.Thorough: "core products as quick with A1 <=3 runs / 4 tags, A2 4 tags, W depth<=3; deviation balls B=3 on the larger profile (<=3 cues, <=3 lines, <=3 runs) and B=4 on the quick profile",
		},
		Assumptions: []string{
			"Go toolchain and standard library",
			"independent reference codec engine/ref/vtt",
			"outer white space of a payload line is outside the denotation (the reader trims lines; the format's rendering ignores it)",
			"the voice of a line is the annotation of the first <v> start tag on that line (the library's one-voice-per-line model); a voice span is never left open across a line boundary by the renderer's </v> option",
			"comments denote the flat list of their lines; STYLE blocks denote the flat list of their (trimmed) lines in file order",
			"regions use the legacy single-line 'Region: id=...' syntax, the only one the library reads or writes",
		},
		Plain: run, Replay: replay,
	})
}
