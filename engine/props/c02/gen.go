package c02

import (
	"fmt"
	"strings"

	"verif/core"
	"verif/explore"
	"verif/ref/vtt"
)

var (
	tagB     = vtt.Tag{Name: "b"}
	tagI     = vtt.Tag{Name: "i"}
	tagU     = vtt.Tag{Name: "u"}
	tagRed   = vtt.Tag{Name: "c", Classes: []string{"red"}}
	tagAB    = vtt.Tag{Name: "c", Classes: []string{"a", "b"}}
	tagLang  = vtt.Tag{Name: "lang", Annotation: "en"}
	tagHy    = vtt.Tag{Name: "c", Classes: []string{"bg-blue", "loud2", "\u00e9t\u00e9"}} // class names are not \w+ only
	tagLang2 = vtt.Tag{Name: "lang", Annotation: "en-GB x"}

	allTags   = []vtt.Tag{tagB, tagI, tagU, tagRed, tagAB, tagLang, tagHy, tagLang2}
	allTexts  = []string{"x", "a b", " lead", "trail ", "7", "&", "<", "a<b", "&amp;", "a\u00a0b", "\u00e9", "e\u0301", "\U0001F600", "a>b", "a\tb", "\"q\"", "1 > 0 -> ok"}
	allStarts = []int64{1000, 0, 1, 999, 1500, 59999, 60000, 3599999, 3600000, 35999999, 36000000, 86399999, 359998000, 360000000, 3599998000}
	tsmaps    = []*vtt.TSMap{nil, {Local: 0, MpegTS: 900000}, {Local: 1000, MpegTS: 180000}, {Local: 3600000, MpegTS: 8589934591}, {Local: 2000, MpegTS: 0}, {Local: 0, MpegTS: 0}, {Local: 10000, MpegTS: 900000}, // the last two: a map that is set but shifts nothing
		{Local: 360000000, MpegTS: 90000}, {Local: 59999, MpegTS: 1}, {Local: 3599999999, MpegTS: 8589934591}} // wide: 3-digit hours, ms/second boundary with a 1-tick clock, both at their maximum
	styleBlks = [][]string{{"::cue { color: red }"}, {"::cue(b) {", "  color: peachpuff;", "}"},
		{"::cue(c.red) { color: #ff0000; }", "::cue(v[voice=\"Bob\"]) { color: lime }"},               // wide: two one-line rules, '#', '[', '=', quotes
		{"::cue {", "background: rgba(0,0,0,0.5);", "}", "::cue(.\u00e9t\u00e9) { font-size: 120% }"}} // wide: a rule after a closing brace line, non-ASCII

	// ---- wide value tables (stages wide*, core S/R/V/E/K/I/M, many) ----
	tagC     = vtt.Tag{Name: "c"}                                        // class span without classes
	tagBLoud = vtt.Tag{Name: "b", Classes: []string{"loud"}}             // classes on a non-c tag
	tagUS    = vtt.Tag{Name: "c", Classes: []string{"bg_blue", "white"}} // the specification's own colour classes: underscore
	tagDig   = vtt.Tag{Name: "c", Classes: []string{"1"}}                // digits-only class
	tagRuby  = vtt.Tag{Name: "ruby"}
	tagRt    = vtt.Tag{Name: "rt"}
	tagLang3 = vtt.Tag{Name: "lang", Annotation: "zh-Hant-TW"}
	wideTags = []vtt.Tag{tagB, tagI, tagU, tagRed, tagAB, tagLang, tagHy, tagLang2, tagC, tagBLoud, tagUS, tagDig, tagRuby, tagRt, tagLang3}
	// coreW keeps 8 tags (cost) but swaps in the wide ones that interact with the writer's neighbour diff: same name, different classes / none
	wTags     = []vtt.Tag{tagB, tagI, tagRed, tagAB, tagLang, tagC, tagBLoud, tagRuby}
	wideTexts = append(append([]string{}, allTexts...), "42", "\u200f\u05e9\u05dc\u05d5\u05dd", "a\u200eb", "&gt;", "&#38;", "NOTE x", "STYLES", "Region: n",
		// markup look-alikes as literal text (written escaped): an inline timestamp, tags, a voice span, a reference inside a reference
		"seek <00:00:05.000> now", "<b>x</b>", "<v Bob>y", "</c>", "&amp;lt;")
	// ms digit boundaries (.010 .100), 4-digit hours
	wideStarts = append(append([]int64{}, allStarts...), 10, 100, 3600000000, 35999999000)
	longVoice  = strings.Repeat("Nebuchadnezzar ", 20) + "II" // 302 bytes
	wideVoices = []string{"", "Bob", "Bob Smith", "Dr. Who", "Zo\u00eb 2", "R&D", "AC/DC", "O'Neil", "bob", "BOB", longVoice}

	alignVals    = []string{"left", "center", "start", "end", "right", "middle"}
	lineVals     = []string{"10%", "-1", "0", "100%", "10%,start", "10.5%", "5"}
	positionVals = []string{"10%,line-left", "50%", "0%", "100%", "50%,center"}
	sizeVals     = []string{"35%", "100%", "0%", "33.3%"}
	verticalVals = []string{"rl", "lr"}

	regionIDs   = [][]string{{"fred", "bill"}, {"r1", "r10"}, {"top-left_2", "r\u00e9gi\u00f3n"}, {"id", "0"}} // prefix pair; hyphen/underscore/digit, non-ASCII; a setting name, a number
	rWidthVals  = []string{"40%", "0%", "100%", "33.3%"}
	rLinesVals  = []int{3, 1, 100}
	rAnchorVals = []string{"0%,100%", "0%,0%", "100%,100%", "12.5%,50%"}
	rViewVals   = []string{"10%,90%", "0%,0%", "100%,100%", "12.5%,50%"}

	commentKinds = [][]string{nil, {"this is a comment"}, {"first line", "second line"},
		{"42"}, {"caf\u00e9 \u2013 \u00fcn\u00ef", "x: y=z"}, {"a", "42", "b c"}} // wide: looks like an identifier; non-ASCII, ':' and '='; three lines with a number in the middle
)

const (
	maxMs  = 3599999999  // 999:59:59.999
	maxMs4 = 35999999999 // 9999:59:59.999
)

const oldRend = "eol bom shorttime headertext blank settingssep settingsrev eof lazy leaveopen tsbeforetags closevoice voiceclass noteblocks regionblocks maprev idpad"

type profile struct {
	ncues     []int
	starts    []int64
	ends      []int // 0 +1s, 1 +1ms, 2 +500ms, 3 999:59:59.999, 4 9999:59:59.999, 5 = start (writer only: not well-formed)
	ids       []int // 0 k+1, 1 absent, 2 42, 3 k+2 (the number of the NEXT cue), 4 2147483647, 5 4294967296, 6 100
	comments  []int // index into commentKinds
	settings  int   // 0 none, 1 present/absent per setting, 2 two values per setting, 3 the whole value table of every setting
	nregions  []int
	regAttrs  bool  // every subset of region attributes
	regVals   bool  // with regAttrs: every attribute ranges over its whole value table
	regIDs    []int // index into regionIDs
	regionRef bool
	nstyles   []int
	styleKind []int
	tsmaps    []int
	nlines    []int
	voices    []string
	nruns     []int
	tags      []vtt.Tag
	depth     int
	walk      bool  // stacks form a properly nested walk (else arbitrary per run)
	ts        []int // 0 none, 1 start+400ms, 2 start+1ms, 3 end-1ms, 4 = start, 5 = end (4, 5 writer only: not well-formed)
	texts     []string
	rend      string // space separated rendering choice points that are explored ("*" = all)
	wideRend  bool   // extended option lists at the rendering choice points that existed before the widening
}

func fullProfile(thorough bool) profile {
	p := profile{
		ncues: []int{1, 0, 2}, starts: allStarts, ends: []int{0, 1, 2, 3}, ids: []int{0, 1, 2}, comments: []int{0, 1, 2},
		settings: 2, nregions: []int{0, 1, 2}, regAttrs: true, regionRef: true, nstyles: []int{0, 1, 2}, styleKind: []int{0, 1},
		tsmaps: []int{0, 1, 2, 3, 4, 5, 6}, nlines: []int{1, 2, 0}, voices: []string{"", "Bob", "Bob Smith"}, nruns: []int{1, 2},
		tags: allTags, depth: 3, walk: true, ts: []int{0, 1, 2}, texts: allTexts, rend: oldRend, regIDs: []int{0},
	}
	if thorough {
		p.ncues = []int{1, 0, 2, 3}
		p.nlines = []int{1, 2, 0, 3}
		p.nruns = []int{1, 2, 3}
	}
	return p
}

func base() profile {
	return profile{ncues: []int{1}, starts: []int64{1000}, ends: []int{0}, ids: []int{0}, comments: []int{0}, nregions: []int{0},
		nstyles: []int{0}, styleKind: []int{0}, tsmaps: []int{0}, nlines: []int{1}, voices: []string{""}, nruns: []int{1}, walk: true,
		ts: []int{0}, texts: []string{"x"}, regIDs: []int{0}}
}

// core products A1/A2: text structure (runs resp. lines x nested tag walks x inline timestamps x voice x tag rendering)
func coreA(lines bool, thorough bool) profile {
	p := base()
	if lines {
		p.nlines = []int{2}
	} else {
		p.nruns = []int{1, 2}
	}
	p.tags = []vtt.Tag{tagB, tagRed, tagLang}
	p.depth = 2
	p.ts = []int{0, 1}
	p.voices = []string{"", "Bob"}
	p.rend = "lazy leaveopen tsbeforetags closevoice"
	if thorough {
		p.tags = []vtt.Tag{tagB, tagI, tagRed, tagLang}
		if !lines {
			p.nruns = []int{1, 2, 3}
			p.rend = "lazy tsbeforetags"
		}
	}
	return p
}

// core product A3: two cues (tags must not leak from one cue into the next, however they are terminated)
func coreA3() profile {
	p := base()
	p.ncues = []int{2}
	p.tags = []vtt.Tag{tagB, tagRed}
	p.depth = 2
	p.voices = []string{"", "Bob"}
	p.rend = "lazy leaveopen closevoice blank eof"
	return p
}

// core product B1: one cue header (identifier, comments, every subset of settings, region reference, timing forms)
func coreB1() profile {
	p := base()
	p.starts = []int64{1000, 3600000}
	p.ids = []int{0, 1, 2}
	p.comments = []int{0, 1, 2}
	p.settings = 1
	p.nregions = []int{1}
	p.regionRef = true
	p.rend = "eol shorttime settingssep noteblocks idpad"
	return p
}

// core product B2: two cues (identifier / comment / region attachment to the right cue)
func coreB2() profile {
	p := base()
	p.ncues = []int{2}
	p.ids = []int{0, 1, 2}
	p.comments = []int{0, 1, 2}
	p.nregions = []int{1}
	p.regionRef = true
	p.rend = "eol blank noteblocks eof idpad"
	return p
}

// core product T: every instant (up to 3-digit hours) x end form x inline timestamp x mm:ss.ttt
func coreT() profile {
	p := base()
	p.starts = allStarts
	p.ends = []int{0, 1, 2, 3}
	p.ts = []int{0, 1, 2}
	p.nruns = []int{1, 2}
	p.rend = "shorttime tsbeforetags"
	return p
}

// core product C1: 0..2 regions with every subset of attributes, region reference
func coreC1() profile {
	p := base()
	p.nregions = []int{0, 1, 2}
	p.regAttrs = true
	p.regionRef = true
	p.rend = "eol regionblocks"
	return p
}

// core product C2: STYLE blocks, timestamp map, header forms
func coreC2() profile {
	p := base()
	p.nregions = []int{0, 1}
	p.regionRef = true
	p.nstyles = []int{0, 1, 2}
	p.styleKind = []int{0, 1}
	p.tsmaps = []int{0, 1, 3, 5, 6}
	p.rend = "eol bom headertext blank maprev"
	return p
}

// write core product: arbitrary (not only nested) tag stacks on neighbouring runs
func coreW(thorough bool) profile {
	p := base()
	p.nruns = []int{2}
	p.tags = wTags
	p.depth = 2
	p.walk = false
	p.ts = []int{0, 1}
	if thorough {
		p.depth = 3
	}
	return p
}

func writeBall(thorough bool) profile {
	p := fullProfile(thorough)
	p.walk = false
	p.rend = ""
	return p
}

func gen(c *explore.C, p profile) Case {
	var d vtt.Doc
	if i := explore.Pick(c, "tsmap", p.tsmaps...); tsmaps[i] != nil {
		m := *tsmaps[i]
		d.TSMap = &m
	}
	ns := explore.Pick(c, "nstyles", p.nstyles...)
	for k := 0; k < ns; k++ {
		d.Styles = append(d.Styles, append([]string(nil), styleBlks[explore.Pick(c, "stylekind", p.styleKind...)]...))
	}
	nr := explore.Pick(c, "nregions", p.nregions...)
	var rids []string
	if nr > 0 {
		rids = regionIDs[explore.Pick(c, "regionids", p.regIDs...)]
	}
	for k := 0; k < nr; k++ {
		r := vtt.Region{ID: rids[k]}
		switch {
		case p.regAttrs && p.regVals:
			r.Width = explore.Pick(c, "r.width", append([]string{""}, rWidthVals...)...)
			r.Lines = explore.Pick(c, "r.lines", append([]int{0}, rLinesVals...)...)
			r.RegionAnchor = explore.Pick(c, "r.regionanchor", append([]string{""}, rAnchorVals...)...)
			r.ViewportAnchor = explore.Pick(c, "r.viewportanchor", append([]string{""}, rViewVals...)...)
			if c.Bool("r.scroll") {
				r.Scroll = "up"
			}
		case p.regAttrs:
			if c.Bool("r.width") {
				r.Width = "40%"
			}
			if c.Bool("r.lines") {
				r.Lines = 3
			}
			if c.Bool("r.regionanchor") {
				r.RegionAnchor = "0%,100%"
			}
			if c.Bool("r.viewportanchor") {
				r.ViewportAnchor = "10%,90%"
			}
			if c.Bool("r.scroll") {
				r.Scroll = "up"
			}
		default:
			r.Width, r.Lines, r.RegionAnchor, r.ViewportAnchor, r.Scroll = "40%", 3, "0%,100%", "10%,90%", "up"
		}
		d.Regions = append(d.Regions, r)
	}
	n := explore.Pick(c, "ncues", p.ncues...)
	for k := 0; k < n; k++ {
		cue := vtt.Cue{}
		cue.Start = explore.Pick(c, "start", p.starts...)
		switch explore.Pick(c, "end", p.ends...) {
		case 0:
			cue.End = cue.Start + 1000
		case 1:
			cue.End = cue.Start + 1
		case 2:
			cue.End = cue.Start + 500
		case 3:
			cue.End = maxMs
			if cue.Start >= maxMs {
				cue.End = maxMs4
			}
		case 4:
			cue.End = maxMs4
		case 5:
			cue.End = cue.Start
		}
		if cue.End > maxMs4 {
			cue.End = maxMs4
		}
		switch explore.Pick(c, "id", p.ids...) {
		case 0:
			cue.ID = k + 1
		case 2:
			cue.ID = 42
		case 3:
			cue.ID = k + 2
		case 4:
			cue.ID = 2147483647
		case 5:
			cue.ID = 4294967296
		case 6:
			cue.ID = 100
		}
		cue.Comments = append([]string(nil), commentKinds[explore.Pick(c, "comments", p.comments...)]...)
		pick := func(site string, vals []string) string {
			switch p.settings {
			case 1:
				if c.Bool(site) {
					return vals[0]
				}
			case 2:
				return explore.Pick(c, site, append([]string{""}, vals[:2]...)...)
			case 3:
				return explore.Pick(c, site, append([]string{""}, vals...)...)
			}
			return ""
		}
		cue.Settings.Align = pick("s.align", alignVals)
		cue.Settings.Line = pick("s.line", lineVals)
		cue.Settings.Position = pick("s.position", positionVals)
		cue.Settings.Size = pick("s.size", sizeVals)
		cue.Settings.Vertical = pick("s.vertical", verticalVals)
		if p.regionRef && nr > 0 {
			if i := c.Choose("regionref", nr+1); i > 0 {
				cue.Region = d.Regions[i-1].ID
			}
		}
		nl := explore.Pick(c, "nlines", p.nlines...)
		var open []vtt.Tag
		for l := 0; l < nl; l++ {
			line := vtt.Line{Voice: explore.Pick(c, "voice", p.voices...)}
			nruns := explore.Pick(c, "nruns", p.nruns...)
			for r := 0; r < nruns; r++ {
				run := vtt.Run{}
				if len(p.tags) > 0 && p.depth > 0 {
					keep := 0
					if p.walk && len(open) > 0 {
						keep = len(open) - c.Choose("pops", len(open)+1)
					}
					st := append([]vtt.Tag{}, open[:keep]...)
					for len(st) < p.depth {
						t := c.Choose("push", len(p.tags)+1)
						if t == 0 {
							break
						}
						st = append(st, p.tags[t-1])
					}
					open = st
					run.Tags = append([]vtt.Tag(nil), st...)
				}
				switch explore.Pick(c, "ts", p.ts...) {
				case 1:
					run.TS = cue.Start + 400
				case 2:
					run.TS = cue.Start + 1
				case 3:
					if cue.End-1 > cue.Start {
						run.TS = cue.End - 1
					}
				case 4:
					run.TS = cue.Start
				case 5:
					run.TS = cue.End
				}
				run.Text = explore.Pick(c, "text", p.texts...)
				line.Runs = append(line.Runs, run)
			}
			cue.Lines = append(cue.Lines, line)
		}
		d.Cues = append(d.Cues, cue)
	}
	return Case{Doc: d, Render: genRender(c, p)}
}

func genRender(c *explore.C, p profile) vtt.Render {
	r := vtt.DefaultRender()
	on := func(site string) bool {
		return p.rend == "*" || strings.Contains(" "+p.rend+" ", " "+site+" ")
	}
	if on("eol") {
		r.EOL = explore.Pick(c, "eol", "\n", "\r\n", "\r")
	}
	if on("bom") {
		r.BOM = c.Bool("bom")
	}
	if on("shorttime") {
		r.ShortTime = c.Bool("shorttime")
	}
	if on("headertext") {
		opts := []string{"", " - title", "\tsome text"}
		if p.wideRend {
			opts = append(opts, " \u2013 T\u00edtulo 2", " WEBVTT")
		}
		r.HeaderText = explore.Pick(c, "headertext", opts...)
	}
	if on("blank") {
		r.Blank = explore.Pick(c, "blank", 1, 2)
	}
	if on("settingssep") {
		r.SettingsSep = explore.Pick(c, "settingssep", " ", "\t", "  ")
	}
	if on("settingsrev") {
		r.SettingsRev = c.Bool("settingsrev")
	}
	if on("eof") {
		r.EOF = c.Choose("eof", 4)
	}
	if on("lazy") {
		r.Lazy = c.Bool("lazy")
	}
	if on("leaveopen") {
		r.LeaveOpen = c.Bool("leaveopen")
	}
	if on("tsbeforetags") {
		r.TSBeforeTags = c.Bool("tsbeforetags")
	}
	if on("closevoice") {
		r.CloseVoice = c.Bool("closevoice")
	}
	if on("voiceclass") {
		r.VoiceClass = c.Bool("voiceclass")
	}
	if on("noteblocks") {
		r.NoteBlocks = c.Bool("noteblocks")
	}
	if on("regionblocks") {
		r.RegionBlocks = c.Bool("regionblocks")
	}
	if on("maprev") {
		r.MapRev = c.Bool("maprev")
	}
	if on("idpad") {
		r.IDPad = explore.Pick(c, "idpad", 0, 1, 2)
	}
	// ---- choice points added by the widening ----
	if on("shortonly") {
		r.ShortOnly = c.Choose("shortonly", 4)
	}
	if on("hourpad") {
		r.HourPad = explore.Pick(c, "hourpad", 0, 1)
	}
	if on("arrowsep") {
		r.ArrowSep = explore.Pick(c, "arrowsep", " ", "\t", "  ")
	}
	if on("notesep") {
		r.NoteSep = explore.Pick(c, "notesep", " ", "\t", "  ", "\n")
	}
	if on("emptynote") {
		r.EmptyNote = c.Bool("emptynote")
	}
	if on("voiceform") {
		r.VoiceForm = c.Choose("voiceform", 4)
	}
	if on("entity") {
		r.Entity = c.Choose("entity", 3)
	}
	if on("headerlines") {
		r.HeaderLines = c.Bool("headerlines")
	}
	if on("idtext") {
		r.IDText = explore.Pick(c, "idtext", "", "intro")
	}
	if on("regionrev") {
		r.RegionRev = c.Bool("regionrev")
	}
	return r
}

// many-cue documents: the structure of every cue is fixed by its position, the choice points are the cue count
// (digit-count boundaries of the running number, one past a byte), the identifier scheme and the block layout.
func genMany(c *explore.C) Case {
	var d vtt.Doc
	d.Regions = []vtt.Region{{ID: "fred", Width: "40%"}, {ID: "bill", Lines: 3}}
	n := explore.Pick(c, "many.ncues", 10, 9, 11, 99, 100, 101, 256, 257, 1000)
	ids := c.Choose("many.ids", 4) // 0 k+1, 1 absent, 2 n-k (descending), 3 k+2 (always the next cue's number)
	for k := 0; k < n; k++ {
		cue := vtt.Cue{Start: int64(k) * 7001, End: int64(k)*7001 + 7000} // crosses the minute and (n = 1000) the hour boundary
		switch ids {
		case 0:
			cue.ID = k + 1
		case 2:
			cue.ID = n - k
		case 3:
			cue.ID = k + 2
		}
		if k%3 == 1 {
			cue.Comments = []string{fmt.Sprintf("comment %d", k)}
		}
		if k%4 == 2 {
			cue.Region = d.Regions[k/4%2].ID
		}
		if k%5 == 3 {
			cue.Settings.Align = "left"
		}
		ln := vtt.Line{Runs: []vtt.Run{{Text: fmt.Sprintf("t%d", k)}}}
		if k%7 == 4 {
			ln.Voice = "Bob"
			ln.Runs = append(ln.Runs, vtt.Run{Text: "x", Tags: []vtt.Tag{tagB}, TS: cue.Start + 400})
		}
		cue.Lines = []vtt.Line{ln}
		d.Cues = append(d.Cues, cue)
	}
	p := base()
	p.rend = "eol blank idpad"
	return Case{Doc: d, Render: genRender(c, p)}
}

// genDeep: counts beyond the structural scopes - a run under d = 4..15 nested (distinct) tags followed by a run under
// the first k of them (k = 0, d/2, d-1: the closing tags pop back to exactly that depth), a line of 4..40 runs
// alternating between two tag stacks, a cue of 4..40 lines, 9..33 comment lines, 3..12 regions.
func genDeep(c *explore.C) Case {
	var d vtt.Doc
	cue := vtt.Cue{Start: 1000, End: 2000, ID: 1}
	switch c.Choose("deep.kind", 5) {
	case 0:
		dp := explore.Pick(c, "deep.depth", 4, 5, 7, 8, 9, 10, 12, 15)
		k := explore.Pick(c, "deep.back", 0, dp/2, dp-1)
		cue.Lines = []vtt.Line{{Runs: []vtt.Run{{Text: "deep", Tags: append([]vtt.Tag{}, wideTags[:dp]...)}, {Text: " back", Tags: append([]vtt.Tag{}, wideTags[:k]...)}, {Text: " out"}}}}
	case 1:
		n := explore.Pick(c, "deep.runs", 4, 5, 8, 9, 16, 17, 40)
		var ln vtt.Line
		for i := 0; i < n; i++ {
			ln.Runs = append(ln.Runs, vtt.Run{Text: fmt.Sprintf("r%d ", i), Tags: [][]vtt.Tag{{tagB}, {tagB, tagRed}, nil}[i%3]})
		}
		cue.Lines = []vtt.Line{ln}
	case 2:
		n := explore.Pick(c, "deep.lines", 4, 5, 8, 9, 16, 17, 40)
		for i := 0; i < n; i++ {
			cue.Lines = append(cue.Lines, vtt.Line{Runs: []vtt.Run{{Text: fmt.Sprintf("line %d", i), Tags: [][]vtt.Tag{nil, {tagI}}[i%2]}}})
		}
	case 3:
		n := explore.Pick(c, "deep.comments", 9, 10, 16, 17, 33)
		for i := 0; i < n; i++ {
			cue.Comments = append(cue.Comments, fmt.Sprintf("comment line %d", i))
		}
		cue.Lines = []vtt.Line{{Runs: []vtt.Run{{Text: "x"}}}}
	case 4:
		n := explore.Pick(c, "deep.regions", 3, 4, 5, 9, 12)
		for i := 0; i < n; i++ {
			d.Regions = append(d.Regions, vtt.Region{ID: fmt.Sprintf("r%d", i), Lines: i + 1})
		}
		cue.Region = d.Regions[n-1].ID
		cue.Lines = []vtt.Line{{Runs: []vtt.Run{{Text: "x"}}}}
	}
	d.Cues = []vtt.Cue{cue, {Start: 3000, End: 4000, ID: 2, Lines: []vtt.Line{{Runs: []vtt.Run{{Text: "after"}}}}}}
	p := base()
	p.rend = "eol lazy leaveopen"
	return Case{Doc: d, Render: genRender(c, p)}
}

// ---------- core products and balls added by the value-domain widening ----------

// wideProfile: every value table and every rendering choice point at once (deviation ball only).
func wideProfile(write bool) profile {
	p := profile{
		ncues: []int{1, 0, 2}, starts: wideStarts, ends: []int{0, 1, 2, 3, 4}, ids: []int{0, 1, 2, 3, 4, 5, 6}, comments: []int{0, 1, 2, 3, 4, 5},
		settings: 3, nregions: []int{0, 1, 2}, regAttrs: true, regVals: true, regIDs: []int{0, 1, 2, 3}, regionRef: true,
		nstyles: []int{0, 1, 2}, styleKind: []int{0, 1, 2, 3}, tsmaps: []int{0, 1, 2, 3, 4, 5, 6, 7, 8, 9}, nlines: []int{1, 2, 0},
		voices: wideVoices, nruns: []int{1, 2}, tags: wideTags, depth: 3, walk: true, ts: []int{0, 1, 2, 3}, texts: wideTexts,
		rend: "*", wideRend: true,
	}
	if write {
		p.walk = false
		p.rend = ""
		p.ends = []int{0, 1, 2, 3, 4, 5}
		p.ts = []int{0, 1, 2, 3, 4, 5}
	}
	return p
}

// core product S: every value of every cue setting x setting order x region reference
func coreS() profile {
	p := base()
	p.settings = 3
	p.nregions = []int{1}
	p.regionRef = true
	p.rend = "settingsrev"
	return p
}

// core product R1: one region, every value of every attribute x id table x attribute order x reference
func coreR1() profile {
	p := base()
	p.nregions = []int{1}
	p.regAttrs, p.regVals = true, true
	p.regIDs = []int{0, 1, 2, 3}
	p.regionRef = true
	p.rend = "regionrev"
	return p
}

// core product R2: two regions (ids sharing a prefix, ...) x which one the cue refers to x block layout; attributes fixed
func coreR2() profile {
	p := base()
	p.ncues = []int{1, 2}
	p.nregions = []int{2}
	p.regIDs = []int{0, 1, 2, 3}
	p.regionRef = true
	p.rend = "regionblocks regionrev settingssep eol"
	return p
}

// core product V: voices (dot, digits, non-ASCII, '&', '/', apostrophe, case, 300 bytes) on one or two lines x the
// renderings of a voice tag
func coreV() profile {
	p := base()
	p.nlines = []int{1, 2}
	p.voices = wideVoices
	p.rend = "voiceform voiceclass closevoice entity"
	return p
}

// core product E: text atoms x the equivalent escapings x one or two runs, bold or plain
func coreE() profile {
	p := base()
	p.nruns = []int{1, 2}
	p.texts = wideTexts
	p.tags = []vtt.Tag{tagB}
	p.depth = 1
	p.rend = "entity"
	return p
}

// core product G: every tag of the wide table nested in every other (depth 2) on one run and its successor
func coreG() profile {
	p := base()
	p.tags = wideTags
	p.depth = 2
	p.voices = []string{"", "Bob"}
	p.rend = "lazy leaveopen"
	return p
}

// core product G2: two runs, every tag of the wide table on each (depth 1), kept open or closed in between
func coreG2() profile {
	p := base()
	p.nruns = []int{2}
	p.tags = wideTags
	p.depth = 1
	p.ts = []int{0, 1}
	p.rend = "lazy tsbeforetags"
	return p
}

// core product K: comment values x the forms of a comment block, one or two cues
func coreK() profile {
	p := base()
	p.ncues = []int{1, 2}
	p.comments = []int{0, 1, 2, 3, 4, 5}
	p.ids = []int{0, 1}
	p.rend = "notesep noteblocks emptynote idtext"
	return p
}

// core product I: identifier values x leading zeros x non-numeric identifiers, one or two cues, with or without a comment
func coreI() profile {
	p := base()
	p.ncues = []int{1, 2}
	p.ids = []int{0, 1, 2, 3, 4, 5, 6}
	p.comments = []int{0, 3}
	p.rend = "idpad idtext blank"
	return p
}

// core product T2: every instant (up to 4-digit hours, .010/.100) x end form x inline timestamp (up to end-1) x which of the
// timestamps are written without hours x zero-padded hours
func coreT2() profile {
	p := base()
	p.starts = wideStarts
	p.ends = []int{0, 1, 2, 3, 4}
	p.ts = []int{0, 1, 2, 3}
	p.rend = "shorttime shortonly hourpad"
	return p
}

// core product T3: the timing line: white space around the arrow x before the settings x time forms x EOL
func coreT3() profile {
	p := base()
	p.starts = []int64{1000, 3600000, 3600000000}
	p.settings = 1
	p.rend = "arrowsep settingssep shorttime shortonly hourpad"
	return p
}

// core product M: every timestamp map x key order x LOCAL form x header forms
func coreM() profile {
	p := base()
	p.tsmaps = []int{0, 1, 2, 3, 4, 5, 6, 7, 8, 9}
	p.rend = "maprev shorttime hourpad headertext headerlines bom eol"
	p.wideRend = true
	return p
}

// core product C3: STYLE block contents (all four kinds, up to two blocks) next to regions and a cue identifier
func coreC3() profile {
	p := base()
	p.nstyles = []int{0, 1, 2}
	p.styleKind = []int{0, 1, 2, 3}
	p.nregions = []int{0, 1}
	p.ids = []int{0, 1}
	p.rend = "blank eol"
	return p
}

type stage struct {
	sub      string
	p        profile
	b        int
	read     bool
	gen      func(*explore.C) Case // overrides gen(x, p)
	styleVar bool                  // also build the library value with the settings / region attributes on the referenced Style (writer fall-back)
}

func stages(thorough bool) []stage {
	bound := 3
	st := []stage{
		{sub: "coreA1", p: coreA(false, thorough), b: -1, read: true},
		{sub: "coreA2", p: coreA(true, thorough), b: -1, read: true},
		{sub: "coreA3", p: coreA3(), b: -1, read: true},
		{sub: "coreB1", p: coreB1(), b: -1, read: true},
		{sub: "coreB2", p: coreB2(), b: -1, read: true},
		{sub: "coreT", p: coreT(), b: -1, read: true},
		{sub: "coreC1", p: coreC1(), b: -1, read: true, styleVar: true},
		{sub: "coreC2", p: coreC2(), b: -1, read: true, styleVar: true},
		{sub: "coreW", p: coreW(thorough), b: -1},
		{sub: "coreS", p: coreS(), b: -1, read: true, styleVar: true},
		{sub: "coreR1", p: coreR1(), b: -1, read: true, styleVar: true},
		{sub: "coreR2", p: coreR2(), b: -1, read: true},
		{sub: "coreV", p: coreV(), b: -1, read: true},
		{sub: "coreE", p: coreE(), b: -1, read: true},
		{sub: "coreG", p: coreG(), b: -1, read: true},
		{sub: "coreG2", p: coreG2(), b: -1, read: true},
		{sub: "coreK", p: coreK(), b: -1, read: true},
		{sub: "coreI", p: coreI(), b: -1, read: true},
		{sub: "coreT2", p: coreT2(), b: -1, read: true},
		{sub: "coreT3", p: coreT3(), b: -1, read: true},
		{sub: "coreM", p: coreM(), b: -1, read: true},
		{sub: "coreC3", p: coreC3(), b: -1, read: true, styleVar: true},
		{sub: "many", b: -1, read: true, gen: genMany},
		{sub: "deep", b: -1, read: true, gen: genDeep},
		{sub: "ball", p: fullProfile(thorough), b: bound, read: true},
		{sub: "wball", p: writeBall(thorough), b: bound},
		{sub: "wide", p: wideProfile(false), b: 2, read: true},
		{sub: "wwide", p: wideProfile(true), b: 2, styleVar: true},
	}
	if thorough {
		st = append(st, stage{sub: "ball4", p: fullProfile(false), b: 4, read: true})
		st = append(st, stage{sub: "wide3", p: wideProfile(false), b: 3, read: true})
		st = append(st, stage{sub: "wwide3", p: wideProfile(true), b: 3, styleVar: true})
	}
	return st
}

func run(c *core.Ctx) {
	thorough := c.Tier == core.Thorough
	bound := 3
	if thorough {
		bound = 4
	}
	var cs Case
	visit := func(sub string, read, styleVar bool) func(x *explore.C) bool {
		return func(x *explore.C) bool {
			if !c.Mine() {
				return true
			}
			cs := cs
			dev := explore.Deviations(x.Trace)
			den := cs.Doc.Denote().String()
			if read {
				key, msg, out := CheckRead(cs)
				nt := uint64(0)
				if dev > 0 {
					nt = core.Hash64("r", den, fmt.Sprintf("%+v", cs.Render))
				}
				cs.Dir = "read"
				c.Record(sub+".read", out, nt, func() interface{} {
					return map[string]interface{}{"choices": x.Trace, "bytes": string(cs.Doc.Bytes(cs.Render))}
				})
				if key != "" {
					c.Violate("read", key, msg, cs, dev*1000+len(cs.Doc.Bytes(cs.Render)))
				}
			}
			nvar := 2
			if styleVar {
				nvar = 4
			}
			for variant := 0; variant < nvar; variant++ {
				key, msg, out := CheckWrite(cs.Doc, variant)
				nt := uint64(0)
				if dev > 0 {
					nt = core.Hash64("w", den, fmt.Sprint(variant))
				}
				var sample func() interface{}
				if !read {
					sample = func() interface{} { return map[string]interface{}{"choices": x.Trace, "model": cs.Doc} }
				}
				c.Record(sub+".write", out, nt, sample)
				if key != "" {
					w := cs
					w.Dir, w.Variant, w.Render = "write", variant, vtt.DefaultRender()
					c.Violate("write", key, msg, w, dev*1000+len(den))
				}
			}
			return c.Evals%4096 != 0 || !c.Expired()
		}
	}
	for _, st := range stages(thorough) {
		p, g := st.p, st.gen
		if g == nil {
			g = func(x *explore.C) Case { return gen(x, p) }
		}
		n := explore.Explore(st.b, func(x *explore.C) { cs = g(x) }, visit(st.sub, st.read, st.styleVar))
		if c.Shard == 0 {
			c.Extra["cases_"+st.sub] = n
		}
	}
	c.ExtraMax["deviation_bound"] = float64(bound)
}

func init() {
	core.Register(&core.Prop{
		ID: "C02", Level: "exploration",
		Rule: "a case = (ground-truth WebVTT model, rendering choices) chosen by the E1 explorer. STRUCTURE: full cartesian products of small grammars (A text structure: lines x runs x nested tag walks x inline timestamps x voice x lazy/unterminated/voice-closing tags and timestamp placement; B cue header: cue count x identifier x comments x every subset of the five settings x region reference x EOL x mm:ss.ttt x tab/space x comment block form; C blocks: 0..2 regions with every subset of attributes x region reference x STYLE blocks x timestamp map x EOL x BOM x header text x blank lines x EOF form; W writer: arbitrary tag stacks on neighbouring runs x inline timestamps) plus every document within 3 deviations from the baseline over all structural choice points. VALUES: every field ranges over a boundary-complete table, each table inside one full product with the dimensions it interacts with - S cue settings (align 6 values incl. legacy middle, line 7 incl. 0 / -1 / 100% / 10%,start / 10.5%, position 5, size 4 incl. 0% and 33.3%, vertical 2) x order x region reference; R1 one region (4 id tables incl. hyphen/underscore/digits/non-ASCII/a setting name as id, width 4, lines 1/3/100, both anchors 4 values) x attribute order x reference; R2 two regions whose ids share a prefix (r1, r10) x which one each of 1..2 cues refers to x layout; V 11 voices (dot, digits, non-ASCII, '&', '/', apostrophe, lower/upper case, 302 bytes) on 1..2 lines x 4 spellings of the voice tag x class x </v> x escaping; E 25 text atoms (digits only, RTL and directional marks, combining mark, emoji, tab, literal character references, lines starting with NOTE / STYLE / Region:) x 3 equivalent escapings (named, &gt; &nbsp; &lrm; &rlm;, numeric) x 1..2 runs plain or bold; G/G2 15 tags (c without / with 1-3 classes, classes with hyphen, underscore, digit, non-ASCII, classes on b, ruby/rt, lang with subtags) nested in each other resp. on neighbouring runs; K 6 comment values (digits only, non-ASCII, ':' '=', three lines) x NOTE followed by space / tab / two spaces / line break x one block or one per line x an empty NOTE block x identifier present, absent or non-numeric, 1..2 cues; I identifiers (k+1, absent, 42, the NEXT cue's number, 100, 2^31-1, 2^32) x 0-2 leading zeros x non-numeric identifier text; T2 19 instants (.001 .010 .100 .999, 59 s / 59 min, 9/10/99/100/999/1000/9999 hours) x 5 end forms x inline timestamp at start+1 / start+400 / end-1 x hours omitted on all / only the start / only the end / only the inline timestamp x zero-padded hours; T3 white space around the arrow (space, tab, two spaces) x before the settings x time forms; M 10 timestamp maps (MPEGTS 0, 1, 2^33-1; LOCAL up to 999:59:59.999) x key order x LOCAL form x header text (incl. non-ASCII, a second WEBVTT) x legacy Kind:/Language: header lines x BOM x EOL; C3 four kinds of STYLE content; many: documents of 9, 10, 11, 99, 100, 101, 256, 257, 1000 cues x 4 identifier schemes x layout - plus every document within 2 (thorough: 3) deviations from the baseline over ALL wide tables and all 27 rendering choice points at once. Read direction: ReadFromWebVTT(render(model)) must denote the model; write direction (three ways of building the library value: attribute holders allocated / nil when empty / settings and region attributes on the referenced Style, where the value-focused stages are concerned): WriteToWebVTT(model) must start with WEBVTT, number the cues 1..n, define every referenced region earlier in the file, and denote the model to the library reader and to an independent decoder; the writer ball also contains start = end and inline timestamps equal to the cue start / end. A violation that disappears when one listed trigger value is replaced by a neutral one, persists with that trigger alone and (where the defect has an exact model) equals the predicted answer is reported under that trigger's narrow key. Non-trivial = non-baseline case, distinct by (denotation, rendering) resp. (denotation, build variant)",
		Scope: map[core.Tier]string{
			core.Quick:    "core products A1 (1 line, <=2 runs), A2 (2 lines), both 3 tags x depth<=2 x timestamp x voice x 16 tag renderings; A3 (2 cues, tag leakage); B1 (1 cue: 32 settings subsets x id (zero-padded or not) x comments x region ref x EOL x short time x separator x comment form); B2 (2 cues: id/comment/region attachment); T (15 instants up to 999 h x 4 end forms x inline timestamp x short time); C1 (<=2 regions x 32 attribute subsets x region ref); C2 (STYLE blocks x timestamp map x header forms); W (2 runs, 8 tags, depth<=2, arbitrary stacks); value products S 20160, R1 16000, R2 1728, V 6336, E 9525, G 1928, G2 4336, K 4992, I 2520, T2 6080, T3 13824, M 4800, C3 504, many 648 cases; deviation balls B=3 for the read and the write generator on the structural profile (<=2 cues, <=2 lines, <=2 runs, 8 tags, depth<=3, 17 text atoms, 15 instants, 17 rendering choice points) and B=2 on the wide profile (all value tables, 27 rendering choice points)",
			core.Thorough: "core products as quick with A1 <=3 runs / 4 tags, A2 4 tags, W depth<=3; deviation balls B=3 on the larger structural profile (<=3 cues, <=3 lines, <=3 runs), B=4 on the quick structural profile, B=3 on the wide profile (read and write)",
		},
		Assumptions: []string{
			"Go toolchain and standard library",
			"independent reference codec engine/ref/vtt",
			"outer white space of a payload line is outside the denotation (the reader trims lines; the format's rendering ignores it)",
			"the voice of a line is the annotation of the first <v> start tag on that line (the library's one-voice-per-line model); a voice span is never left open across a line boundary by the renderer's </v> option",
			"comments denote the flat list of their lines without outer white space (NOTE is followed by one or more blanks or a line break; the format does not carry them); an empty NOTE block denotes no line; STYLE blocks denote the flat list of their (trimmed) lines in file order",
			"a non-numeric cue identifier denotes 'no numeric identifier' (Item.Index 0); legacy metadata header lines (Kind:, Language:) directly after the signature denote nothing",
			"left out as not well-formed or outside the library's model: '-->' inside text/comments, a setting given twice, a bare '&' in text, upper-case tag names, region lines=0 (the model's 'absent'), several blanks between legacy Region: settings, STYLE content whose last line does not end with '}' (the reader's documented heuristic for blank lines inside CSS), block keywords as cue identifiers or inside comment blocks, voices containing '>' or runs of blanks",
			"regions use the legacy single-line 'Region: id=...' syntax, the only one the library reads or writes",
		},
		Plain: run, Replay: replay,
	})
}
