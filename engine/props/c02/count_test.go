package c02

import (
	"os"
	"testing"
	"time"

	"verif/explore"
)

// TestCount prints the size of every stage (generation only).
func TestCount(t *testing.T) {
	tiers := []bool{false}
	if os.Getenv("VERIF_COUNT_THOROUGH") != "" {
		tiers = append(tiers, true)
	}
	for _, th := range tiers {
		for _, st := range stages(th) {
			t0 := time.Now()
			var n int64
			g := st.gen
			if g == nil {
				g = func(x *explore.C) Case { return gen(x, st.p) }
			}
			explore.Explore(st.b, func(x *explore.C) { _ = g(x) }, func(x *explore.C) bool { n++; return n < 5000000 })
			t.Logf("thorough=%v %s: %d cases, gen %.1fs", th, st.sub, n, time.Since(t0).Seconds())
		}
	}
}
