// Package c02: WebVTT codec fidelity (E1 exploration over a ground-truth model x renderings).
package c02

import (
	"bytes"
	"encoding/json"
	"fmt"
	"sort"
	"strconv"
	"strings"
	"time"

	astisub "github.com/asticode/go-astisub"

	"verif/core"
	"verif/ref/vtt"
)

// ---------- library value <-> model ----------

const defaultStyleID = "astisub-webvtt-default-style-id"

func libTags(ts []astisub.WebVTTTag) []vtt.Tag {
	var o []vtt.Tag
	for _, t := range ts {
		o = append(o, vtt.Tag{Name: t.Name, Classes: append([]string(nil), t.Classes...), Annotation: t.Annotation})
	}
	return o
}

// FromSubs extracts the WebVTT denotation carrier from a library value; odd reports facts that have no
// place in the model (sub-millisecond instants, dangling region pointer, wrong Offset()).
func FromSubs(s *astisub.Subtitles) (d vtt.Doc, odd string) {
	if s.Metadata != nil && s.Metadata.WebVTTTimestampMap != nil {
		tm := s.Metadata.WebVTTTimestampMap
		if tm.Local%time.Millisecond != 0 {
			odd = fmt.Sprintf("sub-millisecond LOCAL %d", tm.Local)
		}
		d.TSMap = &vtt.TSMap{Local: int64(tm.Local / time.Millisecond), MpegTS: tm.MpegTS}
		if int64(tm.Offset()) != d.TSMap.OffsetNS() {
			odd = fmt.Sprintf("timestamp map LOCAL=%v MPEGTS=%d: Offset() returns %d ns, mpegts/90000 s - local is %d ns", tm.Local, tm.MpegTS, int64(tm.Offset()), d.TSMap.OffsetNS())
		}
	}
	var sids []string
	for id := range s.Styles {
		sids = append(sids, id)
	}
	sort.Strings(sids)
	for _, id := range sids {
		if st := s.Styles[id]; st != nil && st.InlineStyle != nil && len(st.InlineStyle.WebVTTStyles) > 0 {
			d.Styles = append(d.Styles, append([]string(nil), st.InlineStyle.WebVTTStyles...))
		}
	}
	var rids []string
	for id := range s.Regions {
		rids = append(rids, id)
	}
	sort.Strings(rids)
	for _, id := range rids {
		r := s.Regions[id]
		if r == nil {
			odd = "nil region " + id
			continue
		}
		if r.ID != id {
			odd = fmt.Sprintf("region stored under %q has ID %q", id, r.ID)
		}
		m := vtt.Region{ID: r.ID}
		if a := r.InlineStyle; a != nil {
			m.Width, m.Lines, m.RegionAnchor, m.ViewportAnchor, m.Scroll = a.WebVTTWidth, a.WebVTTLines, a.WebVTTRegionAnchor, a.WebVTTViewportAnchor, a.WebVTTScroll
		}
		d.Regions = append(d.Regions, m)
	}
	for _, it := range s.Items {
		if it.StartAt%time.Millisecond != 0 || it.EndAt%time.Millisecond != 0 {
			odd = fmt.Sprintf("sub-millisecond time %d..%d", it.StartAt, it.EndAt)
		}
		c := vtt.Cue{Start: int64(it.StartAt / time.Millisecond), End: int64(it.EndAt / time.Millisecond), ID: it.Index}
		c.Comments = append(c.Comments, it.Comments...)
		if a := it.InlineStyle; a != nil {
			c.Settings = vtt.Settings{Align: a.WebVTTAlign, Line: a.WebVTTLine, Position: a.WebVTTPosition, Size: a.WebVTTSize, Vertical: a.WebVTTVertical}
		}
		if it.Region != nil {
			c.Region = it.Region.ID
			if s.Regions[it.Region.ID] != it.Region {
				odd = fmt.Sprintf("cue refers to a region %q that is not the one in the region table", it.Region.ID)
			}
		}
		for _, l := range it.Lines {
			ln := vtt.Line{Voice: l.VoiceName}
			for _, li := range l.Items {
				if li.StartAt%time.Millisecond != 0 {
					odd = fmt.Sprintf("sub-millisecond inline timestamp %d", li.StartAt)
				}
				r := vtt.Run{Text: li.Text, TS: int64(li.StartAt / time.Millisecond)}
				if li.InlineStyle != nil {
					r.Tags = libTags(li.InlineStyle.WebVTTTags)
				}
				ln.Runs = append(ln.Runs, r)
			}
			c.Lines = append(c.Lines, ln)
		}
		d.Cues = append(d.Cues, c)
	}
	return
}

// ToSubs builds a library value from a model with public types only. variant 0 builds it the way the
// library's own readers do (attribute holders always allocated); variant 1 leaves a cue's / region's
// InlineStyle nil when it has nothing to say (what the SubRip/TTML readers and user code produce); variant 2 puts
// the cue settings and region attributes on the Style the cue / region refers to and leaves the InlineStyle empty
// (the writer documents a fall-back to the referenced style for every one of them); variant 3 does so only for cues
// and regions that have something to say and leaves the others with an allocated but empty InlineStyle and no Style (what a list read from
// TTML looks like: a fall-back must not leak from one cue into the next).
func ToSubs(d vtt.Doc, variant int) *astisub.Subtitles {
	s := astisub.NewSubtitles()
	if d.TSMap != nil {
		s.Metadata = &astisub.Metadata{WebVTTTimestampMap: &astisub.WebVTTTimestampMap{Local: time.Duration(d.TSMap.Local) * time.Millisecond, MpegTS: d.TSMap.MpegTS}}
	}
	var css []string
	for _, b := range d.Styles {
		css = append(css, b...)
	}
	if variant == 3 && len(d.Styles) > 1 {
		// one Style entry per STYLE block (ids in block order): a list assembled by hand or merged from several files
		for k, b := range d.Styles {
			id := fmt.Sprintf("css-%02d", k)
			s.Styles[id] = &astisub.Style{ID: id, InlineStyle: &astisub.StyleAttributes{WebVTTStyles: append([]string(nil), b...)}}
		}
	} else if len(css) > 0 {
		s.Styles[defaultStyleID] = &astisub.Style{ID: defaultStyleID, InlineStyle: &astisub.StyleAttributes{WebVTTStyles: css}}
	}
	for _, r := range d.Regions {
		rg := &astisub.Region{ID: r.ID}
		if variant == 2 || variant == 3 && r != (vtt.Region{ID: r.ID}) {
			rg.InlineStyle = &astisub.StyleAttributes{}
			rg.Style = &astisub.Style{ID: "rs-" + r.ID, InlineStyle: &astisub.StyleAttributes{WebVTTWidth: r.Width, WebVTTLines: r.Lines, WebVTTRegionAnchor: r.RegionAnchor, WebVTTViewportAnchor: r.ViewportAnchor, WebVTTScroll: r.Scroll}}
		} else if variant == 0 || r != (vtt.Region{ID: r.ID}) {
			rg.InlineStyle = &astisub.StyleAttributes{WebVTTWidth: r.Width, WebVTTLines: r.Lines, WebVTTRegionAnchor: r.RegionAnchor, WebVTTViewportAnchor: r.ViewportAnchor, WebVTTScroll: r.Scroll}
		}
		s.Regions[r.ID] = rg
	}
	for _, c := range d.Cues {
		it := &astisub.Item{StartAt: time.Duration(c.Start) * time.Millisecond, EndAt: time.Duration(c.End) * time.Millisecond, Index: c.ID}
		it.Comments = append(it.Comments, c.Comments...)
		if variant == 2 || variant == 3 && c.Settings != (vtt.Settings{}) {
			it.InlineStyle = &astisub.StyleAttributes{}
			it.Style = &astisub.Style{ID: "cs", InlineStyle: &astisub.StyleAttributes{WebVTTAlign: c.Settings.Align, WebVTTLine: c.Settings.Line, WebVTTPosition: c.Settings.Position, WebVTTSize: c.Settings.Size, WebVTTVertical: c.Settings.Vertical}}
		} else if variant == 0 || variant == 3 || c.Settings != (vtt.Settings{}) {
			it.InlineStyle = &astisub.StyleAttributes{WebVTTAlign: c.Settings.Align, WebVTTLine: c.Settings.Line, WebVTTPosition: c.Settings.Position, WebVTTSize: c.Settings.Size, WebVTTVertical: c.Settings.Vertical}
		}
		if c.Region != "" {
			it.Region = s.Regions[c.Region]
		}
		for _, l := range c.Lines {
			ln := astisub.Line{VoiceName: l.Voice}
			for _, r := range l.Runs {
				li := astisub.LineItem{Text: r.Text, StartAt: time.Duration(r.TS) * time.Millisecond}
				if len(r.Tags) > 0 {
					a := &astisub.StyleAttributes{}
					for _, t := range r.Tags {
						a.WebVTTTags = append(a.WebVTTTags, astisub.WebVTTTag{Name: t.Name, Classes: append([]string(nil), t.Classes...), Annotation: t.Annotation})
					}
					li.InlineStyle = a
				}
				ln.Items = append(ln.Items, li)
			}
			it.Lines = append(it.Lines, ln)
		}
		s.Items = append(s.Items, it)
	}
	return s
}

func safeRead(b []byte) (s *astisub.Subtitles, err error, pan string) {
	defer func() {
		if e := recover(); e != nil {
			pan = fmt.Sprint(e)
		}
	}()
	s, err = astisub.ReadFromWebVTT(bytes.NewReader(b))
	return
}

// ---------- case ----------

type Case struct {
	Doc     vtt.Doc    `json:"doc"`
	Render  vtt.Render `json:"render"`
	Dir     string     `json:"dir"`
	Variant int        `json:"variant"`
}

func cloneDoc(d vtt.Doc) vtt.Doc {
	b, _ := json.Marshal(d)
	var o vtt.Doc
	json.Unmarshal(b, &o)
	return o
}

// ---------- classification of value-triggered reader defects ----------

// A trigger is one field VALUE (or one equivalent spelling) that a known reader defect depends on, with the
// way to replace it by a neutral value of the same kind. Triggers never judge a case; they only name it.
type trigger struct {
	key     string
	neutral func(cs *Case) bool   // rewrites the case, reports whether anything changed
	explain func(cs Case) vtt.Doc // optional: what the reader returns for the case if it has exactly this defect
}

// the three references the reader does replace (a model of the defect, for classification only)
var knownRefs = strings.NewReplacer("&amp;", "&", "&lt;", "<", "&nbsp;", "\u00a0")

func eachVoice(cs *Case, f func(v string) string) bool {
	ch := false
	for k := range cs.Doc.Cues {
		for l := range cs.Doc.Cues[k].Lines {
			ln := &cs.Doc.Cues[k].Lines[l]
			if n := f(ln.Voice); n != ln.Voice {
				ln.Voice, ch = n, true
			}
		}
	}
	return ch
}

var payloadKeywords = []string{"NOTE ", "NOTE\t", "STYLE", "Region: "}

var triggers = []trigger{
	// "NOTE" followed by a tab, or alone on its line with the text on the next lines: comment lost
	{"vtt.read.comment-lost.note-not-followed-by-space", func(cs *Case) bool {
		if cs.Render.NoteSep == "\t" || cs.Render.NoteSep == "\n" {
			cs.Render.NoteSep = " "
			return true
		}
		return false
	}, nil},
	// &gt; &lrm; &rlm; and numeric character references in cue text are returned verbatim
	{"vtt.read.character-reference-not-decoded", func(cs *Case) bool {
		if cs.Render.Entity != 0 {
			cs.Render.Entity = 0
			return true
		}
		return false
	}, func(cs Case) vtt.Doc {
		o := cloneDoc(cs.Doc)
		for k := range o.Cues {
			for l := range o.Cues[k].Lines {
				for r := range o.Cues[k].Lines[l].Runs {
					run := &o.Cues[k].Lines[l].Runs[r]
					run.Text = knownRefs.Replace(vtt.EscapeAs(run.Text, cs.Render.Entity))
				}
			}
		}
		return o
	}},
	// a character reference in a voice annotation is returned verbatim
	{"vtt.read.voice-character-reference-not-decoded", func(cs *Case) bool {
		return eachVoice(cs, func(v string) string { return strings.ReplaceAll(v, "&", "+") })
	}, func(cs Case) vtt.Doc {
		o := Case{Doc: cloneDoc(cs.Doc)}
		eachVoice(&o, func(v string) string { return vtt.EscapeAnnotation(v, cs.Render.Entity) })
		return o.Doc
	}},
	// a voice annotation containing '/' makes the reader drop the whole voice tag
	{"vtt.read.voice-with-slash-lost", func(cs *Case) bool {
		return eachVoice(cs, func(v string) string { return strings.ReplaceAll(v, "/", "-") })
	}, func(cs Case) vtt.Doc {
		o := Case{Doc: cloneDoc(cs.Doc)}
		eachVoice(&o, func(v string) string {
			if strings.Contains(v, "/") {
				return ""
			}
			return v
		})
		return o.Doc
	}},
	// a payload line that begins with NOTE / STYLE / Region: is taken for a block of that kind
	{"vtt.read.payload-line-taken-for-block-keyword", func(cs *Case) bool {
		ch := false
		for k := range cs.Doc.Cues {
			for l := range cs.Doc.Cues[k].Lines {
				ln := &cs.Doc.Cues[k].Lines[l]
				if len(ln.Runs) == 0 || ln.Voice != "" || len(ln.Runs[0].Tags) > 0 || ln.Runs[0].TS != 0 {
					continue
				}
				t := strings.TrimLeft(ln.Runs[0].Text, " \t")
				for _, kw := range payloadKeywords {
					if strings.HasPrefix(t, kw) {
						ln.Runs[0].Text = "x" + ln.Runs[0].Text
						ch = true
						break
					}
				}
			}
		}
		return ch
	}, nil},
}

// narrow gives a failing case the key of ONE trigger if (a) the case passes once every trigger it contains is
// neutralised, (b) it still fails with that trigger alone left in and (c) where the defect has an exact model and the
// reader's answer is at hand (den), that answer is the one the defect predicts. Everything else keeps the generic
// key, so a different defect cannot hide under a trigger's key.
func narrow(key string, cs Case, passes func(Case) bool, den func(Case) (string, bool)) string {
	clone := func(skip int) (Case, int) {
		alt := cs
		alt.Doc = cloneDoc(cs.Doc)
		n := 0
		for i, t := range triggers {
			if i != skip && t.neutral(&alt) {
				n++
			}
		}
		return alt, n
	}
	all, n := clone(-1)
	if n == 0 || !passes(all) {
		return key
	}
	for i, t := range triggers {
		probe := cs
		probe.Doc = cloneDoc(cs.Doc)
		if !t.neutral(&probe) {
			continue // the case does not contain this trigger
		}
		if only, _ := clone(i); !passes(only) {
			if t.explain != nil && den != nil {
				if g, ok := den(only); !ok || g != t.explain(only).Denote().String() {
					continue
				}
			}
			return t.key
		}
	}
	return key
}

// ---------- read direction ----------

// CheckRead: reader(render(model)) must denote the model. A violation is then classified: see narrow.
func CheckRead(cs Case) (key, msg string, outcome uint64) {
	key, msg, outcome = checkRead(cs)
	if key != "" {
		key = narrow(key, cs, func(alt Case) bool { k, _, _ := checkRead(alt); return k == "" }, func(alt Case) (string, bool) {
			s, err, pan := safeRead(alt.Doc.Bytes(alt.Render))
			if err != nil || pan != "" {
				return "", false
			}
			got, odd := FromSubs(s)
			return got.Denote().String(), odd == ""
		})
	}
	return
}

func checkRead(cs Case) (key, msg string, outcome uint64) {
	b := cs.Doc.Bytes(cs.Render)
	s, err, pan := safeRead(b)
	want := cs.Doc.Denote().String()
	if pan != "" {
		return "vtt.read.panic", fmt.Sprintf("ReadFromWebVTT panicked (%s) on %q", pan, b), 0
	}
	if err != nil {
		return "vtt.read.error", fmt.Sprintf("ReadFromWebVTT failed (%v) on well-formed %q", err, b), 0
	}
	got, odd := FromSubs(s)
	if odd != "" {
		k := "vtt.read.mismatch"
		if strings.Contains(odd, "Offset()") {
			k = "vtt.read.tsmap-offset"
		}
		return k, fmt.Sprintf("document %q: %s", b, odd), 0
	}
	gd := got.Denote().String()
	if gd != want {
		key = "vtt.read.mismatch"
		// explanation: exactly the timestamps that this rendering puts directly in front of a start tag are missing
		flags := cs.Doc.TSDirectlyBeforeTag(cs.Render)
		alt := cloneDoc(cs.Doc)
		n := 0
		for k := range alt.Cues {
			for li := range alt.Cues[k].Lines {
				for ri := range alt.Cues[k].Lines[li].Runs {
					if flags[k][li][ri] {
						alt.Cues[k].Lines[li].Runs[ri].TS = 0
						n++
					}
				}
			}
		}
		if n > 0 && alt.Denote().String() == gd {
			key = "vtt.read.inline-timestamp-before-tag"
		}
		return key, fmt.Sprintf("document %q\n denotes\n%s reader returned\n%s", b, want, gd), 0
	}
	return "", "", core.Hash64(gd)
}

// ---------- write direction ----------

func nameAgree(a, b []vtt.Tag) (prefix int, crossing bool) {
	n := len(a)
	if len(b) < n {
		n = len(b)
	}
	prefix = 0
	for prefix < n && a[prefix].Name == b[prefix].Name {
		prefix++
	}
	for j := prefix + 1; j < n; j++ {
		if a[j].Name == b[j].Name {
			crossing = true
		}
	}
	return
}

func lineCrossing(l vtt.Line) bool {
	for k := 1; k < len(l.Runs); k++ {
		if _, x := nameAgree(l.Runs[k-1].Tags, l.Runs[k].Tags); x {
			return true
		}
	}
	return false
}

// sameNameKept models ONE conjectured writer defect, for classification only: a tag whose NAME equals the
// previous run's tag name at the same depth is taken to be the same tag and not reopened (classes and
// annotation of the earlier run win). Only defined for lines without crossing.
func sameNameKept(d vtt.Doc) (vtt.Doc, bool) {
	o := cloneDoc(d)
	changed := false
	for k := range o.Cues {
		for li := range o.Cues[k].Lines {
			rs := o.Cues[k].Lines[li].Runs
			if lineCrossing(d.Cues[k].Lines[li]) {
				continue
			}
			for r := 1; r < len(rs); r++ {
				m, _ := nameAgree(d.Cues[k].Lines[li].Runs[r-1].Tags, d.Cues[k].Lines[li].Runs[r].Tags)
				eff := append([]vtt.Tag{}, rs[r-1].Tags[:m]...)
				eff = append(eff, d.Cues[k].Lines[li].Runs[r].Tags[m:]...)
				for i := 0; i < m; i++ {
					if !eff[i].Equal(d.Cues[k].Lines[li].Runs[r].Tags[i]) {
						changed = true
					}
				}
				rs[r].Tags = eff
			}
		}
	}
	return o, changed
}

// confined reports whether two denotations differ only in lines for which pred holds.
func confined(want, got vtt.Den, pred func(cue, line int) bool, lineOK func(cue, line int, w, g string) bool) bool {
	if strings.Join(want.Head, "\n") != strings.Join(got.Head, "\n") || len(want.Cues) != len(got.Cues) {
		return false
	}
	diff := 0
	for k := range want.Cues {
		if want.Cues[k].Head != got.Cues[k].Head || len(want.Cues[k].Lines) != len(got.Cues[k].Lines) {
			return false
		}
		for li := range want.Cues[k].Lines {
			w, g := want.Cues[k].Lines[li], got.Cues[k].Lines[li]
			if w == g {
				continue
			}
			if !pred(k, li) || (lineOK != nil && !lineOK(k, li, w, g)) {
				return false
			}
			diff++
		}
	}
	return diff > 0
}

func renumbered(d vtt.Doc) vtt.Doc {
	o := cloneDoc(d)
	for k := range o.Cues {
		o.Cues[k].ID = k + 1
	}
	return o
}

// CheckWrite: writer output must denote the model (cues numbered 1..n) to the library reader and to the
// independent decoder, and satisfy the structural clauses of the property.
func CheckWrite(d vtt.Doc, variant int) (key, msg string, outcome uint64) {
	key, msg, outcome = checkWrite(d, variant)
	if key != "" {
		key = narrow(key, Case{Doc: d, Render: vtt.DefaultRender()}, func(alt Case) bool { k, _, _ := checkWrite(alt.Doc, variant); return k == "" }, nil)
	}
	return
}

func checkWrite(d vtt.Doc, variant int) (key, msg string, outcome uint64) {
	s := ToSubs(d, variant)
	var buf bytes.Buffer
	var err error
	pan := ""
	func() {
		defer func() {
			if e := recover(); e != nil {
				pan = fmt.Sprint(e)
			}
		}()
		err = s.WriteToWebVTT(&buf)
	}()
	if len(d.Cues) == 0 {
		if pan != "" {
			return "vtt.write.panic", "WriteToWebVTT of an empty list panicked: " + pan, 0
		}
		if err == nil {
			return "vtt.write.empty-no-error", "WriteToWebVTT of an empty list returned nil", 0
		}
		return "", "", core.Hash64("empty")
	}
	if pan != "" {
		k := "vtt.write.panic"
		for _, r := range s.Regions {
			if r.InlineStyle == nil {
				k = "vtt.write.panic.region-nil-inline-style"
			}
		}
		return k, "WriteToWebVTT panicked: " + pan, 0
	}
	if err != nil {
		return "vtt.write.error", fmt.Sprintf("WriteToWebVTT failed: %v", err), 0
	}
	model := renumbered(d)
	wantDen := model.Denote()
	want := wantDen.String()
	out := buf.Bytes()
	if !bytes.HasPrefix(out, []byte("WEBVTT")) {
		return "vtt.write.signature", fmt.Sprintf("writer output %q does not start with WEBVTT", out), 0
	}
	rd, info, e := vtt.Decode(out)
	if e != nil {
		k := "vtt.write.ref-decode"
		if strings.Contains(e.Error(), "is not defined earlier in the file") {
			k = "vtt.write.region-not-defined-earlier"
		} else if strings.Contains(e.Error(), "region definition after the first cue") {
			k = "vtt.write.region-after-first-cue"
		}
		return k, fmt.Sprintf("independent decoder rejects writer output %q: %v", out, e), 0
	}
	for k, id := range info.CueIDs {
		if id != strconv.Itoa(k+1) {
			return "vtt.write.numbering", fmt.Sprintf("writer output %q: cue %d carries identifier %q", out, k+1, id), 0
		}
	}
	refDen := rd.Denote()
	if g := refDen.String(); g != want {
		k := "vtt.write.ref-mismatch"
		// explanation 1: cue built without InlineStyle loses its region setting
		if variant == 1 {
			alt := cloneDoc(model)
			n := 0
			for i := range alt.Cues {
				if alt.Cues[i].Region != "" && alt.Cues[i].Settings == (vtt.Settings{}) {
					alt.Cues[i].Region = ""
					n++
				}
			}
			if n > 0 && alt.Denote().String() == g {
				k = "vtt.write.region-lost-nil-inline-style"
			}
		}
		// explanation 2: same tag name at the same depth is not reopened
		if k == "vtt.write.ref-mismatch" {
			if alt, ch := sameNameKept(model); ch && alt.Denote().String() == g {
				k = "vtt.write.tag-diff.same-name-not-reopened"
			}
		}
		// explanation 3: difference confined to lines whose adjacent runs agree on a deeper tag name while
		// disagreeing on a shallower one (the neighbour-diff scheme emits crossed tags there)
		if k == "vtt.write.ref-mismatch" && confined(wantDen, refDen, func(c, l int) bool { return lineCrossing(model.Cues[c].Lines[l]) }, nil) {
			k = "vtt.write.tag-diff.misnested"
		}
		return k, fmt.Sprintf("model\n%s written as %q\n independent decoder reads\n%s", want, out, g), 0
	}
	s2, err2, pan2 := safeRead(out)
	if pan2 != "" || err2 != nil {
		return "vtt.write.self-read-fails", fmt.Sprintf("library reader fails on writer output %q: %v %s", out, err2, pan2), 0
	}
	got, odd := FromSubs(s2)
	if odd != "" {
		return "vtt.write.self-mismatch", fmt.Sprintf("writer output %q read back: %s", out, odd), 0
	}
	gotDen := got.Denote()
	if g := gotDen.String(); g != want {
		k := "vtt.write.self-mismatch"
		// explanation: only inline timestamps of tagged runs are missing (the reader loses a timestamp that is
		// directly followed by a start tag, which is where the writer puts it)
		hasTimedTagged := func(c, l int) bool {
			for _, r := range model.Cues[c].Lines[l].Runs {
				if r.TS != 0 && len(r.Tags) > 0 {
					return true
				}
			}
			return false
		}
		onlyTaggedTSLost := func(c, l int, w, gl string) bool {
			ln := model.Cues[c].Lines[l]
			var idx []int
			for ri, r := range ln.Runs {
				if r.TS != 0 && len(r.Tags) > 0 {
					idx = append(idx, ri)
				}
			}
			for mask := 1; mask < 1<<len(idx); mask++ {
				alt := vtt.Line{Voice: ln.Voice, Runs: append([]vtt.Run{}, ln.Runs...)}
				for b, ri := range idx {
					if mask&(1<<b) != 0 {
						alt.Runs[ri].TS = 0
					}
				}
				if vtt.DenoteLine(alt) == gl {
					return true
				}
			}
			return false
		}
		if confined(wantDen, gotDen, hasTimedTagged, onlyTaggedTSLost) {
			k = "vtt.write.self.timestamp-before-tag-lost"
		}
		return k, fmt.Sprintf("model\n%s written as %q\n library reads back\n%s", want, out, g), 0
	}
	return "", "", core.Hash64(string(out))
}

func replay(sub string, raw json.RawMessage) (string, bool) {
	var cs Case
	if err := json.Unmarshal(raw, &cs); err != nil {
		return err.Error(), false
	}
	if cs.Dir == "write" {
		key, msg, _ := CheckWrite(cs.Doc, cs.Variant)
		return msg, key != ""
	}
	key, msg, _ := CheckRead(cs)
	return msg, key != ""
}
