// Package core is the shared runner of every check: it shards an exhaustive enumeration over
// worker processes, gathers counts / distinct outcomes / violations, applies the known-findings
// file, writes the evidence file and replay artefacts and decides the exit code.
package core

import (
	"encoding/gob"
	"encoding/json"
	"fmt"
	"hash/fnv"
	"os"
	"sort"
	"strings"
	"time"
)

// Tier of a run.
type Tier string

const (
	Quick    Tier = "quick"
	Thorough Tier = "thorough"
)

// Violation is one failing execution, classified by Key (a narrow predicate computed by the
// check; it is what the known-findings file refers to).
type Violation struct {
	Sub      string          // sub-check that produced it (replay dispatch)
	Key      string          // classification; never empty
	Msg      string          // human description: expected vs observed
	Case     json.RawMessage // the failing case, enough to re-execute it without the explorer
	CaseSize int             // for choosing the smallest witness per key
}

// Ctx is what a check body sees in a worker process.
type Ctx struct {
	Prop     string
	Tier     Tier
	Shard    int
	NShards  int
	Seed     int64
	Deadline time.Time
	Scratch  string // per-run scratch directory (removed by the parent on exit)

	idx int64

	// counters
	Evals       int64
	Transitions int64
	Traces      int64
	Outcomes    map[uint64]struct{} // distinct observed outcomes
	Nontrivial  map[uint64]struct{} // distinct non-trivial cases (by rule)
	States      map[uint64]struct{} // distinct canonical states / choice points
	Samples     []Sample
	Viols       map[string][]Violation // per key, smallest few
	ViolCount   map[string]int64
	Extra       map[string]int64    // additive counters
	ExtraMax    map[string]float64  // max-merged gauges
	Notes       map[string]struct{} // free text facts (e.g. caps hit)
	Capped      bool                // a time/size cap was hit: not exhaustive
	sampleEvery int64
}

// Sample is one explored case written out for the evidence file.
type Sample struct {
	Sub  string      `json:"sub"`
	N    int64       `json:"n"`
	Case interface{} `json:"case"`
}

func newCtx() *Ctx {
	return &Ctx{
		Outcomes: map[uint64]struct{}{}, Nontrivial: map[uint64]struct{}{}, States: map[uint64]struct{}{},
		Viols: map[string][]Violation{}, ViolCount: map[string]int64{}, Extra: map[string]int64{},
		ExtraMax: map[string]float64{}, Notes: map[string]struct{}{},
	}
}

// Mine is the sharding primitive: every enumerator calls it once per case, in the same order in
// every worker; exactly one worker answers true.
func (c *Ctx) Mine() bool {
	i := c.idx
	c.idx++
	return i%int64(c.NShards) == int64(c.Shard)
}

// Expired reports that the internal deadline has passed (thorough tier caps); the caller stops
// and the run is recorded as not exhaustive.
func (c *Ctx) Expired() bool {
	if c.Deadline.IsZero() {
		return false
	}
	if time.Now().After(c.Deadline) {
		c.Capped = true
		c.Note("internal deadline reached: exploration stopped early, exhaustive=false")
		return true
	}
	return false
}

func (c *Ctx) Note(s string) { c.Notes[s] = struct{}{} }

// Hash64 of strings.
func Hash64(parts ...string) uint64 {
	h := fnv.New64a()
	for _, p := range parts {
		h.Write([]byte(p))
		h.Write([]byte{0})
	}
	return h.Sum64()
}

// Record one evaluated case. outcome: hash of what was observed; nontrivialKey != 0 marks the
// case non-trivial with that identity.
func (c *Ctx) Record(sub string, outcome uint64, nontrivialKey uint64, sample func() interface{}) {
	c.Evals++
	c.Outcomes[outcome] = struct{}{}
	if nontrivialKey != 0 {
		c.Nontrivial[nontrivialKey] = struct{}{}
	}
	// first case and every 10^k-th case of a shard become samples
	n := c.Evals
	if sample != nil && len(c.Samples) < 12 && (n == 1 || n == 10 || n == 100 || n == 1000 || n == 10000 || n == 100000 || n == 1000000) {
		c.Samples = append(c.Samples, Sample{Sub: sub, N: n, Case: sample()})
	}
}

func (c *Ctx) State(h uint64) bool {
	if _, ok := c.States[h]; ok {
		return false
	}
	c.States[h] = struct{}{}
	return true
}

// Violate records a violation. cas must be JSON-serialisable.
func (c *Ctx) Violate(sub, key, msg string, cas interface{}, size int) {
	c.ViolCount[key]++
	l := c.Viols[key]
	if len(l) >= 3 {
		// keep the smallest
		worst := 0
		for i := range l {
			if l[i].CaseSize > l[worst].CaseSize {
				worst = i
			}
		}
		if size >= l[worst].CaseSize {
			return
		}
		b, _ := json.Marshal(cas)
		l[worst] = Violation{Sub: sub, Key: key, Msg: msg, Case: b, CaseSize: size}
		return
	}
	b, err := json.Marshal(cas)
	if err != nil {
		b, _ = json.Marshal(fmt.Sprintf("%+v", cas))
	}
	c.Viols[key] = append(l, Violation{Sub: sub, Key: key, Msg: msg, Case: b, CaseSize: size})
}

// ---- worker result (gob over a file) ----

type WorkerResult struct {
	Evals, Transitions, Traces int64
	Outcomes, Nontrivial       []uint64
	States                     []uint64
	Samples                    []SampleWire
	Viols                      []Violation
	ViolCount                  map[string]int64
	Extra                      map[string]int64
	ExtraMax                   map[string]float64
	Notes                      []string
	Capped                     bool
}

type SampleWire struct {
	Sub  string
	N    int64
	JSON []byte
}

func keys(m map[uint64]struct{}) []uint64 {
	o := make([]uint64, 0, len(m))
	for k := range m {
		o = append(o, k)
	}
	return o
}

func (c *Ctx) result() *WorkerResult {
	r := &WorkerResult{Evals: c.Evals, Transitions: c.Transitions, Traces: c.Traces,
		Outcomes: keys(c.Outcomes), Nontrivial: keys(c.Nontrivial), States: keys(c.States),
		ViolCount: c.ViolCount, Extra: c.Extra, ExtraMax: c.ExtraMax, Capped: c.Capped}
	for _, s := range c.Samples {
		b, err := json.Marshal(s.Case)
		if err != nil {
			b, _ = json.Marshal(fmt.Sprintf("%+v", s.Case))
		}
		r.Samples = append(r.Samples, SampleWire{s.Sub, s.N, b})
	}
	for _, l := range c.Viols {
		r.Viols = append(r.Viols, l...)
	}
	for n := range c.Notes {
		r.Notes = append(r.Notes, n)
	}
	sort.Strings(r.Notes)
	return r
}

func writeResult(path string, r *WorkerResult) error {
	f, err := os.Create(path)
	if err != nil {
		return err
	}
	defer f.Close()
	return gob.NewEncoder(f).Encode(r)
}

func readResult(path string) (*WorkerResult, error) {
	f, err := os.Open(path)
	if err != nil {
		return nil, err
	}
	defer f.Close()
	r := &WorkerResult{}
	if err := gob.NewDecoder(f).Decode(r); err != nil {
		return nil, err
	}
	return r, nil
}

// ---- known findings ----

type KnownFindings struct {
	Finding map[string]string // "C05/key" -> description
	Fixed   map[string]string
}

func LoadKnownFindings(path string) (*KnownFindings, error) {
	k := &KnownFindings{Finding: map[string]string{}, Fixed: map[string]string{}}
	b, err := os.ReadFile(path)
	if err != nil {
		if os.IsNotExist(err) {
			return k, nil
		}
		return nil, err
	}
	for _, line := range strings.Split(string(b), "\n") {
		line = strings.TrimSpace(line)
		if line == "" || strings.HasPrefix(line, "#") {
			continue
		}
		var kind string
		switch {
		case strings.HasPrefix(line, "finding:"):
			kind = "finding"
			line = strings.TrimSpace(strings.TrimPrefix(line, "finding:"))
		case strings.HasPrefix(line, "fixed:"):
			kind = "fixed"
			line = strings.TrimSpace(strings.TrimPrefix(line, "fixed:"))
		default:
			continue
		}
		var prop, key string
		fs := strings.Fields(line)
		rest := []string{}
		for _, f := range fs {
			switch {
			case strings.HasPrefix(f, "property=") && prop == "":
				prop = strings.TrimPrefix(f, "property=")
			case strings.HasPrefix(f, "key=") && key == "":
				key = strings.TrimPrefix(f, "key=")
			default:
				rest = append(rest, f)
			}
		}
		if kind == "finding" {
			k.Finding[prop+"/"+key] = strings.Join(rest, " ")
		} else {
			k.Fixed[prop+"/"+key] = strings.Join(rest, " ")
		}
	}
	return k, nil
}
