package core

import (
	"bytes"
	"crypto/sha1"
	"encoding/json"
	"flag"
	"fmt"
	"io"
	"log"
	"os"
	"os/exec"
	"path/filepath"
	"runtime"
	"sort"
	"strconv"
	"strings"
	"sync"
	"time"
)

// Prop describes one property's check.
type Prop struct {
	ID          string
	Level       string // exploration | model_checking | fault_enumeration
	Rule        string // how cases are enumerated and what makes one non-trivial
	Assumptions []string
	Scope       map[Tier]string // human statement of the bound per tier
	// Plain runs in the plain build of /repo; Instr in the instrumented (overlay, -tags verif) build.
	Plain func(*Ctx)
	Instr func(*Ctx)
	// Replay re-executes one recorded case without the explorer; returns the message and whether it
	// (still) violates.
	Replay func(sub string, cas json.RawMessage) (string, bool)
	// CrashIsViolation: a worker killed by a Go fatal error counts as a violation of this property.
	CrashIsViolation bool
	// MinOutcomes below which a run is vacuous.
	MinOutcomes int
}

var registry = map[string]*Prop{}

// extra sub-commands (helper child processes of some checks)
var commands = map[string]func(args []string) int{}

func RegisterCommand(name string, f func(args []string) int) { commands[name] = f }

func Register(p *Prop) { registry[p.ID] = p }

const (
	verifDir = "/verif"
)

// Main is the entry point of the driver binary (both plain and instrumented builds).
func Main() {
	if len(os.Args) < 2 {
		fmt.Fprintln(os.Stderr, "usage: vdriver run|worker|replay|list ...")
		os.Exit(2)
	}
	switch os.Args[1] {
	case "run":
		os.Exit(parent(os.Args[2:]))
	case "worker":
		os.Exit(worker(os.Args[2:]))
	case "replay":
		os.Exit(replay(os.Args[2:]))
	case "list":
		ids := []string{}
		for id := range registry {
			ids = append(ids, id)
		}
		sort.Strings(ids)
		fmt.Println(strings.Join(ids, " "))
		os.Exit(0)
	}
	if f, ok := commands[os.Args[1]]; ok {
		os.Exit(f(os.Args[2:]))
	}
	fmt.Fprintln(os.Stderr, "unknown command", os.Args[1])
	os.Exit(2)
}

func worker(args []string) int {
	fs := flag.NewFlagSet("worker", flag.ExitOnError)
	prop := fs.String("prop", "", "")
	tier := fs.String("tier", "quick", "")
	shard := fs.Int("shard", 0, "")
	n := fs.Int("n", 1, "")
	out := fs.String("out", "", "")
	instr := fs.Bool("instr", false, "")
	seed := fs.Int64("seed", 0, "")
	deadline := fs.Int64("deadline", 0, "unix seconds, 0 = none")
	scratch := fs.String("scratch", "", "")
	fs.Parse(args)
	p := registry[*prop]
	if p == nil {
		fmt.Fprintln(os.Stderr, "unknown property", *prop)
		return 2
	}
	log.SetOutput(io.Discard) // the library logs through the standard logger
	c := newCtx()
	c.Prop, c.Tier, c.Shard, c.NShards, c.Seed, c.Scratch = *prop, Tier(*tier), *shard, *n, *seed, *scratch
	if *deadline > 0 {
		c.Deadline = time.Unix(*deadline, 0)
	}
	body := p.Plain
	if *instr {
		body = p.Instr
	}
	if body != nil {
		body(c)
	}
	if err := writeResult(*out, c.result()); err != nil {
		fmt.Fprintln(os.Stderr, "writing result:", err)
		return 2
	}
	return 0
}

type replayFile struct {
	Property string          `json:"property"`
	Sub      string          `json:"sub"`
	Key      string          `json:"key"`
	Msg      string          `json:"msg"`
	Count    int64           `json:"count_in_run"`
	Case     json.RawMessage `json:"case"`
}

// ReplayFile re-executes one recorded case (used by `go test -run TestReplay` with VERIF_REPLAY=<file>).
func ReplayFile(path string) (msg string, violates bool, err error) {
	b, err := os.ReadFile(path)
	if err != nil {
		return "", false, err
	}
	var rf replayFile
	if err := json.Unmarshal(b, &rf); err != nil {
		return "", false, err
	}
	p := registry[rf.Property]
	if p == nil || p.Replay == nil {
		return "", false, fmt.Errorf("no replay for %s", rf.Property)
	}
	msg, violates = p.Replay(rf.Sub, rf.Case)
	return msg, violates, nil
}

func replay(args []string) int {
	if len(args) < 1 {
		fmt.Fprintln(os.Stderr, "usage: vdriver replay <file>")
		return 2
	}
	b, err := os.ReadFile(args[0])
	if err != nil {
		fmt.Fprintln(os.Stderr, err)
		return 2
	}
	var rf replayFile
	if err := json.Unmarshal(b, &rf); err != nil {
		fmt.Fprintln(os.Stderr, err)
		return 2
	}
	p := registry[rf.Property]
	if p == nil || p.Replay == nil {
		fmt.Fprintln(os.Stderr, "no replay for", rf.Property)
		return 2
	}
	msg, bad := p.Replay(rf.Sub, rf.Case)
	if bad {
		fmt.Printf("REPLAY property=%s sub=%s: still violates: %s\n", rf.Property, rf.Sub, msg)
		return 1
	}
	fmt.Printf("REPLAY property=%s sub=%s: holds now (%s)\n", rf.Property, rf.Sub, msg)
	return 0
}

func parent(args []string) int {
	fs := flag.NewFlagSet("run", flag.ExitOnError)
	prop := fs.String("prop", "", "")
	tier := fs.String("tier", "quick", "")
	instrBin := fs.String("instr-bin", "", "instrumented build of this driver")
	scratch := fs.String("scratch", "", "")
	fs.Parse(args)
	p := registry[*prop]
	if p == nil {
		fmt.Fprintln(os.Stderr, "unknown property", *prop)
		return 2
	}
	start := time.Now()
	seed := int64(0)
	if s := os.Getenv("VERIF_SEED"); s != "" {
		seed, _ = strconv.ParseInt(s, 10, 64)
	}
	nsh := runtime.NumCPU()
	if nsh > 16 {
		nsh = 16
	}
	if s := os.Getenv("VERIF_SHARDS"); s != "" {
		if v, err := strconv.Atoi(s); err == nil && v > 0 {
			nsh = v
		}
	}
	// internal deadline: thorough runs stop exploring (exhaustive=false, exit 0) when it passes.
	var deadline int64
	dl := 0
	if Tier(*tier) == Thorough {
		dl = 40 * 60
	}
	if s := os.Getenv("VERIF_DEADLINE_S"); s != "" {
		dl, _ = strconv.Atoi(s)
	}
	if dl > 0 {
		deadline = time.Now().Add(time.Duration(dl) * time.Second).Unix()
	}
	safety := 15 * time.Minute
	if Tier(*tier) == Thorough {
		safety = time.Duration(dl)*time.Second + 20*time.Minute
	}

	type job struct {
		bin   string
		instr bool
		shard int
	}
	var jobs []job
	self, _ := os.Executable()
	if p.Plain != nil {
		for i := 0; i < nsh; i++ {
			jobs = append(jobs, job{self, false, i})
		}
	}
	if p.Instr != nil {
		if *instrBin == "" {
			fmt.Fprintln(os.Stderr, "INFRA: property", p.ID, "needs the instrumented build (-instr-bin)")
			return 2
		}
		for i := 0; i < nsh; i++ {
			jobs = append(jobs, job{*instrBin, true, i})
		}
	}
	results := make([]*WorkerResult, len(jobs))
	errs := make([]string, len(jobs))
	crashed := make([]bool, len(jobs))
	var wg sync.WaitGroup
	sem := make(chan struct{}, nsh)
	for ji, j := range jobs {
		wg.Add(1)
		go func(ji int, j job) {
			defer wg.Done()
			sem <- struct{}{}
			defer func() { <-sem }()
			out := filepath.Join(*scratch, fmt.Sprintf("res-%d.gob", ji))
			a := []string{"worker", "-prop", p.ID, "-tier", *tier, "-shard", strconv.Itoa(j.shard), "-n", strconv.Itoa(nsh),
				"-out", out, "-seed", strconv.FormatInt(seed, 10), "-deadline", strconv.FormatInt(deadline, 10), "-scratch", *scratch}
			if j.instr {
				a = append(a, "-instr")
			}
			cmd := exec.Command(j.bin, a...)
			var stderr bytes.Buffer
			cmd.Stderr = &stderr
			cmd.Stdout = &stderr
			cmd.Env = append(os.Environ(), "GOMAXPROCS=2")
			done := make(chan error, 1)
			if err := cmd.Start(); err != nil {
				errs[ji] = "start: " + err.Error()
				return
			}
			go func() { done <- cmd.Wait() }()
			select {
			case err := <-done:
				if err != nil {
					tail := stderr.String()
					if len(tail) > 6000 {
						tail = tail[:3000] + "\n...\n" + tail[len(tail)-3000:]
					}
					errs[ji] = fmt.Sprintf("worker %d (instr=%v) died: %v\n%s", j.shard, j.instr, err, tail)
					crashed[ji] = strings.Contains(tail, "fatal error:") || strings.Contains(tail, "panic:") || strings.Contains(tail, "goroutine ")
					return
				}
			case <-time.After(safety):
				cmd.Process.Kill()
				errs[ji] = fmt.Sprintf("worker %d (instr=%v) exceeded the %s safety net", j.shard, j.instr, safety)
				return
			}
			r, err := readResult(out)
			if err != nil {
				errs[ji] = "result: " + err.Error()
				return
			}
			os.Remove(out)
			results[ji] = r
		}(ji, j)
	}
	wg.Wait()

	// merge
	m := newCtx()
	var samples []SampleWire
	infra := []string{}
	crashViol := []string{}
	for ji := range jobs {
		if errs[ji] != "" {
			if crashed[ji] && p.CrashIsViolation {
				crashViol = append(crashViol, errs[ji])
			} else {
				infra = append(infra, errs[ji])
			}
			continue
		}
		r := results[ji]
		m.Evals += r.Evals
		m.Transitions += r.Transitions
		m.Traces += r.Traces
		for _, h := range r.Outcomes {
			m.Outcomes[h] = struct{}{}
		}
		for _, h := range r.Nontrivial {
			m.Nontrivial[h] = struct{}{}
		}
		for _, h := range r.States {
			m.States[h] = struct{}{}
		}
		if len(samples) < 24 {
			samples = append(samples, r.Samples...)
		}
		for _, v := range r.Viols {
			m.Viols[v.Key] = append(m.Viols[v.Key], v)
		}
		for k, n := range r.ViolCount {
			m.ViolCount[k] += n
		}
		for k, n := range r.Extra {
			m.Extra[k] += n
		}
		for k, n := range r.ExtraMax {
			if n > m.ExtraMax[k] {
				m.ExtraMax[k] = n
			}
		}
		for _, n := range r.Notes {
			m.Notes[n] = struct{}{}
		}
		m.Capped = m.Capped || r.Capped
	}
	if len(infra) > 0 {
		for _, e := range infra {
			fmt.Fprintln(os.Stderr, "INFRA:", e)
		}
		return 2
	}

	kf, err := LoadKnownFindings(filepath.Join(verifDir, "KNOWN_FINDINGS.txt"))
	if err != nil {
		fmt.Fprintln(os.Stderr, "INFRA: known findings:", err)
		return 2
	}
	os.MkdirAll(filepath.Join(verifDir, "replays"), 0o755)
	os.MkdirAll(filepath.Join(verifDir, "evidence"), 0o755)

	vkeys := []string{}
	for k := range m.Viols {
		vkeys = append(vkeys, k)
	}
	sort.Strings(vkeys)
	nviol := 0
	knownHit := map[string]int64{}
	var lines []string
	for _, k := range vkeys {
		l := m.Viols[k]
		sort.SliceStable(l, func(i, j int) bool { return l[i].CaseSize < l[j].CaseSize })
		v := l[0]
		if desc, ok := kf.Finding[p.ID+"/"+k]; ok {
			knownHit[k] = m.ViolCount[k]
			lines = append(lines, fmt.Sprintf("KNOWN-FINDING: property=%s %s (%d cases this run) %s", p.ID, k, m.ViolCount[k], desc))
			continue
		}
		nviol++
		rf := replayFile{Property: p.ID, Sub: v.Sub, Key: v.Key, Msg: v.Msg, Count: m.ViolCount[k], Case: v.Case}
		b, _ := json.MarshalIndent(rf, "", " ")
		sum := sha1.Sum(append([]byte(v.Key), v.Case...))
		path := filepath.Join(verifDir, "replays", fmt.Sprintf("%s-%x.json", p.ID, sum[:6]))
		os.WriteFile(path, b, 0o644)
		msg := v.Msg
		if len(msg) > 600 {
			msg = msg[:600] + "…"
		}
		fmt.Printf("  [%s] %s (%d cases): %s\n", p.ID, k, m.ViolCount[k], strings.ReplaceAll(msg, "\n", "\n      "))
		lines = append(lines, fmt.Sprintf("VIOLATION property=%s replay=%s", p.ID, path))
	}
	for i, e := range crashViol {
		nviol++
		path := filepath.Join(verifDir, "replays", fmt.Sprintf("%s-crash-%d.txt", p.ID, i))
		os.WriteFile(path, []byte(e), 0o644)
		fmt.Printf("  [%s] worker process died with a Go fatal error (see %s)\n", p.ID, path)
		lines = append(lines, fmt.Sprintf("VIOLATION property=%s replay=%s", p.ID, path))
	}

	// evidence
	sort.Slice(samples, func(i, j int) bool {
		if samples[i].N != samples[j].N {
			return samples[i].N < samples[j].N
		}
		return samples[i].Sub < samples[j].Sub
	})
	// keep a spread of subs
	seenSub := map[string]int{}
	var outSamples []map[string]interface{}
	for _, s := range samples {
		if seenSub[s.Sub] >= 2 || len(outSamples) >= 16 {
			continue
		}
		seenSub[s.Sub]++
		outSamples = append(outSamples, map[string]interface{}{"sub": s.Sub, "n_in_shard": s.N, "case": json.RawMessage(s.JSON)})
	}
	if len(outSamples) == 0 {
		for _, s := range samples {
			outSamples = append(outSamples, map[string]interface{}{"sub": s.Sub, "case": json.RawMessage(s.JSON)})
			break
		}
	}
	notes := []string{}
	for n := range m.Notes {
		notes = append(notes, n)
	}
	sort.Strings(notes)
	cov := map[string]interface{}{
		"evaluations":         m.Evals,
		"distinct_nontrivial": len(m.Nontrivial),
		"distinct_outcomes":   len(m.Outcomes),
		"rule":                p.Rule,
		"samples":             outSamples,
		"exhaustive":          !m.Capped,
		"scope":               p.Scope[Tier(*tier)],
		"shards":              nsh,
		"notes":               notes,
		"known_findings_hit":  knownHit,
	}
	if p.Level == "model_checking" {
		cov["states"] = len(m.States)
		cov["transitions"] = m.Transitions
		cov["traces_validated_against_impl"] = m.Traces
	}
	for k, v := range m.Extra {
		cov[k] = v
	}
	for k, v := range m.ExtraMax {
		cov[k] = v
	}
	ev := map[string]interface{}{
		"property_id": p.ID, "tier": *tier, "seed": seed, "level": p.Level, "coverage": cov,
		"assumptions": p.Assumptions, "wall_s": time.Since(start).Seconds(), "violations": nviol,
	}
	b, _ := json.MarshalIndent(ev, "", " ")
	evDir := filepath.Join(verifDir, "evidence")
	if os.Getenv("VERIF_KEEP_EVIDENCE") != "" {
		evDir = *scratch // mutation runs against a scratch worktree must not overwrite the evidence of /repo
	}
	if err := os.WriteFile(filepath.Join(evDir, p.ID+".json"), b, 0o644); err != nil {
		fmt.Fprintln(os.Stderr, "INFRA: evidence:", err)
		return 2
	}
	fmt.Printf("%s %s: evaluations=%d distinct_outcomes=%d distinct_nontrivial=%d states=%d transitions=%d traces=%d exhaustive=%v wall=%.1fs\n",
		p.ID, *tier, m.Evals, len(m.Outcomes), len(m.Nontrivial), len(m.States), m.Transitions, m.Traces, !m.Capped, time.Since(start).Seconds())
	for _, l := range lines {
		fmt.Println(l)
	}
	if nviol > 0 {
		return 1
	}
	min := p.MinOutcomes
	if min == 0 {
		min = 2
	}
	if len(m.Outcomes) < min || len(m.Nontrivial) < 2 {
		fmt.Fprintf(os.Stderr, "INFRA: vacuous run (distinct outcomes %d, non-trivial %d)\n", len(m.Outcomes), len(m.Nontrivial))
		return 2
	}
	return 0
}
