package main

import (
	"verif/core"
	_ "verif/props/c01"
)

func main() { core.Main() }
