// Private driver of the C06 check.
package main

import (
	"verif/core"
	_ "verif/props/c06"
)

func main() { core.Main() }
