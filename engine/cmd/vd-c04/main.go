package main

import (
	"verif/core"
	_ "verif/props/c04"
)

func main() { core.Main() }
