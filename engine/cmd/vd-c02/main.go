package main

import (
	"verif/core"
	_ "verif/props/c02"
)

func main() { core.Main() }
