package main

import (
	"verif/core"
	_ "verif/props/c03"
)

func main() { core.Main() }
