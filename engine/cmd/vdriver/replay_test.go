package main

import (
	"os"
	"testing"

	"verif/core"
)

// TestReplay re-executes one recorded violation as an ordinary unit test, without the explorer:
//
//	cd /verif/engine && VERIF_REPLAY=/verif/replays/<file>.json go test ./cmd/vdriver -run TestReplay
//
// (add `-tags verif -overlay <overlay.json>` for cases that need the instrumented build).
func TestReplay(t *testing.T) {
	path := os.Getenv("VERIF_REPLAY")
	if path == "" {
		t.Skip("VERIF_REPLAY not set")
	}
	msg, bad, err := core.ReplayFile(path)
	if err != nil {
		t.Fatal(err)
	}
	if bad {
		t.Fatalf("recorded case still violates the property: %s", msg)
	}
	t.Logf("recorded case holds now: %s", msg)
}
