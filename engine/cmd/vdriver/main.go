package main

import (
	"verif/core"
	_ "verif/props/listops"
)

func main() { core.Main() }
