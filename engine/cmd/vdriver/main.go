package main

import (
	"verif/core"
	_ "verif/props/c01"
	_ "verif/props/c02"
	_ "verif/props/c03"
	_ "verif/props/c04"
	_ "verif/props/c05"
	_ "verif/props/c06"
	_ "verif/props/c07"
	_ "verif/props/c08"
	_ "verif/props/c16"
	_ "verif/props/c17"
	_ "verif/props/c18"
	_ "verif/props/c19"
	_ "verif/props/c20"
	_ "verif/props/listops"
)

func main() { core.Main() }
