package main

import (
	"verif/core"
	_ "verif/props/c05"
)

func main() { core.Main() }
