#!/bin/bash
case "$1" in C08|C19|C20) exit 0;; *) exit 1;; esac
