//go:build verif

// Package hooks is the harness side of the instrumentation seam (see engine/instr).
package hooks

import astisub "github.com/asticode/go-astisub"

const Instrumented = true

func SetPoint(f func(site int))                 { astisub.VerifHook = f }
func SetMapOrder(f func(site int, n int) []int) { astisub.VerifMapOrder = f }

type Global struct {
	Name string
	Ptr  interface{}
}

func Globals() []Global {
	var o []Global
	for _, g := range astisub.VerifGlobals() {
		o = append(o, Global{g.Name, g.Ptr})
	}
	return o
}
