//go:build !verif

// Package hooks is the harness side of the instrumentation seam (see engine/instr).
package hooks

const Instrumented = false

func SetPoint(f func(site int))                 {}
func SetMapOrder(f func(site int, n int) []int) {}

type Global struct {
	Name string
	Ptr  interface{}
}

func Globals() []Global { return nil }
