// Package explore is E1: a stateless choice-sequence explorer. A body is a deterministic function
// of a sequence of bounded choices; the explorer enumerates every choice vector of the body's
// (dynamically discovered) choice tree, either completely (product mode) or up to a bound on the
// number of non-default answers (deviation mode, the preemption-bound idea applied to inputs and
// environment answers). Answer 0 is always the default.
package explore

import "fmt"

// C is the chooser handed to a body.
type C struct {
	prefix []int
	Trace  []int // choices taken in this execution
	Ns     []int // arity of each choice point
	Sites  []string
}

// Choose returns a value in [0,n). While replaying the prefix a mismatching arity is a hard error.
func (c *C) Choose(site string, n int) int {
	if n <= 0 {
		panic("explore: Choose with n <= 0 at " + site)
	}
	i := len(c.Trace)
	v := 0
	if i < len(c.prefix) {
		v = c.prefix[i]
		if v >= n {
			panic(fmt.Sprintf("explore: replay divergence at point %d (%s): choice %d out of range %d", i, site, v, n))
		}
	}
	c.Trace = append(c.Trace, v)
	c.Ns = append(c.Ns, n)
	if site != "" { // hot paths (scheduling points) pass "" and skip the site log
		c.Sites = append(c.Sites, site)
	}
	return v
}

// Bool is Choose(site,2)==1.
func (c *C) Bool(site string) bool { return c.Choose(site, 2) == 1 }

// Pick returns one of the options (first = default).
func Pick[T any](c *C, site string, opts ...T) T { return opts[c.Choose(site, len(opts))] }

// Deviations counts non-default answers in a trace.
func Deviations(tr []int) int {
	n := 0
	for _, v := range tr {
		if v != 0 {
			n++
		}
	}
	return n
}

// Run executes body once with the given choice vector as prefix (defaults afterwards).
func Run(prefix []int, body func(*C)) *C {
	c := &C{prefix: prefix}
	body(c)
	return c
}

// Explore enumerates executions. bound < 0: product mode (everything). bound >= 0: at most bound
// deviations. visit is called once per distinct execution with the chooser after the run; if it
// returns false the exploration stops. Returns the number of executions.
func Explore(bound int, body func(*C), visit func(*C) bool) int64 {
	var n int64
	stop := false
	var rec func(prefix []int)
	rec = func(prefix []int) {
		if stop {
			return
		}
		c := Run(prefix, body)
		n++
		if !visit(c) {
			stop = true
			return
		}
		dev := Deviations(c.Trace[:len(prefix)])
		tr, ns := c.Trace, c.Ns
		for i := len(prefix); i < len(tr); i++ {
			// tr[i] == 0 here (beyond the prefix every answer is the default)
			if bound >= 0 && dev+1 > bound {
				break
			}
			for alt := 1; alt < ns[i]; alt++ {
				np := make([]int, i+1)
				copy(np, tr[:i])
				np[i] = alt
				rec(np)
				if stop {
					return
				}
			}
		}
	}
	rec(nil)
	return n
}

// ExploreSharded is Explore for bodies that ARE the expensive execution (the choice points are
// discovered by running the real code, so generation cannot be separated from execution): the
// root execution and each subtree below a first-level alternative are owned by exactly one
// worker, decided by calling mine() once per root and once per first-level alternative, in the
// same order in every worker.
func ExploreSharded(bound int, mine func() bool, body func(*C), visit func(*C) bool) int64 {
	var n int64
	stop := false
	var rec func(prefix []int)
	rec = func(prefix []int) {
		if stop {
			return
		}
		c := Run(prefix, body)
		n++
		if !visit(c) {
			stop = true
			return
		}
		dev := Deviations(c.Trace[:len(prefix)])
		tr, ns := c.Trace, c.Ns
		for i := len(prefix); i < len(tr); i++ {
			if bound >= 0 && dev+1 > bound {
				break
			}
			for alt := 1; alt < ns[i]; alt++ {
				np := make([]int, i+1)
				copy(np, tr[:i])
				np[i] = alt
				rec(np)
				if stop {
					return
				}
			}
		}
	}
	// root
	rootMine := mine()
	c := Run(nil, body)
	if rootMine {
		n++
		if !visit(c) {
			return n
		}
	}
	if bound == 0 {
		return n
	}
	for i := 0; i < len(c.Trace); i++ {
		for alt := 1; alt < c.Ns[i]; alt++ {
			if !mine() {
				continue
			}
			np := make([]int, i+1)
			copy(np, c.Trace[:i])
			np[i] = alt
			rec(np)
			if stop {
				return n
			}
		}
	}
	return n
}
