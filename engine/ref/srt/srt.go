// Package srt is the independent SubRip reference: ground-truth model, renderer with every
// syntactic freedom of the property as an explicit parameter, and a decoder written from the
// format description. It shares no code with /repo.
package srt

import (
	"fmt"
	"regexp"
	"strconv"
	"strings"
	"unicode"
)

type Style struct {
	B, I, U bool
	Color   string
}

type Run struct {
	Text string
	Style
}

type Line []Run

type Cue struct {
	Start, End int64 // milliseconds
	Lines      []Line
}

type Doc []Cue

// ---------- denotation ----------

type schar struct {
	r rune
	s Style
}

// Denote renders the document's denotation as a canonical string: per cue start/end (ms) and per
// line the styled characters after trimming the line's outer white space (SubRip does not carry it).
func (d Doc) Denote() string {
	var b strings.Builder
	for _, c := range d {
		fmt.Fprintf(&b, "%d-%d", c.Start, c.End)
		for _, l := range c.Lines {
			var cs []schar
			for _, r := range l {
				for _, ch := range r.Text {
					cs = append(cs, schar{ch, r.Style})
				}
			}
			for len(cs) > 0 && Trimmable(cs[0].r) {
				cs = cs[1:]
			}
			for len(cs) > 0 && Trimmable(cs[len(cs)-1].r) {
				cs = cs[:len(cs)-1]
			}
			b.WriteString("|")
			var cur *Style
			for i := range cs {
				if cur == nil || *cur != cs[i].s {
					cur = &cs[i].s
					fmt.Fprintf(&b, "{b=%v,i=%v,u=%v,c=%q}", cur.B, cur.I, cur.U, cur.Color)
				}
				b.WriteRune(cs[i].r)
			}
		}
		b.WriteString("\n")
	}
	return b.String()
}

// Trimmable: white space that SubRip does not carry at the outer ends of a line. The no-break space is
// NOT trimmable: the property says it survives unchanged (it travels as the &nbsp; entity).
func Trimmable(r rune) bool { return unicode.IsSpace(r) && r != '\u00a0' }

// TrimLine removes trimmable white space at both ends.
func TrimLine(s string) string { return strings.TrimFunc(s, Trimmable) }

// ---------- rendering ----------

type Render struct {
	EOL        string // "\n", "\r\n", "\r"
	BOM        bool
	Index      []int // per cue: an index form, see IndexLine (0 k+1, 1 absent, 2 "abc", 3 "0", 4.. further forms)
	BlankBetw  int   // 1..3
	EOF        int   // 0 last line terminated; 1 unterminated; 2,3,4: terminated + 1,2,3 blank lines
	Sep        string
	FracDigits int // 3,2,1 (used when the instant allows)
	HourDigits int // 2,1,3 (used when the hour allows)
	Arrow      string
	Coords     string
	Lazy       bool // keep tags open across runs/lines that share them (multi-line tags)
	LeaveOpen  bool // do not close the tags still open at the end of a cue
	UpperTags  bool
	ColorQuote int // form of the opening font tag, see openFont (0 "x", 1 'x', 2 unquoted, 3 among other attributes, 4.. further forms)
	LineSpaces int // 0 none, 1 leading, 2 trailing, 3 both; 4 leading tab, 5 trailing tab, 6 two blanks on both sides
	NBSPEntity bool

	BlankForm  string // content of a "blank" line between cues and at end of file: "", " ", "\t", "  "
	HeadPad    int    // white space around the index and timing lines: 0 none, 1 trailing blank, 2 leading blank, 3 trailing tab
	TagOrder   int    // permutation (lexicographic rank, 0 = font,b,i,u) giving the order in which tags are opened
	CloseSame  bool   // close tags in the order they were opened (overlapping) instead of mirrored
	PlainFont  int    // wrap runs without colour in a colourless font tag: 0 no, 1 <font face="Arial">, 2 <font color="">, 3 <font>
	StrayClose int    // closing tag without an opening one: 0 none; at the start of a cue's first line 1 </i>, 2 </font>, 3 </b></u>; 4 </i> at the end of its last line
	RawAmp     bool   // write '&' unescaped when a blank follows it
}

// NIndexForms, NFontForms, NLineSpaces: number of forms of the respective rendering choice.
const (
	NIndexForms = 13
	NFontForms  = 11
	NLineSpaces = 7
)

// IndexLine returns the cue-number line of cue k (0-based) in the given form; ok=false: no such line.
func IndexLine(form, k int) (string, bool) {
	n := strconv.Itoa(k + 1)
	switch form {
	case 1:
		return "", false
	case 2:
		return "abc", true
	case 3:
		return "0", true
	case 4:
		return fmt.Sprintf("%03d", k+1), true
	case 5:
		return "-1", true
	case 6:
		return n + "a", true
	case 7:
		return "#" + n, true
	case 8:
		return "99999999999999999999", true
	case 9:
		return n + ".", true
	case 10:
		return "\u0663", true
	case 11:
		return "+5", true
	case 12:
		return "1 2", true
	}
	return n, true
}

func DefaultRender(ncues int) Render {
	return Render{EOL: "\n", Index: make([]int, ncues), BlankBetw: 1, Sep: ",", FracDigits: 3, HourDigits: 2, Arrow: " --> "}
}

func fmtTime(ms int64, r Render) string {
	h := ms / 3600000
	m := ms / 60000 % 60
	s := ms / 1000 % 60
	f := ms % 1000
	var hs string
	switch {
	case r.HourDigits == 1 && h < 10:
		hs = strconv.FormatInt(h, 10)
	case r.HourDigits == 3 && h < 100:
		hs = fmt.Sprintf("%03d", h)
	case r.HourDigits == 4 && h < 1000:
		hs = fmt.Sprintf("%04d", h)
	default:
		hs = fmt.Sprintf("%02d", h)
	}
	frac := fmt.Sprintf("%03d", f)
	if r.FracDigits == 2 && f%10 == 0 {
		frac = fmt.Sprintf("%02d", f/10)
	}
	if r.FracDigits == 1 && f%100 == 0 {
		frac = fmt.Sprintf("%d", f/100)
	}
	return fmt.Sprintf("%s:%02d:%02d%s%s", hs, m, s, r.Sep, frac)
}

func escape(t string, r Render, edgeSafe bool) string {
	var b strings.Builder
	rs := []rune(t)
	for i, ch := range rs {
		switch ch {
		case '&':
			if r.RawAmp && i+1 < len(rs) && rs[i+1] == ' ' {
				b.WriteString("&")
			} else {
				b.WriteString("&amp;")
			}
		case '<':
			b.WriteString("&lt;")
		case '\u00a0':
			if r.NBSPEntity || i == 0 || i == len(rs)-1 {
				b.WriteString("&nbsp;")
			} else {
				b.WriteRune(ch)
			}
		default:
			b.WriteRune(ch)
		}
	}
	return b.String()
}

func tag(name string, r Render) string {
	if r.UpperTags {
		return strings.ToUpper(name)
	}
	return name
}

func openFont(color string, r Render) string {
	f := "<" + tag("font", r)
	switch r.ColorQuote {
	case 1:
		return f + " color='" + color + "'>"
	case 2:
		return f + " color=" + color + ">"
	case 3:
		return f + " face=\"Arial\" color=\"" + color + "\" size=\"12\">"
	case 4:
		return f + " color = \"" + color + "\">"
	case 5:
		return f + " COLOR=\"" + color + "\">"
	case 6:
		return f + " Color='" + color + "'>"
	case 7:
		return f + " size=\"12\" face='Arial' color=\"" + color + "\">"
	case 8:
		return f + " color=\"" + color + "\" >"
	case 9:
		return f + "  color=\"" + color + "\">"
	case 10:
		return f + " color=" + color + " size=12>"
	}
	return f + " color=\"" + color + "\">"
}

// tagPerms: the 24 orders of the four tags (0 font, 1 b, 2 i, 3 u) in lexicographic order.
var tagPerms = func() [][4]int {
	var out [][4]int
	var rec func(p []int, used [4]bool)
	rec = func(p []int, used [4]bool) {
		if len(p) == 4 {
			out = append(out, [4]int{p[0], p[1], p[2], p[3]})
			return
		}
		for t := 0; t < 4; t++ {
			if !used[t] {
				used[t] = true
				rec(append(append([]int{}, p...), t), used)
				used[t] = false
			}
		}
	}
	rec(nil, [4]bool{})
	return out
}()

// NTagOrders is the number of tag orders.
const NTagOrders = 24

var tagNames = [4]string{"font", "b", "i", "u"}
var lineLead = [NLineSpaces]string{"", " ", "", " ", "\t", "", "  "}
var lineTrail = [NLineSpaces]string{"", "", " ", " ", "", "\t", "  "}

// Bytes renders the document.
func (d Doc) Bytes(r Render) []byte {
	var lines []string
	padHead := func(l string) string {
		switch r.HeadPad {
		case 1:
			return l + " "
		case 2:
			return " " + l
		case 3:
			return l + "\t"
		}
		return l
	}
	openOrder := tagPerms[r.TagOrder%NTagOrders]
	endOrder := [4]int{openOrder[3], openOrder[2], openOrder[1], openOrder[0]}
	if r.CloseSame {
		endOrder = openOrder
	}
	midOrder := endOrder
	if r.TagOrder == 0 && !r.CloseSame {
		midOrder = [4]int{0, 3, 2, 1}
	}
	for k, c := range d {
		if k > 0 {
			for i := 0; i < r.BlankBetw; i++ {
				lines = append(lines, r.BlankForm)
			}
		}
		if il, ok := IndexLine(r.Index[k], k); ok {
			lines = append(lines, padHead(il))
		}
		lines = append(lines, padHead(fmtTime(c.Start, r)+r.Arrow+fmtTime(c.End, r)+r.Coords))
		var open Style
		for li, l := range c.Lines {
			var b strings.Builder
			isOpen := func(t int) bool {
				switch t {
				case 0:
					return open.Color != ""
				case 1:
					return open.B
				case 2:
					return open.I
				}
				return open.U
			}
			closeTag := func(t int) {
				b.WriteString("</" + tag(tagNames[t], r) + ">")
				switch t {
				case 0:
					open.Color = ""
				case 1:
					open.B = false
				case 2:
					open.I = false
				case 3:
					open.U = false
				}
			}
			b.WriteString(lineLead[r.LineSpaces%NLineSpaces])
			if li == 0 {
				switch r.StrayClose {
				case 1:
					b.WriteString("</" + tag("i", r) + ">")
				case 2:
					b.WriteString("</" + tag("font", r) + ">")
				case 3:
					b.WriteString("</" + tag("b", r) + "></" + tag("u", r) + ">")
				}
			}
			for ri, run := range l {
				want := run.Style
				wants := func(t int) bool {
					switch t {
					case 0:
						return want.Color != "" && want.Color == open.Color
					case 1:
						return want.B
					case 2:
						return want.I
					}
					return want.U
				}
				// close what must go
				for _, t := range midOrder {
					if isOpen(t) && !wants(t) {
						closeTag(t)
					}
				}
				// open what is missing
				for _, t := range openOrder {
					if isOpen(t) {
						continue
					}
					switch t {
					case 0:
						if want.Color != "" {
							b.WriteString(openFont(want.Color, r))
							open.Color = want.Color
						}
					case 1:
						if want.B {
							b.WriteString("<" + tag("b", r) + ">")
							open.B = true
						}
					case 2:
						if want.I {
							b.WriteString("<" + tag("i", r) + ">")
							open.I = true
						}
					case 3:
						if want.U {
							b.WriteString("<" + tag("u", r) + ">")
							open.U = true
						}
					}
				}
				if r.PlainFont != 0 && want.Color == "" {
					switch r.PlainFont {
					case 1:
						b.WriteString("<" + tag("font", r) + " face=\"Arial\">")
					case 2:
						b.WriteString("<" + tag("font", r) + " color=\"\">")
					default:
						b.WriteString("<" + tag("font", r) + ">")
					}
					b.WriteString(escape(run.Text, r, true))
					b.WriteString("</" + tag("font", r) + ">")
				} else {
					b.WriteString(escape(run.Text, r, true))
				}
				lastOfCue := li == len(c.Lines)-1 && ri == len(l)-1
				if !r.Lazy || lastOfCue {
					if !(lastOfCue && r.LeaveOpen) {
						for _, t := range endOrder {
							if isOpen(t) {
								closeTag(t)
							}
						}
						open = Style{}
					}
				}
			}
			if li == len(c.Lines)-1 && r.StrayClose == 4 {
				b.WriteString("</" + tag("i", r) + ">")
			}
			b.WriteString(lineTrail[r.LineSpaces%NLineSpaces])
			lines = append(lines, b.String())
		}
	}
	var out strings.Builder
	if r.BOM {
		out.WriteString("\xef\xbb\xbf")
	}
	for i, l := range lines {
		out.WriteString(l)
		if i < len(lines)-1 || r.EOF != 1 {
			out.WriteString(r.EOL)
		}
	}
	for i := 2; i <= r.EOF; i++ {
		out.WriteString(r.BlankForm)
		out.WriteString(r.EOL)
	}
	return []byte(out.String())
}

// ---------- independent decoder ----------

var timingRe = regexp.MustCompile(`^(\d+):(\d\d):(\d\d)[,.](\d{1,3})\s*-->\s*(\d+):(\d\d):(\d\d)[,.](\d{1,3})(\s.*)?$`)

func msOf(h, m, s, f string) int64 {
	hh, _ := strconv.ParseInt(h, 10, 64)
	mm, _ := strconv.ParseInt(m, 10, 64)
	ss, _ := strconv.ParseInt(s, 10, 64)
	for len(f) < 3 {
		f += "0"
	}
	ff, _ := strconv.ParseInt(f, 10, 64)
	return ((hh*60+mm)*60+ss)*1000 + ff
}

func blank(l string) bool { return strings.TrimFunc(l, unicode.IsSpace) == "" }

// Decode parses SubRip bytes: blocks separated by blank lines; a block is an optional cue-number line (any
// non-blank line directly in front of the timing line), the timing line, and the text lines up to the next blank line.
func Decode(b []byte) (Doc, error) {
	s := string(b)
	s = strings.TrimPrefix(s, "\xef\xbb\xbf")
	s = strings.ReplaceAll(s, "\r\n", "\n")
	s = strings.ReplaceAll(s, "\r", "\n")
	lines := strings.Split(s, "\n")
	var d Doc
	i := 0
	for i < len(lines) {
		if blank(lines[i]) {
			i++
			continue
		}
		// block start: optional index then timing
		m := timingRe.FindStringSubmatch(strings.TrimFunc(lines[i], unicode.IsSpace))
		if m == nil {
			i++
			if i >= len(lines) {
				return nil, fmt.Errorf("line %d: cue number %q without a timing line", i, lines[i-1])
			}
			m = timingRe.FindStringSubmatch(strings.TrimFunc(lines[i], unicode.IsSpace))
		}
		if m == nil {
			return nil, fmt.Errorf("line %d: expected a timing line, got %q", i+1, lines[i])
		}
		c := Cue{Start: msOf(m[1], m[2], m[3], m[4]), End: msOf(m[5], m[6], m[7], m[8])}
		i++
		var st Style
		for i < len(lines) && !blank(lines[i]) {
			c.Lines = append(c.Lines, decodeLine(lines[i], &st))
			i++
		}
		d = append(d, c)
	}
	return d, nil
}

var colorRe = regexp.MustCompile(`(?i)color\s*=\s*("([^"]*)"|'([^']*)'|([^\s>]+))`)

func decodeLine(l string, st *Style) Line {
	var out Line
	var txt strings.Builder
	flush := func() {
		if txt.Len() > 0 {
			out = append(out, Run{Text: unescape(txt.String()), Style: *st})
			txt.Reset()
		}
	}
	for i := 0; i < len(l); {
		if l[i] == '<' {
			j := strings.IndexByte(l[i:], '>')
			if j > 0 {
				body := l[i+1 : i+j]
				low := strings.ToLower(strings.TrimSpace(body))
				handled := true
				switch {
				case low == "b":
					flush()
					st.B = true
				case low == "/b":
					flush()
					st.B = false
				case low == "i":
					flush()
					st.I = true
				case low == "/i":
					flush()
					st.I = false
				case low == "u":
					flush()
					st.U = true
				case low == "/u":
					flush()
					st.U = false
				case low == "/font":
					flush()
					st.Color = ""
				case strings.HasPrefix(low, "font"):
					flush()
					if m := colorRe.FindStringSubmatch(body); m != nil {
						st.Color = m[2] + m[3] + m[4]
					}
				default:
					handled = false
				}
				if handled {
					i += j + 1
					continue
				}
			}
		}
		txt.WriteByte(l[i])
		i++
	}
	flush()
	return out
}

func unescape(s string) string {
	var b strings.Builder
	for i := 0; i < len(s); {
		if s[i] == '&' {
			for ent, rep := range map[string]string{"&amp;": "&", "&lt;": "<", "&gt;": ">", "&nbsp;": "\u00a0"} {
				if strings.HasPrefix(s[i:], ent) {
					b.WriteString(rep)
					i += len(ent)
					goto next
				}
			}
		}
		b.WriteByte(s[i])
		i++
	next:
	}
	return b.String()
}

// Grammar checks writer output against the SubRip grammar: optional BOM, blocks of
// index (1..n consecutive), "hh:mm:ss,mmm --> hh:mm:ss,mmm", text lines, separated by one blank line.
var strictTiming = regexp.MustCompile(`^\d{2,}:[0-5]\d:[0-5]\d,\d{3} --> \d{2,}:[0-5]\d:[0-5]\d,\d{3}$`)

func Grammar(b []byte) error {
	s := strings.TrimPrefix(string(b), "\xef\xbb\xbf")
	if strings.Contains(s, "\r") {
		return fmt.Errorf("carriage return in output")
	}
	blocks := strings.Split(strings.TrimRight(s, "\n"), "\n\n")
	for k, blk := range blocks {
		ls := strings.Split(blk, "\n")
		if len(ls) < 2 {
			return fmt.Errorf("block %d too short: %q", k+1, blk)
		}
		if ls[0] != strconv.Itoa(k+1) {
			return fmt.Errorf("block %d: index line is %q", k+1, ls[0])
		}
		if !strictTiming.MatchString(ls[1]) {
			return fmt.Errorf("block %d: timing line %q", k+1, ls[1])
		}
	}
	return nil
}
