// Package srt is the independent SubRip reference: ground-truth model, renderer with every
// syntactic freedom of the property as an explicit parameter, and a decoder written from the
// format description. It shares no code with /repo.
package srt

import (
	"fmt"
	"regexp"
	"strconv"
	"strings"
	"unicode"
)

type Style struct {
	B, I, U bool
	Color   string
}

type Run struct {
	Text string
	Style
}

type Line []Run

type Cue struct {
	Start, End int64 // milliseconds
	Lines      []Line
}

type Doc []Cue

// ---------- denotation ----------

type schar struct {
	r rune
	s Style
}

// Denote renders the document's denotation as a canonical string: per cue start/end (ms) and per
// line the styled characters after trimming the line's outer white space (SubRip does not carry it).
func (d Doc) Denote() string {
	var b strings.Builder
	for _, c := range d {
		fmt.Fprintf(&b, "%d-%d", c.Start, c.End)
		for _, l := range c.Lines {
			var cs []schar
			for _, r := range l {
				for _, ch := range r.Text {
					cs = append(cs, schar{ch, r.Style})
				}
			}
			for len(cs) > 0 && Trimmable(cs[0].r) {
				cs = cs[1:]
			}
			for len(cs) > 0 && Trimmable(cs[len(cs)-1].r) {
				cs = cs[:len(cs)-1]
			}
			b.WriteString("|")
			var cur *Style
			for i := range cs {
				if cur == nil || *cur != cs[i].s {
					cur = &cs[i].s
					fmt.Fprintf(&b, "{b=%v,i=%v,u=%v,c=%q}", cur.B, cur.I, cur.U, cur.Color)
				}
				b.WriteRune(cs[i].r)
			}
		}
		b.WriteString("\n")
	}
	return b.String()
}

// Trimmable: white space that SubRip does not carry at the outer ends of a line. The no-break space is
// NOT trimmable: the property says it survives unchanged (it travels as the &nbsp; entity).
func Trimmable(r rune) bool { return unicode.IsSpace(r) && r != '\u00a0' }

// TrimLine removes trimmable white space at both ends.
func TrimLine(s string) string { return strings.TrimFunc(s, Trimmable) }

// ---------- rendering ----------

type Render struct {
	EOL         string // "\n", "\r\n", "\r"
	BOM         bool
	Index       []int // per cue: 0 k, 1 absent, 2 "abc", 3 "0"
	BlankBetw   int   // 1..3
	EOF         int   // 0 last line terminated; 1 unterminated; 2,3,4: terminated + 1,2,3 blank lines
	Sep         string
	FracDigits  int  // 3,2,1 (used when the instant allows)
	HourDigits  int  // 2,1,3
	Arrow       string
	Coords      string
	Lazy        bool // keep tags open across runs/lines that share them (multi-line tags)
	LeaveOpen   bool // do not close the tags still open at the end of a cue
	UpperTags   bool
	ColorQuote  int // 0 "x", 1 'x', 2 unquoted, 3 among other attributes (face, size)
	LineSpaces  int // 0 none, 1 leading, 2 trailing, 3 both
	NBSPEntity  bool
}

func DefaultRender(ncues int) Render {
	return Render{EOL: "\n", Index: make([]int, ncues), BlankBetw: 1, Sep: ",", FracDigits: 3, HourDigits: 2, Arrow: " --> "}
}

func fmtTime(ms int64, r Render) string {
	h := ms / 3600000
	m := ms / 60000 % 60
	s := ms / 1000 % 60
	f := ms % 1000
	var hs string
	switch {
	case r.HourDigits == 1 && h < 10:
		hs = strconv.FormatInt(h, 10)
	case r.HourDigits == 3 && h < 100:
		hs = fmt.Sprintf("%03d", h)
	default:
		hs = fmt.Sprintf("%02d", h)
	}
	frac := fmt.Sprintf("%03d", f)
	if r.FracDigits == 2 && f%10 == 0 {
		frac = fmt.Sprintf("%02d", f/10)
	}
	if r.FracDigits == 1 && f%100 == 0 {
		frac = fmt.Sprintf("%d", f/100)
	}
	return fmt.Sprintf("%s:%02d:%02d%s%s", hs, m, s, r.Sep, frac)
}

func escape(t string, r Render, edgeSafe bool) string {
	var b strings.Builder
	rs := []rune(t)
	for i, ch := range rs {
		switch ch {
		case '&':
			b.WriteString("&amp;")
		case '<':
			b.WriteString("&lt;")
		case '\u00a0':
			if r.NBSPEntity || i == 0 || i == len(rs)-1 {
				b.WriteString("&nbsp;")
			} else {
				b.WriteRune(ch)
			}
		default:
			b.WriteRune(ch)
		}
	}
	return b.String()
}

func tag(name string, r Render) string {
	if r.UpperTags {
		return strings.ToUpper(name)
	}
	return name
}

func openFont(color string, r Render) string {
	switch r.ColorQuote {
	case 1:
		return "<" + tag("font", r) + " color='" + color + "'>"
	case 2:
		return "<" + tag("font", r) + " color=" + color + ">"
	case 3:
		return "<" + tag("font", r) + " face=\"Arial\" color=\"" + color + "\" size=\"12\">"
	}
	return "<" + tag("font", r) + " color=\"" + color + "\">"
}

// Bytes renders the document.
func (d Doc) Bytes(r Render) []byte {
	var lines []string
	for k, c := range d {
		if k > 0 {
			for i := 0; i < r.BlankBetw; i++ {
				lines = append(lines, "")
			}
		}
		switch r.Index[k] {
		case 0:
			lines = append(lines, strconv.Itoa(k+1))
		case 2:
			lines = append(lines, "abc")
		case 3:
			lines = append(lines, "0")
		}
		lines = append(lines, fmtTime(c.Start, r)+r.Arrow+fmtTime(c.End, r)+r.Coords)
		var open Style
		for li, l := range c.Lines {
			var b strings.Builder
			if r.LineSpaces&1 != 0 {
				b.WriteString(" ")
			}
			for ri, run := range l {
				want := run.Style
				// close what must go
				if open.Color != "" && open.Color != want.Color {
					b.WriteString("</" + tag("font", r) + ">")
					open.Color = ""
				}
				if open.U && !want.U {
					b.WriteString("</" + tag("u", r) + ">")
					open.U = false
				}
				if open.I && !want.I {
					b.WriteString("</" + tag("i", r) + ">")
					open.I = false
				}
				if open.B && !want.B {
					b.WriteString("</" + tag("b", r) + ">")
					open.B = false
				}
				// open what is missing
				if want.Color != "" && open.Color == "" {
					b.WriteString(openFont(want.Color, r))
					open.Color = want.Color
				}
				if want.B && !open.B {
					b.WriteString("<" + tag("b", r) + ">")
					open.B = true
				}
				if want.I && !open.I {
					b.WriteString("<" + tag("i", r) + ">")
					open.I = true
				}
				if want.U && !open.U {
					b.WriteString("<" + tag("u", r) + ">")
					open.U = true
				}
				b.WriteString(escape(run.Text, r, true))
				lastOfCue := li == len(c.Lines)-1 && ri == len(l)-1
				if !r.Lazy || lastOfCue {
					if !(lastOfCue && r.LeaveOpen) {
						if open.U {
							b.WriteString("</" + tag("u", r) + ">")
						}
						if open.I {
							b.WriteString("</" + tag("i", r) + ">")
						}
						if open.B {
							b.WriteString("</" + tag("b", r) + ">")
						}
						if open.Color != "" {
							b.WriteString("</" + tag("font", r) + ">")
						}
						open = Style{}
					}
				}
			}
			if r.LineSpaces&2 != 0 {
				b.WriteString(" ")
			}
			lines = append(lines, b.String())
		}
	}
	var out strings.Builder
	if r.BOM {
		out.WriteString("\xef\xbb\xbf")
	}
	for i, l := range lines {
		out.WriteString(l)
		if i < len(lines)-1 || r.EOF != 1 {
			out.WriteString(r.EOL)
		}
	}
	for i := 2; i <= r.EOF; i++ {
		out.WriteString(r.EOL)
	}
	return []byte(out.String())
}

// ---------- independent decoder (for writer output) ----------

var timingRe = regexp.MustCompile(`^(\d+):(\d\d):(\d\d)[,.](\d{1,3})\s*-->\s*(\d+):(\d\d):(\d\d)[,.](\d{1,3})(\s.*)?$`)
var digitsRe = regexp.MustCompile(`^\d+$`)

func msOf(h, m, s, f string) int64 {
	hh, _ := strconv.ParseInt(h, 10, 64)
	mm, _ := strconv.ParseInt(m, 10, 64)
	ss, _ := strconv.ParseInt(s, 10, 64)
	for len(f) < 3 {
		f += "0"
	}
	ff, _ := strconv.ParseInt(f, 10, 64)
	return ((hh*60+mm)*60+ss)*1000 + ff
}

// Decode parses SubRip bytes. Strict flags grammar violations of what a writer should emit.
func Decode(b []byte) (Doc, error) {
	s := string(b)
	s = strings.TrimPrefix(s, "\xef\xbb\xbf")
	s = strings.ReplaceAll(s, "\r\n", "\n")
	s = strings.ReplaceAll(s, "\r", "\n")
	lines := strings.Split(s, "\n")
	var d Doc
	i := 0
	for i < len(lines) {
		if strings.TrimSpace(lines[i]) == "" {
			i++
			continue
		}
		// block start: optional index then timing
		if digitsRe.MatchString(strings.TrimSpace(lines[i])) && i+1 < len(lines) && timingRe.MatchString(strings.TrimSpace(lines[i+1])) {
			i++
		}
		m := timingRe.FindStringSubmatch(strings.TrimSpace(lines[i]))
		if m == nil {
			return nil, fmt.Errorf("line %d: expected a timing line, got %q", i+1, lines[i])
		}
		c := Cue{Start: msOf(m[1], m[2], m[3], m[4]), End: msOf(m[5], m[6], m[7], m[8])}
		i++
		var st Style
		for i < len(lines) && strings.TrimSpace(lines[i]) != "" {
			c.Lines = append(c.Lines, decodeLine(lines[i], &st))
			i++
		}
		d = append(d, c)
	}
	return d, nil
}

var colorRe = regexp.MustCompile(`(?i)color\s*=\s*("([^"]*)"|'([^']*)'|([^\s>]+))`)

func decodeLine(l string, st *Style) Line {
	var out Line
	var txt strings.Builder
	flush := func() {
		if txt.Len() > 0 {
			out = append(out, Run{Text: unescape(txt.String()), Style: *st})
			txt.Reset()
		}
	}
	for i := 0; i < len(l); {
		if l[i] == '<' {
			j := strings.IndexByte(l[i:], '>')
			if j > 0 {
				body := l[i+1 : i+j]
				low := strings.ToLower(strings.TrimSpace(body))
				handled := true
				switch {
				case low == "b":
					flush()
					st.B = true
				case low == "/b":
					flush()
					st.B = false
				case low == "i":
					flush()
					st.I = true
				case low == "/i":
					flush()
					st.I = false
				case low == "u":
					flush()
					st.U = true
				case low == "/u":
					flush()
					st.U = false
				case low == "/font":
					flush()
					st.Color = ""
				case strings.HasPrefix(low, "font"):
					flush()
					if m := colorRe.FindStringSubmatch(body); m != nil {
						st.Color = m[2] + m[3] + m[4]
					}
				default:
					handled = false
				}
				if handled {
					i += j + 1
					continue
				}
			}
		}
		txt.WriteByte(l[i])
		i++
	}
	flush()
	return out
}

func unescape(s string) string {
	var b strings.Builder
	for i := 0; i < len(s); {
		if s[i] == '&' {
			for ent, rep := range map[string]string{"&amp;": "&", "&lt;": "<", "&gt;": ">", "&nbsp;": "\u00a0"} {
				if strings.HasPrefix(s[i:], ent) {
					b.WriteString(rep)
					i += len(ent)
					goto next
				}
			}
		}
		b.WriteByte(s[i])
		i++
	next:
	}
	return b.String()
}

// Grammar checks writer output against the SubRip grammar: optional BOM, blocks of
// index (1..n consecutive), "hh:mm:ss,mmm --> hh:mm:ss,mmm", text lines, separated by one blank line.
var strictTiming = regexp.MustCompile(`^\d{2,}:[0-5]\d:[0-5]\d,\d{3} --> \d{2,}:[0-5]\d:[0-5]\d,\d{3}$`)

func Grammar(b []byte) error {
	s := strings.TrimPrefix(string(b), "\xef\xbb\xbf")
	if strings.Contains(s, "\r") {
		return fmt.Errorf("carriage return in output")
	}
	blocks := strings.Split(strings.TrimRight(s, "\n"), "\n\n")
	for k, blk := range blocks {
		ls := strings.Split(blk, "\n")
		if len(ls) < 2 {
			return fmt.Errorf("block %d too short: %q", k+1, blk)
		}
		if ls[0] != strconv.Itoa(k+1) {
			return fmt.Errorf("block %d: index line is %q", k+1, ls[0])
		}
		if !strictTiming.MatchString(ls[1]) {
			return fmt.Errorf("block %d: timing line %q", k+1, ls[1])
		}
	}
	return nil
}
