package vtt

import (
	"fmt"
	"regexp"
	"strconv"
	"strings"
)

// ---------- independent decoder (for writer output) ----------

var tsRe = `(?:(\d{2,}):)?([0-5]\d):([0-5]\d)\.(\d{3})`
var timingRe = regexp.MustCompile(`^` + tsRe + `[ \t]+-->[ \t]+` + tsRe + `(?:[ \t]+(.*))?$`)
var stampRe = regexp.MustCompile(`^` + tsRe + `$`)
var digitsRe = regexp.MustCompile(`^\d+$`)

func msOf(h, m, s, f string) int64 {
	var hh int64
	if h != "" {
		hh, _ = strconv.ParseInt(h, 10, 64)
	}
	mm, _ := strconv.ParseInt(m, 10, 64)
	ss, _ := strconv.ParseInt(s, 10, 64)
	ff, _ := strconv.ParseInt(f, 10, 64)
	return ((hh*60+mm)*60+ss)*1000 + ff
}

func isKeyword(l, kw string) bool {
	if !strings.HasPrefix(l, kw) {
		return false
	}
	rest := l[len(kw):]
	return rest == "" || rest[0] == ' ' || rest[0] == '\t'
}

// Info carries the structural facts the property names besides the denotation.
type Info struct {
	CueIDs []string // identifier line of every cue ("" when absent), in file order
}

// Decode parses a WebVTT document. It is strict about structure (signature first, blocks separated by
// blank lines, a cue's region defined earlier in the file) and reports the first problem as an error.
func Decode(b []byte) (Doc, Info, error) {
	var d Doc
	var info Info
	s := string(b)
	s = strings.TrimPrefix(s, "\xef\xbb\xbf")
	s = strings.ReplaceAll(s, "\r\n", "\n")
	s = strings.ReplaceAll(s, "\r", "\n")
	lines := strings.Split(s, "\n")
	if len(lines) == 0 || !isKeyword(lines[0], "WEBVTT") {
		return d, info, fmt.Errorf("line 1: missing WEBVTT signature")
	}
	i := 1
	// header block: up to the first blank line
	for ; i < len(lines) && lines[i] != ""; i++ {
		l := lines[i]
		if strings.Contains(l, "-->") {
			return d, info, fmt.Errorf("line %d: cue timing inside the header block (no blank line after WEBVTT)", i+1)
		}
		if strings.HasPrefix(l, "X-TIMESTAMP-MAP=") {
			m := &TSMap{}
			seen := 0
			for _, part := range strings.Split(strings.TrimPrefix(l, "X-TIMESTAMP-MAP="), ",") {
				kv := strings.SplitN(part, ":", 2)
				if len(kv) != 2 {
					return d, info, fmt.Errorf("line %d: bad timestamp map part %q", i+1, part)
				}
				switch strings.TrimSpace(kv[0]) {
				case "LOCAL":
					mm := stampRe.FindStringSubmatch(strings.TrimSpace(kv[1]))
					if mm == nil {
						return d, info, fmt.Errorf("line %d: bad LOCAL timestamp %q", i+1, kv[1])
					}
					m.Local = msOf(mm[1], mm[2], mm[3], mm[4])
					seen |= 1
				case "MPEGTS":
					v, err := strconv.ParseInt(strings.TrimSpace(kv[1]), 10, 64)
					if err != nil {
						return d, info, fmt.Errorf("line %d: bad MPEGTS %q", i+1, kv[1])
					}
					m.MpegTS = v
					seen |= 2
				}
			}
			if seen != 3 {
				return d, info, fmt.Errorf("line %d: timestamp map lacks LOCAL or MPEGTS", i+1)
			}
			d.TSMap = m
		}
	}
	defined := map[string]bool{}
	var pending []string
	sawCue := false
	for i < len(lines) {
		if lines[i] == "" {
			i++
			continue
		}
		// gather the block
		j := i
		for j < len(lines) && lines[j] != "" {
			j++
		}
		blk := lines[i:j]
		first := i + 1
		i = j
		hasArrow := -1
		for k, l := range blk {
			if strings.Contains(l, "-->") {
				hasArrow = k
				break
			}
		}
		switch {
		case isKeyword(blk[0], "NOTE") && hasArrow != 0:
			if hasArrow > 0 {
				return d, info, fmt.Errorf("line %d: '-->' inside a comment block", first+hasArrow)
			}
			t := strings.TrimSpace(strings.TrimPrefix(blk[0], "NOTE"))
			if t != "" {
				pending = append(pending, t)
			}
			for _, l := range blk[1:] {
				pending = append(pending, strings.TrimSpace(l))
			}
		case isKeyword(blk[0], "STYLE") && hasArrow < 0:
			if sawCue {
				return d, info, fmt.Errorf("line %d: STYLE block after the first cue", first)
			}
			var sb []string
			for _, l := range blk[1:] {
				sb = append(sb, strings.TrimSpace(l))
			}
			d.Styles = append(d.Styles, sb)
		case strings.HasPrefix(blk[0], "Region: ") && hasArrow < 0:
			if sawCue {
				return d, info, fmt.Errorf("line %d: region definition after the first cue", first)
			}
			for k, l := range blk {
				if !strings.HasPrefix(l, "Region: ") {
					return d, info, fmt.Errorf("line %d: unexpected line %q in a region block", first+k, l)
				}
				rg := Region{}
				for _, part := range strings.Fields(strings.TrimPrefix(l, "Region: ")) {
					kv := strings.SplitN(part, "=", 2)
					if len(kv) != 2 {
						return d, info, fmt.Errorf("line %d: bad region setting %q", first+k, part)
					}
					switch kv[0] {
					case "id":
						rg.ID = kv[1]
					case "width":
						rg.Width = kv[1]
					case "lines":
						n, err := strconv.Atoi(kv[1])
						if err != nil {
							return d, info, fmt.Errorf("line %d: bad region lines %q", first+k, kv[1])
						}
						rg.Lines = n
					case "regionanchor":
						rg.RegionAnchor = kv[1]
					case "viewportanchor":
						rg.ViewportAnchor = kv[1]
					case "scroll":
						rg.Scroll = kv[1]
					default:
						return d, info, fmt.Errorf("line %d: unknown region setting %q", first+k, kv[0])
					}
				}
				if rg.ID == "" {
					return d, info, fmt.Errorf("line %d: region without id", first+k)
				}
				if defined[rg.ID] {
					return d, info, fmt.Errorf("line %d: region %q defined twice", first+k, rg.ID)
				}
				defined[rg.ID] = true
				d.Regions = append(d.Regions, rg)
			}
		default:
			// cue: optional identifier line, timing line, payload
			if hasArrow < 0 {
				return d, info, fmt.Errorf("line %d: block %q is neither a comment, style, region nor cue", first, blk[0])
			}
			if hasArrow > 1 {
				return d, info, fmt.Errorf("line %d: cue timing line is preceded by %d lines", first+hasArrow, hasArrow)
			}
			c := Cue{}
			id := ""
			if hasArrow == 1 {
				id = blk[0]
				if digitsRe.MatchString(id) {
					c.ID, _ = strconv.Atoi(id)
				}
			}
			info.CueIDs = append(info.CueIDs, id)
			m := timingRe.FindStringSubmatch(blk[hasArrow])
			if m == nil {
				return d, info, fmt.Errorf("line %d: malformed cue timing line %q", first+hasArrow, blk[hasArrow])
			}
			c.Start = msOf(m[1], m[2], m[3], m[4])
			c.End = msOf(m[5], m[6], m[7], m[8])
			seen := map[string]bool{}
			for _, st := range strings.Fields(m[9]) {
				kv := strings.SplitN(st, ":", 2)
				if len(kv) != 2 || kv[0] == "" || kv[1] == "" {
					return d, info, fmt.Errorf("line %d: malformed cue setting %q", first+hasArrow, st)
				}
				if seen[kv[0]] {
					return d, info, fmt.Errorf("line %d: cue setting %q given twice", first+hasArrow, kv[0])
				}
				seen[kv[0]] = true
				switch kv[0] {
				case "align":
					c.Settings.Align = kv[1]
				case "line":
					c.Settings.Line = kv[1]
				case "position":
					c.Settings.Position = kv[1]
				case "size":
					c.Settings.Size = kv[1]
				case "vertical":
					c.Settings.Vertical = kv[1]
				case "region":
					if !defined[kv[1]] {
						return d, info, fmt.Errorf("line %d: region %q is not defined earlier in the file", first+hasArrow, kv[1])
					}
					c.Region = kv[1]
				default:
					return d, info, fmt.Errorf("line %d: unknown cue setting %q", first+hasArrow, kv[0])
				}
			}
			c.Comments = pending
			pending = nil
			var stack []Tag
			for k, l := range blk[hasArrow+1:] {
				if strings.Contains(l, "-->") {
					return d, info, fmt.Errorf("line %d: '-->' inside a cue payload (missing blank line between cues?)", first+hasArrow+1+k)
				}
				ln, err := decodeLine(l, &stack)
				if err != nil {
					return d, info, fmt.Errorf("line %d: %v", first+hasArrow+1+k, err)
				}
				c.Lines = append(c.Lines, ln)
			}
			d.Cues = append(d.Cues, c)
			sawCue = true
		}
	}
	return d, info, nil
}

var entities = []struct{ ent, rep string }{{"&amp;", "&"}, {"&lt;", "<"}, {"&gt;", ">"}, {"&nbsp;", "\u00a0"}, {"&lrm;", "\u200e"}, {"&rlm;", "\u200f"}}

var numRefRe = regexp.MustCompile(`^&#(?:[xX]([0-9a-fA-F]+)|([0-9]+));`)

func unescape(s string) string {
	var b strings.Builder
outer:
	for i := 0; i < len(s); {
		if s[i] == '&' {
			for _, e := range entities {
				if strings.HasPrefix(s[i:], e.ent) {
					b.WriteString(e.rep)
					i += len(e.ent)
					continue outer
				}
			}
		}
		b.WriteByte(s[i])
		i++
	}
	return b.String()
}

// decodeLine tokenises one payload line following the cue text tokenizer of the specification: text,
// start tags (name[.class]*[ annotation]), end tags (close the innermost open span if its name matches,
// otherwise ignored), timestamp tags. The voice span is reported as the line's voice (the library's data
// model has one voice per line) and is not part of the tag stack.
func decodeLine(l string, stack *[]Tag) (Line, error) {
	var out Line
	var txt strings.Builder
	var ts int64
	voiceSeen := false
	flush := func() {
		if txt.Len() > 0 {
			out.Runs = append(out.Runs, Run{Text: unescape(txt.String()), Tags: append([]Tag{}, (*stack)...), TS: ts})
			ts = 0
			txt.Reset()
		}
	}
	for i := 0; i < len(l); {
		if l[i] != '<' {
			txt.WriteByte(l[i])
			i++
			continue
		}
		j := strings.IndexByte(l[i:], '>')
		if j < 0 {
			return out, fmt.Errorf("unterminated tag in %q", l)
		}
		body := l[i+1 : i+j]
		i += j + 1
		switch {
		case body == "":
			return out, fmt.Errorf("empty tag in %q", l)
		case body[0] >= '0' && body[0] <= '9':
			m := stampRe.FindStringSubmatch(body)
			if m == nil {
				return out, fmt.Errorf("malformed timestamp tag <%s>", body)
			}
			flush()
			ts = msOf(m[1], m[2], m[3], m[4])
		case body[0] == '/':
			flush()
			name := strings.TrimSpace(body[1:])
			if name == "v" {
				break
			}
			if n := len(*stack); n > 0 && (*stack)[n-1].Name == name {
				*stack = (*stack)[:n-1]
			}
		default:
			flush()
			head := body
			ann := ""
			if k := strings.IndexAny(body, " \t"); k >= 0 {
				head = body[:k]
				// annotation: character references replaced, outer white space dropped, inner runs of white space = one space
				ann = unescape(strings.Join(strings.FieldsFunc(body[k+1:], func(r rune) bool { return r == ' ' || r == '\t' || r == '\f' }), " "))
			}
			parts := strings.Split(head, ".")
			t := Tag{Name: parts[0], Annotation: ann}
			for _, c := range parts[1:] {
				if c != "" {
					t.Classes = append(t.Classes, c)
				}
			}
			if t.Name == "" {
				return out, fmt.Errorf("start tag without a name <%s>", body)
			}
			if t.Name == "v" {
				if !voiceSeen {
					out.Voice = ann
					voiceSeen = true
				}
				break
			}
			*stack = append(*stack, t)
		}
	}
	flush()
	if ts != 0 {
		return out, fmt.Errorf("inline timestamp with no text after it in %q", l)
	}
	return out, nil
}
