// Package vtt is the independent WebVTT reference: ground-truth model, renderer with every syntactic
// freedom of property C02 as an explicit parameter, denotation, and a decoder written from the format
// description (W3C WebVTT + the legacy single-line "Region:" syntax + the HLS X-TIMESTAMP-MAP header).
// It shares no code with /repo.
package vtt

import (
	"fmt"
	"sort"
	"strconv"
	"strings"
	"unicode"
)

// ---------- model ----------

type Tag struct {
	Name       string
	Classes    []string `json:",omitempty"`
	Annotation string   `json:",omitempty"`
}

func (t Tag) String() string {
	s := t.Name
	if len(t.Classes) > 0 {
		s += "." + strings.Join(t.Classes, ".")
	}
	if t.Annotation != "" {
		s += " " + t.Annotation
	}
	return s
}

func (t Tag) Equal(o Tag) bool { return tagsKey([]Tag{t}) == tagsKey([]Tag{o}) }

type Run struct {
	Text string
	Tags []Tag `json:",omitempty"` // outermost first
	TS   int64 `json:",omitempty"` // inline timestamp (ms) directly before this run; 0 = none
}

type Line struct {
	Voice string `json:",omitempty"`
	Runs  []Run
}

type Settings struct {
	Align, Line, Position, Size, Vertical string `json:",omitempty"`
}

type Cue struct {
	Start, End int64    // milliseconds
	ID         int      `json:",omitempty"` // numeric identifier, 0 = absent
	Comments   []string `json:",omitempty"` // NOTE lines attached to this cue (flat list)
	Settings   Settings
	Region     string `json:",omitempty"` // id of the region the cue refers to
	Lines      []Line
}

type Region struct {
	ID                                   string
	Width                                string `json:",omitempty"`
	Lines                                int    `json:",omitempty"`
	RegionAnchor, ViewportAnchor, Scroll string `json:",omitempty"`
}

type TSMap struct {
	Local  int64 // ms
	MpegTS int64
}

type Doc struct {
	TSMap   *TSMap     `json:",omitempty"`
	Styles  [][]string `json:",omitempty"` // STYLE blocks, each a list of lines
	Regions []Region   `json:",omitempty"`
	Cues    []Cue
}

// ---------- denotation ----------

type CueDen struct {
	Head  string
	Lines []string
}

type Den struct {
	Head []string
	Cues []CueDen
}

func (d Den) String() string {
	var b strings.Builder
	for _, h := range d.Head {
		b.WriteString(h)
		b.WriteString("\n")
	}
	for _, c := range d.Cues {
		b.WriteString(c.Head)
		for _, l := range c.Lines {
			b.WriteString("\n  ")
			b.WriteString(l)
		}
		b.WriteString("\n")
	}
	return b.String()
}

func tagsKey(ts []Tag) string {
	p := make([]string, len(ts))
	for i, t := range ts {
		p[i] = t.Name
		if len(t.Classes) > 0 {
			p[i] += fmt.Sprintf(" classes=%q", t.Classes)
		}
		if t.Annotation != "" {
			p[i] += fmt.Sprintf(" annotation=%q", t.Annotation)
		}
	}
	return strings.Join(p, ";")
}

type schar struct {
	r    rune
	tags string
	ts   int64
}

// DenoteLine: voice, then the styled characters of the line after trimming its outer white space (the
// format does not carry it), each change of tag stack announced as {outer;...;inner}, each inline
// timestamp as <@ms> in front of the first character it applies to.
func DenoteLine(l Line) string {
	var cs []schar
	for _, r := range l.Runs {
		tk := tagsKey(r.Tags)
		first := true
		for _, ch := range r.Text {
			c := schar{r: ch, tags: tk}
			if first {
				c.ts = r.TS
				first = false
			}
			cs = append(cs, c)
		}
	}
	for len(cs) > 0 && unicode.IsSpace(cs[0].r) {
		if len(cs) > 1 && cs[1].ts == 0 {
			cs[1].ts = cs[0].ts
		}
		cs = cs[1:]
	}
	for len(cs) > 0 && unicode.IsSpace(cs[len(cs)-1].r) {
		cs = cs[:len(cs)-1]
	}
	var b strings.Builder
	fmt.Fprintf(&b, "voice=%q|", l.Voice)
	cur := ""
	for i, c := range cs {
		if c.ts != 0 {
			fmt.Fprintf(&b, "<@%d>", c.ts)
		}
		if i == 0 || c.tags != cur {
			cur = c.tags
			b.WriteString("{" + cur + "}")
		}
		b.WriteRune(c.r)
	}
	return b.String()
}

// OffsetNS is what the timestamp map denotes: mpegts/90000 s - local, in nanoseconds.
func (t TSMap) OffsetNS() int64 { return t.MpegTS*1000000000/90000 - t.Local*1000000 }

func (d Doc) Denote() Den {
	var o Den
	if d.TSMap != nil {
		o.Head = append(o.Head, fmt.Sprintf("tsmap local=%d mpegts=%d offset_ns=%d", d.TSMap.Local, d.TSMap.MpegTS, d.TSMap.OffsetNS()))
	}
	for _, blk := range d.Styles {
		for _, l := range blk {
			o.Head = append(o.Head, "style "+strings.TrimSpace(l))
		}
	}
	rs := append([]Region{}, d.Regions...)
	sort.SliceStable(rs, func(i, j int) bool { return rs[i].ID < rs[j].ID })
	for _, r := range rs {
		o.Head = append(o.Head, fmt.Sprintf("region id=%q width=%q lines=%d regionanchor=%q viewportanchor=%q scroll=%q", r.ID, r.Width, r.Lines, r.RegionAnchor, r.ViewportAnchor, r.Scroll))
	}
	for _, c := range d.Cues {
		// outer white space of a comment line is not carried by the format ("NOTE" + one or more blanks + text)
		cms := make([]string, len(c.Comments))
		for i, cm := range c.Comments {
			cms[i] = strings.TrimSpace(cm)
		}
		cd := CueDen{Head: fmt.Sprintf("cue %d-%d id=%d comments=%q region=%q align=%q line=%q position=%q size=%q vertical=%q",
			c.Start, c.End, c.ID, cms, c.Region, c.Settings.Align, c.Settings.Line, c.Settings.Position, c.Settings.Size, c.Settings.Vertical)}
		if len(c.Comments) == 0 {
			cd.Head = strings.Replace(cd.Head, fmt.Sprintf("comments=%q", cms), "comments=[]", 1)
		}
		for _, l := range c.Lines {
			cd.Lines = append(cd.Lines, DenoteLine(l))
		}
		o.Cues = append(o.Cues, cd)
	}
	return o
}

// ---------- rendering ----------

type Render struct {
	EOL          string // "\n", "\r\n", "\r"
	BOM          bool
	ShortTime    bool   // mm:ss.ttt when hours are zero
	HeaderText   string // after WEBVTT on the first line
	Blank        int    // blank lines between blocks (1,2)
	SettingsSep  string // " " or "\t" before each cue setting
	SettingsRev  bool   // settings in reverse order (region first)
	EOF          int    // 0 last line terminated; 1 unterminated; 2,3: terminated + 1,2 blank lines
	Lazy         bool   // keep tags open across runs and lines of a cue while they are shared
	LeaveOpen    bool   // tags still open at the end of a cue are not closed
	TSBeforeTags bool   // inline timestamp in front of the start tags it is followed by (else directly before the text)
	CloseVoice   bool   // </v> at the end of a voiced line (tags then never cross a line boundary)
	VoiceClass   bool   // <v.loud Name>
	NoteBlocks   bool   // every comment line its own NOTE block (else one block with continuation lines)
	RegionBlocks bool   // every Region: line its own block (else consecutive lines)
	MapRev       bool   // X-TIMESTAMP-MAP=MPEGTS:..,LOCAL:.. (else LOCAL first)
	IDPad        int    // leading zeros in front of a numeric cue identifier (still the same decimal number)
	ShortOnly    int    // with ShortTime off: mm:ss.ttt for 1 the cue start only, 2 the cue end only, 3 inline timestamps only
	HourPad      int    // extra leading zeros in front of an hours field (hours are "two or more digits")
	ArrowSep     string // white space on both sides of "-->" (" ", "\t", "  "); "" = " "
	NoteSep      string // between NOTE and the comment text (" ", "\t", "  "); "\n": NOTE alone on its line, text on the following lines; "" = " "
	EmptyNote    bool   // an extra comment block consisting of the bare word NOTE in front of each cue (denotes no comment line)
	VoiceForm    int    // 0 <v Name>, 1 <v\tName>, 2 <v  Name>, 3 <v Name >
	Entity       int    // 0 &amp; &lt; only; 1 also &gt; &nbsp; &lrm; &rlm;; 2 decimal / hexadecimal character references for & < >
	HeaderLines  bool   // legacy metadata header lines (Kind:, Language:) directly after the signature line
	IDText       string // non-numeric identifier line given to cues without a numeric identifier ("" = no identifier line)
	RegionRev    bool   // region settings in reverse order (id last)
}

func DefaultRender() Render {
	return Render{EOL: "\n", Blank: 1, SettingsSep: " ", ArrowSep: " ", NoteSep: " "}
}

func FmtTime(ms int64, short bool) string { return fmtTime(ms, short, 0) }

func fmtTime(ms int64, short bool, hourPad int) string {
	h := ms / 3600000
	m := ms / 60000 % 60
	s := ms / 1000 % 60
	f := ms % 1000
	if short && h == 0 {
		return fmt.Sprintf("%02d:%02d.%03d", m, s, f)
	}
	return fmt.Sprintf("%s%02d:%02d:%02d.%03d", strings.Repeat("0", hourPad), h, m, s, f)
}

// which timestamps of a rendering are written without hours (when the hours are zero)
const (
	tStart = iota + 1
	tEnd
	tInline
	tLocal
)

func (r Render) time(ms int64, kind int) string {
	return fmtTime(ms, r.ShortTime || (r.ShortOnly == kind && kind != tLocal), r.HourPad)
}

func Escape(t string) string { return EscapeAs(t, 0) }

// EscapeAs writes cue text (or an annotation) with one of the equivalent escapings.
func EscapeAs(t string, style int) string {
	var b strings.Builder
	for _, ch := range t {
		switch {
		case ch == '&' && style == 2:
			b.WriteString("&#38;")
		case ch == '<' && style == 2:
			b.WriteString("&#60;")
		case ch == '>' && style == 2:
			b.WriteString("&#x3E;")
		case ch == '&':
			b.WriteString("&amp;")
		case ch == '<':
			b.WriteString("&lt;")
		case ch == '>' && style == 1:
			b.WriteString("&gt;")
		case ch == '\u00a0' && style == 1:
			b.WriteString("&nbsp;")
		case ch == '\u200e' && style == 1:
			b.WriteString("&lrm;")
		case ch == '\u200f' && style == 1:
			b.WriteString("&rlm;")
		default:
			b.WriteRune(ch)
		}
	}
	return b.String()
}

// EscapeAnnotation: '&' and '>' cannot stand for themselves in an annotation.
func EscapeAnnotation(t string, style int) string {
	if style == 2 {
		return strings.NewReplacer("&", "&#38;", ">", "&#x3E;").Replace(t)
	}
	return strings.NewReplacer("&", "&amp;", ">", "&gt;").Replace(t)
}

func commonPrefix(a, b []Tag) int {
	n := 0
	for n < len(a) && n < len(b) && a[n].Equal(b[n]) {
		n++
	}
	return n
}

// TSDirectlyBeforeTag reports, per line and run, whether this rendering puts the run's inline timestamp
// immediately in front of a start tag (used only to classify a failure, never to judge one).
func (d Doc) TSDirectlyBeforeTag(r Render) [][][]bool {
	out := make([][][]bool, len(d.Cues))
	for k, c := range d.Cues {
		var open []Tag
		out[k] = make([][]bool, len(c.Lines))
		for li, l := range c.Lines {
			out[k][li] = make([]bool, len(l.Runs))
			for ri, run := range l.Runs {
				cp := commonPrefix(open, run.Tags)
				opens := len(run.Tags) - cp
				out[k][li][ri] = run.TS != 0 && r.TSBeforeTags && opens > 0
				open = run.Tags
				if !r.Lazy || (r.CloseVoice && ri == len(l.Runs)-1) {
					open = nil
				}
			}
		}
	}
	return out
}

// Bytes renders the document.
func (d Doc) Bytes(r Render) []byte {
	var lines []string
	blank := func() {
		for i := 0; i < r.Blank; i++ {
			lines = append(lines, "")
		}
	}
	lines = append(lines, "WEBVTT"+r.HeaderText)
	if r.HeaderLines {
		lines = append(lines, "Kind: captions", "Language: en")
	}
	if d.TSMap != nil {
		l := "LOCAL:" + r.time(d.TSMap.Local, tLocal)
		m := "MPEGTS:" + strconv.FormatInt(d.TSMap.MpegTS, 10)
		if r.MapRev {
			lines = append(lines, "X-TIMESTAMP-MAP="+m+","+l)
		} else {
			lines = append(lines, "X-TIMESTAMP-MAP="+l+","+m)
		}
	}
	for _, blk := range d.Styles {
		blank()
		lines = append(lines, "STYLE")
		lines = append(lines, blk...)
	}
	for i, rg := range d.Regions {
		if i == 0 || r.RegionBlocks {
			blank()
		}
		rs := []string{"id=" + rg.ID}
		if rg.Width != "" {
			rs = append(rs, "width="+rg.Width)
		}
		if rg.Lines != 0 {
			rs = append(rs, "lines="+strconv.Itoa(rg.Lines))
		}
		if rg.RegionAnchor != "" {
			rs = append(rs, "regionanchor="+rg.RegionAnchor)
		}
		if rg.ViewportAnchor != "" {
			rs = append(rs, "viewportanchor="+rg.ViewportAnchor)
		}
		if rg.Scroll != "" {
			rs = append(rs, "scroll="+rg.Scroll)
		}
		if r.RegionRev {
			for i, j := 0, len(rs)-1; i < j; i, j = i+1, j-1 {
				rs[i], rs[j] = rs[j], rs[i]
			}
		}
		lines = append(lines, "Region: "+strings.Join(rs, " "))
	}
	noteSep, arrowSep := r.NoteSep, r.ArrowSep
	if noteSep == "" {
		noteSep = " "
	}
	if arrowSep == "" {
		arrowSep = " "
	}
	note := func(cm string) {
		if noteSep == "\n" {
			lines = append(lines, "NOTE", cm)
		} else {
			lines = append(lines, "NOTE"+noteSep+cm)
		}
	}
	for _, c := range d.Cues {
		if r.EmptyNote {
			blank()
			lines = append(lines, "NOTE")
		}
		if len(c.Comments) > 0 {
			if r.NoteBlocks {
				for _, cm := range c.Comments {
					blank()
					note(cm)
				}
			} else {
				blank()
				for i, cm := range c.Comments {
					if i == 0 {
						note(cm)
					} else {
						lines = append(lines, cm)
					}
				}
			}
		}
		blank()
		if c.ID != 0 {
			lines = append(lines, strings.Repeat("0", r.IDPad)+strconv.Itoa(c.ID))
		} else if r.IDText != "" {
			lines = append(lines, r.IDText)
		}
		t := r.time(c.Start, tStart) + arrowSep + "-->" + arrowSep + r.time(c.End, tEnd)
		var set []string
		add := func(k, v string) {
			if v != "" {
				set = append(set, k+":"+v)
			}
		}
		add("align", c.Settings.Align)
		add("line", c.Settings.Line)
		add("position", c.Settings.Position)
		add("size", c.Settings.Size)
		add("vertical", c.Settings.Vertical)
		add("region", c.Region)
		if r.SettingsRev {
			for i, j := 0, len(set)-1; i < j; i, j = i+1, j-1 {
				set[i], set[j] = set[j], set[i]
			}
		}
		for _, s := range set {
			t += r.SettingsSep + s
		}
		lines = append(lines, t)
		var open []Tag
		for li, l := range c.Lines {
			var b strings.Builder
			if l.Voice != "" {
				v := "<v"
				if r.VoiceClass {
					v += ".loud"
				}
				v += []string{" ", "\t", "  ", " "}[r.VoiceForm&3] + EscapeAnnotation(l.Voice, r.Entity)
				if r.VoiceForm&3 == 3 {
					v += " "
				}
				b.WriteString(v + ">")
			}
			for ri, run := range l.Runs {
				cp := commonPrefix(open, run.Tags)
				for i := len(open) - 1; i >= cp; i-- {
					b.WriteString("</" + open[i].Name + ">")
				}
				open = open[:cp]
				if run.TS != 0 && r.TSBeforeTags {
					b.WriteString("<" + r.time(run.TS, tInline) + ">")
				}
				for i := cp; i < len(run.Tags); i++ {
					b.WriteString("<" + run.Tags[i].String() + ">")
				}
				open = append([]Tag{}, run.Tags...)
				if run.TS != 0 && !r.TSBeforeTags {
					b.WriteString("<" + r.time(run.TS, tInline) + ">")
				}
				b.WriteString(EscapeAs(run.Text, r.Entity))
				lastOfLine := ri == len(l.Runs)-1
				lastOfCue := li == len(c.Lines)-1 && lastOfLine
				closeAll := !r.Lazy || (r.CloseVoice && lastOfLine) || (lastOfCue && !r.LeaveOpen)
				if lastOfCue && r.LeaveOpen && !(r.CloseVoice && l.Voice != "") {
					closeAll = false
				}
				if closeAll {
					for i := len(open) - 1; i >= 0; i-- {
						b.WriteString("</" + open[i].Name + ">")
					}
					open = nil
				}
			}
			if l.Voice != "" && r.CloseVoice {
				b.WriteString("</v>")
			}
			lines = append(lines, b.String())
		}
	}
	var out strings.Builder
	if r.BOM {
		out.WriteString("\xef\xbb\xbf")
	}
	for i, l := range lines {
		out.WriteString(l)
		if i < len(lines)-1 || r.EOF != 1 {
			out.WriteString(r.EOL)
		}
	}
	for i := 2; i <= r.EOF; i++ {
		out.WriteString(r.EOL)
	}
	return []byte(out.String())
}
