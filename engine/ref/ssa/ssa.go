// Package ssa is the independent SubStation Alpha (v4 / v4+) reference: ground-truth model,
// renderer with every syntactic freedom of property C04 as an explicit parameter, and a
// Format-driven decoder written from the SSA/ASS format description. It shares no code with /repo.
package ssa

import (
	"fmt"
	"sort"
	"strconv"
	"strings"
)

// ---------- model ----------

type Color struct{ A, B, G, R uint8 }

// Value is one typed style attribute value.
type Value struct {
	Kind string  `json:"k"` // "b" bool, "c" colour, "f" float, "i" int, "s" string
	B    bool    `json:"b,omitempty"`
	C    Color   `json:"c"`
	F    float64 `json:"f,omitempty"`
	I    int     `json:"i,omitempty"`
	S    string  `json:"s,omitempty"`
}

func (v Value) String() string {
	switch v.Kind {
	case "b":
		return fmt.Sprintf("b:%v", v.B)
	case "c":
		return fmt.Sprintf("c:%02x%02x%02x%02x", v.C.A, v.C.B, v.C.G, v.C.R)
	case "f":
		return "f:" + strconv.FormatFloat(v.F, 'g', -1, 64)
	case "i":
		return "i:" + strconv.Itoa(v.I)
	}
	return "s:" + strconv.Quote(v.S)
}

// AttrKind: the 23 style attributes (canonical v4+ spelling; TertiaryColour is the v4 name of
// OutlineColour) and their types.
var AttrKind = map[string]string{
	"Alignment": "i", "AlphaLevel": "f", "Angle": "f", "BackColour": "c", "Bold": "b", "BorderStyle": "i",
	"Encoding": "i", "Fontname": "s", "Fontsize": "f", "Italic": "b", "MarginL": "i", "MarginR": "i",
	"MarginV": "i", "Outline": "f", "OutlineColour": "c", "PrimaryColour": "c", "ScaleX": "f", "ScaleY": "f",
	"SecondaryColour": "c", "Shadow": "f", "Spacing": "f", "Strikeout": "b", "Underline": "b",
}

// V4Attrs / V4PlusAttrs: the style columns of the two versions in their customary order.
var V4Attrs = []string{"Fontname", "Fontsize", "PrimaryColour", "SecondaryColour", "OutlineColour", "BackColour", "Bold", "Italic",
	"BorderStyle", "Outline", "Shadow", "Alignment", "MarginL", "MarginR", "MarginV", "AlphaLevel", "Encoding"}
var V4PlusAttrs = []string{"Fontname", "Fontsize", "PrimaryColour", "SecondaryColour", "OutlineColour", "BackColour", "Bold", "Italic",
	"Underline", "Strikeout", "ScaleX", "ScaleY", "Spacing", "Angle", "BorderStyle", "Outline", "Shadow", "Alignment",
	"MarginL", "MarginR", "MarginV", "Encoding"}

type Style struct {
	Name  string
	Attrs map[string]Value
}

// Run is an optional override block ("{...}", braces included) followed by text.
type Run struct{ Block, Text string }

type Event struct {
	Start, End                int64 // centiseconds
	Layer                     int
	Marked                    bool
	MarginL, MarginR, MarginV int
	Effect, Name, Style       string
	Lines                     [][]Run
}

// Info is the script info section. Str: the 11 text fields, Int: PlayResX/PlayResY/PlayDepth.
type Info struct {
	Str      map[string]string
	Int      map[string]int
	Timer    *float64
	Comments []string
}

var InfoStrFields = []string{"Title", "Original Script", "Original Translation", "Original Editing", "Original Timing",
	"Synch Point", "Script Updated By", "Update Details", "ScriptType", "Collisions", "WrapStyle"}
var InfoIntFields = []string{"PlayResX", "PlayResY", "PlayDepth"}

// Doc is a whole document. All styles carry exactly the attributes listed in StyleAttrs (an SSA
// style table has one Format line). EventCols lists which of the optional event columns exist
// ("LM" = Layer under v4+, Marked under v4; "Style", "Name", "MarginL", "MarginR", "MarginV",
// "Effect"); Start, End and Text always exist. Fields of absent columns are zero.
type Doc struct {
	V4Plus     bool
	Info       Info
	StyleAttrs []string
	Styles     []Style
	EventCols  []string
	Events     []Event
}

var AllEventCols = []string{"LM", "Style", "Name", "MarginL", "MarginR", "MarginV", "Effect"}

func (d Doc) hasCol(c string) bool {
	for _, x := range d.EventCols {
		if x == c {
			return true
		}
	}
	return false
}

// ---------- denotation ----------

// ResolveStyle: the style an event's Style cell refers to ("" if none): "*Default" is "Default";
// an exact name wins, otherwise a leading '*' is dropped.
func ResolveStyle(ref string, styles []Style) string {
	if ref == "" {
		return ""
	}
	if ref == "*Default" {
		ref = "Default"
	}
	for _, s := range styles {
		if s.Name == ref {
			return s.Name
		}
	}
	t := strings.TrimPrefix(ref, "*")
	for _, s := range styles {
		if s.Name == t {
			return s.Name
		}
	}
	return ""
}

// LineTokens flattens a line's runs to a segmentation-independent token string: B<block> for every
// override block, T<text> for every maximal non-empty stretch of text; white space at the two outer
// ends of the line (where the line starts / ends with text) is not part of the denotation.
func LineTokens(l []Run) string {
	type tok struct {
		block bool
		s     string
	}
	var ts []tok
	for _, r := range l {
		if r.Block != "" {
			ts = append(ts, tok{true, r.Block})
		}
		if r.Text != "" {
			if n := len(ts); n > 0 && !ts[n-1].block {
				ts[n-1].s += r.Text
			} else {
				ts = append(ts, tok{false, r.Text})
			}
		}
	}
	if len(ts) > 0 && !ts[0].block {
		ts[0].s = strings.TrimLeft(ts[0].s, " \t")
	}
	if n := len(ts); n > 0 && !ts[n-1].block {
		ts[n-1].s = strings.TrimRight(ts[n-1].s, " \t")
	}
	var b strings.Builder
	for _, t := range ts {
		if t.block {
			b.WriteString("B<" + t.s + ">")
		} else if t.s != "" {
			b.WriteString("T<" + t.s + ">")
		}
	}
	return b.String()
}

// DenoteInfo is the canonical form of the script info.
func (i Info) Denote() string {
	var parts []string
	for k, v := range i.Str {
		if v != "" {
			parts = append(parts, k+"="+strconv.Quote(v))
		}
	}
	for k, v := range i.Int {
		parts = append(parts, k+"="+strconv.Itoa(v))
	}
	if i.Timer != nil {
		parts = append(parts, "Timer="+strconv.FormatFloat(*i.Timer, 'g', -1, 64))
	}
	sort.Strings(parts)
	s := "info{" + strings.Join(parts, ";") + "}"
	for _, c := range i.Comments {
		s += ";" + strconv.Quote(c)
	}
	return s
}

// DenoteStyles is the canonical form of the style table (order-insensitive).
func (d Doc) DenoteStyles() string {
	var rows []string
	for _, s := range d.Styles {
		var as []string
		for k, v := range s.Attrs {
			if v.Kind == "s" && v.S == "" {
				continue
			}
			as = append(as, k+"="+v.String())
		}
		sort.Strings(as)
		rows = append(rows, "style "+strconv.Quote(s.Name)+"{"+strings.Join(as, ",")+"}")
	}
	sort.Strings(rows)
	return strings.Join(rows, "\n")
}

// DenoteEvents is the canonical form of the Dialogue events.
func (d Doc) DenoteEvents() string {
	var b strings.Builder
	for _, e := range d.Events {
		fmt.Fprintf(&b, "ev %d-%d L=%d M=%v m=%d,%d,%d fx=%q name=%q style=%q", e.Start, e.End, e.Layer, e.Marked,
			e.MarginL, e.MarginR, e.MarginV, e.Effect, e.Name, ResolveStyle(e.Style, d.Styles))
		for _, l := range e.Lines {
			b.WriteString(" |" + LineTokens(l))
		}
		b.WriteString("\n")
	}
	return b.String()
}

func (d Doc) Denote() string {
	return d.Info.Denote() + "\n" + d.DenoteStyles() + "\n" + d.DenoteEvents()
}

// ---------- rendering ----------

type Render struct {
	EOL          string // "\n", "\r\n", "\r"
	BOM          bool
	NoFinalEOL   bool
	SecCase      int  // 0 customary, 1 lower, 2 upper
	PlusSuffix   bool // v4+: "[V4 Styles+]" instead of "[V4+ Styles]"
	Blank        int  // blank lines between sections
	InfoReverse  bool
	CommentTight bool // ";c" instead of "; c"
	CommentsLast bool
	TimerForm    int    // 0 "100" / "99,5"; 1 "100.0000"; 2 "100,0000"
	StyleOrder   []int  // permutation of [Name]+StyleAttrs
	EventOrder   []int  // permutation of the non-Text event columns
	FormatSep    string // ", " or ","
	StrikeOutCap bool   // spell the column "StrikeOut" (as Aegisub/ffmpeg do)
	Hours2       bool   // HH:MM:SS.cc instead of H:MM:SS.cc
	RadixOf      map[string]int `json:",omitempty"` // per style column: a radix of its own (cells of one document written in different notations)
	Radix        int    // 0 &H%08X, 1 &H%08x, 2 &H%06X when alpha is 0, 3 signed decimal, 4 unsigned decimal, 5 &H%X (no leading zeros)
	MarginPad    bool   // 4-digit margins ("0000")
	FloatForm    int    // 0 shortest, 1 three decimals, 2 at least one decimal ("20.0")
	StylePad     bool   // 4-digit style margins ("0010"; non-negative values only)
	KVSep        int    // between "Key:" and its content: 0 one blank, 1 nothing, 2 two blanks
	TrailBlank   int    // after every non-empty line: 0 nothing, 1 a blank, 2 a tab
	Breaks       int    // 0 \N, 1 \n, 2 alternating
	JunkInfo     int
	JunkStyles   int
	JunkEvents   int
	Unknown      int
	SecOrder     int // 0 styles section, then events; 1 events before the styles; 2 one style before the events, the others in a second styles section after them
	SecondAttrs  int // with SecOrder 2: the second styles section declares its own Format with Name + the first SecondAttrs attribute columns only (0 = the same Format); its styles then have those attributes only
}

func identity(n int) []int {
	o := make([]int, n)
	for i := range o {
		o[i] = i
	}
	return o
}

func DefaultRender(d Doc) Render {
	return Render{EOL: "\n", Blank: 1, FormatSep: ", ", StyleOrder: identity(1 + len(d.StyleAttrs)), EventOrder: identity(len(d.eventCols()))}
}

// eventCols: the non-Text columns in their customary order.
func (d Doc) eventCols() []string {
	var o []string
	if d.hasCol("LM") {
		o = append(o, "LM")
	}
	o = append(o, "Start", "End")
	for _, c := range []string{"Style", "Name", "MarginL", "MarginR", "MarginV", "Effect"} {
		if d.hasCol(c) {
			o = append(o, c)
		}
	}
	return o
}

// NEventCols is the number of non-Text event columns of the document.
func (d Doc) NEventCols() int { return len(d.eventCols()) }

func fmtTime(cs int64, two bool) string {
	h := cs / 360000
	if two || h >= 10 {
		return fmt.Sprintf("%02d:%02d:%02d.%02d", h, cs/6000%60, cs/100%60, cs%100)
	}
	return fmt.Sprintf("%d:%02d:%02d.%02d", h, cs/6000%60, cs/100%60, cs%100)
}

func fmtColor(c Color, radix int) string {
	v := uint32(c.A)<<24 | uint32(c.B)<<16 | uint32(c.G)<<8 | uint32(c.R)
	switch radix {
	case 1:
		return fmt.Sprintf("&H%08x", v)
	case 2:
		if c.A == 0 {
			return fmt.Sprintf("&H%06X", v)
		}
	case 3:
		return strconv.FormatInt(int64(int32(v)), 10)
	case 4:
		return strconv.FormatUint(uint64(v), 10)
	case 5:
		return fmt.Sprintf("&H%X", v)
	}
	return fmt.Sprintf("&H%08X", v)
}

func fmtFloat(f float64, form int) string {
	switch form {
	case 1:
		return strconv.FormatFloat(f, 'f', 3, 64)
	case 2:
		if s := strconv.FormatFloat(f, 'f', -1, 64); !strings.Contains(s, ".") {
			return s + ".0"
		}
	}
	return strconv.FormatFloat(f, 'f', -1, 64)
}

func fmtMargin(m int, pad bool) string {
	if pad && m >= 0 {
		return fmt.Sprintf("%04d", m)
	}
	return strconv.Itoa(m)
}

func (d Doc) styleColName(a string, r Render) string {
	if a == "OutlineColour" && !d.V4Plus {
		return "TertiaryColour"
	}
	if a == "Strikeout" && r.StrikeOutCap {
		return "StrikeOut"
	}
	return a
}

func (d Doc) eventColName(c string) string {
	if c == "LM" {
		if d.V4Plus {
			return "Layer"
		}
		return "Marked"
	}
	return c
}

// kv joins a line's key and content with the rendering's separator.
func kv(key, content string, r Render) string {
	switch r.KVSep {
	case 1:
		return key + ":" + content
	case 2:
		return key + ":  " + content
	}
	return key + ": " + content
}

func secName(s string, r Render) string {
	switch r.SecCase {
	case 1:
		s = strings.ToLower(s)
	case 2:
		s = strings.ToUpper(s)
	}
	return "[" + s + "]"
}

func textOf(e Event, r Render) string {
	var b strings.Builder
	for i, l := range e.Lines {
		if i > 0 {
			switch {
			case r.Breaks == 1, r.Breaks == 2 && i%2 == 0:
				b.WriteString(`\n`)
			default:
				b.WriteString(`\N`)
			}
		}
		for _, run := range l {
			b.WriteString(run.Block)
			b.WriteString(run.Text)
		}
	}
	return b.String()
}

func (d Doc) eventRow(kind string, e Event, cols []string, r Render) string {
	var cells []string
	for _, k := range r.EventOrder {
		switch cols[k] {
		case "LM":
			if d.V4Plus {
				cells = append(cells, strconv.Itoa(e.Layer))
			} else if e.Marked {
				cells = append(cells, "Marked=1")
			} else {
				cells = append(cells, "Marked=0")
			}
		case "Start":
			cells = append(cells, fmtTime(e.Start, r.Hours2))
		case "End":
			cells = append(cells, fmtTime(e.End, r.Hours2))
		case "Style":
			cells = append(cells, e.Style)
		case "Name":
			cells = append(cells, e.Name)
		case "MarginL":
			cells = append(cells, fmtMargin(e.MarginL, r.MarginPad))
		case "MarginR":
			cells = append(cells, fmtMargin(e.MarginR, r.MarginPad))
		case "MarginV":
			cells = append(cells, fmtMargin(e.MarginV, r.MarginPad))
		case "Effect":
			cells = append(cells, e.Effect)
		}
	}
	cells = append(cells, textOf(e, r))
	return kv(kind, strings.Join(cells, ","), r)
}

// Bytes renders the document.
func (d Doc) Bytes(r Render) []byte {
	var lines []string
	blank := func() {
		for i := 0; i < r.Blank; i++ {
			lines = append(lines, "")
		}
	}
	ghost := Event{Start: 0, End: 900, Lines: [][]Run{{{Text: "ghost, not a cue"}}}}
	if len(d.Styles) > 0 {
		ghost.Style = d.Styles[0].Name
	}
	ecols := d.eventCols()
	unknown := func(which int) {
		if r.Unknown != which {
			return
		}
		switch which {
		case 1:
			lines = append(lines, "[Fonts]", "fontname: arial_0.ttf", "M3%SEG-?3TT5!4D]&4E%.1P``")
		default:
			lines = append(lines, "[Aegisub Project Garbage]", "Format: Ghost, Text", "Style: ghost,1",
				d.eventRow("Dialogue", ghost, ecols, r), "Title: not the title", "; not a script comment")
		}
		blank()
	}
	unknown(4)
	// --- script info
	lines = append(lines, secName("Script Info", r))
	var cl []string
	for _, c := range d.Info.Comments {
		if r.CommentTight {
			cl = append(cl, ";"+c)
		} else {
			cl = append(cl, "; "+c)
		}
	}
	var fl []string
	for _, k := range InfoStrFields {
		if v := d.Info.Str[k]; v != "" {
			fl = append(fl, kv(k, v, r))
		}
	}
	for _, k := range InfoIntFields {
		if v, ok := d.Info.Int[k]; ok {
			fl = append(fl, kv(k, strconv.Itoa(v), r))
		}
	}
	if d.Info.Timer != nil {
		var t string
		switch r.TimerForm {
		case 1:
			t = strconv.FormatFloat(*d.Info.Timer, 'f', 4, 64)
		case 2:
			t = strings.Replace(strconv.FormatFloat(*d.Info.Timer, 'f', 4, 64), ".", ",", 1)
		default:
			t = strings.Replace(strconv.FormatFloat(*d.Info.Timer, 'f', -1, 64), ".", ",", 1)
		}
		fl = append(fl, kv("Timer", t, r))
	}
	if r.InfoReverse {
		for i, j := 0, len(fl)-1; i < j; i, j = i+1, j-1 {
			fl[i], fl[j] = fl[j], fl[i]
		}
	}
	switch r.JunkInfo {
	case 1:
		fl = append([]string{"Not understood line"}, fl...)
	case 2:
		fl = append(fl, "Video Aspect Ratio: 0")
	case 3:
		fl = append([]string{"Audio URI: a:b.wav"}, fl...)
	case 4:
		fl = append(fl, "Not understood line")
	case 5:
		// a known text field with empty content denotes the same as its absence
		for _, k := range InfoStrFields {
			if d.Info.Str[k] == "" && k != "ScriptType" {
				fl = append([]string{kv(k, "", r)}, fl...)
				break
			}
		}
	}
	if r.CommentsLast {
		lines = append(append(lines, fl...), cl...)
	} else {
		lines = append(append(lines, cl...), fl...)
	}
	blank()
	unknown(1)
	// --- styles
	emitStyles := func(styles []Style, nattrs int) {
		if len(styles) == 0 {
			return
		}
		switch {
		case d.V4Plus && r.PlusSuffix:
			lines = append(lines, secName("V4 Styles+", r))
		case d.V4Plus:
			lines = append(lines, secName("V4+ Styles", r))
		default:
			lines = append(lines, secName("V4 Styles", r))
		}
		if r.JunkStyles == 3 {
			lines = append(lines, "Not understood line")
		}
		cols := append([]string{"Name"}, d.StyleAttrs...)
		order := r.StyleOrder
		if nattrs > 0 && nattrs < len(d.StyleAttrs) {
			order = nil
			for _, k := range r.StyleOrder {
				if k <= nattrs {
					order = append(order, k)
				}
			}
		}
		var names []string
		for _, k := range order {
			names = append(names, d.styleColName(cols[k], r))
		}
		lines = append(lines, kv("Format", strings.Join(names, r.FormatSep), r))
		if r.JunkStyles == 1 {
			lines = append(lines, "Not understood line")
		}
		for _, s := range styles {
			var cells []string
			for _, k := range order {
				if cols[k] == "Name" {
					cells = append(cells, s.Name)
					continue
				}
				v := s.Attrs[cols[k]]
				switch v.Kind {
				case "b":
					if v.B {
						cells = append(cells, "-1")
					} else {
						cells = append(cells, "0")
					}
				case "c":
					rx := r.Radix
					if o, ok := r.RadixOf[cols[k]]; ok {
						rx = o
					}
					cells = append(cells, fmtColor(v.C, rx))
				case "f":
					cells = append(cells, fmtFloat(v.F, r.FloatForm))
				case "i":
					if strings.HasPrefix(cols[k], "Margin") {
						cells = append(cells, fmtMargin(v.I, r.StylePad))
					} else {
						cells = append(cells, strconv.Itoa(v.I))
					}
				default:
					cells = append(cells, v.S)
				}
			}
			lines = append(lines, kv("Style", strings.Join(cells, ","), r))
		}
		if r.JunkStyles == 2 {
			lines = append(lines, "Not understood line")
		}
		blank()
	}
	// --- events
	emitEvents := func() {
		lines = append(lines, secName("Events", r))
		if r.JunkEvents == 8 {
			lines = append(lines, "Not understood line")
		}
		var names []string
		for _, k := range r.EventOrder {
			names = append(names, d.eventColName(ecols[k]))
		}
		names = append(names, "Text")
		lines = append(lines, kv("Format", strings.Join(names, r.FormatSep), r))
		switch r.JunkEvents {
		case 1:
			lines = append(lines, "Not understood line")
		case 2:
			lines = append(lines, d.eventRow("Comment", ghost, ecols, r))
		}
		for k, e := range d.Events {
			lines = append(lines, d.eventRow("Dialogue", e, ecols, r))
			if k == 0 {
				switch r.JunkEvents {
				case 3:
					lines = append(lines, d.eventRow("Picture", ghost, ecols, r))
				case 5:
					lines = append(lines, d.eventRow("Movie", ghost, ecols, r))
				}
			}
		}
		switch r.JunkEvents {
		case 4:
			lines = append(lines, d.eventRow("Sound", ghost, ecols, r))
		case 6:
			lines = append(lines, d.eventRow("Command", ghost, ecols, r))
		case 7:
			lines = append(lines, "Not understood line")
		}
	}
	switch {
	case r.SecOrder == 1 && len(d.Styles) > 0:
		unknown(2)
		emitEvents()
		blank()
		emitStyles(d.Styles, 0)
	case r.SecOrder == 2 && len(d.Styles) >= 2:
		emitStyles(d.Styles[:1], 0)
		unknown(2)
		emitEvents()
		blank()
		emitStyles(d.Styles[1:], r.SecondAttrs)
	default:
		emitStyles(d.Styles, 0)
		unknown(2)
		emitEvents()
	}
	if r.SecOrder != 0 {
		for len(lines) > 0 && lines[len(lines)-1] == "" {
			lines = lines[:len(lines)-1]
		}
	}
	if r.Unknown == 3 {
		blank()
		unknown(3)
		for len(lines) > 0 && lines[len(lines)-1] == "" {
			lines = lines[:len(lines)-1]
		}
	}
	var out strings.Builder
	if r.BOM {
		out.WriteString("\xef\xbb\xbf")
	}
	for i, l := range lines {
		out.WriteString(l)
		if l != "" {
			switch r.TrailBlank {
			case 1:
				out.WriteString(" ")
			case 2:
				out.WriteString("\t")
			}
		}
		if i < len(lines)-1 || !r.NoFinalEOL {
			out.WriteString(r.EOL)
		}
	}
	return []byte(out.String())
}
