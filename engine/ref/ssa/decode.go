package ssa

import (
	"fmt"
	"strconv"
	"strings"
)

// Decode is the independent Format-driven decoder (for writer output). It is written from the
// SSA/ASS format description: sections "[Script Info]", "[V4 Styles]" / "[V4+ Styles]", "[Events]";
// "Format:" lines name the columns of the rows that follow; style booleans are -1 (true) / 0
// (false); colours are decimal or &H hexadecimal AABBGGRR; the Text column is last and keeps its
// commas; "\N" and "\n" break lines; "{...}" are override blocks.
func Decode(b []byte) (Doc, error) {
	var d Doc
	d.Info.Str = map[string]string{}
	d.Info.Int = map[string]int{}
	s := strings.TrimPrefix(string(b), "\xef\xbb\xbf")
	s = strings.ReplaceAll(s, "\r\n", "\n")
	s = strings.ReplaceAll(s, "\r", "\n")
	section := ""
	var scols, ecols []string
	seenEventFormat := false
	for n, raw := range strings.Split(s, "\n") {
		line := strings.TrimSpace(raw)
		if line == "" {
			continue
		}
		if line[0] == '[' && line[len(line)-1] == ']' {
			switch strings.ToLower(line[1 : len(line)-1]) {
			case "script info":
				section = "info"
			case "v4 styles":
				section = "styles"
			case "v4+ styles", "v4 styles+":
				section = "styles"
			case "events":
				section = "events"
			default:
				section = "unknown"
			}
			continue
		}
		if section == "unknown" || section == "" {
			continue
		}
		if line[0] == ';' {
			if section == "info" {
				d.Info.Comments = append(d.Info.Comments, strings.TrimSpace(line[1:]))
			}
			continue
		}
		colon := strings.IndexByte(line, ':')
		if colon <= 0 {
			continue // unintelligible line
		}
		key, val := strings.TrimSpace(line[:colon]), strings.TrimSpace(line[colon+1:])
		switch section {
		case "info":
			if err := decodeInfo(&d.Info, key, val); err != nil {
				return d, fmt.Errorf("line %d: %v", n+1, err)
			}
		case "styles":
			switch key {
			case "Format":
				scols = splitFormat(val)
				d.StyleAttrs = nil
				for _, c := range scols {
					if a := canonAttr(c); a != "" {
						d.StyleAttrs = append(d.StyleAttrs, a)
					}
				}
			case "Style":
				if scols == nil {
					return d, fmt.Errorf("line %d: Style row before any Format line", n+1)
				}
				cells := strings.Split(val, ",")
				if len(cells) != len(scols) {
					return d, fmt.Errorf("line %d: style row has %d cells, Format has %d columns", n+1, len(cells), len(scols))
				}
				st := Style{Attrs: map[string]Value{}}
				for i, c := range scols {
					if strings.EqualFold(c, "Name") {
						st.Name = cells[i]
						continue
					}
					a := canonAttr(c)
					if a == "" {
						continue // unknown column: ignored
					}
					if cells[i] == "" && AttrKind[a] != "s" {
						continue // an empty cell of a typed column: the style does not set this attribute
					}
					v, err := decodeValue(AttrKind[a], cells[i])
					if err != nil {
						return d, fmt.Errorf("line %d: column %s: %v", n+1, c, err)
					}
					st.Attrs[a] = v
				}
				d.Styles = append(d.Styles, st)
			}
		case "events":
			if key == "Format" {
				ecols = splitFormat(val)
				seenEventFormat = true
				d.EventCols = nil
				for _, c := range ecols {
					switch c {
					case "Layer":
						d.V4Plus = true
						d.EventCols = append(d.EventCols, "LM")
					case "Marked":
						d.EventCols = append(d.EventCols, "LM")
					case "Style", "Name", "MarginL", "MarginR", "MarginV", "Effect":
						d.EventCols = append(d.EventCols, c)
					}
				}
				if len(ecols) == 0 || ecols[len(ecols)-1] != "Text" {
					return d, fmt.Errorf("line %d: Text is not the last event column", n+1)
				}
				continue
			}
			if key != "Dialogue" {
				continue // Comment, Picture, Sound, Movie, Command
			}
			if !seenEventFormat {
				return d, fmt.Errorf("line %d: Dialogue row before any Format line", n+1)
			}
			cells := strings.SplitN(val, ",", len(ecols))
			if len(cells) != len(ecols) {
				return d, fmt.Errorf("line %d: event row has %d cells, Format has %d columns", n+1, len(cells), len(ecols))
			}
			var e Event
			for i, c := range ecols {
				cell := cells[i]
				var err error
				switch c {
				case "Layer":
					e.Layer, err = strconv.Atoi(cell)
				case "Marked":
					switch cell {
					case "Marked=1":
						e.Marked = true
					case "Marked=0":
					default:
						err = fmt.Errorf("bad Marked cell %q", cell)
					}
				case "Start":
					e.Start, err = decodeTime(cell)
				case "End":
					e.End, err = decodeTime(cell)
				case "Style":
					e.Style = cell
				case "Name":
					e.Name = cell
				case "MarginL":
					e.MarginL, err = strconv.Atoi(cell)
				case "MarginR":
					e.MarginR, err = strconv.Atoi(cell)
				case "MarginV":
					e.MarginV, err = strconv.Atoi(cell)
				case "Effect":
					e.Effect = cell
				case "Text":
					e.Lines = DecodeText(cell)
				}
				if err != nil {
					return d, fmt.Errorf("line %d: column %s: %v", n+1, c, err)
				}
			}
			d.Events = append(d.Events, e)
		}
	}
	return d, nil
}

func splitFormat(v string) []string {
	var o []string
	for _, c := range strings.Split(v, ",") {
		o = append(o, strings.TrimSpace(c))
	}
	return o
}

// canonAttr maps a style column name to the canonical attribute name ("" if it is not one of the
// 23 attributes). Column names are compared without regard to case (as renderers do).
func canonAttr(c string) string {
	if strings.EqualFold(c, "TertiaryColour") {
		return "OutlineColour"
	}
	for a := range AttrKind {
		if strings.EqualFold(a, c) {
			return a
		}
	}
	return ""
}

func decodeValue(kind, cell string) (Value, error) {
	v := Value{Kind: kind}
	switch kind {
	case "b":
		switch cell {
		case "-1":
			v.B = true
		case "0":
		default:
			// the format knows -1 and 0 only; anything else is not "true"
			v.B = false
		}
	case "c":
		var u uint64
		if len(cell) >= 2 && (cell[:2] == "&H" || cell[:2] == "&h") {
			x, err := strconv.ParseUint(strings.TrimSuffix(cell[2:], "&"), 16, 64)
			if err != nil {
				return v, err
			}
			u = x
		} else {
			x, err := strconv.ParseInt(cell, 10, 64)
			if err != nil {
				return v, err
			}
			u = uint64(x)
		}
		v.C = Color{A: uint8(u >> 24), B: uint8(u >> 16), G: uint8(u >> 8), R: uint8(u)}
	case "f":
		f, err := strconv.ParseFloat(cell, 64)
		if err != nil {
			return v, err
		}
		v.F = f
	case "i":
		i, err := strconv.Atoi(cell)
		if err != nil {
			return v, err
		}
		v.I = i
	default:
		v.S = cell
	}
	return v, nil
}

func decodeInfo(i *Info, key, val string) error {
	for _, k := range InfoStrFields {
		if k == key {
			i.Str[k] = val
			return nil
		}
	}
	for _, k := range InfoIntFields {
		if k == key {
			n, err := strconv.Atoi(val)
			if err != nil {
				return fmt.Errorf("%s: %v", key, err)
			}
			i.Int[k] = n
			return nil
		}
	}
	if key == "Timer" {
		f, err := strconv.ParseFloat(strings.Replace(val, ",", ".", 1), 64)
		if err != nil {
			return fmt.Errorf("Timer: %v", err)
		}
		i.Timer = &f
	}
	return nil
}

// decodeTime parses H:MM:SS.cc (any number of hour digits) into centiseconds.
func decodeTime(s string) (int64, error) {
	p := strings.Split(s, ":")
	if len(p) != 3 {
		return 0, fmt.Errorf("bad time %q", s)
	}
	q := strings.Split(p[2], ".")
	if len(q) != 2 || len(q[1]) != 2 || len(p[1]) != 2 || len(q[0]) != 2 {
		return 0, fmt.Errorf("bad time %q", s)
	}
	var n [4]int64
	for i, t := range []string{p[0], p[1], q[0], q[1]} {
		v, err := strconv.ParseUint(t, 10, 32)
		if err != nil {
			return 0, fmt.Errorf("bad time %q", s)
		}
		n[i] = int64(v)
	}
	return ((n[0]*60+n[1])*60+n[2])*100 + n[3], nil
}

// DecodeText splits an event text into lines at \N / \n and each line into runs at {...} blocks.
func DecodeText(t string) [][]Run {
	var lines [][]Run
	var cur []Run
	run := Run{}
	have := false
	flush := func() {
		if have {
			cur = append(cur, run)
		}
		run, have = Run{}, false
	}
	for i := 0; i < len(t); {
		switch {
		case t[i] == '\\' && i+1 < len(t) && (t[i+1] == 'N' || t[i+1] == 'n'):
			flush()
			lines = append(lines, cur)
			cur = nil
			i += 2
		case t[i] == '{':
			j := strings.IndexByte(t[i:], '}')
			if j < 2 { // no closing brace, or "{}" : literal text
				run.Text += "{"
				have = true
				i++
				continue
			}
			flush()
			run.Block = t[i : i+j+1]
			have = true
			i += j + 1
		default:
			run.Text += t[i : i+1]
			have = true
			i++
		}
	}
	flush()
	lines = append(lines, cur)
	return lines
}
