// Package stl is the independent EBU Tech 3264 (EBU STL) reference: ground-truth model, encoder with the
// syntactic freedoms of the format as explicit parameters, and a decoder, both written from the format
// description (GSI block of 1024 bytes with fixed field offsets, TTI blocks of 128 bytes, the Latin code
// table of Tech 3264 Appendix 2 = ISO 6937/2 with floating diacritics sent BEFORE the base letter).
// It shares no code with /repo and uses the standard library only.
package stl

import (
	"fmt"
	"strconv"
	"strings"
)

// ---------------------------------------------------------------------------------------------
// Character code table 00 (Latin). 0 = position not assigned in the EBU table.
//
// Columns 2..7 are ISO 646 IRV-1983 (so 2/4 is the currency sign, the dollar lives at A/4), columns
// A..B and D..F are the ISO 6937/2 supplementary set, column C holds the 13 non-spacing diacritics.
// Positions not used here: 7/15, C/0, C/9, C/12, D/8..D/11, E/5. A/6 and A/8 are the unambiguous positions
// of the number sign and the currency sign in ISO 6937/2 (duplicates of 2/3 and 2/4): the decoder accepts
// them, the encoder never sends them (Codes() does not list them).
// ---------------------------------------------------------------------------------------------

var latin [256]rune
var decodeOnly = map[byte]rune{0xA6: '#', 0xA8: 0x00A4}
var diacritic = map[byte]rune{}
var revLatin = map[rune]byte{}
var revDiacritic = map[rune]byte{}

func init() {
	for c := 0x20; c <= 0x7e; c++ {
		latin[c] = rune(c)
	}
	latin[0x24] = 0x00A4 // currency sign
	hi := map[byte]rune{
		0xA0: 0x00A0, 0xA1: 0x00A1, 0xA2: 0x00A2, 0xA3: 0x00A3, 0xA4: '$', 0xA5: 0x00A5, 0xA7: 0x00A7,
		0xA9: 0x2018, 0xAA: 0x201C, 0xAB: 0x00AB, 0xAC: 0x2190, 0xAD: 0x2191, 0xAE: 0x2192, 0xAF: 0x2193,
		0xB0: 0x00B0, 0xB1: 0x00B1, 0xB2: 0x00B2, 0xB3: 0x00B3, 0xB4: 0x00D7, 0xB5: 0x00B5, 0xB6: 0x00B6, 0xB7: 0x00B7,
		0xB8: 0x00F7, 0xB9: 0x2019, 0xBA: 0x201D, 0xBB: 0x00BB, 0xBC: 0x00BC, 0xBD: 0x00BD, 0xBE: 0x00BE, 0xBF: 0x00BF,
		0xD0: 0x2015, 0xD1: 0x00B9, 0xD2: 0x00AE, 0xD3: 0x00A9, 0xD4: 0x2122, 0xD5: 0x266A, 0xD6: 0x00AC, 0xD7: 0x00A6,
		0xDC: 0x215B, 0xDD: 0x215C, 0xDE: 0x215D, 0xDF: 0x215E,
		0xE0: 0x2126, 0xE1: 0x00C6, 0xE2: 0x0110, 0xE3: 0x00AA, 0xE4: 0x0126, 0xE6: 0x0132, 0xE7: 0x013F,
		0xE8: 0x0141, 0xE9: 0x00D8, 0xEA: 0x0152, 0xEB: 0x00BA, 0xEC: 0x00DE, 0xED: 0x0166, 0xEE: 0x014A, 0xEF: 0x0149,
		0xF0: 0x0138, 0xF1: 0x00E6, 0xF2: 0x0111, 0xF3: 0x00F0, 0xF4: 0x0127, 0xF5: 0x0131, 0xF6: 0x0133, 0xF7: 0x0140,
		0xF8: 0x0142, 0xF9: 0x00F8, 0xFA: 0x0153, 0xFB: 0x00DF, 0xFC: 0x00FE, 0xFD: 0x0167, 0xFE: 0x014B, 0xFF: 0x00AD,
	}
	for c, r := range hi {
		latin[c] = r
	}
	dia := map[byte]rune{
		0xC1: 0x0300, // grave
		0xC2: 0x0301, // acute
		0xC3: 0x0302, // circumflex
		0xC4: 0x0303, // tilde
		0xC5: 0x0304, // macron
		0xC6: 0x0306, // breve
		0xC7: 0x0307, // dot above
		0xC8: 0x0308, // diaeresis
		0xCA: 0x030A, // ring
		0xCB: 0x0327, // cedilla
		0xCD: 0x030B, // double acute
		0xCE: 0x0328, // ogonek
		0xCF: 0x030C, // caron
	}
	for c, r := range dia {
		diacritic[c] = r
		revDiacritic[r] = c
	}
	for c := 0; c < 256; c++ {
		if latin[c] != 0 {
			revLatin[latin[c]] = byte(c)
		}
	}
	// canonical duplicate of the ohm sign
	revLatin[0x03A9] = 0xE0
}

// Codes returns every assigned spacing code of the Latin table in ascending order.
func Codes() []byte {
	var o []byte
	for c := 0; c < 256; c++ {
		if latin[c] != 0 {
			o = append(o, byte(c))
		}
	}
	return o
}

// DiacriticCodes returns the 13 floating-diacritic codes in ascending order.
func DiacriticCodes() []byte {
	var o []byte
	for c := 0xC0; c <= 0xCF; c++ {
		if _, ok := diacritic[byte(c)]; ok {
			o = append(o, byte(c))
		}
	}
	return o
}

// RuneOf gives the character of a spacing code (0 if unassigned); MarkOf the combining mark of a diacritic code.
func RuneOf(c byte) rune { return latin[c] }
func MarkOf(c byte) rune { return diacritic[c] }

// ---------------------------------------------------------------------------------------------
// Model
// ---------------------------------------------------------------------------------------------

type Style struct{ I, U, B bool }

// Run: Text is a sequence of characters of the Latin table, each optionally followed by ONE of the 13
// combining marks (decomposed form).
type Run struct {
	Text string
	Style
}

type Row []Run

type TC struct{ H, M, S, F int }

// Block is one TTI block. UserData blocks (EBN = FEh) carry no cue.
type Block struct {
	UserData bool
	SGN, SN  int
	CS, CF   int
	// HasEBN: the block carries extension block number EBN (00h..EFh: a block that an extension block follows)
	// instead of FFh (last or only block of its subtitle). Every non-user-data block is a cue of its own here.
	HasEBN  bool `json:",omitempty"`
	EBN     int  `json:",omitempty"`
	In, Out TC
	VP, JC  int
	Rows    []Row
	// Raw, when not nil, is the text field content sent verbatim (filler is appended); Rows then holds what
	// it denotes according to DecodeRow (set by the generator).
	Raw []byte `json:",omitempty"`
}

type GSI struct {
	CPN                              string // code page number, 3 characters
	FPS                              int    // 25 | 30 (DFC STL25.01 | STL30.01)
	DSC                              string // " " | "0" | "1" | "2"
	LC                               string // language code, 2 hex characters
	OPT, OET, TPT, TET, TN, TCD, SLR string
	CD, RD                           string // YYMMDD
	RN, MNC, MNR                     int
	TCS                              string
	TCP                              TC
	TND, DSN                         int
	CO, PUB, EN, ECD                 string
	UDA                              string
	TNG                              int    `json:",omitempty"` // total number of subtitle groups; 0 = 1
	Spare                            string `json:",omitempty"` // the 75 spare bytes (373..447); blank by default
}

type Doc struct {
	GSI    GSI
	Blocks []Block
}

// Cues returns the non-user-data blocks.
func (d Doc) Cues() []Block {
	var o []Block
	for _, b := range d.Blocks {
		if !b.UserData {
			o = append(o, b)
		}
	}
	return o
}

// Frames returns the timecode in frames at fps.
func (t TC) Frames(fps int) int64 {
	return (int64(t.H)*3600+int64(t.M)*60+int64(t.S))*int64(fps) + int64(t.F)
}

func (t TC) String() string { return fmt.Sprintf("%02d:%02d:%02d:%02d", t.H, t.M, t.S, t.F) }

// ---------------------------------------------------------------------------------------------
// Denotation of text
// ---------------------------------------------------------------------------------------------

// RowDenote is the canonical form of a row: the runs, each stripped of outer blanks, empty ones dropped,
// flattened to styled characters. Blanks next to a control code are not part of the denotation (the
// control codes of a teletext row are themselves spacing, and the property does not pin them).
// norm is applied to each run's text (canonical normalisation supplied by the caller; nil = identity).
func RowDenote(r Row, norm func(string) string) string {
	var b strings.Builder
	var cur *Style
	for i := range r {
		t := strings.Trim(r[i].Text, " ")
		if t == "" {
			continue
		}
		if norm != nil {
			t = norm(t)
		}
		if cur == nil || *cur != r[i].Style {
			cur = &r[i].Style
			fmt.Fprintf(&b, "{i=%v,u=%v,b=%v}", cur.I, cur.U, cur.B)
		}
		b.WriteString(t)
	}
	return b.String()
}

// RowsDenote joins the denotations of the non-empty rows.
func RowsDenote(rows []Row, norm func(string) string) string {
	var o []string
	for _, r := range rows {
		if s := RowDenote(r, norm); s != "" {
			o = append(o, s)
		}
	}
	return strings.Join(o, "⏎")
}

// ---------------------------------------------------------------------------------------------
// Encoder
// ---------------------------------------------------------------------------------------------

// Render lists the freedoms the encoder has when laying out a text field.
type Render struct {
	// Box (teletext display standards only): how a row is boxed.
	//  0 "0B 0B text 0A 0A"   1 "0B text" (box left open)   2 "0D 0B 0B text 0A 0A" (double height first)
	//  3 "07 0B 0B text 0A 0A" (alpha white first)   4 "20 20 0B 0B text 0A 0A" (indent outside the box)
	//  5 "0B 0B text 0A 0A" followed by unboxed characters "zz" (not displayed, not part of the cue)
	//  6 "0B text 0A" (single start box, single end box)
	Box int
	// Colour (teletext only): k > 0 puts alpha-colour code k-1 directly after the start box.
	Colour int
	// StyleForm: 0 codes at transitions only; 1 all three attributes switched off explicitly at the start
	// of each row; 2 every on-code sent twice.
	StyleForm int
	// RunBlank: a blank (20h) is sent between two runs, before the codes that separate them.
	RunBlank bool
	// TrailingBreak: a line break (8Ah) follows the last row.
	TrailingBreak bool
	// Indent: number of blanks sent at the start of every row (inside the box).
	Indent int
	// RowFill: number of unused-space codes (8Fh) sent after every row, before the line break: some encoders
	// pad rows inside the text field; 8Fh is never text.
	RowFill int
	// LeadingBreak: a line break precedes the first row (an empty first row).
	LeadingBreak bool `json:",omitempty"`
	// EmptyRow: two line breaks instead of one between rows (an empty row in between).
	EmptyRow bool `json:",omitempty"`
	// Trail: number of blanks sent at the end of every row (inside the box, after the attribute-off codes).
	Trail int `json:",omitempty"`
	// NoFinalOff: attributes still on at the end of the LAST row are not switched off (the text field ends there).
	NoFinalOff bool `json:",omitempty"`
	// Ctl (teletext only): a spacing control code 01h..1Fh other than the box codes (alpha colours, flash, steady,
	// normal/double height/width/size, mosaic colours, conceal, ... - none of them is text or changes
	// italic/underline/boxing), placed according to CtlPos: 0 directly after the start box, 1 before the start
	// box, 2 after the text, before the end box, 3 between the first and the second run of a row (where a blank is
	// outside the denotation anyway). 0 = none.
	Ctl    int `json:",omitempty"`
	CtlPos int `json:",omitempty"`
}

func pad(s string, n int) []byte {
	b := make([]byte, n)
	for i := range b {
		b[i] = ' '
	}
	copy(b, s)
	return b
}

func num(v, n int) []byte { return []byte(fmt.Sprintf("%0*d", n, v)) }

func tcText(t TC) []byte { return []byte(fmt.Sprintf("%02d%02d%02d%02d", t.H, t.M, t.S, t.F)) }

func dfcOf(fps int) string {
	switch fps {
	case 25:
		return "STL25.01"
	case 30:
		return "STL30.01"
	}
	return ""
}

// EncodeText encodes model text: every character by the table, a combining mark as its diacritic code
// placed before the code of the character it follows.
func EncodeText(t string) ([]byte, error) {
	var o []byte
	for _, r := range t {
		if c, ok := revDiacritic[r]; ok {
			if len(o) == 0 {
				return nil, fmt.Errorf("combining mark U+%04X without a base character", r)
			}
			last := o[len(o)-1]
			o = append(o[:len(o)-1], c, last)
			continue
		}
		c, ok := revLatin[r]
		if !ok {
			return nil, fmt.Errorf("U+%04X is not in the Latin table", r)
		}
		o = append(o, c)
	}
	return o, nil
}

func styleCodes(from, to Style, form int) []byte {
	var o []byte
	on := func(c byte) {
		o = append(o, c)
		if form == 2 {
			o = append(o, c)
		}
	}
	if from.I != to.I {
		if to.I {
			on(0x80)
		} else {
			o = append(o, 0x81)
		}
	}
	if from.U != to.U {
		if to.U {
			on(0x82)
		} else {
			o = append(o, 0x83)
		}
	}
	if from.B != to.B {
		if to.B {
			on(0x84)
		} else {
			o = append(o, 0x85)
		}
	}
	return o
}

// EncodeRow lays out one row. Every attribute still on at the end of the row is switched off there, so
// the encoding does not depend on whether attributes survive a line break.
func EncodeRow(row Row, teletext bool, r Render) ([]byte, error) {
	return encodeRow(row, teletext, r, false)
}

func encodeRow(row Row, teletext bool, r Render, last bool) ([]byte, error) {
	var o []byte
	ctl := teletext && r.Ctl >= 0x01 && r.Ctl <= 0x1F && r.Ctl != 0x0A && r.Ctl != 0x0B
	if ctl && r.CtlPos == 1 {
		o = append(o, byte(r.Ctl))
	}
	if teletext {
		switch r.Box {
		case 0, 5:
			o = append(o, 0x0B, 0x0B)
		case 1, 6:
			o = append(o, 0x0B)
		case 2:
			o = append(o, 0x0D, 0x0B, 0x0B)
		case 3:
			o = append(o, 0x07, 0x0B, 0x0B)
		case 4:
			o = append(o, 0x20, 0x20, 0x0B, 0x0B)
		}
		if r.Colour > 0 {
			o = append(o, byte(r.Colour-1))
		}
		if ctl && r.CtlPos == 0 {
			o = append(o, byte(r.Ctl))
		}
	}
	for i := 0; i < r.Indent; i++ {
		o = append(o, 0x20)
	}
	if r.StyleForm == 1 {
		o = append(o, 0x81, 0x83, 0x85)
	}
	var st Style
	for i, run := range row {
		if i == 1 && ctl && r.CtlPos == 3 {
			o = append(o, byte(r.Ctl))
		}
		if i > 0 && r.RunBlank {
			o = append(o, 0x20)
		}
		o = append(o, styleCodes(st, run.Style, r.StyleForm)...)
		st = run.Style
		b, err := EncodeText(run.Text)
		if err != nil {
			return nil, err
		}
		o = append(o, b...)
	}
	if !(last && r.NoFinalOff) {
		o = append(o, styleCodes(st, Style{}, r.StyleForm)...)
	}
	for i := 0; i < r.Trail; i++ {
		o = append(o, 0x20)
	}
	if ctl && r.CtlPos == 2 {
		o = append(o, byte(r.Ctl))
	}
	if teletext {
		switch r.Box {
		case 0, 2, 3, 4:
			o = append(o, 0x0A, 0x0A)
		case 6:
			o = append(o, 0x0A)
		case 5:
			o = append(o, 0x0A, 0x0A, 'z', 'z')
		}
	}
	return o, nil
}

// EncodeTextField lays out the rows of a block; the result is at most 112 bytes (error otherwise).
func EncodeTextField(rows []Row, teletext bool, r Render) ([]byte, error) {
	var o []byte
	if r.LeadingBreak {
		o = append(o, 0x8A)
	}
	for i, row := range rows {
		if i > 0 {
			o = append(o, 0x8A)
			if r.EmptyRow {
				o = append(o, 0x8A)
			}
		}
		b, err := encodeRow(row, teletext, r, i == len(rows)-1)
		if err != nil {
			return nil, err
		}
		o = append(o, b...)
		for k := 0; k < r.RowFill; k++ {
			o = append(o, 0x8F)
		}
	}
	if r.TrailingBreak {
		o = append(o, 0x8A)
	}
	if len(o) > 112 {
		return nil, fmt.Errorf("text field needs %d bytes", len(o))
	}
	return o, nil
}

// EncodeGSI builds the 1024-byte GSI block.
func EncodeGSI(g GSI, nblocks, nsubs int, tcf TC) []byte {
	b := make([]byte, 1024)
	for i := range b {
		b[i] = ' '
	}
	put := func(off int, v []byte) { copy(b[off:], v) }
	put(0, pad(g.CPN, 3))
	put(3, pad(dfcOf(g.FPS), 8))
	put(11, pad(g.DSC, 1))
	put(12, []byte("00"))
	put(14, pad(g.LC, 2))
	put(16, pad(g.OPT, 32))
	put(48, pad(g.OET, 32))
	put(80, pad(g.TPT, 32))
	put(112, pad(g.TET, 32))
	put(144, pad(g.TN, 32))
	put(176, pad(g.TCD, 32))
	put(208, pad(g.SLR, 16))
	put(224, pad(g.CD, 6))
	put(230, pad(g.RD, 6))
	put(236, num(g.RN, 2))
	put(238, num(nblocks, 5))
	put(243, num(nsubs, 5))
	tng := g.TNG
	if tng == 0 {
		tng = 1
	}
	put(248, num(tng, 3))
	put(251, num(g.MNC, 2))
	put(253, num(g.MNR, 2))
	put(255, pad(g.TCS, 1))
	put(256, tcText(g.TCP))
	put(264, tcText(tcf))
	put(272, num(g.TND, 1))
	put(273, num(g.DSN, 1))
	put(274, pad(g.CO, 3))
	put(277, pad(g.PUB, 32))
	put(309, pad(g.EN, 32))
	put(341, pad(g.ECD, 32))
	put(373, pad(g.Spare, 75))
	put(448, pad(g.UDA, 576))
	return b
}

// Encode renders the document.
func Encode(d Doc, r Render) ([]byte, error) {
	cues := d.Cues()
	var tcf TC
	if len(cues) > 0 {
		tcf = cues[0].In
	}
	out := EncodeGSI(d.GSI, len(d.Blocks), len(cues), tcf)
	teletext := d.GSI.DSC == "1" || d.GSI.DSC == "2"
	for _, blk := range d.Blocks {
		t := make([]byte, 128)
		t[0] = byte(blk.SGN)
		t[1] = byte(blk.SN)
		t[2] = byte(blk.SN >> 8)
		t[4] = byte(blk.CS)
		if blk.UserData {
			t[3] = 0xFE
			// user data: the text field is free-form; fill it with bytes that would be text, control
			// codes and line breaks if the block were (wrongly) taken for a subtitle
			copy(t[5:], []byte{23, 59, 59, 24, 23, 59, 59, 24, 7, 2, 0})
			copy(t[16:], []byte("\x0b\x0bUSER DATA\x0a\x0a\x8a\x80user\x81"))
			for i := 16 + 23; i < 128; i++ {
				t[i] = byte(i)
			}
			out = append(out, t...)
			continue
		}
		t[3] = 0xFF
		if blk.HasEBN {
			t[3] = byte(blk.EBN)
		}
		t[5], t[6], t[7], t[8] = byte(blk.In.H), byte(blk.In.M), byte(blk.In.S), byte(blk.In.F)
		t[9], t[10], t[11], t[12] = byte(blk.Out.H), byte(blk.Out.M), byte(blk.Out.S), byte(blk.Out.F)
		t[13] = byte(blk.VP)
		t[14] = byte(blk.JC)
		t[15] = byte(blk.CF)
		tf := blk.Raw
		if tf == nil {
			var err error
			if tf, err = EncodeTextField(blk.Rows, teletext, r); err != nil {
				return nil, err
			}
		} else if len(tf) > 112 {
			return nil, fmt.Errorf("raw text field of %d bytes", len(tf))
		}
		for i := 16; i < 128; i++ {
			t[i] = 0x8F
		}
		copy(t[16:], tf)
		out = append(out, t...)
	}
	return out, nil
}

// ---------------------------------------------------------------------------------------------
// Decoder
// ---------------------------------------------------------------------------------------------

// Notes are observations of the decoder about a file that a conforming writer should not cause.
type Notes struct {
	UnboxedTeletextRows int      // rows of a teletext file without any box code (decoded leniently as text)
	Unassigned          []byte   // codes met that the Latin table does not assign
	ControlInOpen       int      // codes below 20h in an open-subtitling text field
	DanglingDiacritic   int      // diacritic code not followed by a spacing character
	Other               []string // field-level oddities
	TNB, TNS            int      // GSI totals as written (number of TTI blocks, number of subtitles)
	TNG                 int      // total number of subtitle groups as written
	TCF                 TC       // timecode of the first in-cue as written
}

func trimField(b []byte) string { return strings.TrimRight(string(b), " ") }

func atoiField(b []byte, name string, n *Notes) int {
	s := strings.TrimSpace(string(b))
	if s == "" {
		return 0
	}
	v, err := strconv.Atoi(s)
	if err != nil {
		n.Other = append(n.Other, fmt.Sprintf("%s is not numeric: %q", name, b))
	}
	return v
}

func tcField(b []byte, name string, n *Notes) TC {
	s := string(b)
	if strings.TrimSpace(s) == "" {
		return TC{}
	}
	var t TC
	var err [4]error
	t.H, err[0] = strconv.Atoi(s[0:2])
	t.M, err[1] = strconv.Atoi(s[2:4])
	t.S, err[2] = strconv.Atoi(s[4:6])
	t.F, err[3] = strconv.Atoi(s[6:8])
	for _, e := range err {
		if e != nil {
			n.Other = append(n.Other, fmt.Sprintf("%s is not a timecode: %q", name, b))
			break
		}
	}
	return t
}

// DecodeRow decodes one row of a text field.
func DecodeRow(b []byte, teletext bool, n *Notes) Row {
	var row Row
	var st Style
	var txt []rune
	var pending rune
	flush := func() {
		if pending != 0 {
			n.DanglingDiacritic++
			pending = 0
		}
		if len(txt) > 0 {
			row = append(row, Run{Text: string(txt), Style: st})
			txt = nil
		}
	}
	boxed := !teletext
	if teletext {
		has := false
		for _, c := range b {
			if c == 0x0B || c == 0x0A {
				has = true
			}
		}
		if !has {
			// is there anything to show at all?
			for _, c := range b {
				if c >= 0x20 && c != 0x8F && !(c >= 0x80 && c <= 0x9F) {
					n.UnboxedTeletextRows++
					break
				}
			}
			boxed = true
		}
	}
	for _, c := range b {
		switch {
		case c < 0x20:
			flush()
			if !teletext {
				n.ControlInOpen++
				continue
			}
			if c == 0x0B {
				boxed = true
			} else if c == 0x0A {
				boxed = false
			}
		case c >= 0x80 && c <= 0x85:
			flush()
			switch c {
			case 0x80:
				st.I = true
			case 0x81:
				st.I = false
			case 0x82:
				st.U = true
			case 0x83:
				st.U = false
			case 0x84:
				st.B = true
			case 0x85:
				st.B = false
			}
		case c >= 0x86 && c <= 0x9F:
			// 8Fh filler, reserved codes: nothing to show
			if c != 0x8F {
				n.Other = append(n.Other, fmt.Sprintf("reserved code %02Xh in text", c))
			}
		default:
			if !boxed {
				continue
			}
			if m, ok := diacritic[c]; ok {
				if pending != 0 {
					n.DanglingDiacritic++
				}
				pending = m
				continue
			}
			r := latin[c]
			if r == 0 {
				r = decodeOnly[c]
			}
			if r == 0 {
				n.Unassigned = append(n.Unassigned, c)
				r = 0xFFFD
			}
			txt = append(txt, r)
			if pending != 0 {
				txt = append(txt, pending)
				pending = 0
			}
		}
	}
	flush()
	return row
}

func splitRows(tf []byte) [][]byte {
	var rows [][]byte
	start := 0
	for i, c := range tf {
		if c == 0x8A {
			rows = append(rows, tf[start:i])
			start = i + 1
		}
	}
	return append(rows, tf[start:])
}

// Decode parses an EBU STL file. Errors are conditions under which the file denotes nothing definite
// (wrong size, unknown disk format code, character table other than Latin).
func Decode(b []byte) (Doc, Notes, error) {
	var d Doc
	var n Notes
	if len(b) < 1024 || (len(b)-1024)%128 != 0 {
		return d, n, fmt.Errorf("size %d is not 1024 + 128*n", len(b))
	}
	g := &d.GSI
	g.CPN = string(b[0:3])
	switch string(b[3:11]) {
	case "STL25.01":
		g.FPS = 25
	case "STL30.01":
		g.FPS = 30
	default:
		return d, n, fmt.Errorf("unknown disk format code %q", b[3:11])
	}
	g.DSC = string(b[11:12])
	switch g.DSC {
	case " ", "0", "1", "2":
	default:
		n.Other = append(n.Other, fmt.Sprintf("display standard code %q", g.DSC))
	}
	if cct := string(b[12:14]); cct != "00" {
		return d, n, fmt.Errorf("character code table %q is not Latin", cct)
	}
	g.LC = trimField(b[14:16])
	g.OPT = trimField(b[16:48])
	g.OET = trimField(b[48:80])
	g.TPT = trimField(b[80:112])
	g.TET = trimField(b[112:144])
	g.TN = trimField(b[144:176])
	g.TCD = trimField(b[176:208])
	g.SLR = trimField(b[208:224])
	g.CD = trimField(b[224:230])
	g.RD = trimField(b[230:236])
	g.RN = atoiField(b[236:238], "RN", &n)
	tnb := atoiField(b[238:243], "TNB", &n)
	n.TNB = tnb
	n.TNS = atoiField(b[243:248], "TNS", &n)
	n.TNG = atoiField(b[248:251], "TNG", &n)
	if n.TNG != 1 {
		g.TNG = n.TNG
	}
	g.MNC = atoiField(b[251:253], "MNC", &n)
	g.MNR = atoiField(b[253:255], "MNR", &n)
	g.TCS = string(b[255:256])
	g.TCP = tcField(b[256:264], "TCP", &n)
	n.TCF = tcField(b[264:272], "TCF", &n)
	g.TND = atoiField(b[272:273], "TND", &n)
	g.DSN = atoiField(b[273:274], "DSN", &n)
	g.CO = trimField(b[274:277])
	g.PUB = trimField(b[277:309])
	g.EN = trimField(b[309:341])
	g.ECD = trimField(b[341:373])
	g.Spare = trimField(b[373:448])
	g.UDA = trimField(b[448:1024])
	nb := (len(b) - 1024) / 128
	if tnb != nb {
		n.Other = append(n.Other, fmt.Sprintf("TNB says %d blocks, file has %d", tnb, nb))
	}
	teletext := g.DSC == "1" || g.DSC == "2"
	for k := 0; k < nb; k++ {
		t := b[1024+128*k : 1024+128*(k+1)]
		blk := Block{SGN: int(t[0]), SN: int(t[1]) | int(t[2])<<8, CS: int(t[4])}
		if t[3] == 0xFE {
			blk.UserData = true
			d.Blocks = append(d.Blocks, blk)
			continue
		}
		if t[3] != 0xFF {
			blk.HasEBN, blk.EBN = true, int(t[3])
		}
		blk.In = TC{H: int(t[5]), M: int(t[6]), S: int(t[7]), F: int(t[8])}
		blk.Out = TC{H: int(t[9]), M: int(t[10]), S: int(t[11]), F: int(t[12])}
		for _, tc := range []TC{blk.In, blk.Out} {
			if tc.H > 23 || tc.M > 59 || tc.S > 59 || tc.F >= g.FPS {
				n.Other = append(n.Other, fmt.Sprintf("block %d: timecode %v out of range at %d fps", k, tc, g.FPS))
			}
		}
		blk.VP = int(t[13])
		blk.JC = int(t[14])
		blk.CF = int(t[15])
		for _, rb := range splitRows(t[16:128]) {
			row := DecodeRow(rb, teletext, &n)
			if RowDenote(row, nil) != "" {
				blk.Rows = append(blk.Rows, row)
			}
		}
		d.Blocks = append(d.Blocks, blk)
	}
	return d, n, nil
}
